// Engine dpmgr (C41, C44, C43 manager half): the real felix/dataplane/linux
// flowtableExclusionManager, endpointManager (with the real rules.RuleRenderer)
// and route managers, driven by generated dataplane-message histories against
// recording fakes.  The "schedule" is the message order plus when
// CompleteDeferredWork runs and which /proc/sys writes fail.
package h_dpmgr

import (
	"fmt"
	"os"
	"sort"
	"strings"
	"testing"

	apiv3 "github.com/projectcalico/api/pkg/apis/projectcalico/v3"
	googleproto "google.golang.org/protobuf/proto"

	"github.com/projectcalico/calico/felix/dataplane/common"
	intdataplane "github.com/projectcalico/calico/felix/dataplane/linux"
	"github.com/projectcalico/calico/felix/ifacemonitor"
	"github.com/projectcalico/calico/felix/ipsets"
	"github.com/projectcalico/calico/felix/nftables"
	"github.com/projectcalico/calico/felix/proto"
	"github.com/projectcalico/calico/felix/routetable"
	"github.com/projectcalico/calico/felix/rules"

	"verifsim/core"
)

func TestSim(t *testing.T) {
	core.Main(t, "dpmgr", []string{"C41", "C44", "C43"}, run)
}

// One OS process costs seconds of start-up here (felix/dataplane/linux links half of Kubernetes),
// so a run is a short series of independent episodes, each with fresh managers and its own
// swarm configuration, all drawn from the run's single choice stream.
func run(r *core.R) {
	maxEp := 8
	if r.Tier == "thorough" {
		maxEp = 8
	}
	n := r.Src.Range(1, maxEp, "n_episodes")
	r.Cfg("episodes", n)
	if r.Prop == "C43" {
		declareRoutes(r)
	} else {
		declare(r)
	}
	var fps []string
	for i := 0; i < n; i++ {
		r.Logf("---- episode %d", i)
		if r.Prop == "C43" {
			fps = append(fps, runRoutes(r))
		} else {
			fps = append(fps, runEndpoints(r))
		}
	}
	r.Fingerprint(strings.Join(fps, "\n"))
}

// ---------------------------------------------------------------- universe

type wepID struct{ orch, wl, ep string }

func (a wepID) less(b wepID) bool {
	if a.orch != b.orch {
		return a.orch < b.orch
	}
	if a.wl != b.wl {
		return a.wl < b.wl
	}
	return a.ep < b.ep
}
func (a wepID) String() string { return a.orch + "/" + a.wl + "/" + a.ep }
func (a wepID) pb() *proto.WorkloadEndpointID {
	return &proto.WorkloadEndpointID{OrchestratorId: a.orch, WorkloadId: a.wl, EndpointId: a.ep}
}

// Index order deliberately differs from the preference order.
var idUniverse = []wepID{
	{"k8s", "ns/pod-b", "eth0"},
	{"k8s", "ns/pod-a", "eth0"},
	{"k8s", "ns/pod-b", "eth1"},
	{"cni", "pod-c", "eth0"},
	{"k8s", "ns/pod-a", "eth1"},
}

func idIndex(id wepID) int {
	for i, x := range idUniverse {
		if x == id {
			return i
		}
	}
	return -1
}

func macOf(id wepID) string { return fmt.Sprintf("02:00:00:00:00:%02x", 0x10+idIndex(id)) }

// No name is a substring of another name or of a fixed chain name.
var ifaceUniverse = []string{"calia01", "calib02", "calic03"}
var hostIfaces = []string{"eth0", "eth1"}
var v4Pool = []string{"10.65.0.1/32", "10.65.0.2/32", "10.65.0.3/32", "10.65.0.4/32", "10.65.1.0/26"}
var v6Pool = []string{"fd00:65::1/128", "fd00:65::2/128", "fd00:65::3/128"}
var hostV4 = []string{"192.168.7.1", "192.168.7.2"}
var hostV6 = []string{"fd00:7::1"}
var policyNames = []string{"pol-a", "pol-b", "pol-c"}
var selectors = []string{"all()", "role == 'db'"}
var profilePool = []string{"kns.default", "ksa.default.sa"}
var spoofPool = []string{"172.16.9.0/24", "fd00:99::/64"}

// QoS feature bits drawn by the generator.
const (
	qDSCP = 1 << iota
	qInBW
	qEgBW
	qInPR
	qEgPR
	qInMC
	qEgMC
)

const qNeedsHooks = qDSCP | qInPR | qEgPR | qInMC | qEgMC

// ---------------------------------------------------------------- one dataplane instance (system under test, or a reference)

type runCfg struct {
	ipVersion uint8
	nft       bool
	ipvs      bool
	flowtable bool
	arp       bool
	flowlogs  bool
	spoof     bool
}

type dp struct {
	cfg                        *runCfg
	raw, mangle, filter, arp   *fakeTable
	rt                         *fakeRouteTable
	maps, arpMaps              *fakeMaps
	ft                         *fakeFlowtable
	ps                         *procSys
	la                         *fakeLinkAddrs
	status                     map[string]string
	ep                         intdataplane.SimBatchManager
}

func rulesConfig(c *runCfg) rules.Config {
	return rules.Config{
		IPSetConfigV4:          ipsets.NewIPVersionConfig(ipsets.IPFamilyV4, "cali", nil, nil),
		IPSetConfigV6:          ipsets.NewIPVersionConfig(ipsets.IPFamilyV6, "cali", nil, nil),
		MarkAccept:             0x8,
		MarkPass:               0x10,
		MarkScratch0:           0x20,
		MarkScratch1:           0x40,
		MarkDrop:               0x80,
		MarkEndpoint:           0xff00,
		MarkNonCaliEndpoint:    0x0100,
		KubeIPVSSupportEnabled: c.ipvs,
		WorkloadIfacePrefixes:  []string{"cali"},
		FlowLogsEnabled:        c.flowlogs,
	}
}

func newDP(c *runCfg) *dp {
	d := &dp{
		cfg: c, raw: newFakeTable("raw"), mangle: newFakeTable("mangle"), filter: newFakeTable("filter"),
		rt: newFakeRouteTable(), maps: newFakeMaps(), ps: newProcSys(),
		la: &fakeLinkAddrs{addrs: map[string]string{}}, status: map[string]string{},
	}
	rc := rulesConfig(c)
	var ft nftables.FlowTableHandler
	if c.flowtable {
		d.ft = &fakeFlowtable{}
		ft = d.ft
	}
	var arpT intdataplane.Table
	var arpM nftables.MapsDataplane
	if c.arp {
		d.arp = newFakeTable("arp")
		d.arpMaps = newFakeMaps()
		arpT, arpM = d.arp, d.arpMaps
	}
	d.ep = intdataplane.NewEndpointManagerForSim(
		intdataplane.EndpointManagerSimConfig{
			KubeIPVSSupportEnabled: c.ipvs,
			WlInterfacePrefixes:    []string{"cali"},
			BPFAttachType:          apiv3.BPFAttachOptionTCX,
			NFT:                    c.nft,
		},
		d.raw, d.mangle, d.filter,
		rules.NewRenderer(rc, c.nft),
		d.rt,
		c.ipVersion,
		rules.NewEndpointMarkMapper(rc.MarkEndpoint, rc.MarkNonCaliEndpoint),
		func(ipVersion uint8, id any, status string, extra any) {
			k := fmt.Sprintf("%v", id)
			if status == "" {
				delete(d.status, k)
			} else {
				d.status[k] = status
			}
		},
		d.ps.write, d.ps.stat,
		"1",
		d.maps,
		ft,
		common.NewCallbacks(),
		d.la,
		arpT, arpM,
	)
	return d
}

func (d *dp) apply() {
	_ = d.ep.ResolveUpdateBatch()
	_ = d.ep.CompleteDeferredWork()
}

var unorderedChains = map[string]bool{rules.ChainRpfSkip: true}

// canon flattens everything the endpoint manager programmed into key -> text.
func (d *dp) canon() map[string]string {
	out := map[string]string{}
	tabs := []*fakeTable{d.raw, d.mangle, d.filter}
	if d.arp != nil {
		tabs = append(tabs, d.arp)
	}
	for _, t := range tabs {
		for k, v := range t.canon(unorderedChains) {
			out["table "+t.name+" chain "+k] = v
		}
	}
	for k, v := range d.rt.canon() {
		out["routes class/iface "+k] = v
	}
	for k, v := range d.maps.canon() {
		out["nft map "+k] = v
	}
	if d.arpMaps != nil {
		for k, v := range d.arpMaps.canon() {
			out["arp map "+k] = v
		}
	}
	if d.ft != nil {
		out["flowtable workload interfaces"] = strings.Join(d.ft.wl, ",")
	}
	return out
}

func diffCanon(a, b map[string]string, an, bn string) []string {
	keys := map[string]bool{}
	for k := range a {
		keys[k] = true
	}
	for k := range b {
		keys[k] = true
	}
	ks := make([]string, 0, len(keys))
	for k := range keys {
		ks = append(ks, k)
	}
	sort.Strings(ks)
	var out []string
	for _, k := range ks {
		av, aok := a[k]
		bv, bok := b[k]
		switch {
		case aok && !bok:
			out = append(out, fmt.Sprintf("%s: only in %s:\n    %s", k, an, av))
		case !aok && bok:
			out = append(out, fmt.Sprintf("%s: only in %s:\n    %s", k, bn, bv))
		case av != bv:
			out = append(out, fmt.Sprintf("%s differs:\n  %s:\n    %s\n  %s:\n    %s", k, an, av, bn, bv))
		}
	}
	return out
}

func headDiffs(d []string) string {
	if len(d) > 4 {
		return strings.Join(d[:4], "\n") + fmt.Sprintf("\n... and %d more", len(d)-4)
	}
	return strings.Join(d, "\n")
}

// ---------------------------------------------------------------- model

type epModel struct {
	weps      map[wepID]*proto.WorkloadEndpoint // latest delivered value of every live endpoint
	feat      map[wepID]int                     // QoS feature bits the generator gave it
	heps      map[string]*proto.HostEndpoint
	hepDSCP   map[string]bool
	policies  map[string]string // active policy -> selector
	ifState   map[string]ifacemonitor.State
	hostAddrs map[string][]string
}

func sortedIDs[V any](m map[wepID]V) []wepID {
	ids := make([]wepID, 0, len(m))
	for id := range m {
		ids = append(ids, id)
	}
	sort.Slice(ids, func(i, j int) bool { return ids[i].less(ids[j]) })
	return ids
}

// ---------------------------------------------------------------- simulation

type sim struct {
	r    *core.R
	cfg  *runCfg
	m    *epModel
	sut  *dp
	ftx4 intdataplane.SimManager
	ftx6 intdataplane.SimManager
	set4 *fakeIPSets
	set6 *fakeIPSets

	ids    []wepID
	ifaces []string
	nHeps  int
	nPols  int

	batch map[wepID]int // messages per endpoint since the last apply (probes)
	lastMsg map[wepID]googleproto.Message
	applies int
}

func (s *sim) deliver(msg any) {
	s.sut.ep.OnUpdate(msg)
	s.ftx4.OnUpdate(msg)
	s.ftx6.OnUpdate(msg)
}

func polID(name string) *proto.PolicyID {
	return &proto.PolicyID{Name: name, Kind: apiv3.KindGlobalNetworkPolicy}
}

func (s *sim) activePolicyNames() []string { return core.SortedKeys(s.m.policies) }

// genTiers draws a tier list over the currently active policies (contract: an
// endpoint only references policies that were announced before it).
func (s *sim) genTiers(label string) []*proto.TierInfo {
	pols := s.activePolicyNames()
	if len(pols) == 0 || !s.r.Src.Chance(600, label+"_has_tiers") {
		return nil
	}
	pick := func(l string) []*proto.PolicyID {
		mask := s.r.Src.Intn(1<<len(pols), l)
		var out []*proto.PolicyID
		for i, p := range pols {
			if mask&(1<<i) != 0 {
				out = append(out, polID(p))
			}
		}
		return out
	}
	t := &proto.TierInfo{Name: "default", IngressPolicies: pick(label + "_ingress"), EgressPolicies: pick(label + "_egress")}
	if len(t.IngressPolicies) == 0 && len(t.EgressPolicies) == 0 {
		return nil
	}
	return []*proto.TierInfo{t}
}

func pickSubset(r *core.R, pool []string, min int, label string) []string {
	n := len(pool)
	mask := r.Src.Intn(1<<n, label)
	var out []string
	for i, p := range pool {
		if mask&(1<<i) != 0 {
			out = append(out, p)
		}
	}
	if len(out) < min {
		out = append(out, pool[0])
	}
	return out
}

func (s *sim) genQoS() (int, *proto.QoSControls, []*proto.QoSPolicy) {
	r := s.r
	if !r.Src.Chance(450, "wep_has_qos") {
		return 0, nil, nil
	}
	var mask int
	if r.Src.Chance(500, "wep_qos_multi") {
		mask = 1 + r.Src.Intn(127, "wep_qos_mask")
	} else {
		mask = 1 << r.Src.Intn(7, "wep_qos_single")
	}
	var pols []*proto.QoSPolicy
	if mask&qDSCP != 0 {
		pols = []*proto.QoSPolicy{{Destination: "0.0.0.0/0", Dscp: int32(10 + r.Src.Intn(3, "wep_dscp"))}}
	}
	var qc *proto.QoSControls
	if mask&^qDSCP != 0 {
		qc = &proto.QoSControls{}
		if mask&qInBW != 0 {
			qc.IngressBandwidth, qc.IngressBurst = 1000000, 4000000
		}
		if mask&qEgBW != 0 {
			qc.EgressBandwidth, qc.EgressBurst = 2000000, 4000000
		}
		if mask&qInPR != 0 {
			qc.IngressPacketRate, qc.IngressPacketBurst = 100, 5
		}
		if mask&qEgPR != 0 {
			qc.EgressPacketRate, qc.EgressPacketBurst = 200, 5
		}
		if mask&qInMC != 0 {
			qc.IngressMaxConnections = 10
		}
		if mask&qEgMC != 0 {
			qc.EgressMaxConnections = 20
		}
	}
	return mask, qc, pols
}

// genWep draws a new value for an endpoint.  For an existing endpoint every
// field is kept unless its own draw says otherwise (all-zero draws = duplicate).
func (s *sim) genWep(id wepID) (*proto.WorkloadEndpoint, int) {
	r := s.r
	old := s.m.weps[id]
	feat := s.m.feat[id]
	var ep *proto.WorkloadEndpoint
	fresh := old == nil
	if fresh {
		ep = &proto.WorkloadEndpoint{State: "active", Mac: macOf(id)}
	} else {
		ep = googleproto.Clone(old).(*proto.WorkloadEndpoint)
	}
	if fresh || r.Src.Chance(300, "wep_mut_name") {
		ep.Name = s.ifaces[r.Src.Intn(len(s.ifaces), "wep_name")]
	}
	if fresh || r.Src.Chance(250, "wep_mut_state") {
		ep.State = []string{"active", "inactive"}[r.Src.Weighted([]int{3, 1}, "wep_state")]
	}
	if fresh || r.Src.Chance(300, "wep_mut_v4") {
		ep.Ipv4Nets = pickSubset(r, v4Pool, 1, "wep_v4")
	}
	if fresh || r.Src.Chance(200, "wep_mut_v6") {
		ep.Ipv6Nets = pickSubset(r, v6Pool, 0, "wep_v6")
	}
	if fresh || r.Src.Chance(350, "wep_mut_qos") {
		feat, ep.QosControls, ep.QosPolicies = s.genQoS()
	}
	if fresh || r.Src.Chance(250, "wep_mut_tiers") {
		ep.Tiers = s.genTiers("wep")
	} else {
		// keep only references to policies that are still active (they all are: removal needs no referent)
	}
	if fresh || r.Src.Chance(150, "wep_mut_profiles") {
		ep.ProfileIds = pickSubset(r, profilePool, 0, "wep_profiles")
	}
	if s.cfg.spoof && (fresh || r.Src.Chance(150, "wep_mut_spoof")) {
		// on/off only, with a value fixed per endpoint: how an in-place change of the prefix list
		// is applied is not part of C44
		ep.AllowSpoofedSourcePrefixes = nil
		if r.Src.Chance(300, "wep_has_spoof") {
			ep.AllowSpoofedSourcePrefixes = []string{spoofPool[idIndex(id)%len(spoofPool)]}
		}
	}
	return ep, feat
}

func netsOf(ep *proto.WorkloadEndpoint, ver uint8) []string {
	if ver == 4 {
		return ep.Ipv4Nets
	}
	return ep.Ipv6Nets
}

func stripMask(s string) string { return strings.Split(s, "/")[0] }

func fmtWep(ep *proto.WorkloadEndpoint, feat int) string {
	var tiers []string
	for _, t := range ep.Tiers {
		var in, eg []string
		for _, p := range t.IngressPolicies {
			in = append(in, p.Name)
		}
		for _, p := range t.EgressPolicies {
			eg = append(eg, p.Name)
		}
		tiers = append(tiers, t.Name+":in["+strings.Join(in, ",")+"]eg["+strings.Join(eg, ",")+"]")
	}
	return fmt.Sprintf("iface=%s state=%s v4=%v v6=%v qos=%07b tiers=%v profiles=%v spoof=%v", ep.Name, ep.State, ep.Ipv4Nets, ep.Ipv6Nets, feat, tiers, ep.ProfileIds, ep.AllowSpoofedSourcePrefixes)
}

func (s *sim) opWepUpdate() {
	r := s.r
	id := s.ids[r.Src.Intn(len(s.ids), "wep_id")]
	old := s.m.weps[id]
	ep, feat := s.genWep(id)
	r.Op("WorkloadEndpointUpdate %s %s", id, fmtWep(ep, feat))
	// probes
	if old != nil {
		if googleproto.Equal(old, ep) {
			r.Probe("duplicate_update")
		}
		if old.Name != ep.Name {
			if s.winner(old.Name) == id {
				r.Probe("rename_of_preferred")
				if len(s.claimants(old.Name)) > 1 {
					r.Probe("rename_of_preferred_leaves_claimants")
				}
			} else {
				r.Probe("rename_of_shadowed")
			}
		}
		if s.m.feat[id]&qNeedsHooks != 0 && feat&qNeedsHooks == 0 {
			r.Probe("qos_hooks_dropped")
		}
		if old.State != ep.State {
			r.Probe("admin_state_change")
		}
	}
	if cl := s.claimants(ep.Name); len(cl) > 0 && !(len(cl) == 1 && cl[0] == id) {
		r.Probe("claims_name_in_use")
		if id.less(s.winner(ep.Name)) || s.winner(ep.Name) == id {
			r.Probe("newcomer_preferred")
		} else {
			r.Probe("newcomer_shadowed")
		}
	}
	s.batch[id]++
	if s.batch[id] > 1 {
		r.Probe("several_msgs_same_endpoint_in_batch")
	}
	s.m.weps[id] = ep
	s.m.feat[id] = feat
	msg := &proto.WorkloadEndpointUpdate{Id: id.pb(), Endpoint: googleproto.Clone(ep).(*proto.WorkloadEndpoint)}
	s.lastMsg[id] = msg
	s.deliver(msg)
}

func (s *sim) opWepDuplicate() {
	ids := sortedIDs(s.m.weps)
	if len(ids) == 0 {
		return
	}
	id := ids[s.r.Src.Intn(len(ids), "dup_id")]
	s.r.Op("duplicate WorkloadEndpointUpdate %s", id)
	s.r.Probe("duplicate_update")
	s.batch[id]++
	s.deliver(&proto.WorkloadEndpointUpdate{Id: id.pb(), Endpoint: googleproto.Clone(s.m.weps[id]).(*proto.WorkloadEndpoint)})
}

func (s *sim) opWepRemove() {
	ids := sortedIDs(s.m.weps)
	if len(ids) == 0 {
		return
	}
	r := s.r
	id := ids[r.Src.Intn(len(ids), "rm_id")]
	ep := s.m.weps[id]
	r.Op("WorkloadEndpointRemove %s (iface %s)", id, ep.Name)
	if s.winner(ep.Name) == id {
		if len(s.claimants(ep.Name)) > 1 {
			r.Probe("remove_preferred_with_shadowed")
			if len(s.claimants(ep.Name)) > 2 {
				r.Probe("remove_preferred_with_2plus_shadowed")
			}
		}
	} else {
		r.Probe("remove_shadowed")
	}
	if s.m.feat[id]&qNeedsHooks != 0 {
		r.Probe("remove_excluded_endpoint")
	}
	s.batch[id]++
	if s.batch[id] > 1 {
		r.Probe("several_msgs_same_endpoint_in_batch")
	}
	delete(s.m.weps, id)
	delete(s.m.feat, id)
	s.deliver(&proto.WorkloadEndpointRemove{Id: id.pb()})
}

func (s *sim) opIfaceState() {
	r := s.r
	all := append(append([]string(nil), s.ifaces...), hostIfaces[0])
	name := all[r.Src.Intn(len(all), "iface_name")]
	st := []ifacemonitor.State{ifacemonitor.StateUp, ifacemonitor.StateDown, ifacemonitor.StateNotPresent}[r.Src.Weighted([]int{5, 2, 2}, "iface_state")]
	r.Op("iface %s -> %q", name, string(st))
	if old, ok := s.m.ifState[name]; ok && old != st {
		r.Probe("iface_flap")
	}
	s.m.ifState[name] = st
	s.sut.ps.absent[name] = st == ifacemonitor.StateNotPresent
	if st == ifacemonitor.StateUp && r.Src.Chance(150, "iface_up_but_procsys_missing") {
		// the monitor reported the interface up but its /proc/sys directory is not there (not yet
		// visible, or the interface is already gone again): writes fail with ENOENT until a later event
		s.sut.ps.absent[name] = true
		r.Logf("  /proc/sys entries of %s are missing", name)
	}
	s.deliver(intdataplane.NewIfaceStateUpdate(name, st, 10+idxOf(all, name)))
}

func idxOf(xs []string, x string) int {
	for i, y := range xs {
		if y == x {
			return i
		}
	}
	return -1
}

func (s *sim) opHostAddrs() {
	r := s.r
	name := hostIfaces[r.Src.Intn(len(hostIfaces), "haddr_iface")]
	addrs := append(pickSubset(r, hostV4, 0, "haddr_v4"), pickSubset(r, hostV6, 0, "haddr_v6")...)
	r.Op("iface addrs %s -> %v", name, addrs)
	s.m.hostAddrs[name] = addrs
	s.deliver(intdataplane.NewIfaceAddrsUpdate(name, addrs...))
}

func (s *sim) genHep(id string) (*proto.HostEndpoint, bool) {
	r := s.r
	h := &proto.HostEndpoint{}
	wStar := 1
	if r.Armed("C44") && os.Getenv("VERIF_DPMGR_HEPSTAR") == "" {
		// An all-interfaces host endpoint whose policy changes selector loses its chains (defect outside
		// C44, reported separately: updateHostEndpoints deletes the "*" entry from the map it shares with
		// m.newIfaceNameToHostEpID); the whole-state comparison of C44 would attribute that to C44.
		wStar = 0
	}
	h.Name = []string{"eth0", "", "eth1", "*"}[r.Src.Weighted([]int{4, 3, 2, wStar}, "hep_name")]
	h.ExpectedIpv4Addrs = pickSubset(r, hostV4, 0, "hep_v4")
	h.ExpectedIpv6Addrs = pickSubset(r, hostV6, 0, "hep_v6")
	h.Tiers = s.genTiers("hep")
	if r.Src.Chance(200, "hep_forward") {
		h.ForwardTiers = s.genTiers("hepfwd")
	}
	h.ProfileIds = pickSubset(r, profilePool, 0, "hep_profiles")
	dscp := r.Src.Chance(500, "hep_dscp")
	if dscp {
		h.QosPolicies = []*proto.QoSPolicy{{Destination: "0.0.0.0/0", Dscp: 20}}
	}
	return h, dscp
}

func hepName(i int) string { return fmt.Sprintf("hep-%c", 'a'+i) }

func (s *sim) opHepUpdate() {
	r := s.r
	id := hepName(r.Src.Intn(s.nHeps, "hep_id"))
	h, dscp := s.genHep(id)
	r.Op("HostEndpointUpdate %s name=%q v4=%v v6=%v dscp=%v tiers=%d fwd=%d", id, h.Name, h.ExpectedIpv4Addrs, h.ExpectedIpv6Addrs, dscp, len(h.Tiers), len(h.ForwardTiers))
	if dscp {
		r.Probe("host_endpoint_excluded")
	} else if s.m.hepDSCP[id] {
		r.Probe("qos_hooks_dropped")
	}
	s.m.heps[id] = h
	s.m.hepDSCP[id] = dscp
	s.deliver(&proto.HostEndpointUpdate{Id: &proto.HostEndpointID{EndpointId: id}, Endpoint: googleproto.Clone(h).(*proto.HostEndpoint)})
}

func (s *sim) opHepRemove() {
	ids := core.SortedKeys(s.m.heps)
	if len(ids) == 0 {
		return
	}
	id := ids[s.r.Src.Intn(len(ids), "hep_rm_id")]
	s.r.Op("HostEndpointRemove %s", id)
	if s.m.hepDSCP[id] {
		s.r.Probe("remove_excluded_endpoint")
	}
	delete(s.m.heps, id)
	delete(s.m.hepDSCP, id)
	s.deliver(&proto.HostEndpointRemove{Id: &proto.HostEndpointID{EndpointId: id}})
}

func tiersRef(ts []*proto.TierInfo, name string) bool {
	for _, t := range ts {
		for _, p := range t.IngressPolicies {
			if p.Name == name {
				return true
			}
		}
		for _, p := range t.EgressPolicies {
			if p.Name == name {
				return true
			}
		}
	}
	return false
}

func (s *sim) policyReferenced(name string) bool {
	for _, ep := range s.m.weps {
		if tiersRef(ep.Tiers, name) {
			return true
		}
	}
	for _, h := range s.m.heps {
		if tiersRef(h.Tiers, name) || tiersRef(h.ForwardTiers, name) {
			return true
		}
	}
	return false
}

func (s *sim) opPolicy() {
	r := s.r
	name := policyNames[r.Src.Intn(s.nPols, "pol_name")]
	_, active := s.m.policies[name]
	if active && !s.policyReferenced(name) && r.Src.Chance(300, "pol_remove") {
		r.Op("ActivePolicyRemove %s", name)
		delete(s.m.policies, name)
		s.deliver(&proto.ActivePolicyRemove{Id: polID(name)})
		return
	}
	sel := selectors[r.Src.Intn(len(selectors), "pol_selector")]
	r.Op("ActivePolicyUpdate %s selector=%q", name, sel)
	if active && s.m.policies[name] != sel && s.policyReferenced(name) {
		r.Probe("selector_change_on_referenced_policy")
	}
	s.m.policies[name] = sel
	s.deliver(&proto.ActivePolicyUpdate{Id: polID(name), Policy: &proto.Policy{OriginalSelector: sel}})
}

// ---------------------------------------------------------------- model queries

func (s *sim) claimants(name string) []wepID {
	var out []wepID
	for _, id := range sortedIDs(s.m.weps) {
		if s.m.weps[id].Name == name {
			out = append(out, id)
		}
	}
	return out
}

var noID = wepID{}

// winner: the documented preference is "predictable": the smallest id.
func (s *sim) winner(name string) wepID {
	cl := s.claimants(name)
	if len(cl) == 0 {
		return noID
	}
	return cl[0]
}

// ---------------------------------------------------------------- apply + oracles

func (s *sim) opApply(quiesce bool) {
	r := s.r
	ps := s.sut.ps
	ps.failAll, ps.failFor = false, ""
	mode := 0
	if !quiesce {
		mode = r.Src.Weighted([]int{6, 1, 2}, "procsys_mode")
	}
	switch mode {
	case 1:
		ps.failAll = true
	case 2:
		ps.failFor = s.ifaces[r.Src.Intn(len(s.ifaces), "procsys_fail_iface")]
	}
	reps := 1
	if !quiesce && r.Src.Chance(200, "apply_repeat") {
		reps = 2 + r.Src.Intn(2, "apply_reps")
	}
	for i := 0; i < reps; i++ {
		f0, w0 := ps.failures, ps.writes
		r.Op("apply (ResolveUpdateBatch + CompleteDeferredWork) procsys_mode=%d", mode)
		s.sut.apply()
		_ = s.ftx4.CompleteDeferredWork()
		_ = s.ftx6.CompleteDeferredWork()
		s.applies++
		if ps.failures > f0 {
			if mode != 0 {
				r.Fault("procsys_write_error")
			} else {
				r.Fault("procsys_iface_absent")
			}
		}
		if i > 0 && ps.writes > w0 {
			r.Probe("repeat_apply_retried_procsys")
		}
		s.batch = map[wepID]int{}
		s.checkAll(fmt.Sprintf("apply #%d", s.applies))
		if i > 0 {
			r.Probe("repeated_apply")
		}
	}
	ps.failAll, ps.failFor = false, ""
}

func (s *sim) checkAll(after string) {
	if s.r.Armed("C41") {
		s.checkC41(after)
	}
	if s.r.Armed("C44") {
		s.checkC44(after)
	}
}

// C41: the member set handed to the no-flow-offload set equals the current
// addresses of every endpoint with DSCP marking or a connection / packet-rate limit.
func (s *sim) checkC41(after string) {
	for _, ver := range []uint8{4, 6} {
		want := map[string]bool{}
		owners := map[string]int{}
		for _, id := range sortedIDs(s.m.weps) {
			if s.m.feat[id]&qNeedsHooks == 0 {
				continue
			}
			for _, n := range netsOf(s.m.weps[id], ver) {
				want[stripMask(n)] = true
				owners[stripMask(n)]++
			}
		}
		for _, id := range core.SortedKeys(s.m.heps) {
			if !s.m.hepDSCP[id] {
				continue
			}
			addrs := s.m.heps[id].ExpectedIpv4Addrs
			if ver == 6 {
				addrs = s.m.heps[id].ExpectedIpv6Addrs
			}
			for _, a := range addrs {
				want[stripMask(a)] = true
				owners[stripMask(a)]++
			}
		}
		for _, n := range owners {
			if n > 1 {
				s.r.Probe("excluded_address_shared")
				break
			}
		}
		fs := s.set4
		if ver == 6 {
			fs = s.set6
		}
		got, ok := fs.members(rules.IPSetIDNoFlowOffload)
		s.r.Check("no_offload_set_exists", ok, "after %s: IPv%d no-flow-offload IP set was never handed to the IP sets dataplane", after, ver)
		wantL := make([]string, 0, len(want))
		for k := range want {
			wantL = append(wantL, k)
		}
		sort.Strings(wantL)
		s.r.Check("no_offload_set_members", strings.Join(got, " ") == strings.Join(wantL, " "),
			"after %s: IPv%d no-flow-offload set holds [%s] but the endpoints needing per-packet processing have addresses [%s]", after, ver, strings.Join(got, " "), strings.Join(wantL, " "))
		if len(wantL) > 0 {
			s.r.Probe("exclusion_set_nonempty")
		}
		meta := fs.meta[rules.IPSetIDNoFlowOffload]
		s.r.Check("no_offload_set_type", meta.Type == ipsets.IPSetTypeHashIP, "after %s: no-flow-offload set has type %q", after, string(meta.Type))
	}
}

func (s *sim) feedReference(d *dp, order []wepID) {
	for _, p := range s.activePolicyNames() {
		d.ep.OnUpdate(&proto.ActivePolicyUpdate{Id: polID(p), Policy: &proto.Policy{OriginalSelector: s.m.policies[p]}})
	}
	all := append(append([]string(nil), s.ifaces...), hostIfaces[0])
	for i, n := range all {
		if st, ok := s.m.ifState[n]; ok {
			d.ep.OnUpdate(intdataplane.NewIfaceStateUpdate(n, st, 10+i))
		}
	}
	for _, n := range core.SortedKeys(s.m.hostAddrs) {
		d.ep.OnUpdate(intdataplane.NewIfaceAddrsUpdate(n, s.m.hostAddrs[n]...))
	}
	for _, id := range core.SortedKeys(s.m.heps) {
		d.ep.OnUpdate(&proto.HostEndpointUpdate{Id: &proto.HostEndpointID{EndpointId: id}, Endpoint: googleproto.Clone(s.m.heps[id]).(*proto.HostEndpoint)})
	}
	for _, id := range order {
		d.ep.OnUpdate(&proto.WorkloadEndpointUpdate{Id: id.pb(), Endpoint: googleproto.Clone(s.m.weps[id]).(*proto.WorkloadEndpoint)})
	}
	d.apply()
}

// C44: each interface name carries the state of exactly its preferred live
// claimant; nothing remains for names no live endpoint uses; identical for
// every order in which the same final set could have arrived.
func (s *sim) checkC44(after string) {
	r := s.r
	d := s.sut
	ver := s.cfg.ipVersion
	fromKeys := d.maps.keys(rules.NftablesFromWorkloadDispatchMap)
	toKeys := d.maps.keys(rules.NftablesToWorkloadDispatchMap)
	var wantKeys []string
	for _, name := range ifaceUniverse {
		w := s.winner(name)
		var gotRoutes []string
		macs := map[string]bool{}
		for _, t := range d.rt.routes[routetable.RouteClassLocalWorkload][name] {
			gotRoutes = append(gotRoutes, t.CIDR.String())
			macs[t.DestMAC.String()] = true
		}
		sort.Strings(gotRoutes)
		var chains []string
		for _, cn := range core.SortedKeys(d.filter.chains) {
			if strings.Contains(cn, name) {
				chains = append(chains, cn)
			}
		}
		if w == noID {
			r.Check("unused_name_has_no_routes", len(gotRoutes) == 0, "after %s: interface name %s is claimed by no live endpoint but still has routes %v", after, name, gotRoutes)
			r.Check("unused_name_has_no_chains", len(chains) == 0, "after %s: interface name %s is claimed by no live endpoint but the filter table still holds its chains %v", after, name, chains)
			continue
		}
		wantKeys = append(wantKeys, name)
		ep := s.m.weps[w]
		var wantRoutes []string
		if ep.State == "active" {
			wantRoutes = append(wantRoutes, netsOf(ep, ver)...)
		}
		sort.Strings(wantRoutes)
		r.Check("routes_of_preferred_endpoint", strings.Join(gotRoutes, " ") == strings.Join(wantRoutes, " "),
			"after %s: interface %s (claimants %v, preferred %s, state %s) has routes %v, expected %v", after, name, s.claimants(name), w, ep.State, gotRoutes, wantRoutes)
		if len(gotRoutes) > 0 {
			r.Check("routes_carry_preferred_mac", len(macs) == 1 && macs[macOf(w)], "after %s: routes on %s carry MACs %v, preferred endpoint %s has %s", after, name, core.SortedKeys(macs), w, macOf(w))
		}
		r.Check("claimed_name_has_chains", len(chains) > 0, "after %s: interface %s is claimed by live endpoints %v but the filter table holds no chain for it", after, name, s.claimants(name))
	}
	sort.Strings(wantKeys)
	r.Check("dispatch_entries", strings.Join(fromKeys, " ") == strings.Join(wantKeys, " ") && strings.Join(toKeys, " ") == strings.Join(wantKeys, " "),
		"after %s: workload dispatch maps have entries from=%v to=%v, interface names with a live claimant are %v", after, fromKeys, toKeys, wantKeys)

	// differential 1: a fresh manager that only ever saw the preferred endpoints
	got := d.canon()
	var winners []wepID
	for _, name := range ifaceUniverse {
		if w := s.winner(name); w != noID {
			winners = append(winners, w)
		}
	}
	ref1 := newDP(s.cfg)
	s.feedReference(ref1, winners)
	df := diffCanon(got, ref1.canon(), "manager under test", "fresh manager fed only the preferred endpoints")
	r.Check("state_is_that_of_preferred_endpoints", len(df) == 0, "after %s: programmed state differs from a fresh manager fed only the preferred endpoint of each interface name:\n%s", after, headDiffs(df))

	// differential 2: a fresh manager fed the whole final set in a seed-chosen order
	live := sortedIDs(s.m.weps)
	perm := r.Src.Perm(len(live), "ref_order")
	order := make([]wepID, len(live))
	for i, p := range perm {
		order[i] = live[p]
	}
	ref2 := newDP(s.cfg)
	s.feedReference(ref2, order)
	df = diffCanon(got, ref2.canon(), "manager under test", "fresh manager fed the final set")
	r.Check("state_independent_of_history", len(df) == 0, "after %s: programmed state differs from a fresh manager fed the same final endpoint set in order %v:\n%s", after, order, headDiffs(df))
	if len(live) > len(winners) {
		r.Probe("checked_with_shadowed_endpoints")
	}
}

// ---------------------------------------------------------------- run

func declare(r *core.R) {
	r.FaultDecl("procsys_write_error", "procsys_iface_absent")
	r.ProbeDecl("duplicate_update", "rename_of_preferred", "rename_of_preferred_leaves_claimants", "rename_of_shadowed", "qos_hooks_dropped",
		"admin_state_change", "claims_name_in_use", "newcomer_preferred", "newcomer_shadowed", "several_msgs_same_endpoint_in_batch",
		"remove_preferred_with_shadowed", "remove_preferred_with_2plus_shadowed", "remove_shadowed", "remove_excluded_endpoint", "iface_flap",
		"host_endpoint_excluded", "selector_change_on_referenced_policy", "repeated_apply", "repeat_apply_retried_procsys",
		"excluded_address_shared", "exclusion_set_nonempty", "checked_with_shadowed_endpoints")
}

func runEndpoints(r *core.R) string {
	cfg := &runCfg{ipVersion: 4}
	if r.Src.Chance(250, "cfg_ipv6") {
		cfg.ipVersion = 6
	}
	cfg.nft = r.Src.Chance(500, "cfg_nft")
	cfg.ipvs = r.Src.Chance(400, "cfg_ipvs")
	cfg.flowtable = r.Src.Chance(500, "cfg_flowtable")
	cfg.arp = cfg.nft && cfg.ipVersion == 4 && r.Src.Chance(500, "cfg_arp")
	cfg.flowlogs = r.Src.Chance(200, "cfg_flowlogs")
	cfg.spoof = r.Src.Chance(300, "cfg_spoof")
	s := &sim{r: r, cfg: cfg, batch: map[wepID]int{}, lastMsg: map[wepID]googleproto.Message{},
		m: &epModel{weps: map[wepID]*proto.WorkloadEndpoint{}, feat: map[wepID]int{}, heps: map[string]*proto.HostEndpoint{}, hepDSCP: map[string]bool{},
			policies: map[string]string{}, ifState: map[string]ifacemonitor.State{}, hostAddrs: map[string][]string{}}}
	nIDs := r.Src.Range(2, len(idUniverse), "n_endpoints")
	nIf := r.Src.Range(1, len(ifaceUniverse), "n_ifaces")
	s.ids = idUniverse[:nIDs]
	s.ifaces = ifaceUniverse[:nIf]
	s.nHeps = r.Src.Range(1, 2, "n_heps")
	s.nPols = r.Src.Range(1, len(policyNames), "n_policies")
	maxOps := 70
	if r.Tier == "thorough" {
		maxOps = 120
	}
	nOps := r.Src.Range(6, maxOps, "n_ops")
	r.Cfg("ip_version", int(cfg.ipVersion))
	r.Cfg("nft", cfg.nft)
	r.Cfg("ipvs", cfg.ipvs)
	r.Cfg("flowtable", cfg.flowtable)
	r.Cfg("arp", cfg.arp)
	r.Cfg("spoof", cfg.spoof)
	r.Cfg("endpoints", nIDs)
	r.Cfg("ifaces", nIf)
	r.Cfg("ops", nOps)

	// harness precondition: the endpoint-mark positions of the interface names do not collide
	// (otherwise mark values would legitimately depend on allocation order).
	rc := rulesConfig(cfg)
	seen := map[uint32]string{}
	for _, n := range ifaceUniverse {
		mk, err := rules.NewEndpointMarkMapper(rc.MarkEndpoint, rc.MarkNonCaliEndpoint).GetEndpointMark(n)
		if err != nil {
			r.HarnessError("mark mapper: %v", err)
		}
		if o, dup := seen[mk]; dup {
			r.HarnessError("interface names %s and %s hash to the same endpoint mark", o, n)
		}
		seen[mk] = n
	}

	s.sut = newDP(cfg)
	for _, n := range s.ifaces {
		s.sut.ps.absent[n] = true // interfaces do not exist until the monitor reports them
	}
	s.set4, s.set6 = newFakeIPSets(ipsets.IPFamilyV4), newFakeIPSets(ipsets.IPFamilyV6)
	s.ftx4 = intdataplane.NewFlowtableExclusionManagerForSim(s.set4, 4, 1024)
	s.ftx6 = intdataplane.NewFlowtableExclusionManagerForSim(s.set6, 6, 1024)

	// swarm: op mix
	w := []int{
		r.Src.Range(8, 30, "w_wep_update"),
		r.Src.Range(0, 6, "w_wep_dup"),
		r.Src.Range(2, 14, "w_wep_remove"),
		r.Src.Range(2, 10, "w_iface"),
		r.Src.Range(4, 20, "w_apply"),
		r.Src.Range(0, 6, "w_hep_update"),
		r.Src.Range(0, 3, "w_hep_remove"),
		r.Src.Range(0, 6, "w_policy"),
		r.Src.Range(0, 3, "w_host_addrs"),
	}
	for i := 0; i < nOps; i++ {
		switch r.Src.Weighted(w, "op") {
		case 0:
			s.opWepUpdate()
		case 1:
			s.opWepDuplicate()
		case 2:
			s.opWepRemove()
		case 3:
			s.opIfaceState()
		case 4:
			s.opApply(false)
		case 5:
			s.opHepUpdate()
		case 6:
			s.opHepRemove()
		case 7:
			s.opPolicy()
		case 8:
			s.opHostAddrs()
		}
	}
	// quiescence: no more messages, writes succeed, interfaces exist
	for _, n := range s.ifaces {
		if s.m.ifState[n] != ifacemonitor.StateNotPresent {
			s.sut.ps.absent[n] = false
		}
	}
	s.opApply(true)
	s.opApply(true)

	var fp []string
	for _, id := range sortedIDs(s.m.weps) {
		fp = append(fp, id.String()+" "+fmtWep(s.m.weps[id], s.m.feat[id]))
	}
	for _, id := range core.SortedKeys(s.m.heps) {
		fp = append(fp, fmt.Sprintf("%s dscp=%v %v", id, s.m.hepDSCP[id], s.m.heps[id].ExpectedIpv4Addrs))
	}
	return fmt.Sprintf("%s|v%d nft=%v", strings.Join(fp, ";"), cfg.ipVersion, cfg.nft)
}
