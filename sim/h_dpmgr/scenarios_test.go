// Hand-written minimal scenarios for the defects the engine found in
// endpoint_mgr.go (documentation / regression aid; not part of any check).
// Run: VERIF_SCENARIOS=1 <dpmgr.test> -test.run TestDefectScenarios -test.v
package h_dpmgr

import (
	"os"
	"sort"
	"strings"
	"testing"

	googleproto "google.golang.org/protobuf/proto"

	intdataplane "github.com/projectcalico/calico/felix/dataplane/linux"
	"github.com/projectcalico/calico/felix/ifacemonitor"
	"github.com/projectcalico/calico/felix/proto"
	"github.com/projectcalico/calico/felix/routetable"
)

func scWep(name string, ip4 string, pols ...string) *proto.WorkloadEndpoint {
	ep := &proto.WorkloadEndpoint{State: "active", Name: name, Mac: "02:00:00:00:00:01", Ipv4Nets: []string{ip4}}
	if len(pols) > 0 {
		t := &proto.TierInfo{Name: "default"}
		for _, p := range pols {
			t.IngressPolicies = append(t.IngressPolicies, polID(p))
		}
		ep.Tiers = []*proto.TierInfo{t}
	}
	return ep
}

func scUpd(d *dp, id wepID, ep *proto.WorkloadEndpoint) {
	d.ep.OnUpdate(&proto.WorkloadEndpointUpdate{Id: id.pb(), Endpoint: googleproto.Clone(ep).(*proto.WorkloadEndpoint)})
}
func scRm(d *dp, id wepID) { d.ep.OnUpdate(&proto.WorkloadEndpointRemove{Id: id.pb()}) }

func scRoutes(d *dp, name string) string {
	var out []string
	for _, t := range d.rt.routes[routetable.RouteClassLocalWorkload][name] {
		out = append(out, t.CIDR.String())
	}
	sort.Strings(out)
	return strings.Join(out, ",")
}

func scChains(t *fakeTable, sub string) string {
	var out []string
	for n := range t.chains {
		if strings.Contains(n, sub) {
			out = append(out, n)
		}
	}
	sort.Strings(out)
	return strings.Join(out, ",")
}

func TestDefectScenarios(t *testing.T) {
	if os.Getenv("VERIF_SCENARIOS") == "" {
		t.Skip("set VERIF_SCENARIOS=1")
	}
	A := wepID{"k8s", "ns/pod-a", "eth0"} // preferred over B and C
	B := wepID{"k8s", "ns/pod-b", "eth0"}
	X, Y := "calia01", "calib02"
	cfg := &runCfg{ipVersion: 4, nft: true, arp: true, spoof: true}
	report := func(name string, bad int, n int, detail string) {
		if bad > 0 {
			t.Logf("SCENARIO %s: DEFECT REPRODUCED in %d/%d tries: %s", name, bad, n, detail)
		} else {
			t.Logf("SCENARIO %s: behaves correctly in %d/%d tries", name, n, n)
		}
	}
	const N = 24 // map iteration order varies between tries

	bad, detail := 0, ""
	for i := 0; i < N; i++ {
		d := newDP(cfg)
		scUpd(d, A, scWep(X, "10.65.0.1/32"))
		scUpd(d, B, scWep(X, "10.65.0.2/32"))
		d.apply()
		scRm(d, A)
		scRm(d, B)
		d.apply()
		if r, c := scRoutes(d, X), scChains(d.filter, X); r != "" || c != "" {
			bad++
			detail = "both claimants of " + X + " removed in one batch, yet routes [" + r + "] chains [" + c + "] remain"
		}
	}
	report("1 promotion overwrites the queued removal of the shadowed endpoint", bad, N, detail)

	bad, detail = 0, ""
	for i := 0; i < N; i++ {
		d := newDP(cfg)
		scUpd(d, A, scWep(X, "10.65.0.1/32"))
		scUpd(d, B, scWep(X, "10.65.0.2/32"))
		d.apply()
		scUpd(d, B, scWep(Y, "10.65.0.3/32"))
		d.apply()
		scRm(d, A)
		d.apply()
		if rx, ry := scRoutes(d, X), scRoutes(d, Y); rx != "" || ry != "10.65.0.3/32" {
			bad++
			detail = "B moved to " + Y + " long ago, A removed: routes on " + X + " [" + rx + "], on " + Y + " [" + ry + "] (want none / 10.65.0.3/32)"
		}
	}
	report("2 stale shadowed copy is promoted", bad, N, detail)

	bad, detail = 0, ""
	for i := 0; i < N; i++ {
		d := newDP(cfg)
		scUpd(d, A, scWep(X, "10.65.0.1/32"))
		scUpd(d, B, scWep(X, "10.65.0.2/32"))
		d.apply()
		scUpd(d, A, scWep(Y, "10.65.0.1/32"))
		d.apply()
		if rx := scRoutes(d, X); rx != "10.65.0.2/32" {
			bad++
			detail = "A left " + X + " for " + Y + "; B still claims " + X + " but it has routes [" + rx + "] chains [" + scChains(d.filter, X) + "]"
		}
	}
	report("3 rename of the preferred endpoint does not promote the shadowed one", bad, N, detail)

	bad, detail = 0, ""
	for i := 0; i < N; i++ {
		d := newDP(cfg)
		scUpd(d, A, scWep(Y, "10.65.0.1/32"))
		scUpd(d, B, scWep(X, "10.65.0.2/32"))
		d.apply()
		scUpd(d, B, scWep(Y, "10.65.0.2/32")) // B now wants Y, where the preferred A lives
		d.apply()
		if rx, cx := scRoutes(d, X), scChains(d.filter, X); rx != "" || cx != "" {
			bad++
			detail = "B moved from " + X + " to the taken name " + Y + " (it is shadowed there) but " + X + " keeps routes [" + rx + "] chains [" + cx + "]"
		}
	}
	report("4 endpoint that becomes shadowed by renaming keeps its old interface's state", bad, N, detail)

	bad, detail = 0, ""
	for i := 0; i < 1; i++ {
		d := newDP(cfg)
		for _, p := range []string{"pol-a", "pol-b"} {
			d.ep.OnUpdate(&proto.ActivePolicyUpdate{Id: polID(p), Policy: &proto.Policy{OriginalSelector: "all()"}})
		}
		ep := scWep(X, "10.65.0.1/32", "pol-a", "pol-b")
		ep.AllowSpoofedSourcePrefixes = []string{"172.16.9.0/24"}
		scUpd(d, A, ep)
		d.apply()
		ep2 := googleproto.Clone(ep).(*proto.WorkloadEndpoint)
		ep2.Name = Y
		scUpd(d, A, ep2)
		d.apply()
		scRm(d, A)
		d.apply()
		var left []string
		if c := scChains(d.filter, "cali-gi-") + scChains(d.filter, "cali-go-"); c != "" {
			left = append(left, "policy-group chains ["+c+"]")
		}
		if c := scChains(d.arp, X); c != "" {
			left = append(left, "ARP chains ["+c+"]")
		}
		if c, ok := d.raw.chains["cali-rpf-skip"]; ok && len(c.Rules) > 0 {
			left = append(left, "rpf-skip rule ["+renderRule(c.Rules[0])+"]")
		}
		if len(left) > 0 {
			bad++
			detail = "endpoint renamed " + X + "->" + Y + " then removed; left behind: " + strings.Join(left, "; ")
		}
	}
	report("5 rename leaks policy-group refcount / ARP chain / RPF-skip entry of the old name", bad, 1, detail)

	bad, detail = 0, ""
	{
		d := newDP(&runCfg{ipVersion: 4})
		d.ep.OnUpdate(&proto.ActivePolicyUpdate{Id: polID("pol-a"), Policy: &proto.Policy{OriginalSelector: "all()"}})
		d.ep.OnUpdate(intdataplane.NewIfaceStateUpdate("eth0", ifacemonitor.StateUp, 2))
		d.ep.OnUpdate(intdataplane.NewIfaceAddrsUpdate("eth0", "192.168.7.1"))
		d.ep.OnUpdate(&proto.HostEndpointUpdate{Id: &proto.HostEndpointID{EndpointId: "hep-all"}, Endpoint: &proto.HostEndpoint{Name: "*",
			Tiers: []*proto.TierInfo{{Name: "default", IngressPolicies: []*proto.PolicyID{polID("pol-a")}}}}})
		d.apply()
		before := scChains(d.filter, "any-interface-at-all")
		d.ep.OnUpdate(&proto.ActivePolicyUpdate{Id: polID("pol-a"), Policy: &proto.Policy{OriginalSelector: "role == 'db'"}})
		d.apply()
		after := scChains(d.filter, "any-interface-at-all")
		if before != "" && after == "" {
			bad++
			detail = "all-interfaces host endpoint had chains [" + before + "]; after a selector change of its policy it has none"
		}
	}
	report("6 (outside C44) selector change of a policy used by a \"*\" host endpoint deletes the host endpoint's chains", bad, 1, detail)

	bad, detail = 0, ""
	{
		d := newDP(&runCfg{ipVersion: 4, spoof: true})
		ep := scWep(X, "10.65.0.1/32")
		ep.AllowSpoofedSourcePrefixes = []string{"172.16.9.0/24"}
		scUpd(d, A, ep)
		d.apply()
		ep.AllowSpoofedSourcePrefixes = []string{"172.16.10.0/24"}
		scUpd(d, A, ep)
		d.apply()
		if c := d.raw.chains["cali-rpf-skip"]; c != nil && len(c.Rules) == 1 && strings.Contains(renderRule(c.Rules[0]), "172.16.9.0/24") {
			bad++
			detail = "spoofed-source prefix changed 172.16.9.0/24 -> 172.16.10.0/24 but rpf-skip still has [" + renderRule(c.Rules[0]) + "]"
		}
	}
	report("7 (outside C44) in-place change of AllowSpoofedSourcePrefixes is ignored", bad, 1, detail)
}
