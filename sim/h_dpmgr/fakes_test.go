// Recording fakes for the dependencies of the dataplane managers (all written
// for this work): generic Table, routetable.Interface, IPSetsDataplane, nft
// maps, flowtable handler, link-address manager, /proc/sys writer + stat.
package h_dpmgr

import (
	"context"
	"errors"
	"fmt"
	"os"
	"sort"
	"strings"

	"github.com/vishvananda/netlink"

	"github.com/projectcalico/calico/felix/environment"
	"github.com/projectcalico/calico/felix/generictables"
	"github.com/projectcalico/calico/felix/ifacemonitor"
	"github.com/projectcalico/calico/felix/ip"
	"github.com/projectcalico/calico/felix/ipsets"
	"github.com/projectcalico/calico/felix/netlinkshim"
	"github.com/projectcalico/calico/felix/nftables"
	"github.com/projectcalico/calico/felix/routetable"
	"github.com/projectcalico/calico/felix/vxlanfdb"
	"github.com/projectcalico/calico/libcalico-go/lib/set"
)

// ---- generic table

type fakeTable struct {
	name   string
	chains map[string]*generictables.Chain
	calls  int
}

func newFakeTable(name string) *fakeTable {
	return &fakeTable{name: name, chains: map[string]*generictables.Chain{}}
}

func (t *fakeTable) UpdateChain(c *generictables.Chain) { t.calls++; t.chains[c.Name] = c }
func (t *fakeTable) UpdateChains(cs []*generictables.Chain) {
	for _, c := range cs {
		t.UpdateChain(c)
	}
}
func (t *fakeTable) RemoveChains(cs []*generictables.Chain) {
	for _, c := range cs {
		t.RemoveChainByName(c.Name)
	}
}
func (t *fakeTable) RemoveChainByName(name string) { t.calls++; delete(t.chains, name) }

var noFeatures = &environment.Features{}

func renderRule(r generictables.Rule) string {
	m, a := "", ""
	if r.Match != nil {
		m = r.Match.Render()
	}
	if r.Action != nil {
		a = r.Action.ToFragment(noFeatures)
	}
	return m + " => " + a + " #" + strings.Join(r.Comment, ";")
}

// canon renders the table content in a canonical, order-stable way.  Chains
// whose rule order carries no meaning (listed in unordered) have their rules
// sorted.
func (t *fakeTable) canon(unordered map[string]bool) map[string]string {
	out := map[string]string{}
	for name, c := range t.chains {
		rs := make([]string, 0, len(c.Rules))
		for _, r := range c.Rules {
			rs = append(rs, renderRule(r))
		}
		if unordered[name] {
			sort.Strings(rs)
		}
		out[name] = strings.Join(rs, "\n    ")
	}
	return out
}

// ---- route table

type fakeRouteTable struct {
	routes map[routetable.RouteClass]map[string][]routetable.Target
	calls  int
}

func newFakeRouteTable() *fakeRouteTable {
	return &fakeRouteTable{routes: map[routetable.RouteClass]map[string][]routetable.Target{}}
}

func (t *fakeRouteTable) SetRoutes(class routetable.RouteClass, iface string, targets []routetable.Target) {
	t.calls++
	if t.routes[class] == nil {
		t.routes[class] = map[string][]routetable.Target{}
	}
	if len(targets) == 0 {
		delete(t.routes[class], iface)
		return
	}
	t.routes[class][iface] = append([]routetable.Target(nil), targets...)
}

func (t *fakeRouteTable) RouteRemove(class routetable.RouteClass, iface string, key routetable.RouteKey) {
	t.calls++
	old := t.routes[class][iface]
	var nw []routetable.Target
	for _, x := range old {
		if x.RouteKey != key {
			nw = append(nw, x)
		}
	}
	t.SetRoutes(class, iface, nw)
}

func (t *fakeRouteTable) RouteUpdate(class routetable.RouteClass, iface string, target routetable.Target) {
	t.RouteRemove(class, iface, target.RouteKey)
	t.SetRoutes(class, iface, append(t.routes[class][iface], target))
}

func (t *fakeRouteTable) OnIfaceStateChanged(string, int, ifacemonitor.State) {}
func (t *fakeRouteTable) QueueResync()                                        {}
func (t *fakeRouteTable) QueueResyncIface(string)                             {}
func (t *fakeRouteTable) Apply() error                                        { return nil }
func (t *fakeRouteTable) Index() int                                          { return 254 }
func (t *fakeRouteTable) ReadRoutesFromKernel(string) ([]routetable.Target, error) {
	return nil, nil
}

func targetString(x routetable.Target) string {
	gw, src := "", ""
	if x.GW != nil {
		gw = x.GW.String()
	}
	if x.Src != nil {
		src = x.Src.String()
	}
	return fmt.Sprintf("%s prio=%d type=%s gw=%s src=%s mac=%s proto=%d mtu=%d mp=%d", x.CIDR.String(), x.Priority, string(x.Type), gw, src, x.DestMAC.String(), int(x.Protocol), x.MTU, len(x.MultiPath))
}

// canon: "class/iface" -> sorted target strings
func (t *fakeRouteTable) canon() map[string]string {
	out := map[string]string{}
	for class, byIface := range t.routes {
		for iface, ts := range byIface {
			ss := make([]string, 0, len(ts))
			for _, x := range ts {
				ss = append(ss, targetString(x))
			}
			sort.Strings(ss)
			out[fmt.Sprintf("%d/%s", int(class), iface)] = strings.Join(ss, "\n    ")
		}
	}
	return out
}

// ---- IP sets

type fakeIPSets struct {
	family  ipsets.IPFamily
	sets    map[string]map[string]int // member -> multiplicity handed over
	meta    map[string]ipsets.IPSetMetadata
	replace int
	deltas  int
}

func newFakeIPSets(f ipsets.IPFamily) *fakeIPSets {
	return &fakeIPSets{family: f, sets: map[string]map[string]int{}, meta: map[string]ipsets.IPSetMetadata{}}
}

func (s *fakeIPSets) AddOrReplaceIPSet(meta ipsets.IPSetMetadata, members []string) {
	s.replace++
	m := map[string]int{}
	for _, x := range members {
		m[x]++
	}
	s.sets[meta.SetID] = m
	s.meta[meta.SetID] = meta
}
func (s *fakeIPSets) AddMembers(id string, ms []string) {
	s.deltas++
	if s.sets[id] == nil {
		s.sets[id] = map[string]int{}
	}
	for _, x := range ms {
		s.sets[id][x]++
	}
}
func (s *fakeIPSets) RemoveMembers(id string, ms []string) {
	s.deltas++
	for _, x := range ms {
		delete(s.sets[id], x)
	}
}
func (s *fakeIPSets) RemoveIPSet(id string)         { delete(s.sets, id); delete(s.meta, id) }
func (s *fakeIPSets) GetIPFamily() ipsets.IPFamily  { return s.family }
func (s *fakeIPSets) QueueResync()                  {}
func (s *fakeIPSets) ApplyUpdates(ipsets.UpdateListener) {}
func (s *fakeIPSets) ApplyDeletions() bool          { return false }
func (s *fakeIPSets) SetFilter(set.Set[string])     {}
func (s *fakeIPSets) GetTypeOf(id string) (ipsets.IPSetType, error) {
	m, ok := s.meta[id]
	if !ok {
		return "", errors.New("no such set")
	}
	return m.Type, nil
}
func (s *fakeIPSets) GetDesiredMembers(id string) (set.Set[string], error) {
	m, ok := s.sets[id]
	if !ok {
		return nil, errors.New("no such set")
	}
	out := set.New[string]()
	for k := range m {
		out.Add(k)
	}
	return out, nil
}

func (s *fakeIPSets) members(id string) ([]string, bool) {
	m, ok := s.sets[id]
	if !ok {
		return nil, false
	}
	out := make([]string, 0, len(m))
	for k := range m {
		out = append(out, k)
	}
	sort.Strings(out)
	return out, true
}

// ---- nft maps

type fakeMaps struct {
	maps map[string]map[string][]string
}

func newFakeMaps() *fakeMaps { return &fakeMaps{maps: map[string]map[string][]string{}} }

func (f *fakeMaps) AddOrReplaceMap(meta nftables.MapMetadata, members map[string][]string) {
	cp := map[string][]string{}
	for k, v := range members {
		cp[k] = append([]string(nil), v...)
	}
	f.maps[meta.Name] = cp
}
func (f *fakeMaps) RemoveMap(id string)                                  { delete(f.maps, id) }
func (f *fakeMaps) MapUpdates() *nftables.MapUpdates                     { return nil }
func (f *fakeMaps) FinishMapUpdates(*nftables.MapUpdates)                {}
func (f *fakeMaps) LoadDataplaneState(context.Context, []string) error   { return nil }
func (f *fakeMaps) InvalidateMapsCache()                                 {}

func (f *fakeMaps) canon() map[string]string {
	out := map[string]string{}
	for name, m := range f.maps {
		ks := make([]string, 0, len(m))
		for k, v := range m {
			ks = append(ks, k+" -> "+strings.Join(v, ","))
		}
		sort.Strings(ks)
		out[name] = strings.Join(ks, "\n    ")
	}
	return out
}

func (f *fakeMaps) keys(name string) []string {
	m := f.maps[name]
	ks := make([]string, 0, len(m))
	for k := range m {
		ks = append(ks, k)
	}
	sort.Strings(ks)
	return ks
}

// ---- flowtable handler

type fakeFlowtable struct {
	wl    []string
	calls int
}

func (f *fakeFlowtable) SetWorkloadInterfaces(ifces []string) {
	f.calls++
	f.wl = append([]string(nil), ifces...)
	sort.Strings(f.wl)
}
func (f *fakeFlowtable) SetOverlayDevices([]string)  {}
func (f *fakeFlowtable) SetExternalDevices([]string) {}

// ---- link address manager

type fakeLinkAddrs struct {
	addrs map[string]string
}

func (l *fakeLinkAddrs) QueueResync() {}
func (l *fakeLinkAddrs) SetLinkLocalAddress(name string, c ip.CIDR) error {
	l.addrs[name] = c.String()
	return nil
}
func (l *fakeLinkAddrs) RemoveLinkLocalAddress(name string) { delete(l.addrs, name) }
func (l *fakeLinkAddrs) GetNlHandle() (netlinkshim.Interface, error) {
	return nil, errors.New("not available in simulation")
}
func (l *fakeLinkAddrs) Apply() error { return nil }

// ---- /proc/sys

type procSys struct {
	state    map[string]string
	absent   map[string]bool // interface names that do not exist (yet / any more)
	failAll  bool            // every write fails (EIO-like)
	failFor  string          // writes below this interface's directories fail
	writes   int
	failures int
}

func newProcSys() *procSys {
	return &procSys{state: map[string]string{}, absent: map[string]bool{}}
}

func ifaceOfPath(path string) string {
	// /proc/sys/net/ipv4/conf/<iface>/x  or  /proc/sys/net/ipv4/neigh/<iface>/x
	parts := strings.Split(path, "/")
	if len(parts) >= 7 {
		return parts[6]
	}
	return ""
}

var errIO = errors.New("injected: input/output error")

func (p *procSys) write(path, value string) error {
	p.writes++
	ifc := ifaceOfPath(path)
	if p.absent[ifc] {
		p.failures++
		return &os.PathError{Op: "open", Path: path, Err: os.ErrNotExist}
	}
	if p.failAll || (p.failFor != "" && p.failFor == ifc) {
		p.failures++
		return errIO
	}
	p.state[path] = value
	return nil
}

func (p *procSys) stat(path string) (os.FileInfo, error) {
	parts := strings.Split(path, "/")
	ifc := parts[len(parts)-1]
	if p.absent[ifc] {
		return nil, &os.PathError{Op: "stat", Path: path, Err: os.ErrNotExist}
	}
	return nil, nil
}

// ---- VXLAN FDB

type fakeFDB struct{ vteps []vxlanfdb.VTEP }

func (f *fakeFDB) SetVTEPs(v []vxlanfdb.VTEP) { f.vteps = append([]vxlanfdb.VTEP(nil), v...) }

// ---- op recorder

type nopRecorder struct{}

func (nopRecorder) RecordOperation(string) {}

// ---- netlink handle: only what routeManager.detectParentIface needs.

type fakeLink struct {
	name  string
	index int
	addrs []string // bare IPs
}

type fakeNetlink struct {
	netlinkshim.Interface // nil: any other call would panic (none is made on the simulated paths)
	links                 []fakeLink
	failList              bool
}

func (n *fakeNetlink) LinkList() ([]netlink.Link, error) {
	if n.failList {
		return nil, errors.New("injected: netlink dump interrupted")
	}
	var out []netlink.Link
	for _, l := range n.links {
		la := netlink.NewLinkAttrs()
		la.Name = l.name
		la.Index = l.index
		out = append(out, &netlink.Dummy{LinkAttrs: la})
	}
	return out, nil
}

func (n *fakeNetlink) AddrList(link netlink.Link, family int) ([]netlink.Addr, error) {
	var out []netlink.Addr
	for _, l := range n.links {
		if l.name != link.Attrs().Name {
			continue
		}
		for _, a := range l.addrs {
			isV6 := strings.Contains(a, ":")
			if (family == netlink.FAMILY_V6) != isV6 {
				continue
			}
			addr, err := netlink.ParseAddr(a + map[bool]string{false: "/24", true: "/64"}[isV6])
			if err != nil {
				continue
			}
			out = append(out, *addr)
		}
	}
	return out, nil
}
