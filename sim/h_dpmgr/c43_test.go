// C43: the real calc.L3RouteResolver feeding the real VXLAN / IPIP / no-encap
// managers (each with its real routeManager) over a recording route table.
// Histories are node / pool / block / borrowed-address / local-workload updates
// in seed-chosen orders; the oracle restates the property over the model.
package h_dpmgr

import (
	"github.com/projectcalico/api/pkg/lib/numorstring"
	"fmt"
	"net"
	"net/netip"
	"sort"
	"strings"

	metav1 "k8s.io/apimachinery/pkg/apis/meta/v1"

	"github.com/projectcalico/calico/felix/calc"
	intdataplane "github.com/projectcalico/calico/felix/dataplane/linux"
	"github.com/projectcalico/calico/felix/ipsets"
	"github.com/projectcalico/calico/felix/proto"
	"github.com/projectcalico/calico/felix/routetable"
	"github.com/projectcalico/calico/felix/rules"
	"github.com/projectcalico/calico/libcalico-go/lib/apis/internalapi"
	"github.com/projectcalico/calico/libcalico-go/lib/backend/api"
	"github.com/projectcalico/calico/libcalico-go/lib/backend/encap"
	"github.com/projectcalico/calico/libcalico-go/lib/backend/model"
	cnet "github.com/projectcalico/calico/libcalico-go/lib/net"

	"verifsim/core"
)

const localNode = "node-l"

// c43Shape: how each remote node's address is currently stated in its Node resource (see sendNode).
var c43Shape = map[string]int{}

var remoteNodes = []string{"node-a", "node-b", "node-c"}

// node addresses: two in 192.168.1.0/24 (the local node's narrow subnet), two outside it but inside 192.168.0.0/16
var nodeAddrPool = []string{"192.168.1.11", "192.168.2.11", "192.168.1.12", "192.168.2.12"}
var vtepAddrOf = map[string]string{localNode: "172.31.0.1", "node-a": "172.31.0.11", "node-b": "172.31.0.12", "node-c": "172.31.0.13"}
var vtepMacOf = map[string]string{localNode: "66:00:00:00:00:01", "node-a": "66:00:00:00:00:11", "node-b": "66:00:00:00:00:12", "node-c": "66:00:00:00:00:13"}
var poolCIDRs = []string{"10.1.0.0/16", "10.2.0.0/16", "10.3.0.0/16"}
var blockCIDRs = []string{"10.1.0.0/26", "10.2.0.0/26", "10.1.0.64/26", "10.3.0.0/26", "10.2.0.64/26", "10.9.0.0/26"}

type poolMode int

const (
	pmNoEncap poolMode = iota
	pmIPIP
	pmIPIPCross
	pmVXLAN
	pmVXLANCross
)

var poolModeNames = []string{"no-encap", "ipip", "ipip-cross-subnet", "vxlan", "vxlan-cross-subnet"}

func (m poolMode) cross() bool { return m == pmIPIPCross || m == pmVXLANCross }

type blockM struct {
	affinity string            // "" = none
	allocs   map[int]string    // ordinal -> owning node
}

type rmodel struct {
	nodeAddr  map[string]string // node -> address (present = node resource exists)
	localMask int               // prefix length of the local node's subnet
	hostMeta  map[string]string // what the managers were told (HostMetadataUpdate)
	vtep      map[string]string // node -> parent device ip as told to the VXLAN manager
	pools     map[string]poolMode
	blocks    map[string]*blockM
	weps      map[string]string // local workload name -> ip
}

type routeDP struct {
	rt     *fakeRouteTable
	sets   *fakeIPSets
	fdb    *fakeFDB
	nl     *fakeNetlink
	mgrs   []intdataplane.SimRouteManager // vxlan, ipip, noencap
	res    *calc.L3RouteResolver
	parent []string // parent device each manager knows (harness's view of what it was told / could detect)
	pAddr  []string // local address each manager was told
	nUpd   int
	nRem   int
}

func (d *routeDP) OnRouteUpdate(u *proto.RouteUpdate) {
	d.nUpd++
	for _, m := range d.mgrs {
		m.OnUpdate(u)
	}
}

func (d *routeDP) OnRouteRemove(dst string) {
	d.nRem++
	msg := &proto.RouteRemove{Dst: dst}
	for _, m := range d.mgrs {
		m.OnUpdate(msg)
	}
}

func (d *routeDP) toMgrs(msg any) {
	for _, m := range d.mgrs {
		m.OnUpdate(msg)
	}
}

func newRouteDP() *routeDP {
	d := &routeDP{rt: newFakeRouteTable(), sets: newFakeIPSets(ipsets.IPFamilyV4), fdb: &fakeFDB{}, parent: make([]string, 3), pAddr: make([]string, 3)}
	d.nl = &fakeNetlink{links: []fakeLink{{name: "eth0", index: 2, addrs: []string{"192.168.1.1"}}, {name: "eth1", index: 3, addrs: []string{"192.168.1.2"}}}}
	cfg := intdataplane.Config{
		Hostname: localNode, MaxIPSetSize: 1024, ProgramIPIPClusterRoutes: true, IPIPMTU: 1440,
		RulesConfig: rules.Config{VXLANVNI: 4096, VXLANPort: 4789},
	}
	d.mgrs = []intdataplane.SimRouteManager{
		intdataplane.NewVXLANManagerForSim(d.sets, d.rt, d.fdb, "vxlan.calico", 4, 1410, cfg, nopRecorder{}, d.nl),
		intdataplane.NewIPIPManagerForSim(d.rt, "tunl0", 4, 1440, cfg, nopRecorder{}, d.nl),
		intdataplane.NewNoEncapManagerForSim(d.rt, 4, cfg, nopRecorder{}, d.nl),
	}
	d.res = calc.NewL3RouteResolver(localNode, d, "CalicoIPAM")
	d.res.OnAlive = func() {}
	return d
}

// apply runs CompleteDeferredWork on the three managers and tracks which parent device each one can know.
func (d *routeDP) apply() {
	for i, m := range d.mgrs {
		if d.parent[i] == "" && d.pAddr[i] != "" && !d.nl.failList {
			for _, l := range d.nl.links {
				for _, a := range l.addrs {
					if a == d.pAddr[i] && d.parent[i] == "" {
						d.parent[i] = l.name
					}
				}
			}
		}
		_ = m.CompleteDeferredWork()
	}
}

func mustNet(s string) cnet.IPNet {
	_, n, err := cnet.ParseCIDR(s)
	if err != nil {
		panic(err)
	}
	return *n
}

// ---- deliveries to the resolver / managers

func (d *routeDP) sendNode(name, addr string, mask int) {
	key := model.ResourceKey{Kind: internalapi.KindNode, Name: name}
	if addr == "" {
		d.res.OnResourceUpdate(api.Update{KVPair: model.KVPair{Key: key}, UpdateType: api.UpdateTypeKVDeleted})
		return
	}
	n := &internalapi.Node{ObjectMeta: metav1.ObjectMeta{Name: name}}
	// The same host address can be stated in several legal shapes (remote nodes only: the local node's subnet
	// comes from its BGP address): BGP address; BGP spec without an address (AS number or tunnel address only)
	// plus an InternalIP / ExternalIP; no BGP spec at all plus an InternalIP.
	switch c43Shape[name] {
	case 1:
		as := numorstring.ASNumber(64512)
		n.Spec.BGP = &internalapi.NodeBGPSpec{ASNumber: &as}
		n.Spec.Addresses = []internalapi.NodeAddress{{Address: addr, Type: internalapi.InternalIP}}
	case 2:
		n.Spec.Addresses = []internalapi.NodeAddress{{Address: addr, Type: internalapi.InternalIP}}
	case 3:
		n.Spec.BGP = &internalapi.NodeBGPSpec{IPv4IPIPTunnelAddr: "10.255.0.1"}
		n.Spec.Addresses = []internalapi.NodeAddress{{Address: addr, Type: internalapi.ExternalIP}}
	default:
		n.Spec.BGP = &internalapi.NodeBGPSpec{IPv4Address: fmt.Sprintf("%s/%d", addr, mask)}
	}
	d.res.OnResourceUpdate(api.Update{KVPair: model.KVPair{Key: key, Value: n}, UpdateType: api.UpdateTypeKVUpdated})
}

func (d *routeDP) sendHostMeta(name, addr string) {
	if addr == "" {
		d.toMgrs(&proto.HostMetadataRemove{Hostname: name})
	} else {
		d.toMgrs(&proto.HostMetadataUpdate{Hostname: name, Ipv4Addr: addr})
	}
	if name == localNode {
		d.pAddr[1], d.pAddr[2] = addr, addr
	}
}

func (d *routeDP) sendVTEP(name, addr string) {
	if addr == "" {
		d.toMgrs(&proto.VXLANTunnelEndpointRemove{Node: name})
	} else {
		d.toMgrs(&proto.VXLANTunnelEndpointUpdate{Node: name, Mac: vtepMacOf[name], Ipv4Addr: vtepAddrOf[name], ParentDeviceIp: addr})
	}
	if name == localNode {
		d.pAddr[0] = addr
	}
}

func (d *routeDP) sendPool(cidr string, mode poolMode, present bool) {
	key := model.IPPoolKey{CIDR: netip.MustParsePrefix(cidr)}
	if !present {
		d.res.OnPoolUpdate(api.Update{KVPair: model.KVPair{Key: key}, UpdateType: api.UpdateTypeKVDeleted})
		return
	}
	p := &model.IPPool{CIDR: mustNet(cidr), IPIPMode: encap.Never, VXLANMode: encap.Never, IPAM: true}
	switch mode {
	case pmIPIP:
		p.IPIPMode = encap.Always
	case pmIPIPCross:
		p.IPIPMode = encap.CrossSubnet
	case pmVXLAN:
		p.VXLANMode = encap.Always
	case pmVXLANCross:
		p.VXLANMode = encap.CrossSubnet
	}
	d.res.OnPoolUpdate(api.Update{KVPair: model.KVPair{Key: key, Value: p}, UpdateType: api.UpdateTypeKVUpdated})
}

func (d *routeDP) sendBlock(cidr string, b *blockM) {
	key := model.BlockKey{CIDR: netip.MustParsePrefix(cidr)}
	if b == nil {
		d.res.OnBlockUpdate(api.Update{KVPair: model.KVPair{Key: key}, UpdateType: api.UpdateTypeKVDeleted})
		return
	}
	blk := &model.AllocationBlock{CIDR: mustNet(cidr)}
	if b.affinity != "" {
		a := "host:" + b.affinity
		blk.Affinity = &a
	}
	blk.Allocations = make([]*int, 64)
	ords := make([]int, 0, len(b.allocs))
	for o := range b.allocs {
		ords = append(ords, o)
	}
	sort.Ints(ords)
	for _, o := range ords {
		idx := len(blk.Attributes)
		h := fmt.Sprintf("handle-%d", o)
		blk.Attributes = append(blk.Attributes, model.AllocationAttribute{HandleID: &h, ActiveOwnerAttrs: map[string]string{model.IPAMBlockAttributeNode: b.allocs[o]}})
		blk.Allocations[o] = &idx
	}
	for o := 0; o < 64; o++ {
		if blk.Allocations[o] == nil {
			blk.Unallocated = append(blk.Unallocated, o)
		}
	}
	d.res.OnBlockUpdate(api.Update{KVPair: model.KVPair{Key: key, Value: blk}, UpdateType: api.UpdateTypeKVUpdated})
}

func (d *routeDP) sendWep(name, ipAddr string) {
	key := model.WorkloadEndpointKey{Hostname: localNode, OrchestratorID: "k8s", WorkloadID: "default/" + name, EndpointID: "eth0"}
	if ipAddr == "" {
		d.res.OnWorkloadUpdate(api.Update{KVPair: model.KVPair{Key: key}, UpdateType: api.UpdateTypeKVDeleted})
		return
	}
	w := &model.WorkloadEndpoint{State: "active", Name: "cali" + name, IPv4Nets: []cnet.IPNet{mustNet(ipAddr + "/32")}}
	d.res.OnWorkloadUpdate(api.Update{KVPair: model.KVPair{Key: key, Value: w}, UpdateType: api.UpdateTypeKVUpdated})
}

// ---- model helpers

func nthIP(cidr string, n int) string {
	ipa, _, _ := net.ParseCIDR(cidr)
	v4 := ipa.To4()
	return net.IPv4(v4[0], v4[1], v4[2], v4[3]+byte(n)).String()
}

func contains(cidr, addr string) bool {
	_, n, err := net.ParseCIDR(cidr)
	if err != nil {
		return false
	}
	return n.Contains(net.ParseIP(addr))
}

func (m *rmodel) poolOf(cidr string) (poolMode, bool) {
	base := strings.Split(cidr, "/")[0]
	for _, p := range core.SortedKeys(m.pools) {
		if contains(p, base) {
			return m.pools[p], true
		}
	}
	return 0, false
}

func (m *rmodel) localSubnet() string {
	a, ok := m.nodeAddr[localNode]
	if !ok {
		return ""
	}
	_, n, _ := net.ParseCIDR(fmt.Sprintf("%s/%d", a, m.localMask))
	return n.String()
}

type expRoute struct{ class routetable.RouteClass; iface, cidr, typ, gw string }

func fmtExp(e expRoute) string { return fmt.Sprintf("%s type=%s gw=%s", e.cidr, e.typ, e.gw) }

// expected restates C43 over the model.  skip lists /32s whose treatment the property does not fix
// (addresses borrowed BY the local node).  undecided[k] marks managers whose parent device is unknown
// because of an injected netlink failure: direct-vs-tunnel is then not checked for them.
func (s *rsim) expected() (map[string][]string, map[string]bool) {
	m := s.m
	exp := map[string][]string{}
	skip := map[string]bool{}
	add := func(e expRoute) {
		k := fmt.Sprintf("%d/%s", int(e.class), e.iface)
		exp[k] = append(exp[k], fmtExp(e))
	}
	remote := func(cidr, owner string) {
		mode, ok := m.poolOf(cidr)
		if !ok {
			return
		}
		addr, known := m.nodeAddr[owner]
		if !known {
			return // cannot route via a node whose address is unknown
		}
		mi := map[poolMode]int{pmVXLAN: 0, pmVXLANCross: 0, pmIPIP: 1, pmIPIPCross: 1, pmNoEncap: 2}[mode]
		direct := mode == pmNoEncap || (mode.cross() && m.localSubnet() != "" && contains(m.localSubnet(), addr))
		if direct && s.sut.parent[mi] != "" {
			cls := []routetable.RouteClass{routetable.RouteClassVXLANSameSubnet, routetable.RouteClassIPIPSameSubnet, routetable.RouteClassNoEncap}[mi]
			add(expRoute{cls, s.sut.parent[mi], cidr, string(routetable.TargetTypeNoEncap), addr})
			return
		}
		if direct && mi == 2 {
			return // no parent device known: an unencapsulated route cannot be programmed at all
		}
		switch mi {
		case 0:
			if _, ok := m.vtep[owner]; ok {
				add(expRoute{routetable.RouteClassVXLANTunnel, "vxlan.calico", cidr, string(routetable.TargetTypeVXLAN), vtepAddrOf[owner]})
			}
		case 1:
			if hm, ok := m.hostMeta[owner]; ok {
				add(expRoute{routetable.RouteClassIPIPTunnel, "tunl0", cidr, string(routetable.TargetTypeOnLink), hm})
			}
		}
	}
	for _, bc := range core.SortedKeys(m.blocks) {
		b := m.blocks[bc]
		if b.affinity == localNode {
			if mode, ok := m.poolOf(bc); ok {
				cls := map[poolMode]routetable.RouteClass{pmVXLAN: routetable.RouteClassBlackholeVXLAN, pmVXLANCross: routetable.RouteClassBlackholeVXLAN,
					pmIPIP: routetable.RouteClassBlackholeIPIP, pmIPIPCross: routetable.RouteClassBlackholeIPIP, pmNoEncap: routetable.RouteClassBlackholeNoEncap}[mode]
				add(expRoute{cls, routetable.InterfaceNone, bc, string(routetable.TargetTypeBlackhole), ""})
			}
		} else if b.affinity != "" {
			remote(bc, b.affinity)
		}
		ords := make([]int, 0, len(b.allocs))
		for o := range b.allocs {
			ords = append(ords, o)
		}
		sort.Ints(ords)
		for _, o := range ords {
			owner := b.allocs[o]
			if owner == b.affinity {
				continue
			}
			c := nthIP(bc, o) + "/32"
			if owner == localNode {
				skip[c] = true
				continue
			}
			s.r.Probe("borrowed_address_present")
			remote(c, owner)
		}
	}
	for k := range exp {
		sort.Strings(exp[k])
	}
	return exp, skip
}

func actualRoutes(rt *fakeRouteTable, skip map[string]bool) map[string][]string {
	out := map[string][]string{}
	for class, byIface := range rt.routes {
		for iface, ts := range byIface {
			k := fmt.Sprintf("%d/%s", int(class), iface)
			for _, t := range ts {
				if skip[t.CIDR.String()] {
					continue
				}
				gw := ""
				if t.GW != nil {
					gw = t.GW.String()
				}
				out[k] = append(out[k], fmtExp(expRoute{cidr: t.CIDR.String(), typ: string(t.Type), gw: gw}))
			}
			sort.Strings(out[k])
		}
	}
	return out
}

func flat(m map[string][]string) map[string]string {
	out := map[string]string{}
	for k, v := range m {
		if len(v) > 0 {
			out[k] = strings.Join(v, "\n    ")
		}
	}
	return out
}

// ---- simulation

type rsim struct {
	r     *core.R
	m     *rmodel
	sut   *routeDP
	nodes []string
	pools []string
	blks  []string
	pendingParent string // parent device name not yet reported to the managers
	lastLocal     string // address of the local node (it survives removal of the node resource)
	applies int
}

func (s *rsim) describeModel() string {
	m := s.m
	var parts []string
	for _, n := range core.SortedKeys(m.nodeAddr) {
		mk := 24
		if n == localNode {
			mk = m.localMask
		}
		parts = append(parts, fmt.Sprintf("node %s=%s/%d", n, m.nodeAddr[n], mk))
	}
	for _, p := range core.SortedKeys(m.pools) {
		parts = append(parts, fmt.Sprintf("pool %s=%s", p, poolModeNames[m.pools[p]]))
	}
	for _, b := range core.SortedKeys(m.blocks) {
		var al []string
		ords := make([]int, 0)
		for o := range m.blocks[b].allocs {
			ords = append(ords, o)
		}
		sort.Ints(ords)
		for _, o := range ords {
			al = append(al, fmt.Sprintf("%d:%s", o, m.blocks[b].allocs[o]))
		}
		parts = append(parts, fmt.Sprintf("block %s aff=%s allocs=%v", b, m.blocks[b].affinity, al))
	}
	for _, w := range core.SortedKeys(m.weps) {
		parts = append(parts, fmt.Sprintf("wep %s=%s", w, m.weps[w]))
	}
	return strings.Join(parts, "; ")
}

func (s *rsim) opNode() {
	r := s.r
	all := append([]string{localNode}, s.nodes...)
	n := all[r.Src.Intn(len(all), "node_name")]
	_, exists := s.m.nodeAddr[n]
	if exists && r.Src.Chance(200, "node_remove") {
		r.Op("node %s removed", n)
		delete(s.m.nodeAddr, n)
		delete(s.m.hostMeta, n)
		delete(s.m.vtep, n)
		s.deliverNode(n)
		return
	}
	if n == localNode {
		// address stays on the NIC the harness last chose; the subnet width varies
		if !exists {
			s.m.nodeAddr[n] = s.lastLocal
		}
		s.m.localMask = []int{24, 16}[r.Src.Intn(2, "local_mask")]
		if exists {
			r.Probe("local_subnet_changed")
		}
	} else {
		a := nodeAddrPool[r.Src.Intn(len(nodeAddrPool), "node_addr")]
		if exists && s.m.nodeAddr[n] != a {
			r.Probe("remote_node_readdressed")
		}
		s.m.nodeAddr[n] = a
	}
	s.m.hostMeta[n] = s.m.nodeAddr[n]
	s.m.vtep[n] = s.m.nodeAddr[n]
	r.Op("node %s -> %s (local mask /%d)", n, s.m.nodeAddr[n], s.m.localMask)
	s.deliverNode(n)
}

// deliverNode sends the three messages a node change produces (node resource to the resolver, host
// metadata and VTEP to the managers) in a seed-chosen relative order.
func (s *rsim) deliverNode(n string) {
	addr := s.m.nodeAddr[n]
	mask := 24
	if n == localNode {
		mask = s.m.localMask
	}
	if n != localNode {
		c43Shape[n] = s.r.Src.Weighted([]int{5, 2, 2, 1}, "node_shape")
		if c43Shape[n] != 0 {
			s.r.Probe("node_address_not_in_bgp_spec")
		}
	}
	for i, k := range s.r.Src.Perm(3, "node_msg_order") {
		if i > 0 && s.r.Src.Chance(200, "node_msgs_straddle_apply") {
			// the messages of one node change need not arrive in one round: the dataplane applies in between
			// (not judged here: the model already knows the whole change)
			s.r.Probe("node_msgs_straddle_apply")
			s.r.Op("apply (CompleteDeferredWork x3) between the messages of node %s", n)
			s.sut.apply()
			s.applies++
		}
		switch k {
		case 0:
			s.sut.sendNode(n, addr, mask)
		case 1:
			s.sut.sendHostMeta(n, addr)
		case 2:
			s.sut.sendVTEP(n, addr)
		}
	}
}

func (s *rsim) opPool() {
	r := s.r
	p := s.pools[r.Src.Intn(len(s.pools), "pool")]
	_, exists := s.m.pools[p]
	if exists && r.Src.Chance(200, "pool_remove") {
		r.Op("pool %s removed", p)
		delete(s.m.pools, p)
		s.sut.sendPool(p, 0, false)
		return
	}
	mode := poolMode(r.Src.Intn(5, "pool_mode"))
	if exists && s.m.pools[p] != mode {
		r.Probe("pool_mode_changed")
	}
	r.Op("pool %s -> %s", p, poolModeNames[mode])
	s.m.pools[p] = mode
	s.sut.sendPool(p, mode, true)
}

func (s *rsim) opBlock() {
	r := s.r
	bc := s.blks[r.Src.Intn(len(s.blks), "block")]
	_, exists := s.m.blocks[bc]
	if exists && r.Src.Chance(200, "block_remove") {
		r.Op("block %s removed", bc)
		delete(s.m.blocks, bc)
		s.dropWepsIn(bc, nil)
		s.sut.sendBlock(bc, nil)
		return
	}
	owners := append([]string{localNode}, s.nodes...)
	b := &blockM{allocs: map[int]string{}}
	ai := r.Src.Intn(len(owners)+1, "block_affinity")
	if ai < len(owners) {
		b.affinity = owners[ai]
	}
	for i, n := 0, r.Src.Intn(3, "block_nallocs"); i < n; i++ {
		b.allocs[1+r.Src.Intn(3, "alloc_ordinal")] = owners[r.Src.Intn(len(owners), "alloc_owner")]
	}
	if exists && s.m.blocks[bc].affinity != b.affinity {
		r.Probe("block_affinity_changed")
	}
	s.m.blocks[bc] = b
	s.dropWepsIn(bc, b)
	r.Op("block %s affinity=%q allocs=%v", bc, b.affinity, fmtAllocs(b))
	s.sut.sendBlock(bc, b)
}

func fmtAllocs(b *blockM) string {
	ords := make([]int, 0)
	for o := range b.allocs {
		ords = append(ords, o)
	}
	sort.Ints(ords)
	var out []string
	for _, o := range ords {
		out = append(out, fmt.Sprintf("%d:%s", o, b.allocs[o]))
	}
	return strings.Join(out, ",")
}

// dropWepsIn removes local workloads whose address is no longer allocated to the local node (contract:
// a workload's address is held in IPAM for its node).
func (s *rsim) dropWepsIn(bc string, b *blockM) {
	for _, w := range core.SortedKeys(s.m.weps) {
		ipa := s.m.weps[w]
		if !contains(bc, ipa) {
			continue
		}
		ok := false
		if b != nil {
			for o, owner := range b.allocs {
				if owner == localNode && nthIP(bc, o) == ipa {
					ok = true
				}
			}
		}
		if !ok {
			s.r.Logf("  local workload %s (%s) removed first", w, ipa)
			delete(s.m.weps, w)
			s.sut.sendWep(w, "")
		}
	}
}

func (s *rsim) opWep() {
	r := s.r
	names := []string{"w1", "w2"}
	w := names[r.Src.Intn(len(names), "wep")]
	if _, ok := s.m.weps[w]; ok {
		r.Op("local workload %s removed", w)
		delete(s.m.weps, w)
		s.sut.sendWep(w, "")
		return
	}
	var cands []string
	for _, bc := range core.SortedKeys(s.m.blocks) {
		b := s.m.blocks[bc]
		for o := 1; o <= 3; o++ {
			if b.allocs[o] == localNode {
				cands = append(cands, nthIP(bc, o))
			}
		}
	}
	if len(cands) == 0 {
		return
	}
	ipa := cands[r.Src.Intn(len(cands), "wep_ip")]
	r.Op("local workload %s -> %s", w, ipa)
	r.Probe("local_workload_present")
	s.m.weps[w] = ipa
	s.sut.sendWep(w, ipa)
}

func (s *rsim) opParentMove() {
	r := s.r
	if _, ok := s.m.nodeAddr[localNode]; !ok {
		return
	}
	// the local address moves to the other NIC; the device goroutine reports the new parent later
	na, dev := "192.168.1.2", "eth1"
	if s.m.nodeAddr[localNode] == "192.168.1.2" {
		na, dev = "192.168.1.1", "eth0"
	}
	r.Op("local address moves to %s on %s", na, dev)
	r.Probe("parent_device_moved")
	s.m.nodeAddr[localNode], s.m.hostMeta[localNode], s.m.vtep[localNode] = na, na, na
	s.lastLocal = na
	s.deliverNode(localNode)
	s.pendingParent = dev
}

func (s *rsim) reportParent() {
	if s.pendingParent == "" {
		return
	}
	s.r.Logf("  device goroutine reports parent %s", s.pendingParent)
	for i, m := range s.sut.mgrs {
		if s.sut.pAddr[i] != "" { // the goroutine only runs once the manager knows its local address
			m.OnParentDeviceUpdate(s.pendingParent)
			s.sut.parent[i] = s.pendingParent
		}
	}
	s.pendingParent = ""
}

func (s *rsim) opApply(quiesce bool) {
	r := s.r
	if quiesce {
		s.sut.nl.failList = false
		s.reportParent()
	} else {
		s.sut.nl.failList = r.Src.Chance(150, "netlink_list_fails")
		if s.pendingParent != "" && r.Src.Chance(500, "parent_report_now") {
			s.reportParent()
		}
	}
	unknownBefore := 0
	for i := range s.sut.parent {
		if s.sut.parent[i] == "" && s.sut.pAddr[i] != "" {
			unknownBefore++
		}
	}
	r.Op("apply (CompleteDeferredWork x3) netlink_fail=%v", s.sut.nl.failList)
	s.sut.apply()
	s.applies++
	if s.sut.nl.failList && unknownBefore > 0 {
		r.Fault("netlink_link_list_error")
	}
	s.check(fmt.Sprintf("apply #%d", s.applies), quiesce)
}

func (s *rsim) check(after string, final bool) {
	r := s.r
	if s.pendingParent != "" {
		return // managers legitimately still use the previous parent device
	}
	exp, skip := s.expected()
	got := actualRoutes(s.sut.rt, skip)
	df := diffCanon(flat(got), flat(exp), "route table", "expected from pools/nodes/blocks")
	r.Check("route_targets_match_encapsulation", len(df) == 0, "after %s: route-table targets (key = class/interface) differ from what the model requires [%s]:\n%s", after, s.describeModel(), headDiffs(df))
	if !final {
		return
	}
	// no blackhole route is an exact route of a local workload's address
	for class, byIface := range s.sut.rt.routes {
		if class != routetable.RouteClassBlackholeVXLAN && class != routetable.RouteClassBlackholeIPIP && class != routetable.RouteClassBlackholeNoEncap {
			continue
		}
		for _, t := range byIface[routetable.InterfaceNone] {
			for _, w := range core.SortedKeys(s.m.weps) {
				r.Check("blackhole_not_on_workload_address", t.CIDR.String() != s.m.weps[w]+"/32", "blackhole route %s is the exact address of local workload %s", t.CIDR.String(), w)
			}
		}
	}
	// order independence: a fresh resolver+managers fed the final state in another order
	ref := newRouteDP()
	ref.nl.links = s.sut.nl.links
	s.feedFinal(ref)
	ref.apply()
	if par := s.sut.parent; par[0] != "" || par[1] != "" || par[2] != "" {
		for i, m := range ref.mgrs {
			if s.sut.parent[i] != "" && ref.parent[i] != s.sut.parent[i] {
				m.OnParentDeviceUpdate(s.sut.parent[i])
				ref.parent[i] = s.sut.parent[i]
			}
		}
		ref.apply()
	}
	df = diffCanon(s.sut.rt.canon(), ref.rt.canon(), "managers under test", "fresh resolver+managers fed the final state")
	r.Check("routes_independent_of_arrival_order", len(df) == 0, "after %s: route table differs from a fresh resolver+managers fed the same final state in another order [%s]:\n%s", after, s.describeModel(), headDiffs(df))
}

func (s *rsim) feedFinal(d *routeDP) {
	m := s.m
	type item struct{ kind int; key string }
	var items []item
	for _, n := range core.SortedKeys(m.nodeAddr) {
		items = append(items, item{0, n}, item{1, n}, item{2, n})
	}
	for _, p := range core.SortedKeys(m.pools) {
		items = append(items, item{3, p})
	}
	for _, b := range core.SortedKeys(m.blocks) {
		items = append(items, item{4, b})
	}
	for _, w := range core.SortedKeys(m.weps) {
		items = append(items, item{5, w})
	}
	for _, i := range s.r.Src.Perm(len(items), "ref_order") {
		it := items[i]
		switch it.kind {
		case 0:
			mask := 24
			if it.key == localNode {
				mask = m.localMask
			}
			d.sendNode(it.key, m.nodeAddr[it.key], mask)
		case 1:
			d.sendHostMeta(it.key, m.hostMeta[it.key])
		case 2:
			d.sendVTEP(it.key, m.vtep[it.key])
		case 3:
			d.sendPool(it.key, m.pools[it.key], true)
		case 4:
			d.sendBlock(it.key, m.blocks[it.key])
		case 5:
			d.sendWep(it.key, m.weps[it.key])
		}
	}
}

func declareRoutes(r *core.R) {
	r.FaultDecl("netlink_link_list_error")
	r.ProbeDecl("local_subnet_changed", "remote_node_readdressed", "pool_mode_changed", "block_affinity_changed", "borrowed_address_present",
		"local_workload_present", "parent_device_moved", "direct_route_programmed", "tunnel_route_programmed", "blackhole_programmed",
		"cross_subnet_pool_tunnel_route", "cross_subnet_pool_direct_route")
}

func runRoutes(r *core.R) string {
	s := &rsim{r: r, sut: newRouteDP(), lastLocal: "192.168.1.1", m: &rmodel{nodeAddr: map[string]string{}, localMask: 24, hostMeta: map[string]string{}, vtep: map[string]string{},
		pools: map[string]poolMode{}, blocks: map[string]*blockM{}, weps: map[string]string{}}}
	s.nodes = remoteNodes[:r.Src.Range(1, len(remoteNodes), "n_nodes")]
	s.pools = poolCIDRs[:r.Src.Range(1, len(poolCIDRs), "n_pools")]
	s.blks = blockCIDRs[:r.Src.Range(2, len(blockCIDRs), "n_blocks")]
	maxOps := 60
	if r.Tier == "thorough" {
		maxOps = 110
	}
	nOps := r.Src.Range(6, maxOps, "n_ops")
	r.Cfg("nodes", len(s.nodes))
	r.Cfg("pools", len(s.pools))
	r.Cfg("blocks", len(s.blks))
	r.Cfg("ops", nOps)
	w := []int{
		r.Src.Range(4, 14, "w_node"),
		r.Src.Range(3, 10, "w_pool"),
		r.Src.Range(6, 16, "w_block"),
		r.Src.Range(0, 5, "w_wep"),
		r.Src.Range(3, 12, "w_apply"),
		r.Src.Range(0, 2, "w_parent_move"),
	}
	for i := 0; i < nOps; i++ {
		switch r.Src.Weighted(w, "op") {
		case 0:
			s.opNode()
		case 1:
			s.opPool()
		case 2:
			s.opBlock()
		case 3:
			s.opWep()
		case 4:
			s.opApply(false)
		case 5:
			s.opParentMove()
		}
	}
	s.opApply(true)
	s.opApply(true)
	// reach probes over the final table
	for class, byIface := range s.sut.rt.routes {
		for _, ts := range byIface {
			for _, t := range ts {
				switch class {
				case routetable.RouteClassVXLANSameSubnet, routetable.RouteClassIPIPSameSubnet:
					r.Probe("direct_route_programmed")
					r.Probe("cross_subnet_pool_direct_route")
				case routetable.RouteClassNoEncap:
					r.Probe("direct_route_programmed")
				case routetable.RouteClassVXLANTunnel, routetable.RouteClassIPIPTunnel:
					r.Probe("tunnel_route_programmed")
					if mode, ok := s.m.poolOf(t.CIDR.String()); ok && mode.cross() {
						r.Probe("cross_subnet_pool_tunnel_route")
					}
				default:
					r.Probe("blackhole_programmed")
				}
			}
		}
	}
	return s.describeModel()
}
