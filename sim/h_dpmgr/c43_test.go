package h_dpmgr

import "verifsim/core"

func runRoutes(r *core.R) string { r.HarnessError("C43 not implemented yet"); return "" }
