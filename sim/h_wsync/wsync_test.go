// Engine wsync (C26): the real watchersyncer (main loop + one watcherCache
// goroutine per resource type; the real conflict-resolving IPPool update
// processor on one type, a simple fan-out processor on another, none on the
// third) inside a testing/synctest bubble, over an in-memory List/Watch backend
// written for this work whose outcomes are scripted by the seed.  Every
// List/Watch call parks until the simulator releases it with an outcome, every
// watch event is delivered by the simulator, so one goroutine runs at a time.
package h_wsync

import (
	"context"
	"errors"
	"fmt"
	"net"
	"os"
	"sort"
	"strconv"
	"strings"
	"syscall"
	"testing"
	"testing/synctest"
	"time"

	apiv3 "github.com/projectcalico/api/pkg/apis/projectcalico/v3"
	kerrors "k8s.io/apimachinery/pkg/api/errors"
	metav1 "k8s.io/apimachinery/pkg/apis/meta/v1"
	"k8s.io/apimachinery/pkg/runtime/schema"

	"github.com/projectcalico/calico/libcalico-go/lib/backend/api"
	"github.com/projectcalico/calico/libcalico-go/lib/backend/model"
	"github.com/projectcalico/calico/libcalico-go/lib/backend/syncersv1/updateprocessors"
	"github.com/projectcalico/calico/libcalico-go/lib/backend/watchersyncer"
	cerrors "github.com/projectcalico/calico/libcalico-go/lib/errors"
	cnet "github.com/projectcalico/calico/libcalico-go/lib/net"

	"verifsim/core"
)

func TestSim(t *testing.T) {
	core.Main(t, "wsync", []string{"C26"}, func(r *core.R) { run(t, r) })
}

// ---------------------------------------------------------------- store

const (
	kindPool = iota // v3 IPPool through the real conflict-resolving processor
	kindRaw         // v3 BGPPeer keys, no processor
	kindFan         // v3 GlobalNetworkSet keys through the harness fan-out processor
)

var kindName = []string{"pool", "raw", "fan"}

type obj struct {
	name   string
	marker int // unique per write
	rev    int
	cidr   int  // pool only
	bad    bool // pool: unparsable CIDR; fan: unconvertible value
}

type hev struct {
	rev      int
	typ      int
	name     string
	new, old *obj // new == nil: delete; old == nil: add
}

type typeState struct {
	kind          int
	li            model.ListInterface
	names         int
	objs          map[string]*obj
	sendDeletes   bool
	emptyNoRev    bool                // backend quirk: an empty collection is listed with an empty revision
	watchUnsupp   bool                // backend quirk: this type cannot be watched
	conflicts     bool                // pool: several names may share a CIDR
	downDeleted   map[string][]string // name -> downstream keys it mapped to, deleted while no watch was live
	listedOK      bool                // completed a list (or was told the API is missing) since start / last wait-for-datastore
	clean         map[string]string   // expected downstream view right after the last successful list, nil once anything else happened
	cleanRev      int
	view          map[string]string // downstream view of this type
	parked        *pcall
	w             *watcher
	lists, polls  int
	procStarts    int
	everCompleted bool
}

type store struct {
	rev       int
	compacted int
	history   []hev
	marker    int
}

func (s *store) snapshotAt(typ, rev int) map[string]*obj {
	out := map[string]*obj{}
	for _, e := range s.history {
		if e.rev > rev {
			break
		}
		if e.typ != typ {
			continue
		}
		if e.new == nil {
			delete(out, e.name)
		} else {
			out[e.name] = e.new
		}
	}
	return out
}

func sortedNames(m map[string]*obj) []string {
	ks := make([]string, 0, len(m))
	for k := range m {
		ks = append(ks, k)
	}
	sort.Strings(ks)
	return ks
}

func cidrOf(i int) string { return fmt.Sprintf("10.%d.0.0/16", i) }

func srcKey(kind int, name string) model.ResourceKey {
	switch kind {
	case kindPool:
		return model.ResourceKey{Kind: apiv3.KindIPPool, Name: name}
	case kindRaw:
		return model.ResourceKey{Kind: apiv3.KindBGPPeer, Name: name}
	default:
		return model.ResourceKey{Kind: apiv3.KindGlobalNetworkSet, Name: name}
	}
}

// kvpOf builds a fresh KVPair (no aliasing with anything handed out before).
func kvpOf(kind int, o *obj) *model.KVPair {
	kv := &model.KVPair{Key: srcKey(kind, o.name), Revision: strconv.Itoa(o.rev)}
	switch kind {
	case kindPool:
		p := apiv3.NewIPPool()
		p.Name = o.name
		p.ResourceVersion = kv.Revision
		p.Spec.CIDR = cidrOf(o.cidr)
		if o.bad {
			p.Spec.CIDR = "not-a-cidr"
		}
		p.Spec.AllowedUses = []apiv3.IPPoolAllowedUse{apiv3.IPPoolAllowedUse(fmt.Sprintf("m%d", o.marker))}
		kv.Value = p
	case kindRaw:
		kv.Value = fmt.Sprintf("m%d", o.marker)
	case kindFan:
		if o.bad {
			kv.Value = fmt.Sprintf("bad%d", o.marker)
		} else {
			kv.Value = fmt.Sprintf("m%d", o.marker)
		}
	}
	return kv
}

func poolKey(cidr int) model.Key {
	_, n, err := cnet.ParseCIDR(cidrOf(cidr))
	if err != nil {
		panic(err)
	}
	return model.IPPoolKey{CIDR: model.PrefixFromIPNet(*n)}
}

// downstreamKeys lists the downstream keys object o maps to.
func downstreamKeys(kind int, o *obj) []string {
	switch kind {
	case kindPool:
		if o.bad {
			return nil
		}
		return []string{poolKey(o.cidr).String()}
	case kindRaw:
		return []string{srcKey(kind, o.name).String()}
	default:
		if o.bad {
			return nil
		}
		ks := []string{model.GlobalConfigKey{Name: o.name + "-a"}.String()}
		if o.marker%2 == 0 {
			ks = append(ks, model.GlobalConfigKey{Name: o.name + "-b"}.String())
		}
		return ks
	}
}

// expectedView restates "the datastore contents after conversion" for one type:
// pools map to their CIDR key and the alphabetically first name wins a shared
// CIDR; unparsable objects convert to nothing; fan-out objects map to one or two
// keys; raw objects map to themselves.
func expectedView(kind int, objs map[string]*obj) map[string]string {
	out := map[string]string{}
	for _, n := range sortedNames(objs) { // sorted: first name wins
		o := objs[n]
		for _, k := range downstreamKeys(kind, o) {
			if _, taken := out[k]; taken && kind == kindPool {
				continue
			}
			out[k] = fmt.Sprintf("m%d", o.marker)
		}
	}
	return out
}

func fmtView(m map[string]string) string {
	ks := core.SortedKeys(m)
	var sb strings.Builder
	for _, k := range ks {
		fmt.Fprintf(&sb, "%s=%s ", k, m[k])
	}
	return sb.String()
}

func eqView(a, b map[string]string) bool {
	if len(a) != len(b) {
		return false
	}
	for k, v := range a {
		if w, ok := b[k]; !ok || w != v {
			return false
		}
	}
	return true
}

// ---------------------------------------------------------------- fan-out processor (simple, harness-written)

type fanProc struct{ ts *typeState }

func (p *fanProc) OnSyncerStarting() { p.ts.procStarts++ }

func (p *fanProc) Process(kvp *model.KVPair) ([]*model.KVPair, error) {
	rk := kvp.Key.(model.ResourceKey)
	ka := model.GlobalConfigKey{Name: rk.Name + "-a"}
	kb := model.GlobalConfigKey{Name: rk.Name + "-b"}
	dels := []*model.KVPair{{Key: ka}, {Key: kb}}
	if kvp.Value == nil {
		return dels, nil
	}
	s := kvp.Value.(string)
	if strings.HasPrefix(s, "bad") {
		return dels, cerrors.ErrorParsingDatastoreEntry{RawKey: rk.Name, RawValue: s, Err: errors.New("unconvertible")}
	}
	m, _ := strconv.Atoi(strings.TrimPrefix(s, "m"))
	out := []*model.KVPair{{Key: ka, Value: s, Revision: kvp.Revision}}
	if m%2 == 0 {
		out = append(out, &model.KVPair{Key: kb, Value: s, Revision: kvp.Revision})
	} else {
		out = append(out, &model.KVPair{Key: kb})
	}
	return out, nil
}

// countingProc wraps the real processor to count resync notifications.
type countingProc struct {
	watchersyncer.SyncerUpdateProcessor
	ts *typeState
}

func (p *countingProc) OnSyncerStarting() {
	p.ts.procStarts++
	p.SyncerUpdateProcessor.OnSyncerStarting()
}

// ---------------------------------------------------------------- backend client stub

type pres struct {
	list  *model.KVPairList
	watch api.WatchInterface
	err   error
}

type pcall struct {
	typ     int
	isWatch bool
	rev     string
	resume  chan pres
}

type watcher struct {
	sim      *sim
	typ      int
	id       int
	ch       chan api.WatchEvent
	pos      int  // every event of this type with rev <= pos has been delivered
	stopped  bool // Stop() called by the code under test
	dead     bool // terminated by the backend (error event sent or channel closed)
	closed   bool
	silent   bool // connection stalled: nothing is delivered until it resumes
	mustFail bool // fell behind a compaction: the next delivery is an expiry
	events   int
}

func (w *watcher) Stop() {
	w.stopped = true
	if !w.closed {
		w.closed = true
		close(w.ch)
	}
}
func (w *watcher) ResultChan() <-chan api.WatchEvent { return w.ch }
func (w *watcher) HasTerminated() bool               { return w.stopped || w.dead }
func (w *watcher) live() bool                        { return w != nil && !w.stopped && !w.dead }

type client struct{ sim *sim }

func (c *client) typeOf(li model.ListInterface) int {
	for i, ts := range c.sim.types {
		if ts.li == li {
			return i
		}
	}
	c.sim.r.HarnessError("List/Watch for an unknown list interface %v", li)
	return -1
}

func (c *client) park(ctx context.Context, pc *pcall) pres {
	ts := c.sim.types[pc.typ]
	if ts.parked != nil {
		c.sim.r.HarnessError("two concurrent backend calls for type %d", pc.typ)
	}
	ts.parked = pc
	select {
	case res := <-pc.resume:
		return res
	case <-ctx.Done():
		if ts.parked == pc {
			ts.parked = nil
		}
		return pres{err: ctx.Err()}
	}
}

func (c *client) List(ctx context.Context, li model.ListInterface, revision string) (*model.KVPairList, error) {
	res := c.park(ctx, &pcall{typ: c.typeOf(li), rev: revision, resume: make(chan pres, 1)})
	return res.list, res.err
}

func (c *client) Watch(ctx context.Context, li model.ListInterface, o api.WatchOptions) (api.WatchInterface, error) {
	res := c.park(ctx, &pcall{typ: c.typeOf(li), isWatch: true, rev: o.Revision, resume: make(chan pres, 1)})
	if res.err != nil {
		return nil, res.err
	}
	return res.watch, nil
}

func (c *client) Create(context.Context, *model.KVPair) (*model.KVPair, error) { panic("not used") }
func (c *client) Update(context.Context, *model.KVPair) (*model.KVPair, error) { panic("not used") }
func (c *client) Apply(context.Context, *model.KVPair) (*model.KVPair, error)  { panic("not used") }
func (c *client) Delete(context.Context, model.Key, string) (*model.KVPair, error) {
	panic("not used")
}
func (c *client) DeleteKVP(context.Context, *model.KVPair) (*model.KVPair, error) {
	panic("not used")
}
func (c *client) Get(context.Context, model.Key, string) (*model.KVPair, error) { panic("not used") }
func (c *client) EnsureInitialized() error                                      { return nil }
func (c *client) Clean() error                                                  { return nil }
func (c *client) Close() error                                                  { return nil }

// ---------------------------------------------------------------- errors the code distinguishes

func errExpired() error { return kerrors.NewResourceExpired("injected: resource version too old") }
func errGone() error    { return kerrors.NewGone("injected: gone") }
func errNotFound() error {
	return kerrors.NewNotFound(schema.GroupResource{Group: "projectcalico.org", Resource: "things"}, "")
}
func errTooLarge() error {
	return &kerrors.StatusError{ErrStatus: metav1.Status{Status: metav1.StatusFailure, Code: 504, Reason: metav1.StatusReasonTimeout,
		Message: "Too large resource version", Details: &metav1.StatusDetails{Causes: []metav1.StatusCause{{Type: metav1.CauseTypeResourceVersionTooLarge, Message: "Too large resource version"}}}}}
}
func errRefused() error {
	return &net.OpError{Op: "dial", Net: "tcp", Err: os.NewSyscallError("connect", syscall.ECONNREFUSED)}
}
func errTooMany() error { return kerrors.NewTooManyRequests("injected: busy", 1) }
func errNotSupported(li model.ListInterface) error {
	return cerrors.ErrorOperationNotSupported{Operation: "Watch", Identifier: li}
}
func errNotExist(li model.ListInterface) error {
	return cerrors.ErrorResourceDoesNotExist{Identifier: li, Err: errors.New("injected: nothing to watch yet")}
}
func errGeneric() error { return errors.New("injected: connection reset by peer") }

// ---------------------------------------------------------------- simulator

type sim struct {
	r          *core.R
	st         *store
	types      []*typeState
	lastStatus api.SyncStatus
	gotStatus  bool
	statuses   int
	faultLvl   int
	delRevOld  bool
	// expiryAsEvent: a watch from a compacted revision is created and fails with an
	// expiry error event (etcd style) instead of failing at creation (Kubernetes style).
	expiryAsEvent bool
	watcherSeq    int
	stopping      bool
	inSyncs       int
	outage        bool
}

// ---- sink callbacks (run on the watchersyncer main-loop goroutine)

func (s *sim) typeOfDownstream(k model.Key) *typeState {
	kind := -1
	switch kk := k.(type) {
	case model.IPPoolKey:
		kind = kindPool
	case model.GlobalConfigKey:
		kind = kindFan
	case model.ResourceKey:
		if kk.Kind == apiv3.KindBGPPeer {
			kind = kindRaw
		}
	}
	for _, ts := range s.types {
		if ts.kind == kind {
			return ts
		}
	}
	s.r.Violation("unknown_downstream_key", "update emitted for key %v which no configured resource type produces", k)
	return nil
}

func (s *sim) OnStatusUpdated(st api.SyncStatus) {
	r := s.r
	r.Logf("  emit status %v", st)
	s.statuses++
	switch st {
	case api.WaitForDatastore:
		if s.inSyncs > 0 {
			r.Probe("wait_for_datastore_after_insync")
		}
		for _, ts := range s.types {
			ts.listedOK = false
		}
	case api.InSync:
		s.inSyncs++
		for i, ts := range s.types {
			r.Check("insync_only_after_every_type_listed", ts.listedOK,
				"in-sync emitted but type %d (%s) has not completed a list since the syncer started / last reported wait-for-datastore", i, kindName[ts.kind])
			if ts.clean != nil {
				r.Check("insync_after_list_contents_emitted", eqView(ts.view, ts.clean),
					"in-sync emitted; type %d (%s) completed a list at revision %d and nothing else happened to it since, but downstream holds {%s} instead of the listed contents {%s}",
					i, kindName[ts.kind], ts.cleanRev, fmtView(ts.view), fmtView(ts.clean))
				r.Probe("insync_clean_snapshot_checked")
			}
		}
	}
	s.lastStatus, s.gotStatus = st, true
}

func (s *sim) OnUpdates(us []api.Update) {
	r := s.r
	for _, u := range us {
		ts := s.typeOfDownstream(u.Key)
		ks := u.Key.String()
		r.Check("no_update_while_wait_for_datastore", s.gotStatus && s.lastStatus != api.WaitForDatastore,
			"update %v for %s emitted while the last emitted status is %v", u.UpdateType, ks, s.lastStatus)
		_, held := ts.view[ks]
		if u.Value == nil {
			r.Logf("  emit delete %s", ks)
			if !held {
				r.Probe("emitted_delete_for_unheld_key")
			}
			delete(ts.view, ks)
			continue
		}
		sig := ""
		switch v := u.Value.(type) {
		case *model.IPPool:
			if len(v.AllowedUses) == 1 {
				sig = string(v.AllowedUses[0])
			}
		case string:
			sig = v
		}
		if sig == "" {
			r.Violation("bad_value", "update for %s carries an unexpected value %v", ks, u.Value)
		}
		r.Logf("  emit %s=%s rev=%s type=%v", ks, sig, u.Revision, u.UpdateType)
		if (u.UpdateType == api.UpdateTypeKVNew) == held {
			r.Probe("emitted_type_differs_from_downstream_state")
		}
		ts.view[ks] = sig
	}
}

func (s *sim) SyncFailed(err error) {
	s.r.Logf("  emit SyncFailed")
	s.r.Probe("sync_failed_callback")
}

func (s *sim) ParseFailed(k, v string) {
	s.r.Logf("  emit ParseFailed %s", k)
	s.r.Probe("parse_failed_callback")
}

// ---- datastore mutation

func (s *sim) mutate() {
	r := s.r
	ti := r.Src.Intn(len(s.types), "mut_type")
	ts := s.types[ti]
	name := fmt.Sprintf("n%d", r.Src.Intn(ts.names, "mut_name"))
	old := ts.objs[name]
	if old != nil && r.Src.Chance(400, "mut_delete") {
		s.st.rev++
		delete(ts.objs, name)
		s.st.history = append(s.st.history, hev{rev: s.st.rev, typ: ti, name: name, old: old})
		r.Op("store: delete %s/%s @%d", kindName[ts.kind], name, s.st.rev)
		if !ts.w.live() || ts.w.silent {
			r.Fault("delete_while_watch_down")
			ts.downDeleted[name] = downstreamKeys(ts.kind, old)
		}
		return
	}
	s.st.rev++
	s.st.marker++
	o := &obj{name: name, marker: s.st.marker, rev: s.st.rev}
	idx, _ := strconv.Atoi(name[1:])
	o.cidr = idx
	if ts.kind == kindPool && ts.conflicts {
		o.cidr = r.Src.Intn(2, "mut_cidr")
	}
	if ts.kind != kindRaw && r.Src.Chance(80, "mut_bad") {
		o.bad = true
		r.Probe("unconvertible_object_written")
	}
	ts.objs[name] = o
	delete(ts.downDeleted, name)
	s.st.history = append(s.st.history, hev{rev: s.st.rev, typ: ti, name: name, new: o, old: old})
	what := "create"
	if old != nil {
		what = "update"
	}
	r.Op("store: %s %s/%s m%d cidr=%d bad=%v @%d", what, kindName[ts.kind], name, o.marker, o.cidr, o.bad, s.st.rev)
}

func (s *sim) compact() {
	r := s.r
	if s.st.rev <= s.st.compacted {
		return
	}
	c := s.st.compacted + 1 + r.Src.Intn(s.st.rev-s.st.compacted, "compact_to")
	s.st.compacted = c
	r.Op("store: compact to %d (head %d)", c, s.st.rev)
	r.Fault("compaction")
	for _, ts := range s.types {
		if ts.w.live() {
			if e := s.nextEvent(ts.w); e != nil && e.rev <= c {
				ts.w.mustFail = true
				r.Probe("watcher_fell_behind_compaction")
			}
		}
	}
}

func (s *sim) nextEvent(w *watcher) *hev {
	for i := range s.st.history {
		e := &s.st.history[i]
		if e.typ == w.typ && e.rev > w.pos {
			return e
		}
	}
	return nil
}

// ---- releasing parked calls

const (
	loOK = iota
	loStale
	loErr
	loNotFound
	loExpired
	loTooLarge
)

const (
	woOK = iota
	woExpired
	woGone
	woTooLarge
	woRefused
	woTooMany
	woNotSupported
	woNotExist
	woGeneric
)

func (s *sim) releaseList(ti int, outcome int) {
	r := s.r
	ts := s.types[ti]
	pc := ts.parked
	ts.parked = nil
	ts.lists++
	var res pres
	reqRev, _ := strconv.Atoi(pc.rev)
	if outcome == loOK && reqRev > s.st.rev {
		outcome = loTooLarge // natural: asked for a revision the store has not reached
	}
	desc := ""
	switch outcome {
	case loOK, loStale:
		at := s.st.rev
		if outcome == loStale {
			lo := s.st.compacted
			if reqRev > lo {
				lo = reqRev // "not older than" the requested revision
			}
			if lo >= s.st.rev {
				outcome = loOK
			} else {
				at = lo + r.Src.Intn(s.st.rev-lo, "stale_rev")
				r.Fault("list_stale_snapshot")
			}
		}
		snap := s.st.snapshotAt(ti, at)
		l := &model.KVPairList{Revision: strconv.Itoa(at)}
		for _, n := range sortedNames(snap) {
			l.KVPairs = append(l.KVPairs, kvpOf(ts.kind, snap[n]))
		}
		if len(l.KVPairs) > 1 && r.Src.Chance(300, "list_reverse") {
			for i, j := 0, len(l.KVPairs)-1; i < j; i, j = i+1, j-1 {
				l.KVPairs[i], l.KVPairs[j] = l.KVPairs[j], l.KVPairs[i]
			}
		}
		if len(l.KVPairs) == 0 && ts.emptyNoRev {
			l.Revision = ""
			r.Probe("list_empty_without_revision")
		}
		res.list = l
		ts.listedOK = true
		ts.everCompleted = true
		ts.clean = expectedView(ts.kind, snap)
		ts.cleanRev = at
		// everything deleted before this snapshot is covered by it
		desc = fmt.Sprintf("ok @%s %d items", l.Revision, len(l.KVPairs))
		r.Probe("list_ok")
	case loErr:
		res.err = errGeneric()
		r.Fault("list_error")
		desc = "error"
	case loNotFound:
		res.err = errNotFound()
		r.Fault("list_not_found_api_missing")
		ts.listedOK = true
		desc = "not found (API missing)"
	case loExpired:
		res.err = errExpired()
		r.Fault("list_expired")
		desc = "expired"
	case loTooLarge:
		res.err = errTooLarge()
		r.Fault("list_too_large_revision")
		desc = "too large revision"
	}
	if res.err != nil {
		ts.clean = nil
	}
	r.Logf("release List type %d (%s) rev=%q -> %s", ti, kindName[ts.kind], pc.rev, desc)
	pc.resume <- res
}

func (s *sim) releaseWatch(ti int, outcome int) {
	r := s.r
	ts := s.types[ti]
	pc := ts.parked
	ts.parked = nil
	var res pres
	reqRev, _ := strconv.Atoi(pc.rev)
	if ts.watchUnsupp {
		outcome = woNotSupported
	} else if outcome == woOK {
		if reqRev > s.st.rev {
			outcome = woTooLarge
		} else if reqRev < s.st.compacted && !s.expiryAsEvent {
			outcome = woExpired
			r.Probe("watch_natural_expiry")
		}
	}
	desc := ""
	switch outcome {
	case woOK:
		s.watcherSeq++
		w := &watcher{sim: s, typ: ti, id: s.watcherSeq, ch: make(chan api.WatchEvent, 4), pos: reqRev}
		if reqRev < s.st.compacted {
			w.mustFail = true // expiry arrives as the first event
			r.Probe("watch_natural_expiry")
		}
		ts.w = w
		res.watch = w
		desc = fmt.Sprintf("ok watcher %d from %d", w.id, reqRev)
		r.Probe("watch_ok")
	case woExpired:
		res.err = errExpired()
		r.Fault("watch_create_expired")
		desc = "expired"
	case woGone:
		res.err = errGone()
		r.Fault("watch_create_gone")
		desc = "gone"
	case woTooLarge:
		res.err = errTooLarge()
		r.Fault("watch_create_too_large")
		desc = "too large revision"
	case woRefused:
		res.err = errRefused()
		r.Fault("watch_create_conn_refused")
		desc = "connection refused"
	case woTooMany:
		res.err = errTooMany()
		r.Fault("watch_create_too_many_requests")
		desc = "too many requests"
	case woNotSupported:
		res.err = errNotSupported(ts.li)
		if ts.watchUnsupp {
			r.Probe("watch_unsupported_type_polled")
			ts.polls++
		} else {
			r.Fault("watch_create_not_supported")
		}
		desc = "not supported"
	case woNotExist:
		res.err = errNotExist(ts.li)
		r.Fault("watch_create_resource_does_not_exist")
		desc = "resource does not exist"
	case woGeneric:
		res.err = errGeneric()
		r.Fault("watch_create_error")
		desc = "error"
	}
	r.Logf("release Watch type %d (%s) rev=%q -> %s", ti, kindName[ts.kind], pc.rev, desc)
	pc.resume <- res
}

func scale(lvl int, ws ...int) []int {
	out := make([]int, len(ws))
	for i, w := range ws {
		if i == 0 {
			out[i] = w
		} else {
			out[i] = w * lvl
		}
	}
	return out
}

func (s *sim) release(ti int, faults bool) {
	ts := s.types[ti]
	lvl := s.faultLvl
	if !faults {
		lvl = 0
	}
	if ts.parked.isWatch {
		s.releaseWatch(ti, s.r.Src.Weighted(scale(lvl, 100, 3, 1, 1, 4, 2, 1, 1, 6), "watch_outcome"))
	} else {
		s.releaseList(ti, s.r.Src.Weighted(scale(lvl, 100, 5, 7, 1, 2, 1), "list_outcome"))
	}
}

// ---- watch delivery

const (
	dvNext = iota
	dvBookmark
	dvErrExpired
	dvErrGeneric
	dvClose
)

func (s *sim) deliver(w *watcher, what int) {
	r := s.r
	ts := s.types[w.typ]
	if w.mustFail && (what == dvNext || what == dvBookmark) {
		what = dvErrExpired
	}
	switch what {
	case dvNext:
		e := s.nextEvent(w)
		if e == nil {
			return
		}
		var ev api.WatchEvent
		switch {
		case e.new == nil:
			old := kvpOf(ts.kind, e.old)
			if !s.delRevOld {
				old.Revision = strconv.Itoa(e.rev)
			}
			ev = api.WatchEvent{Type: api.WatchDeleted, Old: old}
		case e.old == nil:
			ev = api.WatchEvent{Type: api.WatchAdded, New: kvpOf(ts.kind, e.new)}
		default:
			ev = api.WatchEvent{Type: api.WatchModified, New: kvpOf(ts.kind, e.new), Old: kvpOf(ts.kind, e.old)}
		}
		w.pos = e.rev
		w.events++
		ts.clean = nil
		r.Logf("deliver watcher %d (type %d): %v %s @%d", w.id, w.typ, ev.Type, e.name, e.rev)
		r.Probe("watch_event_delivered")
		w.ch <- ev
	case dvBookmark:
		at := s.st.rev
		if e := s.nextEvent(w); e != nil {
			at = e.rev - 1
		}
		if at < w.pos {
			at = w.pos
		}
		w.pos = at
		r.Logf("deliver watcher %d (type %d): bookmark @%d", w.id, w.typ, at)
		r.Probe("watch_bookmark")
		w.ch <- api.WatchEvent{Type: api.WatchBookmark, New: &model.KVPair{Revision: strconv.Itoa(at)}}
	case dvErrExpired:
		r.Logf("deliver watcher %d (type %d): error event: expired", w.id, w.typ)
		if w.mustFail {
			r.Probe("watch_natural_expiry_event")
		} else {
			r.Fault("watch_event_error_expired")
		}
		w.dead = true
		w.ch <- api.WatchEvent{Type: api.WatchError, Error: errExpired()}
	case dvErrGeneric:
		r.Logf("deliver watcher %d (type %d): error event", w.id, w.typ)
		r.Fault("watch_event_error")
		w.dead = true
		w.ch <- api.WatchEvent{Type: api.WatchError, Error: errGeneric()}
	case dvClose:
		r.Logf("deliver watcher %d (type %d): channel closed", w.id, w.typ)
		r.Fault("watch_channel_closed")
		w.dead = true
		if !w.closed {
			w.closed = true
			close(w.ch)
		}
	}
}

// ---- helpers for the driver

func (s *sim) parkedTypes() []int {
	var out []int
	for i, ts := range s.types {
		if ts.parked != nil {
			out = append(out, i)
		}
	}
	return out
}

func (s *sim) liveWatchers(includeSilent bool) []*watcher {
	var out []*watcher
	for _, ts := range s.types {
		if ts.w.live() && (includeSilent || !ts.w.silent) {
			out = append(out, ts.w)
		}
	}
	return out
}

func (s *sim) converged() (bool, string) {
	for i, ts := range s.types {
		want := expectedView(ts.kind, ts.objs)
		if !eqView(ts.view, want) {
			return false, fmt.Sprintf("type %d (%s): downstream {%s} store after conversion {%s}", i, kindName[ts.kind], fmtView(ts.view), fmtView(want))
		}
	}
	return true, ""
}

// runOutage models a connection loss: every call fails until it is over.
func (s *sim) runOutage(d time.Duration) {
	r := s.r
	r.Op("outage for %v", d)
	r.Fault("connection_loss")
	s.outage = true
	refused := r.Src.Chance(600, "outage_refused")
	for _, w := range s.liveWatchers(true) {
		switch r.Src.Weighted([]int{4, 3, 3}, "outage_watch_fate") {
		case 0:
			w.silent = true
			r.Logf("watcher %d stalls", w.id)
		case 1:
			s.deliver(w, dvErrGeneric)
		case 2:
			s.deliver(w, dvClose)
		}
	}
	nmut := r.Src.Intn(4, "outage_mutations")
	end := time.Now().Add(d)
	for time.Now().Before(end) {
		synctest.Wait()
		if ps := s.parkedTypes(); len(ps) > 0 {
			for _, ti := range ps {
				if s.types[ti].parked.isWatch {
					if refused {
						s.releaseWatch(ti, woRefused)
					} else {
						s.releaseWatch(ti, woGeneric)
					}
				} else {
					s.releaseList(ti, loErr)
				}
			}
			continue
		}
		if nmut > 0 {
			nmut--
			s.mutate()
		}
		time.Sleep(250 * time.Millisecond)
	}
	for _, w := range s.liveWatchers(true) {
		w.silent = false
	}
	s.outage = false
	r.Logf("outage over")
}

func run(t *testing.T, r *core.R) {
	r.FaultDecl("list_error", "list_not_found_api_missing", "list_expired", "list_too_large_revision", "list_stale_snapshot",
		"watch_create_expired", "watch_create_gone", "watch_create_too_large", "watch_create_conn_refused", "watch_create_too_many_requests",
		"watch_create_not_supported", "watch_create_resource_does_not_exist", "watch_create_error",
		"watch_event_error_expired", "watch_event_error", "watch_channel_closed", "compaction", "connection_loss", "connection_loss_longer_than_retry_timeout",
		"delete_while_watch_down", "long_time_jump")
	r.ProbeDecl("list_ok", "watch_ok", "watch_event_delivered", "watch_bookmark", "list_empty_without_revision", "watch_unsupported_type_polled",
		"watch_natural_expiry", "watch_natural_expiry_event", "watcher_fell_behind_compaction", "insync_clean_snapshot_checked",
		"sync_failed_callback", "parse_failed_callback", "unconvertible_object_written", "emitted_delete_for_unheld_key",
		"emitted_type_differs_from_downstream_state", "wait_for_datastore_after_insync", "down_deleted_checked", "pool_cidr_conflict",
		"final_status_insync", "final_status_not_insync", "converged_first_check", "quiesce_needed_long_wait", "stop_emptied_downstream", "stop_left_keys_downstream", "stopped_mid_chaos",
		"resync_notifications")
	defer func() {
		if p := recover(); p != nil {
			if s, ok := p.(string); ok && strings.Contains(s, "deadlock") {
				r.HarnessError("bubble deadlock: %v", s)
			}
			panic(p)
		}
	}()
	synctest.Test(t, func(t *testing.T) { simulate(r) })
}

func simulate(r *core.R) {
	start := time.Now()
	thorough := r.Tier == "thorough"
	s := &sim{r: r, st: &store{rev: 1}}
	ntypes := r.Src.Range(1, 3, "ntypes")
	order := r.Src.Perm(3, "type_order")
	s.faultLvl = r.Src.Intn(4, "fault_level")
	s.delRevOld = r.Src.Chance(500, "delete_event_carries_old_revision")
	s.expiryAsEvent = r.Src.Chance(500, "expiry_as_event")
	nsteps := r.Src.Range(15, 120, "nsteps")
	if thorough {
		nsteps = r.Src.Range(15, 400, "nsteps_thorough")
	}
	toIdx := r.Src.Weighted([]int{4, 3, 2, 1}, "retry_timeout")
	timeout := []time.Duration{2 * time.Second, 10 * time.Second, 45 * time.Second, 0}[toIdx]
	wMut := r.Src.Range(5, 40, "mutate_weight")
	wCompact := r.Src.Intn(6, "compact_weight")
	wOutage := 0
	if s.faultLvl > 0 {
		wOutage = r.Src.Intn(4, "outage_weight")
	}
	r.Cfg("ntypes", ntypes)
	r.Cfg("fault_level", s.faultLvl)
	r.Cfg("nsteps", nsteps)
	r.Cfg("retry_timeout", timeout.String())
	r.Cfg("delete_event_carries_old_revision", s.delRevOld)
	r.Cfg("expiry_as_event", s.expiryAsEvent)

	cl := &client{sim: s}
	var rts []watchersyncer.ResourceType
	kinds := ""
	for i := 0; i < ntypes; i++ {
		kind := order[i]
		ts := &typeState{kind: kind, objs: map[string]*obj{}, downDeleted: map[string][]string{}, view: map[string]string{}}
		ts.names = r.Src.Range(1, 4, "names")
		ts.sendDeletes = r.Src.Chance(300, "send_deletes_on_conn_fail")
		ts.emptyNoRev = r.Src.Chance(150, "quirk_empty_list_without_revision")
		ts.watchUnsupp = r.Src.Chance(100, "quirk_watch_unsupported")
		rt := watchersyncer.ResourceType{SendDeletesOnConnFail: ts.sendDeletes}
		switch kind {
		case kindPool:
			ts.conflicts = r.Src.Chance(400, "pool_cidr_conflicts")
			ts.li = model.ResourceListOptions{Kind: apiv3.KindIPPool}
			rt.UpdateProcessor = &countingProc{SyncerUpdateProcessor: updateprocessors.NewIPPoolUpdateProcessor(), ts: ts}
		case kindRaw:
			ts.li = model.ResourceListOptions{Kind: apiv3.KindBGPPeer}
		case kindFan:
			ts.li = model.ResourceListOptions{Kind: apiv3.KindGlobalNetworkSet}
			rt.UpdateProcessor = &fanProc{ts: ts}
		}
		rt.ListInterface = ts.li
		s.types = append(s.types, ts)
		rts = append(rts, rt)
		kinds += fmt.Sprintf("%s(names=%d,sendDeletes=%v,emptyNoRev=%v,watchUnsupp=%v,conflicts=%v) ", kindName[kind], ts.names, ts.sendDeletes, ts.emptyNoRev, ts.watchUnsupp, ts.conflicts)
	}
	r.Cfg("types", kinds)
	r.Logf("types: %s", kinds)
	for i, n := 0, r.Src.Intn(8, "init_objects"); i < n; i++ {
		s.mutate()
	}

	var opts []watchersyncer.Option
	if timeout > 0 {
		opts = append(opts, watchersyncer.WithWatchRetryTimeout(timeout))
	} else {
		timeout = 600 * time.Second // documented default
	}
	ws := watchersyncer.New(cl, rts, s, opts...)
	ws.Start()

	// ---- chaos phase
	for step := 0; step < nsteps; step++ {
		synctest.Wait()
		parked := s.parkedTypes()
		live := s.liveWatchers(false)
		pending := 0
		for _, w := range live {
			if s.nextEvent(w) != nil || w.mustFail {
				pending++
			}
		}
		wRel, wDel := 0, 0
		if len(parked) > 0 {
			wRel = 60
		}
		if len(live) > 0 {
			wDel = 6 + 4*s.faultLvl
			if pending > 0 {
				wDel = 45
			}
		}
		switch r.Src.Weighted([]int{wRel, wDel, wMut, 14, wCompact, wOutage, s.faultLvl}, "sched_action") {
		case 0:
			ti := parked[r.Src.Intn(len(parked), "sched_pick_call")]
			s.release(ti, true)
		case 1:
			w := live[r.Src.Intn(len(live), "sched_pick_watcher")]
			wNext := 0
			if s.nextEvent(w) != nil || w.mustFail {
				wNext = 100
			}
			s.deliver(w, r.Src.Weighted([]int{wNext, 10, 2 * s.faultLvl, 4 * s.faultLvl, 3 * s.faultLvl}, "deliver_what"))
		case 2:
			s.mutate()
		case 3:
			d := []time.Duration{50 * time.Millisecond, 600 * time.Millisecond, 1100 * time.Millisecond, 5100 * time.Millisecond, 31 * time.Second}[r.Src.Weighted([]int{5, 5, 4, 3, 1}, "sleep")]
			r.Op("advance %v", d)
			time.Sleep(d)
		case 4:
			s.compact()
		case 5:
			f := []int{30, 80, 130, 250}[r.Src.Intn(4, "outage_len")]
			d := timeout * time.Duration(f) / 100
			if f > 100 {
				r.Fault("connection_loss_longer_than_retry_timeout")
			}
			s.runOutage(d)
		case 6:
			r.Op("advance 31m (long stall)")
			r.Fault("long_time_jump")
			time.Sleep(31 * time.Minute)
		}
	}

	// ---- some runs are stopped in the middle of whatever the chaos phase left behind (a resync in progress, a
	// cache waiting for the datastore, a list retry timer pending): the shutdown path has to keep the
	// no-update-while-waiting invariant too
	if r.Src.Chance(200, "stop_mid_chaos") {
		synctest.Wait()
		r.Probe("stopped_mid_chaos")
		if r.Src.Chance(500, "stop_after_expired_list") {
			// directed: a connection loss longer than the retry timeout (the caches publish wait-for-datastore), then
			// the first lists that get through are answered "resource expired" - the caches are connected again but
			// have not yet published a new status - and the syncer is stopped right there
			r.Fault("connection_loss_longer_than_retry_timeout")
			s.runOutage(timeout * 130 / 100)
			synctest.Wait()
			for _, ti := range s.parkedTypes() {
				if !s.types[ti].parked.isWatch {
					r.Fault("list_expired")
					s.releaseList(ti, loExpired)
				}
			}
			synctest.Wait()
		}
		r.Logf("stop in mid-chaos at +%v (last status %v)", time.Since(start).Round(time.Millisecond), s.lastStatus)
		s.stopping = true
		for _, ts := range s.types {
			ts.clean = nil
		}
		ws.Stop()
		r.SimTime(time.Since(start))
		r.Fingerprint(fmt.Sprintf("stopped-mid-chaos status=%v", s.lastStatus))
		return
	}

	// ---- quiesce: faults off, the store stops changing; bounded simulated time to converge
	synctest.Wait()
	r.Logf("quiesce: faults off at +%v, store head %d", time.Since(start).Round(time.Millisecond), s.st.rev)
	for _, ts := range s.types {
		if ts.kind == kindPool {
			seen := map[int]bool{}
			for _, n := range sortedNames(ts.objs) {
				if o := ts.objs[n]; !o.bad {
					if seen[o.cidr] {
						r.Probe("pool_cidr_conflict")
					}
					seen[o.cidr] = true
				}
			}
		}
	}
	const bound = 45 * time.Minute // covers the documented 30-minute retry for a missing API plus slack
	const settle = 12 * time.Second
	qStart := time.Now()
	var convergedAt time.Time
	isConv := false
	first := true
	for {
		synctest.Wait()
		if ps := s.parkedTypes(); len(ps) > 0 {
			s.release(ps[0], false)
			continue
		}
		progressed := false
		for _, w := range s.liveWatchers(true) {
			if s.nextEvent(w) != nil || w.mustFail {
				s.deliver(w, dvNext)
				progressed = true
				break
			}
		}
		if progressed {
			continue
		}
		ok, diff := s.converged()
		if first {
			first = false
			if ok {
				r.Probe("converged_first_check")
			}
		}
		now := time.Now()
		if ok && !isConv {
			isConv, convergedAt = true, now
		} else if !ok {
			isConv = false
		}
		if isConv && now.Sub(convergedAt) >= settle {
			break
		}
		if now.Sub(qStart) > bound {
			s.finalDiff(diff, bound)
		}
		step := time.Second
		if now.Sub(qStart) > time.Minute && !isConv {
			step = 30 * time.Second
			r.Probe("quiesce_needed_long_wait")
		}
		time.Sleep(step)
	}
	r.Eval()
	for _, ts := range s.types {
		for range ts.downDeleted {
			r.Probe("down_deleted_checked")
		}
		if ts.procStarts > 0 {
			r.Probe("resync_notifications")
		}
	}
	if s.lastStatus == api.InSync {
		r.Probe("final_status_insync")
	} else {
		r.Probe("final_status_not_insync")
	}
	fp := ""
	for _, ts := range s.types {
		fp += kindName[ts.kind] + "{" + fmtView(ts.view) + "}"
	}

	// ---- shut down (the no-update-while-waiting invariant stays armed)
	s.stopping = true
	for _, ts := range s.types {
		ts.clean = nil
	}
	ws.Stop()
	left := 0
	for _, ts := range s.types {
		left += len(ts.view)
	}
	if left == 0 {
		r.Probe("stop_emptied_downstream")
	} else {
		r.Probe("stop_left_keys_downstream")
	}
	r.SimTime(time.Since(start))
	r.Fingerprint(fp)
}

// finalDiff reports the convergence failure with the most specific oracle name.
func (s *sim) finalDiff(diff string, bound time.Duration) {
	r := s.r
	for i, ts := range s.types {
		want := expectedView(ts.kind, ts.objs)
		for _, n := range core.SortedKeys(ts.downDeleted) {
			for _, k := range ts.downDeleted[n] {
				if _, inWant := want[k]; inWant {
					continue
				}
				if v, held := ts.view[k]; held {
					r.Violation("deleted_while_watch_down_not_removed",
						"type %d (%s): %s was deleted from the store while no watch was live, yet %v after faults stopped downstream still holds %s=%s (%s)",
						i, kindName[ts.kind], n, bound, k, v, diff)
				}
			}
		}
	}
	r.Violation("converges_to_store", "%v of simulated time after faults stopped the emitted updates have not converged to the store: %s", bound, diff)
}
