package h_gcsim

import (
	"context"
	"fmt"
	"os"
	"strings"
	"testing"
	"testing/synctest"
	"time"

	v3 "github.com/projectcalico/api/pkg/apis/projectcalico/v3"
	"github.com/sirupsen/logrus"

	"github.com/projectcalico/calico/libcalico-go/lib/backend/model"
	"github.com/projectcalico/calico/libcalico-go/lib/ipam"

	"verifsim/core"
	"verifsim/sched"
	"verifsim/store"
)

func TestSim(t *testing.T) {
	core.Main(t, "gcsim", []string{"C23"}, func(r *core.R) {
		finished := false
		func() {
			defer func() {
				if p := recover(); p != nil {
					// Goroutines of the controller and of the service actors that are still blocked when the run
					// is over make the bubble report a deadlock on exit; that is the expected way out.
					if s := fmt.Sprint(p); finished && strings.Contains(s, "deadlock") {
						return
					}
					panic(p)
				}
			}()
			synctest.Test(t, func(t *testing.T) {
				run(r)
				finished = true
			})
		}()
	})
}

func run(r *core.R) {
	r.FaultDecl("conflict", "error_before", "commit_then_error", "k8s_api_error", "clock_jump", "informer_stall", "feed_stall",
		"feed_reorder_across_kinds", "feed_coalesced", "feed_duplicate", "feed_resync", "cni_del_lost")
	r.ProbeDecl("gc_release_ips_call", "gc_released_allocation", "gc_release_block_affinity_call", "gc_release_host_affinities_call",
		"gc_cold_ip_gc_call", "gc_live_pod_lookup", "gc_release_names_no_current_allocation", "gc_block_release_is_noop", "gc_host_release_is_noop",
		"release_after_grace", "release_immediate_node_gone", "release_tunnel_address", "tunnel_address_allocated",
		"cni_add_ok", "cni_add_failed", "cni_del_failed", "sandbox_with_two_addresses", "node_with_only_non_affine_allocations",
		"node_recreated_during_sync_pass", "liveness_leaks_demanded", "liveness_leak_released_in_time", "liveness_leak_not_demanded_pod_unreported",
		"stale_view_made_live_allocation_suspect", "foreign_allocation")
	src := r.Src
	w := newWorld(r)
	w.or = newOracle(w)
	w.feed = newFeed(w)
	w.inf = &informer{w: w, wk: newWaiter()}
	w.nd = &nodeDeleter{w: w, wk: newWaiter()}

	// A log.Fatal inside the controller ("BUG: ...") must surface as a violation, not as a vanished process.
	logrus.StandardLogger().ExitFunc = func(int) {
		r.Violation("sut_fatal", "the controller called log.Fatal (see the SUT log with VERIF_SUTLOG=1)")
	}

	// swarm: fault rates
	w.pKlErr = src.Intn(30, "p_kl_err")
	w.pKlConflict = src.Intn(60, "p_kl_conflict")
	w.pGcErr = src.Intn(60, "p_gc_err")
	w.pGcConflict = src.Intn(120, "p_gc_conflict")
	w.pGcCommitErr = src.Intn(30, "p_gc_commit_err")
	w.pAPIErr = src.Intn(80, "p_api_err")
	w.pJump = src.Intn(40, "p_jump")
	w.pInfStall = src.Intn(150, "p_inf_stall")
	w.pFeedStall = src.Intn(120, "p_feed_stall")
	w.pFeedReorder = src.Intn(300, "p_feed_reorder")
	w.pFeedDup = src.Intn(100, "p_feed_dup")
	w.pFeedCoalesce = src.Intn(400, "p_feed_coalesce")
	w.pFeedResync = src.Intn(40, "p_feed_resync")
	w.pDelLost = 150 + src.Intn(350, "p_del_lost")
	w.allowPodCreateLag = src.Chance(500, "pod_create_lag")
	if src.Chance(250, "informer_outage_run") {
		// a run in which the informer falls far behind again and again (watch outages): the collector's cached
		// view is wrong for longer than the grace period, and only its final live look-up stands between a stale
		// cache and a live pod's address
		w.pInfStall = 300 + src.Intn(300, "p_inf_stall_outage")
		w.infLongStalls = true
	}
	switch src.Intn(5, "fault_profile") {
	case 0: // no datastore/API faults, prompt feeds: only genuine concurrency and lost CNI DELs
		w.pKlErr, w.pKlConflict, w.pGcErr, w.pGcConflict, w.pGcCommitErr, w.pAPIErr = 0, 0, 0, 0, 0, 0
		w.pInfStall, w.pFeedStall, w.pFeedReorder, w.pFeedDup, w.pFeedCoalesce, w.pJump, w.pFeedResync = 0, 0, 0, 0, 0, 0, 0
	case 1: // stale views only
		w.pKlErr, w.pKlConflict, w.pGcErr, w.pGcConflict, w.pGcCommitErr, w.pAPIErr = 0, 0, 0, 0, 0, 0
	}
	for k, v := range map[string]int{"p_kl_err": w.pKlErr, "p_kl_conflict": w.pKlConflict, "p_gc_err": w.pGcErr, "p_gc_conflict": w.pGcConflict,
		"p_gc_commit_err": w.pGcCommitErr, "p_api_err": w.pAPIErr, "p_jump": w.pJump, "p_inf_stall": w.pInfStall, "p_feed_stall": w.pFeedStall,
		"p_feed_resync": w.pFeedResync, "p_feed_reorder": w.pFeedReorder, "p_feed_dup": w.pFeedDup, "p_feed_coalesce": w.pFeedCoalesce, "p_del_lost": w.pDelLost} {
		r.Cfg(k, v)
	}
	r.Cfg("pod_create_lag", w.allowPodCreateLag)

	// observers: ground truth first, then the syncer feed
	w.st.OnWrite = append(w.st.OnWrite, func(wr store.Write) {
		w.or.onWrite(wr)
		w.feed.onWrite(wr.Key)
	})
	// what the set-up wrote before the observers existed is part of the feed's initial snapshot
	w.feed.onWrite(model.ResourceKey{Kind: v3.KindIPPool, Name: "pool0"})
	w.feed.onWrite(model.ResourceKey{Kind: v3.KindClusterInformation, Name: "default"})
	w.feed.syncAt = time.Duration([]int{0, 0, 1500, 6000}[src.Intn(4, "insync_delay")]) * time.Millisecond

	// actors
	for _, n := range w.nodes {
		n.kl = &kubelet{w: w, n: n, sa: w.s.NewActor("kl." + n.name), wk: newWaiter()}
	}
	w.inf.sa = w.s.NewActor("informer")
	w.feed.sa = w.s.NewActor("feed")
	w.feed.wk = newWaiter()
	w.nd.sa = w.s.NewActor("nodedel")
	w.dir = &director{w: w, sa: w.s.NewActor("director"), events: src.Range(6, map[bool]int{false: 40, true: 60}[r.Tier == "thorough"], "events")}
	r.Cfg("events", w.dir.events)
	if src.Chance(300, "foreign_alloc") {
		w.nodes[0].kl.enqueue(&task{kind: tForeign})
	}

	w.s.Policy = w.faultPolicy
	w.s.OnStep = func(int) {
		for _, q := range w.s.Parked() {
			if q.Actor == w.gcActor {
				return
			}
		}
		w.gcIdleSeenAt = w.now()
	}
	// Time between scheduling steps.  Besides the drawn clock jumps (a fault dimension), every other step lets a
	// millisecond-scale, irregular amount of time pass: steps that take no time at all would keep every instant of
	// the run on the scheduler's 100 ms grid, where the controller's own timers (1 s batch window, 30 s retry
	// back-off, ticker) fall due at exactly the same instant over and over.  (testing/synctest fires same-instant
	// timers in a drawn order; the runtime overlay seeds that draw since tools/mkoverlay.py covers runtime/time.go.)
	jitterN := 0
	noJitter := os.Getenv("GCSIM_NO_JITTER") != "" // diagnostic switch: measure the determinism of same-instant timers
	w.s.TimeJump = func() time.Duration {
		jitterN++
		if jitterN%2 == 0 && !noJitter {
			return 500*time.Microsecond + time.Duration((jitterN*7919)%997)*time.Microsecond
		}
		if w.quiesced || w.runtimeBusy() || !src.Chance(w.pJump, "t_jump") {
			return 0
		}
		r.Fault("clock_jump")
		g := int(w.grace / time.Second)
		return time.Duration([]int{1, 3, g / 2, g + 1}[src.Intn(4, "t_jump_len")]) * time.Second
	}

	w.startController()
	go w.checker()

	dirDone := make(chan struct{})
	for _, n := range w.nodes {
		w.s.Go(n.kl.sa, n.kl.run)
	}
	w.s.Go(w.inf.sa, w.inf.run)
	w.s.Go(w.feed.sa, w.feed.run)
	w.s.Go(w.nd.sa, w.nd.run)
	w.s.Go(w.dir.sa, func(ctx context.Context) {
		w.dir.run(ctx)
		close(dirDone)
	})
	qa := w.s.NewActor("quiesce")
	w.s.Go(qa, func(ctx context.Context) {
		<-dirDone
		w.quiesce(ctx)
	})
	if !w.s.Run(6000) {
		r.Violation("sut_stuck", "the run did not finish: scheduler gave up after %d steps at %s", w.s.Steps, secs(w.now()))
	}
	close(w.gcStop)
	close(w.checkKick)
	r.SimTime(w.now())
}

// runtimeBusy: some kubelet has a CNI call in flight or a status report outstanding.  The clock does not jump then:
// a CNI ADD plus the report of its address completes within the drawn status lag (engine assumption: well inside
// the grace period - that is what the grace period is for).
func (w *world) runtimeBusy() bool {
	for _, n := range w.nodes {
		if n.kl.busy || len(n.kl.q) > 0 {
			return true
		}
	}
	return false
}

func isStoreOp(op string) bool {
	switch op {
	case "create", "update", "apply", "delete", "get", "list":
		return true
	}
	return false
}

func (w *world) faultPolicy(q *sched.Request) sched.Fault {
	src := w.src
	if w.quiesced {
		return sched.None
	}
	switch {
	case q.Actor == w.gcActor:
		if q.Op == "k8s-get-pod" {
			if src.Chance(w.pAPIErr, "f_api_err") {
				return sched.ErrorBefore
			}
			return sched.None
		}
		if !isStoreOp(q.Op) {
			return sched.None
		}
		if q.Write && (q.Op == "update" || q.Op == "delete") && src.Chance(w.pGcConflict, "f_gc_conflict") {
			return sched.Conflict
		}
		if src.Chance(w.pGcErr, "f_gc_err") {
			return sched.ErrorBefore
		}
		if q.Write && src.Chance(w.pGcCommitErr, "f_gc_commit_err") {
			return sched.CommitThenError
		}
	case strings.HasPrefix(q.Actor.Name, "kl."):
		if !isStoreOp(q.Op) {
			return sched.None
		}
		if q.Write && (q.Op == "update" || q.Op == "delete") && src.Chance(w.pKlConflict, "f_kl_conflict") {
			return sched.Conflict
		}
		if src.Chance(w.pKlErr, "f_kl_err") {
			return sched.ErrorBefore
		}
	}
	return sched.None
}

func (w *world) drained() bool {
	for _, n := range w.nodes {
		if len(n.kl.q) > 0 || n.kl.busy {
			return false
		}
	}
	if len(w.inf.pods)+len(w.inf.nodes) > 0 || len(w.nd.due) > 0 || !w.feed.inSync {
		return false
	}
	for _, q := range w.feed.pending {
		if len(q) > 0 {
			return false
		}
	}
	return w.gc.PendingSyncerUpdatesForSim() == 0
}

// quiesce: faults off, every view brought up to date, then the liveness bound and the final checks.
func (w *world) quiesce(ctx context.Context) {
	r, o := w.r, w.or
	w.s.Park(ctx, "quiesce", "begin", false)
	w.quiesced = true // faults off (the policy and the clock-jump draw consult this flag)
	r.Logf("quiesce: faults off at %s", secs(w.now()))
	// Calico node resources of deleted nodes go away now at the latest
	for _, n := range w.nodes {
		n.kl.wk.wake()
	}
	w.inf.wk.wake()
	w.feed.wk.wake()
	w.nd.wk.wake()
	// Poll only at scheduler-chosen instants (everything else durably blocked), never straight after a timer.
	for i := 0; ; i++ {
		w.s.Park(ctx, "quiesce", "poll", false)
		if w.drained() {
			break
		}
		if i > 4000 {
			r.Violation("sut_stuck", "the system did not drain after faults stopped (at %s)", secs(w.now()))
		}
		time.Sleep(250 * time.Millisecond)
	}
	w.s.Park(ctx, "quiesce", "drained", false)
	w.reassess()
	tq := w.now()
	var demanded []*allocT
	for _, id := range sortedKeys(o.allocs) {
		a := o.allocs[id]
		if o.leakDemanded(a) {
			demanded = append(demanded, a)
			r.Probe("liveness_leaks_demanded")
		} else if !a.owner.alive() && a.owner.kind == ownPod {
			r.Probe("liveness_leak_not_demanded_pod_unreported")
		}
	}
	bound := 2*w.grace + w.period
	r.Logf("quiesce: drained at %s; %d leaked allocations must be released by %s", secs(tq), len(demanded), secs(tq+bound))
	time.Sleep(bound + 100*time.Millisecond)
	// let whatever the controller has in flight at the deadline complete its current datastore call
	w.s.Park(ctx, "quiesce", "deadline", false)
	if o.armed() {
		for _, a := range demanded {
			r.Check("leak_released_within_bound", a.gone && a.goneAt <= tq+bound+100*time.Millisecond,
				"leaked allocation %s (%s; owner gone, no view justifies it) was still allocated %s after faults stopped and every view was current (bound 2 x grace + period = %s); released=%v",
				a.id, a.owner.describe(), secs(w.now()-tq), bound, a.gone)
			r.Probe("liveness_leak_released_in_time")
		}
		// nothing that is still justified may have disappeared through the collector: covered at every call; at
		// the end the bookkeeping must also be consistent one more time
		w.kickChecker()
	}
	time.Sleep(2 * time.Second)
	w.s.Park(ctx, "quiesce", "end", false)
	r.Fingerprint(w.fingerprint())
	// let the service actors finish
	for _, n := range w.nodes {
		n.kl.closed = true
		n.kl.wk.wake()
	}
	w.inf.closed, w.feed.closed, w.nd.closed = true, true, true
	w.inf.wk.wake()
	w.feed.wk.wake()
	w.nd.wk.wake()
}

func (w *world) fingerprint() string {
	var sb strings.Builder
	for _, id := range sortedKeys(w.or.allocs) {
		a := w.or.allocs[id]
		fmt.Fprintf(&sb, "%s@%s:%v;", id, a.node, a.owner.alive())
	}
	for _, c := range sortedKeys(w.or.blocks) {
		fmt.Fprintf(&sb, "%s=%s;", c, w.or.blocks[c].affinity)
	}
	for _, n := range w.nodes {
		fmt.Fprintf(&sb, "%s:%v/%d;", n.name, n.alive, n.inc)
	}
	fmt.Fprintf(&sb, "rel=%d", w.or.releases)
	return sb.String()
}

var _ = ipam.AttributeNode
