package h_gcsim

import (
	"context"
	"fmt"
	corev1 "k8s.io/api/core/v1"
	"sort"
	"strings"
	"time"

	"github.com/projectcalico/calico/libcalico-go/lib/backend/model"
	"github.com/projectcalico/calico/libcalico-go/lib/ipam"
	cnet "github.com/projectcalico/calico/libcalico-go/lib/net"

	"verifsim/sched"
	"verifsim/store"
)

// ---- decoded blocks

type allocView struct {
	ip     string
	handle string
	seq    uint64
	attrs  map[string]string
}

type blockView struct {
	cidr     string
	affinity string // "host:<node>" or ""
	allocs   []allocView
	cooling  int
}

func decodeBlock(b *model.AllocationBlock) *blockView {
	v := &blockView{cidr: b.CIDR.String()}
	if b.Affinity != nil {
		v.affinity = *b.Affinity
	}
	for ord, idx := range b.Allocations {
		if idx == nil || *idx < 0 || *idx >= len(b.Attributes) {
			continue
		}
		at := b.Attributes[*idx]
		if at.ReleasedAt != nil {
			v.cooling++
			continue
		}
		a := allocView{ip: b.OrdinalToIP(ord).IP.String(), seq: b.GetSequenceNumberForOrdinal(ord), attrs: at.ActiveOwnerAttrs}
		if at.HandleID != nil {
			a.handle = *at.HandleID
		}
		v.allocs = append(v.allocs, a)
	}
	return v
}

func (b *blockView) String() string {
	var parts []string
	for _, a := range b.allocs {
		parts = append(parts, fmt.Sprintf("%s=%s#%d", a.ip, a.handle, a.seq))
	}
	return fmt.Sprintf("[%s aff=%q cooling=%d %s]", b.cidr, b.affinity, b.cooling, strings.Join(parts, " "))
}

func allocID(handle, ip string, seq uint64) string { return fmt.Sprintf("%s/%s#%d", handle, ip, seq) }

// allocT is one allocation as it exists (or existed) in the datastore, with its ground-truth owner.
type allocT struct {
	id     string
	ip     string
	handle string
	seq    uint64
	cidr   string
	node   string // "node" attribute
	pod    string // "pod" attribute
	owner  *owner
	bornAt time.Duration
	// suspectSince: the first instant at which ground truth, the API server or the informer cache failed to
	// justify the allocation (the earliest instant from which the collector could have started its grace timer).
	suspect      bool
	suspectSince time.Duration
	// nodeGoneSeen: at some instant of the allocation's life its node did not exist (in truth or in the node cache)
	nodeGoneSeen bool
	judged       bool // named by a release call of the collector that the oracle accepted
	gone         bool
	goneAt       time.Duration
}

type oracle struct {
	w      *world
	blocks map[string]*blockView // the datastore's blocks (ground truth of allocations)
	allocs map[string]*allocT    // live allocations by id
	byAddr map[string]*allocT    // live allocation per address
	// liveness bookkeeping
	demanded []*allocT
	releases int
}

func newOracle(w *world) *oracle {
	return &oracle{w: w, blocks: map[string]*blockView{}, allocs: map[string]*allocT{}, byAddr: map[string]*allocT{}}
}

func (o *oracle) armed() bool { return o.w.r.Armed("C23") }

// onWrite runs atomically with every committed datastore write.
func (o *oracle) onWrite(wr store.Write) {
	w, r := o.w, o.w.r
	bk, ok := wr.Key.(model.BlockKey)
	if !ok || wr.Kind == "touch" {
		return
	}
	cidr := bk.CIDR.String()
	var nb *blockView
	if kv := w.st.Peek(wr.Key); kv != nil {
		nb = decodeBlock(kv.Value.(*model.AllocationBlock))
	}
	old := o.blocks[cidr]
	now := w.now()
	stay := map[string]bool{}
	if nb != nil {
		for _, a := range nb.allocs {
			stay[allocID(a.handle, a.ip, a.seq)] = true
		}
	}
	if old != nil {
		for _, a := range old.allocs {
			id := allocID(a.handle, a.ip, a.seq)
			if stay[id] {
				continue
			}
			at := o.allocs[id]
			if at == nil {
				continue
			}
			at.gone, at.goneAt = true, now
			delete(o.allocs, id)
			if o.byAddr[at.ip] == at {
				delete(o.byAddr, at.ip)
			}
			r.Logf("  store: %s released by %s (%s)", id, wr.Actor, wr.Kind)
			if wr.Actor == "gc" {
				o.releases++
				r.Probe("gc_released_allocation")
				if o.armed() {
					// Whatever the collector's writes remove must have been named (and accepted) at the call that caused them.
					r.Check("gc_write_removes_only_judged_allocations", at.judged,
						"a datastore write by the collector (%s of block %s) removed allocation %s owned by %s, which no accepted release call named",
						wr.Kind, cidr, id, at.owner.describe())
				}
			}
		}
	}
	if nb != nil {
		for _, a := range nb.allocs {
			id := allocID(a.handle, a.ip, a.seq)
			if o.allocs[id] != nil {
				continue
			}
			ow := w.owners[a.handle]
			if ow == nil {
				r.HarnessError("allocation %s in block %s has a handle nobody registered (writer %s)", id, cidr, wr.Actor)
			}
			at := &allocT{id: id, ip: a.ip, handle: a.handle, seq: a.seq, cidr: cidr, node: a.attrs[ipam.AttributeNode], pod: a.attrs[ipam.AttributePod], owner: ow, bornAt: now}
			o.allocs[id] = at
			o.byAddr[a.ip] = at
			r.Logf("  store: %s allocated by %s (node=%s pod=%s)", id, wr.Actor, at.node, at.pod)
			o.assess(at, now)
		}
	}
	if nb == nil {
		delete(o.blocks, cidr)
	} else {
		o.blocks[cidr] = nb
	}
}

// viewJustifies restates the validity rule of the design document for one view of the pod: the pod exists, is on
// the allocation's node and holds the address (a pod that has not reported any address yet cannot be told apart
// and counts as justifying).
func (w *world) viewJustifies(v *podView, a *allocT) bool {
	if v == nil {
		return false
	}
	if n := w.nodeByN[a.node]; n == nil || v.knode != n.kname {
		return false
	}
	if len(v.ips) == 0 {
		return true
	}
	if v.finished {
		return false // a finished pod no longer owns its addresses
	}
	for _, ip := range v.ips {
		if ip == a.ip {
			return true
		}
	}
	return false
}

// lingerJustified: the allocation belongs to the current sandbox of a pod whose node was deleted while the pod
// object still exists, and that object (the API server's view, the only witness left) still speaks for the
// address: bound to that node, reporting this address or none yet.
func (o *oracle) lingerJustified(a *allocT) bool {
	if a.owner.kind != ownPod {
		return false
	}
	pod := a.owner.sb.pod
	if !pod.lingering || !pod.alive || pod.cur != a.owner.sb {
		return false
	}
	return o.w.viewJustifies(o.w.apiPods[pod.key()], a)
}

func (o *oracle) assess(a *allocT, now time.Duration) {
	w := o.w
	ok := a.owner.alive()
	if ok && a.owner.kind == ownPod {
		k := podNS + "/" + a.pod
		ok = w.viewJustifies(w.apiPods[k], a) && w.viewJustifies(w.cachePods[k], a)
	}
	if !ok && !a.suspect {
		a.suspect, a.suspectSince = true, now
		if a.owner.alive() {
			w.r.Probe("stale_view_made_live_allocation_suspect")
		}
	}
	if n := w.nodeByN[a.node]; n == nil || !n.alive || !w.cacheNodes[n.kname] {
		a.nodeGoneSeen = true
	}
}

// reassess is called after every change of ground truth or of a view.
func (w *world) reassess() {
	now := w.now()
	for _, a := range w.or.allocs {
		w.or.assess(a, now)
	}
}

func (o *oracle) find(handle, ip string, seq *uint64) *allocT {
	a := o.byAddr[ip]
	if a == nil || a.handle != handle {
		return nil
	}
	if seq != nil && *seq != a.seq {
		return nil
	}
	return a
}

// ---- the collector's IPAM interface: every mutating call is judged at the instant it is issued

type gcIPAM struct {
	ipam.Interface
	w *world
}

func relStr(opts []ipam.ReleaseOptions) string {
	var parts []string
	for _, ro := range opts {
		s := ro.Address + " handle=" + ro.Handle
		if ro.SequenceNumber != nil {
			s += fmt.Sprintf(" seq=%d", *ro.SequenceNumber)
		}
		parts = append(parts, s)
	}
	sort.Strings(parts)
	return strings.Join(parts, "; ")
}

func (g *gcIPAM) ReleaseIPs(ctx context.Context, in ...ipam.ReleaseOptions) ([]cnet.IP, []ipam.ReleaseOptions, error) {
	w, r, o := g.w, g.w.r, g.w.or
	opts := append([]ipam.ReleaseOptions(nil), in...)
	now := w.now()
	w.feed.advance()
	r.Op("gc: ReleaseIPs(%s) at %s", relStr(opts), secs(now))
	r.Probe("gc_release_ips_call")
	named := map[string]map[string]bool{}
	for _, ro := range opts {
		if named[ro.Handle] == nil {
			named[ro.Handle] = map[string]bool{}
		}
		named[ro.Handle][ro.Address] = true
	}
	if o.armed() {
		for _, ro := range opts {
			a := o.find(ro.Handle, ro.Address, ro.SequenceNumber)
			if a == nil {
				r.Probe("gc_release_names_no_current_allocation")
				continue
			}
			justified := a.owner.alive() || o.lingerJustified(a)
			tag := ""
			if a.owner.kind == ownPod && justified && !a.owner.sb.pod.node.alive {
				// The pod's node has been deleted but its API object lingers.  The controller deliberately serves the
				// final re-validation of such allocations from its informer cache ("We prefer the cache when the hosting
				// node has been deleted"); if that cache has not yet seen this pod incarnation, the address of an
				// existing pod is freed.  Tagged so that exactly this cause is a registered finding.
				pod := a.owner.sb.pod
				obj, exists, _ := w.podIdx.GetByKey(pod.key())
				if !exists || string(obj.(*corev1.Pod).UID) != pod.uid {
					tag = "NODE-GONE/STALE-POD-CACHE: "
				}
			}
			r.Check("released_allocation_is_unjustified", !justified,
				"%sthe collector issued ReleaseIPs for %s at %s while its owner still justifies it: %s", tag, a.id, secs(now), a.owner.describe())
			if a.owner.kind == ownPod {
				if !a.suspect {
					r.HarnessError("dead owner but allocation %s never became suspect", a.id)
				}
				if a.nodeGoneSeen {
					r.Probe("release_immediate_node_gone")
				} else {
					r.Probe("release_after_grace")
				}
				r.Check("grace_period_elapsed", a.nodeGoneSeen || now-a.suspectSince >= w.grace,
					"the collector issued ReleaseIPs for %s at %s; its owner (%s) stopped justifying it (in truth or in a view shown to the collector) only at %s, %s ago; grace period %s, and its node existed throughout",
					a.id, secs(now), a.owner.describe(), secs(a.suspectSince), secs(now-a.suspectSince), w.grace)
			} else {
				r.Probe("release_tunnel_address")
			}
			a.judged = true
		}
		// all of a handle's addresses together or none: judged against the block versions the collector has applied
		for _, h := range sortedKeys(named) {
			for _, cidr := range sortedKeys(w.feed.view) {
				for _, va := range w.feed.view[cidr].allocs {
					if va.handle != h || named[h][va.ip] {
						continue
					}
					cur := o.byAddr[va.ip]
					if cur == nil || cur.handle != h {
						continue // already gone from the datastore: nothing left to release together
					}
					r.Violation("handle_released_together_or_not_at_all",
						"ReleaseIPs(%s) names handle %s but omits %s, which that handle holds in block %s as delivered to the collector (and still holds in the datastore)",
						relStr(opts), h, va.ip, cidr)
				}
			}
			r.Eval()
		}
	}
	ips, rel, err := g.Interface.ReleaseIPs(ctx, in...)
	r.Logf("  gc: ReleaseIPs -> released=%d %s", len(rel), errShort(err))
	w.kickChecker()
	return ips, rel, err
}

func nodeBorn(n *nodeT) time.Duration {
	if n == nil {
		return 0
	}
	return n.bornAt
}

func affinityHost(aff string) string { return strings.TrimPrefix(aff, "host:") }

func (o *oracle) affineBlocks(host string) []string {
	var out []string
	for _, cidr := range sortedKeys(o.blocks) {
		if o.blocks[cidr].affinity == "host:"+host {
			out = append(out, cidr)
		}
	}
	return out
}

func (g *gcIPAM) ReleaseBlockAffinity(ctx context.Context, block *model.AllocationBlock, mustBeEmpty bool) error {
	w, r, o := g.w, g.w.r, g.w.or
	w.feed.advance()
	cidr := block.CIDR.String()
	host := ""
	if block.Affinity != nil {
		host = affinityHost(*block.Affinity)
	}
	r.Op("gc: ReleaseBlockAffinity(%s host=%s mustBeEmpty=%v) at %s", cidr, host, mustBeEmpty, secs(w.now()))
	r.Probe("gc_release_block_affinity_call")
	if o.armed() {
		tb := o.blocks[cidr]
		n := w.nodeByN[host]
		switch {
		case tb == nil || tb.affinity != "host:"+host || host == "":
			r.Probe("gc_block_release_is_noop")
		case n != nil && n.alive:
			others := 0
			for _, c := range o.affineBlocks(host) {
				if c != cidr {
					others++
				}
			}
			r.Check("never_last_block_of_live_node", others >= 1,
				"the collector issued ReleaseBlockAffinity for %s, the only block affine to node %s, which still exists", cidr, host)
		default:
			r.Eval()
		}
	}
	err := g.Interface.ReleaseBlockAffinity(ctx, block, mustBeEmpty)
	r.Logf("  gc: ReleaseBlockAffinity(%s) -> %s", cidr, errShort(err))
	w.kickChecker()
	return err
}

func (g *gcIPAM) ReleaseHostAffinities(ctx context.Context, cfg ipam.AffinityConfig, mustBeEmpty bool) error {
	w, r, o := g.w, g.w.r, g.w.or
	w.feed.advance()
	r.Op("gc: ReleaseHostAffinities(%s mustBeEmpty=%v) at %s", cfg.Host, mustBeEmpty, secs(w.now()))
	r.Probe("gc_release_host_affinities_call")
	if o.armed() {
		blocks := o.affineBlocks(cfg.Host)
		n := w.nodeByN[cfg.Host]
		if len(blocks) == 0 {
			r.Probe("gc_host_release_is_noop")
		}
		// The controller decides "the node is gone" early in a sync pass and acts on it later in the same pass, with
		// datastore round trips in between.  A node re-created inside that window is indistinguishable, for any
		// controller, from one re-created just after the call; the clause is therefore judged over the pass: the
		// node must have been absent at some instant since the controller was last seen idle.
		gone := n == nil || !n.alive
		if !gone && n.bornAt >= w.gcIdleSeenAt && len(blocks) > 0 {
			gone = true
			r.Probe("node_recreated_during_sync_pass")
		}
		r.Check("never_last_block_of_live_node", len(blocks) == 0 || gone,
			"the collector issued ReleaseHostAffinities for node %s, which exists (since %s; the collector was last idle at %s) and holds blocks %v",
			cfg.Host, secs(nodeBorn(n)), secs(w.gcIdleSeenAt), blocks)
	}
	err := g.Interface.ReleaseHostAffinities(ctx, cfg, mustBeEmpty)
	r.Logf("  gc: ReleaseHostAffinities(%s) -> %s", cfg.Host, errShort(err))
	w.kickChecker()
	return err
}

func (g *gcIPAM) GarbageCollectColdIPs(ctx context.Context, cfg *ipam.IPAMConfig, kvp *model.KVPair) error {
	g.w.r.Probe("gc_cold_ip_gc_call")
	err := g.Interface.GarbageCollectColdIPs(ctx, cfg, kvp)
	g.w.kickChecker()
	return err
}

// Calls the collector has no business making.
func (g *gcIPAM) unexpected(what string) {
	g.w.r.Violation("unexpected_mutating_call", "the collector called %s", what)
}
func (g *gcIPAM) ReleaseByHandle(ctx context.Context, h string) error {
	g.unexpected("ReleaseByHandle(" + h + ")")
	return nil
}
func (g *gcIPAM) ReleaseAffinity(ctx context.Context, cidr cnet.IPNet, host string, mustBeEmpty bool) error {
	g.unexpected("ReleaseAffinity")
	return nil
}
func (g *gcIPAM) ReleasePoolAffinities(ctx context.Context, pool cnet.IPNet) error {
	g.unexpected("ReleasePoolAffinities")
	return nil
}
func (g *gcIPAM) RemoveIPAMHost(ctx context.Context, cfg ipam.AffinityConfig) error {
	g.unexpected("RemoveIPAMHost")
	return nil
}
func (g *gcIPAM) AssignIP(ctx context.Context, args ipam.AssignIPArgs) error {
	g.unexpected("AssignIP")
	return nil
}
func (g *gcIPAM) AutoAssign(ctx context.Context, args ipam.AutoAssignArgs) (*ipam.IPAMAssignments, *ipam.IPAMAssignments, error) {
	g.unexpected("AutoAssign")
	return nil, nil, nil
}
func (g *gcIPAM) SetIPAMConfig(ctx context.Context, cfg ipam.IPAMConfig) error {
	g.unexpected("SetIPAMConfig")
	return nil
}

// ---- bookkeeping invariant (hook: the relations of the repository's assertConsistentState helper)

func (o *oracle) consistency() {
	w, r := o.w, o.w.r
	if !o.armed() {
		return
	}
	w.feed.advance()
	problems, nodesWithoutBlocks := w.gc.ConsistencyProblemsForSim()
	r.Eval()
	if len(problems) > 0 {
		r.Violation("bookkeeping_consistent", "controller maps disagree (assertConsistentState relations): %s", strings.Join(problems, "; "))
	}
	for _, n := range nodesWithoutBlocks {
		// The helper also demands that every node with allocations has an affine block.  The datastore legally
		// allows a node to hold only borrowed addresses (or addresses in blocks whose affinity was released), so
		// that relation is only demanded when the collector has been shown a block affine to the node that still
		// exists.
		known := false
		for _, cidr := range sortedKeys(w.feed.view) {
			if w.feed.view[cidr].affinity == "host:"+n {
				if tb := o.blocks[cidr]; tb != nil && tb.affinity == "host:"+n {
					known = true
				}
			}
		}
		if known {
			r.Violation("bookkeeping_consistent", "node %s has allocations and an affine block delivered to the controller, but is missing from blocksByNode", n)
		}
		r.Probe("node_with_only_non_affine_allocations")
	}
}

// ---- liveness

// leakDemanded: a genuine leak whose release the design demands: the owner is gone and no view still justifies it.
// podLeakUnjustified: the dead pod-owned allocation is justified by no view of the API server.
func (o *oracle) podLeakUnjustified(a *allocT) bool {
	w := o.w
	v := w.apiPods[podNS+"/"+a.pod]
	if v != nil && len(v.ips) == 0 {
		// A pod of that name exists and has not reported any address: the collector cannot tell whether the
		// address is its (documented allowance); when the allocation's node is gone it cannot even compare
		// node names.  Not demanded, whatever node that pod is on.
		return false
	}
	return !w.viewJustifies(v, a)
}

func (o *oracle) leakDemanded(a *allocT) bool {
	w := o.w
	if a.owner.alive() {
		return false
	}
	switch a.owner.kind {
	case ownPod:
		if !o.podLeakUnjustified(a) {
			return false
		}
		// "All of a handle's addresses together or none": the collector must hold this one back while any sibling
		// under the same handle is alive or still justified by a view (e.g. the pod's status still reports the
		// old sandbox's other address).
		for _, id := range sortedKeys(o.allocs) {
			if b := o.allocs[id]; b != a && !b.gone && b.handle == a.handle && b.owner.kind == ownPod && (b.owner.alive() || !o.podLeakUnjustified(b)) {
				w.r.Probe("liveness_leak_not_demanded_sibling_justified")
				return false
			}
		}
		return true
	case ownTunnel:
		// A node's tunnel address goes only together with the node: the node is gone (Kubernetes and Calico
		// objects) and nothing else on it still counts as in use.
		n := a.owner.node
		if n.alive || n.calicoPresent {
			return false
		}
		for _, id := range sortedKeys(o.allocs) {
			if b := o.allocs[id]; b != a && b.node == a.node && b.owner.kind == ownPod && !o.leakDemanded(b) {
				return false
			}
		}
		return true
	}
	return false
}

var _ = sched.None
