package h_gcsim

import (
	"context"
	"fmt"
	"strings"
	"time"

	v3 "github.com/projectcalico/api/pkg/apis/projectcalico/v3"
	corev1 "k8s.io/api/core/v1"

	"github.com/projectcalico/calico/libcalico-go/lib/apis/internalapi"
	bapi "github.com/projectcalico/calico/libcalico-go/lib/backend/api"
	"github.com/projectcalico/calico/libcalico-go/lib/backend/model"
	"github.com/projectcalico/calico/libcalico-go/lib/ipam"

	"verifsim/sched"
)

// Discipline that keeps one seed = one execution although several goroutines exist:
// a service actor that is woken by another goroutine does nothing observable (no draw, no log, no shared-state
// write) before it has parked in the scheduler and been released; a goroutine that wakes the controller (channel
// push) does nothing observable afterwards until it blocks again.

// waiter is a wake-up channel for a service actor's idle state.
type waiter struct{ ch chan struct{} }

func newWaiter() waiter { return waiter{ch: make(chan struct{}, 1)} }
func (x waiter) wake() {
	select {
	case x.ch <- struct{}{}:
	default:
	}
}

// ---------------------------------------------------------------- kubelet + CNI

const (
	tStartup = iota // node start-up: (re)allocate the tunnel address
	tAdd            // CNI ADD for a sandbox
	tDel            // CNI DEL for a sandbox
	tStatus         // report the sandbox's addresses in the pod status
	tForeign        // an allocation made outside Kubernetes (no pod attributes)
)

type task struct {
	kind      int
	sb        *sandbox
	inc       int
	notBefore time.Duration
}

type kubelet struct {
	w      *world
	n      *nodeT
	sa     *sched.Actor
	q      []*task
	wk     waiter
	closed bool
	busy   bool
}

func (k *kubelet) enqueue(t *task) {
	k.q = append(k.q, t)
	k.wk.wake()
}

// next returns the first due task, the delay until the earliest one otherwise.
func (k *kubelet) next() (*task, time.Duration) {
	now := k.w.now()
	var wait time.Duration = -1
	// status reports first: the status manager does not wait for sandbox operations
	for pass := 0; pass < 2; pass++ {
		for i, t := range k.q {
			if (pass == 0) != (t.kind == tStatus) {
				continue
			}
			if t.notBefore <= now || k.w.quiesced {
				k.q = append(k.q[:i], k.q[i+1:]...)
				k.busy = true
				return t, 0
			}
		}
	}
	for _, t := range k.q {
		if d := t.notBefore - now; wait < 0 || d < wait {
			wait = d
		}
	}
	return nil, wait
}

func (k *kubelet) run(ctx context.Context) {
	w := k.w
	for {
		t, wait := k.next()
		if t == nil {
			if k.closed && len(k.q) == 0 {
				return
			}
			if wait > 0 {
				select {
				case <-k.wk.ch:
				case <-time.After(wait):
				}
			} else {
				<-k.wk.ch
			}
			continue
		}
		if w.s.Park(ctx, "task", "", false) == sched.None {
			k.exec(ctx, t)
		}
		k.busy = false
	}
}

func tunnelHandle(n *nodeT) string { return "vxlan-tunnel-addr-" + n.name }

func (k *kubelet) exec(ctx context.Context, t *task) {
	w, r, n := k.w, k.w.r, k.n
	cli := w.cli.IPAM()
	inc := n.inc
	switch t.kind {
	case tForeign:
		h := "manual-" + n.name
		w.owners[h] = &owner{kind: ownForeign}
		r.Op("%s: allocation outside Kubernetes under handle %s (no pod attributes)", k.sa.Name, h)
		v4, _, err := cli.AutoAssign(ctx, ipam.AutoAssignArgs{Num4: 1, HandleID: &h, Hostname: n.name, IntendedUse: v3.IPPoolAllowedUseWorkload})
		r.Logf("  %s foreign AutoAssign -> %v %v", k.sa.Name, ipsOf(v4), errShort(err))
		r.Probe("foreign_allocation")
	case tStartup:
		if !n.alive || n.inc != t.inc {
			return
		}
		// calico-node start-up with a fresh Node resource (no tunnel address recorded): defensively release whatever
		// the handle still holds, then assign a new address under the same handle (allocateip.go).
		h := tunnelHandle(n)
		r.Op("%s: node start-up (incarnation %d): ReleaseByHandle(%s) + AutoAssign tunnel address", k.sa.Name, t.inc, h)
		w.owners[h] = &owner{kind: ownTunnel, node: n, nodeInc: t.inc}
		err := cli.ReleaseByHandle(ctx, h)
		r.Logf("  %s ReleaseByHandle(%s) -> %v", k.sa.Name, h, errShort(err))
		v4, _, err := cli.AutoAssign(ctx, ipam.AutoAssignArgs{Num4: 1, HandleID: &h, Hostname: n.name, IntendedUse: v3.IPPoolAllowedUseTunnel,
			Attrs: map[string]string{ipam.AttributeNode: n.name, ipam.AttributeType: ipam.AttributeTypeVXLAN}})
		r.Logf("  %s tunnel AutoAssign -> %v %v", k.sa.Name, ipsOf(v4), errShort(err))
		if v4 != nil && len(v4.IPs) > 0 {
			r.Probe("tunnel_address_allocated")
		}
	case tAdd:
		sb := t.sb
		if !sb.alive {
			return // torn down before the runtime got to it
		}
		r.Op("%s: CNI ADD %s pod=%s want=%d", k.sa.Name, sb.handle, sb.pod.name, sb.want)
		h := sb.handle
		v4, _, err := cli.AutoAssign(ctx, ipam.AutoAssignArgs{Num4: sb.want, HandleID: &h, Hostname: n.name, IntendedUse: v3.IPPoolAllowedUseWorkload,
			Attrs: map[string]string{ipam.AttributeNode: n.name, ipam.AttributePod: sb.pod.name, ipam.AttributeNamespace: podNS}})
		got := ipsOf(v4)
		r.Logf("  %s ADD %s -> %v %v", k.sa.Name, sb.handle, got, errShort(err))
		if !n.alive || n.inc != inc {
			return // the machine went away while the plugin was running
		}
		if err != nil || len(got) < sb.want {
			// the plugin fails the ADD and releases what it got; the runtime tears the sandbox down and will retry
			// with a new sandbox
			r.Probe("cni_add_failed")
			wasAlive := sb.alive
			if wasAlive {
				w.killSandbox(sb, "ADD failed")
				w.reassess()
			}
			k.del(ctx, sb)
			if p := sb.pod; wasAlive && p.alive && !p.finished && p.cur == sb && n.alive && p.nSand < 4 {
				nsb := w.newSandbox(p)
				k.enqueue(&task{kind: tAdd, sb: nsb, notBefore: w.now() + time.Second})
			}
			return
		}
		sb.acked, sb.added = got, true
		r.Probe("cni_add_ok")
		if len(got) > 1 {
			r.Probe("sandbox_with_two_addresses")
		}
		// the kubelet reports the addresses in the pod status a little later
		lag := time.Duration([]int{0, 0, 300, 2000, int(w.grace / time.Millisecond / 4)}[w.src.Intn(5, "status_lag")]) * time.Millisecond
		k.enqueue(&task{kind: tStatus, sb: sb, notBefore: w.now() + lag})
	case tStatus:
		sb := t.sb
		p := sb.pod
		if !sb.alive || !p.alive || p.cur != sb {
			return
		}
		ips := sb.acked
		if sb.single {
			ips = ips[:1]
		}
		p.apiIPs = append([]string(nil), ips...)
		r.Op("%s: pod %s status reports %v", k.sa.Name, p.name, ips)
		w.apiSetPod(p)
		w.reassess()
		w.inf.wk.wake()
	case tDel:
		k.del(ctx, t.sb)
	}
}

// del is the CNI DEL: release everything under the sandbox's handle.
func (k *kubelet) del(ctx context.Context, sb *sandbox) {
	w, r := k.w, k.w.r
	if sb.alive {
		r.HarnessError("CNI DEL for live sandbox %s", sb.id)
	}
	r.Op("%s: CNI DEL %s", k.sa.Name, sb.handle)
	err := w.cli.IPAM().ReleaseByHandle(ctx, sb.handle)
	r.Logf("  %s DEL %s -> %v", k.sa.Name, sb.handle, errShort(err))
	if err == nil {
		sb.delDone = true
	} else {
		r.Probe("cni_del_failed")
	}
}

func ipsOf(a *ipam.IPAMAssignments) []string {
	var out []string
	if a != nil {
		for _, n := range a.IPs {
			out = append(out, n.IP.String())
		}
	}
	return out
}

func errShort(err error) string {
	if err == nil {
		return "ok"
	}
	s := err.Error()
	if len(s) > 80 {
		s = s[:80]
	}
	return "err(" + s + ")"
}

// ---- sandbox / pod life cycle (instantaneous ground-truth transitions)

func (w *world) newSandbox(p *podT) *sandbox {
	w.nextSB++
	sb := &sandbox{id: fmt.Sprintf("sb%d", w.nextSB), pod: p, alive: true, want: 1}
	sb.handle = "k8s-pod-network." + sb.id
	if w.src.Chance(400, "sandbox_two_addrs") {
		sb.want = 2
		sb.single = w.src.Chance(700, "k8s_reports_one_addr")
	}
	p.cur = sb
	p.nSand++
	w.owners[sb.handle] = &owner{kind: ownPod, sb: sb}
	return sb
}

func (w *world) killSandbox(sb *sandbox, why string) {
	if !sb.alive {
		return
	}
	sb.alive = false
	sb.goneAt = w.now()
	w.r.Logf("  truth: sandbox %s (%s) of pod %s gone at %s: %s", sb.id, sb.handle, sb.pod.name, secs(sb.goneAt), why)
}

func (w *world) createPod(name string, n *nodeT) *podT {
	w.nextUID++
	p := &podT{name: name, uid: fmt.Sprintf("uid%d", w.nextUID), node: n, nodeInc: n.inc, alive: true}
	w.pods[name] = p
	w.apiSetPod(p)
	sb := w.newSandbox(p)
	n.kl.enqueue(&task{kind: tAdd, sb: sb})
	return p
}

// deletePod removes the pod incarnation; cniDel says whether the runtime gets to run CNI DEL for its sandbox.
func (w *world) deletePod(p *podT, why string, cniDel bool) {
	if !p.alive {
		return
	}
	p.alive = false
	p.goneAt = w.now()
	if sb := p.cur; sb != nil {
		w.killSandbox(sb, why)
		if cniDel && p.node.alive {
			p.node.kl.enqueue(&task{kind: tDel, sb: sb})
		} else {
			w.r.Fault("cni_del_lost")
		}
	}
	w.apiDeletePod(p)
}

// ---------------------------------------------------------------- director: generates the history

type director struct {
	w         *world
	sa        *sched.Actor
	events    int
	lingering []*podT // pods whose node was deleted but whose API objects still exist
}

func (d *director) run(ctx context.Context) {
	w, r, src := d.w, d.w.r, d.w.src
	// bring the cluster up
	for _, n := range w.nodes {
		w.startNode(n)
	}
	w.reassess()
	r.ProbeDecl("ev_create", "ev_delete", "ev_reschedule", "ev_recreate_same_node", "ev_sandbox_restart", "ev_node_delete", "ev_node_recreate", "ev_finish", "pod_lingers_after_node_delete")
	weights := []int{30, 22, 8, 8, 8, src.Intn(6, "w_node_delete"), 4, 5, 30}
	for i := 0; i < d.events; i++ {
		if w.s.Park(ctx, "event", "", false) != sched.None {
			continue
		}
		if len(d.lingering) > 0 && src.Chance(300, "pod_gc_runs") {
			first := d.lingering[0]
			d.podGC(func(p *podT) bool { return p == first })
			w.reassess()
			w.inf.wk.wake()
		}
		switch src.Weighted(weights, "event") {
		case 0: // create a pod
			name := d.freeName()
			n := d.liveNode()
			if name == "" || n == nil {
				continue
			}
			r.Op("director: create pod %s on %s", name, n.name)
			r.Probe("ev_create")
			w.createPod(name, n)
		case 1: // delete a pod (CNI DEL may be lost: a leak)
			p := d.livePod()
			if p == nil {
				continue
			}
			lost := src.Chance(w.pDelLost, "cni_del_lost")
			r.Op("director: delete pod %s (uid %s) on %s cniDelLost=%v", p.name, p.uid, p.node.name, lost)
			r.Probe("ev_delete")
			w.deletePod(p, "pod deleted", !lost)
		case 2: // reschedule: same name, another node
			p := d.livePod()
			n := d.liveNodeOtherThan(p)
			if p == nil || n == nil {
				continue
			}
			lost := src.Chance(w.pDelLost, "cni_del_lost")
			r.Op("director: reschedule pod %s from %s to %s cniDelLost=%v", p.name, p.node.name, n.name, lost)
			r.Probe("ev_reschedule")
			w.deletePod(p, "pod rescheduled", !lost)
			w.createPod(p.name, n)
		case 3: // delete and re-create under the same name on the same node (new UID, new address)
			p := d.livePod()
			if p == nil || !p.node.alive {
				continue
			}
			lost := src.Chance(w.pDelLost, "cni_del_lost")
			r.Op("director: re-create pod %s on the same node %s cniDelLost=%v", p.name, p.node.name, lost)
			r.Probe("ev_recreate_same_node")
			w.deletePod(p, "pod re-created", !lost)
			w.createPod(p.name, p.node)
		case 4: // sandbox restart inside the same pod object: new handle, new address; the status lags
			p := d.livePod()
			if p == nil || !p.node.alive || p.cur == nil || p.finished {
				continue
			}
			lost := src.Chance(w.pDelLost, "cni_del_lost")
			old := p.cur
			r.Op("director: sandbox of pod %s on %s restarts (old %s) cniDelLost=%v", p.name, p.node.name, old.handle, lost)
			r.Probe("ev_sandbox_restart")
			w.killSandbox(old, "sandbox restarted")
			if !lost {
				p.node.kl.enqueue(&task{kind: tDel, sb: old})
			} else {
				r.Fault("cni_del_lost")
			}
			sb := w.newSandbox(p)
			p.node.kl.enqueue(&task{kind: tAdd, sb: sb})
		case 5: // delete a node: its pods vanish with it, nobody runs CNI DEL
			n := d.liveNode()
			if n == nil || d.liveNodes() < 2 {
				continue
			}
			r.Op("director: delete node %s (%s)", n.name, n.kname)
			r.Probe("ev_node_delete")
			n.alive = false
			n.goneAt = w.now()
			n.kl.q = nil // the machine is gone: queued runtime work is lost
			// Usually the pods vanish with the node; sometimes their API objects linger (still bound to the node,
			// still reporting their addresses) until the pod garbage collector gets to them.  While a pod object
			// exists it justifies its allocation.
			linger := src.Chance(400, "node_delete_pods_linger")
			for _, name := range w.podNames {
				if p := w.pods[name]; p != nil && p.alive && p.node == n {
					if linger {
						r.Probe("pod_lingers_after_node_delete")
						d.lingering = append(d.lingering, p)
						// the machine is gone, so the sandbox is dead in truth; what still speaks for its addresses is the
						// pod OBJECT (oracle.lingerJustified: same node, reports the address or nothing yet)
						p.lingering = true
						if p.cur != nil {
							w.killSandbox(p.cur, "node deleted (pod object lingers)")
						}
					} else {
						w.deletePod(p, "node deleted", false)
					}
				}
			}
			if err := w.cs.Tracker().Delete(nodeGVR, "", n.kname); err != nil {
				r.HarnessError("tracker delete node: %v", err)
			}
			w.inf.queue(&infEvent{kind: evNodeDel, node: w.k8sNodeObj(n), key: n.kname})
			w.nd.schedule(n)
		case 6: // re-create a deleted node under the same name
			var n *nodeT
			for _, x := range w.nodes {
				if !x.alive {
					n = x
					break
				}
			}
			if n == nil {
				continue
			}
			r.Op("director: node %s (%s) re-created", n.name, n.kname)
			r.Probe("ev_node_recreate")
			d.podGC(func(p *podT) bool { return p.node == n }) // a new machine under the old name: the old pods are gone
			w.startNode(n)
		case 7: // the pod runs to completion: the sandbox is torn down, the object stays (phase Succeeded)
			p := d.livePod()
			if p == nil || p.finished || !p.node.alive || p.cur == nil {
				continue
			}
			lost := src.Chance(w.pDelLost, "cni_del_lost")
			r.Op("director: pod %s on %s completes cniDelLost=%v", p.name, p.node.name, lost)
			r.Probe("ev_finish")
			p.finished = true
			sb := p.cur
			w.killSandbox(sb, "pod completed")
			if !lost {
				p.node.kl.enqueue(&task{kind: tDel, sb: sb})
			} else {
				r.Fault("cni_del_lost")
			}
			w.apiSetPod(p)
		default: // let time pass
			d.wait(ctx)
			continue
		}
		w.reassess()
		w.inf.wk.wake()
	}
	if len(d.lingering) > 0 {
		d.podGC(func(*podT) bool { return true })
		w.reassess()
		w.inf.wk.wake()
	}
}

// podGC deletes the lingering pod objects of deleted nodes that match (no CNI DEL: the machine is gone).
func (d *director) podGC(match func(*podT) bool) {
	var rest []*podT
	for _, p := range d.lingering {
		if !match(p) {
			rest = append(rest, p)
			continue
		}
		if p.alive {
			d.w.r.Op("pod GC: delete pod %s (uid %s) of deleted node %s", p.name, p.uid, p.node.name)
			d.w.deletePod(p, "pod GC after node deletion", false)
		}
	}
	d.lingering = rest
}

func (d *director) wait(ctx context.Context) {
	w := d.w
	g := int(w.grace / time.Millisecond)
	ms := []int{200, 1000, 3000, g / 4, g / 2, g + 1000, 2*g + 1000}[w.src.Weighted([]int{4, 5, 4, 3, 3, 2, 1}, "wait_len")]
	w.r.Op("director: wait %dms", ms)
	time.Sleep(time.Duration(ms) * time.Millisecond)
}

func (d *director) freeName() string {
	var free []string
	for _, n := range d.w.podNames {
		if p := d.w.pods[n]; p == nil || !p.alive {
			free = append(free, n)
		}
	}
	if len(free) == 0 {
		return ""
	}
	return free[d.w.src.Intn(len(free), "pick_name")]
}

func (d *director) livePod() *podT {
	var live []*podT
	for _, n := range d.w.podNames {
		if p := d.w.pods[n]; p != nil && p.alive {
			live = append(live, p)
		}
	}
	if len(live) == 0 {
		return nil
	}
	return live[d.w.src.Intn(len(live), "pick_pod")]
}

func (d *director) liveNodes() int {
	c := 0
	for _, n := range d.w.nodes {
		if n.alive {
			c++
		}
	}
	return c
}

func (d *director) liveNode() *nodeT {
	var live []*nodeT
	for _, n := range d.w.nodes {
		if n.alive {
			live = append(live, n)
		}
	}
	if len(live) == 0 {
		return nil
	}
	return live[d.w.src.Intn(len(live), "pick_node")]
}

func (d *director) liveNodeOtherThan(p *podT) *nodeT {
	if p == nil {
		return nil
	}
	var live []*nodeT
	for _, n := range d.w.nodes {
		if n.alive && n != p.node {
			live = append(live, n)
		}
	}
	if len(live) == 0 {
		return nil
	}
	return live[d.w.src.Intn(len(live), "pick_node")]
}

// ---------------------------------------------------------------- node deletion controller (stub)

// nodeDeleter removes the Calico Node resource some time after the Kubernetes node went away (in KDD mode the two
// are the same object; in etcd mode the kube-controllers node-deletion controller does it).
type nodeDeleter struct {
	w      *world
	sa     *sched.Actor
	due    []*ndJob
	wk     waiter
	closed bool
}

type ndJob struct {
	n     *nodeT
	inc   int
	after time.Duration
}

func (d *nodeDeleter) schedule(n *nodeT) {
	w := d.w
	lag := time.Duration([]int{0, 500, 3000, int(w.grace / time.Millisecond)}[w.src.Intn(4, "calico_node_delete_lag")]) * time.Millisecond
	d.due = append(d.due, &ndJob{n: n, inc: n.inc, after: w.now() + lag})
	d.wk.wake()
}

func (d *nodeDeleter) run(ctx context.Context) {
	w := d.w
	for {
		if len(d.due) == 0 {
			if d.closed {
				return
			}
			<-d.wk.ch
			continue
		}
		j := d.due[0]
		if wait := j.after - w.now(); wait > 0 && !w.quiesced {
			select {
			case <-d.wk.ch:
			case <-time.After(wait):
			}
			continue
		}
		if w.s.Park(ctx, "delete-calico-node", j.n.name, true) != sched.None {
			continue
		}
		d.due = d.due[1:]
		if j.n.alive || j.n.inc != j.inc || !j.n.calicoPresent {
			continue // the node came back meanwhile
		}
		w.r.Op("nodedel: remove Calico node %s", j.n.name)
		w.st.Remove(model.ResourceKey{Kind: internalapi.KindNode, Name: j.n.name}, "nodedel")
		j.n.calicoPresent = false
		w.reassess()
	}
}

// ---------------------------------------------------------------- informer (lagging caches of pods and nodes)

const (
	evPodSet = iota
	evPodDel
	evNodeDel
)

type infEvent struct {
	kind int
	key  string
	pod  *corev1.Pod
	view *podView
	node *corev1.Node
}

type informer struct {
	w      *world
	sa     *sched.Actor
	pods   []*infEvent // one ordered watch stream per resource type
	nodes  []*infEvent
	wk     waiter
	closed bool
}

func (i *informer) queue(e *infEvent) {
	if e.kind == evNodeDel {
		i.nodes = append(i.nodes, e)
	} else {
		i.pods = append(i.pods, e)
	}
}

// nodeAddedNow: node creation reaches the node cache immediately, after whatever node events are still queued.
func (i *informer) nodeAddedNow(obj *corev1.Node) {
	for len(i.nodes) > 0 {
		if f := i.deliverOne(&i.nodes); f != nil {
			f() // the controller hears about the deletion (it acts on it only after its batch window)
		}
	}
	if err := i.w.nodeIdx.Add(obj); err != nil {
		i.w.r.HarnessError("node indexer add: %v", err)
	}
	i.w.cacheNodes[obj.Name] = true
}

// deliverOne applies the head event of a stream to the cache and returns the notification owed to the controller.
func (i *informer) deliverOne(q *[]*infEvent) func() {
	w := i.w
	e := (*q)[0]
	*q = (*q)[1:]
	switch e.kind {
	case evPodSet:
		if _, ok := w.cachePods[e.key]; ok {
			_ = w.podIdx.Update(e.pod)
		} else {
			_ = w.podIdx.Add(e.pod)
		}
		w.cachePods[e.key] = e.view
		w.r.Logf("  informer: pod %s -> uid=%s node=%s ips=%v finished=%v", e.key, e.view.uid, e.view.knode, e.view.ips, e.view.finished)
	case evPodDel:
		_ = w.podIdx.Delete(e.pod)
		delete(w.cachePods, e.key)
		w.r.Logf("  informer: pod %s deleted", e.key)
		pod := e.pod
		return func() { w.gc.OnKubernetesPodDeleted(pod) }
	case evNodeDel:
		_ = w.nodeIdx.Delete(e.node)
		delete(w.cacheNodes, e.key)
		w.r.Logf("  informer: node %s deleted", e.key)
		nd := e.node
		return func() { w.gc.OnKubernetesNodeDeleted(nd) }
	}
	return nil
}

func (i *informer) run(ctx context.Context) {
	w, src := i.w, i.w.src
	for {
		if len(i.pods)+len(i.nodes) == 0 {
			if i.closed {
				return
			}
			<-i.wk.ch
			continue
		}
		if w.s.Park(ctx, "informer", "", false) != sched.None {
			continue
		}
		if len(i.pods)+len(i.nodes) == 0 {
			continue
		}
		if !w.quiesced && src.Chance(w.pInfStall, "inf_stall") {
			g := int(w.grace / time.Millisecond)
			wts := []int{3, 3, 2, 2, 2}
			if w.infLongStalls {
				wts = []int{1, 1, 2, 4, 4}
			}
			ms := []int{1000, 3000, g / 2, g + 2000, 2*g + 3000}[src.Weighted(wts, "inf_stall_len")]
			w.r.Fault("informer_stall")
			w.r.Logf("  informer stalls for %dms", ms)
			time.Sleep(time.Duration(ms) * time.Millisecond)
			continue
		}
		var notify []func()
		n := 1 + src.Intn(3, "inf_batch")
		if w.quiesced {
			n = 1 << 20
		}
		for ; n > 0 && len(i.pods)+len(i.nodes) > 0; n-- {
			q := &i.pods
			if len(i.pods) == 0 || (len(i.nodes) > 0 && src.Chance(400, "inf_stream")) {
				q = &i.nodes
			}
			if f := i.deliverOne(q); f != nil {
				notify = append(notify, f)
			}
		}
		w.reassess()
		w.kickChecker()
		for _, f := range notify { // last: wakes the controller
			f()
		}
	}
}

// ---------------------------------------------------------------- syncer feed

type feedItem struct {
	seq    int
	key    string
	kv     model.KVPair // Value nil: deletion
	cidr   string       // for blocks
	block  *blockView   // decoded block (nil: deleted); only for blocks
	status *bapi.SyncStatus
}

type feed struct {
	w        *world
	sa       *sched.Actor
	seq      int
	pending  map[string][]*feedItem // per key, in commit order
	last     map[string]*feedItem   // last delivered per key
	pushed   []*feedItem            // mirror of the controller's update queue, in push order
	applied  int                    // prefix of pushed the controller has taken off its queue
	view     map[string]*blockView  // blocks as applied by the controller
	inSync   bool
	keys     map[string]model.Key
	wk       waiter
	closed   bool
	syncAt   time.Duration
}

func newFeed(w *world) *feed {
	return &feed{w: w, pending: map[string][]*feedItem{}, last: map[string]*feedItem{}, view: map[string]*blockView{}, keys: map[string]model.Key{}}
}

// interesting: the kinds the controller's syncer watches.
func feedKey(k model.Key) (string, bool) {
	switch k := k.(type) {
	case model.BlockKey:
		return "block/" + k.CIDR.String(), true
	case model.ResourceKey:
		switch k.Kind {
		case internalapi.KindNode, v3.KindIPPool, v3.KindClusterInformation:
			return k.Kind + "/" + k.Name, true
		}
	}
	return "", false
}

// onWrite records a committed datastore write for later delivery.
func (f *feed) onWrite(key model.Key) {
	ks, ok := feedKey(key)
	if !ok {
		return
	}
	f.seq++
	f.keys[ks] = key
	it := &feedItem{seq: f.seq, key: ks, kv: model.KVPair{Key: key}}
	if kv := f.w.st.Peek(key); kv != nil {
		it.kv = *kv
	}
	if bk, isBlock := key.(model.BlockKey); isBlock {
		it.cidr = bk.CIDR.String()
		if it.kv.Value != nil {
			it.block = decodeBlock(it.kv.Value.(*model.AllocationBlock))
		}
	}
	f.pending[ks] = append(f.pending[ks], it)
	f.wk.wake()
}

func (f *feed) push(it *feedItem) {
	f.pushed = append(f.pushed, it)
	if it.status != nil {
		f.w.gc.OnStatusForSim(*it.status)
		return
	}
	// every delivery hands the controller its own copy of the value
	kv := it.kv
	if kv.Value != nil {
		if c := f.w.cloneKV(&it.kv); c != nil {
			kv = *c
		}
	}
	ut := bapi.UpdateTypeKVUpdated
	if kv.Value == nil {
		ut = bapi.UpdateTypeKVDeleted
	}
	f.w.gc.OnUpdatesForSim([]bapi.Update{{KVPair: kv, UpdateType: ut}})
}

func (w *world) cloneKV(kv *model.KVPair) *model.KVPair {
	raw, err := model.SerializeValue(kv)
	if err != nil {
		w.r.HarnessError("serialise %v: %v", kv.Key, err)
	}
	v, err := model.ParseValue(kv.Key, raw)
	if err != nil {
		w.r.HarnessError("parse %v: %v", kv.Key, err)
	}
	return &model.KVPair{Key: kv.Key, Value: v, Revision: kv.Revision}
}

// advance brings the "applied by the controller" view up to date: everything the controller has taken off its
// queue has been applied by the time it issues a datastore call (batches are applied before a sync runs).
func (f *feed) advance() {
	n := len(f.pushed) - f.w.gc.PendingSyncerUpdatesForSim()
	for ; f.applied < n; f.applied++ {
		it := f.pushed[f.applied]
		if it.status != nil || it.cidr == "" {
			continue
		}
		if it.block == nil {
			delete(f.view, it.cidr)
		} else {
			f.view[it.cidr] = it.block
		}
	}
}

// knownKeys: every key the feed ever carried, in a fixed order (a resync re-sends their current state, deletions
// included).
func (f *feed) knownKeys() []model.Key {
	var out []model.Key
	for _, ks := range sortedKeys(f.keys) {
		out = append(out, f.keys[ks])
	}
	return out
}

func (f *feed) pendingKeys() []string {
	var ks []string
	for _, k := range sortedKeys(f.pending) {
		if len(f.pending[k]) > 0 {
			ks = append(ks, k)
		}
	}
	// oldest head first
	for i := 1; i < len(ks); i++ {
		for j := i; j > 0 && f.pending[ks[j]][0].seq < f.pending[ks[j-1]][0].seq; j-- {
			ks[j], ks[j-1] = ks[j-1], ks[j]
		}
	}
	return ks
}

func (f *feed) run(ctx context.Context) {
	w, src, r := f.w, f.w.src, f.w.r
	for {
		ks := f.pendingKeys()
		if len(ks) == 0 && (f.inSync || w.now() < f.syncAt && !w.quiesced) {
			if f.closed {
				return
			}
			if !f.inSync {
				select {
				case <-f.wk.ch:
				case <-time.After(f.syncAt - w.now()):
				}
			} else {
				<-f.wk.ch
			}
			continue
		}
		if w.s.Park(ctx, "feed", "", false) != sched.None {
			continue
		}
		ks = f.pendingKeys()
		if len(ks) == 0 {
			if !f.inSync && (w.now() >= f.syncAt || w.quiesced) {
				st := bapi.InSync
				f.inSync = true
				r.Logf("  feed: status in-sync")
				w.kickChecker()
				f.push(&feedItem{status: &st})
			}
			continue
		}
		if !w.quiesced && f.inSync && src.Chance(w.pFeedResync, "feed_resync") {
			// the syncer lost its connection: it reports resync-in-progress, re-sends the current value of every
			// key (behind whatever is still queued for that key) and then reports in-sync again
			st := bapi.ResyncInProgress
			f.inSync = false
			f.syncAt = w.now() + time.Duration(src.Intn(4, "resync_delay"))*time.Second
			r.Fault("feed_resync")
			r.Logf("  feed: resync in progress")
			for _, k := range f.knownKeys() {
				f.onWrite(k)
			}
			f.push(&feedItem{status: &st})
			continue
		}
		if !w.quiesced && src.Chance(w.pFeedStall, "feed_stall") {
			g := int(w.grace / time.Millisecond)
			ms := []int{1000, 3000, g / 2, g + 2000}[src.Intn(4, "feed_stall_len")]
			r.Fault("feed_stall")
			r.Logf("  feed stalls for %dms", ms)
			time.Sleep(time.Duration(ms) * time.Millisecond)
			continue
		}
		n := 1 + src.Intn(4, "feed_batch")
		if w.quiesced {
			n = 1 << 20
		}
		var batch []*feedItem
		for ; n > 0; n-- {
			ks = f.pendingKeys()
			if len(ks) == 0 {
				break
			}
			// One ordered watch stream per resource kind: within a kind, keys are served in the order of their
			// oldest undelivered write; across kinds the streams are independent and may overtake each other.
			k := ks[0]
			if heads := kindHeads(ks); !w.quiesced && len(heads) > 1 && src.Chance(w.pFeedReorder, "feed_reorder") {
				k = heads[1+src.Intn(len(heads)-1, "feed_reorder_kind")]
				r.Fault("feed_reorder_across_kinds")
			}
			q := f.pending[k]
			j := 0
			if !w.quiesced && len(q) > 1 && src.Chance(w.pFeedCoalesce, "feed_coalesce") {
				j = 1 + src.Intn(len(q)-1, "feed_coalesce_to")
				r.Fault("feed_coalesced")
			}
			it := q[j]
			f.pending[k] = q[j+1:]
			f.last[k] = it
			batch = append(batch, it)
			if !w.quiesced && src.Chance(w.pFeedDup, "feed_dup") {
				batch = append(batch, it)
				r.Fault("feed_duplicate")
			}
		}
		for _, it := range batch {
			r.Logf("  feed: deliver %s #%d %s", it.key, it.seq, describeItem(it))
		}
		w.kickChecker()
		for _, it := range batch { // last: wakes the controller
			f.push(it)
		}
	}
}

// kindHeads: of the pending keys (oldest head first), the first one of each resource kind.
func kindHeads(ks []string) []string {
	var out []string
	seen := map[string]bool{}
	for _, k := range ks {
		kind := k[:strings.Index(k, "/")]
		if !seen[kind] {
			seen[kind] = true
			out = append(out, k)
		}
	}
	return out
}

func describeItem(it *feedItem) string {
	if it.kv.Value == nil {
		return "deleted"
	}
	if it.block != nil {
		return it.block.String()
	}
	return "set"
}
