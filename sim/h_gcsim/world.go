// Engine gcsim (C23): the REAL kube-controllers IPAM garbage collector
// (node.IPAMController: main loop, trackers, grace timers) runs inside a
// testing/synctest bubble.  Its Calico client is the REAL clientv3 client and
// the REAL libcalico-go IPAM library over the simulated datastore; every
// mutating IPAM call it issues is intercepted and judged against a simulated
// ground truth of pods, sandboxes and nodes at the instant it is issued.
//
// Stubs: the datastore (verifsim/store), Kubernetes (client-go fake clientset
// as the API server; informer indexers that the simulator updates with lag),
// the syncer feed (derived from committed store writes; delayed, coalesced,
// duplicated, in order per key), kubelet/CNI actors that allocate and release
// through the real IPAM client, and time.
package h_gcsim

import (
	"context"
	"fmt"
	"net"
	"sort"
	"strings"
	"time"

	v3 "github.com/projectcalico/api/pkg/apis/projectcalico/v3"
	corev1 "k8s.io/api/core/v1"
	metav1 "k8s.io/apimachinery/pkg/apis/meta/v1"
	"k8s.io/apimachinery/pkg/runtime"
	"k8s.io/apimachinery/pkg/types"
	"k8s.io/client-go/kubernetes/fake"
	k8stesting "k8s.io/client-go/testing"
	"k8s.io/client-go/tools/cache"

	"github.com/projectcalico/calico/kube-controllers/pkg/config"
	"github.com/projectcalico/calico/kube-controllers/pkg/controllers/node"
	"github.com/projectcalico/calico/libcalico-go/lib/apiconfig"
	"github.com/projectcalico/calico/libcalico-go/lib/apis/internalapi"
	bapi "github.com/projectcalico/calico/libcalico-go/lib/backend/api"
	"github.com/projectcalico/calico/libcalico-go/lib/backend/model"
	"github.com/projectcalico/calico/libcalico-go/lib/clientv3"
	"github.com/projectcalico/calico/libcalico-go/lib/ipam"
	"github.com/projectcalico/calico/libcalico-go/lib/kubevirt"

	"verifsim/core"
	"verifsim/sched"
	"verifsim/store"
)

const podNS = "ns1"

// ---- ground truth

// nodeT is one node name.  A node may be deleted and later re-created under the
// same name (a new incarnation).
type nodeT struct {
	idx    int
	name   string // Calico node name (the "node" attribute of allocations, block affinities)
	kname  string // Kubernetes node name
	alive  bool   // the Kubernetes node exists (ground truth == API server)
	inc    int    // incarnation number
	goneAt time.Duration
	bornAt time.Duration // when the current incarnation was created
	// the Calico Node resource is present in the datastore
	calicoPresent bool
	tunnel        bool // this node allocates a tunnel address when it starts
	kl            *kubelet
}

// podT is one pod incarnation (one API object with one UID).
type podT struct {
	name    string
	uid     string
	node    *nodeT
	nodeInc int
	alive   bool
	goneAt  time.Duration
	cur     *sandbox // current sandbox (nil before the first)
	nSand   int
	// what the API object currently says
	apiIPs   []string
	finished bool
	// lingering: the pod's node was deleted, the machine is gone, but the pod object still exists in the API
	lingering bool
}

func (p *podT) key() string { return podNS + "/" + p.name }

// sandbox is one network sandbox of a pod incarnation: the unit that owns a
// CNI handle and the addresses allocated under it.
type sandbox struct {
	id      string
	handle  string
	pod     *podT
	alive   bool
	goneAt  time.Duration
	want    int  // addresses requested
	single  bool // Kubernetes reports only the first address (dual-stack in Calico, single-stack in Kubernetes)
	acked   []string
	added   bool // the CNI ADD returned successfully
	delDone bool
}

const (
	ownPod = iota
	ownTunnel
	ownForeign
)

// owner is who a handle's allocations belong to.
type owner struct {
	kind    int
	sb      *sandbox
	node    *nodeT
	nodeInc int
}

func (o *owner) alive() bool {
	switch o.kind {
	case ownPod:
		return o.sb.alive
	case ownTunnel:
		return o.node.alive && o.node.inc == o.nodeInc
	}
	return true // foreign allocations are never the collector's to free
}

func (o *owner) describe() string {
	switch o.kind {
	case ownPod:
		return fmt.Sprintf("sandbox %s of pod %s (uid %s) on node %s", o.sb.id, o.sb.pod.name, o.sb.pod.uid, o.sb.pod.node.name)
	case ownTunnel:
		return fmt.Sprintf("tunnel address of node %s (incarnation %d)", o.node.name, o.nodeInc)
	}
	return "foreign allocation without pod attributes"
}

// podView is what one view (API server or informer cache) says about a pod name.
type podView struct {
	uid      string
	knode    string
	ips      []string
	finished bool
}

type world struct {
	r   *core.R
	s   *sched.Sched
	st  *store.Store
	src *core.Source
	t0  time.Time

	grace    time.Duration
	period   time.Duration
	cooldown int
	blockLen int
	poolCIDR *net.IPNet

	nodes    []*nodeT
	nodeByN  map[string]*nodeT // by Calico name
	pods     map[string]*podT  // current incarnation per pod name (alive or the last one)
	podNames []string
	nextUID  int
	nextSB   int
	owners   map[string]*owner // by handle

	// views
	apiPods    map[string]*podView
	cachePods  map[string]*podView
	cacheNodes map[string]bool // by Kubernetes node name

	// Kubernetes stubs
	cs      *fake.Clientset
	podIdx  cache.Indexer
	nodeIdx cache.Indexer

	// system under test
	gc      *node.IPAMController
	gcActor *sched.Actor
	gcStop  chan struct{}
	cli     clientv3.Interface // real clientv3 over the store, unattributed (actors pass their identity in ctx)

	feed *feed
	inf  *informer
	nd   *nodeDeleter
	dir  *director
	or   *oracle

	checkKick chan struct{}
	quiesced  bool
	// gcIdleSeenAt: the last scheduler step at which the controller had no call in flight (it was idle in its main
	// loop): a lower bound for the start of the sync pass it is executing now.
	gcIdleSeenAt time.Duration

	// fault rates (permille)
	pKlErr, pKlConflict     int
	pGcErr, pGcConflict     int
	pGcCommitErr, pAPIErr   int
	pJump                   int
	pInfStall, pFeedStall   int
	pFeedReorder, pFeedDup  int
	pFeedCoalesce           int
	pFeedResync             int
	pDelLost                int
	allowPodCreateLag       bool
	infLongStalls           bool
}

func (w *world) now() time.Duration { return time.Since(w.t0) }

func secs(d time.Duration) string { return fmt.Sprintf("%.1fs", d.Seconds()) }

func mustCIDR(s string) *net.IPNet {
	_, n, err := net.ParseCIDR(s)
	if err != nil {
		panic(err)
	}
	return n
}

// ---- the backend as seen by one process: the shared store with every call attributed to one actor.
// The controller creates its own contexts (context.TODO()), so its identity cannot travel in the context.

type procClient struct {
	inner *store.Client
	a     *sched.Actor
}

var _ bapi.Client = procClient{}

func (p procClient) ctx(ctx context.Context) context.Context { return sched.WithActor(ctx, p.a) }

func (p procClient) Create(ctx context.Context, kv *model.KVPair) (*model.KVPair, error) {
	return p.inner.Create(p.ctx(ctx), kv)
}
func (p procClient) Update(ctx context.Context, kv *model.KVPair) (*model.KVPair, error) {
	return p.inner.Update(p.ctx(ctx), kv)
}
func (p procClient) Apply(ctx context.Context, kv *model.KVPair) (*model.KVPair, error) {
	return p.inner.Apply(p.ctx(ctx), kv)
}
func (p procClient) DeleteKVP(ctx context.Context, kv *model.KVPair) (*model.KVPair, error) {
	return p.inner.DeleteKVP(p.ctx(ctx), kv)
}
func (p procClient) Delete(ctx context.Context, k model.Key, rev string) (*model.KVPair, error) {
	return p.inner.Delete(p.ctx(ctx), k, rev)
}
func (p procClient) Get(ctx context.Context, k model.Key, rev string) (*model.KVPair, error) {
	return p.inner.Get(p.ctx(ctx), k, rev)
}
func (p procClient) List(ctx context.Context, l model.ListInterface, rev string) (*model.KVPairList, error) {
	return p.inner.List(p.ctx(ctx), l, rev)
}
func (p procClient) Watch(ctx context.Context, l model.ListInterface, o bapi.WatchOptions) (bapi.WatchInterface, error) {
	return p.inner.Watch(p.ctx(ctx), l, o)
}
func (p procClient) EnsureInitialized() error { return nil }
func (p procClient) Clean() error             { return nil }
func (p procClient) Close() error             { return nil }

func realClient(be bapi.Client) clientv3.Interface {
	cfg := apiconfig.NewCalicoAPIConfig()
	cfg.Spec.DatastoreType = apiconfig.EtcdV3
	return clientv3.NewFromBackend(*cfg, be)
}

// gcCalico is the controller's Calico client: the real clientv3 client over the
// simulated backend, except that the IPAM interface it hands out is wrapped so
// the oracle sees every mutating call at the instant it is issued.
type gcCalico struct {
	clientv3.Interface
	w *world
}

func (c *gcCalico) IPAM() ipam.Interface {
	return &gcIPAM{Interface: c.Interface.IPAM(), w: c.w}
}

// ---- set-up

func newWorld(r *core.R) *world {
	w := &world{r: r, src: r.Src, t0: time.Now(), nodeByN: map[string]*nodeT{}, pods: map[string]*podT{}, owners: map[string]*owner{},
		apiPods: map[string]*podView{}, cachePods: map[string]*podView{}, cacheNodes: map[string]bool{}, checkKick: make(chan struct{}, 1)}
	src := r.Src
	w.s = sched.New(r)
	w.st = store.New(r, w.s)
	w.cli = realClient(w.st.Client())

	// grace period (the controller derives its periodic interval from it: grace/2)
	w.grace = time.Duration([]int{8, 12, 20, 30, 60}[src.Intn(5, "grace_s")]) * time.Second
	w.period = w.grace / 2
	r.Cfg("grace_s", int(w.grace/time.Second))
	r.Cfg("period_s", int(w.period/time.Second))

	// IPAM configuration and one small pool so that nodes hold several blocks
	w.cooldown = []int{0, 0, 0, 4, 20}[src.Intn(5, "cfg_cooldown")]
	w.st.Put(&model.KVPair{Key: model.IPAMConfigKey{}, Value: &model.IPAMConfig{
		StrictAffinity: false, AutoAllocateBlocks: true, IPCooldownSeconds: w.cooldown,
	}}, "~setup")
	w.blockLen = 30 - src.Intn(2, "blocksize") // /30 or /29 blocks
	w.poolCIDR = mustCIDR("10.0.0.0/26")
	pool := v3.NewIPPool()
	pool.Name = "pool0"
	pool.Spec.CIDR = w.poolCIDR.String()
	pool.Spec.BlockSize = w.blockLen
	pool.Spec.NodeSelector = "all()"
	mode := v3.Automatic
	pool.Spec.AssignmentMode = &mode
	pool.Spec.AllowedUses = []v3.IPPoolAllowedUse{v3.IPPoolAllowedUseWorkload, v3.IPPoolAllowedUseTunnel}
	w.st.Put(&model.KVPair{Key: model.ResourceKey{Kind: v3.KindIPPool, Name: pool.Name}, Value: pool}, "~setup")
	ci := v3.NewClusterInformation()
	ci.Name = "default"
	ready := true
	ci.Spec.DatastoreReady = &ready
	w.st.Put(&model.KVPair{Key: model.ResourceKey{Kind: v3.KindClusterInformation, Name: "default"}, Value: ci}, "~setup")
	r.Cfg("cooldown_s", w.cooldown)
	r.Cfg("block_prefix", w.blockLen)

	// Kubernetes stubs: the fake clientset is the API server (ground truth of objects); the indexers are the
	// controller's informer caches, which only the simulated informer writes.
	w.cs = fake.NewSimpleClientset() // (NewClientset builds a field-managed tracker from the whole OpenAPI schema: ~1 s per process)
	w.podIdx = cache.NewIndexer(cache.MetaNamespaceKeyFunc, cache.Indexers{cache.NamespaceIndex: cache.MetaNamespaceIndexFunc})
	w.nodeIdx = cache.NewIndexer(cache.MetaNamespaceKeyFunc, cache.Indexers{})

	// nodes
	nn := src.Range(2, 4, "nodes")
	distinct := src.Chance(500, "distinct_node_names")
	for i := 0; i < nn; i++ {
		n := &nodeT{idx: i, name: fmt.Sprintf("n%d", i)}
		n.kname = n.name
		if distinct {
			n.kname = fmt.Sprintf("k%d", i)
		}
		n.tunnel = src.Chance(600, "node_tunnel")
		w.nodes = append(w.nodes, n)
		w.nodeByN[n.name] = n
	}
	r.Cfg("nodes", nn)
	r.Cfg("distinct_node_names", distinct)

	np := src.Range(2, map[bool]int{false: 6, true: 8}[r.Tier == "thorough"], "pod_names")
	for i := 0; i < np; i++ {
		w.podNames = append(w.podNames, fmt.Sprintf("p%d", i))
	}
	r.Cfg("pod_names", np)
	return w
}

// calicoNodeKV builds the Calico Node resource of n.
func calicoNodeKV(n *nodeT) *model.KVPair {
	cn := internalapi.NewNode()
	cn.Name = n.name
	cn.Spec.OrchRefs = []internalapi.OrchRef{{NodeName: n.kname, Orchestrator: v3.OrchestratorKubernetes}}
	return &model.KVPair{Key: model.ResourceKey{Kind: internalapi.KindNode, Name: n.name}, Value: cn}
}

var podGVR = corev1.SchemeGroupVersion.WithResource("pods")
var nodeGVR = corev1.SchemeGroupVersion.WithResource("nodes")

func (w *world) k8sNodeObj(n *nodeT) *corev1.Node {
	return &corev1.Node{ObjectMeta: metav1.ObjectMeta{Name: n.kname, UID: types.UID(fmt.Sprintf("node-%s-%d", n.kname, n.inc))}}
}

func (w *world) k8sPodObj(p *podT) *corev1.Pod {
	pod := &corev1.Pod{ObjectMeta: metav1.ObjectMeta{Name: p.name, Namespace: podNS, UID: types.UID(p.uid)}}
	pod.Spec.NodeName = p.node.kname
	pod.Status.Phase = corev1.PodRunning
	if p.finished {
		pod.Status.Phase = corev1.PodSucceeded
	}
	if len(p.apiIPs) > 0 {
		pod.Status.PodIP = p.apiIPs[0]
		for _, ip := range p.apiIPs {
			pod.Status.PodIPs = append(pod.Status.PodIPs, corev1.PodIP{IP: ip})
		}
	}
	return pod
}

func viewOf(p *podT) *podView {
	return &podView{uid: p.uid, knode: p.node.kname, ips: append([]string(nil), p.apiIPs...), finished: p.finished}
}

// apiSetPod writes the pod's current API object (create or update) and queues the informer event.
func (w *world) apiSetPod(p *podT) {
	obj := w.k8sPodObj(p)
	k := p.key()
	if _, exists := w.apiPods[k]; exists {
		if err := w.cs.Tracker().Update(podGVR, obj, podNS); err != nil {
			w.r.HarnessError("tracker update pod %s: %v", k, err)
		}
	} else if err := w.cs.Tracker().Add(obj); err != nil {
		w.r.HarnessError("tracker add pod %s: %v", k, err)
	}
	w.apiPods[k] = viewOf(p)
	w.inf.queue(&infEvent{kind: evPodSet, pod: obj.DeepCopy(), view: viewOf(p), key: k})
}

func (w *world) apiDeletePod(p *podT) {
	k := p.key()
	if _, exists := w.apiPods[k]; !exists {
		return
	}
	if err := w.cs.Tracker().Delete(podGVR, podNS, p.name); err != nil {
		w.r.HarnessError("tracker delete pod %s: %v", k, err)
	}
	delete(w.apiPods, k)
	w.inf.queue(&infEvent{kind: evPodDel, pod: w.k8sPodObj(p), key: k})
}

// startNode brings node n up (first start or re-creation): Kubernetes node, Calico node resource, informer add
// (node creation is visible to the node informer at once: see the engine's assumptions), tunnel address task.
func (w *world) startNode(n *nodeT) {
	n.alive = true
	n.inc++
	n.bornAt = w.now()
	obj := w.k8sNodeObj(n)
	if err := w.cs.Tracker().Add(obj); err != nil {
		w.r.HarnessError("tracker add node %s: %v", n.kname, err)
	}
	w.inf.nodeAddedNow(obj)
	w.st.Put(calicoNodeKV(n), "~node")
	n.calicoPresent = true
	if n.tunnel {
		n.kl.enqueue(&task{kind: tStartup, inc: n.inc})
	}
}

// ---- wiring of the system under test

func (w *world) startController() {
	w.gcActor = &sched.Actor{Name: "gc"} // not registered: the controller never "finishes"
	real := realClient(procClient{inner: w.st.Client(), a: w.gcActor})
	cli := &gcCalico{Interface: real, w: w}
	w.cs.PrependReactor("get", "pods", func(action k8stesting.Action) (bool, runtime.Object, error) {
		return w.apiGetHook(action.(k8stesting.GetAction))
	})
	cfg := config.NodeControllerConfig{LeakGracePeriod: &metav1.Duration{Duration: w.grace}}
	di := kubevirt.NewDeferredInformersWithIndexers(
		cache.NewIndexer(cache.MetaNamespaceKeyFunc, cache.Indexers{}), cache.NewIndexer(cache.MetaNamespaceKeyFunc, cache.Indexers{}))
	w.gc = node.NewIPAMController(cfg, cli, w.cs, w.podIdx, w.nodeIdx, di)
	w.gcStop = make(chan struct{})
	w.gc.Start(w.gcStop)
}

// apiGetHook is a scheduling point (and fault point) in front of the controller's live pod lookups.
func (w *world) apiGetHook(a k8stesting.GetAction) (bool, runtime.Object, error) {
	f := w.s.Park(sched.WithActor(context.Background(), w.gcActor), "k8s-get-pod", a.GetNamespace()+"/"+a.GetName(), false)
	if f == sched.ErrorBefore {
		w.r.Fault("k8s_api_error")
		return true, nil, fmt.Errorf("injected Kubernetes API error")
	}
	w.r.Probe("gc_live_pod_lookup")
	w.r.Logf("  gc: live GET pod %s/%s at %s", a.GetNamespace(), a.GetName(), w.now())
	return false, nil, nil // fall through to the object tracker
}

func (w *world) kickChecker() {
	select {
	case w.checkKick <- struct{}{}:
	default:
	}
}

// checker evaluates the controller's bookkeeping invariant with the main loop parked in its select, exactly as
// the repository's assertConsistentState helper does (pause, inspect, resume).
func (w *world) checker() {
	for range w.checkKick {
		resume := w.gc.PauseForSim()
		w.or.consistency()
		resume()
	}
}

func sortedKeys[V any](m map[string]V) []string {
	ks := make([]string, 0, len(m))
	for k := range m {
		ks = append(ks, k)
	}
	sort.Strings(ks)
	return ks
}

func join(xs []string) string { return strings.Join(xs, ",") }
