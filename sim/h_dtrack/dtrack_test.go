// Engine dtrack (C18): the real deltatracker.DeltaTracker / SetDeltaTracker and
// cachingmap.CachingMap against two reference maps and a fault-injecting,
// externally-modified backing map.
package h_dtrack

import (
	"errors"
	"fmt"
	"sort"
	"testing"

	"github.com/projectcalico/calico/felix/cachingmap"
	"github.com/projectcalico/calico/felix/deltatracker"

	"verifsim/core"
)

func TestSim(t *testing.T) {
	core.Main(t, "dtrack", []string{"C18"}, run)
}

type model struct {
	desired map[int]int
	dp      map[int]int
}

func fmtMap(m map[int]int) string {
	ks := make([]int, 0, len(m))
	for k := range m {
		ks = append(ks, k)
	}
	sort.Ints(ks)
	s := ""
	for _, k := range ks {
		s += fmt.Sprintf("%d=%d ", k, m[k])
	}
	return s
}

func (m *model) pendingUpdates() map[int]int {
	out := map[int]int{}
	for k, v := range m.desired {
		if dv, ok := m.dp[k]; !ok || dv != v {
			out[k] = v
		}
	}
	return out
}

func (m *model) pendingDeletions() map[int]int {
	out := map[int]int{}
	for k, v := range m.dp {
		if _, ok := m.desired[k]; !ok {
			out[k] = v
		}
	}
	return out
}

func eqMap(a, b map[int]int) bool {
	if len(a) != len(b) {
		return false
	}
	for k, v := range a {
		if w, ok := b[k]; !ok || w != v {
			return false
		}
	}
	return true
}

// collect iterates a view, failing on duplicate keys.
func collect(r *core.R, what string, iter func(func(k, v int))) map[int]int {
	out := map[int]int{}
	iter(func(k, v int) {
		if _, dup := out[k]; dup {
			r.Violation("view_duplicate_key", "%s iterated key %d twice", what, k)
		}
		out[k] = v
	})
	return out
}

func checkTracker(r *core.R, m *model, dt *deltatracker.DeltaTracker[int, int], universe int, after string) {
	des := collect(r, "desired", func(f func(k, v int)) { dt.Desired().Iter(f) })
	r.Check("desired_view", eqMap(des, m.desired), "after %s: desired view {%s} != model {%s}", after, fmtMap(des), fmtMap(m.desired))
	r.Check("desired_len", dt.Desired().Len() == len(m.desired), "after %s: Desired().Len()=%d model %d", after, dt.Desired().Len(), len(m.desired))
	dp := collect(r, "dataplane", func(f func(k, v int)) { dt.Dataplane().Iter(f) })
	r.Check("dataplane_view", eqMap(dp, m.dp), "after %s: dataplane view {%s} != model {%s}", after, fmtMap(dp), fmtMap(m.dp))
	r.Check("dataplane_len", dt.Dataplane().Len() == len(m.dp), "after %s: Dataplane().Len()=%d model %d", after, dt.Dataplane().Len(), len(m.dp))
	pu := collect(r, "pending updates", func(f func(k, v int)) {
		dt.PendingUpdates().Iter(func(k, v int) deltatracker.IterAction { f(k, v); return deltatracker.IterActionNoOp })
	})
	wantPU := m.pendingUpdates()
	r.Check("pending_updates", eqMap(pu, wantPU), "after %s: pending updates {%s} != exact difference {%s} (desired {%s} dataplane {%s})", after, fmtMap(pu), fmtMap(wantPU), fmtMap(m.desired), fmtMap(m.dp))
	r.Check("pending_updates_len", dt.PendingUpdates().Len() == len(wantPU), "after %s: PendingUpdates().Len()=%d want %d", after, dt.PendingUpdates().Len(), len(wantPU))
	pd := map[int]int{}
	dt.PendingDeletions().Iter(func(k int) deltatracker.IterAction {
		if _, dup := pd[k]; dup {
			r.Violation("view_duplicate_key", "pending deletions iterated key %d twice", k)
		}
		v, ok := dt.PendingDeletions().Get(k)
		if !ok {
			r.Violation("pending_deletions", "after %s: pending deletion %d iterated but Get says absent", after, k)
		}
		pd[k] = v
		return deltatracker.IterActionNoOp
	})
	wantPD := m.pendingDeletions()
	r.Check("pending_deletions", eqMap(pd, wantPD), "after %s: pending deletions {%s} != exact difference {%s} (desired {%s} dataplane {%s})", after, fmtMap(pd), fmtMap(wantPD), fmtMap(m.desired), fmtMap(m.dp))
	r.Check("pending_deletions_len", dt.PendingDeletions().Len() == len(wantPD), "after %s: PendingDeletions().Len()=%d want %d", after, dt.PendingDeletions().Len(), len(wantPD))
	r.Check("in_sync", dt.InSync() == (len(wantPU) == 0 && len(wantPD) == 0), "after %s: InSync()=%v but %d updates %d deletions pending", after, dt.InSync(), len(wantPU), len(wantPD))
	for k := 0; k < universe; k++ {
		v, ok := dt.Desired().Get(k)
		mv, mok := m.desired[k]
		if ok != mok || (ok && v != mv) {
			r.Violation("desired_get", "after %s: Desired().Get(%d)=(%d,%v) model (%d,%v)", after, k, v, ok, mv, mok)
		}
		v, ok = dt.Dataplane().Get(k)
		mv, mok = m.dp[k]
		if ok != mok || (ok && v != mv) {
			r.Violation("dataplane_get", "after %s: Dataplane().Get(%d)=(%d,%v) model (%d,%v)", after, k, v, ok, mv, mok)
		}
		v, ok = dt.PendingUpdates().Get(k)
		mv, mok = wantPU[k]
		if ok != mok || (ok && v != mv) {
			r.Violation("pending_updates_get", "after %s: PendingUpdates().Get(%d)=(%d,%v) want (%d,%v)", after, k, v, ok, mv, mok)
		}
		v, ok = dt.PendingDeletions().Get(k)
		mv, mok = wantPD[k]
		if ok != mok || (ok && v != mv) {
			r.Violation("pending_deletions_get", "after %s: PendingDeletions().Get(%d)=(%d,%v) want (%d,%v)", after, k, v, ok, mv, mok)
		}
	}
}

func run(r *core.R) {
	r.FaultDecl("replace_iter_error", "dp_update_error", "dp_delete_error", "dp_batch_partial", "dp_load_error", "external_edit", "dp_delete_enoent")
	r.ProbeDecl("iter_update_dataplane", "iter_mutate_other_key", "batch_over_128", "aliasing_equal_values", "resync_found_drift", "apply_converged", "batch_delete_enoent")
	mode := r.Src.Weighted([]int{4, 2, 4}, "mode")
	r.Cfg("mode", []string{"tracker", "set_tracker", "caching_map"}[mode])
	switch mode {
	case 0:
		runTracker(r)
	case 1:
		runSetTracker(r)
	case 2:
		runCachingMap(r)
	}
}

func runTracker(r *core.R) {
	universe := r.Src.Range(2, 12, "universe")
	nvals := r.Src.Range(2, 4, "nvals")
	nops := r.Src.Range(5, 80, "nops")
	r.Cfg("universe", universe)
	r.Cfg("nops", nops)
	dt := deltatracker.New[int, int]()
	m := &model{desired: map[int]int{}, dp: map[int]int{}}
	for i := 0; i < nops; i++ {
		op := r.Src.Weighted([]int{20, 12, 3, 14, 10, 6, 8, 6, 3, 6, 6}, "op")
		k := r.Src.Intn(universe, "key")
		v := r.Src.Intn(nvals, "val")
		desc := ""
		switch op {
		case 0:
			desc = fmt.Sprintf("Desired.Set(%d,%d)", k, v)
			r.Op("%s", desc)
			if dv, ok := m.dp[k]; ok && dv == v {
				r.Probe("aliasing_equal_values")
			}
			dt.Desired().Set(k, v)
			m.desired[k] = v
		case 1:
			desc = fmt.Sprintf("Desired.Delete(%d)", k)
			r.Op("%s", desc)
			dt.Desired().Delete(k)
			delete(m.desired, k)
		case 2:
			desc = "Desired.DeleteAll"
			r.Op("%s", desc)
			dt.Desired().DeleteAll()
			m.desired = map[int]int{}
		case 3:
			desc = fmt.Sprintf("Dataplane.Set(%d,%d)", k, v)
			r.Op("%s", desc)
			dt.Dataplane().Set(k, v)
			m.dp[k] = v
		case 4:
			desc = fmt.Sprintf("Dataplane.Delete(%d)", k)
			r.Op("%s", desc)
			dt.Dataplane().Delete(k)
			delete(m.dp, k)
		case 5:
			desc = "Dataplane.DeleteAll"
			r.Op("%s", desc)
			dt.Dataplane().DeleteAll()
			m.dp = map[int]int{}
		case 6, 7:
			// full replacement, from a map or from an iterator that may fail part-way
			n := r.Src.Intn(universe+1, "replace_n")
			newDP := map[int]int{}
			var order []int
			for j := 0; j < n; j++ {
				kk := r.Src.Intn(universe, "replace_key")
				if _, ok := newDP[kk]; !ok {
					order = append(order, kk)
				}
				newDP[kk] = r.Src.Intn(nvals, "replace_val")
			}
			if op == 6 {
				desc = fmt.Sprintf("Dataplane.ReplaceAllMap({%s})", fmtMap(newDP))
				r.Op("%s", desc)
				if !eqMap(newDP, m.dp) {
					r.Probe("resync_found_drift")
				}
				dt.Dataplane().ReplaceAllMap(newDP)
				m.dp = newDP
			} else {
				failAt := -1
				if r.Src.Chance(350, "replace_fail") && len(order) > 0 {
					failAt = r.Src.Intn(len(order)+1, "replace_fail_at")
				}
				desc = fmt.Sprintf("Dataplane.ReplaceAllIter(order=%v vals={%s} failAt=%d)", order, fmtMap(newDP), failAt)
				r.Op("%s", desc)
				err := dt.Dataplane().ReplaceAllIter(func(f func(k, v int)) error {
					for idx, kk := range order {
						if idx == failAt {
							return errors.New("injected iterator failure")
						}
						f(kk, newDP[kk])
					}
					if failAt == len(order) {
						return errors.New("injected iterator failure at end")
					}
					return nil
				})
				if failAt >= 0 {
					r.Fault("replace_iter_error")
					r.Check("replace_iter_err_reported", err != nil, "ReplaceAllIter swallowed the iterator's error")
					// documented: partially updated with the keys already seen
					for idx, kk := range order {
						if idx >= failAt {
							break
						}
						m.dp[kk] = newDP[kk]
					}
				} else {
					r.Check("replace_iter_err_reported", err == nil, "ReplaceAllIter returned an error without an iterator error: %v", err)
					m.dp = newDP
				}
			}
		case 8:
			// pending-update iteration applying a seed-chosen subset, optionally mutating another key mid-iteration
			desc = "PendingUpdates.Iter(apply subset)"
			r.Op("%s", desc)
			mut := r.Src.Chance(250, "iter_mutate")
			dt.PendingUpdates().Iter(func(kk, vv int) deltatracker.IterAction {
				want, ok := m.desired[kk]
				if !ok || want != vv {
					r.Violation("pending_updates_iter", "PendingUpdates.Iter yielded (%d,%d) but model desired has (%d,%v)", kk, vv, want, ok)
				}
				if dv, ok := m.dp[kk]; ok && dv == vv {
					r.Violation("pending_updates_iter", "PendingUpdates.Iter yielded (%d,%d) which the dataplane already holds", kk, vv)
				}
				if mut && r.Src.Chance(300, "iter_mutate_now") {
					ok2 := (kk + 1 + r.Src.Intn(universe-1, "iter_other")) % universe
					if ok2 != kk {
						nv := r.Src.Intn(nvals, "iter_other_val")
						r.Probe("iter_mutate_other_key")
						r.Logf("  during iter at key %d: Desired.Set(%d,%d)", kk, ok2, nv)
						dt.Desired().Set(ok2, nv)
						m.desired[ok2] = nv
					}
				}
				if r.Src.Chance(600, "iter_apply") {
					r.Probe("iter_update_dataplane")
					r.Logf("  iter apply update %d=%d", kk, vv)
					m.dp[kk] = vv
					return deltatracker.IterActionUpdateDataplane
				}
				return deltatracker.IterActionNoOp
			})
		case 9:
			desc = "PendingDeletions.Iter(apply subset)"
			r.Op("%s", desc)
			dt.PendingDeletions().Iter(func(kk int) deltatracker.IterAction {
				if _, ok := m.desired[kk]; ok {
					r.Violation("pending_deletions_iter", "PendingDeletions.Iter yielded desired key %d", kk)
				}
				if _, ok := m.dp[kk]; !ok {
					r.Violation("pending_deletions_iter", "PendingDeletions.Iter yielded key %d that is not in the dataplane", kk)
				}
				if r.Src.Chance(600, "iter_apply") {
					r.Probe("iter_update_dataplane")
					r.Logf("  iter apply delete %d", kk)
					delete(m.dp, kk)
					return deltatracker.IterActionUpdateDataplane
				}
				return deltatracker.IterActionNoOp
			})
		case 10:
			// batched application with a seed-chosen failure position
			desc = "PendingUpdates.IterBatched + PendingDeletions.IterBatched"
			r.Op("%s", desc)
			dt.PendingUpdates().IterBatched(func(ks, vs []int) (int, error) {
				n := len(ks)
				var err error
				if r.Src.Chance(300, "batch_fail") {
					n = r.Src.Intn(len(ks), "batch_fail_at")
					err = errors.New("injected batch failure")
					r.Fault("dp_batch_partial")
				}
				for j := 0; j < n; j++ {
					m.dp[ks[j]] = vs[j]
				}
				return n, err
			})
			dt.PendingDeletions().IterBatched(func(ks []int) (int, error) {
				n := len(ks)
				var err error
				if r.Src.Chance(300, "batch_fail") {
					n = r.Src.Intn(len(ks), "batch_fail_at")
					err = errors.New("injected batch failure")
					r.Fault("dp_batch_partial")
				}
				for j := 0; j < n; j++ {
					delete(m.dp, ks[j])
				}
				return n, err
			})
		}
		checkTracker(r, m, dt, universe, desc)
	}
	r.Fingerprint("t|" + fmtMap(m.desired) + "|" + fmtMap(m.dp))
}

func runSetTracker(r *core.R) {
	universe := r.Src.Range(2, 10, "universe")
	nops := r.Src.Range(5, 60, "nops")
	r.Cfg("universe", universe)
	r.Cfg("nops", nops)
	st := deltatracker.NewSetDeltaTracker[int]()
	des, dp := map[int]bool{}, map[int]bool{}
	check := func(after string) {
		seen := map[int]bool{}
		st.Desired().Iter(func(k int) {
			if seen[k] {
				r.Violation("view_duplicate_key", "set desired iterated %d twice", k)
			}
			seen[k] = true
		})
		r.Check("set_desired_view", eqSet(seen, des), "after %s: desired set %v != model %v", after, keys(seen), keys(des))
		seen = map[int]bool{}
		st.Dataplane().Iter(func(k int) {
			if seen[k] {
				r.Violation("view_duplicate_key", "set dataplane iterated %d twice", k)
			}
			seen[k] = true
		})
		r.Check("set_dataplane_view", eqSet(seen, dp), "after %s: dataplane set %v != model %v", after, keys(seen), keys(dp))
		pu, pd := map[int]bool{}, map[int]bool{}
		st.PendingUpdates().Iter(func(k int) deltatracker.IterAction { pu[k] = true; return deltatracker.IterActionNoOp })
		st.PendingDeletions().Iter(func(k int) deltatracker.IterAction { pd[k] = true; return deltatracker.IterActionNoOp })
		wpu, wpd := map[int]bool{}, map[int]bool{}
		for k := range des {
			if !dp[k] {
				wpu[k] = true
			}
		}
		for k := range dp {
			if !des[k] {
				wpd[k] = true
			}
		}
		r.Check("set_pending_updates", eqSet(pu, wpu), "after %s: pending additions %v != %v", after, keys(pu), keys(wpu))
		r.Check("set_pending_deletions", eqSet(pd, wpd), "after %s: pending deletions %v != %v", after, keys(pd), keys(wpd))
		r.Check("set_lens", st.PendingUpdates().Len() == len(wpu) && st.PendingDeletions().Len() == len(wpd), "after %s: lens (%d,%d) want (%d,%d)", after, st.PendingUpdates().Len(), st.PendingDeletions().Len(), len(wpu), len(wpd))
		r.Check("in_sync", st.InSync() == (len(wpu) == 0 && len(wpd) == 0), "after %s: InSync=%v", after, st.InSync())
		for k := 0; k < universe; k++ {
			if st.Desired().Contains(k) != des[k] || st.Dataplane().Contains(k) != dp[k] || st.PendingUpdates().Contains(k) != wpu[k] || st.PendingDeletions().Contains(k) != wpd[k] {
				r.Violation("set_contains", "after %s: Contains(%d) desired=%v dp=%v pu=%v pd=%v; model %v %v %v %v", after, k,
					st.Desired().Contains(k), st.Dataplane().Contains(k), st.PendingUpdates().Contains(k), st.PendingDeletions().Contains(k), des[k], dp[k], wpu[k], wpd[k])
			}
		}
	}
	for i := 0; i < nops; i++ {
		op := r.Src.Weighted([]int{20, 12, 3, 14, 10, 4, 8, 6, 6}, "op")
		k := r.Src.Intn(universe, "key")
		desc := ""
		switch op {
		case 0:
			desc = fmt.Sprintf("Desired.Add(%d)", k)
			st.Desired().Add(k)
			des[k] = true
		case 1:
			desc = fmt.Sprintf("Desired.Delete(%d)", k)
			st.Desired().Delete(k)
			delete(des, k)
		case 2:
			desc = "Desired.DeleteAll"
			st.Desired().DeleteAll()
			des = map[int]bool{}
		case 3:
			desc = fmt.Sprintf("Dataplane.Add(%d)", k)
			st.Dataplane().Add(k)
			dp[k] = true
		case 4:
			desc = fmt.Sprintf("Dataplane.Delete(%d)", k)
			st.Dataplane().Delete(k)
			delete(dp, k)
		case 5:
			desc = "Dataplane.DeleteAll"
			st.Dataplane().DeleteAll()
			dp = map[int]bool{}
		case 6:
			n := r.Src.Intn(universe+1, "replace_n")
			var order []int
			nd := map[int]bool{}
			for j := 0; j < n; j++ {
				kk := r.Src.Intn(universe, "replace_key")
				if !nd[kk] {
					order = append(order, kk)
					nd[kk] = true
				}
			}
			failAt := -1
			if r.Src.Chance(300, "replace_fail") && len(order) > 0 {
				failAt = r.Src.Intn(len(order), "replace_fail_at")
			}
			desc = fmt.Sprintf("Dataplane.ReplaceFromIter(%v failAt=%d)", order, failAt)
			err := st.Dataplane().ReplaceFromIter(func(f func(k int)) error {
				for idx, kk := range order {
					if idx == failAt {
						return errors.New("injected")
					}
					f(kk)
				}
				return nil
			})
			if failAt >= 0 {
				r.Fault("replace_iter_error")
				r.Check("replace_iter_err_reported", err != nil, "ReplaceFromIter swallowed the error")
				for idx, kk := range order {
					if idx >= failAt {
						break
					}
					dp[kk] = true
				}
			} else {
				dp = nd
			}
		case 7:
			desc = "PendingUpdates.Iter(apply subset)"
			st.PendingUpdates().Iter(func(kk int) deltatracker.IterAction {
				if r.Src.Chance(600, "iter_apply") {
					r.Probe("iter_update_dataplane")
					dp[kk] = true
					return deltatracker.IterActionUpdateDataplane
				}
				return deltatracker.IterActionNoOp
			})
		case 8:
			desc = "PendingDeletions.Iter(apply subset)"
			st.PendingDeletions().Iter(func(kk int) deltatracker.IterAction {
				if r.Src.Chance(600, "iter_apply") {
					r.Probe("iter_update_dataplane")
					delete(dp, kk)
					return deltatracker.IterActionUpdateDataplane
				}
				return deltatracker.IterActionNoOp
			})
		}
		r.Op("%s", desc)
		check(desc)
	}
	r.Fingerprint(fmt.Sprintf("s|%v|%v", keys(des), keys(dp)))
}

func eqSet(a, b map[int]bool) bool {
	if len(a) != len(b) {
		return false
	}
	for k := range a {
		if !b[k] {
			return false
		}
	}
	return true
}

func keys(m map[int]bool) []int {
	ks := make([]int, 0, len(m))
	for k := range m {
		ks = append(ks, k)
	}
	sort.Ints(ks)
	return ks
}

// ---- caching map over a faulty, externally modified backing map

var errNotExist = errors.New("ENOENT")

type backing struct {
	loaded        bool // a Load has succeeded at least once
	stale         bool // the map was edited behind the cache since the last successful Load
	r             *core.R
	kv            map[int]int
	faultsOn      bool
	pUpd          int
	pDel          int
	pLoad         int
	calls         int
	callsAtOp     int
	maxCallsPerOp int
}

func (b *backing) Update(k, v int) error {
	b.calls++
	b.budget()
	if b.faultsOn && b.r.Src.Chance(b.pUpd, "fault_update") {
		b.r.Fault("dp_update_error")
		return errors.New("injected update error")
	}
	b.kv[k] = v
	return nil
}

func (b *backing) Delete(k int) error {
	b.calls++
	b.budget()
	if b.faultsOn && b.r.Src.Chance(b.pDel, "fault_delete") {
		b.r.Fault("dp_delete_error")
		return errors.New("injected delete error")
	}
	if _, ok := b.kv[k]; !ok {
		b.r.Fault("dp_delete_enoent")
		return errNotExist
	}
	delete(b.kv, k)
	return nil
}

func (b *backing) Load() (map[int]int, error) {
	if b.faultsOn && b.r.Src.Chance(b.pLoad, "fault_load") {
		b.r.Fault("dp_load_error")
		return nil, errors.New("injected load error")
	}
	out := map[int]int{}
	for k, v := range b.kv {
		out[k] = v
	}
	b.loaded, b.stale = true, false
	return out, nil
}

// budget is the bounded-liveness oracle for Apply*: one pass may not need more
// dataplane calls than a generous multiple of the key universe.
func (b *backing) budget() {
	if b.calls-b.callsAtOp > b.maxCallsPerOp {
		b.r.Violation("apply_livelock", "one Apply made more than %d dataplane calls without finishing", b.maxCallsPerOp)
	}
}

func (b *backing) ErrIsNotExists(err error) bool { return errors.Is(err, errNotExist) }

type batchedBacking struct{ *backing }

func (b batchedBacking) BatchUpdate(ks, vs []int) (int, error) {
	b.calls++
	b.budget()
	if len(ks) >= 128 {
		b.r.Probe("batch_over_128")
	}
	for i := range ks {
		if b.faultsOn && b.r.Src.Chance(b.pUpd/4+1, "fault_batch_update") {
			b.r.Fault("dp_batch_partial")
			return i, errors.New("injected batch update error")
		}
		b.kv[ks[i]] = vs[i]
	}
	return len(ks), nil
}

func (b batchedBacking) BatchDelete(ks []int) (int, error) {
	b.calls++
	b.budget()
	for i := range ks {
		if b.faultsOn && b.r.Src.Chance(b.pDel/4+1, "fault_batch_delete") {
			b.r.Fault("dp_batch_partial")
			return i, errors.New("injected batch delete error")
		}
		if _, ok := b.kv[ks[i]]; !ok {
			b.r.Fault("dp_delete_enoent")
			b.r.Probe("batch_delete_enoent")
			return i, errNotExist
		}
		delete(b.kv, ks[i])
	}
	return len(ks), nil
}

func runCachingMap(r *core.R) {
	batched := r.Src.Chance(500, "batched")
	big := batched && r.Src.Chance(300, "big")
	universe := r.Src.Range(2, 12, "universe")
	if big {
		universe = r.Src.Range(130, 300, "universe_big")
	}
	nvals := 3
	nops := r.Src.Range(5, 60, "nops")
	r.Cfg("batched", batched)
	r.Cfg("universe", universe)
	r.Cfg("nops", nops)
	b := &backing{r: r, kv: map[int]int{}, faultsOn: true, maxCallsPerOp: 20*universe + 100,
		pUpd: r.Src.Intn(300, "p_upd"), pDel: r.Src.Intn(300, "p_del"), pLoad: r.Src.Intn(200, "p_load")}
	// arbitrary starting dataplane state
	for i, n := 0, r.Src.Intn(universe+1, "init_n"); i < n; i++ {
		b.kv[r.Src.Intn(universe, "init_key")] = r.Src.Intn(nvals, "init_val")
	}
	var dpm cachingmap.DataplaneMap[int, int] = b
	if batched {
		dpm = batchedBacking{b}
	}
	cm := cachingmap.New[int, int]("sim", dpm)
	desired := map[int]int{}
	checkViews := func(after string) {
		des := collect(r, "desired", func(f func(k, v int)) { cm.Desired().Iter(f) })
		r.Check("desired_view", eqMap(des, desired), "after %s: desired view {%s} != model {%s}", after, fmtMap(des), fmtMap(desired))
		if b.loaded && !b.stale {
			dp := collect(r, "dataplane", func(f func(k, v int)) { cm.Dataplane().Iter(f) })
			r.Check("cache_matches_backing", eqMap(dp, b.kv), "after %s: dataplane cache {%s} != backing map {%s}", after, fmtMap(dp), fmtMap(b.kv))
		}
	}
	for i := 0; i < nops; i++ {
		op := r.Src.Weighted([]int{30, 14, 2, 10, 8, 6, 6, 8}, "op")
		k := r.Src.Intn(universe, "key")
		v := r.Src.Intn(nvals, "val")
		desc := ""
		b.callsAtOp = b.calls
		switch op {
		case 0:
			n := 1
			if big {
				n = r.Src.Range(1, 200, "burst")
			}
			desc = fmt.Sprintf("Desired.Set x%d from (%d,%d)", n, k, v)
			for j := 0; j < n; j++ {
				kk := (k + j) % universe
				cm.Desired().Set(kk, v)
				desired[kk] = v
			}
		case 1:
			desc = fmt.Sprintf("Desired.Delete(%d)", k)
			cm.Desired().Delete(k)
			delete(desired, k)
		case 2:
			desc = "Desired.DeleteAll"
			cm.Desired().DeleteAll()
			desired = map[int]int{}
		case 3:
			// another program edits the kernel map behind the cache
			r.Fault("external_edit")
			b.stale = true
			if r.Src.Chance(500, "ext_del") {
				desc = fmt.Sprintf("external delete %d", k)
				delete(b.kv, k)
			} else {
				desc = fmt.Sprintf("external set %d=%d", k, v)
				b.kv[k] = v
			}
		case 4:
			desc = "LoadCacheFromDataplane"
			_ = cm.LoadCacheFromDataplane()
		case 5:
			desc = "ApplyUpdatesOnly"
			err := cm.ApplyUpdatesOnly()
			if err == nil && !b.stale {
				for kk, vv := range desired {
					if b.kv[kk] != vv {
						r.Violation("apply_updates_incomplete", "ApplyUpdatesOnly returned nil but backing[%d]=%d, desired %d", kk, b.kv[kk], vv)
					}
					if _, ok := b.kv[kk]; !ok {
						r.Violation("apply_updates_incomplete", "ApplyUpdatesOnly returned nil but key %d missing from backing map", kk)
					}
				}
				r.Eval()
			}
		case 6:
			desc = "ApplyDeletionsOnly"
			err := cm.ApplyDeletionsOnly()
			if err == nil && !b.stale {
				for kk := range b.kv {
					if _, ok := desired[kk]; !ok {
						r.Violation("apply_deletions_incomplete", "ApplyDeletionsOnly returned nil but undesired key %d remains in backing map", kk)
					}
				}
				r.Eval()
			}
		case 7:
			desc = "ApplyAllChanges"
			err := cm.ApplyAllChanges()
			if err == nil && !b.stale {
				r.Check("apply_all_converged", eqMap(b.kv, desired), "ApplyAllChanges returned nil with a fresh cache but backing {%s} != desired {%s}", fmtMap(b.kv), fmtMap(desired))
				r.Probe("apply_converged")
			}
		}
		r.Op("%s", desc)
		checkViews(desc)
	}
	// quiesce: faults off, resync, apply: must converge in one pass
	b.faultsOn = false
	b.callsAtOp = b.calls
	if err := cm.LoadCacheFromDataplane(); err != nil {
		r.Violation("quiesce_load", "fault-free load failed: %v", err)
	}
	if err := cm.ApplyAllChanges(); err != nil {
		r.Violation("quiesce_apply", "fault-free ApplyAllChanges failed: %v", err)
	}
	r.Check("quiesce_converged", eqMap(b.kv, desired), "after fault-free resync+apply backing {%s} != desired {%s}", fmtMap(b.kv), fmtMap(desired))
	calls := b.calls
	b.callsAtOp = b.calls
	if err := cm.ApplyAllChanges(); err != nil {
		r.Violation("quiesce_apply", "second fault-free ApplyAllChanges failed: %v", err)
	}
	r.Check("quiesce_idempotent", b.calls == calls, "in-sync ApplyAllChanges made %d further dataplane writes", b.calls-calls)
	checkViews("quiesce")
	r.Fingerprint("c|" + fmtMap(desired) + "|" + fmt.Sprint(batched))
}
