// Engine dedupe (C25): the real dedupebuffer.DedupeBuffer with its real consumer
// goroutine (SendToSinkForever) inside a testing/synctest bubble.  The harness
// plays a sequence of Typha connections (the call pattern of the real
// syncclient: [restarted, wait-for-datastore,] resync-in-progress, snapshot,
// deltas, in-sync) over an evolving upstream state, restarts the connection at
// any point, and owns the sink, which parks inside every callback so that the
// simulator decides how producer calls and sink deliveries interleave.
package h_dedupe

import (
	"fmt"
	"sort"
	"strings"
	"testing"
	"testing/synctest"
	"time"

	"github.com/projectcalico/calico/libcalico-go/lib/backend/api"
	"github.com/projectcalico/calico/libcalico-go/lib/backend/model"
	"github.com/projectcalico/calico/libcalico-go/lib/backend/syncersv1/dedupebuffer"

	"verifsim/core"
)

func TestSim(t *testing.T) {
	core.Main(t, "dedupe", []string{"C25"}, func(r *core.R) { run(t, r) })
}

// ---- keys and values

func mkKey(i int) model.Key {
	switch i % 3 {
	case 0:
		return model.GlobalConfigKey{Name: fmt.Sprintf("k%03d", i)}
	case 1:
		return model.HostConfigKey{Hostname: "host", Name: fmt.Sprintf("k%03d", i)}
	default:
		return model.ResourceKey{Kind: "NetworkSet", Namespace: "ns", Name: fmt.Sprintf("k%03d", i)}
	}
}

func mkVal(ver int) interface{} { return fmt.Sprintf("v%d", ver) }

// ---- the sink (simulator code): applies at delivery, then parks

type sink struct {
	r        *core.R
	keyIdx   map[model.Key]int
	view     map[int]int // key index -> version held downstream
	status   api.SyncStatus
	gotStat  bool
	parkCh   chan struct{}
	stopping bool
	nUpd     int
	nDel     int
	nStat    int
}

func (s *sink) park() {
	if s.stopping {
		return
	}
	ch := make(chan struct{})
	s.parkCh = ch
	<-ch
}

func (s *sink) OnStatusUpdated(st api.SyncStatus) {
	s.r.Logf("  sink: status %v", st)
	s.status, s.gotStat = st, true
	s.nStat++
	s.park()
}

func (s *sink) OnUpdates(us []api.Update) {
	r := s.r
	if len(us) >= 100 {
		r.Probe("sink_full_batch_100")
	}
	for _, u := range us {
		ki, ok := s.keyIdx[u.Key]
		if !ok {
			r.Violation("unknown_key", "sink was sent key %v which no connection ever sent", u.Key)
		}
		held, has := s.view[ki]
		if u.Value == nil {
			r.Logf("  sink: delete k%03d (held=%v)", ki, has)
			s.nDel++
			if !has {
				r.Probe("delete_for_key_sink_never_held")
			}
			delete(s.view, ki)
			continue
		}
		var ver int
		if _, err := fmt.Sscanf(u.Value.(string), "v%d", &ver); err != nil {
			r.Violation("bad_value", "sink was sent an unparsable value %v for k%03d", u.Value, ki)
		}
		r.Logf("  sink: k%03d=v%d type=%v (held=%v)", ki, ver, u.UpdateType, has)
		s.nUpd++
		switch u.UpdateType {
		case api.UpdateTypeKVNew:
			r.Check("type_matches_sink", !has, "k%03d=v%d delivered as KVNew but the sink already holds v%d", ki, ver, held)
		case api.UpdateTypeKVUpdated:
			r.Check("type_matches_sink", has, "k%03d=v%d delivered as KVUpdated but the sink does not hold the key", ki, ver)
		default:
			r.Violation("type_matches_sink", "k%03d=v%d delivered with update type %v", ki, ver, u.UpdateType)
		}
		s.view[ki] = ver
	}
	s.park()
}

// ---- upstream and connections

type hev struct{ key, ver int } // ver 0 = delete

type conn struct {
	id        int
	phase     int // 0 restarted-call due, 1 wait-status due, 2 resync-status due, 3 snapshot, 4 deltas
	snap      []hev
	snapPos   int
	pos       int         // next history index to send as a delta
	view      map[int]int // what this connection has told the client so far
	inSync    bool
	deltas    int
	insyncAt  int // deltas to send before the server reports in-sync
	flapDue   bool
	snapBatch int
}

func fmtView(m map[int]int) string {
	ks := make([]int, 0, len(m))
	for k := range m {
		ks = append(ks, k)
	}
	sort.Ints(ks)
	var sb strings.Builder
	for _, k := range ks {
		fmt.Fprintf(&sb, "k%03d=v%d ", k, m[k])
	}
	return sb.String()
}

func run(t *testing.T, r *core.R) {
	r.FaultDecl("unparseable_value", "restart_mid_snapshot", "restart_before_insync", "restart_after_insync", "restart_before_handshake",
		"restart_with_undelivered", "slow_consumer_step", "lagging_server", "spurious_delete", "status_flap", "connect_fails_forever")
	r.ProbeDecl("sink_full_batch_100", "delete_for_key_sink_never_held", "resync_needs_deletes", "resync_value_regressed",
		"drained_insync_check", "restart_while_sink_parked", "key_deleted_while_disconnected", "big_run",
		"update_for_undelivered_key", "delete_for_undelivered_key", "final_sink_insync", "final_sink_not_insync")
	defer func() {
		if p := recover(); p != nil {
			if s, ok := p.(string); ok && strings.Contains(s, "deadlock") {
				r.HarnessError("bubble deadlock at end of run: %v", s)
			}
			panic(p)
		}
	}()
	synctest.Test(t, func(t *testing.T) { simulate(r) })
}

func simulate(r *core.R) {
	start := time.Now()
	thorough := r.Tier == "thorough"
	big := r.Src.Chance(80, "big")
	universe := r.Src.Range(1, 8, "universe")
	maxBatch := r.Src.Range(1, 4, "max_batch")
	if big {
		r.Probe("big_run")
		universe = r.Src.Range(110, 260, "universe_big")
		maxBatch = r.Src.Range(20, 160, "max_batch_big")
	}
	nsteps := r.Src.Range(10, 150, "nsteps")
	if thorough {
		nsteps = r.Src.Range(10, 400, "nsteps_thorough")
	}
	wRestart := []int{0, 2, 6, 14}[r.Src.Intn(4, "restart_rate")]
	wSink := []int{1000, 40, 12, 3}[r.Src.Intn(4, "consumer_speed")] // 1000: effectively always drains first
	wMutate := r.Src.Range(4, 30, "mutate_rate")
	pDelete := r.Src.Range(100, 600, "delete_permille")
	maxLag := r.Src.Intn(12, "max_lag")
	if big {
		maxLag *= 10
	}
	r.Cfg("universe", universe)
	r.Cfg("nsteps", nsteps)
	r.Cfg("restart_weight", wRestart)
	r.Cfg("sink_weight", wSink)
	r.Cfg("max_lag", maxLag)
	r.Cfg("big", big)

	d := dedupebuffer.New()
	sk := &sink{r: r, keyIdx: map[model.Key]int{}, view: map[int]int{}}
	keys := make([]model.Key, universe)
	for i := range keys {
		keys[i] = mkKey(i)
		sk.keyIdx[keys[i]] = i
	}
	done := make(chan struct{})
	go func() {
		d.SendToSinkForever(sk)
		close(done)
	}()

	// upstream truth and its history
	var history []hev
	up := map[int]int{}
	ver := 0
	mutate := func() {
		k := r.Src.Intn(universe, "up_key")
		if _, ok := up[k]; ok && r.Src.Chance(pDelete, "up_delete") {
			delete(up, k)
			history = append(history, hev{k, 0})
			r.Op("upstream delete k%03d", k)
			return
		}
		ver++
		up[k] = ver
		history = append(history, hev{k, ver})
		r.Op("upstream set k%03d=v%d", k, ver)
	}
	// initial upstream contents
	for i, n := 0, r.Src.Intn(universe+1, "init_n"); i < n; i++ {
		mutate()
	}

	connID := 0
	newConn := func(first bool) *conn {
		connID++
		c := &conn{id: connID, view: map[int]int{}}
		if first {
			c.phase = 2
		}
		lag := 0
		if maxLag > 0 {
			lag = r.Src.Intn(maxLag+1, "lag")
		}
		if lag > len(history) {
			lag = len(history)
		}
		if lag > 0 {
			r.Fault("lagging_server")
		}
		c.pos = len(history) - lag
		state := map[int]int{}
		for _, e := range history[:c.pos] {
			if e.ver == 0 {
				delete(state, e.key)
			} else {
				state[e.key] = e.ver
			}
		}
		ks := make([]int, 0, len(state))
		for k := range state {
			ks = append(ks, k)
		}
		sort.Ints(ks)
		if len(ks) > 1 {
			rot := r.Src.Intn(len(ks), "snap_rot")
			ks = append(ks[rot:], ks[:rot]...)
			if r.Src.Chance(500, "snap_rev") {
				for i, j := 0, len(ks)-1; i < j; i, j = i+1, j-1 {
					ks[i], ks[j] = ks[j], ks[i]
				}
			}
		}
		for _, k := range ks {
			c.snap = append(c.snap, hev{k, state[k]})
		}
		c.insyncAt = r.Src.Intn(4, "insync_after_deltas")
		c.snapBatch = r.Src.Range(1, maxBatch, "snap_batch")
		r.Logf("conn %d: server at history %d/%d, snapshot {%s}", c.id, c.pos, len(history), fmtView(state))
		return c
	}

	mkUpdate := func(e hev) api.Update {
		if e.ver == 0 {
			return api.Update{KVPair: model.KVPair{Key: keys[e.key]}, UpdateType: api.UpdateTypeKVDeleted}
		}
		ut := api.UpdateTypeKVNew
		if r.Src.Chance(500, "upstream_type") {
			ut = api.UpdateTypeKVUpdated
		}
		return api.Update{KVPair: model.KVPair{Key: keys[e.key], Value: mkVal(e.ver), Revision: fmt.Sprint(e.ver)}, UpdateType: ut}
	}

	// A value the client could not parse (e.g. written by a newer Typha during a rolling upgrade) arrives as an
	// update of type new/updated whose Value is nil: for everything downstream the resource is absent.
	pUnparse := []int{0, 0, 20, 60}[r.Src.Intn(4, "p_unparseable")]
	unparseable := func(u api.Update) (api.Update, bool) {
		if u.Value == nil || pUnparse == 0 || !r.Src.Chance(pUnparse, "unparseable") {
			return u, false
		}
		r.Fault("unparseable_value")
		u.Value = nil
		return u, true
	}

	reportInSync := func(c *conn) {
		need := 0
		for k, v := range sk.view {
			cv, ok := c.view[k]
			if !ok {
				need++
			} else if cv < v {
				r.Probe("resync_value_regressed")
			}
		}
		if need > 0 && c.id > 1 {
			r.Probe("resync_needs_deletes")
		}
		r.Op("conn %d: OnStatusUpdated(InSync) view {%s}", c.id, fmtView(c.view))
		d.OnStatusUpdated(api.InSync)
		c.inSync = true
	}

	// producerStep performs the connection's next call.
	producerStep := func(c *conn) {
		switch c.phase {
		case 0:
			r.Op("conn %d: OnTyphaConnectionRestarted", c.id)
			d.OnTyphaConnectionRestarted()
			c.phase = 1
		case 1:
			r.Op("conn %d: OnStatusUpdated(WaitForDatastore)", c.id)
			d.OnStatusUpdated(api.WaitForDatastore)
			c.phase = 2
		case 2:
			r.Op("conn %d: OnStatusUpdated(ResyncInProgress)", c.id)
			d.OnStatusUpdated(api.ResyncInProgress)
			c.phase = 3
		case 3:
			if c.snapPos >= len(c.snap) {
				c.phase = 4
				if c.insyncAt == 0 {
					reportInSync(c)
					return
				}
				r.Op("conn %d: snapshot complete (%d KVs)", c.id, len(c.snap))
				return
			}
			n := r.Src.Range(1, c.snapBatch, "snap_n")
			var us []api.Update
			desc := ""
			for ; n > 0 && c.snapPos < len(c.snap); n-- {
				e := c.snap[c.snapPos]
				c.snapPos++
				u, gone := unparseable(mkUpdate(e))
				us = append(us, u)
				if gone {
					delete(c.view, e.key)
				} else {
					c.view[e.key] = e.ver
				}
				if len(us) <= 6 {
					desc += fmt.Sprintf("k%03d=v%d ", e.key, e.ver)
				}
			}
			r.Op("conn %d: snapshot OnUpdates(%d: %s)", c.id, len(us), desc)
			d.OnUpdates(us)
		case 4:
			if c.flapDue {
				c.flapDue = false
				reportInSync(c)
				return
			}
			if c.inSync && r.Src.Chance(40, "status_flap") {
				r.Fault("status_flap")
				r.Op("conn %d: OnStatusUpdated(ResyncInProgress) (server resyncs with its datastore)", c.id)
				d.OnStatusUpdated(api.ResyncInProgress)
				c.inSync = false
				c.flapDue = true
				return
			}
			if r.Src.Chance(30, "spurious_delete") {
				k := r.Src.Intn(universe, "spurious_key")
				if _, ok := c.view[k]; !ok {
					r.Fault("spurious_delete")
					r.Op("conn %d: delta OnUpdates(delete k%03d) for a key the connection never sent", c.id, k)
					d.OnUpdates([]api.Update{mkUpdate(hev{k, 0})})
					return
				}
			}
			if c.pos >= len(history) {
				mutate()
			}
			n := r.Src.Range(1, maxBatch, "delta_n")
			var us []api.Update
			desc := ""
			for ; n > 0 && c.pos < len(history); n-- {
				e := history[c.pos]
				c.pos++
				u, gone := unparseable(mkUpdate(e))
				us = append(us, u)
				if _, held := sk.view[e.key]; !held {
					if _, sent := c.view[e.key]; sent {
						if e.ver == 0 {
							r.Probe("delete_for_undelivered_key")
						} else {
							r.Probe("update_for_undelivered_key")
						}
					}
				}
				if e.ver == 0 || gone {
					delete(c.view, e.key)
				} else {
					c.view[e.key] = e.ver
				}
				if len(us) <= 6 {
					desc += fmt.Sprintf("k%03d=v%d ", e.key, e.ver)
				}
			}
			r.Op("conn %d: delta OnUpdates(%d: %s)", c.id, len(us), desc)
			d.OnUpdates(us)
			c.deltas++
			if !c.inSync && c.deltas >= c.insyncAt {
				c.flapDue = true // in-sync is the next call
			}
		}
	}

	releaseSink := func() {
		ch := sk.parkCh
		sk.parkCh = nil
		close(ch)
	}

	compare := func(c *conn, when string) {
		ks := map[int]bool{}
		for k := range sk.view {
			ks[k] = true
		}
		for k := range c.view {
			ks[k] = true
		}
		order := make([]int, 0, len(ks))
		for k := range ks {
			order = append(order, k)
		}
		sort.Ints(order)
		for _, k := range order {
			sv, sok := sk.view[k]
			cv, cok := c.view[k]
			switch {
			case sok && !cok:
				r.Violation("stale_key_not_deleted", "%s: connection %d is in sync and the buffer has drained, but the sink still holds k%03d=v%d which the connection's view lacks (sink {%s} conn {%s})", when, c.id, k, sv, fmtView(sk.view), fmtView(c.view))
			case !sok && cok:
				r.Violation("key_lost", "%s: connection %d is in sync and the buffer has drained, but the sink lacks k%03d=v%d (sink {%s} conn {%s})", when, c.id, k, cv, fmtView(sk.view), fmtView(c.view))
			case sv != cv:
				r.Violation("wrong_value", "%s: connection %d is in sync and the buffer has drained, but the sink holds k%03d=v%d, connection view v%d", when, c.id, k, sv, cv)
			}
		}
		r.Eval()
	}

	cur := newConn(true)
	for step := 0; step < nsteps; step++ {
		synctest.Wait()
		parked := sk.parkCh != nil
		if cur.inSync && !parked && cur.phase == 4 {
			r.Probe("drained_insync_check")
			compare(cur, fmt.Sprintf("step %d", step))
		}
		ws := 0
		if parked {
			ws = wSink
		}
		switch r.Src.Weighted([]int{50, ws, wMutate, wRestart}, "sched_step") {
		case 0:
			producerStep(cur)
		case 1:
			r.Fault("slow_consumer_step")
			r.Logf("release sink")
			releaseSink()
		case 2:
			mutate()
		case 3:
			switch {
			case cur.phase < 3:
				r.Fault("restart_before_handshake")
			case cur.phase == 3:
				r.Fault("restart_mid_snapshot")
			case !cur.inSync:
				r.Fault("restart_before_insync")
			default:
				r.Fault("restart_after_insync")
			}
			if parked {
				r.Probe("restart_while_sink_parked")
				r.Fault("restart_with_undelivered")
			}
			for k := range sk.view {
				if _, ok := up[k]; !ok {
					r.Probe("key_deleted_while_disconnected")
					break
				}
			}
			// upstream keeps changing while the client is disconnected
			for i, n := 0, r.Src.Intn(4, "offline_mutations"); i < n; i++ {
				mutate()
			}
			cur = newConn(false)
		}
	}

	// quiesce: the latest connection completes its snapshot and reports in-sync, the sink drains.
	if r.Src.Chance(60, "connect_fails_forever") && cur.phase < 2 {
		// the client gave up reconnecting: nothing to demand, only liveness of shutdown
		r.Fault("connect_fails_forever")
	} else {
		for guard := 0; !(cur.inSync && cur.phase == 4 && !cur.flapDue); guard++ {
			if guard > 100000 {
				r.HarnessError("latest connection never reached in-sync")
			}
			synctest.Wait()
			if sk.parkCh != nil && r.Src.Chance(300, "sched_quiesce_release") {
				releaseSink()
				continue
			}
			if cur.phase == 4 && !cur.flapDue {
				cur.flapDue = true // server reports in-sync now
			}
			producerStep(cur)
		}
		for guard := 0; ; guard++ {
			if guard > 100000 {
				r.HarnessError("sink never drained")
			}
			synctest.Wait()
			if sk.parkCh == nil {
				break
			}
			releaseSink()
		}
		compare(cur, "final")
		if sk.gotStat && sk.status == api.InSync {
			r.Probe("final_sink_insync")
		} else {
			r.Probe("final_sink_not_insync")
		}
	}

	// shut down: stop the consumer, never park again
	sk.stopping = true
	d.Stop()
	for {
		synctest.Wait()
		if sk.parkCh == nil {
			break
		}
		releaseSink()
	}
	<-done
	r.SimTime(time.Since(start))
	r.Fingerprint(fmt.Sprintf("%s|conns=%d|%s", fmtView(cur.view), connID, fmtView(sk.view)))
}
