// Engine authz (C34): the real AuthorizeTierOperation against a stub
// k8s authorizer whose three concurrent calls are parked and released in a
// seed-chosen order with seed-chosen decisions and errors.  A second build of
// this package with -race runs overlapping calls under real concurrency.
package h_authz

import (
	"context"
	"errors"
	"fmt"
	"os"
	"runtime"
	"sort"
	"sync"
	"testing"
	"testing/synctest"

	"k8s.io/apiserver/pkg/authentication/user"
	k8sauth "k8s.io/apiserver/pkg/authorization/authorizer"
	genericapirequest "k8s.io/apiserver/pkg/endpoints/request"

	"github.com/projectcalico/calico/apiserver/pkg/registry/projectcalico/authorizer"

	"verifsim/core"
)

func TestSim(t *testing.T) {
	core.Main(t, "authz", []string{"C34"}, func(r *core.R) {
		if os.Getenv("VERIF_RACE") != "" {
			runRace(r)
			return
		}
		synctest.Test(t, func(t *testing.T) { run(r) })
	})
}

type question struct{ resource, name, verb, ns string }

func (q question) String() string { return q.resource + "|" + q.name + "|" + q.verb + "|" + q.ns }

type answer struct {
	d   k8sauth.Decision
	err bool
}

type request struct {
	resource, name, verb, ns, tier string
}

var decisions = []k8sauth.Decision{k8sauth.DecisionDeny, k8sauth.DecisionAllow, k8sauth.DecisionNoOpinion}

// genRequest draws a request and a permission table covering the three
// questions the statement names plus nearby wrong questions.
func genRequest(r *core.R) (request, map[string]answer) {
	req := request{
		resource: []string{"globalnetworkpolicies", "networkpolicies", "stagednetworkpolicies", "stagedglobalnetworkpolicies"}[r.Src.Intn(4, "resource")],
		verb:     []string{"get", "create", "update", "delete", "list", "watch", "patch"}[r.Src.Intn(7, "verb")],
		tier:     []string{"default", "t1", "net-sec"}[r.Src.Intn(3, "tier")],
	}
	if req.resource == "networkpolicies" || req.resource == "stagednetworkpolicies" {
		req.ns = []string{"ns1", "prod"}[r.Src.Intn(2, "ns")]
	}
	switch r.Src.Intn(3, "namestyle") {
	case 0:
		req.name = req.tier + ".pol"
	case 1:
		req.name = "pol"
	case 2:
		req.name = "" // list/create style
	}
	table := map[string]answer{}
	bias := r.Src.Intn(4, "bias") // 0: uniform, 1: mostly allow, 2: mostly deny, 3: uniform
	draw := func() answer {
		var d k8sauth.Decision
		switch bias {
		case 1:
			d = []k8sauth.Decision{k8sauth.DecisionAllow, k8sauth.DecisionAllow, k8sauth.DecisionAllow, k8sauth.DecisionDeny, k8sauth.DecisionNoOpinion}[r.Src.Intn(5, "decision")]
		case 2:
			d = []k8sauth.Decision{k8sauth.DecisionDeny, k8sauth.DecisionDeny, k8sauth.DecisionNoOpinion, k8sauth.DecisionAllow}[r.Src.Intn(4, "decision")]
		default:
			d = decisions[r.Src.Intn(3, "decision")]
		}
		return answer{d: d, err: r.Src.Chance(150, "autherr")}
	}
	resources := []string{"tiers", "tier." + req.resource, req.resource}
	names := []string{req.tier, req.name, req.tier + ".*", "*", ""}
	verbs := []string{"get", req.verb}
	nss := []string{req.ns, ""}
	for _, res := range resources {
		for _, n := range names {
			for _, v := range verbs {
				for _, ns := range nss {
					q := question{res, n, v, ns}
					if _, ok := table[q.String()]; !ok {
						table[q.String()] = draw()
					}
				}
			}
		}
	}
	return req, table
}

func (q request) ctx() context.Context {
	ctx := genericapirequest.NewContext()
	ctx = genericapirequest.WithUser(ctx, &user.DefaultInfo{Name: "simuser", UID: "u1", Groups: []string{"g"}})
	path := "/apis/projectcalico.org/v3/"
	if q.ns != "" {
		ctx = genericapirequest.WithNamespace(ctx, q.ns)
		path += "namespaces/" + q.ns + "/"
	}
	path += q.resource
	if q.name != "" {
		path += "/" + q.name
	}
	ri := &genericapirequest.RequestInfo{IsResourceRequest: true, Path: path, Verb: q.verb, APIGroup: "projectcalico.org",
		APIVersion: "v3", Resource: q.resource, Namespace: q.ns, Name: q.name}
	return genericapirequest.WithRequestInfo(ctx, ri)
}

// expected restates the property: allowed iff the user may GET the tier and may
// perform the verb on the policy's name or on the tier wildcard.
func expected(req request, table map[string]answer) (bool, string) {
	get := table[question{"tiers", req.tier, "get", ""}.String()].d
	pol := table[question{"tier." + req.resource, req.name, req.verb, req.ns}.String()].d
	wild := table[question{"tier." + req.resource, req.tier + ".*", req.verb, req.ns}.String()].d
	ok := get == k8sauth.DecisionAllow && (pol == k8sauth.DecisionAllow || wild == k8sauth.DecisionAllow)
	return ok, fmt.Sprintf("getTier=%d policyName=%d tierWildcard=%d", get, pol, wild)
}

type parked struct {
	q       question
	release chan struct{}
}

type stubAuth struct {
	r      *core.R
	table  map[string]answer
	mu     sync.Mutex
	parked []*parked
	park   bool
	asked  []string
}

func (s *stubAuth) Authorize(ctx context.Context, a k8sauth.Attributes) (k8sauth.Decision, string, error) {
	q := question{a.GetResource(), a.GetName(), a.GetVerb(), a.GetNamespace()}
	if s.park {
		p := &parked{q: q, release: make(chan struct{})}
		s.mu.Lock()
		s.parked = append(s.parked, p)
		s.mu.Unlock()
		<-p.release
	} else {
		runtime.Gosched()
	}
	s.mu.Lock()
	s.asked = append(s.asked, q.String())
	s.mu.Unlock()
	if err := ctx.Err(); err != nil {
		// like the webhook / delegating authorizers: a cancelled request context is answered with no opinion and
		// the context's error (the caller of AuthorizeTierOperation never cancels the context in this harness)
		s.r.Probe("stub_saw_cancelled_context")
		return k8sauth.DecisionNoOpinion, "context cancelled", err
	}
	ans, ok := s.table[q.String()]
	if !ok {
		return k8sauth.DecisionDeny, "unknown question", nil
	}
	if ans.err {
		return ans.d, "injected", errors.New("injected authorizer error")
	}
	return ans.d, "", nil
}

func (s *stubAuth) ConditionsAwareAuthorize(ctx context.Context, a k8sauth.Attributes) k8sauth.ConditionsAwareDecision {
	return k8sauth.ConditionsAwareDecisionFromParts(s.Authorize(ctx, a))
}

func (s *stubAuth) EvaluateConditions(ctx context.Context, decision k8sauth.ConditionsAwareDecision, data k8sauth.ConditionsData) (k8sauth.Decision, string, error) {
	return k8sauth.DecisionDeny, "", k8sauth.ErrorConditionEvaluationNotSupported
}

func run(r *core.R) {
	r.FaultDecl("authorizer_error")
	r.ProbeDecl("stub_saw_cancelled_context", "allowed", "denied_no_tier_get", "denied_no_policy_access", "three_concurrent_calls", "error_with_allow")
	ncalls := r.Src.Range(1, 6, "ncalls")
	fp := ""
	for c := 0; c < ncalls; c++ {
		req, table := genRequest(r)
		want, why := expected(req, table)
		stub := &stubAuth{r: r, table: table, park: true}
		ta := authorizer.NewTierAuthorizer(stub)
		r.Op("AuthorizeTierOperation(resource=%s verb=%s ns=%q name=%q tier=%s) truth: %s", req.resource, req.verb, req.ns, req.name, req.tier, why)
		done := make(chan error, 1)
		go func() { done <- ta.AuthorizeTierOperation(req.ctx(), req.name, req.tier) }()
		var result error
		finished := false
		order := ""
		first := true
		for !finished {
			synctest.Wait()
			select {
			case result = <-done:
				finished = true
				continue
			default:
			}
			stub.mu.Lock()
			ps := stub.parked
			stub.mu.Unlock()
			if len(ps) == 0 {
				r.Violation("sut_deadlock", "AuthorizeTierOperation neither returned nor asked the authorizer")
			}
			if first && len(ps) == 3 {
				r.Probe("three_concurrent_calls")
			}
			first = false
			sort.Slice(ps, func(i, j int) bool { return ps[i].q.String() < ps[j].q.String() })
			i := r.Src.Intn(len(ps), "sched_release")
			p := ps[i]
			order += p.q.resource + ":" + p.q.name + ";"
			if table[p.q.String()].err {
				r.Fault("authorizer_error")
				if table[p.q.String()].d == k8sauth.DecisionAllow {
					r.Probe("error_with_allow")
				}
			}
			stub.mu.Lock()
			rest := stub.parked[:0]
			for _, x := range stub.parked {
				if x != p {
					rest = append(rest, x)
				}
			}
			stub.parked = rest
			stub.mu.Unlock()
			r.Logf("release %s", p.q)
			close(p.release)
		}
		got := result == nil
		r.Check("decision", got == want, "request %+v: allowed=%v but the statement's boolean says %v (%s); release order %s; error=%v", req, got, want, why, order, result)
		if got {
			r.Probe("allowed")
		} else if table[question{"tiers", req.tier, "get", ""}.String()].d != k8sauth.DecisionAllow {
			r.Probe("denied_no_tier_get")
		} else {
			r.Probe("denied_no_policy_access")
		}
		fp += fmt.Sprintf("%s|%s|%v;", why, order, got)
	}
	r.Fingerprint(fp)
}

// runRace is the -race companion: many overlapping calls under real
// concurrency; the race detector halts the process on any report.
func runRace(r *core.R) {
	r.Cfg("mode", "race")
	ncalls := 40
	type job struct {
		req   request
		table map[string]answer
	}
	jobs := make([]job, ncalls)
	for i := range jobs {
		jobs[i].req, jobs[i].table = genRequest(r)
	}
	var wg sync.WaitGroup
	errs := make([]string, ncalls)
	for i := range jobs {
		wg.Add(1)
		go func(i int) {
			defer wg.Done()
			j := jobs[i]
			stub := &stubAuth{r: r, table: j.table}
			err := authorizer.NewTierAuthorizer(stub).AuthorizeTierOperation(j.req.ctx(), j.req.name, j.req.tier)
			want, why := expected(j.req, j.table)
			if (err == nil) != want {
				errs[i] = fmt.Sprintf("request %+v: allowed=%v want %v (%s)", j.req, err == nil, want, why)
			}
		}(i)
	}
	wg.Wait()
	for i, e := range errs {
		r.Op("race call %d", i)
		r.Check("decision", e == "", "%s", e)
	}
	r.Fingerprint("race")
}
