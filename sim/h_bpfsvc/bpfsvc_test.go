// Engine bpfsvc (C42): the real proxy.Syncer + cachingmap over simulator-owned
// in-memory NAT maps.  Histories of Kubernetes service / endpoint states are
// applied with Syncer.Apply; an observer checks after EVERY single map write
// that no frontend refers to a missing backend; crash points (abandon the
// syncer after write k, restart a fresh one over the surviving maps) are
// enumerated; a final oracle compares the maps with the service semantics.
package h_bpfsvc

import (
	"fmt"
	"net"
	"testing"

	"github.com/projectcalico/calico/felix/bpf/nat"
	"github.com/projectcalico/calico/felix/bpf/proxy"

	"verifsim/core"
)

func TestSim(t *testing.T) {
	core.Main(t, "bpfsvc", []string{"C42"}, run)
}

type feat struct {
	ext, lb, nodePort, policy, aff, hints, multiPort, udp, term bool
}

type harness struct {
	r      *core.R
	ft     feat
	npIPs  []net.IP
	nextIP [3]int
	hist   []*kState
	ps     []*proxy.DPSyncerState
	baseW  []int // writes of step j in the fault-free baseline
}

var clusterPool = []string{"10.96.0.1", "10.96.0.2", "10.96.0.3", "10.96.0.4", "10.96.0.5", "10.96.0.6"}
var extPool = []string{"172.30.0.1", "172.30.0.2", "172.30.0.3", "172.30.0.4"}
var lbPool = []string{"35.1.0.1", "35.1.0.2", "35.1.0.3", "35.1.0.4"}
var portPool = []int{80, 443, 53, 8080}
var nodePortPool = []int{30001, 30002, 30003, 30004, 30005, 30006, 30007, 30008}

// ---- generator of Kubernetes-level states

func (h *harness) freeStr(st *kState, pool []string, used func(*kSvc) []string, label string) (string, bool) {
	taken := map[string]bool{}
	for _, s := range st.live() {
		for _, x := range used(s) {
			taken[x] = true
		}
	}
	var free []string
	for _, x := range pool {
		if !taken[x] {
			free = append(free, x)
		}
	}
	if len(free) == 0 {
		return "", false
	}
	return free[h.r.Src.Intn(len(free), label)], true
}

func (h *harness) freeNodePort(st *kState, also []int) int {
	taken := map[int]bool{}
	for _, s := range st.live() {
		for _, p := range s.ports {
			taken[p.nodePort] = true
		}
	}
	for _, x := range also {
		taken[x] = true
	}
	var free []int
	for _, x := range nodePortPool {
		if !taken[x] {
			free = append(free, x)
		}
	}
	if len(free) == 0 {
		return 0
	}
	return free[h.r.Src.Intn(len(free), "nodeport")]
}

func (h *harness) newEp(s *kSvc) kEp {
	src := h.r.Src
	node := src.Weighted([]int{4, 3, 2}, "ep_node")
	h.nextIP[node]++
	e := kEp{ip: fmt.Sprintf("10.65.%d.%d", node, h.nextIP[node]), node: node, ready: true, serving: true}
	if src.Chance(250, "ep_notready") {
		e.ready, e.serving = false, false
	}
	e.hint = nodeZones[node]
	if h.ft.hints && src.Chance(250, "ep_hint_other") {
		e.hint = []string{"z0", "z1"}[src.Intn(2, "ep_hint_zone")]
	}
	return e
}

func (h *harness) assignNodePorts(st *kState, s *kSvc) {
	var mine []int
	for i := range s.ports {
		if s.ports[i].nodePort == 0 {
			s.ports[i].nodePort = h.freeNodePort(st, mine)
		}
		mine = append(mine, s.ports[i].nodePort)
	}
}

func (h *harness) newPort(s *kSvc) (kPort, bool) {
	used := map[int]bool{}
	for _, p := range s.ports {
		used[p.port] = true
	}
	var free []int
	for _, x := range portPool {
		if !used[x] {
			free = append(free, x)
		}
	}
	if len(free) == 0 {
		return kPort{}, false
	}
	p := kPort{name: fmt.Sprintf("p%d", len(s.ports)), port: free[h.r.Src.Intn(len(free), "port")], target: 8000 + h.r.Src.Intn(3, "target")}
	for _, q := range s.ports {
		if q.name == p.name {
			p.name = fmt.Sprintf("q%d", p.port)
		}
	}
	if h.ft.udp && h.r.Src.Chance(250, "udp") {
		p.udp = true
	}
	return p, true
}

func (h *harness) addService(st *kState, slot int) string {
	src := h.r.Src
	cip, ok := h.freeStr(st, clusterPool, func(s *kSvc) []string { return []string{s.clusterIP} }, "cluster_ip")
	if !ok {
		return "no free cluster IP"
	}
	s := &kSvc{name: fmt.Sprintf("svc%d", slot), clusterIP: cip}
	p, _ := h.newPort(s)
	s.ports = append(s.ports, p)
	if h.ft.multiPort && src.Chance(300, "second_port") {
		if p2, ok := h.newPort(s); ok {
			s.ports = append(s.ports, p2)
		}
	}
	tw := []int{5, 0, 0}
	if h.ft.nodePort {
		tw[1] = 3
	}
	if h.ft.lb {
		tw[2] = 3
	}
	s.typ = src.Weighted(tw, "svc_type")
	st.slots[slot] = s
	if s.typ != tClusterIP {
		h.assignNodePorts(st, s)
	}
	if s.typ == tLoadBalancer {
		for i, n := 0, src.Intn(3, "n_lb"); i < n; i++ {
			if x, ok := h.freeStr(st, lbPool, func(s *kSvc) []string { return s.lb }, "lb_ip"); ok {
				s.lb = append(s.lb, x)
			}
		}
	}
	if h.ft.ext {
		for i, n := 0, src.Weighted([]int{5, 3, 1}, "n_ext"); i < n; i++ {
			if x, ok := h.freeStr(st, extPool, func(s *kSvc) []string { return s.ext }, "ext_ip"); ok {
				s.ext = append(s.ext, x)
			}
		}
	}
	if h.ft.policy {
		s.etpLocal = src.Chance(350, "etp_local")
		s.itpLocal = src.Chance(250, "itp_local")
	}
	if h.ft.aff && src.Chance(200, "affinity") {
		s.aff = 10800
	}
	if h.ft.hints && src.Chance(350, "hints") {
		s.hints = true
		s.topoAuto = src.Chance(500, "topo_auto")
	}
	for i, n := 0, src.Weighted([]int{1, 3, 3, 2, 1}, "n_eps"); i < n; i++ {
		s.eps = append(s.eps, h.newEp(s))
	}
	return "add " + s.String()
}

func (h *harness) pickLive(st *kState) *kSvc {
	l := st.live()
	if len(l) == 0 {
		return nil
	}
	return l[h.r.Src.Intn(len(l), "svc")]
}

func remove(xs []string, i int) []string {
	return append(append([]string(nil), xs[:i]...), xs[i+1:]...)
}

func (h *harness) changeSpec(st *kState, s *kSvc) string {
	src := h.r.Src
	w := []int{3, 2, 2, 3, 3, 2, 2, 1, 2, 2}
	if !h.ft.policy {
		w[0], w[1] = 0, 0
	}
	if !h.ft.aff {
		w[2] = 0
	}
	if !h.ft.nodePort && !h.ft.lb {
		w[3], w[6] = 0, 0
	}
	if !h.ft.ext {
		w[4] = 0
	}
	if !h.ft.lb {
		w[5] = 0
	}
	if !h.ft.hints {
		w[8] = 0
	}
	if !h.ft.multiPort {
		w[9] = 0
	}
	switch src.Weighted(w, "spec_field") {
	case 0:
		s.etpLocal = !s.etpLocal
		return fmt.Sprintf("%s externalTrafficPolicy local=%v", s.name, s.etpLocal)
	case 1:
		s.itpLocal = !s.itpLocal
		return fmt.Sprintf("%s internalTrafficPolicy local=%v", s.name, s.itpLocal)
	case 2:
		switch s.aff {
		case 0:
			s.aff = 10800
		case 10800:
			s.aff = 60
		default:
			s.aff = 0
		}
		return fmt.Sprintf("%s sessionAffinity timeout=%d", s.name, s.aff)
	case 3:
		var cand []int
		for _, t := range []int{tClusterIP, tNodePort, tLoadBalancer} {
			if t == s.typ || (t == tNodePort && !h.ft.nodePort) || (t == tLoadBalancer && !h.ft.lb) {
				continue
			}
			cand = append(cand, t)
		}
		if len(cand) == 0 {
			return s.name + " type unchanged"
		}
		s.typ = cand[src.Intn(len(cand), "new_type")]
		if s.typ == tClusterIP {
			for i := range s.ports {
				s.ports[i].nodePort = 0
			}
		} else {
			h.assignNodePorts(st, s)
		}
		if s.typ != tLoadBalancer {
			s.lb = nil
		}
		return fmt.Sprintf("%s type -> %d", s.name, s.typ)
	case 4:
		if len(s.ext) > 0 && src.Chance(500, "ext_remove") {
			i := src.Intn(len(s.ext), "ext_idx")
			x := s.ext[i]
			s.ext = remove(s.ext, i)
			return fmt.Sprintf("%s remove externalIP %s", s.name, x)
		}
		if x, ok := h.freeStr(st, extPool, func(s *kSvc) []string { return s.ext }, "ext_ip"); ok {
			s.ext = append(s.ext, x)
			return fmt.Sprintf("%s add externalIP %s", s.name, x)
		}
		return "no free external IP"
	case 5:
		if s.typ != tLoadBalancer {
			return s.name + " not a LoadBalancer"
		}
		if len(s.lb) > 0 && src.Chance(500, "lb_remove") {
			i := src.Intn(len(s.lb), "lb_idx")
			x := s.lb[i]
			s.lb = remove(s.lb, i)
			return fmt.Sprintf("%s remove LB IP %s", s.name, x)
		}
		if x, ok := h.freeStr(st, lbPool, func(s *kSvc) []string { return s.lb }, "lb_ip"); ok {
			s.lb = append(s.lb, x)
			return fmt.Sprintf("%s add LB IP %s", s.name, x)
		}
		return "no free LB IP"
	case 6:
		if s.typ == tClusterIP {
			return s.name + " has no node port"
		}
		i := src.Intn(len(s.ports), "port_idx")
		if np := h.freeNodePort(st, nil); np != 0 {
			s.ports[i].nodePort = np
			return fmt.Sprintf("%s port %s nodePort -> %d", s.name, s.ports[i].name, np)
		}
		return "no free node port"
	case 7:
		if x, ok := h.freeStr(st, clusterPool, func(s *kSvc) []string { return []string{s.clusterIP} }, "cluster_ip"); ok {
			s.clusterIP = x
			return fmt.Sprintf("%s recreated with clusterIP %s", s.name, x)
		}
		return "no free cluster IP"
	case 8:
		if s.hints && src.Chance(500, "topo_toggle") {
			s.topoAuto = !s.topoAuto
			return fmt.Sprintf("%s topology-mode auto=%v", s.name, s.topoAuto)
		}
		s.hints = !s.hints
		return fmt.Sprintf("%s endpoint hints=%v", s.name, s.hints)
	default:
		if len(s.ports) > 1 {
			i := src.Intn(len(s.ports), "port_idx")
			nm := s.ports[i].name
			s.ports = append(append([]kPort(nil), s.ports[:i]...), s.ports[i+1:]...)
			return fmt.Sprintf("%s remove port %s", s.name, nm)
		}
		if p, ok := h.newPort(s); ok {
			if s.typ != tClusterIP {
				p.nodePort = h.freeNodePort(st, nil)
			}
			s.ports = append(s.ports, p)
			return fmt.Sprintf("%s add port %s:%d", s.name, p.name, p.port)
		}
		return "no free port"
	}
}

func (h *harness) mutate(st *kState) string {
	src := h.r.Src
	var freeSlots []int
	for i, s := range st.slots {
		if s == nil {
			freeSlots = append(freeSlots, i)
		}
	}
	if len(st.live()) == 0 {
		return h.addService(st, freeSlots[src.Intn(len(freeSlots), "slot")])
	}
	w := []int{3, 5, 5, 3, 2, 5, 2}
	if len(freeSlots) == 0 {
		w[0] = 0
	}
	if !h.ft.term {
		w[6] = 0
	}
	switch src.Weighted(w, "mutation") {
	case 0:
		return h.addService(st, freeSlots[src.Intn(len(freeSlots), "slot")])
	case 1:
		s := h.pickLive(st)
		e := h.newEp(s)
		s.eps = append(s.eps, e)
		return fmt.Sprintf("%s add endpoint %s@n%d ready=%v", s.name, e.ip, e.node, e.ready)
	case 2:
		s := h.pickLive(st)
		if len(s.eps) == 0 {
			return s.name + " has no endpoints"
		}
		i := src.Intn(len(s.eps), "ep_idx")
		if s.eps[i].term {
			return s.name + " endpoint is terminating"
		}
		s.eps[i].ready = !s.eps[i].ready
		s.eps[i].serving = s.eps[i].ready
		return fmt.Sprintf("%s endpoint %s ready=%v", s.name, s.eps[i].ip, s.eps[i].ready)
	case 3:
		s := h.pickLive(st)
		if len(s.eps) == 0 {
			return s.name + " has no endpoints"
		}
		i := src.Intn(len(s.eps), "ep_idx")
		ipa := s.eps[i].ip
		s.eps = append(append([]kEp(nil), s.eps[:i]...), s.eps[i+1:]...)
		return fmt.Sprintf("%s remove endpoint %s", s.name, ipa)
	case 4:
		s := h.pickLive(st)
		for i := range st.slots {
			if st.slots[i] == s {
				st.slots[i] = nil
			}
		}
		return "delete " + s.name
	case 5:
		s := h.pickLive(st)
		return h.changeSpec(st, s)
	default:
		s := h.pickLive(st)
		if len(s.eps) == 0 {
			return s.name + " has no endpoints"
		}
		i := src.Intn(len(s.eps), "ep_idx")
		s.eps[i].term, s.eps[i].ready = true, false
		s.eps[i].serving = src.Chance(500, "term_serving")
		s.eps[i].noHint = src.Chance(500, "term_drops_hint")
		return fmt.Sprintf("%s endpoint %s terminating serving=%v", s.name, s.eps[i].ip, s.eps[i].serving)
	}
}

// ---- driving the syncer

func (h *harness) newSyncer(w *world) *proxy.Syncer {
	s, err := proxy.NewSyncer(4, h.npIPs, w.fe, w.be, w.mg, w.aff, w.rt, nil, 31, 0)
	if err != nil {
		h.r.HarnessError("NewSyncer: %v", err)
	}
	return s
}

func (h *harness) apply(w *world, s *proxy.Syncer, j int, label string) error {
	if h.ps[j] == nil {
		ps := h.hist[j].toProxyState()
		h.ps[j] = &ps
	}
	w.beginApply(label)
	if !w.quiet {
		h.r.Logf("%s: Apply(T%d)", label, j)
	}
	err := s.Apply(*h.ps[j])
	if !w.quiet {
		h.r.Logf("%s: Apply(T%d) -> err=%v writes=%d", label, j, err != nil, w.stepW)
	}
	return err
}

func (h *harness) mustApply(w *world, s *proxy.Syncer, j int, label string) {
	err := h.apply(w, s, j, label)
	h.r.Check("faultfree_apply_ok", err == nil, "%s: fault-free Apply(T%d) failed: %v\nstate: %s\nrecent writes:\n%s", label, j, err, h.hist[j], w.recent())
	finalOracle(h.r, w, h.hist[j], h.npIPs, fmt.Sprintf("%s after Apply(T%d)", label, j))
}

func (h *harness) addAffinityJunk(w *world, n int) {
	for i := 0; i < n; i++ {
		fk := nat.NewNATKey(net.ParseIP(fmt.Sprintf("10.99.9.%d", i+1)), 7777, 6)
		ak := nat.NewAffinityKey(net.ParseIP(fmt.Sprintf("10.65.0.%d", 200+i)), fk)
		av := nat.NewAffinityValue(0, nat.NewNATBackendValue(net.ParseIP("10.65.1.250"), 1))
		w.aff.kv[string(ak.AsBytes())] = append([]byte(nil), av.AsBytes()...)
	}
}

func (h *harness) probesForStep(j int) {
	r := h.r
	cur := expected(h.hist[j], h.npIPs)
	for _, e := range cur {
		if len(e.local) > 0 && len(e.remote) > 0 {
			r.Probe("frontend_local_and_remote")
		}
		if e.need != 0 {
			r.Probe("frontend_policy_local")
		}
		if e.optional {
			r.Probe("nodeport_remote_frontend")
		}
		if e.extIPType && h.hist[j].svcByPort(e.svc).etpLocal {
			r.Probe("externalip_with_etp_local_unclaimed")
		}
	}
	for _, s := range h.hist[j].live() {
		if _, f := s.selected(); f {
			r.Probe("topology_filtered")
		}
		if z, c := s.knownShapes(); z || c {
			if z {
				r.Probe("known_defect_precondition_zero_backends")
			}
			if c {
				r.Probe("known_defect_precondition_changed_selection")
			}
		}
		for _, e := range s.eps {
			if e.term {
				r.Probe("terminating_endpoint")
			}
		}
	}
	if j == 0 {
		return
	}
	prev := expected(h.hist[j-1], h.npIPs)
	for k, e := range cur {
		p, ok := prev[k]
		if !ok {
			continue
		}
		if p.svc != e.svc {
			r.Probe("frontend_moved_between_services")
		}
		np, nc := len(p.local)+len(p.remote), len(e.local)+len(e.remote)
		if nc > np {
			r.Probe("backend_count_grew")
		}
		if nc < np {
			r.Probe("backend_count_shrank")
		}
	}
	for k, p := range prev {
		if _, ok := cur[k]; !ok && len(p.local)+len(p.remote) > 0 {
			r.Probe("frontend_removed_with_backends")
		}
	}
}

func (st *kState) svcByPort(sp string) *kSvc {
	for _, s := range st.live() {
		if len(sp) > len(s.name) && sp[:len(s.name)+1] == s.name+"/" {
			return s
		}
	}
	return &kSvc{}
}

func feIDs(w *world) map[string]uint32 {
	out := map[string]uint32{}
	for k, v := range w.fe.kv {
		out[k] = nat.FrontendValueFromBytes(v).ID()
	}
	return out
}

func run(r *core.R) {
	r.FaultDecl("write_error_transient", "write_error_sticky", "delete_error_transient", "delete_error_sticky",
		"iter_error_fe", "iter_error_be", "iter_error_aff", "crash_after_write", "restart_clean")
	r.ProbeDecl("frontend_local_and_remote", "frontend_policy_local", "nodeport_remote_frontend", "topology_filtered",
		"terminating_endpoint", "frontend_moved_between_services", "backend_count_grew", "backend_count_shrank",
		"frontend_removed_with_backends", "service_id_changed", "apply_failed_then_retried", "apply_ok_despite_injected_error",
		"restart_resync_no_writes", "restart_resync_rewrote", "crash_in_backend_update", "crash_in_frontend_update",
		"crash_in_frontend_delete", "crash_in_backend_delete", "crash_in_affinity_cleanup", "crash_left_orphan_backends",
		"crash_recovery_newer_state", "crash_point_not_reached", "sticky_key_failed_again",
		"externalip_with_etp_local_unclaimed", "enumerated_crash_points", "enum_crash_point_not_reached",
		"known_defect_precondition_zero_backends", "known_defect_precondition_changed_selection")
	src := r.Src
	h := &harness{r: r}
	thorough := r.Tier == "thorough"

	// swarm configuration
	nSlots := src.Range(1, 5, "n_slots")
	nSteps := src.Range(2, 8, "n_steps")
	if thorough {
		nSteps = src.Range(3, 12, "n_steps_thorough")
	}
	fb := func(p int, l string) bool { return src.Chance(p, l) }
	h.ft = feat{ext: fb(600, "ft_ext"), lb: fb(500, "ft_lb"), nodePort: fb(650, "ft_nodeport"), policy: fb(650, "ft_policy"),
		aff: fb(300, "ft_aff"), hints: fb(300, "ft_hints"), multiPort: fb(350, "ft_multiport"), udp: fb(300, "ft_udp"), term: fb(350, "ft_term")}
	h.npIPs = []net.IP{net.ParseIP(nodeIP(0)), net.ParseIP(npMeta)}
	if src.Chance(300, "second_node_ip") {
		h.npIPs = append(h.npIPs, net.ParseIP("10.123.0.1"))
	}
	pUpd := src.Weighted([]int{2, 3, 3, 2}, "p_upd")
	pUpd = []int{0, 30, 80, 200}[pUpd]
	pDel := []int{0, 30, 80, 200}[src.Weighted([]int{2, 3, 3, 2}, "p_del")]
	r.Cfg("n_slots", nSlots)
	r.Cfg("n_steps", nSteps)
	r.Cfg("features", fmt.Sprintf("%+v", h.ft))
	r.Cfg("node_port_ips", len(h.npIPs))
	r.Cfg("p_upd", pUpd)
	r.Cfg("p_del", pDel)

	// ---- 1. generate the history of Kubernetes-level states
	st := &kState{slots: make([]*kSvc, nSlots)}
	for j := 0; j < nSteps; j++ {
		nm := src.Weighted([]int{5, 3, 2, 1}, "n_mutations") + 1
		if j == 0 {
			nm += src.Intn(4, "n_initial")
		}
		for m := 0; m < nm; m++ {
			r.Op("T%d: %s", j, h.mutate(st))
		}
		h.hist = append(h.hist, st.clone())
	}
	h.ps = make([]*proxy.DPSyncerState, len(h.hist))
	for j := range h.hist {
		h.probesForStep(j)
	}

	// ---- 2. fault-free baseline: one syncer, every state applied in turn
	w := newWorld(r)
	s := h.newSyncer(w)
	for j := range h.hist {
		before := feIDs(w)
		h.mustApply(w, s, j, "baseline")
		h.baseW = append(h.baseW, w.stepW)
		for _, k := range sortedKeys(w.fe.kv) {
			if id, ok := before[k]; ok && id != nat.FrontendValueFromBytes(w.fe.kv[k]).ID() {
				r.Probe("service_id_changed")
			}
		}
	}
	// an in-sync Apply is legal input too
	h.mustApply(w, s, len(h.hist)-1, "baseline-repeat")
	s.Stop()
	baseFinal := w.contentHash()

	// ---- 3. chaos: write / delete / iterate errors with retry, clean restarts, crashes
	w = newWorld(r)
	w.pUpd, w.pDel = pUpd, pDel
	s = h.newSyncer(w)
	crashes := 0
	for j := range h.hist {
		mode := src.Weighted([]int{4, 4, 1, 1, 2, 3}, "chaos_mode")
		if src.Chance(150, "aff_junk") {
			h.addAffinityJunk(w, 1+src.Intn(3, "aff_junk_n"))
		}
		label := fmt.Sprintf("chaos[%d]", j)
		switch mode {
		case 1:
			w.faultsOn = pUpd+pDel > 0
		case 2:
			// restart whose initial load of the maps fails (possibly after yielding some entries)
			r.Fault("restart_clean")
			s.Stop()
			s = h.newSyncer(w)
			m := []mapKind{kBE, kFE}[src.Intn(2, "iter_fail_map")]
			w.iterFail[m] = 1
			w.iterFailAt = src.Intn(4, "iter_fail_at")
		case 3:
			w.iterFail[kAFF] = 1
			w.iterFailAt = src.Intn(3, "iter_fail_at")
		case 4:
			r.Fault("restart_clean")
			r.Logf("%s: clean restart: fresh syncer over the existing maps", label)
			s.Stop()
			s = h.newSyncer(w)
		case 5:
			w.crashAt = src.Range(1, h.baseW[j]+2, "crash_at")
		}
		wBefore := w.totalW
		err := h.apply(w, s, j, label)
		if mode == 4 && err == nil && j > 0 && h.hist[j].String() == h.hist[j-1].String() {
			if w.totalW == wBefore {
				r.Probe("restart_resync_no_writes")
			} else {
				r.Probe("restart_resync_rewrote")
			}
		}
		if w.crashAt > 0 {
			if !w.crashed {
				r.Probe("crash_point_not_reached")
				w.crashAt = 0
			} else {
				crashes++
				h.recordCrash(w)
				// the process is gone; a new one starts over the surviving maps
				s.Stop()
				w.crashed, w.crashAt = false, 0
				s = h.newSyncer(w)
				tj := j
				if j+1 < len(h.hist) && src.Chance(300, "recover_newer") {
					// the restarted process sees a newer state first; the loop then re-applies j+1 (no-op)
					tj = j + 1
					r.Probe("crash_recovery_newer_state")
				}
				h.mustApply(w, s, tj, label+"-recovery")
				if tj != j {
					continue
				}
				err = nil
			}
		}
		if err == nil {
			if w.failedIO > 0 {
				r.Probe("apply_ok_despite_injected_error")
			}
			w.faultsOn = false
			finalOracle(r, w, h.hist[j], h.npIPs, fmt.Sprintf("%s after successful Apply(T%d)", label, j))
			continue
		}
		// failed Apply: retry (the proxy's runner does), faults stay on for a bounded number of attempts
		for attempt := 1; ; attempt++ {
			r.Probe("apply_failed_then_retried")
			if attempt >= 3 {
				w.faultsOn = false
				w.iterFail = map[mapKind]int{}
			}
			err = h.apply(w, s, j, fmt.Sprintf("%s-retry%d", label, attempt))
			if err == nil {
				w.faultsOn = false
				finalOracle(r, w, h.hist[j], h.npIPs, fmt.Sprintf("%s retry %d after Apply(T%d)", label, attempt, j))
				break
			}
			r.Check("faultfree_apply_ok", w.faultsOn || attempt < 3, "%s: fault-free retry of Apply(T%d) failed: %v\nrecent writes:\n%s", label, j, err, w.recent())
		}
	}
	// quiesce
	w.faultsOn = false
	w.iterFail = map[mapKind]int{}
	h.mustApply(w, s, len(h.hist)-1, "quiesce")
	s.Stop()
	chaosFinal := w.contentHash()

	// ---- 4. crash-point enumeration: for step j, every k in 1..W_j: rebuild the world by replaying
	// T0..T(j-1) fault-free, crash Apply(Tj) after its k-th write, restart over the surviving maps.
	var steps []int
	if thorough {
		for j := range h.hist {
			steps = append(steps, j)
		}
	} else {
		// quick: every crash point of up to three seed-chosen steps
		p := src.Perm(len(h.hist), "enum_step")
		for i := 0; i < len(p) && i < 3; i++ {
			steps = append(steps, p[i])
		}
	}
	enumerated := 0
	for _, j := range steps {
		targets := []int{j}
		if j+1 < len(h.hist) {
			if thorough {
				targets = append(targets, j+1)
			} else if src.Chance(400, "enum_recover_newer") {
				targets = []int{j + 1}
			}
		}
		for _, tj := range targets {
			sum := ""
			for k := 1; k <= h.baseW[j]; k++ {
				cw := newWorld(r)
				cw.quiet = true
				cs := h.newSyncer(cw)
				for i := 0; i < j; i++ {
					if err := h.apply(cw, cs, i, "enum-replay"); err != nil {
						r.Violation("faultfree_apply_ok", "enum replay of T%d failed: %v", i, err)
					}
				}
				cw.crashAt = k
				label := fmt.Sprintf("enum[T%d crash@%d/%d -> T%d]", j, k, h.baseW[j], tj)
				_ = h.apply(cw, cs, j, label)
				if !cw.crashed {
					r.Probe("enum_crash_point_not_reached")
				} else {
					h.recordCrash(cw)
				}
				cs.Stop()
				cw.crashed, cw.crashAt = false, 0
				cs = h.newSyncer(cw)
				h.mustApply(cw, cs, tj, label+" recovery")
				cs.Stop()
				enumerated++
				r.Probe("enumerated_crash_points")
				sum += fmt.Sprintf("%d:%d ", k, cw.totalW)
			}
			r.Logf("enum T%d -> T%d: W=%d (k:total writes) %s", j, tj, h.baseW[j], sum)
		}
	}
	r.Cfg("crash_points_enumerated", enumerated)
	r.Fingerprint(h.hist[len(h.hist)-1].String() + fmt.Sprintf("|crashes=%d", crashes))
	r.Logf("final: baseline=%x chaos=%x", fnv32(baseFinal), fnv32(chaosFinal))
}

func fnv32(s string) uint32 {
	h := uint32(2166136261)
	for i := 0; i < len(s); i++ {
		h ^= uint32(s[i])
		h *= 16777619
	}
	return h
}

func (h *harness) recordCrash(w *world) {
	r := h.r
	switch {
	case w.crashKind == kBE && !w.crashDel:
		r.Probe("crash_in_backend_update")
	case w.crashKind == kBE && w.crashDel:
		r.Probe("crash_in_backend_delete")
	case w.crashKind == kFE && !w.crashDel:
		r.Probe("crash_in_frontend_update")
	case w.crashKind == kFE && w.crashDel:
		r.Probe("crash_in_frontend_delete")
	case w.crashKind == kAFF:
		r.Probe("crash_in_affinity_cleanup")
	}
	// orphan backends: present but covered by no frontend
	ref := map[string]bool{}
	for _, v := range w.fe.kv {
		val := nat.FrontendValueFromBytes(v)
		if val.Count() == nat.BlackHoleCount {
			continue
		}
		for i := uint32(0); i < val.Count(); i++ {
			ref[string(nat.NewNATBackendKey(val.ID(), i).AsBytes())] = true
		}
	}
	for k := range w.be.kv {
		if !ref[k] {
			r.Probe("crash_left_orphan_backends")
			break
		}
	}
}
