package h_bpfsvc

// Simulator-owned in-memory BPF maps (stub of the kernel side).  They implement
// maps.MapWithExistsCheck, iterate deterministically, log every write, inject
// write/delete/iterate errors, model a process crash ("all further I/O from this
// syncer is lost") and call the observer after EVERY single successful write or
// delete.  They deliberately do NOT implement maps.RawBatchOps: with CGO
// disabled the kernel batch probe panics, and without it TypedMap falls back to
// one Update/Delete call per entry, which is what lets us observe the maps
// between any two entries of a batch.

import (
	"encoding/hex"
	"errors"
	"fmt"
	"sort"

	"golang.org/x/sys/unix"

	"github.com/projectcalico/calico/felix/bpf/maps"
	"github.com/projectcalico/calico/felix/bpf/nat"
	"github.com/projectcalico/calico/felix/bpf/routes"
	"github.com/projectcalico/calico/felix/ip"

	"context"

	"verifsim/core"
)

type mapKind int

const (
	kFE mapKind = iota
	kBE
	kMG
	kAFF
)

var kindName = []string{"fe", "be", "mglv", "aff"}

var errInjected = errors.New("injected EIO")
var errCrashed = errors.New("process crashed: I/O lost")

type world struct {
	r   *core.R
	fe  *simMap
	be  *simMap
	mg  *simMap
	aff *simMap
	rt  *simRoutes

	label      string // current Apply, for messages
	totalW     int    // successful writes since the world was created
	stepW      int    // successful writes of the current Apply
	stepFEBE   int    // ... of which to the frontend/backend maps
	ring       []string
	quiet      bool // do not log every write (crash enumeration); the ring is still kept
	crashAt    int  // crash after this many successful writes of the current Apply (0: never)
	crashed    bool
	crashKind  mapKind
	crashDel   bool
	lost       int // I/O attempts lost after the crash
	faultsOn   bool
	pUpd, pDel int
	sticky     map[string]bool
	iterFail   map[mapKind]int // fail the next n Iter calls of that map ...
	iterFailAt int             // ... after yielding this many entries
	failedIO   int             // injected failures during the current Apply
	observerOn bool
	invChecks  int
}

func newWorld(r *core.R) *world {
	w := &world{r: r, sticky: map[string]bool{}, iterFail: map[mapKind]int{}, observerOn: true}
	w.fe = &simMap{w: w, kind: kFE, params: nat.FrontendMapParameters, kv: map[string][]byte{}}
	w.be = &simMap{w: w, kind: kBE, params: nat.BackendMapParameters, kv: map[string][]byte{}}
	w.mg = &simMap{w: w, kind: kMG, params: nat.MaglevMapParameters, kv: map[string][]byte{}}
	w.aff = &simMap{w: w, kind: kAFF, params: nat.AffinityMapParameters, kv: map[string][]byte{}}
	w.rt = &simRoutes{w: w}
	return w
}

func (w *world) beginApply(label string) {
	w.label = label
	w.stepW, w.stepFEBE, w.failedIO = 0, 0, 0
	w.sticky = map[string]bool{}
}

func sortedKeys(m map[string][]byte) []string {
	ks := make([]string, 0, len(m))
	for k := range m {
		ks = append(ks, k)
	}
	sort.Strings(ks)
	return ks
}

func (w *world) describe(kind mapKind, k, v []byte) string {
	switch kind {
	case kFE:
		key := nat.FrontendKeyFromBytes(k)
		s := fmt.Sprintf("%s:%d/%d", key.Addr(), key.Port(), key.Proto())
		if v != nil {
			val := nat.FrontendValueFromBytes(v)
			s += fmt.Sprintf(" -> id=%d n=%d l=%d fl=%#x aff=%d", val.ID(), val.Count(), val.LocalCount(), val.Flags(), int(val.AffinityTimeout().Seconds()))
		}
		return s
	case kBE:
		key := nat.BackendKeyFromBytes(k)
		s := fmt.Sprintf("(%d,%d)", key.ID(), key.Count())
		if v != nil {
			val := nat.BackendValueFromBytes(v)
			s += fmt.Sprintf(" -> %s:%d", val.Addr(), val.Port())
		}
		return s
	}
	return hex.EncodeToString(k)
}

// gate decides whether an I/O attempt reaches the map.
func (w *world) gate(m *simMap, del bool, k []byte) error {
	if w.crashed {
		w.lost++
		return errCrashed
	}
	if !w.faultsOn {
		return nil
	}
	id := kindName[m.kind] + string(k)
	if w.sticky[id] {
		w.failedIO++
		w.r.Probe("sticky_key_failed_again")
		return errInjected
	}
	p, lab, kind := w.pUpd, "fault_update", "write_error_transient"
	if del {
		p, lab, kind = w.pDel, "fault_delete", "delete_error_transient"
	}
	if w.r.Src.Chance(p, lab) {
		w.failedIO++
		if w.r.Src.Chance(400, "fault_sticky") {
			w.sticky[id] = true
			if del {
				kind = "delete_error_sticky"
			} else {
				kind = "write_error_sticky"
			}
		}
		w.r.Fault(kind)
		w.r.Logf("  injected %s on %s %s", kind, kindName[m.kind], w.describe(m.kind, k, nil))
		return errInjected
	}
	return nil
}

// wrote is the per-entry write log and the observer hook.
func (w *world) wrote(m *simMap, del bool, k, v []byte) {
	w.totalW++
	w.stepW++
	if m.kind == kFE || m.kind == kBE {
		w.stepFEBE++
	}
	op := "set"
	if del {
		op = "del"
	}
	line := fmt.Sprintf("w%d %s %s %s", w.stepW, kindName[m.kind], op, w.describe(m.kind, k, v))
	if len(w.ring) >= 14 {
		w.ring = w.ring[1:]
	}
	w.ring = append(w.ring, line)
	if !w.quiet {
		w.r.Logf("  %s", line)
	}
	if w.observerOn && (m.kind == kFE || m.kind == kBE) {
		w.checkInvariant("after " + line)
	}
	if w.crashAt > 0 && w.stepW == w.crashAt {
		w.crashed = true
		w.crashKind, w.crashDel = m.kind, del
		w.r.Fault("crash_after_write")
		if !w.quiet {
			w.r.Logf("  CRASH after write %d of %s", w.stepW, w.label)
		}
	}
}

// checkInvariant is the C42 mid-update invariant: every frontend value
// (id, count, local) refers only to backend entries (id, 0..count-1) that exist.
func (w *world) checkInvariant(when string) {
	w.invChecks++
	w.r.Eval()
	for _, ks := range sortedKeys(w.fe.kv) {
		val := nat.FrontendValueFromBytes(w.fe.kv[ks])
		cnt := val.Count()
		if cnt == nat.BlackHoleCount {
			continue
		}
		if val.LocalCount() > cnt {
			w.r.Violation("midupdate_local_exceeds_count", "%s %s: frontend %s has local count %d > count %d\nrecent writes:\n%s",
				w.label, when, w.describe(kFE, []byte(ks), w.fe.kv[ks]), val.LocalCount(), cnt, w.recent())
		}
		for i := uint32(0); i < cnt; i++ {
			bk := nat.NewNATBackendKey(val.ID(), i)
			if _, ok := w.be.kv[string(bk.AsBytes())]; !ok {
				w.r.Violation("midupdate_backend_missing", "%s %s: frontend %s refers to backend (%d,%d) which is not in the backend map\nrecent writes:\n%s",
					w.label, when, w.describe(kFE, []byte(ks), w.fe.kv[ks]), val.ID(), i, w.recent())
			}
		}
	}
}

func (w *world) recent() string {
	s := ""
	for _, l := range w.ring {
		s += "  " + l + "\n"
	}
	return s
}

func (w *world) contentHash() string {
	s := ""
	for _, m := range []*simMap{w.fe, w.be, w.mg, w.aff} {
		for _, k := range sortedKeys(m.kv) {
			s += hex.EncodeToString([]byte(k)) + "=" + hex.EncodeToString(m.kv[k]) + ";"
		}
		s += "|"
	}
	return s
}

type simMap struct {
	w      *world
	kind   mapKind
	params maps.MapParameters
	kv     map[string][]byte
}

var _ maps.MapWithExistsCheck = (*simMap)(nil)

func (m *simMap) GetName() string            { return m.params.Name }
func (m *simMap) EnsureExists() error        { return nil }
func (m *simMap) Open() error                { return nil }
func (m *simMap) Close() error               { return nil }
func (m *simMap) MapFD() maps.FD             { return 0 }
func (m *simMap) Path() string               { return "/sim/" + m.params.Name }
func (m *simMap) CopyDeltaFromOldMap() error { return nil }
func (m *simMap) Size() int                  { return m.params.MaxEntries }
func (m *simMap) ErrIsNotExists(err error) bool {
	return err == unix.ENOENT
}

func (m *simMap) checkSizes(k, v []byte) {
	if len(k) != m.params.KeySize || (v != nil && len(v) != m.params.ValueSize) {
		m.w.r.Violation("sut_bad_kv_size", "%s map %s: key size %d (want %d) value size %d (want %d)", m.w.label, m.params.Name, len(k), m.params.KeySize, len(v), m.params.ValueSize)
	}
}

func (m *simMap) Update(k, v []byte) error {
	m.checkSizes(k, v)
	if err := m.w.gate(m, false, k); err != nil {
		return err
	}
	m.kv[string(k)] = append([]byte(nil), v...)
	m.w.wrote(m, false, k, v)
	return nil
}

func (m *simMap) BatchUpdate(ks, vs [][]byte, flags uint64) (int, error) {
	for i := range ks {
		if err := m.Update(ks[i], vs[i]); err != nil {
			return i, err
		}
	}
	return len(ks), nil
}

func (m *simMap) Get(k []byte) ([]byte, error) {
	if m.w.crashed {
		m.w.lost++
		return nil, errCrashed
	}
	v, ok := m.kv[string(k)]
	if !ok {
		return nil, unix.ENOENT
	}
	return append([]byte(nil), v...), nil
}

func (m *simMap) Delete(k []byte) error {
	m.checkSizes(k, nil)
	if err := m.w.gate(m, true, k); err != nil {
		return err
	}
	if _, ok := m.kv[string(k)]; !ok {
		m.w.r.Probe("delete_enoent")
		return unix.ENOENT
	}
	delete(m.kv, string(k))
	m.w.wrote(m, true, k, nil)
	return nil
}

func (m *simMap) Iter(f maps.IterCallback) error {
	if m.w.crashed {
		m.w.lost++
		return errCrashed
	}
	failAt := -1
	if m.w.iterFail[m.kind] > 0 {
		m.w.iterFail[m.kind]--
		failAt = m.w.iterFailAt
		if failAt > len(m.kv) {
			failAt = len(m.kv)
		}
	}
	for i, ks := range sortedKeys(m.kv) {
		if i == failAt {
			break
		}
		v, ok := m.kv[ks]
		if !ok {
			continue
		}
		act := f([]byte(ks), append([]byte(nil), v...))
		if act == maps.IterDelete {
			if err := m.w.gate(m, true, []byte(ks)); err != nil {
				return err
			}
			delete(m.kv, ks)
			m.w.wrote(m, true, []byte(ks), nil)
		}
	}
	if failAt >= 0 {
		m.w.failedIO++
		m.w.r.Fault("iter_error_" + kindName[m.kind])
		m.w.r.Logf("  injected iteration error on %s after %d entries", kindName[m.kind], failAt)
		return errInjected
	}
	return nil
}

// simRoutes is the stub of the route cache the syncer consults for NodePort
// expansion: pod 10.65.<n>.x lives on node n; node 0 is the local node.
type simRoutes struct{ w *world }

func (s *simRoutes) Lookup(a ip.Addr) (routes.ValueInterface, bool) {
	b := a.AsNetIP().To4()
	if b == nil || b[0] != 10 || b[1] != 65 || int(b[2]) >= len(nodeZones) {
		return nil, false
	}
	if b[2] == 0 {
		return routes.NewValueIntfWithIfIndex(routes.FlagWorkload|routes.FlagLocal, 7), true
	}
	return routes.NewValueIntfWithNextHop(routes.FlagWorkload, ip.FromString(nodeIP(int(b[2])))), true
}

func (s *simRoutes) WaitAfter(ctx context.Context, fn func(lookup func(addr ip.Addr) (routes.ValueInterface, bool)) bool) {
	s.w.r.HarnessError("route stub: unexpected WaitAfter (every generated pod has a route)")
}
