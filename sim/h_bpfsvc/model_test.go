package h_bpfsvc

// Kubernetes-level model: Services and EndpointSlices of a 3-node cluster as
// seen from node-0, their conversion to the proxy's state through the REAL
// k8s.io/kubernetes/pkg/proxy change trackers (as felix/bpf/proxy does), and the
// expectation of what the NAT maps must offer, restated from service semantics.

import (
	"fmt"
	"net"
	"reflect"
	"sort"
	"strings"

	v1 "k8s.io/api/core/v1"
	discovery "k8s.io/api/discovery/v1"
	metav1 "k8s.io/apimachinery/pkg/apis/meta/v1"
	k8sp "k8s.io/kubernetes/pkg/proxy"

	"github.com/projectcalico/calico/felix/bpf/nat"
	"github.com/projectcalico/calico/felix/bpf/proxy"

	"verifsim/core"
)

const (
	hostName = "node-0"
	thisZone = "z0"
	ns       = "sim"
	npMeta   = "255.255.255.255"
)

var nodeZones = []string{"z0", "z0", "z1"}

func nodeName(i int) string { return fmt.Sprintf("node-%d", i) }
func nodeIP(i int) string   { return fmt.Sprintf("192.168.0.%d", 10+i) }

type kEp struct {
	ip                   string
	node                 int
	ready, serving, term bool
	hint                 string // zone hint, used when the service carries hints
	noHint               bool   // terminating endpoint whose hint was withdrawn (hints are meant for ready endpoints)
}

type kPort struct {
	name     string
	port     int
	target   int
	nodePort int
	udp      bool
}

const (
	tClusterIP = iota
	tNodePort
	tLoadBalancer
)

type kSvc struct {
	name      string
	clusterIP string
	typ       int
	ports     []kPort
	ext, lb   []string
	etpLocal  bool
	itpLocal  bool
	aff       int // ClientIP session affinity timeout, 0 = none
	topoAuto  bool
	hints     bool
	eps       []kEp
}

type kState struct {
	slots []*kSvc
}

func (s *kSvc) clone() *kSvc {
	c := *s
	c.ports = append([]kPort(nil), s.ports...)
	c.ext = append([]string(nil), s.ext...)
	c.lb = append([]string(nil), s.lb...)
	c.eps = append([]kEp(nil), s.eps...)
	return &c
}

func (st *kState) clone() *kState {
	c := &kState{slots: make([]*kSvc, len(st.slots))}
	for i, s := range st.slots {
		if s != nil {
			c.slots[i] = s.clone()
		}
	}
	return c
}

func (st *kState) live() []*kSvc {
	var out []*kSvc
	for _, s := range st.slots {
		if s != nil {
			out = append(out, s)
		}
	}
	return out
}

func (p kPort) proto() v1.Protocol {
	if p.udp {
		return v1.ProtocolUDP
	}
	return v1.ProtocolTCP
}

func (p kPort) protoNum() uint8 {
	if p.udp {
		return 17
	}
	return 6
}

func (s *kSvc) String() string {
	typ := []string{"ClusterIP", "NodePort", "LoadBalancer"}[s.typ]
	var ps []string
	for _, p := range s.ports {
		ps = append(ps, fmt.Sprintf("%s:%d>%d/np%d/%s", p.name, p.port, p.target, p.nodePort, p.proto()))
	}
	var es []string
	for _, e := range s.eps {
		f := ""
		if e.ready {
			f += "R"
		}
		if e.serving {
			f += "S"
		}
		if e.term {
			f += "T"
		}
		hint := e.hint
		if e.noHint {
			hint = "-"
		}
		es = append(es, fmt.Sprintf("%s@n%d[%s]%s", e.ip, e.node, f, hint))
	}
	return fmt.Sprintf("%s %s cip=%s ports=%v ext=%v lb=%v etpLocal=%v itpLocal=%v aff=%d topoAuto=%v hints=%v eps=%v",
		s.name, typ, s.clusterIP, ps, s.ext, s.lb, s.etpLocal, s.itpLocal, s.aff, s.topoAuto, s.hints, es)
}

func (st *kState) String() string {
	var l []string
	for _, s := range st.live() {
		l = append(l, s.String())
	}
	return strings.Join(l, " || ")
}

// ---- conversion to API objects and, through the real trackers, to proxy state

func (s *kSvc) toService() *v1.Service {
	svc := &v1.Service{
		ObjectMeta: metav1.ObjectMeta{Namespace: ns, Name: s.name, Annotations: map[string]string{}},
		Spec: v1.ServiceSpec{
			ClusterIP:   s.clusterIP,
			ClusterIPs:  []string{s.clusterIP},
			IPFamilies:  []v1.IPFamily{v1.IPv4Protocol},
			ExternalIPs: append([]string(nil), s.ext...),
		},
	}
	switch s.typ {
	case tClusterIP:
		svc.Spec.Type = v1.ServiceTypeClusterIP
	case tNodePort:
		svc.Spec.Type = v1.ServiceTypeNodePort
	case tLoadBalancer:
		svc.Spec.Type = v1.ServiceTypeLoadBalancer
		for _, ipa := range s.lb {
			svc.Status.LoadBalancer.Ingress = append(svc.Status.LoadBalancer.Ingress, v1.LoadBalancerIngress{IP: ipa})
		}
	}
	for _, p := range s.ports {
		svc.Spec.Ports = append(svc.Spec.Ports, v1.ServicePort{Name: p.name, Port: int32(p.port), Protocol: p.proto(), NodePort: int32(p.nodePort)})
	}
	if s.etpLocal && (s.typ != tClusterIP || len(s.ext) > 0) {
		svc.Spec.ExternalTrafficPolicy = v1.ServiceExternalTrafficPolicyLocal
		if s.typ == tLoadBalancer {
			svc.Spec.HealthCheckNodePort = 32000
		}
	} else if s.typ != tClusterIP || len(s.ext) > 0 {
		svc.Spec.ExternalTrafficPolicy = v1.ServiceExternalTrafficPolicyCluster
	}
	itp := v1.ServiceInternalTrafficPolicyCluster
	if s.itpLocal {
		itp = v1.ServiceInternalTrafficPolicyLocal
	}
	svc.Spec.InternalTrafficPolicy = &itp
	if s.aff > 0 {
		t := int32(s.aff)
		svc.Spec.SessionAffinity = v1.ServiceAffinityClientIP
		svc.Spec.SessionAffinityConfig = &v1.SessionAffinityConfig{ClientIP: &v1.ClientIPConfig{TimeoutSeconds: &t}}
	} else {
		svc.Spec.SessionAffinity = v1.ServiceAffinityNone
	}
	if s.topoAuto {
		svc.Annotations[v1.AnnotationTopologyMode] = "Auto"
	}
	return svc
}

func (s *kSvc) toSlice() *discovery.EndpointSlice {
	sl := &discovery.EndpointSlice{
		ObjectMeta:  metav1.ObjectMeta{Namespace: ns, Name: s.name + "-es1", Labels: map[string]string{discovery.LabelServiceName: s.name}},
		AddressType: discovery.AddressTypeIPv4,
	}
	for _, p := range s.ports {
		name, port, proto := p.name, int32(p.target), p.proto()
		sl.Ports = append(sl.Ports, discovery.EndpointPort{Name: &name, Port: &port, Protocol: &proto})
	}
	for _, e := range s.eps {
		nn, rdy, srv, trm := nodeName(e.node), e.ready, e.serving, e.term
		ep := discovery.Endpoint{
			Addresses:  []string{e.ip},
			NodeName:   &nn,
			Conditions: discovery.EndpointConditions{Ready: &rdy, Serving: &srv, Terminating: &trm},
		}
		if s.hints && !e.noHint {
			ep.Hints = &discovery.EndpointHints{ForZones: []discovery.ForZone{{Name: e.hint}}}
		}
		sl.Endpoints = append(sl.Endpoints, ep)
	}
	return sl
}

// makeServicePort mirrors felix/bpf/proxy.makeServiceInfo (unexported): the
// proxy's service type wraps the tracker's BaseServicePortInfo.  The embedded
// field is exported, so it can be set through reflection from the public
// constructor's option hook.
func makeServicePort(_ *v1.ServicePort, svc *v1.Service, base *k8sp.BaseServicePortInfo) k8sp.ServicePort {
	opts := []proxy.K8sServicePortOption{func(x any) {
		reflect.ValueOf(x).Elem().FieldByName("ServicePort").Set(reflect.ValueOf(base))
	}}
	if m, ok := svc.Annotations[v1.AnnotationTopologyMode]; ok {
		opts = append(opts, proxy.K8sSvcWithTopologyMode(m))
	}
	return proxy.NewK8sServicePort(base.ClusterIP(), base.Port(), base.Protocol(), opts...)
}

func (st *kState) toProxyState() proxy.DPSyncerState {
	sct := k8sp.NewServiceChangeTracker(v1.IPv4Protocol, makeServicePort, nil)
	ect := k8sp.NewEndpointsChangeTracker(v1.IPv4Protocol, hostName, nil, nil)
	for _, s := range st.live() {
		sct.Update(nil, s.toService())
		if len(s.eps) > 0 {
			ect.EndpointSliceUpdate(s.toSlice(), false)
		}
	}
	sm := k8sp.ServicePortMap{}
	sm.Update(sct)
	em := k8sp.EndpointsMap{}
	em.Update(ect)
	return proxy.DPSyncerState{SvcMap: sm, EpsMap: em, Hostname: hostName, NodeZone: thisZone}
}

// ---- expectation

type expFE struct {
	key       string // frontend key bytes
	desc      string
	svc       string
	local     []string // "ip:port" of the ready local endpoints
	remote    []string
	need      uint32 // flags that must be set
	forbid    uint32 // flags that must not be set
	aff       int
	optional  bool // may be absent when it would have no backends
	extIPType bool
	npRemote  bool
	// Preconditions of the one known defect (felix/bpf/proxy/topology.go lets terminating,
	// not-ready endpoints take part in the zone-hint decision; Kubernetes uses ready ones only).
	// They never relax the oracle: they only decide under which oracle NAME a mismatch of
	// exactly the defect's shape is reported, so that known_findings.json can list it while
	// every other mismatch keeps its ordinary name.
	//   knownZero:   a not-ready terminating endpoint is hinted for this zone and no ready one is
	//                (Kubernetes falls back to all ready endpoints; defect shape: zero backends)
	//   knownSelect: topology-mode Auto, a terminating endpoint has no hint, and the ready endpoints'
	//                hints select a proper subset (defect shape: ALL ready endpoints listed)
	knownZero   bool
	knownSelect bool
	allLocal    []string // unfiltered ready endpoints
	allRemote   []string
}

const (
	oracleKnownZero   = "hinted_terminating_endpoint_zero_backends"
	oracleKnownSelect = "hinted_terminating_endpoint_changed_selection"
)

func feKey(ipa string, port int, proto uint8) string {
	k := nat.NewNATKey(net.ParseIP(ipa), uint16(port), proto)
	return string(k.AsBytes())
}

// selected returns the endpoints of s this node may use: the ready ones,
// narrowed to those hinted for this node's zone when every ready endpoint
// carries a hint and at least one ready endpoint is hinted for this zone.
func (s *kSvc) selected() (sel []kEp, filtered bool) {
	var ready []kEp
	for _, e := range s.eps {
		if e.ready {
			ready = append(ready, e)
		}
	}
	if !s.hints {
		return ready, false
	}
	var mine []kEp
	for _, e := range ready {
		if e.hint == thisZone {
			mine = append(mine, e)
		}
	}
	if len(mine) == 0 {
		return ready, false
	}
	return mine, len(mine) != len(ready)
}

func epStrs(eps []kEp, target int, pred func(kEp) bool) []string {
	var out []string
	for _, e := range eps {
		if pred(e) {
			out = append(out, fmt.Sprintf("%s:%d", e.ip, target))
		}
	}
	sort.Strings(out)
	return out
}

// expected computes the frontends the maps must hold after a completed sync.
func expected(st *kState, npIPs []net.IP) map[string]*expFE {
	out := map[string]*expFE{}
	add := func(e *expFE) { out[e.key] = e }
	for _, s := range st.live() {
		sel, _ := s.selected()
		etp := s.etpLocal && (s.typ != tClusterIP || len(s.ext) > 0)
		knownZero, knownSelect := s.knownShapes()
		var allReady []kEp
		for _, e := range s.eps {
			if e.ready {
				allReady = append(allReady, e)
			}
		}
		for _, p := range s.ports {
			local := epStrs(sel, p.target, func(e kEp) bool { return e.node == 0 })
			remote := epStrs(sel, p.target, func(e kEp) bool { return e.node != 0 })
			mk := func(ipa string, port int, what string) *expFE {
				return &expFE{key: feKey(ipa, port, p.protoNum()), desc: fmt.Sprintf("%s %s %s:%d/%s", s.name, what, ipa, port, p.proto()),
					svc: s.name + "/" + p.name, local: local, remote: remote, aff: s.aff, knownZero: knownZero, knownSelect: knownSelect,
					allLocal:  epStrs(allReady, p.target, func(e kEp) bool { return e.node == 0 }),
					allRemote: epStrs(allReady, p.target, func(e kEp) bool { return e.node != 0 })}
			}
			// cluster IP: internal traffic; local-only iff the internal policy says so
			c := mk(s.clusterIP, p.port, "clusterIP")
			if s.itpLocal {
				c.need = nat.NATFlgInternalLocal
			} else {
				c.forbid = nat.NATFlgInternalLocal
			}
			add(c)
			for _, x := range s.ext {
				e := mk(x, p.port, "externalIP")
				e.extIPType = true
				add(e)
			}
			extFlags := func(e *expFE) {
				if etp {
					e.need = nat.NATFlgExternalLocal
				} else {
					e.forbid = nat.NATFlgExternalLocal
				}
			}
			if s.typ == tLoadBalancer {
				for _, x := range s.lb {
					e := mk(x, p.port, "loadBalancerIP")
					extFlags(e)
					add(e)
				}
			}
			if p.nodePort != 0 {
				for _, npip := range npIPs {
					if s.itpLocal && npip.String() == npMeta {
						// as the code defines node ports: with the internal policy Local the
						// wildcard node-port entry is replaced by one entry per remote node
						continue
					}
					e := mk(npip.String(), p.nodePort, "nodePort")
					extFlags(e)
					add(e)
				}
				if s.itpLocal {
					for n := 1; n < len(nodeZones); n++ {
						n := n
						onNode := false
						for _, ep := range s.eps {
							if ep.node == n {
								onNode = true
							}
						}
						if !onNode {
							continue
						}
						e := mk(nodeIP(n), p.nodePort, "nodePortRemote")
						e.local = nil
						e.remote = epStrs(sel, p.target, func(e kEp) bool { return e.node == n })
						e.allLocal = nil
						e.allRemote = epStrs(allReady, p.target, func(e kEp) bool { return e.node == n })
						e.optional = true
						e.npRemote = true
						add(e)
					}
				}
			}
		}
	}
	return out
}

// knownShapes evaluates the preconditions of the known topology defect (see expFE).
func (s *kSvc) knownShapes() (zero, sel bool) {
	if !s.hints {
		return false, false
	}
	nReady, readyHere, termHere, termNoHint := 0, false, false, false
	for _, e := range s.eps {
		switch {
		case e.ready:
			nReady++
			if e.hint == thisZone {
				readyHere = true
			}
		case e.term && e.noHint:
			termNoHint = true
		case e.term && e.hint == thisZone:
			termHere = true
		}
	}
	_, filtered := s.selected()
	zero = termHere && !readyHere && nReady > 0 && !(s.topoAuto && termNoHint)
	sel = s.topoAuto && termNoHint && filtered
	return zero, sel
}

func eqStrs(a, b []string) bool {
	if len(a) != len(b) {
		return false
	}
	for i := range a {
		if a[i] != b[i] {
			return false
		}
	}
	return true
}

// finalOracle: after a completed sync each expected frontend lists exactly the
// service's ready endpoints, local ones first, with the local-only marking the
// traffic policy requires, and nothing stale remains in either map.
func finalOracle(r *core.R, w *world, st *kState, npIPs []net.IP, ctx string) {
	exp := expected(st, npIPs)
	fail := func(oracle, format string, a ...interface{}) {
		r.Violation(oracle, "%s: %s\nstate: %s\nrecent writes:\n%s", ctx, fmt.Sprintf(format, a...), st, w.recent())
	}
	for _, ks := range sortedKeys(w.fe.kv) {
		r.Eval()
		if _, ok := exp[ks]; !ok {
			fail("stale_frontend", "frontend %s is in the map but no service defines it", w.describe(kFE, []byte(ks), w.fe.kv[ks]))
		}
	}
	referenced := map[string]bool{}
	eks := make([]string, 0, len(exp))
	for k := range exp {
		eks = append(eks, k)
	}
	sort.Strings(eks)
	for _, ks := range eks {
		e := exp[ks]
		r.Eval()
		raw, ok := w.fe.kv[ks]
		if !ok {
			if e.optional && len(e.local)+len(e.remote) == 0 {
				continue
			}
			if e.knownZero && e.npRemote {
				fail(oracleKnownZero, "zero-backend variant: a not-ready terminating endpoint hinted for this zone is the only endpoint the syncer's hint filter keeps, so frontend %s is absent although the service has ready endpoints %v on that node (Kubernetes decides on ready endpoints only and falls back to all of them)", e.desc, e.remote)
			}
			fail("missing_frontend", "expected frontend %s is not in the map", e.desc)
		}
		val := nat.FrontendValueFromBytes(raw)
		cnt, lc := int(val.Count()), int(val.LocalCount())
		if val.Count() == nat.BlackHoleCount {
			fail("frontend_blackholed", "frontend %s is a drop entry", e.desc)
		}
		var got []string
		for i := 0; i < cnt; i++ {
			bk := string(nat.NewNATBackendKey(val.ID(), uint32(i)).AsBytes())
			bv, ok := w.be.kv[bk]
			if !ok {
				fail("final_backend_missing", "frontend %s (%s) refers to missing backend (%d,%d)", e.desc, w.describe(kFE, []byte(ks), raw), val.ID(), i)
			}
			referenced[bk] = true
			b := nat.BackendValueFromBytes(bv)
			got = append(got, fmt.Sprintf("%s:%d", b.Addr(), b.Port()))
		}
		if lc > cnt {
			fail("local_count", "frontend %s has local count %d > count %d", e.desc, lc, cnt)
		}
		gl := append([]string(nil), got[:lc]...)
		gr := append([]string(nil), got[lc:]...)
		sort.Strings(gl)
		sort.Strings(gr)
		if !eqStrs(gl, e.local) || !eqStrs(gr, e.remote) {
			// The oracle is strict.  A mismatch of exactly the known defect's shape, under exactly its
			// precondition, is reported under its own name; anything else keeps the ordinary names.
			if e.knownZero && cnt == 0 {
				fail(oracleKnownZero, "zero-backend variant: a not-ready terminating endpoint hinted for this zone is the only endpoint the syncer's hint filter keeps, so frontend %s lists no backend although the service has ready endpoints local=%v remote=%v (Kubernetes decides on ready endpoints only and falls back to all of them)", e.desc, e.local, e.remote)
			}
			if e.knownSelect && eqStrs(gl, e.allLocal) && eqStrs(gr, e.allRemote) {
				fail(oracleKnownSelect, "changed-selection variant: a terminating endpoint without a zone hint switches off zone filtering in topology-mode Auto: frontend %s lists ALL ready endpoints local=%v remote=%v; every ready endpoint is hinted and those hinted for this zone are local=%v remote=%v (Kubernetes decides on ready endpoints only)", e.desc, gl, gr, e.local, e.remote)
			}
		}
		{
			if cnt != len(e.local)+len(e.remote) {
				fail("backend_count", "frontend %s lists %d backends %v; the service has ready endpoints local=%v remote=%v", e.desc, cnt, got, e.local, e.remote)
			}
			if lc != len(e.local) {
				fail("local_count", "frontend %s has local count %d; ready local endpoints are %v (listed %v)", e.desc, lc, e.local, got)
			}
			if !eqStrs(gl, e.local) {
				fail("local_first", "frontend %s: first %d backends are %v, ready local endpoints are %v (all listed: %v)", e.desc, lc, gl, e.local, got)
			}
			if !eqStrs(gr, e.remote) {
				fail("ready_endpoints_exact", "frontend %s: non-local backends are %v, ready remote endpoints are %v", e.desc, gr, e.remote)
			}
		}
		if val.Flags()&e.need != e.need || val.Flags()&e.forbid != 0 {
			fail("policy_flags", "frontend %s has flags %#x; required %#x forbidden %#x", e.desc, val.Flags(), e.need, e.forbid)
		}
		if int(val.AffinityTimeout().Seconds()) != e.aff {
			fail("affinity_timeout", "frontend %s has affinity timeout %v, service says %d s", e.desc, val.AffinityTimeout(), e.aff)
		}
	}
	for _, bk := range sortedKeys(w.be.kv) {
		r.Eval()
		if !referenced[bk] {
			fail("stale_backend", "backend %s is in the map but no frontend's (id, 0..count-1) covers it", w.describe(kBE, []byte(bk), w.be.kv[bk]))
		}
	}
}
