// Kernel-side stubs of engine ctsim: an in-memory BPF map with deterministic
// iteration and yield points, the simulated kernel/Go clocks, the packet
// source, and the kernel conntrack cleaner as a Go transliteration of
// process_ccq_entry (felix/bpf-gpl/conntrack_cleanup.c).  The C program itself
// is NOT executed.
package h_ctsim

import (
	"bytes"
	"encoding/binary"
	"errors"
	"fmt"
	"sort"
	"time"

	"golang.org/x/sys/unix"

	"github.com/projectcalico/calico/felix/bpf/conntrack"
	"github.com/projectcalico/calico/felix/bpf/maps"
	"github.com/projectcalico/calico/felix/timeshim"
)

// Layout of struct calico_ct_value / calico_ct_leg / cali_ccq_value restated
// from felix/bpf-gpl/conntrack_types.h and conntrack_cleanup.h (the kernel ABI),
// deliberately NOT taken from the Go accessors under test.
const (
	offRSTStamp = 0
	offLastSeen = 8
	offType     = 16
	offFlags    = 17
	offLegAB    = 24
	offLegBA    = 48
	offRevKey   = 24
	legBitsOff  = 16
	ctKeySize   = 16
	ctValSize   = 88
	ccqValSize  = ctKeySize + 16

	bitSyn = 1
	bitAck = 2
	bitFin = 4
	bitRst = 8

	typNormal = 0
	typFwd    = 1
	typRev    = 2

	flagDSR = 1 << 1 // CALI_CT_FLAG_DSR_FWD
)

func le64(b []byte) int64      { return int64(binary.LittleEndian.Uint64(b)) }
func put64(b []byte, v int64)  { binary.LittleEndian.PutUint64(b, uint64(v)) }
func le32(b []byte) uint32     { return binary.LittleEndian.Uint32(b) }
func put32(b []byte, v uint32) { binary.LittleEndian.PutUint32(b, v) }

// ---------------------------------------------------------------- clock

// simClock is the timeshim handed to the LivenessScanner.  Kernel time and Go
// time are separate; they normally advance together, skew is a fault.
type simClock struct{ h *H }

func (c simClock) Now() time.Time                  { return c.h.gotime }
func (c simClock) Since(t time.Time) time.Duration { return c.h.gotime.Sub(t) }
func (c simClock) Until(t time.Time) time.Duration { return t.Sub(c.h.gotime) }
func (c simClock) After(d time.Duration) <-chan time.Time {
	c.h.r.HarnessError("timeshim.After is not expected to be used by the scanner")
	return nil
}
func (c simClock) NewTimer(d timeshim.Duration) timeshim.Timer {
	c.h.r.HarnessError("timeshim.NewTimer is not expected to be used by the scanner")
	return nil
}
func (c simClock) KTimeNanos() int64 {
	c.h.yield("ktime", false)
	c.h.ktimeLookups++
	return c.h.ktime
}

var _ timeshim.Interface = simClock{}

// ---------------------------------------------------------------- BPF map stub

type entry struct {
	val  []byte
	gen  int // generation: bumped every time the key is (re)created
	conn int // owning connection id (harness bookkeeping only)
	ord  uint64
}

type bpfMap struct {
	h     *H
	name  string
	isCT  bool
	ks    int
	vs    int
	m     map[string]*entry
	salt  uint64
	batch int // entries fetched per simulated batch lookup (1 = always fresh)
}

func newBPFMap(h *H, name string, isCT bool, ks, vs int, salt uint64) *bpfMap {
	return &bpfMap{h: h, name: name, isCT: isCT, ks: ks, vs: vs, m: map[string]*entry{}, salt: salt, batch: 1}
}

func (m *bpfMap) ordOf(k string) uint64 {
	x := m.salt
	for i := 0; i < len(k); i++ {
		x ^= uint64(k[i])
		x *= 0x100000001b3
		x ^= x >> 29
	}
	return x
}

// sortedKeys returns the keys in the map's (per-run) hash order.
func (m *bpfMap) sortedKeys() []string {
	ks := make([]string, 0, len(m.m))
	for k := range m.m {
		ks = append(ks, k)
	}
	sort.Slice(ks, func(i, j int) bool {
		a, b := m.m[ks[i]], m.m[ks[j]]
		if a.ord != b.ord {
			return a.ord < b.ord
		}
		return ks[i] < ks[j]
	})
	return ks
}

// nextAfter finds the first key strictly after the cursor in hash order.
func (m *bpfMap) nextAfter(started bool, cord uint64, ckey string) (string, bool) {
	best, found := "", false
	var bord uint64
	for k, e := range m.m {
		if started && (e.ord < cord || (e.ord == cord && k <= ckey)) {
			continue
		}
		if !found || e.ord < bord || (e.ord == bord && k < best) {
			best, bord, found = k, e.ord, true
		}
	}
	return best, found
}

func (m *bpfMap) put(k string, v []byte, conn int) {
	gen := m.h.nextGen
	m.h.nextGen++
	if m.isCT {
		delete(m.h.expiredRemoved, k)
	}
	m.m[k] = &entry{val: append([]byte(nil), v...), gen: gen, conn: conn, ord: m.ordOf(k)}
}

func (m *bpfMap) GetName() string           { return m.name }
func (m *bpfMap) EnsureExists() error       { return nil }
func (m *bpfMap) Open() error               { return nil }
func (m *bpfMap) Close() error              { return nil }
func (m *bpfMap) MapFD() maps.FD            { return 0 }
func (m *bpfMap) Path() string              { return "/sim/" + m.name }
func (m *bpfMap) CopyDeltaFromOldMap() error { return nil }
func (m *bpfMap) Size() int                 { return 512000 }
func (m *bpfMap) ErrIsNotExists(err error) bool {
	return maps.IsNotExists(err)
}

var errInjected = unix.EINVAL

type iterSnap struct {
	key  string
	val  []byte
	gen  int
	conn int
}

// Iter walks the map in hash order.  Entries are fetched in batches (as the
// real batched iterator does), so the value handed to the callback may be
// stale by the time the callback runs; a yield point sits before every batch
// fetch and between any two callbacks.  IterDelete is applied by key right
// after the callback returns.
func (m *bpfMap) Iter(f maps.IterCallback) error {
	h := m.h
	h.yield(m.name+".iter", true)
	if m.isCT && h.faultChance("ct_iter_error_start", h.pIterErr) {
		return fmt.Errorf("injected: failed to create BPF map iterator")
	}
	if !m.isCT && h.faultChance("ccq_load_error", h.pCCQErr) {
		return fmt.Errorf("injected: iterating the map failed")
	}
	started := false
	var cord uint64
	var ckey string
	steps := 0
	if m.isCT {
		h.ctIterActive = true
		defer func() { h.ctIterActive = false }()
	}
	for {
		// fetch one batch
		var snaps []iterSnap
		for len(snaps) < m.batch {
			k, ok := m.nextAfter(started, cord, ckey)
			if !ok {
				break
			}
			e := m.m[k]
			snaps = append(snaps, iterSnap{key: k, val: append([]byte(nil), e.val...), gen: e.gen, conn: e.conn})
			started, cord, ckey = true, e.ord, k
		}
		if len(snaps) == 0 {
			return nil
		}
		for i := range snaps {
			s := &snaps[i]
			if steps > 0 {
				// In fallback mode (batch==1) the yield precedes the fetch of this very
				// entry, so the callback sees a fresh value.
				if m.batch == 1 {
					h.yield(m.name+".iter", true)
					if e, ok := m.m[s.key]; ok {
						s.val, s.gen, s.conn = append([]byte(nil), e.val...), e.gen, e.conn
					}
				} else {
					h.yield(m.name+".iter", true)
				}
				if m.isCT && h.faultChance("ct_iter_error_mid", h.pIterErr/4) {
					return fmt.Errorf("injected: iterating the map failed")
				}
			}
			steps++
			if m.isCT {
				if e, ok := m.m[s.key]; !ok || !bytes.Equal(e.val, s.val) {
					h.r.Probe("stale_snapshot_judged")
				}
				h.curSnap = s
			}
			action := f(append([]byte(nil), s.key...), append([]byte(nil), s.val...))
			if m.isCT {
				h.curSnap = nil
			}
			if action == maps.IterDelete {
				if m.isCT {
					h.kernelDelete("iterdelete", []string{s.key}, s)
				} else {
					delete(m.m, s.key)
				}
			}
		}
	}
}

func (m *bpfMap) Get(k []byte) ([]byte, error) {
	h := m.h
	// In fallback mode judge+delete of one entry is modelled as atomic with
	// respect to packets (see engines/ctsim.json assumptions).
	h.yield(m.name+".get", h.mode == modeCleaner)
	if m.isCT && h.faultChance("ct_get_error", h.pGetErr) {
		return nil, errInjected
	}
	e, ok := m.m[string(k)]
	if !ok {
		return nil, unix.ENOENT
	}
	return append([]byte(nil), e.val...), nil
}

func (m *bpfMap) Update(k, v []byte) error {
	h := m.h
	h.yield(m.name+".update", true)
	if len(k) != m.ks || len(v) != m.vs {
		h.r.Violation("map_abi", "%s.Update with key size %d value size %d (want %d/%d)", m.name, len(k), len(v), m.ks, m.vs)
	}
	if !m.isCT && h.faultChance("ccq_update_error", h.pCCQErr) {
		return errInjected
	}
	if e, ok := m.m[string(k)]; ok {
		e.val = append([]byte(nil), v...)
		return nil
	}
	m.put(string(k), v, -1)
	if !m.isCT {
		h.ccqWrites++
	}
	return nil
}

func (m *bpfMap) Delete(k []byte) error {
	h := m.h
	h.yield(m.name+".delete", true)
	if !m.isCT && h.faultChance("ccq_delete_error", h.pCCQErr) {
		return errInjected
	}
	if _, ok := m.m[string(k)]; !ok {
		return unix.ENOENT
	}
	if m.isCT {
		// The scanner never deletes conntrack entries by a direct Delete call.
		h.kernelDelete("delete", []string{string(k)}, nil)
		return nil
	}
	delete(m.m, string(k))
	return nil
}

func (m *bpfMap) BatchUpdate(ks, vs [][]byte, flags uint64) (int, error) {
	n := 0
	for i := range ks {
		if err := m.Update(ks[i], vs[i]); err != nil {
			return n, err
		}
		n++
	}
	return n, nil
}

var _ maps.MapWithExistsCheck = (*bpfMap)(nil)

// ---------------------------------------------------------------- kernel cleaner (stub)

// kcleaner stands in for the BPF program conntrack_cleanup.  Run models
// bpf_for_each_map_elem(&ccq, process_ccq_entry): one callback per queued
// entry, each callback atomic, other CPUs (packets) free to run in between.
type kcleaner struct{ h *H }

func (c *kcleaner) Close() error { return nil }

func (c *kcleaner) Run(opts ...conntrack.RunOpt) (*conntrack.CleanupContext, error) {
	h := c.h
	cr := &conntrack.CleanupContext{}
	for _, o := range opts {
		o(cr)
	}
	h.yield("cleaner.start", true)
	h.cleanerRuns++
	if h.ctIterActive {
		h.r.Probe("cleaner_ran_mid_iteration")
	}
	if h.faultChance("cleaner_run_error", h.pCleanerErr) {
		h.r.Logf("  cleaner: BPF_PROG_RUN failed, %d queue entries left behind", len(h.ccq.m))
		return cr, errors.New("injected: failed to run cleanup program")
	}
	if cr.StartTime == 0 {
		cr.StartTime = uint64(h.ktime)
	}
	started := false
	var cord uint64
	var ckey string
	for {
		k, ok := h.ccq.nextAfter(started, cord, ckey)
		if !ok {
			break
		}
		e := h.ccq.m[k]
		started, cord, ckey = true, e.ord, k
		h.yield("cleaner.step", true)
		if e.gen < h.ccqGenAtScan {
			h.r.Probe("stale_ccq_entry_processed")
		}
		c.processCCQEntry(k, e.val, cr)
	}
	cr.EndTime = uint64(h.ktime)
	return cr, nil
}

// processCCQEntry is a line-by-line transliteration of process_ccq_entry.
func (c *kcleaner) processCCQEntry(key string, value []byte, ictx *conntrack.CleanupContext) {
	h := c.h
	ct := h.ct
	revKey := string(value[0:ctKeySize])
	lastSeen := le64(value[ctKeySize : ctKeySize+8])
	revLastSeen := le64(value[ctKeySize+8 : ctKeySize+16])
	var dels []string
	if le32(value[0:4]) == 0 { // !value->rev_key.protocol
		actual, ok := ct.m[key]
		if ok && le64(actual.val[offLastSeen:]) == lastSeen {
			dels = append(dels, key)
		} else if ok {
			h.r.Probe("cleaner_skipped_refreshed")
			h.r.Logf("  cleaner: %s last_seen changed since queued (%d != %d): kept", h.kname(key), le64(actual.val[offLastSeen:]), lastSeen)
		}
	} else {
		fwd, ok := ct.m[key]
		if ok {
			if !bytes.Equal(fwd.val[offRevKey:offRevKey+ctKeySize], []byte(revKey)) {
				h.r.Probe("cleaner_fwd_repointed_skip")
				goto del
			}
		}
		rev, rok := ct.m[revKey]
		if rok && le64(rev.val[offLastSeen:]) == revLastSeen {
			dels = append(dels, revKey)
			if ok {
				dels = append(dels, key)
			}
		} else if rok {
			h.r.Probe("cleaner_skipped_refreshed")
			h.r.Logf("  cleaner: pair %s/%s reverse last_seen changed since queued: kept", h.kname(key), h.kname(revKey))
		}
	}
del:
	if len(dels) > 0 {
		h.kernelDelete("cleaner", dels, nil)
		ictx.NumKVsCleaned += uint64(len(dels))
	}
	delete(h.ccq.m, key)
}

var _ conntrack.Cleaner = (*kcleaner)(nil)

// ---------------------------------------------------------------- yield points, events, packets

func (h *H) faultChance(kind string, permille int) bool {
	if !h.chaos || permille <= 0 || !h.inScan {
		return false
	}
	if h.r.Src.Chance(permille, "fault_"+kind) {
		h.r.Fault(kind)
		return true
	}
	return false
}

// yield is called at every seam call; the simulator may let the rest of the
// world run here.
func (h *H) yield(where string, allowPackets bool) {
	if !h.chaos {
		return
	}
	h.yields++
	n := h.r.Src.Weighted(h.evCount, "sched_yield")
	for i := 0; i < n; i++ {
		h.event(where, allowPackets)
	}
}

const (
	evPacket = iota
	evTickSmall
	evTickLarge
	evSkewKernel
	evSkewGo
	evCreate
	evEvict
	evN
)

func (h *H) event(where string, allowPackets bool) {
	w := append([]int(nil), h.evKinds...)
	if !allowPackets {
		w[evPacket], w[evCreate], w[evEvict] = 0, 0, 0
	}
	tot := 0
	for _, x := range w {
		tot += x
	}
	if tot == 0 {
		return
	}
	switch h.r.Src.Weighted(w, "ev_kind") {
	case evPacket:
		h.randomPacket(where)
	case evTickSmall:
		d := int64(h.r.Src.Range(1, 2000, "tick_us")) * 1000
		h.advance(d, d)
	case evTickLarge:
		d := int64(h.r.Src.Range(1, 30, "tick_100ms")) * 100e6
		h.r.Logf("  [%s] time +%dms", where, d/1e6)
		h.advance(d, d)
	case evSkewKernel:
		d := int64(h.r.Src.Range(1, 50, "skew_100ms")) * 100e6
		h.r.Fault("clock_skew_kernel_ahead")
		h.r.Logf("  [%s] kernel time +%dms, Go time stalls", where, d/1e6)
		h.advance(d, 0)
	case evSkewGo:
		d := int64(h.r.Src.Range(1, 50, "skew_100ms")) * 100e6
		h.r.Fault("clock_skew_go_ahead")
		h.r.Logf("  [%s] Go time +%dms, kernel time stalls", where, d/1e6)
		h.advance(0, d)
	case evCreate:
		h.createConn(where, false)
	case evEvict:
		h.lruEvict(where)
	}
}

func (h *H) advance(k, g int64) {
	h.ktime += k
	h.gotime = h.gotime.Add(time.Duration(g))
	h.r.AddSimTime(time.Duration(k))
}

// randomPacket delivers one packet to a connection; connections whose entries
// were just judged expired are preferred targets.
func (h *H) randomPacket(where string) {
	if len(h.conns) == 0 {
		return
	}
	var c *conn
	if len(h.hot) > 0 && h.r.Src.Chance(600, "pkt_hot") {
		c = h.conns[h.hot[h.r.Src.Intn(len(h.hot), "pkt_hot_idx")]]
	} else {
		c = h.conns[h.r.Src.Intn(len(h.conns), "pkt_conn")]
	}
	dir := 0
	if c.kind == kNAT {
		dir = h.r.Src.Intn(2, "pkt_dir")
	}
	flip := 0
	if c.proto == conntrack.ProtoTCP {
		flip = h.r.Src.Weighted([]int{60, 12, 8, 8, 6, 6}, "pkt_tcp")
	}
	h.packet(where, c, dir, flip)
}

const (
	flipNone = iota
	flipHandshake
	flipFinA
	flipFinB
	flipRst
	flipSyn
)

// packet applies the effect of one packet of connection c on the conntrack map,
// following calico_ct_lookup in bpf-gpl/conntrack.h: every hit stamps last_seen
// with "now"; a hit on a NAT forward entry stamps the forward AND the reverse
// (tracking) entry with the same "now"; return traffic hits only the reverse.
func (h *H) packet(where string, c *conn, dir int, flip int) {
	h.advance(int64(h.r.Src.Range(1, 1000, "pkt_dt_ns")), 0)
	now := h.ktime
	ct := h.ct
	switch c.kind {
	case kNormal:
		e, ok := ct.m[string(c.key[:])]
		if !ok || e.conn != c.id {
			if c.proto == conntrack.ProtoTCP && flip != flipSyn {
				h.r.Probe("pkt_midflow_miss")
				return
			}
			h.r.Logf("  [%s] pkt c%d: miss, new flow entry", where, c.id)
			h.installConn(c, now, stNew)
			return
		}
		put64(e.val[offLastSeen:], now)
		h.tcpFlip(c, e.val, now, flip)
		h.r.Logf("  [%s] pkt c%d: last_seen=%d%s", where, c.id, now, flipName(flip))
	case kNAT:
		if dir == 0 {
			k, ok := ct.m[string(c.fwdKey[:])]
			if !ok || k.conn != c.id {
				if ok {
					// the forward key now belongs to a newer connection
					return
				}
				if c.proto == conntrack.ProtoTCP && flip != flipSyn {
					h.r.Probe("pkt_midflow_miss")
					return
				}
				h.r.Logf("  [%s] pkt c%d via fwd: miss, new NAT flow", where, c.id)
				h.installConn(c, now, stNew)
				return
			}
			rk := string(k.val[offRevKey : offRevKey+ctKeySize])
			rv, rok := ct.m[rk]
			if !rok {
				// "The secondary entry might have been deleted because of LRU.
				// Hence it is better to delete the fwd entry."
				delete(ct.m, string(c.fwdKey[:]))
				h.r.Probe("pkt_fwd_hit_no_reverse")
				h.r.Logf("  [%s] pkt c%d via fwd: reverse missing, kernel dropped the fwd entry", where, c.id)
				if c.proto != conntrack.ProtoTCP && h.r.Src.Chance(500, "pkt_renat") {
					h.renat(where, c, now)
				}
				return
			}
			put64(k.val[offLastSeen:], now)
			put64(rv.val[offLastSeen:], now)
			h.tcpFlip(c, rv.val, now, flip)
			h.r.Logf("  [%s] pkt c%d via fwd: fwd+rev last_seen=%d%s", where, c.id, now, flipName(flip))
		} else {
			rv, rok := ct.m[string(c.key[:])]
			if !rok || rv.conn != c.id {
				return
			}
			put64(rv.val[offLastSeen:], now)
			h.tcpFlip(c, rv.val, now, flip)
			h.r.Logf("  [%s] pkt c%d via rev: rev last_seen=%d%s", where, c.id, now, flipName(flip))
		}
	}
}

func flipName(f int) string {
	return []string{"", " +handshake", " +finA", " +finB", " +rst", " +syn"}[f]
}

// tcpFlip moves the TCP state bits of a tracking entry (ct_tcp_entry_update and
// the RST stamping in calico_ct_lookup, restated).
func (h *H) tcpFlip(c *conn, val []byte, now int64, flip int) {
	if c.proto != conntrack.ProtoTCP {
		return
	}
	a := le32(val[offLegAB+legBitsOff:])
	b := le32(val[offLegBA+legBitsOff:])
	switch flip {
	case flipHandshake:
		a |= bitSyn | bitAck
		b |= bitSyn | bitAck
	case flipFinA:
		a |= bitFin
	case flipFinB:
		b |= bitFin
	case flipRst:
		a |= bitRst
		put64(val[offRSTStamp:], now)
	case flipNone, flipSyn:
		// plain data: residual traffic after a RST clears the leg bits but keeps
		// the stamp; the stamp itself is dropped after two minutes of traffic.
		if (a|b)&bitRst != 0 && b&bitAck != 0 {
			a &^= bitRst
			b &^= bitRst
			h.r.Probe("rst_residual_state")
		} else if st := le64(val[offRSTStamp:]); st != 0 && now-st > int64(2*time.Minute) {
			put64(val[offRSTStamp:], 0)
		}
	}
	put32(val[offLegAB+legBitsOff:], a)
	put32(val[offLegBA+legBitsOff:], b)
}

// lruEvict silently drops one entry (one leg) as the kernel's LRU does.
func (h *H) lruEvict(where string) {
	ks := h.ct.sortedKeys()
	if len(ks) == 0 {
		return
	}
	k := ks[h.r.Src.Intn(len(ks), "evict_idx")]
	h.r.Fault("lru_evict")
	h.r.Logf("  [%s] LRU evicts %s", where, h.kname(k))
	delete(h.ct.m, k)
}
