// Engine ctsim (C14): the real conntrack.Scanner + LivenessScanner (+
// StaleNATScanner) with the real cachingmap cleanup queue and the real v4
// key/value encodings, run against an in-memory conntrack map and cleanup-queue
// map whose every call is a yield point, a packet source, separate kernel/Go
// clocks and a Go transliteration of the kernel-side cleaner.
package h_ctsim

import (
	"fmt"
	"net"
	"testing"
	"time"

	"github.com/projectcalico/calico/felix/bpf/conntrack"
	"github.com/projectcalico/calico/felix/bpf/conntrack/timeouts"

	"verifsim/core"
)

func TestSim(t *testing.T) {
	core.Main(t, "ctsim", []string{"C14"}, run)
}

const (
	modeCleaner  = 0
	modeFallback = 1

	kNormal = 0
	kNAT    = 1

	stNew = -1 // entry state "as created by the first packet of a flow"
)

type conn struct {
	id      int
	kind    int
	proto   uint8
	key     conntrack.Key // plain: the entry; NAT: the reverse (tracking) entry
	fwdKey  conntrack.Key // NAT only
	svc     int           // service index, -1 if none
	backend int
	ba      bool // plain entry stored with the source on the B side
	dsr     bool
	snat    uint16
}

type natModel struct {
	nSvc       int
	nBackends  int
	member     [][]bool // svc -> backend -> is a backend
	programmed []bool   // svc -> frontend programmed
	scans      int
}

func svcIP(s int) net.IP     { return net.IPv4(10, 96, 0, byte(s+1)) }
func svcPort(s int) uint16   { return uint16(80 + s) }
func backIP(b int) net.IP    { return net.IPv4(10, 1, 0, byte(b+1)) }
func backPort(b int) uint16  { return uint16(8080 + b) }
func clientIP(id int) net.IP { return net.IPv4(10, 0, byte(id/200), byte(id%200+1)) }
func clientPort(id int) uint16 {
	return uint16(20000 + id)
}

func (n *natModel) has(s, b int) bool { return n.programmed[s] && n.member[s][b] }

func (n *natModel) ConntrackScanStart() { n.scans++ }
func (n *natModel) ConntrackScanEnd()   {}
func (n *natModel) ConntrackFrontendHasBackend(ip net.IP, port uint16, bip net.IP, bport uint16, proto uint8) bool {
	for s := 0; s < n.nSvc; s++ {
		if !n.programmed[s] || !ip.Equal(svcIP(s)) || port != svcPort(s) {
			continue
		}
		for b := 0; b < n.nBackends; b++ {
			if n.member[s][b] && bip.Equal(backIP(b)) && bport == backPort(b) {
				return true
			}
		}
	}
	return false
}
func (n *natModel) ConntrackDestIsService(ip net.IP, port uint16, proto uint8) bool {
	for s := 0; s < n.nSvc; s++ {
		if n.programmed[s] && ip.Equal(svcIP(s)) && port == svcPort(s) {
			return true
		}
	}
	return false
}

var _ conntrack.NATChecker = (*natModel)(nil)

// H is the state of one simulated run.
type H struct {
	r            *core.R
	mode         int
	withStaleNAT bool
	to           timeouts.Timeouts
	ktime        int64
	gotime       time.Time
	ct, ccq      *bpfMap
	scanner      *conntrack.Scanner
	nat          *natModel
	conns        []*conn
	keyConn      map[string]int
	maxConns     int
	nextGen      int
	ccqGenAtScan int

	chaos        bool
	inScan       bool
	ctIterActive bool
	yields int

	evCount []int
	evKinds []int

	pIterErr, pGetErr, pCCQErr, pCleanerErr int

	obs       map[string]map[int64]int64
	absent    map[string]bool
	fwdJudged map[string]fwdJudgement
	// tracking keys removed by the cleanup as expired and not re-created since
	expiredRemoved map[string]bool
	hot       []int
	curSnap   *iterSnap

	verdicts, deletions, cleanerRuns, ccqWrites, ktimeLookups int
}

func (h *H) modeName() string {
	if h.mode == modeCleaner {
		return "kernel-cleaner"
	}
	return "userspace-fallback"
}

// kname renders a conntrack key as connection id + role.
func (h *H) kname(k string) string {
	id, ok := h.keyConn[k]
	if !ok {
		return fmt.Sprintf("key(%x)", k)
	}
	c := h.conns[id]
	role := ""
	if c.kind == kNAT {
		role = ".rev"
		if k == string(c.fwdKey[:]) {
			role = ".fwd"
		}
	}
	return fmt.Sprintf("c%d%s[p%d]", id, role, c.proto)
}

var palette = []time.Duration{
	1 * time.Second, 2 * time.Second, 3 * time.Second, 5 * time.Second, 8 * time.Second, 13 * time.Second,
	20 * time.Second, 30 * time.Second, 45 * time.Second, 60 * time.Second, 90 * time.Second, 120 * time.Second,
	180 * time.Second, 300 * time.Second, 600 * time.Second, 3600 * time.Second,
}

func (h *H) drawTimeout(name string) time.Duration {
	d := palette[h.r.Src.Intn(len(palette), "to_"+name)]
	h.r.Cfg("to_"+name, d.String())
	return d
}

var protos = []uint8{conntrack.ProtoTCP, conntrack.ProtoUDP, conntrack.ProtoICMP, 132}

func mkKey(proto uint8, aip net.IP, aport uint16, bip net.IP, bport uint16, swap bool) conntrack.Key {
	if swap {
		return conntrack.NewKey(proto, bip, bport, aip, aport)
	}
	return conntrack.NewKey(proto, aip, aport, bip, bport)
}

// newConn draws a new connection (not yet installed in the map).
func (h *H) newConn() *conn {
	r := h.r
	c := &conn{id: len(h.conns), svc: -1}
	c.proto = protos[r.Src.Weighted([]int{5, 3, 1, 1}, "conn_proto")]
	c.kind = r.Src.Weighted([]int{5, 5}, "conn_kind")
	cip, cport := clientIP(c.id), clientPort(c.id)
	switch c.kind {
	case kNormal:
		c.ba = r.Src.Chance(300, "conn_ba")
		if c.proto != conntrack.ProtoTCP && r.Src.Chance(150, "conn_to_svc") {
			c.svc = r.Src.Intn(h.nat.nSvc, "conn_svc")
			c.key = mkKey(c.proto, cip, cport, svcIP(c.svc), svcPort(c.svc), c.ba)
		} else {
			c.key = mkKey(c.proto, cip, cport, net.IPv4(10, 2, 0, 1), 443, c.ba)
		}
	case kNAT:
		c.svc = r.Src.Intn(h.nat.nSvc, "conn_svc")
		c.backend = r.Src.Intn(h.nat.nBackends, "conn_backend")
		c.dsr = c.proto == conntrack.ProtoTCP && r.Src.Chance(120, "conn_dsr")
		rport := cport
		if r.Src.Chance(120, "conn_snat") {
			c.snat = uint16(40000 + c.id)
			rport = c.snat
		}
		c.fwdKey = mkKey(c.proto, cip, cport, svcIP(c.svc), svcPort(c.svc), r.Src.Chance(400, "conn_fwd_swap"))
		c.key = mkKey(c.proto, cip, rport, backIP(c.backend), backPort(c.backend), r.Src.Chance(400, "conn_rev_swap"))
	}
	h.conns = append(h.conns, c)
	return c
}

// legs draws / builds TCP leg state.  st==stNew: state left by the first packet.
func (h *H) legs(c *conn, st int) (a, b conntrack.Leg, rst bool, residual bool) {
	a, b = conntrack.Leg{Approved: true, Opener: true}, conntrack.Leg{}
	if c.proto != conntrack.ProtoTCP {
		return
	}
	a.SynSeen = true
	switch st {
	case stNew, 0: // SYN sent
	case 1: // SYN+ACK seen
		b.SynSeen, b.AckSeen = true, true
	case 2: // established
		a.AckSeen, b.SynSeen, b.AckSeen = true, true, true
	case 3: // one FIN
		a.AckSeen, b.SynSeen, b.AckSeen = true, true, true
		a.FinSeen = true
	case 4: // both FINs
		a.AckSeen, b.SynSeen, b.AckSeen = true, true, true
		a.FinSeen, b.FinSeen = true, true
	case 5: // RST
		a.AckSeen, b.SynSeen, b.AckSeen = true, true, true
		b.RstSeen = true
		rst = true
	case 6: // established again after a RST (stamp left behind)
		a.AckSeen, b.SynSeen, b.AckSeen = true, true, true
		residual = true
	case 7: // one FIN the other way
		a.AckSeen, b.SynSeen, b.AckSeen = true, true, true
		b.FinSeen = true
	}
	if c.ba {
		a, b = b, a
	}
	return
}

// installConn writes the connection's entries with last_seen ls.
func (h *H) installConn(c *conn, ls int64, st int) {
	a, b, rst, residual := h.legs(c, st)
	stamp := func(v *conntrack.Value) {
		if rst {
			put64(v[offRSTStamp:], ls)
		} else if residual {
			put64(v[offRSTStamp:], ls-int64(time.Second))
		}
	}
	switch c.kind {
	case kNormal:
		flags := uint32(0)
		if c.ba {
			flags |= 1 << 8 // FlagSrcDstBA
		}
		v := conntrack.NewValueNormal(time.Duration(ls), flags, a, b)
		stamp(&v)
		h.checkEncoding(c, v[:], typNormal, ls, a, b)
		h.ct.put(string(c.key[:]), v[:], c.id)
		h.keyConn[string(c.key[:])] = c.id
	case kNAT:
		flags := uint32(0)
		if c.dsr {
			flags |= flagDSR
			h.r.Probe("dsr_entry")
		}
		rv := conntrack.NewValueNATReverse(time.Duration(ls), flags, a, b, nil, svcIP(c.svc), svcPort(c.svc))
		stamp(&rv)
		h.checkEncoding(c, rv[:], typRev, ls, a, b)
		h.ct.put(string(c.key[:]), rv[:], c.id)
		h.keyConn[string(c.key[:])] = c.id
		// calico_ct_create_nat_fwd runs after the tracking entry was created and
		// reads the clock again.
		var fls int64
		if st == stNew {
			h.advance(int64(h.r.Src.Range(1, 500, "create_dt_ns")), 0)
			fls = h.ktime
		} else {
			// initial population: an old pair.  The last packet either went through
			// the forward entry (both stamps equal) or was return traffic (the
			// forward entry is older).
			fls = ls - int64(h.r.Src.Range(0, 3, "init_fwd_older_s"))*int64(time.Second)
		}
		fv := conntrack.NewValueNATForward(time.Duration(fls), 0, c.key)
		if c.snat != 0 {
			fv.SetNATSport(c.snat)
		}
		h.ct.put(string(c.fwdKey[:]), fv[:], c.id)
		h.keyConn[string(c.fwdKey[:])] = c.id
	}
}

// checkEncoding: the bytes produced by the real constructors must read back,
// through the kernel ABI offsets, as what was asked for.
func (h *H) checkEncoding(c *conn, v []byte, typ uint8, ls int64, a, b conntrack.Leg) {
	s := decode(v)
	bits := func(l conntrack.Leg) uint32 {
		var x uint32
		if l.SynSeen {
			x |= bitSyn
		}
		if l.AckSeen {
			x |= bitAck
		}
		if l.FinSeen {
			x |= bitFin
		}
		if l.RstSeen {
			x |= bitRst
		}
		return x
	}
	ok := s.typ == typ && s.ls == ls && s.a&0xf == bits(a) && s.b&0xf == bits(b) && s.dsr == (c.dsr && typ == typRev) && len(v) == ctValSize
	if !ok {
		h.r.Violation("encoding_abi", "value built by the real constructor does not match the kernel layout: type=%d last_seen=%d legs=%x/%x dsr=%v, want type=%d last_seen=%d legs=%x/%x",
			s.typ, s.ls, s.a, s.b, s.dsr, typ, ls, bits(a), bits(b))
	}
}

// createConn is the packet-source action "first packet of a new flow".
func (h *H) createConn(where string, initial bool) {
	if len(h.conns) >= h.maxConns {
		return
	}
	c := h.newConn()
	if !initial {
		h.advance(int64(h.r.Src.Range(1, 1000, "pkt_dt_ns")), 0)
		h.installConn(c, h.ktime, stNew)
		h.r.Logf("  [%s] new flow c%d kind=%d proto=%d", where, c.id, c.kind, c.proto)
		return
	}
	// initial population: arbitrary state and age, biased to the timeout boundary
	st := 0
	if c.proto == conntrack.ProtoTCP {
		st = h.r.Src.Intn(8, "init_tcp_state")
	}
	// compute the reference timeout of that state to place the age around it
	a, b, rst, residual := h.legs(c, st)
	_ = rst
	tmp := conntrack.NewValueNormal(0, 0, a, b)
	if residual {
		put64(tmp[offRSTStamp:], 1)
	}
	if c.dsr {
		tmp[offFlags] |= flagDSR
	}
	to := int64(refTimeout(h.to, c.proto, decode(tmp[:])))
	var age int64
	switch h.r.Src.Weighted([]int{3, 2, 2, 2, 2, 3, 2, 2}, "init_age") {
	case 0:
		age = to / 2
	case 1:
		age = to - 1
	case 2:
		age = to
	case 3:
		age = to + 1
	case 4:
		age = to + int64(1500*time.Millisecond)
	case 5:
		age = 2 * to
	case 6:
		age = to - int64(800*time.Millisecond)
	case 7:
		age = int64(h.r.Src.Range(0, 20, "init_age_s")) * int64(time.Second)
	}
	if age < 0 {
		age = 0
	}
	h.installConn(c, h.ktime-age, st)
	h.r.Logf("init c%d kind=%d proto=%d state=%d age=%v (timeout %v)", c.id, c.kind, c.proto, st, time.Duration(age), time.Duration(to))
}

// renat: after the kernel dropped a forward entry whose reverse was missing, the
// same packet starts a new NAT flow, possibly to another backend.
func (h *H) renat(where string, old *conn, now int64) {
	if len(h.conns) >= h.maxConns+8 {
		return
	}
	c := &conn{id: len(h.conns), kind: kNAT, proto: old.proto, svc: old.svc, fwdKey: old.fwdKey, snat: old.snat}
	c.backend = h.r.Src.Intn(h.nat.nBackends, "conn_backend")
	rport := clientPort(old.id)
	if c.snat != 0 {
		rport = c.snat
	}
	c.key = mkKey(c.proto, clientIP(old.id), rport, backIP(c.backend), backPort(c.backend), h.r.Src.Chance(400, "conn_rev_swap"))
	h.conns = append(h.conns, c)
	h.installConn(c, now, stNew)
	h.r.Probe("fwd_key_recreated")
	h.r.Logf("  [%s] new NAT flow c%d re-uses the forward key of c%d, backend %d", where, c.id, old.id, c.backend)
}

func (h *H) newScanner() {
	ls := conntrack.NewLivenessScanner(h.to, false, conntrack.WithTimeShim(simClock{h}))
	scanners := []conntrack.EntryScanner{&obsScanner{h: h, inner: ls, name: "liveness"}}
	if h.withStaleNAT {
		scanners = append(scanners, &obsScanner{h: h, inner: conntrack.NewStaleNATScanner(h.nat), name: "stalenat"})
	}
	var cl conntrack.Cleaner
	if h.mode == modeCleaner {
		cl = &kcleaner{h: h}
	}
	h.scanner = conntrack.NewScanner(h.ct, conntrack.KeyFromBytes, conntrack.ValueFromBytes, nil, "Disabled", h.ccq, 4, cl, scanners...)
	if h.scanner == nil {
		h.r.HarnessError("NewScanner returned nil")
	}
}

func (h *H) scan(label string) {
	h.r.Op("%s: Scan (mode %s, ktime=%d, %d entries)", label, h.modeName(), h.ktime, len(h.ct.m))
	h.hot = h.hot[:0]
	h.ccqGenAtScan = h.nextGen
	h.inScan = true
	h.scanner.Scan()
	h.inScan = false
	h.hot = h.hot[:0]
}

func run(r *core.R) {
	r.FaultDecl("ct_iter_error_start", "ct_iter_error_mid", "ct_get_error", "ccq_update_error", "ccq_delete_error", "ccq_load_error",
		"cleaner_run_error", "lru_evict", "clock_skew_kernel_ahead", "clock_skew_go_ahead", "scanner_restart", "nat_backend_churn")
	r.ProbeDecl("removed_expired_tracking", "pair_removed_together", "fwd_removed_before_expired_rev", "fwd_removed_no_reverse", "fwd_removed_after_expired_rev", "fwd_removed_rev_vanished",
		"removed_stale_nat", "stale_nat_immediate", "cleaner_skipped_refreshed", "cleaner_fwd_repointed_skip", "stale_ccq_entry_processed",
		"stale_snapshot_judged", "equal_ts_pair_judged", "tolerated_iterdelete_recreated", "rst_residual_state", "dsr_entry",
		"pkt_midflow_miss", "pkt_fwd_hit_no_reverse", "fwd_key_recreated", "liveness_due_entries", "boundary_exact_idle_kept",
		"cleaner_ran_mid_iteration", "fallback_removed", "quiesce_boundary_jump")

	h := &H{r: r, keyConn: map[string]int{}, obs: map[string]map[int64]int64{}, absent: map[string]bool{}, fwdJudged: map[string]fwdJudgement{}, expiredRemoved: map[string]bool{}}
	thorough := r.Tier == "thorough"

	// ---- swarm configuration
	h.mode = r.Src.Weighted([]int{7, 3}, "mode")
	r.Cfg("mode", h.modeName())
	h.withStaleNAT = r.Src.Chance(600, "with_stale_nat")
	r.Cfg("stale_nat_scanner", h.withStaleNAT)
	h.to = timeouts.Timeouts{
		CreationGracePeriod: h.drawTimeout("grace"),
		TCPSynSent:          h.drawTimeout("syn_sent"),
		TCPEstablished:      h.drawTimeout("established"),
		TCPFinsSeen:         h.drawTimeout("fins_seen"),
		TCPResetSeen:        h.drawTimeout("reset_seen"),
		UDPTimeout:          h.drawTimeout("udp"),
		GenericTimeout:      h.drawTimeout("generic"),
		ICMPTimeout:         h.drawTimeout("icmp"),
	}
	h.ktime = int64(10*time.Hour) + int64(r.Src.Intn(1000000, "ktime0"))
	h.gotime = time.Date(2024, 1, 1, 0, 0, 0, 0, time.UTC)
	salt := uint64(r.Src.Intn(1<<30, "map_salt"))
	h.ct = newBPFMap(h, "cali_v4_ct", true, ctKeySize, ctValSize, salt)
	h.ccq = newBPFMap(h, "cali_v4_ccq", false, ctKeySize, ccqValSize, salt^0x9e37)
	if h.mode == modeCleaner {
		h.ct.batch = r.Src.Range(1, 8, "iter_batch")
	}
	r.Cfg("iter_batch", h.ct.batch)
	nInit := r.Src.Range(1, 16, "n_init")
	if thorough {
		nInit = r.Src.Range(1, 32, "n_init")
	}
	h.maxConns = nInit + r.Src.Range(0, 8, "n_extra")
	big := r.Src.Chance(12, "big")
	if thorough {
		big = r.Src.Chance(25, "big")
	}
	if big {
		// enough expired entries to make the scanner run the cleaner in mid-iteration
		nInit = r.Src.Range(1300, 1500, "n_init_big")
		h.maxConns = nInit + 4
	}
	r.Cfg("n_init", nInit)
	r.Cfg("max_conns", h.maxConns)
	nScans := r.Src.Range(1, 6, "n_scans")
	r.Cfg("n_scans", nScans)
	h.nat = &natModel{nSvc: r.Src.Range(1, 3, "n_svc"), nBackends: r.Src.Range(1, 4, "n_backends")}
	for s := 0; s < h.nat.nSvc; s++ {
		row := make([]bool, h.nat.nBackends)
		for b := range row {
			row[b] = !r.Src.Chance(300, "backend_absent")
		}
		h.nat.member = append(h.nat.member, row)
		h.nat.programmed = append(h.nat.programmed, !r.Src.Chance(150, "svc_unprogrammed"))
	}
	// how busy the rest of the world is at a yield point: number of events
	busy := r.Src.Intn(3, "busy")
	h.evCount = [][]int{{850, 120, 25, 5}, {650, 270, 60, 20}, {450, 380, 120, 50}}[busy]
	r.Cfg("busy", busy)
	h.evKinds = make([]int, evN)
	h.evKinds[evPacket] = 60
	h.evKinds[evTickSmall] = 15
	for _, k := range []struct {
		ev, w, p int
		name    string
	}{{evTickLarge, 6, 600, "tick_large"}, {evSkewKernel, 3, 400, "skew_kernel"}, {evSkewGo, 3, 400, "skew_go"}, {evCreate, 8, 700, "create"}, {evEvict, 4, 500, "evict"}} {
		if r.Src.Chance(k.p, "enable_"+k.name) {
			h.evKinds[k.ev] = k.w
		}
	}
	rate := func(name string) int {
		v := []int{0, 0, 15, 50, 150}[r.Src.Intn(5, "rate_"+name)]
		r.Cfg("rate_"+name, v)
		return v
	}
	h.pIterErr, h.pGetErr, h.pCCQErr, h.pCleanerErr = rate("iter_err"), rate("get_err"), rate("ccq_err"), rate("cleaner_err")

	// ---- initial population
	for i := 0; i < nInit; i++ {
		h.createConn("init", true)
	}
	h.newScanner()

	// ---- chaos phase
	h.chaos = true
	for sc := 0; sc < nScans; sc++ {
		h.between(sc)
		h.scan(fmt.Sprintf("scan %d", sc))
	}

	// ---- quiesce: packets and faults stop, three scans two seconds apart
	h.chaos = false
	h.advance(int64(2500*time.Millisecond), int64(2500*time.Millisecond))
	h.boundaryJump()
	var due []string
	for _, k := range h.ct.sortedKeys() {
		if h.due(k) {
			due = append(due, k)
		} else if e := h.ct.m[k]; e.val[offType] != typFwd {
			s := decode(e.val)
			if time.Duration(h.ktime-s.ls) == refTimeout(h.to, keyProto(k), s) {
				r.Probe("boundary_exact_idle_kept")
			}
		}
	}
	dueGen := map[string]int{}
	for _, k := range due {
		dueGen[k] = h.ct.m[k].gen
		r.Probe("liveness_due_entries")
	}
	r.Logf("quiesce: %d entries, %d due", len(h.ct.m), len(due))
	for i := 0; i < 3; i++ {
		h.scan(fmt.Sprintf("quiesce scan %d", i))
		h.advance(int64(2*time.Second), int64(2*time.Second))
	}
	if r.Armed("C14") {
		for _, k := range due {
			e, ok := h.ct.m[k]
			r.Check("idle_entry_not_removed", !ok || e.gen != dueGen[k],
				"mode %s: %s was idle past its timeout when packets stopped and is still in the conntrack map after 3 fault-free scans (value: type=%d last_seen=%d, ktime=%d)",
				h.modeName(), h.kname(k), h.typeOf(k), h.lsOf(k), h.ktime)
		}
	}
	left := [3]int{}
	for _, k := range h.ct.sortedKeys() {
		left[h.ct.m[k].val[offType]%3]++
	}
	r.Fingerprint(fmt.Sprintf("%s|%v|left=%v|del=%d|verdicts=%d|due=%d", h.modeName(), h.withStaleNAT, left, h.deletions, h.verdicts, len(due)))
}

func (h *H) typeOf(k string) int {
	if e, ok := h.ct.m[k]; ok {
		return int(e.val[offType])
	}
	return -1
}

func (h *H) lsOf(k string) int64 {
	if e, ok := h.ct.m[k]; ok {
		return le64(e.val[offLastSeen:])
	}
	return -1
}

// between: what the world does between two scans.
func (h *H) between(sc int) {
	r := h.r
	n := r.Src.Range(0, 8, "between_n")
	for i := 0; i < n; i++ {
		switch r.Src.Weighted([]int{30, 25, 10, 10, 5, 4}, "between_op") {
		case 0:
			h.randomPacket("between")
		case 1:
			h.timeJump()
		case 2:
			h.createConn("between", false)
		case 3:
			// service / backend churn (only between scans: the real NAT checker is
			// locked between ConntrackScanStart and ConntrackScanEnd)
			s := r.Src.Intn(h.nat.nSvc, "churn_svc")
			if r.Src.Chance(250, "churn_programmed") {
				h.nat.programmed[s] = !h.nat.programmed[s]
				r.Logf("  service %d programmed=%v", s, h.nat.programmed[s])
			} else {
				b := r.Src.Intn(h.nat.nBackends, "churn_backend")
				h.nat.member[s][b] = !h.nat.member[s][b]
				r.Logf("  service %d backend %d member=%v", s, b, h.nat.member[s][b])
			}
			r.Fault("nat_backend_churn")
		case 4:
			if h.evKinds[evEvict] > 0 {
				h.lruEvict("between")
			}
		case 5:
			// Felix restarts: fresh scanner objects over the surviving maps
			r.Fault("scanner_restart")
			r.Logf("  felix restart: new Scanner")
			h.newScanner()
		}
	}
}

// timeJump advances both clocks, by a fixed step or right up to the moment an
// entry crosses its timeout.
func (h *H) timeJump() {
	r := h.r
	var d int64
	switch r.Src.Weighted([]int{3, 2, 2, 2, 3, 4}, "jump_kind") {
	case 0:
		d = int64(time.Millisecond)
	case 1:
		d = int64(900 * time.Millisecond)
	case 2:
		d = int64(1100 * time.Millisecond)
	case 3:
		d = int64(2 * time.Second)
	case 4:
		d = int64(10 * time.Second)
	case 5:
		ks := h.ct.sortedKeys()
		if len(ks) == 0 {
			return
		}
		k := ks[r.Src.Intn(len(ks), "jump_entry")]
		e := h.ct.m[k]
		if e.val[offType] == typFwd {
			rk := string(e.val[offRevKey : offRevKey+ctKeySize])
			if re, ok := h.ct.m[rk]; ok && re.val[offType] != typFwd {
				k, e = rk, re
			} else {
				return
			}
		}
		s := decode(e.val)
		target := s.ls + int64(refTimeout(h.to, keyProto(k), s)) + []int64{-1, 0, 1, int64(time.Millisecond), int64(1200 * time.Millisecond)}[r.Src.Intn(5, "jump_delta")]
		d = target - h.ktime
		if d <= 0 {
			return
		}
	}
	r.Logf("  time +%v", time.Duration(d))
	h.advance(d, d)
}

// boundaryJump (start of the quiesce phase): land the clocks exactly on, one
// nanosecond before, or one nanosecond after the instant at which one not yet
// expired tracking entry crosses its timeout.  The scanner's cached kernel
// time is refreshed by the first judgement of the next scan (Go time moved by
// more than a second), so that scan judges with exactly this "now".
func (h *H) boundaryJump() {
	r := h.r
	var cands []string
	for _, k := range h.ct.sortedKeys() {
		e := h.ct.m[k]
		if e.val[offType] == typFwd {
			continue
		}
		s := decode(e.val)
		if s.ls+int64(refTimeout(h.to, keyProto(k), s)) >= h.ktime+1 {
			cands = append(cands, k)
		}
	}
	if len(cands) == 0 || !r.Src.Chance(700, "quiesce_boundary") {
		return
	}
	k := cands[r.Src.Intn(len(cands), "quiesce_boundary_entry")]
	s := decode(h.ct.m[k].val)
	delta := []int64{0, 1, -1}[r.Src.Intn(3, "quiesce_boundary_delta")]
	d := s.ls + int64(refTimeout(h.to, keyProto(k), s)) + delta - h.ktime
	if d <= 0 {
		return
	}
	r.Logf("quiesce: time +%v to the timeout boundary of %s (%+dns)", time.Duration(d), h.kname(k), delta)
	r.Probe("quiesce_boundary_jump")
	h.advance(d, d)
}
