// Oracles of engine ctsim (property C14).
package h_ctsim

import (
	"fmt"
	"time"

	"golang.org/x/sys/unix"

	"github.com/projectcalico/calico/felix/bpf/conntrack"
	"github.com/projectcalico/calico/felix/bpf/conntrack/timeouts"
)

// entState is the protocol state of a tracking entry decoded with the kernel
// ABI offsets (kernel_test.go), not with the Go accessors under test.
type entState struct {
	typ      uint8
	ls       int64
	rstStamp int64
	a, b     uint32
	dsr      bool
}

func decode(val []byte) entState {
	return entState{
		typ:      val[offType],
		ls:       le64(val[offLastSeen:]),
		rstStamp: le64(val[offRSTStamp:]),
		a:        le32(val[offLegAB+legBitsOff:]),
		b:        le32(val[offLegBA+legBitsOff:]),
		dsr:      val[offFlags]&flagDSR != 0,
	}
}

// refTimeout is the reference timeout table of C14, parameterised by the
// drawn Timeouts: an entry may be removed once it has been idle for longer than
// the shortest timeout that applies to its protocol and state.
//
//	TCP, RST seen on a leg                   -> TCPResetSeen
//	TCP, FIN seen on both legs (DSR: one)    -> TCPFinsSeen
//	TCP, established (or DSR)                -> TCPEstablished
//	     ... with a RST stamp left by a RST followed by residual traffic -> 2 min
//	TCP, handshake not complete              -> TCPSynSent
//	UDP -> UDPTimeout, ICMP -> ICMPTimeout, anything else -> GenericTimeout
func refTimeout(t timeouts.Timeouts, proto uint8, s entState) time.Duration {
	switch proto {
	case conntrack.ProtoTCP:
		best := time.Duration(-1)
		add := func(d time.Duration) {
			if best < 0 || d < best {
				best = d
			}
		}
		if (s.a|s.b)&bitRst != 0 {
			add(t.TCPResetSeen)
		}
		if (s.a&bitFin != 0 && s.b&bitFin != 0) || (s.dsr && (s.a|s.b)&bitFin != 0) {
			add(t.TCPFinsSeen)
		}
		est := s.a&(bitSyn|bitAck) == bitSyn|bitAck && s.b&(bitSyn|bitAck) == bitSyn|bitAck
		if est || s.dsr {
			add(t.TCPEstablished)
			if s.rstStamp != 0 {
				add(2 * time.Minute)
			}
		} else {
			add(t.TCPSynSent)
		}
		return best
	case conntrack.ProtoICMP, conntrack.ProtoICMP6:
		return t.ICMPTimeout
	case conntrack.ProtoUDP:
		return t.UDPTimeout
	}
	return t.GenericTimeout
}

func keyProto(k string) uint8 { return uint8(le32([]byte(k[0:4]))) }

// ---------------------------------------------------------------- observations (judgements)

// observe records that the scanner looked at tracking entry k and saw value v
// at the current true kernel time.  It is the raw material of a "judgement".
func (h *H) observe(k string, v []byte) {
	if v[offType] == typFwd {
		return
	}
	ls := le64(v[offLastSeen:])
	m := h.obs[k]
	if m == nil {
		m = map[int64]int64{}
		h.obs[k] = m
	}
	if t, ok := m[ls]; !ok || h.ktime > t {
		m[ls] = h.ktime
	}
}

// observeAbsent records that while judging forward entry fk (seen with
// last_seen fls) the scanner found its reverse key rk absent.
func (h *H) observeAbsent(fk string, fls int64, rk string) {
	h.absent[fmt.Sprintf("%s|%s|%d", fk, rk, fls)] = true
}

// obsScanner wraps a real EntryScanner and records what it was shown.
type obsScanner struct {
	h     *H
	inner conntrack.EntryScanner
	name  string
}

func (o *obsScanner) IterationStart() {
	if s, ok := o.inner.(conntrack.EntryScannerSynced); ok {
		s.IterationStart()
	}
}

func (o *obsScanner) IterationEnd() {
	if s, ok := o.inner.(conntrack.EntryScannerSynced); ok {
		s.IterationEnd()
	}
}

func (o *obsScanner) Check(k conntrack.KeyInterface, v conntrack.ValueInterface, get conntrack.EntryGet) (conntrack.ScanVerdict, int64) {
	h := o.h
	ks := string(k.AsBytes())
	vb := append([]byte(nil), v.AsBytes()...)
	fls := le64(vb[offLastSeen:])
	type seenKV struct {
		k string
		v []byte
	}
	seen := []seenKV{{ks, vb}}
	var revSeen int64 = -1
	var revVal []byte
	var revKey string
	wget := func(kk conntrack.KeyInterface) (conntrack.ValueInterface, error) {
		val, err := get(kk)
		if err == nil {
			revKey = string(kk.AsBytes())
			revVal = append([]byte(nil), val.AsBytes()...)
			seen = append(seen, seenKV{revKey, revVal})
			revSeen = le64(revVal[offLastSeen:])
		} else if err == unix.ENOENT {
			h.observeAbsent(ks, fls, string(kk.AsBytes()))
		}
		return val, err
	}
	verdict, ts := o.inner.Check(k, v, wget)
	// The judgement is made at the instant the verdict is returned: what the
	// scanner was shown is recorded against the true kernel time of that instant
	// (the scanner's own idea of "now" is never later than that).
	for _, s := range seen {
		h.observe(s.k, s.v)
	}
	if verdict != conntrack.ScanVerdictOK {
		h.r.Logf("  %s: %s verdict=%d ts=%d (entry last_seen=%d, true ktime=%d)", o.name, h.kname(ks), verdict, ts, fls, h.ktime)
		h.verdicts++
		if id, ok := h.keyConn[ks]; ok {
			h.hot = append(h.hot, id)
		}
		if verdict == conntrack.ScanVerdictDeleteImmediate {
			h.r.Probe("stale_nat_immediate")
		}
	}
	if vb[offType] == typFwd && revSeen >= 0 && revVal[offType] != typFwd {
		st := decode(revVal)
		exp := time.Duration(h.ktime-st.ls) > refTimeout(h.to, keyProto(ks), st)
		if j, ok := h.fwdJudged[ks]; !ok || j.fls != fls || exp || !j.revExpired {
			h.fwdJudged[ks] = fwdJudgement{fls: fls, rls: revSeen, rk: revKey, revExpired: exp}
		}
		if verdict != conntrack.ScanVerdictOK && revSeen == fls {
			h.r.Probe("equal_ts_pair_judged")
		}
	}
	return verdict, ts
}

// fwdJudgement: what the scanner saw when it judged a forward entry whose
// reverse entry existed.
type fwdJudgement struct {
	fls, rls   int64
	rk         string
	revExpired bool // the reverse entry seen was idle past its timeout at that instant
}

var _ conntrack.EntryScannerSynced = (*obsScanner)(nil)

// ---------------------------------------------------------------- safety: every kernel-side removal must be justified

type delRec struct {
	key  string
	val  []byte
	gen  int
	conn int
}

// kernelDelete removes keys from the conntrack map as ONE atomic kernel step
// (one process_ccq_entry call, or one delete-by-key) and judges the removal.
func (h *H) kernelDelete(channel string, keys []string, snap *iterSnap) {
	var dels []delRec
	for _, k := range keys {
		e, ok := h.ct.m[k]
		if !ok {
			continue
		}
		dels = append(dels, delRec{key: k, val: e.val, gen: e.gen, conn: e.conn})
		delete(h.ct.m, k)
	}
	for _, d := range dels {
		h.deletions++
		if channel == "iterdelete" && h.mode == modeFallback {
			h.r.Probe("fallback_removed")
		}
		h.r.Logf("  %s removes %s (last_seen=%d, ktime=%d)", channel, h.kname(d.key), le64(d.val[offLastSeen:]), h.ktime)
	}
	if !h.r.Armed("C14") {
		return
	}
	for _, d := range dels {
		if channel == "iterdelete" && snap != nil && snap.gen != d.gen {
			// Delete-by-key after a batched read hit an entry that was re-created
			// in between: tolerated, see engines/ctsim.json.
			h.r.Probe("tolerated_iterdelete_recreated")
			continue
		}
		switch d.val[offType] {
		case typFwd:
			h.judgeFwd(channel, d, dels)
		default:
			h.judgeTracking(channel, d)
		}
	}
}

// expiredUnchanged: was there a judgement of tracking entry k at which it had
// been idle for longer than its timeout, and is its last_seen still the one
// seen at that judgement?
func (h *H) expiredUnchanged(k string, val []byte) (ok bool, why string) {
	s := decode(val)
	to := refTimeout(h.to, keyProto(k), s)
	t, seen := h.obs[k][s.ls]
	if !seen {
		return false, fmt.Sprintf("no judgement ever saw last_seen=%d (judged values: %s): it carried traffic since it was judged, or was never judged", s.ls, h.obsString(k))
	}
	if time.Duration(t-s.ls) > to {
		return true, ""
	}
	return false, fmt.Sprintf("at its judgement (ktime=%d) it had been idle for %v, not longer than the timeout %v of its protocol/state (proto=%d legs=%x/%x dsr=%v rst_stamp=%d)",
		t, time.Duration(t-s.ls), to, keyProto(k), s.a, s.b, s.dsr, s.rstStamp)
}

func (h *H) obsString(k string) string {
	m := h.obs[k]
	ls := make([]int64, 0, len(m))
	for l := range m {
		ls = append(ls, l)
	}
	sortInt64(ls)
	s := ""
	for _, l := range ls {
		s += fmt.Sprintf("%d@%d ", l, m[l])
	}
	if s == "" {
		return "none"
	}
	return s
}

// staleNATJustifies restates the stale-NAT rules on the harness' own model of
// services and connections: non-TCP only; a NAT connection whose backend is no
// longer a backend of its service; a plain entry whose destination is a service
// frontend (created on a NAT miss).
func (h *H) staleNATJustifies(channel string, d delRec) bool {
	if !h.withStaleNAT || channel != "iterdelete" || d.conn < 0 || keyProto(d.key) == conntrack.ProtoTCP {
		return false
	}
	c := h.conns[d.conn]
	switch c.kind {
	case kNAT:
		return !h.nat.has(c.svc, c.backend)
	case kNormal:
		return c.svc >= 0 && h.nat.programmed[c.svc]
	}
	return false
}

func (h *H) judgeTracking(channel string, d delRec) {
	ok, why := h.expiredUnchanged(d.key, d.val)
	if ok {
		h.r.Eval()
		h.r.Probe("removed_expired_tracking")
		h.expiredRemoved[d.key] = true
		return
	}
	if h.staleNATJustifies(channel, d) {
		h.r.Eval()
		h.r.Probe("removed_stale_nat")
		return
	}
	oracle := "removed_unexpired_entry"
	if _, seen := h.obs[d.key][le64(d.val[offLastSeen:])]; !seen {
		oracle = "removed_refreshed_entry"
	}
	h.r.Violation(oracle, "%s removed %s in mode %s: %s", channel, h.kname(d.key), h.modeName(), why)
}

func (h *H) judgeFwd(channel string, d delRec, group []delRec) {
	rk := string(d.val[offRevKey : offRevKey+ctKeySize])
	fls := le64(d.val[offLastSeen:])
	for _, g := range group {
		if g.key == rk {
			// removed together with its tracking entry, whose own judgement decides
			h.r.Eval()
			h.r.Probe("pair_removed_together")
			return
		}
	}
	if h.staleNATJustifies(channel, d) {
		h.r.Eval()
		h.r.Probe("removed_stale_nat")
		return
	}
	if rv, ok := h.ct.m[rk]; ok {
		// The tracking entry stays behind: the pair must have been expired at a
		// judgement and the tracking entry must not have carried traffic since.
		ok2, why := h.expiredUnchanged(rk, rv.val)
		if ok2 {
			h.r.Eval()
			h.r.Probe("fwd_removed_before_expired_rev")
			return
		}
		j := h.fwdJudged[d.key]
		h.r.Violation("fwd_removed_pair_live", "%s removed forward entry %s in mode %s while its reverse entry %s is still present and %s. "+
			"At the forward entry's judgement: fwd.last_seen=%d rev.last_seen=%d equal_at_judgement=%v; at removal fwd.last_seen=%d rev.last_seen=%d",
			channel, h.kname(d.key), h.modeName(), h.kname(rk), why, j.fls, j.rls, j.fls == j.rls && j.fls != 0, fls, le64(rv.val[offLastSeen:]))
		return
	}
	// forward entry without reverse entry
	if h.expiredRemoved[rk] {
		// its tracking entry was already removed as expired (the two legs were
		// queued separately); the pair is dead
		h.r.Eval()
		h.r.Probe("fwd_removed_after_expired_rev")
		return
	}
	if h.absent[fmt.Sprintf("%s|%s|%d", d.key, rk, fls)] {
		h.r.Eval()
		h.r.Probe("fwd_removed_no_reverse")
		return
	}
	if j, ok := h.fwdJudged[d.key]; ok && j.rk == rk && j.fls == fls && j.revExpired {
		// judged as an expired pair; no packet went through the forward entry since,
		// and the tracking entry has meanwhile vanished (LRU): nothing live is left
		h.r.Eval()
		h.r.Probe("fwd_removed_rev_vanished")
		return
	}
	h.r.Violation("fwd_removed_unjudged", "%s removed forward entry %s (last_seen=%d) in mode %s; its reverse entry is absent, but no judgement saw this "+
		"forward entry with that last_seen and a missing reverse entry", channel, h.kname(d.key), fls, h.modeName())
}

// ---------------------------------------------------------------- liveness

// due: with packets stopped, must this entry be gone after a few scans?
func (h *H) due(k string) bool {
	e, ok := h.ct.m[k]
	if !ok {
		return false
	}
	switch e.val[offType] {
	case typFwd:
		rk := string(e.val[offRevKey : offRevKey+ctKeySize])
		if _, ok := h.ct.m[rk]; !ok {
			return true
		}
		if h.ct.m[rk].val[offType] == typFwd {
			return false
		}
		return h.due(rk)
	default:
		s := decode(e.val)
		return time.Duration(h.ktime-s.ls) > refTimeout(h.to, keyProto(k), s)
	}
}

func sortInt64(a []int64) {
	for i := 1; i < len(a); i++ {
		for j := i; j > 0 && a[j] < a[j-1]; j-- {
			a[j], a[j-1] = a[j-1], a[j]
		}
	}
}
