// Kernel-side model for engine xtables (C15): one iptables table held as
// chains -> rule lines, an `iptables-save` renderer and an
// `iptables-restore` interpreter with per-transaction atomicity and the
// kernel's reference checks.  Written for this work; deliberately NOT derived
// from felix/iptables/testutils (that mock is the repository's own test double
// and must not double as the oracle).
package h_xtables

import (
	"errors"
	"fmt"
	"strconv"
	"strings"
)

// krule is one rule as the kernel holds it.
type krule struct {
	raw  string   // rule specification exactly as the writer gave it (text after "-A <chain> ")
	toks []string // canonical tokens: quotes removed, long options folded to the short form
}

type kernel struct {
	table    string
	builtins []string
	chains   map[string][]krule
	order    []string // creation order (save output order)
	nft      bool     // iptables-nft semantics for chain deletion
}

var longToShort = map[string]string{
	"--jump": "-j", "--goto": "-g", "--match": "-m", "--protocol": "-p",
	"--in-interface": "-i", "--out-interface": "-o", "--source": "-s", "--destination": "-d",
}

// Terminal targets the modelled kernel knows (extensions are "loaded").
var builtinTargets = map[string]bool{
	"ACCEPT": true, "DROP": true, "RETURN": true, "REJECT": true, "LOG": true, "MARK": true,
	"NFLOG": true, "MASQUERADE": true, "SNAT": true, "DNAT": true, "NOTRACK": true, "CONNMARK": true,
	"CT": true, "DSCP": true, "TCPMSS": true, "QUEUE": true,
}

// tokenize splits a rule specification on blanks, honouring double quotes.
func tokenize(s string) ([]string, error) {
	var out []string
	i := 0
	for i < len(s) {
		for i < len(s) && s[i] == ' ' {
			i++
		}
		if i >= len(s) {
			break
		}
		if s[i] == '"' {
			j := strings.IndexByte(s[i+1:], '"')
			if j < 0 {
				return nil, errors.New("unterminated quote")
			}
			out = append(out, s[i+1:i+1+j])
			i = i + 1 + j + 1
			continue
		}
		j := i
		for j < len(s) && s[j] != ' ' {
			j++
		}
		out = append(out, s[i:j])
		i = j
	}
	return out, nil
}

func canon(toks []string) []string {
	out := make([]string, len(toks))
	for i, t := range toks {
		if s, ok := longToShort[t]; ok {
			out[i] = s
		} else {
			out[i] = t
		}
	}
	return out
}

func mkRule(spec string) (krule, error) {
	t, err := tokenize(spec)
	if err != nil {
		return krule{}, err
	}
	return krule{raw: spec, toks: canon(t)}, nil
}

func mustRule(spec string) krule {
	r, err := mkRule(spec)
	if err != nil {
		panic("harness: bad rule spec " + spec)
	}
	return r
}

func (r krule) equal(o krule) bool {
	if len(r.toks) != len(o.toks) {
		return false
	}
	for i := range r.toks {
		if r.toks[i] != o.toks[i] {
			return false
		}
	}
	return true
}

// target returns the jump/goto target of the rule ("" if none) and whether it is a goto.
func (r krule) target() (string, bool) {
	for i := 0; i+1 < len(r.toks); i++ {
		if r.toks[i] == "-j" {
			return r.toks[i+1], false
		}
		if r.toks[i] == "-g" {
			return r.toks[i+1], true
		}
	}
	return "", false
}

// comments returns the values of all --comment options, in order.
func (r krule) comments() []string {
	var out []string
	for i := 0; i+1 < len(r.toks); i++ {
		if r.toks[i] == "--comment" {
			out = append(out, r.toks[i+1])
		}
	}
	return out
}

const noQuoteChars = "_-0123456789abcdefghijklmnopqrstuvwxyzABCDEFGHIJKLMNOPQRSTUVWXYZ"

// normalized renders the rule the way iptables-save prints parsed rules: short
// options, comment strings quoted only when they hold a character outside the
// safe set.
func (r krule) normalized() string {
	var b strings.Builder
	for i, t := range r.toks {
		if i > 0 {
			b.WriteByte(' ')
		}
		if i > 0 && r.toks[i-1] == "--comment" && strings.Trim(t, noQuoteChars) != "" {
			b.WriteByte('"')
			b.WriteString(t)
			b.WriteByte('"')
		} else {
			b.WriteString(t)
		}
	}
	return b.String()
}

func newKernel(table string, builtins []string, nft bool) *kernel {
	k := &kernel{table: table, builtins: builtins, chains: map[string][]krule{}, nft: nft}
	for _, c := range builtins {
		k.chains[c] = nil
		k.order = append(k.order, c)
	}
	return k
}

func (k *kernel) isBuiltin(c string) bool {
	for _, b := range k.builtins {
		if b == c {
			return true
		}
	}
	return false
}

func (k *kernel) has(c string) bool { _, ok := k.chains[c]; return ok }

func (k *kernel) clone() *kernel {
	n := &kernel{table: k.table, builtins: k.builtins, chains: make(map[string][]krule, len(k.chains)), nft: k.nft}
	n.order = append([]string(nil), k.order...)
	for c, rs := range k.chains {
		n.chains[c] = append([]krule(nil), rs...)
	}
	return n
}

func (k *kernel) createChain(c string) {
	if !k.has(c) {
		k.chains[c] = nil
		k.order = append(k.order, c)
	}
}

func (k *kernel) removeChain(c string) {
	delete(k.chains, c)
	for i, n := range k.order {
		if n == c {
			k.order = append(k.order[:i:i], k.order[i+1:]...)
			break
		}
	}
}

// referenced reports whether any rule jumps or goes to chain c.
func (k *kernel) referenced(c string) bool {
	for _, n := range k.order {
		for _, r := range k.chains[n] {
			if t, _ := r.target(); t == c {
				return true
			}
		}
	}
	return false
}

func (k *kernel) checkTarget(r krule) error {
	t, _ := r.target()
	if t == "" || builtinTargets[t] || k.has(t) {
		return nil
	}
	return fmt.Errorf("Couldn't load target `%s':No such file or directory", t)
}

// save renders the table as iptables-save does.  verbatim echoes every rule as
// it was written; otherwise rules are printed in the normalised form.
func (k *kernel) save(verbatim bool, version string) string {
	var b strings.Builder
	fmt.Fprintf(&b, "# Generated by iptables-save v%s on Sat Jan  1 00:00:00 2022\n*%s\n", version, k.table)
	for _, c := range k.order {
		if k.isBuiltin(c) {
			fmt.Fprintf(&b, ":%s ACCEPT [%d:%d]\n", c, 10+len(c), 100*len(c))
		} else {
			fmt.Fprintf(&b, ":%s - [0:0]\n", c)
		}
	}
	for _, c := range k.order {
		for _, r := range k.chains[c] {
			if verbatim {
				fmt.Fprintf(&b, "-A %s %s\n", c, r.raw)
			} else {
				fmt.Fprintf(&b, "-A %s %s\n", c, r.normalized())
			}
		}
	}
	b.WriteString("COMMIT\n# Completed on Sat Jan  1 00:00:00 2022\n")
	return b.String()
}

// dump is a canonical, order-stable rendering for logs and fingerprints.
func (k *kernel) dump() string {
	var b strings.Builder
	for _, c := range k.order {
		fmt.Fprintf(&b, "[%s]", c)
		for _, r := range k.chains[c] {
			b.WriteString(" {" + r.normalized() + "}")
		}
		b.WriteByte('\n')
	}
	return b.String()
}

type restoreResult struct {
	committed int      // transactions committed
	mentioned []string // chains named by any line (in order of first mention)
	lines     int
	err       error
	errLine   string
}

// splitCmd separates "<cmd> <chain> <rest>" of a rule command line.
func splitCmd(line string) (cmd, chain, rest string) {
	parts := strings.SplitN(line, " ", 3)
	cmd = parts[0]
	if len(parts) > 1 {
		chain = parts[1]
	}
	if len(parts) > 2 {
		rest = parts[2]
	}
	return
}

// parseMentioned lists the chains an iptables-restore input touches, without executing it.
func parseMentioned(input string) []string {
	seen := map[string]bool{}
	var out []string
	for _, line := range strings.Split(input, "\n") {
		line = strings.TrimRight(line, " \r")
		if line == "" || line[0] == '#' || line[0] == '*' || line == "COMMIT" {
			continue
		}
		var c string
		if line[0] == ':' {
			c = strings.SplitN(line[1:], " ", 2)[0]
		} else {
			_, c, _ = splitCmd(line)
		}
		if c != "" && !seen[c] {
			seen[c] = true
			out = append(out, c)
		}
	}
	return out
}

// restore interprets an iptables-restore input.  Each *table ... COMMIT block
// is atomic: a failing line discards the block and aborts the command; blocks
// committed earlier in the same input stay.  failTxn>0 makes the command die
// just before committing transaction number failTxn (1-based) — an injected
// fault.  noflush=false wipes the table at the *table line as the real tool does.
func (k *kernel) restore(input string, noflush bool, failTxn int) restoreResult {
	res := restoreResult{mentioned: parseMentioned(input)}
	var work *kernel
	var refAtStart map[string]bool
	txn := 0
	fail := func(line string, err error) restoreResult {
		res.err = err
		res.errLine = line
		return res
	}
	for _, line := range strings.Split(input, "\n") {
		line = strings.TrimRight(line, " \r")
		if line == "" || line[0] == '#' {
			continue
		}
		res.lines++
		if line[0] == '*' {
			if work != nil {
				return fail(line, errors.New("table line inside a transaction"))
			}
			if line[1:] != k.table {
				return fail(line, fmt.Errorf("can't initialize table `%s'", line[1:]))
			}
			work = k.clone()
			txn++
			if !noflush {
				for _, c := range append([]string(nil), work.order...) {
					if work.isBuiltin(c) {
						work.chains[c] = nil
					} else {
						work.removeChain(c)
					}
				}
			}
			refAtStart = map[string]bool{}
			for c := range work.chains {
				if work.referenced(c) {
					refAtStart[c] = true
				}
			}
			continue
		}
		if work == nil {
			return fail(line, errors.New("no table specified before this line"))
		}
		if line == "COMMIT" {
			if failTxn == txn {
				return fail(line, errors.New("injected: iptables-restore died before COMMIT took effect"))
			}
			if l := work.findLoop(); l != "" {
				return fail(line, fmt.Errorf("Too many levels of symbolic links (loop via %s)", l))
			}
			k.chains, k.order = work.chains, work.order
			work = nil
			res.committed++
			continue
		}
		if line[0] == ':' {
			f := strings.Fields(line[1:])
			if len(f) < 2 {
				return fail(line, errors.New("bad chain declaration"))
			}
			c := f[0]
			if work.isBuiltin(c) {
				continue // policy only
			}
			if f[1] != "-" {
				return fail(line, errors.New("policy on a user-defined chain"))
			}
			if work.has(c) {
				work.chains[c] = nil // --noflush: an existing user chain is flushed
			} else {
				work.createChain(c)
			}
			continue
		}
		cmd, c, rest := splitCmd(line)
		switch cmd {
		case "-A", "--append", "-I", "--insert", "-R", "--replace", "-D", "--delete":
			if !work.has(c) {
				return fail(line, errors.New("No chain/target/match by that name"))
			}
			idx := -1
			if cmd != "-A" && cmd != "--append" {
				first := strings.SplitN(rest, " ", 2)
				if n, err := strconv.Atoi(first[0]); err == nil {
					idx = n
					rest = ""
					if len(first) > 1 {
						rest = first[1]
					}
				}
			}
			rs := work.chains[c]
			switch cmd {
			case "-D", "--delete":
				if idx >= 0 {
					if rest != "" {
						return fail(line, errors.New("unexpected argument after rule number"))
					}
					if idx < 1 || idx > len(rs) {
						return fail(line, errors.New("Index of deletion too big"))
					}
					work.chains[c] = append(rs[:idx-1:idx-1], rs[idx:]...)
					continue
				}
				r, err := mkRule(rest)
				if err != nil {
					return fail(line, err)
				}
				found := -1
				for i := range rs {
					if rs[i].equal(r) {
						found = i
						break
					}
				}
				if found < 0 {
					return fail(line, errors.New("Bad rule (does a matching rule exist in that chain?)"))
				}
				work.chains[c] = append(rs[:found:found], rs[found+1:]...)
				continue
			}
			r, err := mkRule(rest)
			if err != nil {
				return fail(line, err)
			}
			if err := work.checkTarget(r); err != nil {
				return fail(line, err)
			}
			switch cmd {
			case "-A", "--append":
				work.chains[c] = append(rs[:len(rs):len(rs)], r)
			case "-I", "--insert":
				if idx < 0 {
					idx = 1
				}
				if idx < 1 || idx > len(rs)+1 {
					return fail(line, errors.New("Index of insertion too big"))
				}
				n := make([]krule, 0, len(rs)+1)
				n = append(n, rs[:idx-1]...)
				n = append(n, r)
				n = append(n, rs[idx-1:]...)
				work.chains[c] = n
			case "-R", "--replace":
				if idx < 1 || idx > len(rs) {
					return fail(line, errors.New("Index of replacement too big"))
				}
				n := append([]krule(nil), rs...)
				n[idx-1] = r
				work.chains[c] = n
			}
		case "-F", "--flush":
			if !work.has(c) {
				return fail(line, errors.New("No chain/target/match by that name"))
			}
			work.chains[c] = nil
		case "-N", "--new-chain":
			if work.has(c) {
				return fail(line, errors.New("Chain already exists"))
			}
			work.createChain(c)
		case "-X", "--delete-chain":
			if rest != "" {
				return fail(line, errors.New("unexpected argument to --delete-chain"))
			}
			if !work.has(c) {
				return fail(line, errors.New("No chain/target/match by that name"))
			}
			if work.isBuiltin(c) {
				return fail(line, errors.New("Can't delete built-in chain"))
			}
			if len(work.chains[c]) > 0 {
				return fail(line, errors.New("Directory not empty"))
			}
			if work.referenced(c) {
				return fail(line, errors.New("Too many links"))
			}
			if work.nft && refAtStart[c] {
				// iptables-nft-restore computes references from the state at the start of the batch.
				return fail(line, errors.New("Device or resource busy"))
			}
			work.removeChain(c)
		default:
			return fail(line, fmt.Errorf("unknown command %q", cmd))
		}
	}
	if work != nil {
		return fail("", errors.New("COMMIT expected at end of input"))
	}
	return res
}
