// Command shim for engine xtables: the cmdshim.CmdIface the real Table talks
// to.  Every save / restore / version invocation lands here, where faults,
// foreign edits, crashes and the per-restore oracles are placed.
package h_xtables

import (
	"errors"
	"fmt"
	"io"
	"regexp"
	"strings"
	"time"

	"github.com/projectcalico/calico/felix/iptables/cmdshim"
	"github.com/projectcalico/calico/felix/netlinkshim"
)

// simCrash is thrown from inside a command to model the Felix process dying at that point.
type simCrash struct{ where string }

var cmdNameRe = regexp.MustCompile(`^ip(6?)tables(-legacy|-nft)?-(save|restore)$`)

type simCmd struct {
	h      *harness
	name   string
	args   []string
	kind   string // "save", "restore", "version"
	stdin  io.Reader
	stdout io.Writer
	stderr io.Writer

	// save state
	fault   int
	pipe    *simPipe
	started bool
}

const (
	sfNone = iota
	sfPipe
	sfStart
	sfRead
	sfTorn
	sfWait
	sfNftIncompat
)

var saveFaultNames = []string{"", "save_pipe_error", "save_start_error", "save_read_error", "save_torn_output", "save_exit_error", "save_nft_incompatible"}

func (h *harness) newCmd(name string, args ...string) cmdshim.CmdIface {
	c := &simCmd{h: h, name: name, args: args}
	if name == "iptables" || name == "ip6tables" {
		c.kind = "version"
		return c
	}
	m := cmdNameRe.FindStringSubmatch(name)
	if m == nil {
		h.r.Violation("unexpected_command", "Table executed unknown command %q %v", name, args)
	}
	c.kind = m[3]
	wantV6 := h.cfg.ipVersion == 6
	if (m[1] == "6") != wantV6 {
		h.r.Violation("wrong_binary", "IPv%d table executed %q", h.cfg.ipVersion, name)
	}
	if (m[2] == "-legacy" && h.cfg.backend == "nft") || (m[2] == "-nft" && h.cfg.backend == "legacy") {
		h.r.Violation("wrong_binary", "backend %s table executed %q", h.cfg.backend, name)
	}
	if _, err := h.lookPath(name); err != nil {
		h.r.Violation("wrong_binary", "table executed %q which lookPath reports missing", name)
	}
	h.cmdsThisApply++
	if h.cmdsThisApply > 400 {
		h.r.Violation("apply_livelock", "one Table call issued more than 400 commands without returning")
	}
	return c
}

func (c *simCmd) String() string           { return c.name + " " + strings.Join(c.args, " ") }
func (c *simCmd) SetStdin(r io.Reader)     { c.stdin = r }
func (c *simCmd) SetStdout(w io.Writer)    { c.stdout = w }
func (c *simCmd) SetStderr(w io.Writer)    { c.stderr = w }
func (c *simCmd) Kill() error              { return nil }
func (c *simCmd) unsupported(m string) error {
	c.h.r.Violation("unexpected_command", "%s called on %s command", m, c.kind)
	return nil
}

// ---- version

func (c *simCmd) Output() ([]byte, error) {
	h := c.h
	switch c.kind {
	case "version":
		if h.faultsOn && h.cfg.fVersion && h.r.Src.Chance(30, "fault_version") {
			h.r.Fault("version_cmd_error")
			return nil, errors.New("injected: iptables --version failed")
		}
		return []byte(fmt.Sprintf("iptables v%s (%s)\n", h.cfg.iptVersion, h.cfg.backend)), nil
	case "save":
		// diagnostics dump before the documented panic
		h.r.Probe("diag_save_before_panic")
		return []byte(h.k.save(h.cfg.verbatim, h.cfg.iptVersion)), nil
	}
	return nil, c.unsupported("Output")
}

// ---- save

type simPipe struct {
	data    []byte
	pos     int
	errAt   int // -1: never
	closed  bool
	readErr bool
}

func (p *simPipe) Read(b []byte) (int, error) {
	if p.closed {
		return 0, errors.New("read on closed pipe")
	}
	if p.errAt >= 0 && p.pos >= p.errAt {
		p.readErr = true
		return 0, errors.New("injected: read error on iptables-save stdout")
	}
	if p.pos >= len(p.data) {
		return 0, io.EOF
	}
	lim := len(p.data)
	if p.errAt >= 0 && p.errAt < lim {
		lim = p.errAt
	}
	n := copy(b, p.data[p.pos:lim])
	p.pos += n
	return n, nil
}

func (p *simPipe) Close() error { p.closed = true; return nil }

func (c *simCmd) StdoutPipe() (io.ReadCloser, error) {
	if c.kind != "save" {
		return nil, c.unsupported("StdoutPipe")
	}
	h := c.h
	if len(c.args) != 2 || c.args[0] != "-t" || c.args[1] != h.k.table {
		h.r.Violation("unexpected_command", "save invoked with args %v for table %s", c.args, h.k.table)
	}
	c.fault = sfNone
	if h.saveBurst > 0 {
		h.saveBurst--
		c.fault = 1 + h.r.Src.Intn(5, "save_burst_kind")
	} else if h.faultsOn && h.r.Src.Chance(h.cfg.pSave, "fault_save") {
		n := 5
		if h.cfg.backend == "nft" {
			n = 6
		}
		c.fault = 1 + h.r.Src.Intn(n, "save_fault_kind")
	}
	if c.fault == sfPipe {
		h.saveFailed(c.fault)
		return nil, errors.New("injected: StdoutPipe failed")
	}
	c.pipe = &simPipe{errAt: -1}
	return c.pipe, nil
}

func (h *harness) saveFailed(kind int) {
	h.r.Fault(saveFaultNames[kind])
	h.consecSaveFail++
	if h.consecSaveFail > h.maxConsecSaveFail {
		h.maxConsecSaveFail = h.consecSaveFail
	}
}

func (c *simCmd) Start() error {
	if c.kind != "save" || c.pipe == nil {
		return c.unsupported("Start")
	}
	h := c.h
	h.advance(h.cmdDuration("save"))
	if c.fault == sfStart {
		h.saveFailed(c.fault)
		return errors.New("injected: fork/exec failed")
	}
	h.maybeCrash("save")
	c.started = true
	out := h.k.save(h.cfg.verbatim, h.cfg.iptVersion)
	switch c.fault {
	case sfRead:
		c.pipe.data = []byte(out)
		c.pipe.errAt = h.r.Src.Intn(len(out), "save_read_err_at")
	case sfTorn:
		c.pipe.data = []byte(out[:h.r.Src.Intn(len(out), "save_torn_at")])
	case sfNftIncompat:
		c.pipe.data = []byte("# Table `" + h.k.table + "' is incompatible, use 'nft' tool.\n" + out)
	default:
		c.pipe.data = []byte(out)
	}
	// The snapshot the Table is about to parse reflects the kernel as of now.
	c.h.readGen = c.h.foreignGen
	return nil
}

func (c *simCmd) Wait() error {
	if c.kind != "save" {
		return c.unsupported("Wait")
	}
	h := c.h
	if !c.started {
		return errors.New("wait: command not started")
	}
	switch c.fault {
	case sfRead, sfTorn, sfWait, sfNftIncompat:
		h.saveFailed(c.fault)
		if c.fault == sfNftIncompat {
			return nil // the real tool exits 0 after printing the marker line
		}
		return errors.New("injected: exit status 1")
	}
	// A complete, successful read-back.
	h.consecSaveFail = 0
	if h.inApply {
		h.savesThisApply++
		if h.readGen == h.foreignGen {
			h.foreignSinceRead = false
			h.rejectCredit = false
		}
		h.haveRead = true
	}
	return nil
}

// ---- restore

func (c *simCmd) Run() error {
	if c.kind != "restore" {
		return c.unsupported("Run")
	}
	h := c.h
	r := h.r
	noflush, verbose := false, false
	for i := 0; i < len(c.args); i++ {
		switch c.args[i] {
		case "--noflush":
			noflush = true
		case "--verbose":
			verbose = true
		case "--wait", "--wait-interval":
			if !h.lockSupported() {
				r.Violation("unexpected_command", "restore given %s but this iptables version has no lock support", c.args[i])
			}
			i++
		default:
			r.Violation("unexpected_command", "restore invoked with unknown argument %q", c.args[i])
		}
	}
	_ = verbose
	in, err := io.ReadAll(c.stdin)
	if err != nil {
		r.HarnessError("cannot read restore stdin: %v", err)
	}
	input := string(in)
	h.advance(h.cmdDuration("restore"))
	h.restoresThisApply++
	h.restoresTotal++

	// Another program may edit the table between our save and this restore.
	if h.faultsOn && h.cfg.fForeignMid && r.Src.Chance(h.cfg.pForeignMid, "fault_foreign_mid") {
		r.Fault("foreign_edit_between_save_and_restore")
		h.foreignEdits("mid-apply")
	}
	crash := 0
	if h.faultsOn && h.cfg.fCrash && r.Src.Chance(h.cfg.pCrash, "fault_crash_restore") {
		crash = 1 + r.Src.Intn(2, "crash_restore_when")
	}
	if crash == 1 {
		r.Fault("crash_before_restore")
		panic(simCrash{"before restore"})
	}

	ntxn := strings.Count(input, "\nCOMMIT")
	failTxn := 0
	injected := false
	if h.restoreBurst > 0 {
		h.restoreBurst--
		failTxn, injected = 1, true
	} else if h.faultsOn && r.Src.Chance(h.cfg.pRestore, "fault_restore") {
		failTxn, injected = 1, true
		if ntxn > 1 && r.Src.Chance(500, "fault_restore_second_txn") {
			failTxn = 2
		}
	}

	before := h.k.clone()
	if !h.quiet {
		r.Logf("restore #%d (%d lines, %d txn)%s", h.restoresTotal, strings.Count(input, "\n"), ntxn, map[bool]string{true: " [fault injected]", false: ""}[injected])
	}
	if h.traceInput {
		for _, l := range strings.Split(strings.TrimRight(input, "\n"), "\n") {
			r.Logf("   | %s", l)
		}
	}
	h.checkMinimality(before, input)
	res := h.k.restore(input, noflush, failTxn)
	h.checkIsolation(before, h.k, fmt.Sprintf("restore #%d", h.restoresTotal))

	if res.err != nil {
		if injected {
			if failTxn == 2 {
				r.Fault("restore_fail_after_first_txn")
			} else {
				r.Fault("restore_fail_no_effect")
			}
		} else {
			r.Probe("restore_rejected_by_kernel")
			r.Logf("  kernel rejected line %q: %v", res.errLine, res.err)
			if !h.rejectCredit && !h.inInsertNow {
				r.Violation("restore_rejected_fresh_view",
					"the kernel rejected Felix's restore input at %q (%v) although nothing had edited the table since Felix's last read-back "+
						"(or Felix retried a rejected input without re-reading)\ninput:\n%s\nkernel before:\n%s", res.errLine, res.err, input, before.dump())
			}
			h.rejectCredit = false
		}
		h.consecRestoreFail++
		if h.consecRestoreFail > h.maxConsecRestoreFail {
			h.maxConsecRestoreFail = h.consecRestoreFail
		}
		if h.consecRestoreFail > 1 {
			r.Probe("restore_retried_after_failure")
		}
		if c.stderr != nil {
			fmt.Fprintf(c.stderr, "iptables-restore: line failed: %v\n", res.err)
		}
		return errors.New("exit status 1")
	}
	if h.consecRestoreFail > 0 {
		r.Probe("restore_succeeded_after_retry")
	}
	for _, c := range before.order {
		if felixChain(c) && !h.k.has(c) && h.m.chains[c] == nil {
			r.Probe("stale_chain_removed")
		}
		if !felixChain(c) && h.k.has(c) {
			nb, na := 0, 0
			for _, kr := range before.chains[c] {
				if _, isTok := tokenOf(kr); h.ownedRule(kr) && !isTok {
					nb++
				}
			}
			for _, kr := range h.k.chains[c] {
				if _, isTok := tokenOf(kr); h.ownedRule(kr) && !isTok {
					na++
				}
			}
			if na < nb {
				r.Probe("old_insert_removed")
			}
		}
	}
	h.consecRestoreFail = 0
	if ntxn > 1 {
		r.Probe("restore_two_transactions")
	}
	if c.stdout != nil {
		fmt.Fprintf(c.stdout, "Flushing chain ...\n")
	}
	if crash == 2 {
		r.Fault("crash_after_restore_commit")
		panic(simCrash{"after restore"})
	}
	return nil
}

func (h *harness) maybeCrash(where string) {
	if h.faultsOn && h.cfg.fCrash && h.inApply && h.r.Src.Chance(h.cfg.pCrash, "fault_crash_"+where) {
		h.r.Fault("crash_during_" + where)
		panic(simCrash{where})
	}
}

// ---- clock

func (h *harness) advance(d time.Duration) {
	h.now = h.now.Add(d)
	h.r.AddSimTime(d)
}

func (h *harness) sleep(d time.Duration) {
	if d < 0 {
		h.r.Violation("negative_sleep", "Table slept for %v", d)
	}
	h.advance(d)
}

func (h *harness) cmdDuration(kind string) time.Duration {
	if !h.cfg.slowCmds {
		return 3 * time.Millisecond
	}
	switch h.r.Src.Weighted([]int{70, 20, 8, 2}, "cmd_duration") {
	case 0:
		return 3 * time.Millisecond
	case 1:
		return 80 * time.Millisecond
	case 2:
		return 900 * time.Millisecond
	}
	h.r.Probe("very_slow_command")
	return 7 * time.Second
}

func (h *harness) lockSupported() bool { return h.cfg.iptVersion != "1.4.7" && h.cfg.iptVersion != "1.6.0" }

func (h *harness) lookPath(file string) (string, error) {
	switch h.cfg.lookPath {
	case 1:
		if strings.Contains(file, "legacy") {
			return "", errors.New("not found")
		}
	case 2:
		if strings.Contains(file, "nft") {
			return "", errors.New("not found")
		}
	case 3:
		if strings.Contains(file, "legacy") || strings.Contains(file, "nft") {
			return "", errors.New("not found")
		}
	}
	return "/usr/sbin/" + file, nil
}

// ---- netlink stub for the feature detector (only the strict-check probe is used)

type nlStub struct{ netlinkshim.Interface }

func (nlStub) SetStrictCheck(bool) error { return nil }
func (nlStub) Delete()                   {}

type opRecorder struct{}

func (opRecorder) RecordOperation(string) {}
