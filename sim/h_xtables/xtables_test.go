// Engine xtables (C15): the real felix/iptables.Table (legacy and nft backend
// modes, insert and append mode) driven over a simulated kernel table
// (kernel_test.go) behind NewCmdOverride, with a simulated clock, injected
// save/restore failures, foreign edits, crashes and restarts.
package h_xtables

import (
	"fmt"
	"io"
	"sort"
	"strings"
	"testing"
	"time"

	"github.com/sirupsen/logrus"

	"github.com/projectcalico/calico/felix/environment"
	"github.com/projectcalico/calico/felix/generictables"
	"github.com/projectcalico/calico/felix/iptables"
	"github.com/projectcalico/calico/felix/netlinkshim"
	"github.com/projectcalico/calico/felix/rules/rulesdefs"

	"verifsim/core"
)

func TestSim(t *testing.T) {
	core.Main(t, "xtables", []string{"C15"}, run)
}

// Documented tolerances of Table.Apply (table.go: "Retry until we succeed ... we give up
// eventually" / "Retry a few times before we panic"): this many consecutive failures must be
// survived, one more ends in the documented panic, which the harness models as a process restart.
const (
	restoreRetryBudget = 10
	saveRetryBudget    = 3
)

const kubeCleanupPattern = `-j KUBE-[a-zA-Z0-9-]*SERVICES|-j KUBE-FORWARD`

var tableBuiltins = map[string][]string{
	"filter": {"INPUT", "FORWARD", "OUTPUT"},
	"nat":    {"PREROUTING", "INPUT", "OUTPUT", "POSTROUTING"},
	"mangle": {"PREROUTING", "INPUT", "FORWARD", "OUTPUT", "POSTROUTING"},
	"raw":    {"PREROUTING", "OUTPUT"},
}

type config struct {
	table       string
	ipVersion   uint8
	backend     string
	insertMode  string
	refresh     time.Duration
	postWrite   time.Duration
	iptVersion  string
	lookPath    int
	verbatim    bool
	kubeCleanup bool
	slowCmds    bool
	nChains     int
	nTokens     int

	fVersion, fForeignMid, fCrash         bool
	pSave, pRestore, pForeignMid, pCrash int
	fBursts                              bool
}

// ---- desired-state model (what the workload asked the Table for)

type mrule struct {
	tok    int
	kind   int // 0 ACCEPT 1 DROP 2 RETURN 3 jump 4 goto
	target string
	match  int
}

func (m mrule) String() string {
	switch m.kind {
	case 0:
		return fmt.Sprintf("t%d:ACCEPT", m.tok)
	case 1:
		return fmt.Sprintf("t%d:DROP", m.tok)
	case 2:
		return fmt.Sprintf("t%d:RETURN", m.tok)
	case 3:
		return fmt.Sprintf("t%d:j>%s", m.tok, m.target)
	}
	return fmt.Sprintf("t%d:g>%s", m.tok, m.target)
}

func rulesStr(rs []mrule) string {
	s := make([]string, len(rs))
	for i, r := range rs {
		s[i] = r.String()
	}
	return "[" + strings.Join(s, " ") + "]"
}

type mchain struct {
	rules []mrule
	force bool
}

type model struct {
	chains  map[string]*mchain
	inserts map[string][]mrule
	appends map[string][]mrule
}

func newModel() *model {
	return &model{chains: map[string]*mchain{}, inserts: map[string][]mrule{}, appends: map[string][]mrule{}}
}

func (m *model) clone() *model {
	n := newModel()
	for k, c := range m.chains {
		n.chains[k] = &mchain{rules: append([]mrule(nil), c.rules...), force: c.force}
	}
	for k, v := range m.inserts {
		n.inserts[k] = append([]mrule(nil), v...)
	}
	for k, v := range m.appends {
		n.appends[k] = append([]mrule(nil), v...)
	}
	return n
}

// wanted returns the Felix chains that must exist: everything reachable through jumps/gotos
// from the hook rules and from force-programmed chains.
func (m *model) wanted() map[string]bool {
	out := map[string]bool{}
	var visit func(c string)
	visit = func(c string) {
		if out[c] {
			return
		}
		out[c] = true
		if mc := m.chains[c]; mc != nil {
			for _, r := range mc.rules {
				if r.kind >= 3 {
					visit(r.target)
				}
			}
		}
	}
	for _, k := range core.SortedKeys(m.inserts) {
		for _, r := range m.inserts[k] {
			if r.kind >= 3 {
				visit(r.target)
			}
		}
	}
	for _, k := range core.SortedKeys(m.appends) {
		for _, r := range m.appends[k] {
			if r.kind >= 3 {
				visit(r.target)
			}
		}
	}
	for _, c := range core.SortedKeys(m.chains) {
		if m.chains[c].force {
			visit(c)
		}
	}
	return out
}

type verifiedChain struct {
	lines string // kernel content (raw lines; for kernel chains only the Felix-owned lines)
	want  string // desired content at the time
}

type harness struct {
	r   *core.R
	cfg config
	k   *kernel
	now time.Time

	tbl         *iptables.Table
	incarnation int
	m           *model
	prevModel   *model

	faultsOn    bool
	inApply     bool
	inInsertNow bool
	traceInput  bool

	foreignSinceRead bool
	rejectCredit     bool
	haveRead         bool
	foreignGen       int
	readGen          int

	cmdsThisApply        int
	restoresThisApply    int
	savesThisApply       int
	restoresTotal        int
	consecRestoreFail    int
	consecSaveFail       int
	maxConsecRestoreFail int
	maxConsecSaveFail    int
	restoreBurst         int
	saveBurst            int

	verified  map[string]verifiedChain
	snapshots []*kernel
	fseq      int
	lastResch time.Duration
	convClass string

	appliedThisIncarnation bool

	// allowForceDowngrade: may UpdateChain replace a force-programmed chain by a non-forced one?
	// Generator bound: on a tree where that transition leaks reference counts in the Table (a
	// known finding outside C15: a defined-but-unreferenced chain stays programmed) the force
	// flag is sticky per chain.  Decided per run by forceDowngradeLeaks(), a fixed three-call probe.
	allowForceDowngrade bool
	quiet               bool
}

// ---- ownership (restated from the property, not from the Table's regexes): a rule is Felix's if
// it sits in a Felix-prefixed chain, carries a comment starting with the hash prefix, or jumps to a
// Felix-prefixed chain (the pre-hash "old insert" shape); plus the operator-configured cleanup shape.

func felixChain(name string) bool {
	for _, p := range rulesdefs.AllHistoricChainNamePrefixes {
		if strings.HasPrefix(name, p) {
			return true
		}
	}
	return false
}

func (h *harness) ownedRule(r krule) bool {
	for _, c := range r.comments() {
		if strings.HasPrefix(c, rulesdefs.RuleHashPrefix) {
			return true
		}
	}
	t, _ := r.target()
	if t != "" && felixChain(t) {
		return true
	}
	if h.cfg.kubeCleanup && t != "" {
		if t == "KUBE-FORWARD" || (strings.HasPrefix(t, "KUBE-") && strings.HasSuffix(t, "SERVICES")) {
			return true
		}
	}
	return false
}

func (h *harness) foreignLines(rs []krule) []string {
	var out []string
	for _, r := range rs {
		if !h.ownedRule(r) {
			out = append(out, r.raw)
		}
	}
	return out
}

// ---- oracle (a): isolation, on every restore command

func (h *harness) checkIsolation(before, after *kernel, what string) {
	h.r.Eval()
	for _, c := range before.order {
		if felixChain(c) {
			continue
		}
		if !after.has(c) {
			h.r.Violation("isolation", "%s removed non-Felix chain %s\nbefore:\n%s", what, c, before.dump())
		}
		b, a := h.foreignLines(before.chains[c]), h.foreignLines(after.chains[c])
		if strings.Join(b, "\n") != strings.Join(a, "\n") {
			h.r.Violation("isolation", "%s changed other software's rules in chain %s\nbefore: %q\nafter:  %q", what, c, b, a)
		}
	}
	for _, c := range after.order {
		if !felixChain(c) && !before.has(c) {
			h.r.Violation("isolation", "%s created non-Felix chain %s", what, c)
		}
	}
}

// ---- oracle (b): exact convergence

func tokenOf(r krule) (int, bool) {
	for _, c := range r.comments() {
		var n int
		if _, err := fmt.Sscanf(c, "tok%d", &n); err == nil && c == fmt.Sprintf("tok%d", n) {
			return n, true
		}
	}
	return 0, false
}

func kernelRuleMatches(r krule, want mrule) bool {
	tok, ok := tokenOf(r)
	if !ok || tok != want.tok {
		return false
	}
	t, isGoto := r.target()
	switch want.kind {
	case 0:
		return t == "ACCEPT" && !isGoto
	case 1:
		return t == "DROP" && !isGoto
	case 2:
		return t == "RETURN" && !isGoto
	case 3:
		return t == want.target && !isGoto
	}
	return t == want.target && isGoto
}

func linesMatch(rs []krule, want []mrule) bool {
	if len(rs) != len(want) {
		return false
	}
	for i := range rs {
		if !kernelRuleMatches(rs[i], want[i]) {
			return false
		}
	}
	return true
}

func kdesc(rs []krule) string {
	s := make([]string, len(rs))
	for i, r := range rs {
		s[i] = r.normalized()
	}
	return "[" + strings.Join(s, " | ") + "]"
}

// hookLayoutOK checks one non-Felix chain: Felix's hook rules at the configured end in the
// configured order, every other line foreign.
func (h *harness) hookLayoutOK(c string) (bool, string) {
	rs := h.k.chains[c]
	ins, app := h.m.inserts[c], h.m.appends[c]
	nOwned := 0
	for _, r := range rs {
		if h.ownedRule(r) {
			nOwned++
		}
	}
	if nOwned != len(ins)+len(app) {
		return false, fmt.Sprintf("chain %s holds %d Felix-owned rules, want %d (inserts %s appends %s): %s", c, nOwned, len(ins)+len(app), rulesStr(ins), rulesStr(app), kdesc(rs))
	}
	if len(rs) < len(ins)+len(app) {
		return false, "short chain"
	}
	var insAt int
	if h.cfg.insertMode == "insert" {
		insAt = 0
	} else {
		insAt = len(rs) - len(app) - len(ins)
	}
	if !linesMatch(rs[insAt:insAt+len(ins)], ins) {
		return false, fmt.Sprintf("chain %s: inserted hook rules %s not in place (mode %s): %s", c, rulesStr(ins), h.cfg.insertMode, kdesc(rs))
	}
	if !linesMatch(rs[len(rs)-len(app):], app) {
		return false, fmt.Sprintf("chain %s: appended hook rules %s not at the end: %s", c, rulesStr(app), kdesc(rs))
	}
	return true, ""
}

func (h *harness) converged() (bool, string) {
	h.convClass = "converged_after_apply"
	want := h.m.wanted()
	for _, c := range h.k.order {
		if felixChain(c) {
			if !want[c] {
				if h.m.chains[c] != nil {
					h.convClass = "unreferenced_chain_programmed"
					return false, fmt.Sprintf("chain %s is defined but nothing references it (no hook, no forced chain reaches it), yet the Table programmed/kept it", c)
				}
				return false, fmt.Sprintf("Felix-prefixed chain %s exists but is not desired/reachable", c)
			}
			continue
		}
		if ok, msg := h.hookLayoutOK(c); !ok {
			return false, msg
		}
	}
	ws := make([]string, 0, len(want))
	for c := range want {
		ws = append(ws, c)
	}
	sort.Strings(ws)
	for _, c := range ws {
		if !h.k.has(c) {
			return false, fmt.Sprintf("desired chain %s missing from the kernel", c)
		}
		mc := h.m.chains[c]
		if mc == nil {
			return false, fmt.Sprintf("harness: wanted chain %s undefined", c)
		}
		if !linesMatch(h.k.chains[c], mc.rules) {
			return false, fmt.Sprintf("chain %s holds %s, want %s", c, kdesc(h.k.chains[c]), rulesStr(mc.rules))
		}
	}
	return true, ""
}

func rawJoin(rs []krule) string {
	s := make([]string, len(rs))
	for i, r := range rs {
		s[i] = r.raw
	}
	return strings.Join(s, "\n")
}

func (h *harness) ownedJoin(rs []krule) string {
	var s []string
	for _, r := range rs {
		if h.ownedRule(r) {
			s = append(s, r.raw)
		}
	}
	return strings.Join(s, "\n")
}

func (h *harness) wantString(c string) string {
	if felixChain(c) {
		if mc := h.m.chains[c]; mc != nil && h.m.wanted()[c] {
			return "chain:" + rulesStr(mc.rules)
		}
		return "absent"
	}
	return "hooks:" + rulesStr(h.m.inserts[c]) + rulesStr(h.m.appends[c])
}

// recordVerified remembers, after a verified-converged Apply, what every chain held.
func (h *harness) recordVerified() {
	h.verified = map[string]verifiedChain{}
	for _, c := range h.k.order {
		if felixChain(c) {
			h.verified[c] = verifiedChain{lines: rawJoin(h.k.chains[c]), want: h.wantString(c)}
		} else {
			h.verified[c] = verifiedChain{lines: h.ownedJoin(h.k.chains[c]), want: h.wantString(c)}
		}
	}
}

// ---- oracle (c): minimality.  A restore input must not name a chain whose kernel content is
// byte-for-byte what a previous verified Apply left for the very same desired content.
func (h *harness) checkMinimality(before *kernel, input string) {
	if h.inInsertNow || h.foreignSinceRead || !h.haveRead {
		return
	}
	h.r.Eval()
	for _, c := range parseMentioned(input) {
		v, ok := h.verified[c]
		if !ok || !before.has(c) || v.want != h.wantString(c) {
			continue
		}
		if felixChain(c) {
			if rawJoin(before.chains[c]) != v.lines {
				continue
			}
			if h.cfg.backend == "nft" && len(before.chains[c]) == 0 {
				continue // nft mode deliberately re-declares empty chains (table.go: len(previousHashes) > 0)
			}
		} else {
			if h.ownedJoin(before.chains[c]) != v.lines {
				continue
			}
			h.k, before = before, h.k // hookLayoutOK reads h.k
			ok, _ := h.hookLayoutOK(c)
			h.k, before = before, h.k
			if !ok {
				continue
			}
		}
		h.r.Violation("minimality", "restore input rewrites chain %s although its kernel content already equals the desired content %s and Felix had read it\ninput:\n%s", c, v.want, input)
	}
}

// ---- Table construction / restart

func (h *harness) newTable(why string) {
	h.incarnation++
	if !h.quiet {
		h.r.Logf("=== new Table (incarnation %d, %s)", h.incarnation, why)
	}
	if h.m != nil {
		h.prevModel = h.m
	}
	h.m = newModel()
	h.foreignSinceRead, h.rejectCredit, h.haveRead = true, true, false
	h.consecRestoreFail, h.consecSaveFail, h.restoreBurst, h.saveBurst = 0, 0, 0, 0
	h.inApply, h.inInsertNow = false, false
	h.appliedThisIncarnation = false
	fd := environment.NewFeatureDetector(nil, environment.WithNetlinkOverride(func() (netlinkshim.Interface, error) { return nlStub{}, nil }))
	fd.NewCmd = h.newCmd
	fd.GetKernelVersionReader = func() (io.Reader, error) {
		return strings.NewReader("Linux version 5.15.0-91-generic (buildd@lcy02-amd64-045) (gcc 11.4.0) #101-Ubuntu SMP"), nil
	}
	opts := iptables.TableOptions{
		HistoricChainPrefixes: rulesdefs.AllHistoricChainNamePrefixes,
		BackendMode:           h.cfg.backend,
		InsertMode:            h.cfg.insertMode,
		RefreshInterval:       h.cfg.refresh,
		PostWriteInterval:     h.cfg.postWrite,
		LockProbeInterval:     50 * time.Millisecond,
		NewCmdOverride:        h.newCmd,
		SleepOverride:         h.sleep,
		NowOverride:           func() time.Time { return h.now },
		LookPathOverride:      h.lookPath,
		OpRecorder:            opRecorder{},
	}
	if h.cfg.kubeCleanup {
		opts.ExtraCleanupRegexPattern = kubeCleanupPattern
	}
	h.tbl = iptables.NewTable(h.cfg.table, h.cfg.ipVersion, rulesdefs.RuleHashPrefix, fd, opts)
}

// ---- rule construction for the real API

func (h *harness) toRule(m mrule) generictables.Rule {
	var match generictables.MatchCriteria
	switch m.match {
	case 0:
		match = iptables.Match()
	case 1:
		match = iptables.Match().Protocol("tcp")
	case 2:
		match = iptables.Match().InInterface("cali+")
	case 3:
		match = iptables.Match().MarkSingleBitSet(0x10)
	}
	var act generictables.Action
	switch m.kind {
	case 0:
		act = iptables.AcceptAction{}
	case 1:
		act = iptables.DropAction{}
	case 2:
		act = iptables.ReturnAction{}
	case 3:
		act = iptables.JumpAction{Target: m.target}
	case 4:
		act = iptables.GotoAction{Target: m.target}
	}
	return generictables.Rule{Match: match, Action: act, Comment: []string{fmt.Sprintf("tok%d", m.tok)}}
}

func (h *harness) toRules(ms []mrule) []generictables.Rule {
	out := make([]generictables.Rule, len(ms))
	for i, m := range ms {
		out[i] = h.toRule(m)
	}
	return out
}

func chainName(i int) string { return fmt.Sprintf("cali-c%d", i) }

// genRule draws a rule for chain index ci (-1: a hook rule in a kernel chain).  Jumps only go to
// higher-numbered chains so the reference graph stays a DAG (the kernel rejects loops).
func (h *harness) genRule(ci int, jumpBias int) mrule {
	src := h.r.Src
	m := mrule{tok: src.Intn(h.cfg.nTokens, "rule_tok")}
	m.match = []int{0, 0, 0, 1, 0, 2, 0, 3}[m.tok%8] // the match part is a function of the token: a token names one rule body
	lo := ci + 1
	if lo < h.cfg.nChains && src.Chance(jumpBias, "rule_is_jump") {
		m.kind = 3
		if src.Chance(200, "rule_is_goto") {
			m.kind = 4
		}
		m.target = chainName(lo + src.Intn(h.cfg.nChains-lo, "rule_target"))
	} else {
		m.kind = src.Intn(3, "rule_action")
	}
	return m
}

func (h *harness) genRules(ci, max, jumpBias int) []mrule {
	n := h.r.Src.Intn(max+1, "nrules")
	out := make([]mrule, n)
	for i := range out {
		out[i] = h.genRule(ci, jumpBias)
	}
	return out
}

// ---- workload operations on the real Table, mirrored into the model

func (h *harness) opUpdateChain(ci int, rules []mrule, force bool) {
	name := chainName(ci)
	if old := h.m.chains[name]; old != nil && old.force && !h.allowForceDowngrade {
		force = true
	}
	h.r.Op("UpdateChain(%s, %s force=%v)", name, rulesStr(rules), force)
	h.tbl.UpdateChain(&generictables.Chain{Name: name, Rules: h.toRules(rules), ForceProgramming: force})
	h.m.chains[name] = &mchain{rules: rules, force: force}
}

func (h *harness) opRemoveChain(ci int) {
	name := chainName(ci)
	h.r.Op("RemoveChainByName(%s)", name)
	h.tbl.RemoveChainByName(name)
	delete(h.m.chains, name)
}

func (h *harness) opInsert(kc string, rules []mrule) {
	h.r.Op("InsertOrAppendRules(%s, %s)", kc, rulesStr(rules))
	h.tbl.InsertOrAppendRules(kc, h.toRules(rules))
	h.m.inserts[kc] = rules
}

func (h *harness) opAppend(kc string, rules []mrule) {
	h.r.Op("AppendRules(%s, %s)", kc, rulesStr(rules))
	h.tbl.AppendRules(kc, h.toRules(rules))
	h.m.appends[kc] = rules
}

// fixup establishes the API's precondition for Apply ("no references to nonexistent chains"):
// every chain reachable from a hook or a forced chain gets a definition.
func (h *harness) fixup() {
	for iter := 0; iter < 50; iter++ {
		var missing []string
		for c := range h.m.wanted() {
			if h.m.chains[c] == nil {
				missing = append(missing, c)
			}
		}
		if len(missing) == 0 {
			return
		}
		sort.Strings(missing)
		for _, c := range missing {
			var ci int
			fmt.Sscanf(c, "cali-c%d", &ci)
			h.opUpdateChain(ci, h.genRules(ci, 3, 300), false)
		}
	}
	h.r.HarnessError("fixup did not terminate")
}

type applyOutcome int

const (
	applyOK applyOutcome = iota
	applyPanicRestart
	applyCrash
)

// guarded runs one Table call, classifying a panic as the documented give-up (legitimate only
// when the failures it saw exceed the documented budget), an injected crash, or a SUT defect.
func (h *harness) guarded(what string, fn func()) (out applyOutcome) {
	h.cmdsThisApply, h.restoresThisApply, h.savesThisApply = 0, 0, 0
	h.consecRestoreFail, h.consecSaveFail = 0, 0
	h.maxConsecRestoreFail, h.maxConsecSaveFail = 0, 0
	defer func() {
		h.inApply, h.inInsertNow = false, false
		h.restoreBurst, h.saveBurst = 0, 0
		p := recover()
		if p == nil {
			return
		}
		if c, ok := p.(simCrash); ok {
			h.r.Logf("  process crashed %s", c.where)
			out = applyCrash
			return
		}
		msg := ""
		if e, ok := p.(*logrus.Entry); ok {
			msg = e.Message
		} else {
			panic(p)
		}
		switch {
		case strings.Contains(msg, "giving up after retries"):
			h.r.Check("panic_only_after_retry_budget", h.consecRestoreFail > restoreRetryBudget,
				"%s gave up (%q) after only %d consecutive restore failures; documented budget is %d retries", what, msg, h.consecRestoreFail, restoreRetryBudget)
			h.r.Probe("restore_budget_exhausted_panic")
		case strings.Contains(msg, "command failed after retries"):
			h.r.Check("panic_only_after_retry_budget", h.consecSaveFail > saveRetryBudget,
				"%s gave up (%q) after only %d consecutive save failures; documented budget is %d retries", what, msg, h.consecSaveFail, saveRetryBudget)
			h.r.Probe("save_budget_exhausted_panic")
		default:
			panic(p)
		}
		h.r.Logf("  documented panic: %s", msg)
		out = applyPanicRestart
	}()
	fn()
	return applyOK
}

func (h *harness) opApply(strictExpected bool) applyOutcome {
	h.fixup()
	src := h.r.Src
	if h.faultsOn && h.cfg.fBursts {
		switch src.Weighted([]int{86, 9, 5}, "apply_burst") {
		case 1:
			h.restoreBurst = []int{1, 2, 3, 5, 10, 11, 12}[src.Weighted([]int{30, 20, 15, 10, 10, 10, 5}, "restore_burst_len")]
		case 2:
			h.saveBurst = []int{1, 2, 3, 4, 5}[src.Weighted([]int{35, 25, 20, 15, 5}, "save_burst_len")]
		}
	}
	h.r.Op("Apply (t=+%v burst r%d s%d)", h.now.Sub(simEpoch), h.restoreBurst, h.saveBurst)
	var resch time.Duration
	out := h.guarded("Apply", func() {
		h.inApply = true
		resch = h.tbl.Apply()
	})
	switch out {
	case applyOK:
		h.lastResch = resch
		if h.maxConsecRestoreFail >= restoreRetryBudget {
			h.r.Probe("survived_full_restore_budget")
		}
		if h.maxConsecSaveFail >= saveRetryBudget {
			h.r.Probe("survived_full_save_budget")
		}
		if h.restoresThisApply == 0 {
			h.r.Probe("apply_without_write")
			if h.incarnation > 1 && !h.appliedThisIncarnation && len(h.m.wanted()) > 0 && !h.foreignSinceRead {
				h.r.Probe("restart_same_state_no_write")
			}
		}
		h.appliedThisIncarnation = true
		if h.savesThisApply == 0 {
			h.r.Probe("apply_without_read")
		}
		if !h.foreignSinceRead && h.haveRead {
			ok, msg := h.converged()
			h.r.Check(h.convClass, ok, "Apply succeeded with an up-to-date read-back but the kernel is not converged: %s\nkernel:\n%s", msg, h.k.dump())
			h.r.Probe("apply_verified_converged")
			h.recordVerified()
		} else {
			h.r.Probe("apply_with_stale_view_unchecked")
		}
	case applyPanicRestart:
		h.newTable("restart after documented panic")
	case applyCrash:
		h.newTable("restart after crash")
	}
	return out
}

// forceDowngradeLeaks runs the fixed reproduction of the known UpdateChain reference-count leak
// (forced chain replaced by a non-forced one that jumps to another chain) against a scratch Table
// over an empty scratch kernel.  It draws nothing and logs nothing.
func forceDowngradeLeaks(r *core.R) bool {
	p := &harness{r: r, now: simEpoch, verified: map[string]verifiedChain{}, quiet: true}
	p.cfg = config{table: "filter", ipVersion: 4, backend: "legacy", insertMode: "insert", refresh: 90 * time.Second,
		postWrite: time.Second, iptVersion: "1.8.4", verbatim: true}
	p.k = newKernel("filter", tableBuiltins["filter"], false)
	p.newTable("probe")
	p.tbl.UpdateChain(&generictables.Chain{Name: "cali-p0", ForceProgramming: true})
	p.tbl.UpdateChain(&generictables.Chain{Name: "cali-p1", Rules: []generictables.Rule{{Match: iptables.Match(), Action: iptables.AcceptAction{}}}})
	p.tbl.UpdateChain(&generictables.Chain{Name: "cali-p0", Rules: []generictables.Rule{{Match: iptables.Match(), Action: iptables.JumpAction{Target: "cali-p1"}}}})
	p.inApply = true
	p.tbl.Apply()
	return p.k.has("cali-p1")
}

var simEpoch = time.Date(2022, 1, 1, 0, 0, 0, 0, time.UTC)

func run(r *core.R) {
	r.FaultDecl("restore_fail_no_effect", "restore_fail_after_first_txn", "save_pipe_error", "save_start_error", "save_read_error",
		"save_torn_output", "save_exit_error", "save_nft_incompatible", "version_cmd_error",
		"foreign_edit_between_save_and_restore", "foreign_edit_between_applies", "foreign_snapshot_restore",
		"crash_before_restore", "crash_after_restore_commit", "crash_during_save", "restart", "time_jump_past_refresh")
	r.ProbeDecl("restore_rejected_by_kernel", "restore_retried_after_failure", "restore_succeeded_after_retry", "restore_two_transactions",
		"restore_budget_exhausted_panic", "save_budget_exhausted_panic", "survived_full_restore_budget", "survived_full_save_budget",
		"apply_without_write", "apply_without_read", "apply_verified_converged", "apply_with_stale_view_unchecked",
		"stale_chain_removed", "old_insert_removed", "diag_save_before_panic", "very_slow_command", "restart_same_state_no_write",
		"liveness_1", "liveness_2", "liveness_3", "insert_rules_now", "check_rules_present")
	src := r.Src
	h := &harness{r: r, now: simEpoch, verified: map[string]verifiedChain{}, allowForceDowngrade: !forceDowngradeLeaks(r)}
	r.Cfg("force_downgrade_generated", h.allowForceDowngrade)
	c := &h.cfg
	c.table = []string{"filter", "nat", "mangle", "raw"}[src.Weighted([]int{5, 2, 2, 1}, "cfg_table")]
	c.ipVersion = []uint8{4, 6}[src.Weighted([]int{3, 1}, "cfg_ipv")]
	c.backend = []string{"legacy", "nft"}[src.Intn(2, "cfg_backend")]
	c.insertMode = []string{"insert", "append"}[src.Weighted([]int{3, 2}, "cfg_insert_mode")]
	c.refresh = []time.Duration{90 * time.Second, 30 * time.Second, 10 * time.Minute, 0}[src.Weighted([]int{4, 3, 2, 2}, "cfg_refresh")]
	c.postWrite = []time.Duration{time.Second, 0, 100 * time.Millisecond, 5 * time.Second}[src.Intn(4, "cfg_postwrite")]
	c.iptVersion = []string{"1.8.4", "1.4.7", "1.6.2", "1.8.9"}[src.Intn(4, "cfg_iptver")]
	c.lookPath = src.Weighted([]int{4, 1, 1, 1}, "cfg_lookpath")
	c.verbatim = !src.Chance(600, "cfg_normalized_save")
	c.kubeCleanup = src.Chance(250, "cfg_kube_cleanup")
	c.slowCmds = src.Chance(300, "cfg_slow_cmds")
	maxChains, maxOps := 8, 70
	if r.Tier == "thorough" {
		maxChains, maxOps = 10, 150
	}
	c.nChains = src.Range(2, maxChains, "cfg_nchains")
	c.nTokens = src.Range(3, 14, "cfg_ntokens")
	faults := src.Chance(850, "cfg_faults")
	if faults {
		c.fVersion = src.Chance(300, "cfg_f_version")
		c.fForeignMid = src.Chance(600, "cfg_f_foreign_mid")
		c.fCrash = src.Chance(400, "cfg_f_crash")
		c.fBursts = src.Chance(600, "cfg_f_bursts")
		c.pSave = []int{0, 30, 100, 250}[src.Intn(4, "cfg_p_save")]
		c.pRestore = []int{0, 40, 120, 300}[src.Intn(4, "cfg_p_restore")]
		c.pForeignMid = []int{60, 150, 350}[src.Intn(3, "cfg_p_foreign_mid")]
		c.pCrash = []int{10, 30, 80}[src.Intn(3, "cfg_p_crash")]
	}
	nops := src.Range(6, maxOps, "cfg_nops")
	r.Cfg("table", c.table)
	r.Cfg("ip_version", int(c.ipVersion))
	r.Cfg("backend", c.backend)
	r.Cfg("insert_mode", c.insertMode)
	r.Cfg("refresh_s", c.refresh.Seconds())
	r.Cfg("post_write_ms", c.postWrite.Milliseconds())
	r.Cfg("iptables_version", c.iptVersion)
	r.Cfg("normalized_save", !c.verbatim)
	r.Cfg("kube_cleanup", c.kubeCleanup)
	r.Cfg("faults", faults)
	r.Cfg("nops", nops)
	r.Cfg("nchains", c.nChains)
	h.traceInput = true

	h.k = newKernel(c.table, tableBuiltins[c.table], c.backend == "nft")
	h.initKernel()
	r.Logf("initial kernel:\n%s", h.k.dump())
	h.snapshots = append(h.snapshots, h.k.clone())
	h.newTable("start of day")
	h.faultsOn = faults

	builtins := tableBuiltins[c.table]
	for i := 0; i < nops; i++ {
		op := src.Weighted([]int{22, 6, 8, 9, 4, 24, 8, 9, 4, 2, 2, 2, 3}, "op")
		switch op {
		case 0:
			ci := src.Intn(c.nChains, "chain")
			h.opUpdateChain(ci, h.genRules(ci, 5, 250), src.Chance(80, "force"))
		case 1:
			n := src.Range(2, 3, "batch")
			var cs []*generictables.Chain
			desc := ""
			for j := 0; j < n; j++ {
				ci := src.Intn(c.nChains, "chain")
				rules := h.genRules(ci, 4, 250)
				force := false
				if old := h.m.chains[chainName(ci)]; old != nil && old.force && !h.allowForceDowngrade {
					force = true
				}
				cs = append(cs, &generictables.Chain{Name: chainName(ci), Rules: h.toRules(rules), ForceProgramming: force})
				desc += fmt.Sprintf(" %s=%s(force=%v)", chainName(ci), rulesStr(rules), force)
				h.m.chains[chainName(ci)] = &mchain{rules: rules, force: force}
			}
			r.Op("UpdateChains(%s)", desc)
			h.tbl.UpdateChains(cs)
		case 2:
			h.opRemoveChain(src.Intn(c.nChains, "chain"))
		case 3:
			h.opInsert(builtins[src.Intn(len(builtins), "kchain")], h.genRules(-1, 3, 800))
		case 4:
			h.opAppend(builtins[src.Intn(len(builtins), "kchain")], h.genRules(-1, 2, 600))
		case 5:
			h.opApply(false)
		case 6:
			h.opAdvance()
		case 7:
			if faults {
				r.Fault("foreign_edit_between_applies")
				h.foreignEdits("between applies")
			}
		case 8:
			if faults {
				r.Fault("restart")
				r.Op("restart")
				h.newTable("restart")
				h.replayDesired()
			}
		case 9:
			r.Op("InvalidateDataplaneCache")
			h.tbl.InvalidateDataplaneCache("sim")
		case 10:
			h.opInsertRulesNow(builtins[src.Intn(len(builtins), "kchain")])
		case 11:
			h.opCheckRulesPresent(builtins[src.Intn(len(builtins), "kchain")])
		case 12:
			// the scheduler honouring Apply's requested recheck delay
			if h.lastResch > 0 && h.lastResch < 2*time.Hour {
				r.Op("sleep for Apply's reschedule delay %v", h.lastResch)
				h.advance(h.lastResch)
				h.opApply(false)
			}
		}
	}
	h.quiesce()
}

func (h *harness) opAdvance() {
	src := h.r.Src
	var d time.Duration
	switch src.Weighted([]int{3, 3, 3, 4, 1}, "advance_kind") {
	case 0:
		d = 10 * time.Millisecond
	case 1:
		d = 60 * time.Millisecond
	case 2:
		d = time.Duration(src.Range(1, 20, "advance_s")) * time.Second
	case 3:
		d = h.cfg.refresh + time.Second
		h.r.Fault("time_jump_past_refresh")
	case 4:
		d = 3 * time.Hour
		h.r.Fault("time_jump_past_refresh")
	}
	h.r.Op("advance clock %v", d)
	h.advance(d)
}

func (h *harness) opInsertRulesNow(kc string) {
	rules := h.genRules(-1, 2, 800)
	if len(rules) == 0 {
		return
	}
	// InsertRulesNow needs its jump targets to exist in the kernel already.
	for _, ru := range rules {
		if ru.kind >= 3 && !h.k.has(ru.target) {
			return
		}
	}
	h.r.Op("InsertRulesNow(%s, %s)", kc, rulesStr(rules))
	h.r.Probe("insert_rules_now")
	out := h.guarded("InsertRulesNow", func() {
		h.inInsertNow = true
		_ = h.tbl.InsertRulesNow(kc, h.toRules(rules))
	})
	// The Table does not record what it wrote this way: to the cache it is an out-of-band edit.
	h.foreignGen++
	h.foreignSinceRead, h.rejectCredit = true, true
	if out == applyCrash {
		h.newTable("restart after crash")
	}
}

func (h *harness) opCheckRulesPresent(kc string) {
	rules := h.m.inserts[kc]
	if len(rules) == 0 {
		return
	}
	h.r.Op("CheckRulesPresent(%s)", kc)
	h.r.Probe("check_rules_present")
	var present []generictables.Rule
	out := h.guarded("CheckRulesPresent", func() {
		present = h.tbl.CheckRulesPresent(kc, h.toRules(rules))
	})
	if out == applyCrash {
		h.newTable("restart after crash")
		return
	}
	if out == applyPanicRestart {
		h.newTable("restart after documented panic")
		return
	}
	// weak oracle: anything reported present has its token on a Felix-owned line of that chain
	for _, p := range present {
		found := false
		for _, kr := range h.k.chains[kc] {
			if tok, ok := tokenOf(kr); ok && h.ownedRule(kr) && fmt.Sprintf("tok%d", tok) == p.Comment[0] {
				found = true
			}
		}
		h.r.Check("check_rules_present", found, "CheckRulesPresent(%s) reported %v present but the kernel chain holds %s", kc, p.Comment, kdesc(h.k.chains[kc]))
	}
}

// replayDesired re-issues (most of) the previous incarnation's desired state after a restart,
// which is what a restarted Felix does once it is back in sync with the datastore.
func (h *harness) replayDesired() {
	src := h.r.Src
	pm := h.prevModel
	if pm == nil || !src.Chance(700, "replay_desired") {
		return
	}
	exact := src.Chance(500, "replay_exact")
	for _, c := range core.SortedKeys(pm.chains) {
		if !exact && src.Chance(200, "replay_skip") {
			continue
		}
		var ci int
		fmt.Sscanf(c, "cali-c%d", &ci)
		h.opUpdateChain(ci, pm.chains[c].rules, pm.chains[c].force)
	}
	for _, kc := range core.SortedKeys(pm.inserts) {
		if len(pm.inserts[kc]) > 0 && (exact || !src.Chance(200, "replay_skip")) {
			h.opInsert(kc, pm.inserts[kc])
		}
	}
	for _, kc := range core.SortedKeys(pm.appends) {
		if len(pm.appends[kc]) > 0 && (exact || !src.Chance(200, "replay_skip")) {
			h.opAppend(kc, pm.appends[kc])
		}
	}
}

// quiesce: faults off; at most 3 Apply calls, each with the clock moved past the refresh
// interval, must reach the converged state; a further Apply must then write nothing.
func (h *harness) quiesce() {
	r := h.r
	h.faultsOn = false
	r.Logf("=== quiesce")
	h.fixup()
	done := 0
	for n := 1; n <= 3; n++ {
		if h.cfg.refresh > 0 {
			h.advance(h.cfg.refresh + time.Second)
		} else {
			h.advance(time.Minute)
			h.tbl.InvalidateDataplaneCache("forced refresh")
		}
		out := h.opApply(true)
		r.Check("quiesce_no_panic", out == applyOK, "fault-free Apply ended in a panic/restart")
		if ok, _ := h.converged(); ok {
			done = n
			break
		}
	}
	ok, msg := h.converged()
	r.Check("bounded_liveness", ok && done > 0, "not converged after 3 fault-free Apply calls past the refresh interval: %s\nkernel:\n%s", msg, h.k.dump())
	r.Probe(fmt.Sprintf("liveness_%d", done))
	// idempotence / minimality at rest
	before := h.restoresTotal
	if h.cfg.refresh > 0 {
		h.advance(h.cfg.refresh + time.Second)
	} else {
		h.advance(time.Minute)
		h.tbl.InvalidateDataplaneCache("forced refresh")
	}
	out := h.opApply(true)
	r.Check("quiesce_no_panic", out == applyOK, "fault-free Apply ended in a panic/restart")
	r.Check("idempotent_at_rest", h.restoresTotal == before, "a converged, unchanged table was written again (%d restore commands)", h.restoresTotal-before)
	ok, msg = h.converged()
	r.Check(h.convClass, ok, "final state not converged: %s", msg)
	wanted := core.SortedKeys(h.m.wanted())
	r.Fingerprint(fmt.Sprintf("%s|%s|%s|%d|%s", h.cfg.table, h.cfg.backend, h.cfg.insertMode, h.incarnation, strings.Join(wanted, ",")) + "|" + h.k.dump())
}
