// Start state and foreign (other software's) edits for engine xtables.
package h_xtables

import (
	"fmt"
	"sort"
)

var foreignChainNames = []string{"KUBE-SERVICES", "KUBE-FORWARD", "DOCKER-USER", "calico-dhcp", "mycali-x", "KUBE-EXTERNAL-SERVICES", "f2b-sshd"}
var staleChainNames = []string{"felix-FORWARD", "cali-old1", "califw-ab12", "calipo-x", "felix-to-ep", "cali-wl-to-host", "calith-zz", "cali-old2"}

func (h *harness) touchedByForeign() {
	h.foreignGen++
	h.foreignSinceRead = true
	h.rejectCredit = true
}

func (h *harness) foreignRule(allowJump bool) krule {
	src := h.r.Src
	h.fseq++
	target := []string{"ACCEPT", "DROP", "RETURN", "LOG"}[src.Intn(4, "f_target")]
	if allowJump && src.Chance(350, "f_jump") {
		var fc []string
		for _, c := range h.k.order {
			if !h.k.isBuiltin(c) && !felixChain(c) {
				fc = append(fc, c)
			}
		}
		if len(fc) > 0 {
			target = fc[src.Intn(len(fc), "f_jump_target")]
		}
	}
	switch src.Intn(3, "f_shape") {
	case 0:
		return mustRule(fmt.Sprintf("-s 10.9.%d.%d/32 -j %s", h.fseq/200, h.fseq%200, target))
	case 1:
		return mustRule(fmt.Sprintf(`-m comment --comment "other app rule %d" -j %s`, h.fseq, target))
	}
	return mustRule(fmt.Sprintf("-p tcp -m comment --comment f%d -j %s", h.fseq, target))
}

func (h *harness) nonFelixChains() []string {
	var out []string
	for _, c := range h.k.order {
		if !felixChain(c) {
			out = append(out, c)
		}
	}
	return out
}

func (h *harness) felixChainsInKernel() []string {
	var out []string
	for _, c := range h.k.order {
		if felixChain(c) {
			out = append(out, c)
		}
	}
	return out
}

func insertAt(rs []krule, i int, r krule) []krule {
	n := make([]krule, 0, len(rs)+1)
	n = append(n, rs[:i]...)
	n = append(n, r)
	n = append(n, rs[i:]...)
	return n
}

func removeAt(rs []krule, i int) []krule {
	n := make([]krule, 0, len(rs))
	n = append(n, rs[:i]...)
	return append(n, rs[i+1:]...)
}

func (h *harness) staleHash() string {
	h.fseq++
	return fmt.Sprintf("Stale-Hash_%05d", h.fseq)
}

// initKernel builds an arbitrary starting table: other software's chains and rules, chains and
// hook rules left by earlier Felix versions (current and historic prefixes, with and without
// hashes), at arbitrary positions.
func (h *harness) initKernel() {
	src := h.r.Src
	k := h.k
	// foreign user chains (terminal rules only)
	for i, n := 0, src.Intn(5, "init_fchains"); i < n; i++ {
		name := foreignChainNames[src.Intn(len(foreignChainNames), "init_fchain_name")]
		if k.has(name) {
			continue
		}
		k.createChain(name)
		for j, m := 0, src.Intn(4, "init_fchain_rules"); j < m; j++ {
			k.chains[name] = append(k.chains[name], h.foreignRule(false))
		}
	}
	// foreign rules in the built-in chains
	for _, b := range k.builtins {
		for j, m := 0, src.Intn(5, "init_frules"); j < m; j++ {
			k.chains[b] = append(k.chains[b], h.foreignRule(true))
		}
	}
	// stale Felix chains; a chain may only jump to stale chains created before it (no loops)
	var stale []string
	for i, n := 0, src.Intn(5, "init_stale"); i < n; i++ {
		var name string
		if src.Chance(400, "init_stale_current_name") {
			name = chainName(src.Intn(h.cfg.nChains, "init_stale_ci"))
		} else {
			name = staleChainNames[src.Intn(len(staleChainNames), "init_stale_name")]
		}
		if k.has(name) {
			continue
		}
		k.createChain(name)
		for j, m := 0, src.Intn(4, "init_stale_rules"); j < m; j++ {
			target := []string{"ACCEPT", "DROP", "RETURN"}[src.Intn(3, "init_stale_target")]
			if len(stale) > 0 && src.Chance(400, "init_stale_jump") {
				target = stale[src.Intn(len(stale), "init_stale_jump_to")]
			}
			var spec string
			switch src.Intn(3, "init_stale_shape") {
			case 0:
				spec = fmt.Sprintf("-m comment --comment \"cali:%s\" -m comment --comment \"tok%d\" -j %s", h.staleHash(), src.Intn(h.cfg.nTokens, "init_stale_tok"), target)
			case 1:
				spec = fmt.Sprintf("-p udp -j %s", target)
			case 2:
				spec = fmt.Sprintf("-m comment --comment \"cali:%s\" --jump %s", h.staleHash(), target)
			}
			k.chains[name] = append(k.chains[name], mustRule(spec))
		}
		stale = append(stale, name)
	}
	// hook rules left behind by earlier Felix versions, anywhere in non-Felix chains
	for i, n := 0, src.Intn(5, "init_oldhooks"); i < n; i++ {
		h.addOldHook("init")
	}
	if h.cfg.kubeCleanup || src.Chance(300, "init_kube_hook") {
		// kube-proxy's own hook rules (Felix's only when the operator configured the cleanup pattern)
		for _, b := range k.builtins {
			if src.Chance(500, "init_kube_hook_chain") {
				for _, kc := range []string{"KUBE-SERVICES", "KUBE-FORWARD", "KUBE-EXTERNAL-SERVICES"} {
					if k.has(kc) && src.Chance(500, "init_kube_hook_target") {
						pos := src.Intn(len(k.chains[b])+1, "init_kube_hook_pos")
						k.chains[b] = insertAt(k.chains[b], pos, mustRule(fmt.Sprintf(`-m comment --comment "kubernetes portals" -j %s`, kc)))
					}
				}
			}
		}
	}
}

// addOldHook drops a Felix-shaped hook rule (old style without hash, or hashed with an unknown
// hash) into a non-Felix chain.  Returns false if there is no Felix chain to point at.
func (h *harness) addOldHook(label string) bool {
	src := h.r.Src
	fcs := h.felixChainsInKernel()
	nf := h.nonFelixChains()
	where := nf[src.Intn(len(nf), label+"_oldhook_chain")]
	shape := src.Intn(4, label+"_oldhook_shape")
	var spec string
	if shape == 3 || len(fcs) == 0 {
		// a hashed rule with a terminal target (e.g. an old failsafe rule)
		spec = fmt.Sprintf("-m comment --comment \"cali:%s\" -j ACCEPT", h.staleHash())
	} else {
		target := fcs[src.Intn(len(fcs), label+"_oldhook_target")]
		switch shape {
		case 0:
			spec = "-j " + target
		case 1:
			spec = "-p tcp --jump " + target
		case 2:
			spec = fmt.Sprintf("-m comment --comment \"cali:%s\" -j %s", h.staleHash(), target)
		}
	}
	pos := src.Intn(len(h.k.chains[where])+1, label+"_oldhook_pos")
	h.k.chains[where] = insertAt(h.k.chains[where], pos, mustRule(spec))
	return true
}

// dropReferences removes every rule that jumps to chain c (what a tool must do before -X).
func (h *harness) dropReferences(c string) {
	for _, n := range h.k.order {
		rs := h.k.chains[n]
		var keep []krule
		for _, r := range rs {
			if t, _ := r.target(); t != c {
				keep = append(keep, r)
			}
		}
		h.k.chains[n] = keep
	}
}

// foreignEdits performs 1-3 edits by "another program".  Every edit keeps the kernel table valid
// (no dangling jumps, no loops).
func (h *harness) foreignEdits(when string) {
	src := h.r.Src
	k := h.k
	if src.Chance(300, "f_take_snapshot") {
		if len(h.snapshots) >= 4 {
			h.snapshots = h.snapshots[1:]
		}
		h.snapshots = append(h.snapshots, k.clone())
	}
	n := src.Range(1, 3, "f_nedits")
	for e := 0; e < n; e++ {
		kind := src.Weighted([]int{16, 8, 6, 5, 10, 8, 14, 5, 8, 5, 3, 5}, "f_kind")
		desc := ""
		switch kind {
		case 0: // add a rule to a non-Felix chain
			nf := h.nonFelixChains()
			c := nf[src.Intn(len(nf), "f_chain")]
			pos := src.Intn(len(k.chains[c])+1, "f_pos")
			r := h.foreignRule(k.isBuiltin(c))
			k.chains[c] = insertAt(k.chains[c], pos, r)
			desc = fmt.Sprintf("insert foreign rule {%s} at %s[%d]", r.raw, c, pos)
		case 1: // remove one of its own rules
			nf := h.nonFelixChains()
			c := nf[src.Intn(len(nf), "f_chain")]
			var idx []int
			for i, r := range k.chains[c] {
				if !h.ownedRule(r) {
					idx = append(idx, i)
				}
			}
			if len(idx) == 0 {
				continue
			}
			i := idx[src.Intn(len(idx), "f_rule")]
			desc = fmt.Sprintf("delete foreign rule %s[%d]", c, i)
			k.chains[c] = removeAt(k.chains[c], i)
		case 2: // create a foreign chain
			name := foreignChainNames[src.Intn(len(foreignChainNames), "f_new_chain")]
			if k.has(name) {
				continue
			}
			k.createChain(name)
			for j, m := 0, src.Intn(3, "f_new_chain_rules"); j < m; j++ {
				k.chains[name] = append(k.chains[name], h.foreignRule(false))
			}
			desc = "create foreign chain " + name
		case 3: // delete a foreign chain
			var fc []string
			for _, c := range k.order {
				if !k.isBuiltin(c) && !felixChain(c) {
					fc = append(fc, c)
				}
			}
			if len(fc) == 0 {
				continue
			}
			c := fc[src.Intn(len(fc), "f_del_chain")]
			h.dropReferences(c)
			k.removeChain(c)
			desc = "delete foreign chain " + c
		case 4: // clobber: remove a Felix hook rule from a non-Felix chain
			nf := h.nonFelixChains()
			c := nf[src.Intn(len(nf), "f_chain")]
			var idx []int
			for i, r := range k.chains[c] {
				if h.ownedRule(r) {
					idx = append(idx, i)
				}
			}
			if len(idx) == 0 {
				continue
			}
			i := idx[src.Intn(len(idx), "f_rule")]
			desc = fmt.Sprintf("clobber: delete Felix hook %s[%d]", c, i)
			k.chains[c] = removeAt(k.chains[c], i)
		case 5: // clobber: move or duplicate a Felix hook rule
			nf := h.nonFelixChains()
			c := nf[src.Intn(len(nf), "f_chain")]
			var idx []int
			for i, r := range k.chains[c] {
				if h.ownedRule(r) {
					idx = append(idx, i)
				}
			}
			if len(idx) == 0 {
				continue
			}
			i := idx[src.Intn(len(idx), "f_rule")]
			r := k.chains[c][i]
			dup := src.Chance(300, "f_dup")
			if !dup {
				k.chains[c] = removeAt(k.chains[c], i)
			}
			pos := src.Intn(len(k.chains[c])+1, "f_pos")
			k.chains[c] = insertAt(k.chains[c], pos, r)
			desc = fmt.Sprintf("clobber: move(dup=%v) Felix hook %s[%d] -> [%d]", dup, c, i, pos)
		case 6: // clobber the inside of a Felix chain
			fcs := h.felixChainsInKernel()
			if len(fcs) == 0 {
				continue
			}
			c := fcs[src.Intn(len(fcs), "f_fchain")]
			rs := k.chains[c]
			switch sub := src.Intn(4, "f_clobber_kind"); {
			case sub == 0 && len(rs) > 0:
				i := src.Intn(len(rs), "f_rule")
				k.chains[c] = removeAt(rs, i)
				desc = fmt.Sprintf("clobber: delete %s[%d]", c, i)
			case sub == 1 && len(rs) > 1:
				i := src.Intn(len(rs)-1, "f_rule")
				n := append([]krule(nil), rs...)
				n[i], n[i+1] = n[i+1], n[i]
				k.chains[c] = n
				desc = fmt.Sprintf("clobber: swap %s[%d],[%d]", c, i, i+1)
			case sub == 2:
				pos := src.Intn(len(rs)+1, "f_pos")
				k.chains[c] = insertAt(rs, pos, h.foreignRule(false))
				desc = fmt.Sprintf("clobber: insert hashless rule at %s[%d]", c, pos)
			default:
				k.chains[c] = nil
				desc = "clobber: flush " + c
			}
		case 7: // clobber: remove a whole Felix chain
			fcs := h.felixChainsInKernel()
			if len(fcs) == 0 {
				continue
			}
			c := fcs[src.Intn(len(fcs), "f_fchain")]
			h.dropReferences(c)
			k.removeChain(c)
			desc = "clobber: delete Felix chain " + c + " and all references"
		case 8: // leave an old-style / unknown-hash Felix hook somewhere
			h.addOldHook("f")
			desc = "add stale Felix-shaped hook rule"
		case 9: // leave a stale Felix chain behind
			name := staleChainNames[src.Intn(len(staleChainNames), "f_stale_name")]
			if k.has(name) {
				continue
			}
			k.createChain(name)
			for j, m := 0, src.Intn(3, "f_stale_rules"); j < m; j++ {
				k.chains[name] = append(k.chains[name], mustRule(fmt.Sprintf("-m comment --comment \"cali:%s\" -j DROP", h.staleHash())))
			}
			desc = "create stale Felix chain " + name
		case 10: // read-modify-write misuse: write back an older snapshot of the whole table
			if len(h.snapshots) == 0 {
				continue
			}
			s := h.snapshots[src.Intn(len(h.snapshots), "f_snapshot")]
			c := s.clone()
			k.chains, k.order = c.chains, c.order
			h.r.Fault("foreign_snapshot_restore")
			desc = "write back an older iptables-save snapshot of the whole table"
		case 11: // flush a built-in chain (e.g. `iptables -F FORWARD`)
			c := k.builtins[src.Intn(len(k.builtins), "f_flush_builtin")]
			k.chains[c] = nil
			desc = "flush " + c
		}
		if desc != "" {
			h.r.Logf("  foreign (%s): %s", when, desc)
		}
	}
	h.touchedByForeign()
	if loop := h.k.findLoop(); loop != "" {
		h.r.HarnessError("foreign edit produced a chain loop via %s", loop)
	}
}

// findLoop returns a chain on a jump cycle, or "".
func (k *kernel) findLoop() string {
	state := map[string]int{}
	var visit func(c string) string
	visit = func(c string) string {
		switch state[c] {
		case 1:
			return c
		case 2:
			return ""
		}
		state[c] = 1
		var ts []string
		for _, r := range k.chains[c] {
			if t, _ := r.target(); t != "" && k.has(t) {
				ts = append(ts, t)
			}
		}
		sort.Strings(ts)
		for _, t := range ts {
			if l := visit(t); l != "" {
				return l
			}
		}
		state[c] = 2
		return ""
	}
	for _, c := range k.order {
		if l := visit(c); l != "" {
			return l
		}
	}
	return ""
}
