// Engine routes (C17): the real routetable.RouteTable with the real
// ownershippol.MainTableOwnershipPolicy over the repo's mock netlink
// (mocknetlink, driven through its FailFlags), mock time and a no-op conntrack
// back end.
//
// One run: arbitrary start state (links, stale Felix-owned routes, foreign
// routes) -> chaos phase (desired-route changes over several route classes
// sharing one destination pool, interface add/up/down/delete/renumber with
// delayed / lost notifications, foreign route edits behind Felix's back,
// netlink faults drawn inside the call that is in flight, QueueResync, time
// advance, Apply) -> quiesce (faults off, notifications delivered, resync,
// clock moved past the grace period, at most 3 Apply calls) -> final oracle.
package h_routes

import (
	"fmt"
	"net"
	"runtime"
	"sort"
	"strings"
	"syscall"
	"testing"
	"time"

	"github.com/onsi/gomega"
	"github.com/vishvananda/netlink"
	"golang.org/x/sys/unix"

	"github.com/projectcalico/calico/felix/ifacemonitor"
	"github.com/projectcalico/calico/felix/ip"
	"github.com/projectcalico/calico/felix/netlinkshim"
	"github.com/projectcalico/calico/felix/netlinkshim/mocknetlink"
	"github.com/projectcalico/calico/felix/routetable"
	"github.com/projectcalico/calico/felix/routetable/ownershippol"
	"github.com/projectcalico/calico/felix/timeshim/mocktime"
	"github.com/projectcalico/calico/lib/logrusr"

	"verifsim/core"
)

func TestSim(t *testing.T) {
	core.Main(t, "routes", []string{"C17"}, run)
}

const (
	protoKernel = 2
	protoBoot   = 3
	protoStatic = 4
	protoBird   = 12
	protoDHCP   = 16
	tableMain   = 254

	ifNone = "*none*" // harness-side name for "no outgoing interface"
)

// ---------------------------------------------------------------- route classes (restated)
//
// Priority of route classes, restated from the documented class order
// ("lowest numeric value wins"): local workload > BPF special > Wireguard >
// VXLAN same-subnet > VXLAN tunnel > IPIP same-subnet > IPIP tunnel > no-encap
// > blackhole VXLAN > blackhole IPIP > blackhole no-encap.  rank is the
// harness's own ordering; the mapping to the SUT's constants is by name only.
type classSpec struct {
	rank  int
	name  string
	class routetable.RouteClass
	iface string // "wl" = any workload interface, ifNone, or a fixed device name
	types []routetable.TargetType
	gw    bool
}

var classTable = []classSpec{
	{0, "local-workload", routetable.RouteClassLocalWorkload, "wl", []routetable.TargetType{"", routetable.TargetTypeLinkLocalUnicast}, false},
	{1, "bpf-special", routetable.RouteClassBPFSpecial, "bpfin.cali", []routetable.TargetType{routetable.TargetTypeGlobalUnicast}, false},
	{2, "wireguard", routetable.RouteClassWireguard, ifNone, []routetable.TargetType{routetable.TargetTypeThrow}, false},
	{3, "vxlan-same-subnet", routetable.RouteClassVXLANSameSubnet, "eth0", []routetable.TargetType{routetable.TargetTypeNoEncap}, true},
	{4, "vxlan-tunnel", routetable.RouteClassVXLANTunnel, "vxlan.calico", []routetable.TargetType{routetable.TargetTypeVXLAN}, true},
	{5, "ipip-same-subnet", routetable.RouteClassIPIPSameSubnet, "eth0", []routetable.TargetType{routetable.TargetTypeNoEncap}, true},
	{6, "ipip-tunnel", routetable.RouteClassIPIPTunnel, "tunl0", []routetable.TargetType{routetable.TargetTypeOnLink}, true},
	{7, "no-encap", routetable.RouteClassNoEncap, "eth0", []routetable.TargetType{routetable.TargetTypeNoEncap, routetable.TargetTypeGlobalUnicast}, true},
	{8, "blackhole-vxlan", routetable.RouteClassBlackholeVXLAN, ifNone, []routetable.TargetType{routetable.TargetTypeBlackhole}, false},
	{9, "blackhole-ipip", routetable.RouteClassBlackholeIPIP, ifNone, []routetable.TargetType{routetable.TargetTypeBlackhole, routetable.TargetTypeProhibit}, false},
	{10, "blackhole-noencap", routetable.RouteClassBlackholeNoEncap, ifNone, []routetable.TargetType{routetable.TargetTypeBlackhole}, false},
}

// kernelAttrs restates what each target type means in kernel terms.
func kernelAttrs(tt routetable.TargetType) (typ int, scope int, onlink bool) {
	switch tt {
	case routetable.TargetTypeLocal:
		return unix.RTN_LOCAL, int(netlink.SCOPE_HOST), false
	case routetable.TargetTypeVXLAN, routetable.TargetTypeNoEncap, routetable.TargetTypeOnLink:
		return unix.RTN_UNICAST, int(netlink.SCOPE_UNIVERSE), true
	case routetable.TargetTypeGlobalUnicast:
		return unix.RTN_UNICAST, int(netlink.SCOPE_UNIVERSE), false
	case routetable.TargetTypeBlackhole:
		return unix.RTN_BLACKHOLE, int(netlink.SCOPE_UNIVERSE), false
	case routetable.TargetTypeProhibit:
		return unix.RTN_PROHIBIT, int(netlink.SCOPE_UNIVERSE), false
	case routetable.TargetTypeThrow:
		return unix.RTN_THROW, int(netlink.SCOPE_UNIVERSE), false
	default: // "" and local-unicast: directly connected destination
		return unix.RTN_UNICAST, int(netlink.SCOPE_LINK), false
	}
}

// ---------------------------------------------------------------- world

type ifEvent struct {
	name  string
	idx   int
	state ifacemonitor.State
}

type desiredEntry struct {
	rank   int
	class  routetable.RouteClass
	iface  string // harness name (ifNone for no interface)
	target routetable.Target
}

type world struct {
	r  *core.R
	dp *mocknetlink.MockNetlinkDataplane
	mt *mocktime.MockTime
	rt *routetable.RouteTable

	v6             bool
	family         int
	devProto       int
	exclProto      int
	allProtos      []int
	removeExternal bool
	ownBird        bool
	grace          time.Duration
	devSrc         net.IP
	staticARP      bool

	workloads []string
	devices   []string // every interface name of the universe, fixed order
	classes   []classSpec
	pool      []ip.CIDR // destinations shared by all classes
	foreign   []ip.CIDR // destinations only other software uses
	gws       []string
	nextIdx   int

	events []ifEvent
	// desired[rank][iface][key] = target
	desired map[int]map[string]map[string]routetable.Target

	staleAll     bool            // Felix has not yet read the (arbitrary) start state
	staleKeys    map[string]bool // destinations edited behind Felix's back since it last listed the whole table
	staleIfaces  map[string]bool // links whose state Felix was misinformed about (lost notification, lying lookup)
	conflictKeys map[string]bool // keys where someone else (or a link flush) removed/overwrote a route Felix held
	rescanLost   map[string]bool // links whose last per-interface route listing failed (cleared by the next successful listing)
	felixDeleted map[string]delRec // routes Felix itself deleted and has not re-programmed or re-listed since
	flushed      map[string]delRec // Felix-held routes the kernel flushed with their link, not re-programmed / fully re-listed since
	// of those: routes that were NOT the wanted route on their link when Felix
	// successfully rescanned that link after the flush (known finding: the
	// per-interface rescan does not drop them from Felix's picture of the kernel)
	flushedUnwantedAtRescan map[string]delRec
	// routes at a key whose wanted route (as Felix saw the links) was on ANOTHER
	// link when that other link was successfully rescanned: the per-interface
	// rescan then drops Felix's record of the route that is really there
	forgottenAtRescan map[string]string
	// Felix's own picture of the links (last notification / last successful
	// lookup); only used to attribute a violation to a known cause, never to
	// decide whether something is a violation
	felixView    map[string]viewRec
	useFelixView bool
	seenBy       map[int]time.Time
	downSince    map[string]bool // iface got a "down" notification since the last Apply

	inSUT          bool
	inApply        bool
	changedInApply bool
	calls          int
	callBudget     int
	seg            map[string]string // non-owned routes at the start of the current Apply segment
	faultsOn       bool
	rate           map[string]int
	pMid           int
	connFails      int
	eintrBurst     int
	reconnectHot   bool
	replaceStuck   map[string]bool

	// locality: real churn concentrates on one interface / destination for a
	// while; with probability pFocus an operation reuses the previous subject
	pFocus    int
	focusDev  string
	focusCIDR int
	ctCalls        int
}

type delRec struct {
	canon string
	oif   int
}

type viewRec struct {
	idx int
	up  bool
}

func (w *world) now() time.Time { return w.mt.Now() }

// ---- kernel accessors (the mock's tables are the kernel)

func (w *world) link(name string) *mocknetlink.MockLink { return w.dp.NameToLink[name] }

func (w *world) linkUp(name string) bool {
	l := w.link(name)
	return l != nil && l.LinkAttrs.RawFlags&syscall.IFF_RUNNING != 0
}

func (w *world) nameOfIdx(idx int) string {
	for n, l := range w.dp.NameToLink {
		if l.LinkAttrs.Index == idx {
			return n
		}
	}
	return ""
}

func (w *world) routeKeys() []string {
	ks := make([]string, 0, len(w.dp.RouteKeyToRoute))
	for k := range w.dp.RouteKeyToRoute {
		ks = append(ks, k)
	}
	sort.Strings(ks)
	return ks
}

func ipStr(i net.IP) string {
	if len(i) == 0 {
		return "-"
	}
	return i.String()
}

func canon(rt *netlink.Route) string {
	dst := "-"
	if rt.Dst != nil {
		dst = rt.Dst.String()
	}
	table := rt.Table
	if table == 0 {
		table = tableMain
	}
	return fmt.Sprintf("dst=%s prio=%d tos=%d oif=%d gw=%s src=%s type=%d scope=%d proto=%d flags=%d mtu=%d table=%d nh=%d",
		dst, rt.Priority, rt.Tos, rt.LinkIndex, ipStr(rt.Gw), ipStr(rt.Src), rt.Type, int(rt.Scope), int(rt.Protocol), rt.Flags, rt.MTU, table, len(rt.MultiPath))
}

func (w *world) isWorkload(name string) bool { return strings.HasPrefix(name, "cali") }

func isSpecialType(t int) bool {
	switch t {
	case unix.RTN_LOCAL, unix.RTN_THROW, unix.RTN_BLACKHOLE, unix.RTN_PROHIBIT, unix.RTN_UNREACHABLE:
		return true
	}
	return false
}

func inInts(xs []int, x int) bool {
	for _, y := range xs {
		if x == y {
			return true
		}
	}
	return false
}

// owned restates the main-table ownership policy: which kernel routes are
// Felix's to manage.
func (w *world) owned(rt *netlink.Route) bool {
	proto := int(rt.Protocol)
	if rt.LinkIndex <= 1 && isSpecialType(rt.Type) {
		// no-interface route: only the protocol reserved for Calico marks it
		return proto == w.exclProto
	}
	if w.v6 && rt.Dst != nil && rt.Dst.String() == "fe80::/64" {
		return false // kernel-managed link-local bootstrap route
	}
	name := w.nameOfIdx(rt.LinkIndex)
	if name == "" {
		return false
	}
	if proto == w.exclProto {
		return true
	}
	if w.isWorkload(name) {
		if w.removeExternal {
			return true
		}
		return inInts(w.allProtos, proto)
	}
	if w.ownBird && name == "tunl0" && proto == protoBird {
		return true
	}
	return name == "vxlan.calico" || name == "bpfin.cali"
}

func (w *world) snapshotNonOwned() map[string]string {
	out := map[string]string{}
	for k, rt := range w.dp.RouteKeyToRoute {
		rt := rt
		if !w.owned(&rt) {
			out[k] = canon(&rt)
		}
	}
	return out
}

// ---- desired-state model

func (w *world) normPrio(p int) int {
	if w.v6 && p == 0 {
		return 1024 // the kernel stores metric 0 as 1024 for IPv6
	}
	return p
}

func (w *world) keyOf(c ip.CIDR, prio int) string {
	n := c.ToIPNet()
	return fmt.Sprintf("%d-%s-%d", tableMain, n.String(), w.normPrio(prio))
}

func (w *world) desiredKeys() map[string]bool {
	out := map[string]bool{}
	for _, byIf := range w.desired {
		for _, byKey := range byIf {
			for k := range byKey {
				out[k] = true
			}
		}
	}
	return out
}

func (w *world) sutIface(name string) string {
	if name == ifNone {
		return routetable.InterfaceNone
	}
	return name
}

// expectedRoute is the kernel route a desired entry stands for, given the
// kernel's current link table; ok=false when the link is absent or down.
func (w *world) expectedRoute(e desiredEntry) (string, bool) {
	oif := 0
	if e.iface == ifNone {
		if w.v6 {
			oif = 1
		}
	} else {
		if w.useFelixView {
			v, ok := w.felixView[e.iface]
			if !ok || !v.up {
				return "", false
			}
			oif = v.idx
		} else {
			l := w.link(e.iface)
			if l == nil || !w.linkUp(e.iface) {
				return "", false
			}
			oif = l.LinkAttrs.Index
		}
	}
	t := e.target
	typ, scope, onlink := kernelAttrs(t.Type)
	proto := w.devProto
	if t.Protocol != 0 {
		proto = int(t.Protocol)
	}
	src := w.devSrc
	if t.Src != nil {
		src = t.Src.AsNetIP()
	}
	var gw net.IP
	if t.GW != nil {
		gw = t.GW.AsNetIP()
	}
	flags := 0
	if onlink {
		flags = unix.RTNH_F_ONLINK
	}
	dst := t.CIDR.ToIPNet()
	rt := netlink.Route{
		Dst: &dst, Priority: w.normPrio(t.Priority), Tos: 0, LinkIndex: oif, Gw: gw, Src: src,
		Type: typ, Scope: netlink.Scope(scope), Protocol: netlink.RouteProtocol(proto), Flags: flags, MTU: t.MTU, Table: tableMain,
	}
	return canon(&rt), true
}

type expectation struct {
	acceptable []string // canonical forms of the winning class's candidates
	nClasses   int      // classes that want this key at all
	fallback   bool     // a better-ranked class wants the key but its link is absent/down
}

func (w *world) expected() map[string]*expectation {
	out := map[string]*expectation{}
	type cand struct {
		rank  int
		canon string
		ok    bool
	}
	byKey := map[string][]cand{}
	ranks := make([]int, 0, len(w.desired))
	for rk := range w.desired {
		ranks = append(ranks, rk)
	}
	sort.Ints(ranks)
	for _, rk := range ranks {
		for _, ifn := range core.SortedKeys(w.desired[rk]) {
			for _, k := range core.SortedKeys(w.desired[rk][ifn]) {
				c, ok := w.expectedRoute(desiredEntry{rank: rk, iface: ifn, target: w.desired[rk][ifn][k]})
				byKey[k] = append(byKey[k], cand{rk, c, ok})
			}
		}
	}
	for k, cs := range byKey {
		e := &expectation{}
		best := -1
		seen := map[int]bool{}
		for _, c := range cs {
			seen[c.rank] = true
			if c.ok && (best == -1 || c.rank < best) {
				best = c.rank
			}
		}
		e.nClasses = len(seen)
		for _, c := range cs {
			if c.ok && c.rank == best {
				e.acceptable = append(e.acceptable, c.canon)
			}
			if !c.ok && best != -1 && c.rank < best {
				e.fallback = true
			}
		}
		out[k] = e
	}
	return out
}

// ---------------------------------------------------------------- netlink wrapper (fault placement + kernel realism)

type nlWrap struct {
	netlinkshim.Interface
	w *world
}

func (w *world) fault(kind string) bool {
	if !w.faultsOn {
		return false
	}
	p := w.rate[kind]
	if p == 0 {
		return false
	}
	if w.r.Src.Chance(p, "fault_"+kind) {
		w.r.Fault(kind)
		return true
	}
	return false
}

func (w *world) call(what string) {
	w.calls++
	if w.inApply && w.calls > w.callBudget {
		w.r.Violation("apply_livelock", "one Apply made more than %d netlink calls (last: %s)", w.callBudget, what)
	}
}

func (w *world) newHandle() (netlinkshim.Interface, error) {
	w.call("NewNetlink")
	// the reconnect that follows a failed per-interface listing happens in the
	// middle of that rescan: in-flight state, so it has its own failure rate
	hot := w.reconnectHot
	w.reconnectHot = false
	if w.connFails < 2 && ((hot && w.fault("reconnect_after_failed_listing")) || w.fault("new_netlink")) {
		w.connFails++
		w.dp.FailuresToSimulate |= mocknetlink.FailNextNewNetlink
	}
	h, err := w.dp.NewMockNetlink()
	if err != nil {
		return nil, err
	}
	w.r.Probe("socket_reopened")
	return &nlWrap{Interface: h, w: w}, nil
}

func (n *nlWrap) SetSocketTimeout(d time.Duration) error {
	w := n.w
	w.call("SetSocketTimeout")
	if w.connFails < 2 && w.fault("set_socket_timeout") {
		w.connFails++
		w.dp.FailuresToSimulate |= mocknetlink.FailNextSetSocketTimeout
	}
	return n.Interface.SetSocketTimeout(d)
}

func (n *nlWrap) SetStrictCheck(b bool) error {
	w := n.w
	w.call("SetStrictCheck")
	if w.connFails < 2 && w.fault("set_strict") {
		w.connFails++
		w.dp.FailuresToSimulate |= mocknetlink.FailNextSetStrict
		return n.Interface.SetStrictCheck(b)
	}
	err := n.Interface.SetStrictCheck(b)
	if err == nil {
		w.connFails = 0
	}
	return err
}

func (n *nlWrap) LinkList() ([]netlink.Link, error) {
	w := n.w
	w.call("LinkList")
	if w.fault("link_list") {
		w.dp.FailuresToSimulate |= mocknetlink.FailNextLinkList
	} else if w.fault("link_list_eintr") {
		w.dp.FailuresToSimulate |= mocknetlink.FailNextLinkListWrappedEINTR
	}
	links, err := n.Interface.LinkList()
	if err == nil {
		t := w.now()
		w.felixView = map[string]viewRec{}
		for _, l := range links {
			if _, ok := w.seenBy[l.Attrs().Index]; !ok {
				w.seenBy[l.Attrs().Index] = t
			}
			w.felixView[l.Attrs().Name] = viewRec{l.Attrs().Index, l.Attrs().RawFlags&syscall.IFF_RUNNING != 0}
		}
	}
	return links, err
}

func (n *nlWrap) LinkByName(name string) (netlink.Link, error) {
	w := n.w
	w.call("LinkByName")
	w.maybeMidApplyChange()
	if w.fault("link_by_name") {
		w.dp.FailuresToSimulate |= mocknetlink.FailNextLinkByName
	} else if w.link(name) != nil && w.fault("link_by_name_lie_notfound") {
		// the kernel claims an existing link is gone: Felix's view of the link
		// table is wrong until the next notification or full resync
		w.dp.FailuresToSimulate |= mocknetlink.FailNextLinkByNameNotFound
		w.staleIfaces[name] = true
		delete(w.seenBy, w.link(name).LinkAttrs.Index)
	}
	l, err := n.Interface.LinkByName(name)
	if err == nil {
		if _, ok := w.seenBy[l.Attrs().Index]; !ok {
			w.seenBy[l.Attrs().Index] = w.now()
		}
		w.felixView[name] = viewRec{l.Attrs().Index, l.Attrs().RawFlags&syscall.IFF_RUNNING != 0}
	} else if _, notFound := err.(netlink.LinkNotFoundError); notFound {
		delete(w.felixView, name)
	}
	return l, err
}

func (n *nlWrap) RouteListFilteredIter(family int, filter *netlink.Route, mask uint64, f func(netlink.Route) bool) error {
	w := n.w
	w.call("RouteList")
	w.maybeMidApplyChange()
	full := mask&netlink.RT_FILTER_OIF == 0
	kind := ""
	if w.eintrBurst > 0 {
		w.eintrBurst--
		kind = "route_list_eintr"
		w.r.Fault(kind)
	} else if w.fault("route_list") || (!full && w.fault("iface_route_list")) {
		kind = "route_list"
	} else if w.fault("route_list_eintr") {
		kind = "route_list_eintr"
		if w.r.Src.Chance(150, "eintr_burst") {
			w.eintrBurst = 4 // the whole retry budget of one listing
			w.r.Probe("eintr_burst_armed")
		}
	} else if w.fault("route_list_wrapped_eintr") {
		kind = "route_list_wrapped_eintr"
	}
	switch kind {
	case "route_list":
		w.dp.FailuresToSimulate |= mocknetlink.FailNextRouteList
	case "route_list_eintr":
		w.dp.FailuresToSimulate |= mocknetlink.FailNextRouteListEINTR
	case "route_list_wrapped_eintr":
		w.dp.FailuresToSimulate |= mocknetlink.FailNextRouteListWrappedEINTR
	}
	err := n.Interface.RouteListFilteredIter(family, filter, mask, f)
	if (kind == "route_list_eintr" || kind == "route_list_wrapped_eintr") && w.inApply && w.faultsOn && w.r.Src.Chance(600, "eintr_mid_dump_change") {
		// an interrupted dump MEANS the table changed under the reader: make that true, preferably by taking
		// away a route Felix owns that the interrupted pass may already have reported
		w.checkSegment("before a kernel change during an interrupted dump")
		w.r.Fault("kernel_change_during_interrupted_dump")
		d := w.midDumpChange()
		w.r.Logf("  during interrupted dump: %s", d)
		w.seg = w.snapshotNonOwned()
	}
	if err == nil && full {
		// Felix has now read every route: nothing done behind its back is hidden any more.
		w.staleAll = false
		w.staleKeys = map[string]bool{}
		w.staleIfaces = map[string]bool{}
		w.conflictKeys = map[string]bool{}
		w.rescanLost = map[string]bool{}
		w.felixDeleted = map[string]delRec{}
		w.flushed = map[string]delRec{}
		w.flushedUnwantedAtRescan = map[string]delRec{}
		w.forgottenAtRescan = map[string]string{}
		w.r.Probe("full_listing_ok")
	}
	if !full && filter != nil {
		if name := w.nameOfIdx(filter.LinkIndex); name != "" {
			if err == nil {
				delete(w.rescanLost, name)
				w.useFelixView = true
				exp := w.expected()
				w.useFelixView = false
				for k, e := range exp {
					if len(e.acceptable) == 0 {
						continue
					}
					onThisLink := true
					for _, a := range e.acceptable {
						if !strings.Contains(a, fmt.Sprintf(" oif=%d ", filter.LinkIndex)) {
							onThisLink = false
						}
					}
					if rt, ok := w.dp.RouteKeyToRoute[k]; ok && onThisLink && rt.LinkIndex != filter.LinkIndex && w.owned(&rt) {
						w.forgottenAtRescan[k] = canon(&rt)
					}
				}
				for k, d := range w.flushed {
					if d.oif != filter.LinkIndex {
						continue
					}
					wanted := false
					if e := exp[k]; e != nil {
						for _, a := range e.acceptable {
							if a == d.canon {
								wanted = true
							}
						}
					}
					delete(w.flushed, k)
					if !wanted {
						w.flushedUnwantedAtRescan[k] = d
					}
				}
				for k, d := range w.felixDeleted {
					if d.oif == filter.LinkIndex {
						delete(w.felixDeleted, k)
					}
				}
			} else {
				w.rescanLost[name] = true
			}
		}
	}
	if err == nil && !full {
		w.r.Probe("iface_listing_ok")
	}
	if err != nil && !full {
		w.r.Probe("iface_listing_failed")
		w.reconnectHot = true
	}
	return err
}

func (n *nlWrap) RouteReplace(rt *netlink.Route) error {
	err := n.routeReplace(rt)
	if err != nil {
		n.w.noteReplaceFailed(mocknetlink.KeyForRoute(rt))
		n.w.r.Logf("  nl: RouteReplace {%s} -> %v", canon(rt), err)
	} else {
		n.w.r.Logf("  nl: RouteReplace {%s} -> ok", canon(rt))
	}
	return err
}

func (n *nlWrap) routeReplace(rt *netlink.Route) error {
	w := n.w
	w.call("RouteReplace")
	w.maybeMidApplyChange()
	stuckKey := canon(rt)
	if w.faultsOn && w.replaceStuck[stuckKey] {
		// the kernel keeps rejecting this particular route (think "nexthop has
		// invalid gateway") until circumstances change: modelled as "until the
		// clock is advanced"
		w.r.Fault("route_replace")
		w.dp.FailuresToSimulate |= mocknetlink.FailNextRouteReplace
		return n.Interface.RouteReplace(rt)
	}
	_, inFlight := w.felixDeleted[mocknetlink.KeyForRoute(rt)]
	// a delete-then-add sequence is not atomic: the add that follows Felix's own
	// delete of the same destination is the call with in-flight state, so it
	// has its own (higher) failure rate
	if (inFlight && w.fault("route_replace_after_own_delete")) || w.fault("route_replace") {
		pSticky := 400
		if inFlight {
			pSticky = 750
		}
		if w.r.Src.Chance(pSticky, "replace_sticky") {
			w.replaceStuck[stuckKey] = true
			w.r.Probe("route_replace_failed_persistently")
		}
		w.dp.FailuresToSimulate |= mocknetlink.FailNextRouteReplace
		return n.Interface.RouteReplace(rt)
	}
	// kernel realism the mock lacks: a route cannot be programmed through a
	// link that does not exist or is down.
	if rt.LinkIndex > 1 {
		name := w.nameOfIdx(rt.LinkIndex)
		if name == "" {
			w.r.Probe("kernel_rejected_absent_link")
			return unix.ENODEV
		}
		if !w.linkUp(name) {
			w.r.Probe("kernel_rejected_down_link")
			return unix.ENETDOWN
		}
	}
	key := mocknetlink.KeyForRoute(rt)
	if old, ok := w.dp.RouteKeyToRoute[key]; ok && !w.owned(&old) {
		w.r.Probe("foreign_route_replaced_by_desired")
	}
	err := n.Interface.RouteReplace(rt)
	if err == nil {
		delete(w.felixDeleted, key)
		delete(w.flushed, key)
		delete(w.flushedUnwantedAtRescan, key)
		delete(w.forgottenAtRescan, key)
	}
	return err
}

// noteReplaceFailed counts the window the early-cleanup path opens: Felix has
// deleted a route itself and the replacement did not go in.
func (w *world) noteReplaceFailed(key string) {
	if d, ok := w.felixDeleted[key]; ok {
		w.r.Probe("own_delete_then_replace_failed")
		// is the deleted route still wanted by a (currently losing) candidate?
		for rk, byIf := range w.desired {
			for ifn, byKey := range byIf {
				if t, ok := byKey[key]; ok {
					if c, ok := w.expectedRoute(desiredEntry{rank: rk, iface: ifn, target: t}); ok && c == d.canon {
						w.r.Probe("own_delete_of_still_wanted_route_then_replace_failed")
						return
					}
				}
			}
		}
	}
}

func (n *nlWrap) RouteDel(rt *netlink.Route) error {
	w := n.w
	w.call("RouteDel")
	w.maybeMidApplyChange()
	if w.fault("route_del") {
		w.dp.FailuresToSimulate |= mocknetlink.FailNextRouteDel
		return n.Interface.RouteDel(rt)
	}
	key := mocknetlink.KeyForRoute(rt)
	old, ok := w.dp.RouteKeyToRoute[key]
	if !ok {
		w.r.Probe("route_del_esrch")
		return unix.ESRCH // what the kernel says for a route that is already gone
	}
	err := n.Interface.RouteDel(rt)
	if err == nil {
		w.felixDeleted[key] = delRec{canon(&old), old.LinkIndex}
		delete(w.forgottenAtRescan, key)
	}
	w.r.Logf("  nl: RouteDel %s (was {%s}) -> %v", key, canon(&old), err)
	return err
}

func (n *nlWrap) NeighSet(ne *netlink.Neigh) error {
	w := n.w
	w.call("NeighSet")
	if w.fault("neigh_set") {
		w.dp.FailuresToSimulate |= mocknetlink.FailNextNeighSet
	}
	return n.Interface.NeighSet(ne)
}

type noopConntrack struct{ w *world }

func (c noopConntrack) RemoveConntrackFlows(ipVersion uint8, ipAddr net.IP) { c.w.ctCalls++ }

// ---------------------------------------------------------------- kernel-side operations

func (w *world) kernelChanged() {
	if w.inApply {
		w.changedInApply = true
		w.r.Probe("kernel_change_during_apply")
	}
}

// flushLink removes every route through the link, as the kernel does when a
// link goes down or away.
func (w *world) flushLink(idx int) {
	for _, k := range w.routeKeys() {
		rt := w.dp.RouteKeyToRoute[k]
		if rt.LinkIndex == idx {
			if w.owned(&rt) {
				w.conflictKeys[k] = true
				w.flushed[k] = delRec{canon(&rt), rt.LinkIndex}
				delete(w.flushedUnwantedAtRescan, k)
			}
			delete(w.dp.RouteKeyToRoute, k)
			w.r.Logf("  kernel flushed %s", canon(&rt))
		}
	}
}

func (w *world) stateOf(name string) ifacemonitor.State {
	if w.link(name) == nil {
		return ifacemonitor.StateNotPresent
	}
	if w.linkUp(name) {
		return ifacemonitor.StateUp
	}
	return ifacemonitor.StateDown
}

func (w *world) kAdd(name string, up bool) {
	idx := w.nextIdx
	w.nextIdx++
	w.dp.AddIface(idx, name, up, up)
	w.events = append(w.events, ifEvent{name, idx, w.stateOf(name)})
	w.r.Logf("  kernel: link %s created idx=%d up=%v", name, idx, up)
	w.kernelChanged()
}

func (w *world) kSet(name string, up bool, flush bool) {
	l := w.link(name)
	w.dp.SetIface(name, up, up)
	if !up && flush {
		w.flushLink(l.LinkAttrs.Index)
	}
	w.events = append(w.events, ifEvent{name, l.LinkAttrs.Index, w.stateOf(name)})
	w.r.Logf("  kernel: link %s idx=%d up=%v", name, l.LinkAttrs.Index, up)
	w.kernelChanged()
}

func (w *world) kDel(name string) {
	l := w.link(name)
	idx := l.LinkAttrs.Index
	w.flushLink(idx)
	w.dp.DelIface(name)
	w.events = append(w.events, ifEvent{name, idx, ifacemonitor.StateNotPresent})
	w.r.Logf("  kernel: link %s idx=%d deleted", name, idx)
	w.kernelChanged()
}

// linkOp performs one random link-table change; returns a description.
func (w *world) linkOp(label string) string {
	name := ""
	if w.focusDev != "" && w.focusDev != ifNone && w.pFocus > 0 && w.r.Src.Chance(w.pFocus, label+"_focus") {
		name = w.focusDev
	} else {
		// links that currently carry Felix-owned routes are the interesting ones to disturb
		var busy []string
		for _, d := range w.devices {
			if l := w.link(d); l != nil {
				for _, k := range w.routeKeys() {
					rt := w.dp.RouteKeyToRoute[k]
					if rt.LinkIndex == l.LinkAttrs.Index && w.owned(&rt) {
						busy = append(busy, d)
						break
					}
				}
			}
		}
		if len(busy) > 0 && w.r.Src.Chance(500, label+"_busy") {
			name = busy[w.r.Src.Intn(len(busy), label+"_busy_dev")]
		} else {
			name = w.devices[w.r.Src.Intn(len(w.devices), label+"_dev")]
		}
	}
	w.focusDev = name
	if w.link(name) == nil {
		up := !w.r.Src.Chance(300, label+"_new_down")
		w.kAdd(name, up)
		return "link add " + name
	}
	switch w.r.Src.Weighted([]int{5, 2, 2, 6}, label+"_kind") {
	case 3: // bounce: down and straight up again
		if !w.linkUp(name) {
			w.kSet(name, true, false)
			if w.r.Src.Chance(500, label+"_blip") {
				// comes up and drops again before anybody reacts
				w.kSet(name, false, true)
				w.r.Probe("link_blipped")
				return "link blip (up, down) " + name
			}
			return "link up " + name
		}
		w.kSet(name, false, !w.r.Src.Chance(200, label+"_noflush"))
		w.kSet(name, true, false)
		w.r.Probe("link_bounced")
		return "link bounce " + name
	case 0: // flap
		if w.linkUp(name) {
			flush := !w.r.Src.Chance(200, label+"_noflush")
			w.kSet(name, false, flush)
			return "link down " + name
		}
		w.kSet(name, true, false)
		return "link up " + name
	case 1:
		w.kDel(name)
		return "link delete " + name
	default: // recreated under the same name with a new index
		w.kDel(name)
		up := !w.r.Src.Chance(300, label+"_new_down")
		w.kAdd(name, up)
		w.r.Probe("link_renumbered")
		return "link renumber " + name
	}
}

func (w *world) randomKernelRoute(label string) (netlink.Route, bool) {
	var c ip.CIDR
	if w.r.Src.Chance(400, label+"_shared") {
		c = w.pool[w.r.Src.Intn(len(w.pool), label+"_cidr")]
	} else {
		c = w.foreign[w.r.Src.Intn(len(w.foreign), label+"_fcidr")]
	}
	dst := c.ToIPNet()
	protos := []int{protoKernel, protoStatic, protoBird, protoDHCP, protoBoot, 80, 98}
	proto := protos[w.r.Src.Intn(len(protos), label+"_proto")]
	prio := 0
	if w.r.Src.Chance(100, label+"_prio") {
		prio = 100
	}
	rt := netlink.Route{Family: w.family, Dst: &dst, Protocol: netlink.RouteProtocol(proto), Table: tableMain, Priority: w.normPrio(prio)}
	if w.r.Src.Chance(120, label+"_special") {
		rt.Type = unix.RTN_BLACKHOLE
		rt.Scope = netlink.SCOPE_UNIVERSE
		if w.v6 {
			rt.LinkIndex = 1
		}
		return rt, true
	}
	// through an existing link
	var names []string
	for _, n := range w.devices {
		// only links that are up: the kernel refuses a route through a down link (ENETDOWN) and flushes a link's
		// routes when it goes down, so a route on a down link is not a state another process could create
		if l := w.link(n); l != nil && l.LinkAttrs.RawFlags&syscall.IFF_RUNNING != 0 {
			names = append(names, n)
		}
	}
	if len(names) == 0 {
		return rt, false
	}
	name := names[w.r.Src.Intn(len(names), label+"_dev")]
	rt.LinkIndex = w.link(name).LinkAttrs.Index
	rt.Type = unix.RTN_UNICAST
	if w.r.Src.Chance(400, label+"_gw") {
		rt.Gw = net.ParseIP(w.gws[w.r.Src.Intn(len(w.gws), label+"_gwip")])
		rt.Scope = netlink.SCOPE_UNIVERSE
	} else {
		rt.Scope = netlink.SCOPE_LINK
	}
	if w.v6 && w.r.Src.Chance(60, label+"_ll") {
		_, ll, _ := net.ParseCIDR("fe80::/64")
		rt.Dst = ll
		rt.Protocol = protoKernel
		rt.Gw = nil
		rt.Scope = netlink.SCOPE_LINK
	}
	return rt, true
}

// outOfBandRouteOp is another program (or the CNI plugin, or an operator)
// editing the routing table without telling Felix.
// midDumpChange removes one Felix-owned route from the kernel (if there is one), else makes any out-of-band edit.
func (w *world) midDumpChange() string {
	var owned []string
	for _, k := range w.routeKeys() {
		rt := w.dp.RouteKeyToRoute[k]
		if w.owned(&rt) {
			owned = append(owned, k)
		}
	}
	if len(owned) == 0 || w.r.Src.Chance(250, "dump_any") {
		return w.outOfBandRouteOp("dump_route")
	}
	k := owned[w.r.Src.Intn(len(owned), "dump_which")]
	rt := w.dp.RouteKeyToRoute[k]
	delete(w.dp.RouteKeyToRoute, k)
	w.staleKeys[k] = true
	w.conflictKeys[k] = true
	w.r.Fault("oob_delete_owned_route")
	w.kernelChanged()
	return "out-of-band delete " + canon(&rt)
}

func (w *world) outOfBandRouteOp(label string) string {
	keys := w.routeKeys()
	if len(keys) > 0 && w.r.Src.Chance(400, label+"_del") {
		k := keys[w.r.Src.Intn(len(keys), label+"_which")]
		rt := w.dp.RouteKeyToRoute[k]
		delete(w.dp.RouteKeyToRoute, k)
		if w.owned(&rt) {
			w.staleKeys[k] = true
			w.conflictKeys[k] = true
			w.r.Fault("oob_delete_owned_route")
		} else {
			w.r.Fault("oob_delete_foreign_route")
		}
		w.kernelChanged()
		return "out-of-band delete " + canon(&rt)
	}
	rt, ok := w.randomKernelRoute(label)
	if !ok {
		return "out-of-band add skipped (no links)"
	}
	k := mocknetlink.KeyForRoute(&rt)
	if old, exists := w.dp.RouteKeyToRoute[k]; exists {
		if !w.r.Src.Chance(300, label+"_replace") {
			return "out-of-band add " + canon(&rt) + " => EEXIST"
		}
		if w.owned(&old) {
			w.staleKeys[k] = true
			w.conflictKeys[k] = true
		}
	}
	w.dp.AddMockRoute(&rt)
	if w.owned(&rt) {
		w.staleKeys[k] = true
		w.r.Fault("oob_add_owned_looking_route")
	} else {
		w.r.Fault("oob_add_foreign_route")
	}
	w.kernelChanged()
	return "out-of-band add " + canon(&rt)
}

func (w *world) maybeMidApplyChange() {
	if !w.inApply || !w.faultsOn || w.pMid == 0 {
		return
	}
	if !w.r.Src.Chance(w.pMid, "fault_mid_apply_change") {
		return
	}
	// close the current isolation segment before the kernel changes under Felix
	w.checkSegment("before a kernel change during Apply")
	w.r.Fault("kernel_change_during_apply")
	var d string
	if w.r.Src.Chance(500, "mid_kind") {
		d = w.linkOp("mid_link")
	} else {
		d = w.outOfBandRouteOp("mid_route")
	}
	w.r.Logf("  during Apply: %s", d)
	w.seg = w.snapshotNonOwned()
}

// ---------------------------------------------------------------- SUT-side operations

func (w *world) sut(f func()) {
	w.inSUT = true
	f()
	w.inSUT = false
}

func (w *world) deliver(i int, lose bool) {
	ev := w.events[i]
	w.events = append(w.events[:i:i], w.events[i+1:]...)
	if lose {
		w.r.Fault("notification_lost")
		w.staleIfaces[ev.name] = true
		w.r.Logf("  notification lost: %s idx=%d state=%q", ev.name, ev.idx, ev.state)
		return
	}
	w.r.Logf("  notify %s idx=%d state=%q", ev.name, ev.idx, ev.state)
	switch ev.state {
	case ifacemonitor.StateDown:
		w.downSince[ev.name] = true
	case ifacemonitor.StateUp:
		if w.downSince[ev.name] {
			w.r.Probe("flap_without_apply_between")
		}
	}
	if ev.state != ifacemonitor.StateNotPresent {
		if _, ok := w.seenBy[ev.idx]; !ok {
			w.seenBy[ev.idx] = w.now()
		}
	}
	if ev.state == ifacemonitor.StateNotPresent {
		delete(w.felixView, ev.name)
	} else {
		w.felixView[ev.name] = viewRec{ev.idx, ev.state == ifacemonitor.StateUp}
	}
	w.sut(func() { w.rt.OnIfaceStateChanged(ev.name, ev.idx, ev.state) })
}

// pickEvent chooses which interface's oldest pending notification goes next.
func (w *world) pickEvent(label string) int {
	var firsts []int
	seen := map[string]bool{}
	for i, ev := range w.events {
		if !seen[ev.name] {
			seen[ev.name] = true
			firsts = append(firsts, i)
		}
	}
	if w.focusDev != "" && w.pFocus > 0 && w.r.Src.Chance(w.pFocus, label+"_focus") {
		for _, i := range firsts {
			if w.events[i].name == w.focusDev {
				return i
			}
		}
	}
	return firsts[w.r.Src.Intn(len(firsts), label)]
}

func (w *world) modelSet(rank int, iface, key string, t routetable.Target) {
	if w.desired[rank] == nil {
		w.desired[rank] = map[string]map[string]routetable.Target{}
	}
	if w.desired[rank][iface] == nil {
		w.desired[rank][iface] = map[string]routetable.Target{}
	}
	w.desired[rank][iface][key] = t
}

func (w *world) needsExclusive(iface string) bool {
	return !(w.isWorkload(iface) || iface == "vxlan.calico" || iface == "bpfin.cali")
}

func (w *world) genTarget(cs classSpec, iface string) routetable.Target {
	ci := w.focusCIDR
	if !(w.pFocus > 0 && w.r.Src.Chance(w.pFocus, "tgt_focus")) || ci >= len(w.pool) {
		ci = w.r.Src.Intn(len(w.pool), "tgt_cidr")
	}
	w.focusCIDR = ci
	c := w.pool[ci]
	t := routetable.Target{RouteKey: routetable.RouteKey{CIDR: c}}
	if w.r.Src.Chance(80, "tgt_prio") {
		t.Priority = 100
	}
	t.Type = cs.types[w.r.Src.Intn(len(cs.types), "tgt_type")]
	if cs.gw {
		t.GW = ip.FromString(w.gws[w.r.Src.Intn(len(w.gws), "tgt_gw")])
	}
	if w.needsExclusive(iface) {
		if w.devProto != w.exclProto || w.r.Src.Chance(500, "tgt_proto_explicit") {
			t.Protocol = netlink.RouteProtocol(w.exclProto)
		}
	}
	if w.r.Src.Chance(100, "tgt_mtu") {
		t.MTU = 1400
	}
	if w.r.Src.Chance(100, "tgt_src") {
		t.Src = ip.FromString(w.gws[0])
	}
	if w.staticARP && cs.iface == "wl" && w.r.Src.Chance(400, "tgt_mac") {
		t.DestMAC = net.HardwareAddr{0, 0x11, 0x22, 0x33, 0x44, byte(0x50 + w.r.Src.Intn(3, "tgt_macb"))}
	}
	return t
}

func (w *world) pickClassIface() (classSpec, string) {
	if w.focusDev != "" && w.pFocus > 0 && w.r.Src.Chance(w.pFocus, "class_focus") {
		// stay on the interface the previous operation was about, if some class of this run uses it
		for _, cs := range w.classes {
			if cs.iface == w.focusDev || (cs.iface == "wl" && w.isWorkload(w.focusDev)) {
				return cs, w.focusDev
			}
		}
	}
	cs := w.classes[w.r.Src.Intn(len(w.classes), "class")]
	iface := cs.iface
	if iface == "wl" {
		iface = w.workloads[w.r.Src.Intn(len(w.workloads), "wl")]
	}
	w.focusDev = iface
	return cs, iface
}

func tgtStr(t routetable.Target) string {
	gw := "-"
	if t.GW != nil {
		gw = t.GW.String()
	}
	src := "-"
	if t.Src != nil {
		src = t.Src.String()
	}
	return fmt.Sprintf("{%s prio=%d type=%q gw=%s src=%s proto=%d mtu=%d mac=%s}", t.CIDR, t.Priority, string(t.Type), gw, src, int(t.Protocol), t.MTU, t.DestMAC)
}

// checkSegment is the isolation oracle: every route Felix does not own that
// existed at the start of the segment is still there, byte for byte.  Only two
// narrow allowances: a destination Felix currently wants a route for (it
// replaces whatever is there, as documented), and a destination where somebody
// else overwrote / removed a route Felix held since Felix last listed the
// table (Felix cannot know).
func (w *world) checkSegment(where string) {
	cur := w.snapshotNonOwned()
	want := w.desiredKeys()
	keys := make([]string, 0, len(w.seg))
	for k := range w.seg {
		keys = append(keys, k)
	}
	sort.Strings(keys)
	for _, k := range keys {
		if want[k] || w.conflictKeys[k] {
			continue
		}
		now, ok := cur[k]
		if !ok {
			if full, still := w.dp.RouteKeyToRoute[k]; still {
				w.r.Violation("non_owned_route_changed", "%s: route not owned by Felix was overwritten: before {%s} after {%s}", where, w.seg[k], canon(&full))
			}
			w.r.Violation("non_owned_route_deleted", "%s: route not owned by Felix disappeared: {%s}", where, w.seg[k])
		}
		if now != w.seg[k] {
			w.r.Violation("non_owned_route_changed", "%s: route not owned by Felix changed: before {%s} after {%s}", where, w.seg[k], now)
		}
	}
	w.r.Eval()
}

func (w *world) graceAllows(rt *netlink.Route) bool {
	if w.grace == 0 {
		return false
	}
	name := w.nameOfIdx(rt.LinkIndex)
	if name == "" || !w.isWorkload(name) {
		return false
	}
	seen, ok := w.seenBy[rt.LinkIndex]
	if !ok {
		return true
	}
	return w.now().Sub(seen) < w.grace
}

// exact compares the kernel with the reference model.  It returns a
// description of the first difference ("" if none).
func (w *world) exact(allowGrace bool) (string, string) {
	return w.exactOpt(allowGrace, false)
}

// unsettledIfaces: links Felix cannot be expected to know the state of yet.
func (w *world) unsettledIfaces() map[string]bool {
	out := map[string]bool{}
	for n := range w.staleIfaces {
		out[n] = true
	}
	for _, ev := range w.events {
		out[ev.name] = true
	}
	return out
}

// exactOpt: with skipUnsettled, destinations that involve something hidden
// from Felix (an out-of-band edit since its last full listing, a link with
// undelivered / lost notifications) are left out; everything else must be exact.
func (w *world) exactOpt(allowGrace, skipUnsettled bool) (string, string) {
	exp := w.expected()
	unsettledKey := map[string]bool{}
	if skipUnsettled {
		ui := w.unsettledIfaces()
		for k := range w.staleKeys {
			unsettledKey[k] = true
		}
		for _, byIf := range w.desired {
			for ifn, byKey := range byIf {
				if ui[ifn] {
					for k := range byKey {
						unsettledKey[k] = true
					}
				}
			}
		}
		for k, rt := range w.dp.RouteKeyToRoute {
			if rt.LinkIndex > 1 && ui[w.nameOfIdx(rt.LinkIndex)] {
				unsettledKey[k] = true
			}
		}
	}
	keys := map[string]bool{}
	for k := range exp {
		keys[k] = true
	}
	for k := range w.dp.RouteKeyToRoute {
		keys[k] = true
	}
	for _, k := range core.SortedKeys(keys) {
		if unsettledKey[k] {
			w.r.Probe("exact_check_skipped_unsettled_key")
			continue
		}
		w.r.Probe("exact_check_keys")
		e := exp[k]
		kr, inK := w.dp.RouteKeyToRoute[k]
		if e != nil && len(e.acceptable) > 0 {
			if !inK {
				return w.classify("desired_route_missing", k, e.acceptable), fmt.Sprintf("key %s: kernel has no route, want one of %v (links whose last route listing failed: %v)", k, e.acceptable, core.SortedKeys(w.rescanLost))
			}
			got := canon(&kr)
			ok := false
			for _, a := range e.acceptable {
				if a == got {
					ok = true
				}
			}
			if !ok {
				return w.classify("desired_route_wrong", k, e.acceptable), fmt.Sprintf("key %s: kernel has {%s}, want one of %v (classes wanting it: %d; links whose last route listing failed: %v)", k, got, e.acceptable, e.nClasses, core.SortedKeys(w.rescanLost))
			}
			if e.nClasses > 1 {
				w.r.Probe("conflict_resolved_by_class")
			}
			if e.fallback {
				w.r.Probe("conflict_fallback_better_class_link_down")
			}
			continue
		}
		if inK && w.owned(&kr) {
			if allowGrace && w.graceAllows(&kr) {
				w.r.Probe("grace_period_kept_unknown_route")
				continue
			}
			return w.classify("owned_undesired_route_remains", k, nil), fmt.Sprintf("key %s: Felix-owned route {%s} is not desired (link %q) but is still in the kernel (links whose last route listing failed: %v)", k, canon(&kr), w.nameOfIdx(kr.LinkIndex), core.SortedKeys(w.rescanLost))
		}
	}
	return "", ""
}

// classify names the oracle for a mismatch at key k.  A mismatch on a link
// whose per-interface route listing failed, in an Apply sequence that
// nevertheless reported success, gets its own class so that this one cause can
// be tracked separately from every other way of ending up with wrong routes.
func (w *world) classify(base, k string, acceptable []string) string {
	if d, ok := w.felixDeleted[k]; ok && base == "desired_route_missing" {
		for _, a := range acceptable {
			if a == d.canon {
				// Felix removed the very route it wants and then reported success
				return "own_delete_not_tracked"
			}
		}
	}
	if d, ok := w.flushedUnwantedAtRescan[k]; ok && base == "desired_route_missing" {
		for _, a := range acceptable {
			if a == d.canon {
				// the kernel flushed this route with its link; when Felix rescanned the
				// link the route was not the wanted one there; now the very same
				// route is wanted again and Felix believes it never went away
				return "flushed_route_still_tracked"
			}
		}
	}
	if c, ok := w.forgottenAtRescan[k]; ok && base == "owned_undesired_route_remains" {
		if rt, ok := w.dp.RouteKeyToRoute[k]; ok && canon(&rt) == c {
			// this very route was in the kernel, on another link, when Felix
			// rescanned the link its replacement was wanted on
			return "tracked_route_forgotten_by_iface_rescan"
		}
	}
	if len(w.rescanLost) == 0 {
		return base
	}
	for _, byIf := range w.desired {
		for ifn, byKey := range byIf {
			if _, ok := byKey[k]; ok && w.rescanLost[ifn] {
				return "iface_rescan_failure_swallowed"
			}
		}
	}
	if rt, ok := w.dp.RouteKeyToRoute[k]; ok && rt.LinkIndex > 1 && w.rescanLost[w.nameOfIdx(rt.LinkIndex)] {
		return "iface_rescan_failure_swallowed"
	}
	return base
}

func (w *world) inSync(err error) bool {
	return err == nil && !w.staleAll && !w.changedInApply
}

func (w *world) apply(tag string) error {
	nRoutes := len(w.dp.RouteKeyToRoute)
	nDes := 0
	for _, a := range w.desired {
		for _, b := range a {
			nDes += len(b)
		}
	}
	w.callBudget = 200 + 40*(nRoutes+nDes+len(w.devices))
	w.calls = 0
	w.inApply, w.changedInApply = true, false
	w.seg = w.snapshotNonOwned()
	var err error
	w.sut(func() { err = w.rt.Apply() })
	w.checkSegment("end of " + tag)
	w.inApply = false
	w.downSince = map[string]bool{}
	if err != nil {
		w.r.Probe("apply_returned_error")
		w.r.Logf("  %s -> error: %v", tag, err)
	} else {
		w.r.Probe("apply_ok")
		w.r.Logf("  %s -> ok", tag)
	}
	return err
}

func (w *world) dumpKernel() string {
	var sb strings.Builder
	for _, k := range w.routeKeys() {
		rt := w.dp.RouteKeyToRoute[k]
		o := "foreign"
		if w.owned(&rt) {
			o = "owned"
		}
		fmt.Fprintf(&sb, "[%s %s] ", o, canon(&rt))
	}
	return sb.String()
}

// ---------------------------------------------------------------- run

func cidrs(v6 bool, n int) (pool, foreign []ip.CIDR, gws []string) {
	if v6 {
		for i := 1; i <= n; i++ {
			pool = append(pool, ip.MustParseCIDROrIP(fmt.Sprintf("fd00:65::%x/128", i)))
		}
		pool = append(pool, ip.MustParseCIDROrIP("fd00:65:1::/112"))
		for i := 1; i <= 4; i++ {
			foreign = append(foreign, ip.MustParseCIDROrIP(fmt.Sprintf("fd00:99:%x::/64", i)))
		}
		foreign = append(foreign, ip.MustParseCIDROrIP("fd00:aa::7/128"))
		return pool, foreign, []string{"fd00:77::1", "fd00:77::2", "fd00:77::3"}
	}
	for i := 1; i <= n; i++ {
		pool = append(pool, ip.MustParseCIDROrIP(fmt.Sprintf("10.65.0.%d/32", i)))
	}
	pool = append(pool, ip.MustParseCIDROrIP("10.65.1.0/26"))
	for i := 1; i <= 4; i++ {
		foreign = append(foreign, ip.MustParseCIDROrIP(fmt.Sprintf("172.16.%d.0/24", i)))
	}
	foreign = append(foreign, ip.MustParseCIDROrIP("192.168.9.7/32"))
	return pool, foreign, []string{"172.16.0.1", "172.16.0.2", "172.16.0.3"}
}

var faultKinds = []string{
	"link_list", "link_list_eintr", "link_by_name", "link_by_name_lie_notfound",
	"route_list", "iface_route_list", "route_list_eintr", "route_list_wrapped_eintr", "kernel_change_during_interrupted_dump",
	"route_replace", "route_replace_after_own_delete", "route_del", "neigh_set",
	"new_netlink", "reconnect_after_failed_listing", "set_socket_timeout", "set_strict",
}

func run(r *core.R) {
	r.FaultDecl(faultKinds...)
	r.FaultDecl("kernel_change_during_apply", "notification_lost", "oob_delete_owned_route", "oob_delete_foreign_route", "oob_add_owned_looking_route", "oob_add_foreign_route")
	r.ProbeDecl("apply_ok", "apply_returned_error", "exact_check_in_chaos", "exact_check_after_settling", "exact_check_keys", "exact_check_skipped_unsettled_key", "link_bounced", "link_blipped", "conflict_resolved_by_class", "conflict_fallback_better_class_link_down",
		"grace_period_kept_unknown_route", "foreign_route_replaced_by_desired", "flap_without_apply_between", "link_renumbered",
		"kernel_rejected_absent_link", "kernel_rejected_down_link", "route_del_esrch", "eintr_burst_armed", "route_replace_failed_persistently", "own_delete_then_replace_failed", "own_delete_of_still_wanted_route_then_replace_failed", "socket_reopened",
		"full_listing_ok", "iface_listing_ok", "iface_listing_failed", "kernel_change_during_apply", "start_state_stale_owned_routes",
		"start_state_foreign_routes", "sut_used_closed_netlink_handle", "converged_after_1", "converged_after_2", "converged_after_3", "conntrack_cleanup_called", "ipv6_run")

	w := &world{r: r, desired: map[int]map[string]map[string]routetable.Target{}, conflictKeys: map[string]bool{}, rescanLost: map[string]bool{}, felixDeleted: map[string]delRec{}, flushed: map[string]delRec{}, flushedUnwantedAtRescan: map[string]delRec{}, forgottenAtRescan: map[string]string{}, felixView: map[string]viewRec{}, staleKeys: map[string]bool{}, staleIfaces: map[string]bool{},
		replaceStuck: map[string]bool{}, seenBy: map[int]time.Time{}, downSince: map[string]bool{}, rate: map[string]int{}, staleAll: true, nextIdx: 2}

	// ---- swarm configuration
	w.v6 = r.Src.Chance(250, "cfg_v6")
	w.family = netlink.FAMILY_V4
	if w.v6 {
		w.family = netlink.FAMILY_V6
		r.Probe("ipv6_run")
	}
	w.devProto = []int{protoBoot, 80, 98}[r.Src.Intn(3, "cfg_devproto")]
	if w.devProto == protoBoot {
		// the historic default: shared with other software, so a second,
		// reserved protocol marks the routes that are not on Calico interfaces
		w.exclProto, w.allProtos = 80, []int{protoBoot, 80}
	} else {
		w.exclProto, w.allProtos = w.devProto, []int{w.devProto}
	}
	w.removeExternal = r.Src.Chance(500, "cfg_remove_external")
	w.ownBird = !w.v6 && r.Src.Chance(300, "cfg_own_bird_ipip")
	w.grace = []time.Duration{10 * time.Second, 0, 5 * time.Second, 60 * time.Second}[r.Src.Intn(4, "cfg_grace")]
	if r.Src.Chance(300, "cfg_devsrc") {
		if w.v6 {
			w.devSrc = net.ParseIP("fd00:77::aa")
		} else {
			w.devSrc = net.ParseIP("172.16.0.99").To4()
		}
	}
	w.staticARP = !w.v6 && r.Src.Chance(400, "cfg_static_arp")
	conntrackOn := r.Src.Chance(700, "cfg_conntrack")
	nWl := r.Src.Range(1, 4, "cfg_workloads")
	for i := 0; i < nWl; i++ {
		w.workloads = append(w.workloads, fmt.Sprintf("cali%d", i))
	}
	w.pool, w.foreign, w.gws = cidrs(w.v6, r.Src.Range(1, 4, "cfg_pool"))
	// classes of this run: always local workload (the class everything else conflicts with) plus 1-5 more
	w.classes = []classSpec{classTable[0]}
	perm := r.Src.Perm(len(classTable)-1, "cfg_class_perm")
	nCl := r.Src.Range(1, 5, "cfg_classes")
	for i := 0; i < nCl; i++ {
		w.classes = append(w.classes, classTable[1+perm[i]])
	}
	sort.Slice(w.classes, func(i, j int) bool { return w.classes[i].rank < w.classes[j].rank })
	w.devices = append(append([]string{}, w.workloads...), "eth0", "docker0")
	for _, cs := range w.classes {
		if cs.iface != "wl" && cs.iface != ifNone && !inStrs(w.devices, cs.iface) {
			w.devices = append(w.devices, cs.iface)
		}
	}
	if !inStrs(w.devices, "tunl0") && r.Src.Chance(300, "cfg_tunl0") {
		w.devices = append(w.devices, "tunl0")
	}
	maxOps := 90
	if r.Tier == "thorough" {
		maxOps = 220
	}
	nops := r.Src.Range(10, maxOps, "cfg_nops")
	w.faultsOn = !r.Src.Chance(150, "cfg_no_faults")
	enabled := 0
	if w.faultsOn {
		for _, k := range faultKinds {
			pOn := 450
			if k == "route_replace_after_own_delete" {
				pOn = 850
			}
			if k == "iface_route_list" {
				pOn = 800
			}
			if k == "reconnect_after_failed_listing" {
				pOn = 650
			}
			if r.Src.Chance(pOn, "cfg_fault_on_"+k) {
				w.rate[k] = r.Src.Range(20, 250, "cfg_fault_rate_"+k)
				if k == "route_replace_after_own_delete" {
					w.rate[k] = r.Src.Range(200, 700, "cfg_fault_rate_inflight")
				}
				if k == "reconnect_after_failed_listing" {
					w.rate[k] = r.Src.Range(300, 800, "cfg_fault_rate_reconnect")
				}
				if k == "iface_route_list" {
					// the OIF-filtered dump that follows a link flap is the call with in-flight state
					w.rate[k] = r.Src.Range(150, 600, "cfg_fault_rate_iface_list")
				}
				enabled++
			}
		}
		if r.Src.Chance(400, "cfg_mid") {
			w.pMid = r.Src.Range(5, 60, "cfg_mid_rate")
		}
	}
	w.pFocus = []int{0, 350, 700}[r.Src.Intn(3, "cfg_focus")]
	r.Cfg("focus", w.pFocus)
	pLose := 0
	if w.faultsOn && r.Src.Chance(300, "cfg_lose") {
		pLose = r.Src.Range(30, 200, "cfg_lose_rate")
	}
	// op mix presets: 0 balanced, 1 interface churn heavy, 2 desired-state heavy, 3 foreign-edit heavy,
	// 4 slow interface monitor (Felix acts on a stale view of the links for long stretches)
	mix := r.Src.Intn(5, "cfg_mix")
	//                 apply upd rem set link notify oob resync time resyncIface settle revert
	weights := [][]int{
		{14, 18, 6, 8, 10, 14, 8, 4, 5, 2, 6, 9},
		{12, 12, 4, 5, 22, 20, 4, 4, 5, 4, 8, 8},
		{12, 26, 8, 12, 6, 10, 4, 4, 4, 2, 6, 14},
		{14, 14, 4, 6, 8, 10, 22, 6, 5, 2, 8, 8},
		{18, 24, 4, 8, 16, 3, 3, 3, 4, 2, 2, 10},
	}[mix]
	var clNames []string
	for _, cs := range w.classes {
		clNames = append(clNames, cs.name)
	}
	r.Cfg("ipv6", w.v6)
	r.Cfg("dev_proto", w.devProto)
	r.Cfg("remove_external", w.removeExternal)
	r.Cfg("own_bird_ipip", w.ownBird)
	r.Cfg("grace_s", w.grace.Seconds())
	r.Cfg("static_arp", w.staticARP)
	r.Cfg("conntrack_cleanup", conntrackOn)
	r.Cfg("workloads", nWl)
	r.Cfg("pool", len(w.pool))
	r.Cfg("classes", strings.Join(clNames, ","))
	r.Cfg("nops", nops)
	r.Cfg("fault_kinds_enabled", enabled)
	r.Cfg("mid_apply_rate", w.pMid)
	r.Cfg("lose_rate", pLose)
	r.Cfg("mix", mix)
	r.Logf("cfg v6=%v devProto=%d excl=%d removeExternal=%v ownBird=%v grace=%v devSrc=%v arp=%v ct=%v classes=%v devices=%v nops=%d faults=%v mid=%d lose=%d",
		w.v6, w.devProto, w.exclProto, w.removeExternal, w.ownBird, w.grace, ipStr(w.devSrc), w.staticARP, conntrackOn, clNames, w.devices, nops, fmtRates(w.rate), w.pMid, pLose)

	// ---- stubs
	gomega.RegisterFailHandler(func(msg string, _ ...int) {
		if w.inSUT && strings.Contains(msg, "<bool>: false") && strings.Contains(msg, "to be true") {
			// The mock's "socket is open" check.  RouteTable keeps using the handle it
			// fetched at the start of a pass after HandleManager closed it (reopen
			// requested, reconnect failed).  With the real library a closed handle
			// falls back to one-shot sockets, so this is outside C17: count it and
			// let the call proceed as the real library would.
			r.Probe("sut_used_closed_netlink_handle")
			return
		}
		if w.inSUT {
			// any other sanity check of the mock (e.g. two sockets open at once)
			r.Violation("netlink_stub_expectation", "mock netlink expectation failed inside a RouteTable call: %s", msg)
		}
		r.HarnessError("mock netlink expectation failed in harness code: %s", msg)
	})
	w.dp = mocknetlink.New()
	w.mt = mocktime.New()

	// ---- arbitrary start state: links, stale Felix-owned routes, foreign routes
	for _, d := range w.devices {
		present := d == "eth0" || r.Src.Chance(600, "init_link_present")
		if !present {
			continue
		}
		up := d == "eth0" || !r.Src.Chance(250, "init_link_down")
		w.kAdd(d, up)
	}
	nInit := r.Src.Range(0, 10, "init_routes")
	for i := 0; i < nInit; i++ {
		rt, ok := w.randomKernelRoute("init")
		if !ok {
			continue
		}
		if rt.LinkIndex > 1 && !w.linkUp(w.nameOfIdx(rt.LinkIndex)) {
			continue // the kernel holds no routes through a down link
		}
		w.dp.AddMockRoute(&rt)
		if w.owned(&rt) {
			r.Probe("start_state_stale_owned_routes")
			r.Logf("init owned  %s", canon(&rt))
		} else {
			r.Probe("start_state_foreign_routes")
			r.Logf("init foreign %s", canon(&rt))
		}
	}

	// ---- the system under test
	pol := ownershippol.NewMainTable("vxlan.calico", netlink.RouteProtocol(w.devProto), []string{"cali"}, w.removeExternal, w.ownBird)
	ipv := uint8(4)
	if w.v6 {
		ipv = 6
	}
	opts := []routetable.Opt{
		routetable.WithRouteCleanupGracePeriod(w.grace),
		routetable.WithTimeShim(w.mt),
		routetable.WithNetlinkHandleShim(w.newHandle),
	}
	if conntrackOn {
		// The cleanup manager starts one goroutine per address.  They must reach
		// their blocking point at a seed-determined moment (not whenever the OS
		// happens to preempt us), so yield to them from the liveness callback the
		// RouteTable invokes at the top of every loop iteration: by the time it
		// waits for a cleanup, the (no-op) cleanup has always finished.
		opts = append(opts, routetable.WithConntrackShim(noopConntrack{w}),
			routetable.WithLivenessCB(func() { runtime.Gosched(); runtime.Gosched() }))
	} else {
		opts = append(opts, routetable.WithConntrackCleanup(false))
	}
	if w.staticARP {
		opts = append(opts, routetable.WithStaticARPEntries(true))
	}
	w.sut(func() {
		w.rt = routetable.New(pol, ipv, 10*time.Second, w.devSrc, netlink.RouteProtocol(w.devProto), w.removeExternal, 0,
			logrusr.NewSummarizer("sim"), w.dp, opts...)
	})

	// ---- chaos phase
	// undo record: what (class, interface) wanted before the most recent
	// desired-state change; "revert" restores it (and can flip back again)
	type undoRec struct {
		cs    classSpec
		iface string
		prev  map[string]routetable.Target
	}
	var undo *undoRec
	saveUndo := func(cs classSpec, iface string) {
		cp := map[string]routetable.Target{}
		for k, t := range w.desired[cs.rank][iface] {
			cp[k] = t
		}
		undo = &undoRec{cs, iface, cp}
	}
	for i := 0; i < nops; i++ {
		op := r.Src.Weighted(weights, "op")
		switch op {
		case 0, 10:
			if op == 10 {
				// the interface monitor catches up (and, sometimes, the periodic resync timer fires) before the dataplane loop applies
				resync := r.Src.Chance(500, "settle_resync")
				r.Op("settle: deliver %d notifications, resync=%v, Apply", len(w.events), resync)
				for len(w.events) > 0 {
					w.deliver(0, false)
				}
				if resync {
					w.sut(func() { w.rt.QueueResync() })
				}
			} else {
				r.Op("Apply")
			}
			err := w.apply("Apply")
			if w.inSync(err) {
				oracle, msg := w.exactOpt(true, true)
				r.Eval()
				r.Probe("exact_check_in_chaos")
				if oracle != "" {
					r.Violation(oracle, "after an error-free Apply with nothing hidden from Felix: %s\nkernel: %s", msg, w.dumpKernel())
				}
			}
		case 1:
			cs, iface := w.pickClassIface()
			t := w.genTarget(cs, iface)
			r.Op("RouteUpdate %s %s %s", cs.name, iface, tgtStr(t))
			saveUndo(cs, iface)
			w.modelSet(cs.rank, iface, w.keyOf(t.CIDR, t.Priority), t)
			w.sut(func() { w.rt.RouteUpdate(cs.class, w.sutIface(iface), t) })
		case 2:
			cs, iface := w.pickClassIface()
			have := core.SortedKeys(w.desired[cs.rank][iface])
			var key routetable.RouteKey
			if len(have) > 0 && !r.Src.Chance(150, "rem_absent") {
				t := w.desired[cs.rank][iface][have[r.Src.Intn(len(have), "rem_which")]]
				key = t.RouteKey
			} else {
				key = routetable.RouteKey{CIDR: w.pool[r.Src.Intn(len(w.pool), "rem_cidr")]}
			}
			r.Op("RouteRemove %s %s %s prio=%d", cs.name, iface, key.CIDR, key.Priority)
			saveUndo(cs, iface)
			if m := w.desired[cs.rank][iface]; m != nil {
				delete(m, w.keyOf(key.CIDR, key.Priority))
			}
			w.sut(func() { w.rt.RouteRemove(cs.class, w.sutIface(iface), key) })
		case 3:
			cs, iface := w.pickClassIface()
			n := r.Src.Intn(4, "set_n")
			var ts []routetable.Target
			m := map[string]routetable.Target{}
			var desc []string
			for j := 0; j < n; j++ {
				t := w.genTarget(cs, iface)
				ts = append(ts, t)
				m[w.keyOf(t.CIDR, t.Priority)] = t // a later duplicate replaces an earlier one
				desc = append(desc, tgtStr(t))
			}
			r.Op("SetRoutes %s %s [%s]", cs.name, iface, strings.Join(desc, " "))
			saveUndo(cs, iface)
			if w.desired[cs.rank] == nil {
				w.desired[cs.rank] = map[string]map[string]routetable.Target{}
			}
			w.desired[cs.rank][iface] = m
			w.sut(func() { w.rt.SetRoutes(cs.class, w.sutIface(iface), ts) })
		case 4:
			d := w.linkOp("link")
			r.Op("%s", d)
		case 5:
			if len(w.events) == 0 {
				r.Op("notify (nothing pending)")
				break
			}
			i := w.pickEvent("notify_which")
			lose := pLose > 0 && r.Src.Chance(pLose, "fault_notification_lost")
			r.Op("deliver notification for %s", w.events[i].name)
			w.deliver(i, lose)
		case 6:
			d := w.outOfBandRouteOp("oob")
			r.Op("%s", d)
		case 7:
			r.Op("QueueResync")
			w.sut(func() { w.rt.QueueResync() })
		case 8:
			d := time.Duration(r.Src.Range(1, 40, "time_s")) * time.Second
			r.Op("advance time %v", d)
			w.replaceStuck = map[string]bool{}
			w.mt.IncrementTime(d)
			r.AddSimTime(d)
		case 11:
			// flapping desired state: the most recent change is taken back
			if undo == nil {
				r.Op("revert (nothing to revert)")
				break
			}
			u := undo
			saveUndo(u.cs, u.iface) // a second revert flips forward again
			var ts []routetable.Target
			var desc []string
			for _, k := range core.SortedKeys(u.prev) {
				ts = append(ts, u.prev[k])
				desc = append(desc, tgtStr(u.prev[k]))
			}
			r.Op("revert: SetRoutes %s %s [%s]", u.cs.name, u.iface, strings.Join(desc, " "))
			if w.desired[u.cs.rank] == nil {
				w.desired[u.cs.rank] = map[string]map[string]routetable.Target{}
			}
			w.desired[u.cs.rank][u.iface] = u.prev
			w.sut(func() { w.rt.SetRoutes(u.cs.class, w.sutIface(u.iface), ts) })
		case 9:
			name := w.devices[r.Src.Intn(len(w.devices), "resync_iface")]
			r.Op("QueueResyncIface %s", name)
			w.sut(func() { w.rt.QueueResyncIface(name) })
		}
	}

	// ---- quiesce: faults stop, every notification arrives, one resync is requested
	w.faultsOn = false
	w.eintrBurst = 0
	r.Logf("quiesce: faults off, %d notifications pending", len(w.events))
	for len(w.events) > 0 {
		w.deliver(0, false)
	}
	// Step A: no resync is requested yet.  Felix has been told about every
	// link change, so Apply alone must get every destination right that nobody
	// edited behind its back (those wait for the resync of step B).
	for n := 1; n <= 3; n++ {
		err := w.apply(fmt.Sprintf("settle Apply #%d", n))
		if err != nil {
			continue
		}
		if w.inSync(err) {
			oracle, msg := w.exactOpt(true, true)
			r.Eval()
			r.Probe("exact_check_after_settling")
			if oracle != "" {
				r.Violation(oracle, "after faults stopped and every notification was delivered (no resync requested): %s\nkernel: %s", msg, w.dumpKernel())
			}
		}
		break
	}
	// Step B: the periodic resync fires.
	w.sut(func() { w.rt.QueueResync() })
	converged := 0
	var lastOracle, lastMsg string
	var lastErr error
	for n := 1; n <= 3; n++ {
		lastErr = w.apply(fmt.Sprintf("quiesce Apply #%d", n))
		if n == 1 {
			// move the clock past the cleanup grace period: from here on no
			// owned-but-unknown route may be excused
			d := w.grace + time.Second
			w.mt.IncrementTime(d)
			r.AddSimTime(d)
		}
		if lastErr != nil {
			continue
		}
		lastOracle, lastMsg = w.exact(false)
		if lastOracle == "" {
			converged = n
			break
		}
	}
	r.Eval()
	if converged == 0 {
		if lastErr != nil {
			r.Violation("bounded_convergence", "3 fault-free Apply calls after a resync request did not succeed: last error %v\nkernel: %s", lastErr, w.dumpKernel())
		}
		r.Violation("bounded_convergence_"+lastOracle, "3 fault-free Apply calls after a resync request did not reach the desired state: %s\nkernel: %s", lastMsg, w.dumpKernel())
	}
	r.Probe(fmt.Sprintf("converged_after_%d", converged))
	// one more pass: the state must be stable and foreign routes still untouched
	if err := w.apply("post-convergence Apply"); err != nil {
		r.Violation("post_convergence_apply_error", "Apply on a converged table failed: %v", err)
	}
	if o, m := w.exact(false); o != "" {
		r.Violation("post_convergence_"+o, "a further Apply broke the converged state: %s", m)
	}
	r.Eval()
	if w.ctCalls > 0 {
		r.Probe("conntrack_cleanup_called")
	}

	// ---- fingerprint: final kernel table + desired model
	var sb strings.Builder
	sb.WriteString(w.dumpKernel())
	for _, rk := range sortedInts(w.desired) {
		for _, ifn := range core.SortedKeys(w.desired[rk]) {
			for _, k := range core.SortedKeys(w.desired[rk][ifn]) {
				fmt.Fprintf(&sb, "|%d/%s/%s", rk, ifn, k)
			}
		}
	}
	r.Fingerprint(sb.String())
}

func sortedInts[V any](m map[int]V) []int {
	ks := make([]int, 0, len(m))
	for k := range m {
		ks = append(ks, k)
	}
	sort.Ints(ks)
	return ks
}

func inStrs(xs []string, x string) bool {
	for _, y := range xs {
		if x == y {
			return true
		}
	}
	return false
}

func fmtRates(m map[string]int) string {
	var parts []string
	for _, k := range core.SortedKeys(m) {
		parts = append(parts, fmt.Sprintf("%s=%d", k, m[k]))
	}
	return strings.Join(parts, ",")
}
