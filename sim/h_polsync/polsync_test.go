// Engine polsync (C31): the real policysync.Processor loop (its own goroutine,
// inside a testing/synctest bubble) fed by a contract-respecting generator of
// calculation-graph output, with workloads that join, leave, re-join and read
// their per-join output channel at seed-chosen times.
//
// The harness owns exactly one goroutine; the processor owns the other.  Only
// one of the processor's two input channels ever has something to offer, so the
// processor's select never has a choice to make.
package h_polsync

import (
	"fmt"
	"net/netip"
	"sort"
	"strconv"
	"strings"
	"testing"
	"testing/synctest"

	"github.com/sirupsen/logrus"
	googleproto "google.golang.org/protobuf/proto"
	"google.golang.org/protobuf/reflect/protoreflect"

	"github.com/projectcalico/calico/felix/policysync"
	"github.com/projectcalico/calico/felix/proto"
	"github.com/projectcalico/calico/felix/types"

	"verifsim/core"
)

var theT *testing.T

func TestSim(t *testing.T) {
	theT = t
	core.Main(t, "polsync", []string{"C31"}, run)
}

// ---------------------------------------------------------------- SUT panic capture

// The processor runs in its own goroutine, so a logrus Panic there cannot be
// recovered by core; the hook turns it into a violation before the panic fires.
type panicHook struct{ r *core.R }

func (h *panicHook) Levels() []logrus.Level {
	return []logrus.Level{logrus.PanicLevel, logrus.FatalLevel}
}

func (h *panicHook) Fire(e *logrus.Entry) error {
	ks := make([]string, 0, len(e.Data))
	for k := range e.Data {
		ks = append(ks, k)
	}
	sort.Strings(ks)
	h.r.Violation("sut_panic", "processor logged at level %s on contract-respecting input: %q (fields %v)", e.Level, e.Message, ks)
	return nil
}

// ---------------------------------------------------------------- reference data

// setRefFields are the fields of proto.Rule that name IP sets, derived from the
// message definition (every repeated string field whose name ends in set_ids).
var setRefFields []protoreflect.FieldDescriptor

func initSetRefFields(r *core.R) {
	fds := (&proto.Rule{}).ProtoReflect().Descriptor().Fields()
	for i := 0; i < fds.Len(); i++ {
		fd := fds.Get(i)
		if fd.IsList() && fd.Kind() == protoreflect.StringKind && strings.HasSuffix(string(fd.Name()), "set_ids") {
			setRefFields = append(setRefFields, fd)
		}
	}
	if len(setRefFields) < 4 {
		r.HarnessError("only %d IP-set reference fields found in proto.Rule", len(setRefFields))
	}
}

func rulesRefs(rules []*proto.Rule, out map[string]bool) {
	for _, rule := range rules {
		m := rule.ProtoReflect()
		for _, fd := range setRefFields {
			l := m.Get(fd).List()
			for i := 0; i < l.Len(); i++ {
				out[l.Get(i).String()] = true
			}
		}
	}
}

type ruleHolder interface {
	GetInboundRules() []*proto.Rule
	GetOutboundRules() []*proto.Rule
}

func holderRefs(p ruleHolder) map[string]bool {
	out := map[string]bool{}
	rulesRefs(p.GetInboundRules(), out)
	rulesRefs(p.GetOutboundRules(), out)
	return out
}

func polKey(id *proto.PolicyID) string {
	return id.GetKind() + "/" + id.GetNamespace() + "/" + id.GetName()
}

func epPolicyKeys(ep *proto.WorkloadEndpoint) map[string]bool {
	out := map[string]bool{}
	for _, t := range ep.GetTiers() {
		for _, id := range t.GetIngressPolicies() {
			out[polKey(id)] = true
		}
		for _, id := range t.GetEgressPolicies() {
			out[polKey(id)] = true
		}
	}
	return out
}

func epProfiles(ep *proto.WorkloadEndpoint) map[string]bool {
	out := map[string]bool{}
	for _, n := range ep.GetProfileIds() {
		out[n] = true
	}
	return out
}

func sortedSet(m map[string]bool) []string {
	ks := make([]string, 0, len(m))
	for k := range m {
		ks = append(ks, k)
	}
	sort.Strings(ks)
	return ks
}

// canonMember gives one canonical spelling per IP-set member so that members
// can be compared whatever spelling the sender used.
func canonMember(r *core.R, typ proto.IPSetUpdate_IPSetType, s string) string {
	switch typ {
	case proto.IPSetUpdate_IP:
		if i := strings.IndexByte(s, '/'); i >= 0 {
			s = s[:i]
		}
		a, err := netip.ParseAddr(s)
		if err != nil {
			r.Violation("ipset_member_syntax", "unparsable IP member %q", s)
		}
		return a.String()
	case proto.IPSetUpdate_NET:
		if !strings.Contains(s, "/") {
			a, err := netip.ParseAddr(s)
			if err != nil {
				r.Violation("ipset_member_syntax", "unparsable net member %q", s)
			}
			return netip.PrefixFrom(a, a.BitLen()).String()
		}
		p, err := netip.ParsePrefix(s)
		if err != nil {
			r.Violation("ipset_member_syntax", "unparsable net member %q", s)
		}
		return p.Masked().String()
	case proto.IPSetUpdate_IP_AND_PORT:
		parts := strings.SplitN(s, ",", 2)
		if len(parts) != 2 {
			r.Violation("ipset_member_syntax", "unparsable ip,port member %q", s)
		}
		a, err := netip.ParseAddr(parts[0])
		if err != nil {
			r.Violation("ipset_member_syntax", "unparsable ip,port member %q", s)
		}
		return a.String() + "," + strings.ToLower(parts[1])
	}
	r.Violation("ipset_member_syntax", "unknown IP set type %v", typ)
	return ""
}

// ---------------------------------------------------------------- upstream model (what the calc graph has said)

type uset struct {
	idx     int
	typ     proto.IPSetUpdate_IPSetType
	members map[string]bool // canonical
	nextK   int             // next never-used member index (big sets grow monotonically)
	big     bool
	ver     int // changes with every upstream change of the membership
}

type upol struct {
	id  *proto.PolicyID
	pol *proto.Policy
}

type poolPol struct {
	id   *proto.PolicyID
	key  string
	tier int
}

type upstream struct {
	sets   map[string]*uset
	pols   map[string]*upol
	profs  map[string]*proto.Profile
	eps    map[int]*proto.WorkloadEndpoint
	sas    map[string]*proto.ServiceAccountUpdate
	nss    map[string]*proto.NamespaceUpdate
	inSync bool
}

// ---------------------------------------------------------------- per-stream client model

type cset struct {
	typ      proto.IPSetUpdate_IPSetType
	members  map[string]bool
	verified int // upstream version against which the members were last found equal; 0 after any message for the set
}

type client struct {
	ep     *proto.WorkloadEndpoint
	pols   map[string]*proto.Policy
	profs  map[string]*proto.Profile
	sets   map[string]*cset
	sas    map[string]*proto.ServiceAccountUpdate
	nss    map[string]*proto.NamespaceUpdate
	inSync int
}

type stream struct {
	uid         uint64
	w           int
	ch          chan *proto.ToDataplane
	cli         *client
	recv        int
	pushed      bool
	leaveSent   bool
	expectClose string // "" = must stay open; otherwise why the processor must close it
	closed      bool
	inSyncFloor int // -1: upstream not in sync yet; else first stream index at which an InSync is legitimate
	checkedSeq  int
	checkedRecv int
}

type workload struct {
	id   types.WorkloadEndpointID
	pid  *proto.WorkloadEndpointID
	cur  *stream // the join the processor must currently consider active (model)
	eVer int
}

type harness struct {
	r        *core.R
	p        *policysync.Processor
	updates  chan any
	up       upstream
	wl       []*workload
	live     []*stream // pushed, close not yet observed
	all      []*stream // every stream ever pushed (leave candidates)
	held     []*stream // UID allocated, join not yet pushed
	nextUID  uint64
	uidAlloc *policysync.UIDAllocator
	inputSeq int
	ver      int

	polPool  []poolPol
	profPool []string
	setPool  []string
	saPool   []*proto.ServiceAccountID
	nsPool   []string
	tiers    []string

	bigRun     bool
	bigOps     int
	maxBigOps  int
	roomy      bool
	joinsLeft  int
	opW        []int
	density    int
	thorough   bool
	busyQueued int
	script     []int // scripted upstream operations still to run (start-of-day snapshot)
}

func run(r *core.R) {
	r.FaultDecl("reader_stall", "stale_leave", "rejoin_without_leave", "join_unknown_endpoint", "join_uid_out_of_order",
		"join_or_leave_queued_behind_stall", "duplicate_in_sync", "leave_after_processor_close")
	r.ProbeDecl("split_ipset_update_seen", "split_ipset_delta_seen", "ipset_replace_while_referenced", "delta_delivered",
		"policy_removed_from_stream", "profile_removed_from_stream", "ipset_removed_from_stream", "wep_remove_joined",
		"join_after_in_sync", "in_sync_broadcast", "exact_state_checks", "idle_probe_sent", "leave_current",
		"closed_streams_verified", "full_sync_on_join", "sa_or_ns_on_join", "unhandled_message_sent", "stall_in_big_ipset_run")
	initSetRefFields(r)
	logrus.AddHook(&panicHook{r})
	finished := false
	defer func() {
		if p := recover(); p != nil {
			if finished && strings.Contains(fmt.Sprint(p), "main bubble goroutine has exited") {
				return // the processor loop never exits: expected at the end of the bubble
			}
			if strings.Contains(fmt.Sprint(p), "deadlock") {
				r.HarnessError("bubble deadlock: %v", p)
			}
			panic(p)
		}
	}()
	synctest.Test(theT, func(t *testing.T) {
		h := &harness{r: r}
		h.main()
		finished = true
	})
}

// ---------------------------------------------------------------- main loop

func (h *harness) main() {
	r := h.r
	h.thorough = r.Tier == "thorough"
	h.configure()
	h.updates = make(chan any)
	h.p = policysync.NewProcessor(h.updates)
	h.p.Start()

	nSteps := r.Src.Range(8, map[bool]int{false: 90, true: 220}[h.thorough], "n_steps")
	if h.bigRun && nSteps > 60 {
		nSteps = 60
	}
	r.Cfg("n_steps", nSteps)
	steps := 0
	for steps < nSteps {
		if h.settle() {
			h.busyQueued = 0
			h.atIdle()
			h.idleAction()
			steps++
		} else {
			h.busyAction()
		}
	}
	// quiesce: everything the processor wants to say is read, then the exact-state oracle runs on every open stream
	h.quiesce()
	// every remaining join leaves; every channel must then be closed and silent
	for _, s := range h.all {
		if !s.leaveSent && s.pushed {
			h.pushLeave(s)
			h.quiesce()
		}
	}
	if len(h.live) != 0 {
		r.HarnessError("%d streams still live after final leaves", len(h.live))
	}
	h.fingerprint()
}

func (h *harness) quiesce() {
	guard := 0
	for {
		guard++
		if guard > 2_000_000 {
			h.r.Violation("no_quiescence", "processor did not become idle although every output was read continuously")
		}
		idle := h.settle()
		drained := false
		for _, s := range h.live {
			if len(s.ch) > 0 {
				h.recvOne(s)
				drained = true
				break
			}
		}
		if idle && !drained {
			break
		}
		if !idle && !drained {
			h.r.HarnessError("processor busy but no stream has anything buffered")
		}
	}
	h.atIdle()
}

// settle waits until the processor is durably blocked and reports whether it is
// blocked waiting for input (idle) rather than on a full output channel.
func (h *harness) settle() bool {
	synctest.Wait()
	if len(h.p.JoinUpdates) > 0 {
		return false
	}
	full := false
	for _, s := range h.live {
		if len(s.ch) == cap(s.ch) {
			full = true
			break
		}
	}
	if !full {
		return true
	}
	// Ambiguous: a channel is full, which may or may not be what the processor is blocked on.  Offer a message
	// of a type the processor ignores (the calc graph fans all of its output out to it); it is taken iff the
	// processor is in its select.
	select {
	case h.updates <- &proto.HostMetadataUpdate{Hostname: "idle-probe"}:
		h.r.Probe("idle_probe_sent")
		synctest.Wait()
		return true
	default:
		return false
	}
}

func (h *harness) configure() {
	r := h.r
	nW := r.Src.Range(1, map[bool]int{false: 4, true: 5}[h.thorough], "n_workloads")
	nPol := r.Src.Range(1, 6, "n_policies")
	nTier := r.Src.Range(1, 3, "n_tiers")
	nProf := r.Src.Range(0, 3, "n_profiles")
	nSet := r.Src.Range(0, 5, "n_ipsets")
	nSA := r.Src.Range(0, 3, "n_sas")
	nNS := r.Src.Range(0, 2, "n_nss")
	h.bigRun = nSet > 0 && r.Src.Chance(map[bool]int{false: 45, true: 110}[h.thorough], "big_run")
	h.roomy = r.Src.Chance(200, "roomy_channels")
	h.density = r.Src.Range(200, 800, "ref_density")
	h.joinsLeft = r.Src.Range(1, 12, "max_joins")
	h.maxBigOps = r.Src.Range(1, 3, "max_big_ops")
	if h.bigRun && nW > 2 {
		nW = 2
	}
	if h.bigRun && h.joinsLeft > 5 {
		h.joinsLeft = 5
	}
	r.Cfg("n_workloads", nW)
	r.Cfg("n_policies", nPol)
	r.Cfg("n_tiers", nTier)
	r.Cfg("n_profiles", nProf)
	r.Cfg("n_ipsets", nSet)
	r.Cfg("big_run", h.bigRun)
	r.Cfg("roomy", h.roomy)
	for i := 0; i < nW; i++ {
		id := types.WorkloadEndpointID{OrchestratorId: policysync.OrchestratorId, WorkloadId: fmt.Sprintf("ns%d/w%d", i%2, i), EndpointId: policysync.EndpointId}
		h.wl = append(h.wl, &workload{id: id, pid: types.WorkloadEndpointIDToProto(id)})
	}
	for i := 0; i < nTier; i++ {
		h.tiers = append(h.tiers, fmt.Sprintf("tier%d", i))
	}
	for i := 0; i < nPol; i++ {
		// policies 0-2 are global, 3-5 namespaced with the SAME names: ids differ only in kind/namespace
		id := &proto.PolicyID{Name: fmt.Sprintf("p%d", i%3), Kind: "GlobalNetworkPolicy"}
		if i >= 3 {
			id.Kind, id.Namespace = "NetworkPolicy", "ns0"
		}
		h.polPool = append(h.polPool, poolPol{id: id, key: polKey(id), tier: r.Src.Intn(nTier, "policy_tier")})
	}
	for i := 0; i < nProf; i++ {
		h.profPool = append(h.profPool, fmt.Sprintf("prof%d", i))
	}
	for i := 0; i < nSet; i++ {
		h.setPool = append(h.setPool, fmt.Sprintf("s:set%d", i))
	}
	for i := 0; i < nSA; i++ {
		h.saPool = append(h.saPool, &proto.ServiceAccountID{Namespace: fmt.Sprintf("ns%d", i%2), Name: fmt.Sprintf("sa%d", i/2)})
	}
	for i := 0; i < nNS; i++ {
		h.nsPool = append(h.nsPool, fmt.Sprintf("ns%d", i))
	}
	// per-run operation mix (swarm): each weight is drawn, some operations are switched off entirely
	base := []int{8, 6, 8, 4, 12, 4, 6, 3, 14, 3, 4, 3, 2, 2}
	h.opW = make([]int, len(base))
	for i, b := range base {
		switch r.Src.Intn(4, "op_weight") {
		case 0:
			h.opW[i] = b
		case 1:
			h.opW[i] = b * 3
		case 2:
			h.opW[i] = (b + 1) / 2
		case 3:
			h.opW[i] = 0
		}
	}
	h.opW[opWepUpdate] += 3 // a run without endpoints exercises little
	h.opW[opPolUpdate] += 2
	// Most runs start like Felix does: the calc graph flushes a snapshot in dependency order (IP sets, policies,
	// profiles, endpoints) and then reports in-sync; joins and reads interleave with it like with anything else.
	if h.bigRun {
		// a run that pays for an 80k-member IP set should get it to a workload: full snapshot, dense references
		h.script = append(h.script, opSetNew)
		for i := 0; i < nPol; i++ {
			h.script = append(h.script, opPolUpdate)
		}
		for i := 0; i < nW; i++ {
			h.script = append(h.script, opWepUpdate)
		}
		h.density = 900
		if h.joinsLeft < 3 {
			h.joinsLeft = 3
		}
		h.opW[opSetDelta] += 12
		h.opW[opSetReplace] += 4
	} else if r.Src.Chance(700, "snapshot_first") {
		for i, n := 0, r.Src.Intn(nSet+1, "snapshot_sets"); i < n; i++ {
			h.script = append(h.script, opSetNew)
		}
		for i, n := 0, r.Src.Intn(nPol+1, "snapshot_policies"); i < n; i++ {
			h.script = append(h.script, opPolUpdate)
		}
		for i, n := 0, r.Src.Intn(nProf+1, "snapshot_profiles"); i < n; i++ {
			h.script = append(h.script, opProfUpdate)
		}
		for i, n := 0, r.Src.Intn(nW+1, "snapshot_endpoints"); i < n; i++ {
			h.script = append(h.script, opWepUpdate)
		}
		if r.Src.Chance(600, "snapshot_in_sync") {
			h.script = append(h.script, opInSync)
		}
	}
	h.up = upstream{sets: map[string]*uset{}, pols: map[string]*upol{}, profs: map[string]*proto.Profile{},
		eps: map[int]*proto.WorkloadEndpoint{}, sas: map[string]*proto.ServiceAccountUpdate{}, nss: map[string]*proto.NamespaceUpdate{}}
}

// ---------------------------------------------------------------- idle / busy actions

func (h *harness) idleAction() {
	r := h.r
	nonEmpty := 0
	for _, s := range h.live {
		if len(s.ch) > 0 {
			nonEmpty++
		}
	}
	w := []int{14, 3, 1, 0, 1}
	if nonEmpty > 0 {
		w[3] = 5
	}
	if len(h.all) == 0 {
		w[1] = 8 // nothing can be observed before the first join
	}
	switch r.Src.Weighted(w, "sched_idle_action") {
	case 0:
		h.upstreamOp()
	case 1:
		h.joinOp()
	case 2:
		h.leaveOp()
	case 3:
		h.drainOp()
	case 4:
		// read everything that is buffered
		for _, s := range append([]*stream(nil), h.live...) {
			for len(s.ch) > 0 && !s.closed {
				h.recvOne(s)
				synctest.Wait()
			}
		}
	}
}

func (h *harness) busyAction() {
	r := h.r
	var cands []*stream
	for _, s := range h.live {
		if len(s.ch) > 0 {
			cands = append(cands, s)
		}
	}
	if len(cands) == 0 {
		r.HarnessError("processor is blocked but no live stream has a buffered message")
	}
	r.Fault("reader_stall")
	if h.bigRun && h.bigOps > 0 {
		r.Probe("stall_in_big_ipset_run")
	}
	if h.busyQueued < 3 && len(h.p.JoinUpdates) < 6 && r.Src.Chance(120, "sched_busy_queue_join_leave") {
		h.busyQueued++
		before := len(h.p.JoinUpdates)
		if r.Src.Chance(500, "sched_busy_leave_not_join") {
			h.leaveOp()
		} else {
			h.joinOp()
		}
		if len(h.p.JoinUpdates) > before {
			r.Fault("join_or_leave_queued_behind_stall")
		}
		return
	}
	s := cands[r.Src.Intn(len(cands), "sched_busy_drain_stream")]
	n := r.Src.Range(1, len(s.ch), "sched_busy_drain_n")
	for i := 0; i < n && len(s.ch) > 0; i++ {
		h.recvOne(s)
		synctest.Wait()
	}
}

func (h *harness) drainOp() {
	var cands []*stream
	for _, s := range h.live {
		if len(s.ch) > 0 {
			cands = append(cands, s)
		}
	}
	if len(cands) == 0 {
		return
	}
	s := cands[h.r.Src.Intn(len(cands), "sched_drain_stream")]
	n := h.r.Src.Range(1, len(s.ch), "sched_drain_n")
	for i := 0; i < n && len(s.ch) > 0; i++ {
		h.recvOne(s)
		synctest.Wait()
	}
}

// recvOne takes at most one message (or the close notification) from s without blocking.
func (h *harness) recvOne(s *stream) bool {
	select {
	case m, ok := <-s.ch:
		if !ok {
			h.observeClose(s)
			return true
		}
		h.deliver(s, m)
		return true
	default:
		return false
	}
}

func (h *harness) observeClose(s *stream) {
	r := h.r
	r.Logf("  stream uid=%d w=%d: closed after %d messages", s.uid, s.w, s.recv)
	r.Check("unexpected_close", s.expectClose != "", "stream uid=%d of workload %d was closed by the processor although its join is still the active one (no matching leave, re-join or endpoint removal)", s.uid, s.w)
	s.closed = true
	if s.expectClose == "ep_removed" {
		r.Check("endpoint_remove_delivered", s.cli.ep == nil, "stream uid=%d closed because its endpoint was removed, but the stream still ends with the endpoint present (no WorkloadEndpointRemove delivered)", s.uid)
	}
	r.Probe("closed_streams_verified")
	for i, x := range h.live {
		if x == s {
			h.live = append(h.live[:i:i], h.live[i+1:]...)
			break
		}
	}
}

// atIdle runs when every offered input has been completely processed.
func (h *harness) atIdle() {
	r := h.r
	for _, s := range append([]*stream(nil), h.live...) {
		if s.expectClose != "" {
			// the processor has processed the leave / re-join / endpoint removal: the channel must be closed
			// and whatever is still buffered was sent before that moment
			for !s.closed {
				if !h.recvOne(s) {
					r.Violation("not_closed_after_"+s.expectClose, "stream uid=%d w=%d: processor is idle after %s but the channel is still open (the server side would wait for the close forever, and further updates could be sent to a workload that left)", s.uid, s.w, s.expectClose)
				}
			}
			r.Eval()
			continue
		}
		if len(s.ch) == 0 {
			// detects a close that nobody asked for
			if h.recvOne(s) {
				if !s.closed {
					r.HarnessError("message appeared on an empty channel while the processor was idle")
				}
				continue
			}
			if s.checkedSeq != h.inputSeq || s.checkedRecv != s.recv {
				h.checkExact(s)
				s.checkedSeq, s.checkedRecv = h.inputSeq, s.recv
			}
		}
	}
}

// ---------------------------------------------------------------- joins and leaves

func (h *harness) newStream(w int) *stream {
	r := h.r
	if h.uidAlloc == nil {
		h.uidAlloc = policysync.NewUIDAllocator()
	}
	h.nextUID = h.uidAlloc.NextUID() // the real allocator the Server uses for every new connection
	c := 100
	if !h.roomy {
		switch r.Src.Weighted([]int{6, 3, 1}, "chan_cap_class") {
		case 0:
			c = r.Src.Range(1, 3, "chan_cap")
		case 1:
			c = r.Src.Range(4, 16, "chan_cap")
		}
	}
	return &stream{uid: h.nextUID, w: w, ch: make(chan *proto.ToDataplane, c), inSyncFloor: -1,
		cli: &client{pols: map[string]*proto.Policy{}, profs: map[string]*proto.Profile{}, sets: map[string]*cset{},
			sas: map[string]*proto.ServiceAccountUpdate{}, nss: map[string]*proto.NamespaceUpdate{}}}
}

func (h *harness) joinOp() {
	r := h.r
	if len(h.p.JoinUpdates) >= 8 {
		return
	}
	// a connection accepted earlier whose join request reaches the processor only now
	if len(h.held) > 0 && r.Src.Chance(500, "join_push_held") {
		s := h.held[0]
		h.held = h.held[1:]
		if s.uid < h.nextUID {
			later := false
			for _, x := range h.all {
				if x.uid > s.uid {
					later = true
				}
			}
			if later {
				r.Fault("join_uid_out_of_order")
			}
		}
		h.pushJoin(s)
		return
	}
	if h.joinsLeft <= 0 {
		return
	}
	h.joinsLeft--
	w := r.Src.Intn(len(h.wl), "join_workload")
	s := h.newStream(w)
	if r.Src.Chance(100, "join_hold") {
		r.Op("accept connection of workload %d uid=%d (join request delayed)", w, s.uid)
		h.held = append(h.held, s)
		return
	}
	h.pushJoin(s)
}

func (h *harness) pushJoin(s *stream) {
	r := h.r
	wl := h.wl[s.w]
	r.Op("join workload %d uid=%d cap=%d", s.w, s.uid, cap(s.ch))
	if wl.cur != nil {
		r.Fault("rejoin_without_leave")
		wl.cur.expectClose = "rejoin"
	}
	if _, ok := h.up.eps[s.w]; !ok {
		r.Fault("join_unknown_endpoint")
	} else {
		r.Probe("full_sync_on_join")
	}
	if len(h.up.sas)+len(h.up.nss) > 0 {
		r.Probe("sa_or_ns_on_join")
	}
	wl.cur = s
	s.pushed = true
	if h.up.inSync {
		s.inSyncFloor = 0
		r.Probe("join_after_in_sync")
	}
	h.live = append(h.live, s)
	h.all = append(h.all, s)
	h.inputSeq++
	h.p.JoinUpdates <- policysync.JoinRequest{JoinMetadata: policysync.JoinMetadata{EndpointID: wl.id, JoinUID: s.uid}, C: s.ch}
}

func (h *harness) leaveOp() {
	r := h.r
	if len(h.p.JoinUpdates) >= 8 {
		return
	}
	var cands []*stream
	for _, s := range h.all {
		if !s.leaveSent {
			cands = append(cands, s)
		}
	}
	if len(cands) == 0 {
		return
	}
	var stale []*stream
	for _, s := range cands {
		if h.wl[s.w].cur != s {
			stale = append(stale, s)
		}
	}
	if len(stale) > 0 && len(stale) < len(cands) && r.Src.Chance(600, "leave_prefer_stale") {
		cands = stale
	}
	h.pushLeave(cands[r.Src.Intn(len(cands), "leave_which")])
}

func (h *harness) pushLeave(s *stream) {
	r := h.r
	wl := h.wl[s.w]
	r.Op("leave workload %d uid=%d", s.w, s.uid)
	s.leaveSent = true
	if wl.cur == s {
		r.Probe("leave_current")
		s.expectClose = "leave"
		wl.cur = nil
	} else {
		r.Fault("stale_leave")
		if s.closed {
			r.Fault("leave_after_processor_close")
		}
	}
	h.inputSeq++
	h.p.JoinUpdates <- policysync.LeaveRequest{JoinMetadata: policysync.JoinMetadata{EndpointID: wl.id, JoinUID: s.uid}}
}

// ---------------------------------------------------------------- upstream (calc graph) generator

const (
	opSetNew = iota
	opSetReplace
	opSetDelta
	opSetRemove
	opPolUpdate
	opPolRemove
	opProfUpdate
	opProfRemove
	opWepUpdate
	opWepRemove
	opSA
	opNS
	opInSync
	opNoise
)

// offer hands one calc-graph message to the processor, which must be idle.
func (h *harness) offer(msg any, format string, a ...interface{}) {
	h.r.Op(format, a...)
	h.inputSeq++
	select {
	case h.updates <- msg:
	default:
		h.r.HarnessError("processor was not ready to receive although judged idle")
	}
}

func (h *harness) upstreamOp() {
	var op int
	if len(h.script) > 0 {
		op, h.script = h.script[0], h.script[1:]
	} else {
		op = h.r.Src.Weighted(h.opW, "upstream_op")
	}
	for tries := 0; tries < 4; tries++ {
		if h.tryOp(op) {
			return
		}
		// not possible in the current upstream state: fall back to something that builds state
		op = []int{opPolUpdate, opWepUpdate, opSetNew, opNoise}[tries]
	}
}

func (h *harness) tryOp(op int) bool {
	r := h.r
	up := &h.up
	switch op {
	case opSetNew:
		var free []string
		for _, id := range h.setPool {
			if _, ok := up.sets[id]; !ok {
				free = append(free, id)
			}
		}
		if len(free) == 0 {
			return false
		}
		id := free[r.Src.Intn(len(free), "set_new_which")]
		if h.bigRun && free[0] == h.setPool[0] {
			id = free[0] // a big-set run gets its big set early
		}
		idx := 0
		for i, x := range h.setPool {
			if x == id {
				idx = i
			}
		}
		s := &uset{idx: idx, members: map[string]bool{}}
		s.big = h.bigRun && idx == 0 && h.bigOps < h.maxBigOps
		if s.big {
			s.typ = proto.IPSetUpdate_IP
		} else {
			s.typ = []proto.IPSetUpdate_IPSetType{proto.IPSetUpdate_IP, proto.IPSetUpdate_NET, proto.IPSetUpdate_IP_AND_PORT}[r.Src.Intn(3, "set_type")]
		}
		members := h.genMembers(s, true)
		up.sets[id] = s
		h.offer(&proto.IPSetUpdate{Id: id, Type: s.typ, Members: members}, "IPSetUpdate new %s type=%v members=%d", id, s.typ, len(members))
		return true
	case opSetReplace:
		ids := core.SortedKeys(up.sets)
		if len(ids) == 0 {
			return false
		}
		id := ids[r.Src.Intn(len(ids), "set_replace_which")]
		if h.bigRun && ids[0] == h.setPool[0] && r.Src.Chance(500, "replace_big_set") {
			id = ids[0]
		}
		s := up.sets[id]
		if s.big && h.bigOps >= h.maxBigOps {
			return false
		}
		s.members = map[string]bool{}
		members := h.genMembers(s, true)
		if h.setReferencedByJoined(id) {
			r.Probe("ipset_replace_while_referenced")
		}
		h.offer(&proto.IPSetUpdate{Id: id, Type: s.typ, Members: members}, "IPSetUpdate replace %s members=%d", id, len(members))
		return true
	case opSetDelta:
		ids := core.SortedKeys(up.sets)
		if len(ids) == 0 {
			return false
		}
		id := ids[r.Src.Intn(len(ids), "set_delta_which")]
		if h.bigRun && ids[0] == h.setPool[0] && r.Src.Chance(600, "delta_big_set") {
			id = ids[0]
		}
		s := up.sets[id]
		if s.big && h.bigOps >= h.maxBigOps {
			return false
		}
		add, del := h.genDelta(s)
		if len(add)+len(del) == 0 {
			return false
		}
		if h.setReferencedByJoined(id) {
			r.Probe("delta_delivered")
		}
		h.offer(&proto.IPSetDeltaUpdate{Id: id, AddedMembers: add, RemovedMembers: del}, "IPSetDeltaUpdate %s +%d -%d", id, len(add), len(del))
		return true
	case opSetRemove:
		ids := core.SortedKeys(up.sets)
		if len(ids) == 0 {
			return false
		}
		refd := h.referencedSets()
		var free []string
		for _, id := range ids {
			if !refd[id] {
				free = append(free, id)
			}
		}
		if len(free) == 0 {
			// contract: dereference first.  Re-issue one referencing policy/profile without the reference.
			id := ids[r.Src.Intn(len(ids), "set_remove_deref_which")]
			for _, k := range core.SortedKeys(up.pols) {
				if holderRefs(up.pols[k].pol)[id] {
					h.sendPolicy(h.poolByKey(k), id)
					return true
				}
			}
			for _, k := range core.SortedKeys(up.profs) {
				if holderRefs(up.profs[k])[id] {
					h.sendProfile(k, id)
					return true
				}
			}
			return false
		}
		id := free[r.Src.Intn(len(free), "set_remove_which")]
		delete(up.sets, id)
		h.offer(&proto.IPSetRemove{Id: id}, "IPSetRemove %s", id)
		return true
	case opPolUpdate:
		pp := h.polPool[r.Src.Intn(len(h.polPool), "policy_which")]
		h.sendPolicy(pp, "")
		return true
	case opPolRemove:
		ks := core.SortedKeys(up.pols)
		if len(ks) == 0 {
			return false
		}
		used := map[string]bool{}
		for _, ep := range up.eps {
			for k := range epPolicyKeys(ep) {
				used[k] = true
			}
		}
		var free []string
		for _, k := range ks {
			if !used[k] {
				free = append(free, k)
			}
		}
		if len(free) == 0 {
			k := ks[r.Src.Intn(len(ks), "policy_remove_deref_which")]
			for w := range h.wl {
				if ep, ok := up.eps[w]; ok && epPolicyKeys(ep)[k] {
					h.sendEndpoint(w, k, "")
					return true
				}
			}
			return false
		}
		k := free[r.Src.Intn(len(free), "policy_remove_which")]
		id := up.pols[k].id
		delete(up.pols, k)
		h.offer(&proto.ActivePolicyRemove{Id: id}, "ActivePolicyRemove %s", k)
		return true
	case opProfUpdate:
		if len(h.profPool) == 0 {
			return false
		}
		h.sendProfile(h.profPool[r.Src.Intn(len(h.profPool), "profile_which")], "")
		return true
	case opProfRemove:
		ks := core.SortedKeys(up.profs)
		if len(ks) == 0 {
			return false
		}
		used := map[string]bool{}
		for _, ep := range up.eps {
			for k := range epProfiles(ep) {
				used[k] = true
			}
		}
		var free []string
		for _, k := range ks {
			if !used[k] {
				free = append(free, k)
			}
		}
		if len(free) == 0 {
			k := ks[r.Src.Intn(len(ks), "profile_remove_deref_which")]
			for w := range h.wl {
				if ep, ok := up.eps[w]; ok && epProfiles(ep)[k] {
					h.sendEndpoint(w, "", k)
					return true
				}
			}
			return false
		}
		k := free[r.Src.Intn(len(free), "profile_remove_which")]
		delete(up.profs, k)
		h.offer(&proto.ActiveProfileRemove{Id: &proto.ProfileID{Name: k}}, "ActiveProfileRemove %s", k)
		return true
	case opWepUpdate:
		h.sendEndpoint(r.Src.Intn(len(h.wl), "wep_which"), "", "")
		return true
	case opWepRemove:
		var have []int
		for w := range h.wl {
			if _, ok := up.eps[w]; ok {
				have = append(have, w)
			}
		}
		if len(have) == 0 {
			return false
		}
		w := have[r.Src.Intn(len(have), "wep_remove_which")]
		wl := h.wl[w]
		delete(up.eps, w)
		if wl.cur != nil {
			r.Probe("wep_remove_joined")
			wl.cur.expectClose = "ep_removed"
			wl.cur = nil
		}
		h.offer(&proto.WorkloadEndpointRemove{Id: wl.pid}, "WorkloadEndpointRemove workload %d", w)
		return true
	case opSA:
		if len(h.saPool) == 0 {
			return false
		}
		id := h.saPool[r.Src.Intn(len(h.saPool), "sa_which")]
		k := id.Namespace + "/" + id.Name
		if _, ok := up.sas[k]; ok && r.Src.Chance(400, "sa_remove") {
			delete(up.sas, k)
			h.offer(&proto.ServiceAccountRemove{Id: id}, "ServiceAccountRemove %s", k)
			return true
		}
		h.ver++
		u := &proto.ServiceAccountUpdate{Id: id, Labels: map[string]string{"v": strconv.Itoa(h.ver)}}
		up.sas[k] = u
		h.offer(u, "ServiceAccountUpdate %s v%d", k, h.ver)
		return true
	case opNS:
		if len(h.nsPool) == 0 {
			return false
		}
		k := h.nsPool[r.Src.Intn(len(h.nsPool), "ns_which")]
		if _, ok := up.nss[k]; ok && r.Src.Chance(400, "ns_remove") {
			delete(up.nss, k)
			h.offer(&proto.NamespaceRemove{Id: &proto.NamespaceID{Name: k}}, "NamespaceRemove %s", k)
			return true
		}
		h.ver++
		u := &proto.NamespaceUpdate{Id: &proto.NamespaceID{Name: k}, Labels: map[string]string{"v": strconv.Itoa(h.ver)}}
		up.nss[k] = u
		h.offer(u, "NamespaceUpdate %s v%d", k, h.ver)
		return true
	case opInSync:
		if up.inSync {
			if !r.Src.Chance(300, "in_sync_duplicate") {
				return false
			}
			r.Fault("duplicate_in_sync")
		} else {
			up.inSync = true
			// the processor is idle: everything it has emitted so far is visible, so an InSync is legitimate on a
			// stream only at a position beyond what is there now
			for _, s := range h.live {
				if s.inSyncFloor < 0 {
					s.inSyncFloor = s.recv + len(s.ch)
					if s.expectClose == "" {
						r.Probe("in_sync_broadcast")
					}
				}
			}
			for _, s := range h.held {
				s.inSyncFloor = 0
			}
		}
		h.offer(&proto.InSync{}, "InSync")
		return true
	case opNoise:
		r.Probe("unhandled_message_sent")
		h.offer(&proto.HostMetadataRemove{Hostname: "other-host"}, "HostMetadataRemove (not for the policy sync API)")
		return true
	}
	return false
}

func (h *harness) poolByKey(k string) poolPol {
	for _, pp := range h.polPool {
		if pp.key == k {
			return pp
		}
	}
	h.r.HarnessError("policy %s not in pool", k)
	return poolPol{}
}

func (h *harness) referencedSets() map[string]bool {
	out := map[string]bool{}
	for _, p := range h.up.pols {
		for id := range holderRefs(p.pol) {
			out[id] = true
		}
	}
	for _, p := range h.up.profs {
		for id := range holderRefs(p) {
			out[id] = true
		}
	}
	return out
}

// setReferencedByJoined is used for reach probes only.
func (h *harness) setReferencedByJoined(id string) bool {
	for w, wl := range h.wl {
		if wl.cur == nil {
			continue
		}
		if ep, ok := h.up.eps[w]; ok {
			if h.neededSets(ep)[id] {
				return true
			}
		}
	}
	return false
}

func (h *harness) neededSets(ep *proto.WorkloadEndpoint) map[string]bool {
	out := map[string]bool{}
	for k := range epPolicyKeys(ep) {
		if p, ok := h.up.pols[k]; ok {
			for id := range holderRefs(p.pol) {
				out[id] = true
			}
		}
	}
	for k := range epProfiles(ep) {
		if p, ok := h.up.profs[k]; ok {
			for id := range holderRefs(p) {
				out[id] = true
			}
		}
	}
	return out
}

func (h *harness) genRules(avoidSet string, tag string) []*proto.Rule {
	r := h.r
	n := r.Src.Intn(3, "n_rules")
	ids := core.SortedKeys(h.up.sets)
	var out []*proto.Rule
	for i := 0; i < n; i++ {
		rule := &proto.Rule{Action: []string{"allow", "deny", "pass"}[r.Src.Intn(3, "rule_action")], RuleId: fmt.Sprintf("%s-%d", tag, i)}
		if len(ids) > 0 {
			nref := r.Src.Weighted([]int{3, 5, 2}, "n_set_refs")
			for j := 0; j < nref; j++ {
				id := ids[r.Src.Intn(len(ids), "ref_set")]
				if h.bigRun && ids[0] == h.setPool[0] && r.Src.Chance(600, "ref_big_set") {
					id = ids[0]
				}
				if id == avoidSet {
					continue
				}
				fd := setRefFields[r.Src.Intn(len(setRefFields), "ref_field")]
				rule.ProtoReflect().Mutable(fd).List().Append(protoreflect.ValueOfString(id))
			}
		}
		out = append(out, rule)
	}
	return out
}

func (h *harness) sendPolicy(pp poolPol, avoidSet string) {
	h.ver++
	tag := fmt.Sprintf("v%d", h.ver)
	pol := &proto.Policy{Tier: h.tiers[pp.tier], Namespace: pp.id.Namespace, OriginalSelector: "ver == '" + tag + "'",
		InboundRules: h.genRules(avoidSet, tag+"i"), OutboundRules: h.genRules(avoidSet, tag+"o")}
	h.up.pols[pp.key] = &upol{id: pp.id, pol: pol}
	h.offer(&proto.ActivePolicyUpdate{Id: pp.id, Policy: pol}, "ActivePolicyUpdate %s %s refs=%v", pp.key, tag, sortedSet(holderRefs(pol)))
}

func (h *harness) sendProfile(name string, avoidSet string) {
	h.ver++
	tag := fmt.Sprintf("v%d", h.ver)
	prof := &proto.Profile{InboundRules: h.genRules(avoidSet, tag+"i"), OutboundRules: h.genRules(avoidSet, tag+"o")}
	if len(prof.InboundRules) == 0 {
		prof.InboundRules = []*proto.Rule{{Action: "allow", RuleId: tag}} // keeps versions distinguishable
	}
	h.up.profs[name] = prof
	h.offer(&proto.ActiveProfileUpdate{Id: &proto.ProfileID{Name: name}, Profile: prof}, "ActiveProfileUpdate %s %s refs=%v", name, tag, sortedSet(holderRefs(prof)))
}

func (h *harness) sendEndpoint(w int, avoidPol, avoidProf string) {
	r := h.r
	wl := h.wl[w]
	wl.eVer++
	ep := &proto.WorkloadEndpoint{State: "active", Name: fmt.Sprintf("cali%d", w), Ipv4Nets: []string{fmt.Sprintf("10.200.%d.%d/32", w, wl.eVer%250)}}
	byTier := make([][2][]*proto.PolicyID, len(h.tiers))
	for _, pp := range h.polPool {
		if _, ok := h.up.pols[pp.key]; !ok || pp.key == avoidPol {
			continue
		}
		if !r.Src.Chance(h.density, "wep_use_policy") {
			continue
		}
		dir := r.Src.Intn(3, "wep_policy_dir")
		if dir == 0 || dir == 2 {
			byTier[pp.tier][0] = append(byTier[pp.tier][0], pp.id)
		}
		if dir == 1 || dir == 2 {
			byTier[pp.tier][1] = append(byTier[pp.tier][1], pp.id)
		}
	}
	for t, lists := range byTier {
		if len(lists[0])+len(lists[1]) == 0 {
			continue
		}
		if len(lists[0]) > 1 && r.Src.Chance(500, "wep_reverse_order") {
			for i, j := 0, len(lists[0])-1; i < j; i, j = i+1, j-1 {
				lists[0][i], lists[0][j] = lists[0][j], lists[0][i]
			}
		}
		ep.Tiers = append(ep.Tiers, &proto.TierInfo{Name: h.tiers[t], IngressPolicies: lists[0], EgressPolicies: lists[1]})
	}
	for _, name := range core.SortedKeys(h.up.profs) {
		if name != avoidProf && r.Src.Chance(h.density, "wep_use_profile") {
			ep.ProfileIds = append(ep.ProfileIds, name)
		}
	}
	h.up.eps[w] = ep
	h.offer(&proto.WorkloadEndpointUpdate{Id: wl.pid, Endpoint: ep}, "WorkloadEndpointUpdate workload %d e%d policies=%v profiles=%v", w, wl.eVer, sortedSet(epPolicyKeys(ep)), ep.ProfileIds)
}

// ---- IP set members

func memberString(s *uset, k int, variant bool) string {
	switch s.typ {
	case proto.IPSetUpdate_IP:
		if !s.big && k%5 == 4 {
			if variant {
				return "FD00:0:0::" + strings.ToUpper(strconv.FormatInt(int64(k+10), 16))
			}
			return "fd00::" + strconv.FormatInt(int64(k+10), 16)
		}
		return "10." + strconv.Itoa(100+(k>>16)) + "." + strconv.Itoa((k>>8)&255) + "." + strconv.Itoa(k&255)
	case proto.IPSetUpdate_NET:
		if k%4 == 3 {
			return "10.77.0." + strconv.Itoa(k) // a bare address in a net set
		}
		return "10." + strconv.Itoa(k) + ".0.0/16"
	default:
		protos := []string{"tcp", "udp", "sctp"}
		if variant {
			protos = []string{"TCP", "UDP", "SCTP"}
		}
		return "10.0." + strconv.Itoa(k>>8) + "." + strconv.Itoa(k&255) + "," + protos[k%3] + ":" + strconv.Itoa(8000+k)
	}
}

// genMembers fills s.members for a fresh/replaced set and returns the wire members.
func (h *harness) genMembers(s *uset, replace bool) []string {
	r := h.r
	h.ver++
	s.ver = h.ver
	if s.big {
		h.bigOps++
		max := policysync.MaxMembersPerMessage // generation target only: sizes straddle the documented chunk limit
		n := []int{max + 1, max, max - 1, max + 37, 2*max + 1}[r.Src.Weighted([]int{4, 2, 1, 3, 1}, "big_set_size")]
		out := make([]string, 0, n)
		s.members = make(map[string]bool, n+n/2)
		s.nextK = 0
		for k := 0; k < n; k++ {
			m := memberString(s, k, false)
			out = append(out, m)
			s.members[m] = true
		}
		s.nextK = n
		return out
	}
	n := r.Src.Intn(7, "set_size")
	var out []string
	for i := 0; i < n; i++ {
		k := r.Src.Intn(12, "set_member")
		c := canonMember(r, s.typ, memberString(s, k, false))
		if s.members[c] {
			continue
		}
		s.members[c] = true
		out = append(out, memberString(s, k, r.Src.Chance(300, "member_spelling")))
	}
	return out
}

func (h *harness) genDelta(s *uset) (add, del []string) {
	r := h.r
	h.ver++
	s.ver = h.ver
	if s.big {
		h.bigOps++
		max := policysync.MaxMembersPerMessage
		sizes := []int{0, 3, max + 1, max, 2*max + 5}
		na := sizes[r.Src.Weighted([]int{2, 3, 3, 1, 1}, "big_delta_add")]
		nd := sizes[r.Src.Weighted([]int{2, 3, 3, 1, 0}, "big_delta_del")]
		for i := 0; i < na; i++ {
			m := memberString(s, s.nextK, false)
			s.nextK++
			s.members[m] = true
			add = append(add, m)
		}
		// remove the oldest members still present (never the ones just added)
		if nd > 0 {
			lo := s.nextK - na - 1
			for k := 0; k <= lo && len(del) < nd; k++ {
				m := memberString(s, k, false)
				if s.members[m] {
					delete(s.members, m)
					del = append(del, m)
				}
			}
		}
		return
	}
	n := r.Src.Range(1, 4, "delta_n")
	touched := map[string]bool{}
	for i := 0; i < n; i++ {
		k := r.Src.Intn(12, "delta_member")
		c := canonMember(r, s.typ, memberString(s, k, false))
		if touched[c] {
			continue
		}
		touched[c] = true
		wire := memberString(s, k, r.Src.Chance(300, "member_spelling"))
		if s.members[c] {
			delete(s.members, c)
			del = append(del, wire)
		} else {
			s.members[c] = true
			add = append(add, wire)
		}
	}
	return
}

// ---------------------------------------------------------------- stream oracle

func (h *harness) deliver(s *stream, m *proto.ToDataplane) {
	r := h.r
	idx := s.recv
	s.recv++
	c := s.cli
	pfx := fmt.Sprintf("stream uid=%d w=%d msg#%d", s.uid, s.w, idx)
	switch pl := m.Payload.(type) {
	case *proto.ToDataplane_InSync:
		c.inSync++
		r.Logf("  %s InSync", pfx)
		r.Check("in_sync_at_most_once", c.inSync <= 1, "%s: second InSync on one join", pfx)
		r.Check("in_sync_not_before_upstream", s.inSyncFloor >= 0 && idx >= s.inSyncFloor, "%s: InSync was emitted before the calculation graph reported in-sync (first legitimate position %d)", pfx, s.inSyncFloor)
	case *proto.ToDataplane_IpsetUpdate:
		u := pl.IpsetUpdate
		r.Logf("  %s IPSetUpdate %s type=%v n=%d", pfx, u.Id, u.Type, len(u.Members))
		cs := &cset{typ: u.Type, members: make(map[string]bool, len(u.Members))}
		for _, mm := range u.Members {
			cs.members[canonMember(r, u.Type, mm)] = true
		}
		c.sets[u.Id] = cs
		r.Eval()
	case *proto.ToDataplane_IpsetDeltaUpdate:
		u := pl.IpsetDeltaUpdate
		r.Logf("  %s IPSetDeltaUpdate %s +%d -%d", pfx, u.Id, len(u.AddedMembers), len(u.RemovedMembers))
		cs, ok := c.sets[u.Id]
		r.Check("delta_for_unsent_ipset", ok, "%s: IPSetDeltaUpdate for IP set %s which this stream has not been sent (or was told to remove)", pfx, u.Id)
		if len(u.AddedMembers) > 1000 && len(u.RemovedMembers) == 0 {
			r.Probe("split_ipset_update_seen")
		}
		if len(u.AddedMembers) > 1000 && len(u.RemovedMembers) > 0 || len(u.RemovedMembers) > 1000 {
			r.Probe("split_ipset_delta_seen")
		}
		cs.verified = 0
		for _, mm := range u.AddedMembers {
			cs.members[canonMember(r, cs.typ, mm)] = true
		}
		for _, mm := range u.RemovedMembers {
			delete(cs.members, canonMember(r, cs.typ, mm))
		}
	case *proto.ToDataplane_IpsetRemove:
		id := pl.IpsetRemove.Id
		r.Logf("  %s IPSetRemove %s", pfx, id)
		delete(c.sets, id)
		r.Probe("ipset_removed_from_stream")
		for _, k := range core.SortedKeys(c.pols) {
			r.Check("ipset_removed_while_referenced", !holderRefs(c.pols[k])[id], "%s: IP set %s removed from the stream while policy %s, as last sent on this stream, still references it", pfx, id, k)
		}
		for _, k := range core.SortedKeys(c.profs) {
			r.Check("ipset_removed_while_referenced", !holderRefs(c.profs[k])[id], "%s: IP set %s removed from the stream while profile %s, as last sent on this stream, still references it", pfx, id, k)
		}
	case *proto.ToDataplane_ActivePolicyUpdate:
		u := pl.ActivePolicyUpdate
		k := polKey(u.Id)
		r.Logf("  %s ActivePolicyUpdate %s %s", pfx, k, u.Policy.GetOriginalSelector())
		for _, id := range sortedSet(holderRefs(u.Policy)) {
			_, ok := c.sets[id]
			r.Check("policy_references_unsent_ipset", ok, "%s: policy %s references IP set %s which has not been sent on this stream", pfx, k, id)
		}
		c.pols[k] = u.Policy
	case *proto.ToDataplane_ActivePolicyRemove:
		k := polKey(pl.ActivePolicyRemove.Id)
		r.Logf("  %s ActivePolicyRemove %s", pfx, k)
		delete(c.pols, k)
		r.Probe("policy_removed_from_stream")
		r.Check("policy_removed_while_referenced", !epPolicyKeys(c.ep)[k], "%s: policy %s removed from the stream while the endpoint, as last sent on this stream, still lists it", pfx, k)
	case *proto.ToDataplane_ActiveProfileUpdate:
		u := pl.ActiveProfileUpdate
		k := u.Id.GetName()
		r.Logf("  %s ActiveProfileUpdate %s", pfx, k)
		for _, id := range sortedSet(holderRefs(u.Profile)) {
			_, ok := c.sets[id]
			r.Check("profile_references_unsent_ipset", ok, "%s: profile %s references IP set %s which has not been sent on this stream", pfx, k, id)
		}
		c.profs[k] = u.Profile
	case *proto.ToDataplane_ActiveProfileRemove:
		k := pl.ActiveProfileRemove.Id.GetName()
		r.Logf("  %s ActiveProfileRemove %s", pfx, k)
		delete(c.profs, k)
		r.Probe("profile_removed_from_stream")
		r.Check("profile_removed_while_referenced", !epProfiles(c.ep)[k], "%s: profile %s removed from the stream while the endpoint, as last sent on this stream, still lists it", pfx, k)
	case *proto.ToDataplane_WorkloadEndpointUpdate:
		u := pl.WorkloadEndpointUpdate
		r.Logf("  %s WorkloadEndpointUpdate %s %v", pfx, u.Id.GetWorkloadId(), u.Endpoint.GetIpv4Nets())
		r.Check("foreign_endpoint", types.ProtoToWorkloadEndpointID(u.Id) == h.wl[s.w].id, "%s: received endpoint %v on the stream of %v", pfx, u.Id, h.wl[s.w].id)
		for _, k := range sortedSet(epPolicyKeys(u.Endpoint)) {
			_, ok := c.pols[k]
			r.Check("endpoint_references_unsent_policy", ok, "%s: endpoint lists policy %s which has not been sent on this stream", pfx, k)
		}
		for _, k := range sortedSet(epProfiles(u.Endpoint)) {
			_, ok := c.profs[k]
			r.Check("endpoint_references_unsent_profile", ok, "%s: endpoint lists profile %s which has not been sent on this stream", pfx, k)
		}
		c.ep = u.Endpoint
	case *proto.ToDataplane_WorkloadEndpointRemove:
		u := pl.WorkloadEndpointRemove
		r.Logf("  %s WorkloadEndpointRemove %s", pfx, u.Id.GetWorkloadId())
		r.Check("foreign_endpoint", types.ProtoToWorkloadEndpointID(u.Id) == h.wl[s.w].id, "%s: received removal of endpoint %v on the stream of %v", pfx, u.Id, h.wl[s.w].id)
		c.ep = nil
	case *proto.ToDataplane_ServiceAccountUpdate:
		u := pl.ServiceAccountUpdate
		k := u.Id.GetNamespace() + "/" + u.Id.GetName()
		r.Logf("  %s ServiceAccountUpdate %s v%s", pfx, k, u.Labels["v"])
		c.sas[k] = u
	case *proto.ToDataplane_ServiceAccountRemove:
		k := pl.ServiceAccountRemove.Id.GetNamespace() + "/" + pl.ServiceAccountRemove.Id.GetName()
		r.Logf("  %s ServiceAccountRemove %s", pfx, k)
		delete(c.sas, k)
	case *proto.ToDataplane_NamespaceUpdate:
		u := pl.NamespaceUpdate
		r.Logf("  %s NamespaceUpdate %s v%s", pfx, u.Id.GetName(), u.Labels["v"])
		c.nss[u.Id.GetName()] = u
	case *proto.ToDataplane_NamespaceRemove:
		k := pl.NamespaceRemove.Id.GetName()
		r.Logf("  %s NamespaceRemove %s", pfx, k)
		delete(c.nss, k)
	default:
		r.Violation("unexpected_message", "%s: message of type %T is not part of the policy sync stream", pfx, m.Payload)
	}
}

// checkExact: processor idle, every offered input processed, stream fully read:
// the stream, applied in order, must have produced exactly what this workload needs.
func (h *harness) checkExact(s *stream) {
	r := h.r
	c := s.cli
	up := &h.up
	r.Probe("exact_state_checks")
	pfx := fmt.Sprintf("stream uid=%d w=%d after %d messages, input #%d", s.uid, s.w, s.recv, h.inputSeq)
	ep := up.eps[s.w]
	r.Check("state_endpoint", (ep == nil) == (c.ep == nil) && (ep == nil || googleproto.Equal(ep, c.ep)),
		"%s: endpoint on the stream is %v, the latest upstream version is %v", pfx, c.ep.GetIpv4Nets(), ep.GetIpv4Nets())

	wantPol := epPolicyKeys(ep)
	for _, k := range sortedSet(wantPol) {
		p, ok := up.pols[k]
		if !ok {
			r.HarnessError("generator broke the contract: endpoint %d lists unknown policy %s", s.w, k)
		}
		got, ok := c.pols[k]
		r.Check("state_policy_missing", ok, "%s: needed policy %s never arrived", pfx, k)
		r.Check("state_policy_stale", googleproto.Equal(got, p.pol), "%s: policy %s on the stream is version %q, latest upstream is %q", pfx, k, got.GetOriginalSelector(), p.pol.GetOriginalSelector())
	}
	for _, k := range core.SortedKeys(c.pols) {
		r.Check("state_policy_extra", wantPol[k], "%s: policy %s is still on the stream although the workload's endpoint no longer lists it", pfx, k)
	}

	wantProf := epProfiles(ep)
	for _, k := range sortedSet(wantProf) {
		p, ok := up.profs[k]
		if !ok {
			r.HarnessError("generator broke the contract: endpoint %d lists unknown profile %s", s.w, k)
		}
		got, ok := c.profs[k]
		r.Check("state_profile_missing", ok, "%s: needed profile %s never arrived", pfx, k)
		r.Check("state_profile_stale", googleproto.Equal(got, p), "%s: profile %s on the stream differs from the latest upstream version", pfx, k)
	}
	for _, k := range core.SortedKeys(c.profs) {
		r.Check("state_profile_extra", wantProf[k], "%s: profile %s is still on the stream although the workload's endpoint no longer lists it", pfx, k)
	}

	wantSets := map[string]bool{}
	if ep != nil {
		wantSets = h.neededSets(ep)
	}
	for _, id := range sortedSet(wantSets) {
		us, ok := up.sets[id]
		if !ok {
			r.HarnessError("generator broke the contract: IP set %s referenced but unknown", id)
		}
		got, ok := c.sets[id]
		r.Check("state_ipset_missing", ok, "%s: needed IP set %s never arrived", pfx, id)
		r.Check("state_ipset_type", got.typ == us.typ, "%s: IP set %s has type %v on the stream, %v upstream", pfx, id, got.typ, us.typ)
		if got.verified == us.ver {
			continue // nothing was said about this set, upstream or on the stream, since it was last compared
		}
		same := len(got.members) == len(us.members)
		diff := ""
		if same {
			for m := range us.members {
				if !got.members[m] {
					same = false
					break
				}
			}
		}
		if !same {
			diff = memberDiff(us.members, got.members)
		}
		r.Check("state_ipset_members", same, "%s: IP set %s after merging all updates and deltas has %d members, upstream has %d (%s)", pfx, id, len(got.members), len(us.members), diff)
		got.verified = us.ver
	}
	for _, id := range core.SortedKeys(c.sets) {
		r.Check("state_ipset_extra", wantSets[id], "%s: IP set %s is still on the stream although nothing the workload needs references it", pfx, id)
	}

	for _, k := range core.SortedKeys(up.sas) {
		got, ok := c.sas[k]
		r.Check("state_serviceaccount", ok && googleproto.Equal(got, up.sas[k]), "%s: service account %s missing or stale on the stream", pfx, k)
	}
	for _, k := range core.SortedKeys(c.sas) {
		_, ok := up.sas[k]
		r.Check("state_serviceaccount", ok, "%s: service account %s was removed upstream but is still on the stream", pfx, k)
	}
	for _, k := range core.SortedKeys(up.nss) {
		got, ok := c.nss[k]
		r.Check("state_namespace", ok && googleproto.Equal(got, up.nss[k]), "%s: namespace %s missing or stale on the stream", pfx, k)
	}
	for _, k := range core.SortedKeys(c.nss) {
		_, ok := up.nss[k]
		r.Check("state_namespace", ok, "%s: namespace %s was removed upstream but is still on the stream", pfx, k)
	}
}

func memberDiff(want, got map[string]bool) string {
	var miss, extra []string
	for m := range want {
		if !got[m] {
			miss = append(miss, m)
		}
	}
	for m := range got {
		if !want[m] {
			extra = append(extra, m)
		}
	}
	sort.Strings(miss)
	sort.Strings(extra)
	nm, ne := len(miss), len(extra)
	if len(miss) > 4 {
		miss = miss[:4]
	}
	if len(extra) > 4 {
		extra = extra[:4]
	}
	return fmt.Sprintf("%d missing e.g. %v, %d unexpected e.g. %v", nm, miss, ne, extra)
}

func (h *harness) fingerprint() {
	var b strings.Builder
	up := &h.up
	for _, id := range core.SortedKeys(up.sets) {
		fmt.Fprintf(&b, "s%s:%d;", id, len(up.sets[id].members))
	}
	for _, k := range core.SortedKeys(up.pols) {
		fmt.Fprintf(&b, "p%s:%v;", k, sortedSet(holderRefs(up.pols[k].pol)))
	}
	for _, k := range core.SortedKeys(up.profs) {
		fmt.Fprintf(&b, "f%s:%v;", k, sortedSet(holderRefs(up.profs[k])))
	}
	for w := range h.wl {
		if ep, ok := up.eps[w]; ok {
			fmt.Fprintf(&b, "e%d:%v%v;", w, sortedSet(epPolicyKeys(ep)), ep.ProfileIds)
		}
	}
	fmt.Fprintf(&b, "sa%d ns%d sync%v;", len(up.sas), len(up.nss), up.inSync)
	for _, s := range h.all {
		fmt.Fprintf(&b, "j%d:%d:%d;", s.w, s.uid, s.recv)
	}
	h.r.Fingerprint(b.String())
}
