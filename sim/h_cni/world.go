// Engine cni (C38): container runtimes on 1-3 hosts drive the REAL CNI IPAM
// plugin entry points (cmdAdd / cmdDel of cni-plugin/pkg/ipamplugin, reached
// through the verif-tagged export hook) against one shared simulated datastore
// inside a testing/synctest bubble.  The plugin builds its usual clientv3
// client; only the backend api.Client underneath is the simulated store, so IP
// pools, IPAM configuration, nodes, blocks, handles and affinities are all read
// and written by the real library code.  Every backend call is a scheduling
// point and a fault point.
package h_cni

import (
	"context"
	"fmt"
	"net"
	"os"
	"strings"
	"time"

	v3 "github.com/projectcalico/api/pkg/apis/projectcalico/v3"

	"github.com/projectcalico/calico/cni-plugin/pkg/ipamplugin"
	cnitypes "github.com/projectcalico/calico/cni-plugin/pkg/types"
	"github.com/projectcalico/calico/libcalico-go/lib/apiconfig"
	"github.com/projectcalico/calico/libcalico-go/lib/apis/internalapi"
	bapi "github.com/projectcalico/calico/libcalico-go/lib/backend/api"
	"github.com/projectcalico/calico/libcalico-go/lib/backend/model"
	"github.com/projectcalico/calico/libcalico-go/lib/clientv3"
	cerrors "github.com/projectcalico/calico/libcalico-go/lib/errors"

	"verifsim/core"
	"verifsim/sched"
	"verifsim/store"
)

const netName = "net1"

type poolDef struct {
	name      string
	cidr      *net.IPNet
	blockSize int
	v6        bool
}

func (p *poolDef) capacity() int {
	ones, bits := p.cidr.Mask.Size()
	return 1 << uint(bits-ones)
}

type world struct {
	r  *core.R
	s  *sched.Sched
	st *store.Store
	t0 time.Time

	hosts      []*hostState
	hostByName map[string]*hostState
	pools      []*poolDef
	containers []*container
	strict     bool
	cooldown   int

	invByActor map[string]*invocation
	nInv       int

	or *oracle

	// process-level plumbing (real files; nothing here blocks)
	tmpDir     string
	outFile    *os.File
	outPos     int64
	realStdout *os.File
	realStderr *os.File
	sutLog     bool
}

func (w *world) now() time.Duration { return time.Since(w.t0) }

// ---- ending a run: always restore the process-level plumbing first

func (w *world) cleanup() {
	if w.realStdout != nil {
		os.Stdout = w.realStdout
		w.realStdout = nil
	}
	if w.realStderr != nil {
		os.Stderr = w.realStderr
		w.realStderr = nil
	}
	if w.outFile != nil {
		w.outFile.Close()
		w.outFile = nil
	}
	if w.tmpDir != "" {
		os.RemoveAll(w.tmpDir)
		w.tmpDir = ""
	}
	ipamplugin.SetClientOverrideForSim(nil)
}

func (w *world) violation(oracle, format string, a ...interface{}) {
	w.cleanup()
	w.r.Violation(oracle, format, a...)
}

func (w *world) harnessError(format string, a ...interface{}) {
	w.cleanup()
	w.r.HarnessError(format, a...)
}

// check counts one oracle evaluation and ends the run on failure.
func (w *world) check(oracle string, ok bool, format string, a ...interface{}) {
	w.r.Eval()
	if !ok {
		w.violation(oracle, format, a...)
	}
}

// ---- the backend seen by one plugin process: the shared store, with every call attributed to that process.
// The plugin creates its own contexts (context.Background with a timeout), so the actor identity cannot travel
// in the context; it is bound to the client handed to that process instead.

type procClient struct {
	inner *store.Client
	inv   *invocation
	w     *world
}

var _ bapi.Client = procClient{}

func (p procClient) ctx(ctx context.Context) context.Context { return sched.WithActor(ctx, p.inv.sa) }

// expired models what a real datastore client does with the caller's deadline: a request issued after the deadline
// fails without effect; a read whose deadline passed while it was in flight fails too.  (A write whose deadline
// passed in flight has landed; reporting that as an error would be a commit-then-error fault, which is outside this
// engine's fault model, so it is reported as the late success it is.)  A process that ever observes its deadline
// passing is counted as faulted, exactly like one that was handed an injected datastore error.
func (p procClient) expired(ctx context.Context) error {
	if err := ctx.Err(); err != nil {
		if !p.inv.faulted {
			p.inv.faulted = true
			p.w.r.Probe("deadline_passed_in_flight")
		}
		return cerrors.ErrorDatastoreError{Err: err}
	}
	return nil
}

func (p procClient) Create(ctx context.Context, kv *model.KVPair) (*model.KVPair, error) {
	if err := p.expired(ctx); err != nil {
		return nil, err
	}
	out, err := p.inner.Create(p.ctx(ctx), kv)
	p.expired(ctx)
	return out, err
}
func (p procClient) Update(ctx context.Context, kv *model.KVPair) (*model.KVPair, error) {
	if err := p.expired(ctx); err != nil {
		return nil, err
	}
	out, err := p.inner.Update(p.ctx(ctx), kv)
	p.expired(ctx)
	return out, err
}
func (p procClient) Apply(ctx context.Context, kv *model.KVPair) (*model.KVPair, error) {
	if err := p.expired(ctx); err != nil {
		return nil, err
	}
	out, err := p.inner.Apply(p.ctx(ctx), kv)
	p.expired(ctx)
	return out, err
}
func (p procClient) DeleteKVP(ctx context.Context, kv *model.KVPair) (*model.KVPair, error) {
	if err := p.expired(ctx); err != nil {
		return nil, err
	}
	out, err := p.inner.DeleteKVP(p.ctx(ctx), kv)
	p.expired(ctx)
	return out, err
}
func (p procClient) Delete(ctx context.Context, k model.Key, rev string) (*model.KVPair, error) {
	if err := p.expired(ctx); err != nil {
		return nil, err
	}
	out, err := p.inner.Delete(p.ctx(ctx), k, rev)
	p.expired(ctx)
	return out, err
}
func (p procClient) Get(ctx context.Context, k model.Key, rev string) (*model.KVPair, error) {
	if err := p.expired(ctx); err != nil {
		return nil, err
	}
	out, err := p.inner.Get(p.ctx(ctx), k, rev)
	if derr := p.expired(ctx); derr != nil {
		return nil, derr
	}
	return out, err
}
func (p procClient) List(ctx context.Context, l model.ListInterface, rev string) (*model.KVPairList, error) {
	if err := p.expired(ctx); err != nil {
		return nil, err
	}
	out, err := p.inner.List(p.ctx(ctx), l, rev)
	if derr := p.expired(ctx); derr != nil {
		return nil, derr
	}
	return out, err
}
func (p procClient) Watch(ctx context.Context, l model.ListInterface, o bapi.WatchOptions) (bapi.WatchInterface, error) {
	return p.inner.Watch(p.ctx(ctx), l, o)
}
func (p procClient) EnsureInitialized() error { return nil }
func (p procClient) Clean() error             { return nil }
func (p procClient) Close() error             { return nil }

// clientFor builds the REAL clientv3 client over the simulated backend for one plugin process.
func (w *world) clientFor(inv *invocation) clientv3.Interface {
	cfg := apiconfig.NewCalicoAPIConfig()
	cfg.Spec.DatastoreType = apiconfig.EtcdV3
	return clientv3.NewFromBackend(*cfg, procClient{inner: w.st.Client(), inv: inv, w: w})
}

// override is what utils.CreateClient consults (hook): the plugin process running on the node named in its
// network configuration gets the client of the invocation currently executing on that host.
func (w *world) override(conf cnitypes.NetConf) clientv3.Interface {
	h := w.hostByName[conf.Nodename]
	if h == nil || h.cur == nil {
		w.harnessError("CreateClient called for node %q with no invocation in flight", conf.Nodename)
		return nil
	}
	return h.cur.client
}

// ---- set-up

func mustCIDR(s string) *net.IPNet {
	_, n, err := net.ParseCIDR(s)
	if err != nil {
		panic(err)
	}
	return n
}

func nthIP(n *net.IPNet, k int) net.IP {
	ip := append(net.IP(nil), n.IP...)
	for i := len(ip) - 1; i >= 0 && k > 0; i-- {
		k += int(ip[i])
		ip[i] = byte(k)
		k >>= 8
	}
	return ip
}

func newWorld(r *core.R) *world {
	w := &world{r: r, hostByName: map[string]*hostState{}, invByActor: map[string]*invocation{}, t0: time.Now()}
	w.s = sched.New(r)
	w.st = store.New(r, w.s)
	w.sutLog = os.Getenv("VERIF_SUTLOG") != ""
	src := r.Src

	nh := src.Range(1, 3, "hosts")
	for i := 0; i < nh; i++ {
		h := &hostState{w: w, name: fmt.Sprintf("h%d", i)}
		w.hosts = append(w.hosts, h)
		w.hostByName[h.name] = h
		n := internalapi.NewNode()
		n.Name = h.name
		n.Labels = map[string]string{"zone": []string{"a", "b"}[i%2]}
		w.st.Put(&model.KVPair{Key: model.ResourceKey{Kind: internalapi.KindNode, Name: h.name}, Value: n}, "~setup")
	}
	r.Cfg("hosts", nh)

	// IPAM configuration
	w.strict = src.Chance(300, "cfg_strict")
	w.cooldown = []int{0, 0, 0, 20}[src.Intn(4, "cfg_cooldown")]
	w.st.Put(&model.KVPair{Key: model.IPAMConfigKey{}, Value: &model.IPAMConfig{
		StrictAffinity: w.strict, AutoAllocateBlocks: true, IPCooldownSeconds: w.cooldown,
	}}, "~setup")
	r.Cfg("strict", w.strict)
	r.Cfg("cooldown_s", w.cooldown)

	// Pools: tiny, so that exhaustion of one family (and with it the dual-stack rollback) happens.
	np4 := src.Range(1, 2, "pools4")
	for i := 0; i < np4; i++ {
		bs := 31 - src.Intn(3, "pool4_blocksize") // /31, /30, /29 blocks
		plen := bs - src.Intn(2, "pool4_blocks_log2")
		w.addPool(&poolDef{name: fmt.Sprintf("pool4%c", 'a'+i), cidr: mustCIDR(fmt.Sprintf("10.0.%d.0/%d", i, plen)), blockSize: bs})
	}
	if src.Chance(850, "have_v6_pool") {
		bs := 127 - src.Intn(2, "pool6_blocksize") // /127, /126 blocks
		plen := bs - src.Intn(2, "pool6_blocks_log2")
		w.addPool(&poolDef{name: "pool6a", cidr: mustCIDR(fmt.Sprintf("fd00::/%d", plen)), blockSize: bs, v6: true})
	}
	r.Cfg("pools", w.describePools())
	return w
}

func (w *world) addPool(p *poolDef) {
	w.pools = append(w.pools, p)
	pool := v3.NewIPPool()
	pool.Name = p.name
	pool.Spec.CIDR = p.cidr.String()
	pool.Spec.BlockSize = p.blockSize
	pool.Spec.NodeSelector = "all()"
	mode := v3.Automatic
	pool.Spec.AssignmentMode = &mode
	pool.Spec.AllowedUses = []v3.IPPoolAllowedUse{v3.IPPoolAllowedUseWorkload, v3.IPPoolAllowedUseTunnel}
	w.st.Put(&model.KVPair{Key: model.ResourceKey{Kind: v3.KindIPPool, Name: p.name}, Value: pool}, "~setup")
}

func (w *world) describePools() string {
	var parts []string
	for _, p := range w.pools {
		parts = append(parts, fmt.Sprintf("%s=%s/b%d(%d addrs)", p.name, p.cidr, p.blockSize, p.capacity()))
	}
	return strings.Join(parts, "; ")
}

func (w *world) poolsOf(v6 bool) []*poolDef {
	var out []*poolDef
	for _, p := range w.pools {
		if p.v6 == v6 {
			out = append(out, p)
		}
	}
	return out
}

// plumb redirects the process's stdout (the plugin prints its CNI result there) into a private file and, unless
// SUT logging was asked for, stderr (utils.ConfigureLogging points logrus at os.Stderr on every call) to /dev/null.
func (w *world) plumb() {
	// Not os.MkdirTemp: it draws its random suffix from the runtime's (seeded) random stream, so two processes
	// executing the same seed at the same time would collide, retry, and thereby shift every later map-iteration
	// order of one of them.  The process id only names the directory; nothing is derived from it.
	dir := fmt.Sprintf("%s/verif-cni-%d", os.TempDir(), os.Getpid())
	os.RemoveAll(dir)
	if err := os.Mkdir(dir, 0o700); err != nil {
		w.r.HarnessError("cannot create temp dir: %v", err)
	}
	w.tmpDir = dir
	f, err := os.Create(dir + "/stdout")
	if err != nil {
		w.harnessError("cannot create stdout capture file: %v", err)
	}
	w.outFile = f
	w.realStdout = os.Stdout
	os.Stdout = f
	if !w.sutLog && os.Getenv("VERIF_TRACE") == "" {
		if dn, err := os.OpenFile(os.DevNull, os.O_WRONLY, 0); err == nil {
			w.realStderr = os.Stderr
			os.Stderr = dn
		}
	}
	ipamplugin.SetClientOverrideForSim(w.override)
}

// takeStdout returns what was printed since the last call.  Exactly one goroutine runs at a time and the plugin
// prints as its very last action (no scheduling point between the print and its return), so the bytes belong to
// the invocation that has just returned.
func (w *world) takeStdout() string {
	st, err := w.outFile.Stat()
	if err != nil {
		w.harnessError("stat stdout capture: %v", err)
	}
	n := st.Size() - w.outPos
	if n <= 0 {
		return ""
	}
	buf := make([]byte, n)
	if _, err := w.outFile.ReadAt(buf, w.outPos); err != nil {
		w.harnessError("read stdout capture: %v", err)
	}
	w.outPos = st.Size()
	return string(buf)
}
