package h_cni

import (
	"os"
	"runtime"
	"testing"
)

func TestDumpGoroutines(t *testing.T) {
	if os.Getenv("VERIF_CNI_DUMPG") == "" {
		t.Skip()
	}
	buf := make([]byte, 1<<20)
	n := runtime.Stack(buf, true)
	os.Stderr.Write(buf[:n])
}
