package h_cni

import (
	"fmt"
	"os"
	"testing"
	"testing/synctest"
	"time"

	"verifsim/core"
	"verifsim/sched"
)

func TestSim(t *testing.T) {
	core.Main(t, "cni", []string{"C38"}, func(r *core.R) {
		synctest.Test(t, func(t *testing.T) { run(r) })
	})
}

func run(r *core.R) {
	r.FaultDecl("conflict", "error_before", "crash_before", "crash_after", "clock_jump")
	if commitThenError {
		r.FaultDecl("commit_then_error")
	}
	r.ProbeDecl("add_ok", "add_ok_dual_stack", "add_failed", "add_crashed", "add_failed_nothing_allocated",
		"add_rollback_v4_after_v6_shortage", "add_rollback_v6_after_v4_shortage", "faulted_add_left_address_for_del",
		"fault_free_failed_add_left_address_until_del", "add_retried_after_failure", "add_ok_on_dirty_container",
		"del_ok", "del_failed", "del_crashed", "del_nothing_to_release", "del_repeated_or_without_add", "del_after_failed_add",
		"del_retried_after_failure", "del_released_primary_handle", "del_released_workload_id_handle", "legacy_add_ok",
		"handle_record_overcounts_after_fault", "final_clean_container", "final_attached_container", "sibling_sandbox",
		"named_pools", "unknown_pool_named", "family_without_pool", "several_hosts", "deadline_passed_in_flight")
	w := newWorld(r)
	w.or = newOracle(w)
	w.st.OnWrite = append(w.st.OnWrite, w.or.onWrite)
	w.plumb()
	defer w.cleanup()
	src := r.Src

	// ---- containers
	nc := src.Range(1, 6, "containers")
	have6 := len(w.poolsOf(true)) > 0
	for i := 0; i < nc; i++ {
		c := &container{idx: i, sibling: -1}
		c.host = w.hosts[src.Intn(len(w.hosts), "c_host")]
		c.cid = fmt.Sprintf("cid%02d", i)
		c.k8s = src.Chance(650, "c_k8s")
		if c.k8s {
			c.ns = fmt.Sprintf("ns%d", src.Intn(2, "c_ns"))
			c.pod = fmt.Sprintf("pod%02d", i)
		}
		switch src.Weighted([]int{4, 5, 2}, "c_families") {
		case 0:
			c.fam4 = true
		case 1:
			c.fam4, c.fam6 = true, true
		case 2:
			c.fam6 = true
		}
		c.cniVer = []string{"0.3.1", "1.0.0", "0.4.0"}[src.Intn(3, "c_cniversion")]
		// pools named in the network config (by name or CIDR); rarely one that does not exist
		if c.fam4 && src.Chance(250, "c_named_pool4") {
			ps := w.poolsOf(false)
			p := ps[src.Intn(len(ps), "c_pool4")]
			c.pools4 = []string{[]string{p.name, p.cidr.String()}[src.Intn(2, "c_pool4_form")]}
		}
		if c.fam6 && have6 && src.Chance(250, "c_named_pool6") {
			p := w.poolsOf(true)[0]
			c.pools6 = []string{[]string{p.name, p.cidr.String()}[src.Intn(2, "c_pool6_form")]}
		}
		if src.Chance(60, "c_unknown_pool") {
			c.badPool = true
			if c.fam4 {
				c.pools4 = []string{"no-such-pool"}
			} else {
				c.pools6 = []string{"no-such-pool"}
			}
			r.Probe("unknown_pool_named")
		}
		if len(c.pools4)+len(c.pools6) > 0 {
			r.Probe("named_pools")
		}
		if c.fam6 && !have6 {
			r.Probe("family_without_pool")
		}
		// a new sandbox (new container id) of an earlier container's pod, on the same host
		if i > 0 && src.Chance(200, "c_sibling") {
			o := w.containers[src.Intn(i, "c_sibling_of")]
			if o.k8s && o.sibling < 0 && !o.legacy {
				c.sibling, c.k8s, c.ns, c.pod, c.host = o.idx, true, o.ns, o.pod, o.host
				r.Probe("sibling_sandbox")
			}
		}
		// v2.x-era allocations under the workload-ID handle; only for workloads with a single sandbox, so that the
		// handle form is not shared
		c.legacy = c.sibling < 0 && src.Chance(350, "c_legacy")
		c.leave = src.Chance(300, "c_leave_attached")
		w.containers = append(w.containers, c)
		c.host.mine = append(c.host.mine, c)
	}
	for _, c := range w.containers {
		if c.sibling >= 0 {
			w.containers[c.sibling].legacy = false
		}
	}
	used := 0
	for _, h := range w.hosts {
		if len(h.mine) > 0 {
			used++
		}
	}
	if used > 1 {
		r.Probe("several_hosts")
	}
	r.Cfg("containers", nc)

	// ---- histories: per host a sequence of (container, call, retries on failure)
	for _, h := range w.hosts {
		if len(h.mine) == 0 {
			continue
		}
		n := src.Range(1, 4, "steps_per_container") * len(h.mine)
		for i := 0; i < n; i++ {
			c := h.mine[src.Intn(len(h.mine), "step_container")]
			weights := []int{6, 4, 0}
			if c.legacy {
				weights[2] = 3
			}
			st := stepSpec{c: c, kind: invKind(src.Weighted(weights, "step_call")), retries: src.Weighted([]int{5, 3, 1}, "step_retries")}
			h.script = append(h.script, st)
		}
	}
	for _, c := range w.containers {
		r.Logf("container %s", c.describe())
	}

	// ---- faults
	pConflict := src.Intn(120, "p_conflict")
	pError := src.Intn(60, "p_error")
	pCrash := src.Intn(30, "p_crash")
	pJump := src.Intn(40, "p_jump")
	switch src.Intn(4, "fault_profile") {
	case 0: // fault-free apart from real cross-host concurrency
		pConflict, pError, pCrash = 0, 0, 0
	case 1: // conflicts only
		pError, pCrash = 0, 0
	}
	r.Cfg("p_conflict", pConflict)
	r.Cfg("p_error", pError)
	r.Cfg("p_crash", pCrash)
	w.s.Policy = func(q *sched.Request) sched.Fault {
		inv := w.invByActor[q.Actor.Name]
		if inv == nil {
			return sched.None
		}
		f := sched.None
		if q.Write && (q.Op == "update" || q.Op == "delete") && src.Chance(pConflict, "f_conflict") {
			f = sched.Conflict
		} else if src.Chance(pError, "f_error") {
			f = sched.ErrorBefore
			if commitThenError && q.Write && src.Chance(500, "f_commit_then_error") {
				f = sched.CommitThenError // exploratory only, see below
			}
		} else if src.Chance(pCrash, "f_crash") {
			if q.Write && src.Chance(500, "f_crash_after") {
				f = sched.CrashAfter
			} else {
				f = sched.CrashBefore
			}
		}
		if f != sched.None && f != sched.Conflict {
			inv.faulted = true
		}
		return f
	}
	w.s.TimeJump = func() time.Duration {
		if !src.Chance(pJump, "t_jump") {
			return 0
		}
		r.Fault("clock_jump")
		d := time.Duration([]int{1, 3, 10, 45, 100, 400}[src.Intn(6, "t_jump_len")]) * time.Second
		return d
	}

	for _, h := range w.hosts {
		if len(h.mine) == 0 {
			continue
		}
		h.sa = w.s.NewActor(h.name)
		w.s.Go(h.sa, h.loop)
	}
	maxSteps := 2500
	if !w.s.Run(maxSteps) {
		w.violation("sut_stuck", "plugin invocations did not finish within %d scheduling steps after faults stopped", 4*maxSteps+2000)
	}
	r.SimTime(w.now())
	w.or.final()
	r.Fingerprint(w.or.fingerprint())
}

// Two opt-in switches for exploration beyond what C38 claims; both are off in every tier of ./check.
//
// VERIF_CNI_STRICT_ROLLBACK=1: a fault-free failing ADD must leave nothing behind even when the failure is an error
// from AutoAssign (a requested family has no IP pool) rather than a short result.
// VERIF_CNI_COMMIT_THEN_ERROR=1: additionally inject writes that land although the caller is told they failed (a
// fault kind outside the engine's stated fault model).
var strictRollback = os.Getenv("VERIF_CNI_STRICT_ROLLBACK") != ""
var commitThenError = os.Getenv("VERIF_CNI_COMMIT_THEN_ERROR") != ""
