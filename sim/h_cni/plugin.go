package h_cni

import (
	"context"
	"encoding/json"
	"fmt"
	"net"
	"runtime/debug"
	"strings"

	"github.com/containernetworking/cni/pkg/skel"
	v3 "github.com/projectcalico/api/pkg/apis/projectcalico/v3"

	"github.com/projectcalico/calico/cni-plugin/pkg/ipamplugin"
	"github.com/projectcalico/calico/libcalico-go/lib/clientv3"
	"github.com/projectcalico/calico/libcalico-go/lib/ipam"

	"verifsim/sched"
)

// ---- containers and their histories

type cstate int

const (
	stClean cstate = iota // never added, or last DEL succeeded
	stAdded               // last ADD succeeded and no DEL has been invoked since
	stDirty               // something failed (or a v2.x-era allocation exists): the runtime owes a DEL
)

func (s cstate) String() string { return [...]string{"clean", "added", "dirty"}[s] }

type container struct {
	idx     int
	host    *hostState
	cid     string // CNI container id
	k8s     bool   // CNI_ARGS carry K8S_POD_NAME / K8S_POD_NAMESPACE
	pod     string
	ns      string
	fam4    bool
	fam6    bool
	pools4  []string // ipam.ipv4_pools of the network config (names or CIDRs)
	pools6  []string
	badPool bool // the config names a pool that does not exist
	cniVer  string
	// legacy: a v2.x-era plugin may have allocated for this workload under the workload-ID handle form
	legacy  bool
	leave   bool // if still attached when the script ends, stay attached
	sibling int  // index of the container whose pod this one shares (-1: none)

	state         cstate
	held          []string // addresses printed by the last successful ADD (valid while state == stAdded)
	touched       bool
	invoked       int
	lastFailedAdd bool
}

// The two handle forms under which cmdDel releases (design/ipam/ipam-cni.md "Release by both handle forms").
func (c *container) primary() string { return netName + "." + c.cid }
func (c *container) workloadID() string {
	if c.k8s {
		return c.ns + "." + c.pod
	}
	return c.cid
}
func (c *container) handles() []string { return []string{c.primary(), c.workloadID()} }
func (c *container) ownsHandle(h string) bool {
	return h == c.primary() || h == c.workloadID()
}

func (c *container) describe() string {
	fam := ""
	if c.fam4 {
		fam += "4"
	}
	if c.fam6 {
		fam += "6"
	}
	id := "cni"
	if c.k8s {
		id = c.ns + "/" + c.pod
	}
	return fmt.Sprintf("c%d@%s(%s v%s pools4=%v pools6=%v legacy=%v)", c.idx, c.host.name, id, fam, c.pools4, c.pools6, c.legacy)
}

func (c *container) stdin() []byte {
	ipamCfg := map[string]interface{}{"type": "calico-ipam"}
	if !c.fam4 {
		ipamCfg["assign_ipv4"] = "false"
	} else if c.idx%2 == 1 {
		ipamCfg["assign_ipv4"] = "true" // explicit and defaulted forms both occur
	}
	if c.fam6 {
		ipamCfg["assign_ipv6"] = "true"
	}
	if len(c.pools4) > 0 {
		ipamCfg["ipv4_pools"] = c.pools4
	}
	if len(c.pools6) > 0 {
		ipamCfg["ipv6_pools"] = c.pools6
	}
	level := "error"
	if c.host.w.sutLog {
		level = "debug"
	}
	conf := map[string]interface{}{
		"cniVersion":     c.cniVer,
		"name":           netName,
		"type":           "calico",
		"nodename":       c.host.name,
		"datastore_type": "etcdv3",
		"ipam_lock_file": c.host.w.tmpDir + "/" + c.host.name + ".lock",
		"log_level":      level,
		"ipam":           ipamCfg,
	}
	b, err := json.Marshal(conf) // map keys are emitted sorted
	if err != nil {
		panic(err)
	}
	return b
}

func (c *container) cmdArgs() *skel.CmdArgs {
	args := ""
	if c.k8s {
		args = fmt.Sprintf("IgnoreUnknown=1;K8S_POD_NAMESPACE=%s;K8S_POD_NAME=%s;K8S_POD_INFRA_CONTAINER_ID=%s", c.ns, c.pod, c.cid)
	}
	return &skel.CmdArgs{ContainerID: c.cid, Netns: "/var/run/netns/" + c.cid, IfName: "eth0", Args: args, Path: "/opt/cni/bin", StdinData: c.stdin()}
}

// ---- one plugin process

type invKind int

const (
	kAdd invKind = iota
	kDel
	kLegacyAdd // a v2.x-era ADD: allocation under the workload-ID handle, made through the real IPAM client
)

func (k invKind) String() string { return [...]string{"ADD", "DEL", "LEGACY-ADD"}[k] }

type allocRec struct {
	ip     string
	handle string
	cidr   string
	ord    int
}

type invocation struct {
	id      int
	kind    invKind
	c       *container
	sa      *sched.Actor
	client  clientv3.Interface
	faulted bool // a transient error or crash was injected into this process (CAS conflicts do not count)
	allocs  []allocRec
	freed   []allocRec
	desc    string
}

type result struct {
	err     error
	crashed bool
	ips     []string // CIDR strings printed on stdout
	raw     string
}

func (res result) ok() bool { return res.err == nil && !res.crashed }

func (res result) String() string {
	switch {
	case res.crashed:
		return "crashed"
	case res.err != nil:
		s := res.err.Error()
		if len(s) > 110 {
			s = s[:110]
		}
		return "err(" + s + ")"
	}
	return fmt.Sprintf("ok %v", res.ips)
}

// ---- a host: its container runtime issues CNI calls one at a time (the plugin's host-wide lock would serialise
// them anyway; the real flock on a private file is taken and never contended).

type stepSpec struct {
	c       *container
	kind    invKind
	retries int
}

type hostState struct {
	w      *world
	name   string
	sa     *sched.Actor
	script []stepSpec
	cur    *invocation
	mine   []*container
}

// invoke runs one plugin process to completion.  The process is a fresh sched actor (a crash kills only it); it
// executes on the host runtime's goroutine, which has nothing else to do meanwhile, and every datastore call it
// makes is attributed to the process's actor by the client it was handed (see procClient).
func (h *hostState) invoke(kind invKind, c *container) result {
	w := h.w
	w.nInv++
	c.invoked++
	inv := &invocation{id: w.nInv, kind: kind, c: c}
	inv.sa = &sched.Actor{Name: fmt.Sprintf("%s.p%03d", h.name, inv.id)}
	inv.client = w.clientFor(inv)
	inv.desc = fmt.Sprintf("%s %s c%d primary=%s workload=%s", inv.sa.Name, kind, c.idx, c.primary(), c.workloadID())
	w.invByActor[inv.sa.Name] = inv
	h.cur = inv
	c.touched = true
	w.r.Op("%s (state %s)", inv.desc, c.state)
	if kind == kDel {
		// ownership of what the last ADD returned ends when a DEL is invoked
		c.held = nil
	}
	var res result
	func() {
		defer func() {
			if p := recover(); p != nil {
				w.violation("sut_panic", "%s panicked: %v\n%s", inv.desc, p, trim(string(debug.Stack()), 5000))
			}
		}()
		switch kind {
		case kAdd:
			res.err = ipamplugin.CmdAddForSim(c.cmdArgs())
		case kDel:
			res.err = ipamplugin.CmdDelForSim(c.cmdArgs())
		case kLegacyAdd:
			id := c.workloadID()
			args := ipam.AutoAssignArgs{Num4: 1, HandleID: &id, Hostname: h.name, IntendedUse: v3.IPPoolAllowedUseWorkload,
				Attrs: map[string]string{ipam.AttributeNode: h.name}}
			if !c.fam4 {
				args.Num4, args.Num6 = 0, 1
			}
			v4, v6, err := inv.client.IPAM().AutoAssign(context.Background(), args)
			res.err = err
			n := 0
			if v4 != nil {
				n += len(v4.IPs)
			}
			if v6 != nil {
				n += len(v6.IPs)
			}
			if err == nil && n == 0 {
				res.err = fmt.Errorf("no address available")
			}
		}
		res.raw = w.takeStdout()
	}()
	h.cur = nil
	res.crashed = inv.sa.Crashed
	if res.crashed {
		inv.faulted = true
		res.raw = "" // a dead process's output never reaches the runtime
	}
	if kind == kAdd && res.ok() {
		res.ips = parseResult(w, inv, res.raw)
	}
	w.r.Logf("ret %s -> %s%s", inv.desc, res, map[bool]string{true: " [faulted]", false: ""}[inv.faulted])
	w.or.afterInvocation(inv, res)
	return res
}

func trim(s string, n int) string {
	if len(s) > n {
		return s[:n]
	}
	return s
}

// parseResult extracts the addresses from the CNI result the plugin printed (spec versions 0.3.0 and later share
// the "ips":[{"address":...}] shape).
func parseResult(w *world, inv *invocation, raw string) []string {
	var out struct {
		IPs []struct {
			Address string `json:"address"`
		} `json:"ips"`
	}
	if err := json.Unmarshal([]byte(raw), &out); err != nil {
		w.check("add_result_parses", false, "%s returned success but its stdout is not a CNI result (%v): %q", inv.desc, err, trim(raw, 300))
	}
	var ips []string
	for _, e := range out.IPs {
		ips = append(ips, e.Address)
	}
	return ips
}

func ipOnly(cidr string) string {
	if i := strings.IndexByte(cidr, '/'); i >= 0 {
		return cidr[:i]
	}
	return cidr
}

func isV4(ip string) bool {
	p := net.ParseIP(ip)
	return p != nil && p.To4() != nil
}

// step executes one scripted step of a container's history and keeps the runtime's view of the container.
func (h *hostState) step(st stepSpec) {
	w, r, c := h.w, h.w.r, st.c
	kind := st.kind
	switch {
	case kind == kAdd && c.state == stAdded:
		kind = kDel // the CNI contract: no second ADD for an attached container
	case kind == kLegacyAdd && c.state == stAdded:
		return
	}
	for attempt := 0; attempt <= st.retries; attempt++ {
		if attempt > 0 {
			if kind == kAdd {
				r.Probe("add_retried_after_failure")
			} else if kind == kDel {
				r.Probe("del_retried_after_failure")
			}
		}
		prev := c.state
		res := h.invoke(kind, c)
		switch kind {
		case kAdd:
			if res.ok() {
				c.state, c.held = stAdded, res.ips
				if prev == stDirty {
					r.Probe("add_ok_on_dirty_container")
				}
			} else {
				c.state = stDirty
			}
			c.lastFailedAdd = !res.ok()
		case kLegacyAdd:
			c.state = stDirty // whatever happened, the workload now owes a DEL
			if res.ok() {
				r.Probe("legacy_add_ok")
			}
		case kDel:
			if res.ok() {
				switch prev {
				case stClean:
					r.Probe("del_repeated_or_without_add")
				case stDirty:
					if c.lastFailedAdd {
						r.Probe("del_after_failed_add")
					}
				}
				c.state = stClean
				c.lastFailedAdd = false
			} else {
				c.state = stDirty
			}
		}
		if res.ok() {
			return
		}
	}
	_ = w
}

// loop is the host's container runtime.
func (h *hostState) loop(ctx context.Context) {
	w, r := h.w, h.w.r
	// All runtimes are started together; each waits here to be released by the scheduler, so that from the first
	// logged event on at most one goroutine is runnable.
	w.s.Park(ctx, "runtime-start", h.name, false)
	for _, st := range h.script {
		h.step(st)
	}
	// Final phase: the runtime retries DEL until it succeeds for every container that is owed one.
	for _, c := range h.mine {
		if c.state == stAdded && c.leaveAttached() {
			continue
		}
		if c.state == stClean {
			continue
		}
		fails := 0
		for c.state != stClean {
			prev := c.state
			res := h.invoke(kDel, c)
			if res.ok() {
				if prev == stDirty && c.lastFailedAdd {
					r.Probe("del_after_failed_add")
				}
				c.state, c.lastFailedAdd = stClean, false
				break
			}
			c.state = stDirty
			r.Probe("del_retried_after_failure")
			fails++
			if fails >= 3 {
				w.s.FaultsOn = false // the fault storm ends; from here a failing DEL is a violation (oracle del_fault_free)
			}
			if fails > 8 {
				w.violation("del_never_succeeds", "DEL for c%d failed %d times in a row, the last %d without any injected fault: %s", c.idx, fails, fails-3, res)
			}
		}
	}
}

func (c *container) leaveAttached() bool { return c.leave }

func (c *container) everyFamilyHasPool() bool {
	return !c.fam6 || len(c.host.w.poolsOf(true)) > 0
}
