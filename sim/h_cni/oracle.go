package h_cni

import (
	"fmt"
	"net"
	"sort"
	"strings"

	"github.com/projectcalico/calico/libcalico-go/lib/backend/model"

	"verifsim/store"
)

const (
	kFree = iota
	kAlloc
	kCooling
)

type ordState struct {
	kind   int
	handle string
}

type blockShadow struct {
	cidr     string
	affinity string
	ords     []ordState
}

// oracle keeps a shadow of every IPAM block, rebuilt from the store at every committed write, and judges C38 at
// the return of every plugin process and at quiescence.
type oracle struct {
	w      *world
	blocks map[string]*blockShadow
	// handles touched by a plugin process into which an error or a crash was injected: their reference counts may
	// legitimately over-count (the library increments the handle before the block write and decrements after)
	tainted map[string]bool
}

func newOracle(w *world) *oracle {
	return &oracle{w: w, blocks: map[string]*blockShadow{}, tainted: map[string]bool{}}
}

func blockIP(cidr string, ord int) net.IP { return nthIP(mustCIDR(cidr), ord) }

func (o *oracle) decode(b *model.AllocationBlock) *blockShadow {
	n := b.NumAddresses()
	sh := &blockShadow{cidr: b.CIDR.String(), ords: make([]ordState, n)}
	if b.Affinity != nil {
		sh.affinity = *b.Affinity
	}
	for i := 0; i < n && i < len(b.Allocations); i++ {
		a := b.Allocations[i]
		if a == nil {
			continue
		}
		if *a < 0 || *a >= len(b.Attributes) {
			o.w.check("block_wellformed", false, "block %s: ordinal %d points at attribute %d of %d", sh.cidr, i, *a, len(b.Attributes))
			continue
		}
		at := b.Attributes[*a]
		st := ordState{kind: kAlloc}
		if at.ReleasedAt != nil {
			st.kind = kCooling // released, waiting out the cooldown: no longer anybody's address
		} else if at.HandleID != nil {
			st.handle = *at.HandleID
		}
		sh.ords[i] = st
	}
	return sh
}

// onWrite runs atomically with every committed datastore mutation.
func (o *oracle) onWrite(wr store.Write) {
	k, ok := wr.Key.(model.BlockKey)
	if !ok || wr.Kind == "touch" {
		return
	}
	w := o.w
	cidr := model.IPNetFromPrefix(k.CIDR).String()
	var nb *blockShadow
	if kv := w.st.Peek(wr.Key); kv != nil {
		nb = o.decode(kv.Value.(*model.AllocationBlock))
	}
	old := o.blocks[cidr]
	inv := w.invByActor[wr.Actor]
	n := 0
	if old != nil {
		n = len(old.ords)
	}
	if nb != nil && len(nb.ords) > n {
		n = len(nb.ords)
	}
	for i := 0; i < n; i++ {
		var a, b ordState
		if old != nil && i < len(old.ords) {
			a = old.ords[i]
		}
		if nb != nil && i < len(nb.ords) {
			b = nb.ords[i]
		}
		if a.kind != kAlloc && b.kind != kAlloc || a.kind == kAlloc && b.kind == kAlloc && a.handle == b.handle {
			continue
		}
		ip := blockIP(cidr, i).String()
		switch {
		case a.kind == kAlloc && b.kind == kAlloc:
			w.check("live_allocation_overwritten", false, "address %s allocated to handle %q was rewritten as allocated to %q by %s without a release", ip, a.handle, b.handle, describeInv(inv))
		case a.kind == kAlloc:
			// An allocation ended.  Only a process acting for the container that owns the handle may do that: its
			// DEL, or the ADD that made the allocation rolling itself back.
			okRel := inv != nil && inv.c.ownsHandle(a.handle) && (inv.kind == kDel || inv.kind == kAdd && inv.allocated(ip))
			w.check("released_only_by_owner", okRel, "address %s held under handle %q was released in a write by %s, which does not act for that handle", ip, a.handle, describeInv(inv))
			inv.freed = append(inv.freed, allocRec{ip: ip, handle: a.handle, cidr: cidr, ord: i})
			w.r.Logf("  free  %s handle=%s by %s", ip, a.handle, wr.Actor)
		case b.kind == kAlloc:
			okAl := inv != nil && (inv.kind == kAdd && b.handle == inv.c.primary() || inv.kind == kLegacyAdd && b.handle == inv.c.workloadID())
			w.check("allocation_attributable", okAl, "address %s became allocated under handle %q in a write by %s, which is not adding for that handle", ip, b.handle, describeInv(inv))
			inv.allocs = append(inv.allocs, allocRec{ip: ip, handle: b.handle, cidr: cidr, ord: i})
			w.r.Logf("  alloc %s handle=%s by %s", ip, b.handle, wr.Actor)
		}
	}
	if nb == nil {
		delete(o.blocks, cidr)
	} else {
		o.blocks[cidr] = nb
	}
}

func (inv *invocation) allocated(ip string) bool {
	for _, a := range inv.allocs {
		if a.ip == ip {
			return true
		}
	}
	return false
}

func describeInv(inv *invocation) string {
	if inv == nil {
		return "no plugin process"
	}
	return inv.desc
}

func sortedBlockKeys(m map[string]*blockShadow) []string {
	ks := make([]string, 0, len(m))
	for k := range m {
		ks = append(ks, k)
	}
	sort.Strings(ks)
	return ks
}

// heldUnder lists the addresses currently allocated under handle h.
func (o *oracle) heldUnder(h string) []string {
	var out []string
	for _, cidr := range sortedBlockKeys(o.blocks) {
		for i, st := range o.blocks[cidr].ords {
			if st.kind == kAlloc && st.handle == h {
				out = append(out, blockIP(cidr, i).String())
			}
		}
	}
	return out
}

func (o *oracle) isHeld(ip, h string) bool {
	for _, x := range o.heldUnder(h) {
		if x == ip {
			return true
		}
	}
	return false
}

// handleRecord returns the non-zero entries of the datastore's handle record for h ("" if gone or empty).
func (o *oracle) handleRecord(h string) string {
	kv := o.w.st.Peek(model.IPAMHandleKey{HandleID: h})
	if kv == nil {
		return ""
	}
	rec := kv.Value.(*model.IPAMHandle)
	var parts []string
	for _, c := range sortedIntKeys(rec.Block) {
		if rec.Block[c] != 0 {
			parts = append(parts, fmt.Sprintf("%s:%d", c, rec.Block[c]))
		}
	}
	return strings.Join(parts, ",")
}

func sortedIntKeys(m map[string]int) []string {
	ks := make([]string, 0, len(m))
	for k := range m {
		ks = append(ks, k)
	}
	sort.Strings(ks)
	return ks
}

// afterInvocation judges one finished plugin process (C38).
func (o *oracle) afterInvocation(inv *invocation, res result) {
	w, r, c := o.w, o.w.r, inv.c
	if inv.faulted {
		for _, h := range c.handles() {
			o.tainted[h] = true
		}
	}
	if !r.Armed("C38") {
		return
	}
	switch inv.kind {
	case kAdd:
		switch {
		case res.ok():
			r.Probe("add_ok")
			// "a successful add always holds an address for every requested family": exactly one per requested family,
			// none of a family that was not requested, each recorded in its block under the container's handle now.
			n4, n6 := 0, 0
			for _, cidr := range res.ips {
				ip := ipOnly(cidr)
				if isV4(ip) {
					n4++
				} else {
					n6++
				}
				w.check("add_result_recorded", o.isHeld(ip, c.primary()), "%s returned %s, but at its return that address is not allocated under handle %q (held under it: %v)", inv.desc, cidr, c.primary(), o.heldUnder(c.primary()))
				w.check("add_result_allocated_by_this_add", inv.allocated(ip), "%s returned %s, which no datastore write of this process allocated", inv.desc, cidr)
			}
			want4, want6 := b2i(c.fam4), b2i(c.fam6)
			w.check("add_result_one_per_family", n4 == want4 && n6 == want6, "%s (assign_ipv4=%v assign_ipv6=%v) returned success with %d IPv4 and %d IPv6 addresses: %v", inv.desc, c.fam4, c.fam6, n4, n6, res.ips)
			if c.fam4 && c.fam6 {
				r.Probe("add_ok_dual_stack")
			}
		case res.crashed:
			r.Probe("add_crashed")
		default:
			r.Probe("add_failed")
			// Documented rollback (ipam-cni.md "No partial state on failure", "Half-success must release the successful
			// family"): a failing ADD into which no error or crash was injected leaves nothing it allocated behind.
			var left []string
			for _, a := range inv.allocs {
				if o.isHeld(a.ip, a.handle) {
					left = append(left, a.ip)
				}
			}
			if !inv.faulted {
				if c.everyFamilyHasPool() {
					// one family ran short (pool exhausted, or no usable block under strict affinity): the documented half-success
					w.check("failed_add_rolled_back", len(left) == 0, "%s failed (%v) without any injected fault, yet the addresses %v it allocated are still held under %q", inv.desc, res.err, left, c.primary())
				} else if len(left) > 0 {
					// A requested family has no IP pool at all: AutoAssign returns an error (not a short result) together
					// with the other family's address, and cmdAdd returns that error without releasing it.  C38 itself only
					// speaks about the state after DEL, so this is counted, not failed (see the engine report); set
					// VERIF_CNI_STRICT_ROLLBACK=1 to turn it into a violation with a replay file.
					r.Probe("fault_free_failed_add_left_address_until_del")
					if strictRollback {
						w.check("failed_add_error_path_rolled_back", false, "%s failed (%v) without any injected fault, yet the addresses %v it allocated are still held under %q until a DEL", inv.desc, res.err, left, c.primary())
					}
				}
				if len(inv.allocs) > 0 && len(left) == 0 {
					if isV4(inv.allocs[0].ip) {
						r.Probe("add_rollback_v4_after_v6_shortage")
					} else {
						r.Probe("add_rollback_v6_after_v4_shortage")
					}
				} else if len(inv.allocs) == 0 {
					r.Probe("add_failed_nothing_allocated")
				}
			} else if len(left) > 0 {
				r.Probe("faulted_add_left_address_for_del")
			}
		}
	case kDel:
		switch {
		case res.ok():
			r.Probe("del_ok")
			o.checkNothingLeft(inv.desc+" returned success", c)
			for _, f := range inv.freed {
				if f.handle == c.primary() {
					r.Probe("del_released_primary_handle")
				} else {
					r.Probe("del_released_workload_id_handle")
				}
			}
			if len(inv.freed) == 0 {
				r.Probe("del_nothing_to_release")
			}
		case res.crashed:
			r.Probe("del_crashed")
		default:
			r.Probe("del_failed")
			// DEL is idempotent and "not found" is success: without an injected error or crash a DEL must succeed.
			w.check("del_fault_free_succeeds", inv.faulted, "%s failed without any injected fault: %v", inv.desc, res.err)
		}
	}
}

func b2i(b bool) int {
	if b {
		return 1
	}
	return 0
}

// checkNothingLeft is C38's main clause: after a successful DEL no address remains allocated under either of the
// container's handle forms, and the handle records are gone or empty (the latter unless an error/crash was
// injected into a process working on that handle: then the count may over-estimate, never the block).
func (o *oracle) checkNothingLeft(when string, c *container) {
	w, r := o.w, o.w.r
	for _, h := range c.handles() {
		left := o.heldUnder(h)
		w.check("address_left_after_del", len(left) == 0, "%s, but %v remain(s) allocated under handle %q of container c%d", when, left, h, c.idx)
		rec := o.handleRecord(h)
		if rec != "" && o.tainted[h] {
			r.Probe("handle_record_overcounts_after_fault")
			continue
		}
		w.check("handle_record_left_after_del", rec == "", "%s, but the handle record %q still counts %s (no error or crash was injected into any process of this container)", when, h, rec)
	}
}

// final: quiescence.
func (o *oracle) final() {
	w, r := o.w, o.w.r
	if !r.Armed("C38") {
		return
	}
	for _, c := range w.containers {
		if !c.touched {
			continue
		}
		switch c.state {
		case stClean:
			o.checkNothingLeft(fmt.Sprintf("at quiescence, the last DEL of c%d having succeeded", c.idx), c)
			r.Probe("final_clean_container")
		case stAdded:
			// still attached: what the successful ADD returned is still held
			for _, cidr := range c.held {
				ip := ipOnly(cidr)
				w.check("held_until_del", o.isHeld(ip, c.primary()), "c%d was added successfully with %s and never deleted, yet at quiescence the address is not allocated under %q", c.idx, cidr, c.primary())
			}
			r.Probe("final_attached_container")
		default:
			w.harnessError("container c%d ended in state %s", c.idx, c.state)
		}
	}
}

func (o *oracle) fingerprint() string {
	var sb strings.Builder
	for _, c := range sortedBlockKeys(o.blocks) {
		b := o.blocks[c]
		fmt.Fprintf(&sb, "%s[%s]", c, b.affinity)
		for _, st := range b.ords {
			fmt.Fprintf(&sb, "%d%s,", st.kind, st.handle)
		}
	}
	for _, c := range o.w.containers {
		fmt.Fprintf(&sb, "|c%d=%s/%d", c.idx, c.state, c.invoked)
	}
	return sb.String()
}
