// Engine ipamsim (C19, C20, C21, C22): a cluster of hosts, each with one or
// more concurrent callers, drives the REAL libcalico-go IPAM client against one
// shared simulated datastore inside a testing/synctest bubble.  Every backend
// call is a scheduling point (and a fault point); the oracle watches every
// committed datastore write.
package h_ipamsim

import (
	"context"
	"fmt"
	"net"
	"sort"
	"strings"
	"time"

	v3 "github.com/projectcalico/api/pkg/apis/projectcalico/v3"
	metav1 "k8s.io/apimachinery/pkg/apis/meta/v1"

	"github.com/projectcalico/calico/libcalico-go/lib/apis/internalapi"
	"github.com/projectcalico/calico/libcalico-go/lib/backend/model"
	"github.com/projectcalico/calico/libcalico-go/lib/ipam"
	cnet "github.com/projectcalico/calico/libcalico-go/lib/net"
	"github.com/projectcalico/calico/libcalico-go/lib/options"
	"github.com/projectcalico/calico/libcalico-go/lib/selector"

	"verifsim/core"
	"verifsim/sched"
	"verifsim/store"
)

// poolVersion is one version of one IP pool, valid for event sequence numbers [from, to).
type poolVersion struct {
	name      string
	cidr      *net.IPNet
	blockSize int
	disabled  bool
	manual    bool // assignmentMode Manual: only usable when the request names the pool
	deleted   bool
	nodeSel   string
	nsSel     string
	uses      []v3.IPPoolAllowedUse
	from, to  int
}

type resvVersion struct {
	cidr     *net.IPNet
	from, to int
}

type oppReq struct{ cidr, owner string }

// queueOpportunist asks the OnStep hook to let another host claim cidr (see oracle.checkAffinities).
func (w *world) queueOpportunist(cidr, owner string) {
	for _, q := range w.oppQueue {
		if q.cidr == cidr {
			return
		}
	}
	w.oppQueue = append(w.oppQueue, oppReq{cidr, owner})
}

type world struct {
	oppQueue   []oppReq
	reclaiming map[string]string // actor -> block it has marked for deletion on another host's behalf (directed stall)
	relMarked  map[string]bool   // actor has just marked its own host's claim pendingDeletion (directed fault)
	r   *core.R
	s   *sched.Sched
	st  *store.Store
	seq int // global event sequence: every op invoke/return, admin change and datastore write

	hosts      []string
	hostLabels map[string]map[string]string
	pools      []*poolVersion // all versions ever; current ones have to == maxInt
	resvs      []*resvVersion
	strict     bool
	autoAlloc  bool
	maxBlocks  int
	cooldown   int
	useV6      bool

	actors  map[string]*actorState
	order   []*actorState
	t0      time.Time
	faultsP map[string]int

	or *oracle

	capAsserted bool // the per-host block cap is asserted in this run
	contention  bool // contention swarm profile (see newWorld)
	fifo        bool // reuse-order swarm profile (see newWorld)
	staleRel    bool // stale-release swarm profile (see newWorld)
}

const forever = int(^uint(0) >> 1)

func (w *world) tick() int { w.seq++; return w.seq }

func (w *world) now() time.Duration { return time.Since(w.t0) }

// ---- pool accessor (the real code's PoolAccessorInterface), a scheduling point like any datastore read

type poolAccessor struct{ w *world }

func (p poolAccessor) list(ctx context.Context, enabledOnly bool, ver int) ([]v3.IPPool, error) {
	switch p.w.s.Park(ctx, "pools", "", false) {
	case sched.Crashed, sched.CrashBefore:
		return nil, store.ErrCrashed
	case sched.ErrorBefore:
		return nil, fmt.Errorf("injected pool list error")
	}
	var out []v3.IPPool
	for _, pv := range p.w.pools {
		if pv.to != forever || pv.deleted {
			continue
		}
		if enabledOnly && pv.disabled {
			continue
		}
		is4 := pv.cidr.IP.To4() != nil
		if ver == 4 && !is4 || ver == 6 && is4 {
			continue
		}
		pool := v3.IPPool{ObjectMeta: metav1.ObjectMeta{Name: pv.name}}
		pool.Spec.CIDR = pv.cidr.String()
		pool.Spec.BlockSize = pv.blockSize
		pool.Spec.Disabled = pv.disabled
		mode := v3.Automatic
		if pv.manual {
			mode = v3.Manual
		}
		pool.Spec.AssignmentMode = &mode
		pool.Spec.NodeSelector = pv.nodeSel
		pool.Spec.NamespaceSelector = pv.nsSel
		pool.Spec.AllowedUses = append([]v3.IPPoolAllowedUse(nil), pv.uses...)
		out = append(out, pool)
	}
	sort.Slice(out, func(i, j int) bool { return out[i].Name < out[j].Name })
	return out, nil
}

func (p poolAccessor) GetEnabledPools(ctx context.Context, ipVersion int) ([]v3.IPPool, error) {
	return p.list(ctx, true, ipVersion)
}

func (p poolAccessor) GetAllPools(ctx context.Context) ([]v3.IPPool, error) {
	return p.list(ctx, false, 0)
}

type resvAccessor struct{ w *world }

func (a resvAccessor) List(ctx context.Context, opts options.ListOptions) (*v3.IPReservationList, error) {
	switch a.w.s.Park(ctx, "reservations", "", false) {
	case sched.Crashed, sched.CrashBefore:
		return nil, store.ErrCrashed
	case sched.ErrorBefore:
		return nil, fmt.Errorf("injected reservation list error")
	}
	l := &v3.IPReservationList{}
	var cidrs []string
	for _, rv := range a.w.resvs {
		if rv.to == forever {
			cidrs = append(cidrs, rv.cidr.String())
		}
	}
	if len(cidrs) > 0 {
		res := v3.IPReservation{ObjectMeta: metav1.ObjectMeta{Name: "resv"}}
		res.Spec.ReservedCIDRs = cidrs
		l.Items = append(l.Items, res)
	}
	return l, nil
}

// ---- pool / reservation history queries used by the C20 oracle

func (w *world) currentPool(name string) *poolVersion {
	for _, pv := range w.pools {
		if pv.name == name && pv.to == forever {
			return pv
		}
	}
	return nil
}

func (w *world) changePool(name string, f func(pv *poolVersion)) {
	cur := w.currentPool(name)
	if cur == nil {
		return
	}
	n := w.tick()
	cur.to = n
	nv := *cur
	nv.uses = append([]v3.IPPoolAllowedUse(nil), cur.uses...)
	nv.from, nv.to = n, forever
	f(&nv)
	w.pools = append(w.pools, &nv)
}

func selMatches(sel string, labels map[string]string) bool {
	if sel == "" {
		return true
	}
	s, err := selector.Parse(sel)
	if err != nil {
		return false
	}
	if labels == nil {
		labels = map[string]string{}
	}
	return s.Evaluate(labels)
}

func hasUse(uses []v3.IPPoolAllowedUse, u v3.IPPoolAllowedUse) bool {
	for _, x := range uses {
		if x == u {
			return true
		}
	}
	return false
}

// poolAllowedInWindow restates C20's first clause: was there an instant in
// [from,to] at which ip lay in an enabled pool allowed for use, node and namespace
// (and, if the request named pools, in one of those)?
func (w *world) poolAllowedInWindow(ip net.IP, from, to int, use v3.IPPoolAllowedUse, host string, nsLabels map[string]string, requested []cnet.IPNet) (bool, int) {
	for _, pv := range w.pools {
		if pv.from > to || pv.to <= from && pv.to != forever {
			continue
		}
		if pv.to != forever && pv.to <= from {
			continue
		}
		if !pv.cidr.Contains(ip) || pv.disabled || pv.deleted {
			continue
		}
		if !hasUse(pv.uses, use) {
			continue
		}
		// A request that names pools uses exactly those; node/namespace selectors and the assignment mode
		// only govern requests that leave the choice of pool to Calico (documented in determinePools).
		if len(requested) == 0 && (pv.manual || !selMatches(pv.nodeSel, w.hostLabels[host]) || !selMatches(pv.nsSel, nsLabels)) {
			continue
		}
		if len(requested) > 0 {
			ok := false
			for _, rq := range requested {
				if rq.String() == pv.cidr.String() {
					ok = true
				}
			}
			if !ok {
				continue
			}
		}
		return true, pv.blockSize
	}
	return false, 0
}

// reservedThroughout reports whether ip was inside a reservation during the whole window.
func (w *world) reservedThroughout(ip net.IP, from, to int) bool {
	// The reservations are few; check whether at every change point in the window some reservation covers ip.
	points := []int{from}
	for _, rv := range w.resvs {
		if rv.from > from && rv.from <= to {
			points = append(points, rv.from)
		}
		if rv.to != forever && rv.to > from && rv.to <= to {
			points = append(points, rv.to)
		}
	}
	for _, p := range points {
		covered := false
		for _, rv := range w.resvs {
			if rv.from <= p && p < rv.to && rv.cidr.Contains(ip) {
				covered = true
			}
		}
		if !covered {
			return false
		}
	}
	return true
}

func (w *world) reservedSometime(ip net.IP, from, to int) bool {
	for _, rv := range w.resvs {
		if rv.from <= to && rv.to > from && rv.cidr.Contains(ip) {
			return true
		}
	}
	return false
}

// ---- set-up

func mustCIDR(s string) *net.IPNet {
	_, n, err := net.ParseCIDR(s)
	if err != nil {
		panic(err)
	}
	return n
}

func newWorld(r *core.R) *world {
	w := &world{r: r, relMarked: map[string]bool{}, reclaiming: map[string]string{}, actors: map[string]*actorState{}, hostLabels: map[string]map[string]string{}, t0: time.Now()}
	w.s = sched.New(r)
	w.st = store.New(r, w.s)
	src := r.Src

	// contention profile: one tiny pool, many hosts, stalled claimers and long clock jumps - the block
	// claim / reclaim / release windows that C22 is about
	cp := 300
	if r.Armed("C22") {
		cp = 600
	}
	w.contention = src.Chance(cp, "contention_profile")
	r.Cfg("contention_profile", w.contention)
	// reuse-order profile: one pool of one or two larger blocks, no or short cooldown, many releases and
	// specific-address assignments between auto-assignments - the free-list order C21 is about
	fp := 100
	if r.Armed("C21") {
		fp = 450
	}
	w.fifo = !w.contention && src.Chance(fp, "fifo_profile")
	r.Cfg("fifo_profile", w.fifo)
	// stale-release profile: many small blocks, few long-lived handles that keep gaining blocks, bulk releases
	// (more than two addresses: the pre-fetched-handles path) of addresses that may have changed hands, slow
	// callers - the window between a release's reads and its writes
	sp := 120
	if r.Armed("C19") {
		sp = 350
	}
	w.staleRel = !w.contention && !w.fifo && src.Chance(sp, "stale_release_profile")
	r.Cfg("stale_release_profile", w.staleRel)
	nh := src.Range(2, 4, "hosts")
	if w.contention && nh < 3 {
		nh = 3
	}
	if w.fifo {
		nh = 2
	}
	for i := 0; i < nh; i++ {
		h := fmt.Sprintf("h%d", i)
		w.hosts = append(w.hosts, h)
		w.hostLabels[h] = map[string]string{"zone": []string{"a", "b"}[i%2]}
		n := internalapi.NewNode()
		n.Name = h
		n.Labels = w.hostLabels[h]
		w.st.Put(&model.KVPair{Key: model.ResourceKey{Kind: internalapi.KindNode, Name: h}, Value: n}, "~setup")
	}

	// configuration (only combinations SetIPAMConfig would accept)
	cm, pmb := []int{5, 3, 2}, 400
	if r.Armed("C20") {
		cm, pmb = []int{3, 5, 2}, 700 // the block cap exists only under strict affinity
	}
	switch src.Weighted(cm, "cfg_mode") {
	case 0:
		w.strict, w.autoAlloc = false, true
	case 1:
		w.strict, w.autoAlloc = true, true
		if src.Chance(pmb, "cfg_maxblocks") {
			w.maxBlocks = src.Range(1, 2, "cfg_maxblocks_n")
		}
	case 2:
		w.strict, w.autoAlloc = true, false
	}
	w.cooldown = []int{0, 0, 5, 30, 120}[src.Intn(5, "cfg_cooldown")]
	if w.staleRel {
		w.cooldown = 0
	}
	if (w.contention || w.fifo) && w.cooldown > 5 {
		w.cooldown = 0 // addresses in cooldown keep a block non-empty; reclaim needs empty blocks
	}
	w.st.Put(&model.KVPair{Key: model.IPAMConfigKey{}, Value: &model.IPAMConfig{
		StrictAffinity: w.strict, AutoAllocateBlocks: w.autoAlloc, MaxBlocksPerHost: w.maxBlocks, IPCooldownSeconds: w.cooldown,
	}}, "~setup")
	r.Cfg("hosts", nh)
	r.Cfg("strict", w.strict)
	r.Cfg("auto_alloc", w.autoAlloc)
	r.Cfg("max_blocks", w.maxBlocks)
	r.Cfg("cooldown_s", w.cooldown)

	// pools: small, so that contention, exhaustion, borrowing and reclaim happen
	np := src.Range(1, 3, "pools")
	if w.contention || w.fifo || w.staleRel {
		np = 1
	}
	bases := []string{"10.0.0.0", "10.0.1.0", "10.0.2.0"}
	for i := 0; i < np; i++ {
		bs := src.Range(29, 31, "pool_blocksize")
		plen := bs - src.Range(1, 2, "pool_blocks_log2")
		if w.contention {
			bs = src.Range(30, 31, "pool_blocksize_c")
			plen = bs - 1 // two blocks for three or more hosts
		}
		if w.staleRel {
			bs = 30
			plen = 27 + src.Intn(2, "pool_len_s")
		}
		if w.fifo {
			bs = src.Range(28, 29, "pool_blocksize_f")
			plen = bs - src.Intn(2, "pool_blocks_log2_f")
		}
		pv := &poolVersion{name: fmt.Sprintf("pool%d", i), cidr: mustCIDR(fmt.Sprintf("%s/%d", bases[i], plen)), blockSize: bs, from: 0, to: forever,
			uses: []v3.IPPoolAllowedUse{v3.IPPoolAllowedUseWorkload, v3.IPPoolAllowedUseTunnel}}
		kinds := []int{6, 2, 2, 1}
		if w.fifo || w.staleRel {
			kinds = []int{1, 0, 0, 0}
		}
		switch src.Weighted(kinds, "pool_kind") {
		case 1:
			pv.nodeSel = "zone == 'a'"
		case 2:
			pv.uses = []v3.IPPoolAllowedUse{v3.IPPoolAllowedUseWorkload}
		case 3:
			pv.manual = true
		}
		if !w.fifo && !w.staleRel && src.Chance(150, "pool_nssel") {
			pv.nsSel = "team == 'x'"
		}
		if !w.fifo && !w.staleRel && src.Chance(100, "pool_disabled") {
			pv.disabled = true
		}
		w.pools = append(w.pools, pv)
	}
	w.useV6 = src.Chance(250, "v6")
	if w.useV6 {
		w.pools = append(w.pools, &poolVersion{name: "pool6", cidr: mustCIDR("fd00::/124"), blockSize: 126, from: 0, to: forever,
			uses: []v3.IPPoolAllowedUse{v3.IPPoolAllowedUseWorkload, v3.IPPoolAllowedUseTunnel}})
	}
	if src.Chance(300, "resv") {
		pv := w.pools[src.Intn(np, "resv_pool")]
		ip := nthIP(pv.cidr, src.Intn(poolSize(pv.cidr), "resv_ip"))
		bits := 32 - src.Intn(2, "resv_len")
		w.resvs = append(w.resvs, &resvVersion{cidr: mustCIDR(fmt.Sprintf("%s/%d", ip, bits)), from: 0, to: forever})
	}
	w.r.Cfg("pools", w.describePools())
	return w
}

func (w *world) describePools() string {
	var parts []string
	for _, pv := range w.pools {
		if pv.to == forever {
			parts = append(parts, fmt.Sprintf("%s=%s/b%d dis=%v manual=%v node=%q ns=%q uses=%v", pv.name, pv.cidr, pv.blockSize, pv.disabled, pv.manual, pv.nodeSel, pv.nsSel, pv.uses))
		}
	}
	for _, rv := range w.resvs {
		if rv.to == forever {
			parts = append(parts, "resv="+rv.cidr.String())
		}
	}
	return strings.Join(parts, "; ")
}

func poolSize(n *net.IPNet) int {
	ones, bits := n.Mask.Size()
	if bits-ones > 10 {
		return 1024
	}
	return 1 << uint(bits-ones)
}

func nthIP(n *net.IPNet, k int) net.IP {
	ip := append(net.IP(nil), n.IP...)
	for i := len(ip) - 1; i >= 0 && k > 0; i-- {
		k += int(ip[i])
		ip[i] = byte(k)
		k >>= 8
	}
	return ip
}

func (w *world) newClient() ipam.Interface {
	return ipam.NewIPAMClient(w.st.Client(), poolAccessor{w}, resvAccessor{w})
}
