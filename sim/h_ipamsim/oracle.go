package h_ipamsim

import (
	"fmt"
	"net"
	"sort"
	"strings"
	"time"

	"github.com/projectcalico/calico/libcalico-go/lib/backend/model"

	"verifsim/store"
)

const (
	kFree = iota
	kAlloc
	kCooling
)

type ordState struct {
	kind       int
	handle     string
	seq        uint64
	releasedAt time.Time
}

type blockShadow struct {
	cidr     string
	affinity string // "" if none
	ords     []ordState
	unalloc  []int
	created  int // event seq of creation
}

type affEvent struct {
	seq   int
	state string // "" = deleted
}

type allocEvent struct {
	ip       string
	handle   string
	seq      int
	consumed bool
	opID     int
}

type oracle struct {
	w      *world
	blocks map[string]*blockShadow
	// affinity history per "host|cidr"
	aff map[string][]affEvent
	// ground-truth per-address bookkeeping (not derived from the block's own free list)
	freeSince    map[string]int           // event seq at which the address last became free (absent: never used)
	lastReleased map[string]time.Duration // simulated time of the last allocated->released transition
	allocEvents  map[string][]*allocEvent // per actor
	taintedH     map[string]bool          // handles touched by an operation that saw a non-conflict fault or crash
}

func newOracle(w *world) *oracle {
	return &oracle{w: w, blocks: map[string]*blockShadow{}, aff: map[string][]affEvent{}, freeSince: map[string]int{},
		lastReleased: map[string]time.Duration{}, allocEvents: map[string][]*allocEvent{}, taintedH: map[string]bool{}}
}

func (o *oracle) armed(p string) bool { return o.w.r.Armed(p) }

func blockIP(cidr string, ord int) net.IP {
	return nthIP(mustCIDR(cidr), ord)
}

// decode extracts the per-ordinal state and checks the block is well formed (C19).
func (o *oracle) decode(b *model.AllocationBlock) *blockShadow {
	r := o.w.r
	cidr := b.CIDR.String()
	n := b.NumAddresses()
	sh := &blockShadow{cidr: cidr, ords: make([]ordState, n), unalloc: append([]int(nil), b.Unallocated...)}
	if b.Affinity != nil {
		sh.affinity = *b.Affinity
	}
	if o.armed("C19") {
		r.Check("block_wellformed", len(b.Allocations) == n, "block %s has %d allocation slots for %d addresses", cidr, len(b.Allocations), n)
	}
	inUn := map[int]bool{}
	for _, u := range b.Unallocated {
		if o.armed("C19") {
			r.Check("block_wellformed", u >= 0 && u < n && !inUn[u], "block %s: unallocated list %v has a duplicate or out-of-range ordinal %d", cidr, b.Unallocated, u)
		}
		inUn[u] = true
	}
	for i := 0; i < n && i < len(b.Allocations); i++ {
		a := b.Allocations[i]
		if a == nil {
			if o.armed("C19") {
				r.Check("block_wellformed", inUn[i], "block %s: ordinal %d is neither allocated nor on the unallocated list %v", cidr, i, b.Unallocated)
			}
			continue
		}
		if o.armed("C19") {
			r.Check("block_wellformed", !inUn[i], "block %s: ordinal %d is allocated AND on the unallocated list %v", cidr, i, b.Unallocated)
			r.Check("block_wellformed", *a >= 0 && *a < len(b.Attributes), "block %s: ordinal %d points at attribute %d of %d", cidr, i, *a, len(b.Attributes))
		}
		if *a < 0 || *a >= len(b.Attributes) {
			continue
		}
		at := b.Attributes[*a]
		st := ordState{kind: kAlloc, seq: b.GetSequenceNumberForOrdinal(i)}
		if at.ReleasedAt != nil {
			st.kind = kCooling
			st.releasedAt = at.ReleasedAt.Time
		} else if at.HandleID != nil {
			st.handle = *at.HandleID
		}
		sh.ords[i] = st
	}
	return sh
}

func (o *oracle) actorOf(name string) *actorState { return o.w.actors[name] }

// onWrite is called atomically with every committed datastore mutation.
func (o *oracle) onWrite(wr store.Write) {
	w := o.w
	seq := w.tick()
	switch k := wr.Key.(type) {
	case model.BlockKey:
		if wr.Kind == "touch" {
			return
		}
		cidr := model.IPNetFromPrefix(k.CIDR).String()
		var nb *blockShadow
		if kv := w.st.Peek(wr.Key); kv != nil {
			nb = o.decode(kv.Value.(*model.AllocationBlock))
		}
		o.blockTransition(cidr, nb, wr, seq)
	case model.BlockAffinityKey:
		if wr.Kind == "touch" {
			return
		}
		cidr := model.IPNetFromPrefix(k.CIDR).String()
		key := k.AffinityType + ":" + k.Host + "|" + cidr
		state := ""
		if kv := w.st.Peek(wr.Key); kv != nil {
			state = string(kv.Value.(*model.BlockAffinity).State)
			if state == "" {
				state = string(model.StateConfirmed) // documented: empty means confirmed (old data)
			}
		}
		if o.affState(key) == "" && state != "" {
			o.checkCap(k.Host, cidr, wr, seq)
		}
		if act := o.actorOf(wr.Actor); act != nil && act.cur != nil {
			if state == string(model.StatePendingDeletion) && act.host != k.Host && act.cur.kind == opAutoAssign {
				w.r.Probe("reclaim_of_foreign_empty_block_started")
				w.reclaiming[wr.Actor] = cidr // the Stall hook slows this reclaimer down before it deletes the block
			}
			if state == string(model.StatePendingDeletion) && act.host == k.Host && (act.cur.kind == opReleaseAffinity || act.cur.kind == opReleaseHostAffinities) {
				w.relMarked[wr.Actor] = true // the fault policy may interrupt this release before its next write
			}
			if o.affState(key) == string(model.StatePendingDeletion) && state == string(model.StatePending) && act.host == k.Host {
				w.r.Probe("owner_revives_claim_marked_for_deletion")
			}
		}
		o.aff[key] = append(o.aff[key], affEvent{seq: seq, state: state})
		w.r.Logf("  aff %s -> %q (by %s)", key, state, wr.Actor)
		if state == string(model.StateConfirmed) {
			w.r.Probe("affinity_confirmed")
		}
		o.checkAffinities(cidr, seq)
	}
}

// checkCap: C20's "a host never holds more affine blocks than the configured cap" (per IP version), judged at
// the instant an auto-assignment creates a new block claim for the host.  Asserted only in runs where the
// host's callers are serialised and use auto-assignment only (see run()).
func (o *oracle) checkCap(host, cidr string, wr store.Write, seq int) {
	w, r := o.w, o.w.r
	if !o.armed("C20") || !w.capAsserted {
		return
	}
	act := o.actorOf(wr.Actor)
	if act == nil || act.cur == nil || act.cur.kind != opAutoAssign || act.host != host {
		return
	}
	is4 := !strings.Contains(cidr, ":")
	total, usable := 0, 0
	var held []string
	// A host HOLDS the blocks whose own record names it as their affinity (whatever state the claim row is in: a
	// release that stopped after marking the row pendingDeletion has not given the block up), plus the blocks of
	// its confirmed claims.  A pending claim without such a block (one that lost a race and could not be cleaned
	// up) is documented as "treat as absent".
	heldSet := map[string]bool{}
	for _, c := range sortedBlockKeys(o.blocks) {
		if o.blocks[c].affinity == "host:"+host {
			heldSet[c] = true
		}
	}
	for _, key := range sortedAffKeys(o.aff) {
		if strings.HasPrefix(key, "host:"+host+"|") && o.affState(key) == string(model.StateConfirmed) {
			heldSet[key[len("host:"+host+"|"):]] = true
		}
	}
	var heldBlocks []string
	for c := range heldSet {
		heldBlocks = append(heldBlocks, c)
	}
	sort.Strings(heldBlocks)
	for _, c := range heldBlocks {
		if c == cidr || is4 != !strings.Contains(c, ":") {
			continue
		}
		total++
		held = append(held, c)
		if act.cur.poolUsable != nil && act.cur.poolUsable(mustCIDR(c).IP) {
			usable++
		}
	}
	cap := w.maxBlocks
	if act.cur.reqMaxBlocks > 0 && act.cur.reqMaxBlocks < cap {
		cap = act.cur.reqMaxBlocks
	}
	r.Eval()
	if total >= cap {
		detail := "the host was already at the cap inside the pools this request may use"
		if usable < cap {
			detail = "counting only blocks inside the pools this request may use the host was below the cap"
		}
		r.Violation("blocks_per_host_cap", "%s claimed block %s for host %s, which already held %d affine blocks %v; the cap is %d (%s: %d)", act.cur.desc, cidr, host, total, held, cap, detail, usable)
	}
}

func (o *oracle) affState(key string) string {
	h := o.aff[key]
	if len(h) == 0 {
		return ""
	}
	return h[len(h)-1].state
}

// confirmedInWindow: was the affinity in state confirmed at some instant in [from,to]?
func (o *oracle) confirmedInWindow(key string, from, to int) bool {
	h := o.aff[key]
	for i, e := range h {
		if e.state != string(model.StateConfirmed) {
			continue
		}
		end := forever
		if i+1 < len(h) {
			end = h[i+1].seq
		}
		if e.seq <= to && end > from {
			return true
		}
	}
	return false
}

// checkAffinities enforces C22's per-block invariants after every affinity or block write.
func (o *oracle) checkAffinities(cidr string, seq int) {
	if !o.armed("C22") {
		return
	}
	r := o.w.r
	var confirmed []string
	for _, key := range sortedAffKeys(o.aff) {
		if !strings.HasSuffix(key, "|"+cidr) {
			continue
		}
		if o.affState(key) == string(model.StateConfirmed) {
			confirmed = append(confirmed, strings.TrimSuffix(key, "|"+cidr))
		}
	}
	r.Check("one_confirmed_owner", len(confirmed) <= 1, "block %s is confirmed as affine to %v at event %d", cidr, confirmed, seq)
	if len(confirmed) == 1 {
		// A confirmed claim whose block does not exist is not yet a violation of the property as stated, but it is
		// the state in which any other host may create the block for itself (the search for a usable block looks
		// at blocks only).  Let another host try exactly that, as one atomic operation at the next scheduling
		// step - a legal schedule; one_confirmed_owner then judges the outcome.
		if o.blocks[cidr] == nil {
			r.Probe("confirmed_claim_without_block")
			o.w.queueOpportunist(cidr, strings.TrimPrefix(confirmed[0], "host:"))
		}
		if b := o.blocks[cidr]; b != nil {
			r.Check("block_matches_confirmed_claim", b.affinity == "" || b.affinity == confirmed[0],
				"block %s records affinity %q but the confirmed claim is held by %q (event %d)", cidr, b.affinity, confirmed[0], seq)
		}
	}
}

func sortedAffKeys(m map[string][]affEvent) []string {
	ks := make([]string, 0, len(m))
	for k := range m {
		ks = append(ks, k)
	}
	sort.Strings(ks)
	return ks
}

func (o *oracle) blockTransition(cidr string, nb *blockShadow, wr store.Write, seq int) {
	w, r := o.w, o.w.r
	old := o.blocks[cidr]
	act := o.actorOf(wr.Actor)
	var op *opExec
	if act != nil {
		op = act.cur
	}
	n := 0
	if old != nil {
		n = len(old.ords)
	}
	if nb != nil && len(nb.ords) > n {
		n = len(nb.ords)
	}
	now := w.now()
	var newlyAllocated, stillFree []int
	for i := 0; i < n; i++ {
		var a, b ordState
		if old != nil && i < len(old.ords) {
			a = old.ords[i]
		}
		if nb != nil && i < len(nb.ords) {
			b = nb.ords[i]
		}
		ip := blockIP(cidr, i).String()
		switch {
		case a.kind == kAlloc && b.kind == kAlloc && a.handle == b.handle:
			// unchanged live allocation
		case a.kind == kAlloc && b.kind == kAlloc:
			if o.armed("C19") {
				r.Violation("live_allocation_overwritten", "address %s allocated to handle %q was rewritten as allocated to %q by %s (event %d) without a release", ip, a.handle, b.handle, wr.Actor, seq)
			}
		case a.kind == kAlloc:
			// the allocation ended: only a release operation that legitimately names it may do that
			why := ""
			if op == nil {
				why = "the writer is not executing any operation"
			} else {
				why = op.mayRelease(ip, a.handle, a.seq)
			}
			if why != "" {
				if strings.HasPrefix(why, "stale:") {
					if o.armed("C21") {
						r.Violation("stale_release_freed_address", "address %s (handle %q, sequence %d) was freed by %s executing %s: %s", ip, a.handle, a.seq, wr.Actor, op.describe(), why)
					}
				} else if o.armed("C19") || o.armed("C22") {
					r.Violation("allocation_vanished", "address %s allocated to handle %q disappeared in a write by %s (%s): %s", ip, a.handle, wr.Actor, describeOp(op), why)
				}
			}
			r.Probe("released")
			if op != nil {
				// the releasing operation will go on to decrement this handle: if it is then hit by a fault, the
				// handle's count may legitimately stay high
				op.handles = append(op.handles, a.handle)
			}
			// The release happened somewhere inside the releasing operation's window; the earliest defensible
			// instant (its invocation) is used so that a stalled releaser is not held against the allocator.
			o.lastReleased[ip] = now
			if op != nil {
				o.lastReleased[ip] = op.invokeAt
			}
			if b.kind == kFree {
				o.freeSince[ip] = seq
			}
		case b.kind == kAlloc:
			// a new allocation
			newlyAllocated = append(newlyAllocated, i)
			ok := op != nil && op.mayAllocate(ip, b.handle)
			if o.armed("C19") {
				r.Check("allocation_attributable", ok, "address %s became allocated to handle %q in a write by %s (%s), which is not allocating for that handle", ip, b.handle, wr.Actor, describeOp(op))
			}
			if lr, was := o.lastReleased[ip]; was && o.armed("C21") && w.cooldown > 0 {
				r.Check("cooldown_respected", now-lr >= time.Duration(w.cooldown)*time.Second,
					"address %s was released at t=%v and allocated again at t=%v; cooldown is %ds", ip, lr, now, w.cooldown)
			}
			if a.kind == kCooling {
				r.Probe("reused_after_cooldown")
			}
			if op != nil {
				o.allocEvents[wr.Actor] = append(o.allocEvents[wr.Actor], &allocEvent{ip: ip, handle: b.handle, seq: seq, opID: op.id})
				o.checkAllocContext(cidr, nb, ip, op, act, seq)
			}
		case a.kind == kCooling && b.kind == kCooling:
			// "releasing an already released address is a harmless no-op": a second release must not touch the
			// cooldown record (a later ReleasedAt restarts the cooldown and delays the address's turn in the queue)
			if o.armed("C21") {
				r.Check("repeated_release_is_noop", a.releasedAt.Equal(b.releasedAt),
					"address %s was in cooldown since %v; a write by %s (%s) changed its release time to %v", ip, a.releasedAt, wr.Actor, describeOp(op), b.releasedAt)
			}
		case a.kind == kCooling && b.kind == kFree:
			o.freeSince[ip] = seq
			if o.armed("C21") && w.cooldown > 0 {
				lr, was := o.lastReleased[ip]
				if was {
					r.Check("cooldown_respected", now-lr >= time.Duration(w.cooldown)*time.Second,
						"address %s released at t=%v was returned to the free list at t=%v; cooldown is %ds", ip, lr, now, w.cooldown)
				}
			}
		}
		if b.kind == kFree && nb != nil {
			stillFree = append(stillFree, i)
		}
	}
	// C21: reuse order.  Among the addresses free before this write, an auto-assignment must not skip one that
	// has been free strictly longer (ground truth: o.freeSince, not the block's own list), unless it is reserved.
	if o.armed("C21") && op != nil && op.kind == opAutoAssign && len(newlyAllocated) > 0 && nb != nil {
		newest := -1
		for _, i := range newlyAllocated {
			if fs := o.freeSince[blockIP(cidr, i).String()]; fs > newest {
				newest = fs
			}
		}
		for _, f := range stillFree {
			fip := blockIP(cidr, f)
			fs, used := o.freeSince[fip.String()]
			if !used {
				fs = 0
			}
			if fs == seq { // became free in this very write
				continue
			}
			if fs < newest && !w.reservedSometime(fip, op.invoke, seq) {
				r.Violation("reuse_not_longest_free_first", "block %s: auto-assign by %s took an address freed at event %d while %s, free since event %d, was skipped", cidr, wr.Actor, newest, fip, fs)
			}
		}
		r.Eval()
	}
	// C22: "a block is released by its owner only when it holds no allocations (if required)"
	if o.armed("C22") && old != nil && old.affinity != "" && (nb == nil || nb.affinity == "") && op != nil && op.requireEmpty {
		live := 0
		for _, st := range old.ords {
			if st.kind == kAlloc {
				live++
			}
		}
		r.Check("affinity_released_only_when_empty", live == 0, "%s gave up the affinity %s of block %s although the block held %d live allocations and the operation requires the block to be empty", describeOp(op), old.affinity, cidr, live)
	}
	if nb == nil {
		delete(o.blocks, cidr)
		r.Probe("block_deleted")
		// a re-created block starts a new life: forget free-list history
		for i := 0; i < n; i++ {
			delete(o.freeSince, blockIP(cidr, i).String())
		}
	} else {
		if old == nil {
			nb.created = seq
			r.Probe("block_created")
		} else {
			nb.created = old.created
		}
		o.blocks[cidr] = nb
	}
	o.checkAffinities(cidr, seq)
}

// checkAllocContext: C20 strict-affinity clause and C22 "pending claims are never used as ownership".
func (o *oracle) checkAllocContext(cidr string, nb *blockShadow, ip string, op *opExec, act *actorState, seq int) {
	w, r := o.w, o.w.r
	self := "host:" + act.host
	if op.kind == opAutoAssign {
		if o.armed("C20") && w.strict {
			r.Check("strict_affinity", nb.affinity == self, "strict affinity: %s on %s was given %s from block %s whose affinity is %q", op.describe(), act.host, ip, cidr, nb.affinity)
		}
		if nb.affinity != self {
			r.Probe("borrowed_from_non_affine_block")
		}
	}
	// Under strict affinity the only way to an address is the walk over the host's own claims, so the claim
	// must have been confirmed; AssignIP and the non-strict hunt through arbitrary blocks never consult claims.
	if o.armed("C22") && w.strict && nb.affinity == self && op.kind == opAutoAssign {
		key := self + "|" + cidr
		r.Check("allocation_needs_confirmed_affinity", o.confirmedInWindow(key, op.invoke, seq),
			"%s on %s allocated %s from its affine block %s, but the affinity %s was never confirmed between the operation's start (event %d) and the write (event %d); history %v",
			op.describe(), act.host, ip, cidr, key, op.invoke, seq, o.aff[key])
	}
}

func describeOp(op *opExec) string {
	if op == nil {
		return "no operation"
	}
	return op.describe()
}

// handleAgreement is the quiescence half of C19: handle records vs block records.
func (o *oracle) handleAgreement() {
	w, r := o.w, o.w.r
	perHandle := map[string]map[string]int{}
	for _, cidr := range sortedBlockKeys(o.blocks) {
		for _, st := range o.blocks[cidr].ords {
			if st.kind == kAlloc && st.handle != "" {
				if perHandle[st.handle] == nil {
					perHandle[st.handle] = map[string]int{}
				}
				perHandle[st.handle][cidr]++
			}
		}
	}
	recorded := map[string]map[string]int{}
	for _, kv := range w.st.PeekList(model.IPAMHandleListOptions{}) {
		h := kv.Value.(*model.IPAMHandle)
		recorded[kv.Key.(model.IPAMHandleKey).HandleID] = h.Block
	}
	all := map[string]bool{}
	for h := range perHandle {
		all[h] = true
	}
	for h := range recorded {
		all[h] = true
	}
	hs := make([]string, 0, len(all))
	for h := range all {
		hs = append(hs, h)
	}
	sort.Strings(hs)
	for _, h := range hs {
		cidrs := map[string]bool{}
		for c := range perHandle[h] {
			cidrs[c] = true
		}
		for c := range recorded[h] {
			cidrs[c] = true
		}
		cs := make([]string, 0, len(cidrs))
		for c := range cidrs {
			cs = append(cs, c)
		}
		sort.Strings(cs)
		for _, c := range cs {
			inBlock, inHandle := perHandle[h][c], recorded[h][c]
			r.Check("handle_not_below_block", inHandle >= inBlock,
				"handle %q records %d addresses in block %s but the block holds %d for it (addresses stranded)", h, inHandle, c, inBlock)
			if !o.taintedH[h] {
				r.Check("handle_agrees_with_block", inHandle == inBlock,
					"handle %q records %d addresses in block %s but the block holds %d for it; no operation on this handle crashed or saw a datastore error", h, inHandle, c, inBlock)
			} else {
				r.Probe("handle_tainted_by_fault")
			}
		}
	}
}

func sortedBlockKeys(m map[string]*blockShadow) []string {
	ks := make([]string, 0, len(m))
	for k := range m {
		ks = append(ks, k)
	}
	sort.Strings(ks)
	return ks
}

func (o *oracle) fingerprint() string {
	var sb strings.Builder
	for _, c := range sortedBlockKeys(o.blocks) {
		b := o.blocks[c]
		fmt.Fprintf(&sb, "%s[%s]", c, b.affinity)
		for _, st := range b.ords {
			fmt.Fprintf(&sb, "%d%s,", st.kind, st.handle)
		}
	}
	for _, k := range sortedAffKeys(o.aff) {
		fmt.Fprintf(&sb, "|%s=%s", k, o.affState(k))
	}
	return sb.String()
}
