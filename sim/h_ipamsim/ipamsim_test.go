package h_ipamsim

import (
	"context"
	"fmt"
	"testing"
	"testing/synctest"
	"time"

	v3 "github.com/projectcalico/api/pkg/apis/projectcalico/v3"

	"github.com/projectcalico/calico/libcalico-go/lib/backend/model"
	"github.com/projectcalico/calico/libcalico-go/lib/ipam"

	"verifsim/core"
	"verifsim/sched"
)

func TestSim(t *testing.T) {
	core.Main(t, "ipamsim", []string{"C19", "C20", "C21", "C22"}, func(r *core.R) {
		synctest.Test(t, func(t *testing.T) { run(r) })
	})
}

func run(r *core.R) {
	r.FaultDecl("conflict", "error_before", "crash_before", "crash_after", "clock_jump", "stall")
	r.ProbeDecl("affinity_confirmed", "released", "reused_after_cooldown", "block_created", "block_deleted", "borrowed_from_non_affine_block",
		"autoassign_acked", "autoassign_empty", "assignip_acked", "assignip_without_handle", "observed_release_rejected", "handle_tainted_by_fault", "restart", "liveness_checked",
		"concurrent_same_host", "reclaim_of_foreign_empty_block_started", "owner_revives_claim_marked_for_deletion",
		"confirmed_claim_without_block", "opportunist_claim", "release_interrupted_after_pending_deletion")
	w := newWorld(r)
	w.or = newOracle(w)
	w.st.OnWrite = append(w.st.OnWrite, w.or.onWrite)
	src := r.Src

	// swarm: operation mix and fault rates
	weights := make([]int, numOpKinds)
	weights[opAutoAssign] = 30
	weights[opAssignIP] = src.Intn(10, "w_assignip")
	weights[opReleaseOwn] = 8 + src.Intn(14, "w_relown")
	weights[opReleaseObserved] = src.Intn(8, "w_relobs")
	weights[opReleaseByHandle] = src.Intn(10, "w_relh")
	weights[opObserve] = weights[opReleaseObserved]
	weights[opClaimAffinity] = src.Intn(5, "w_claim")
	weights[opReleaseAffinity] = src.Intn(5, "w_relaff")
	weights[opReleaseHostAffinities] = src.Intn(4, "w_relhost")
	weights[opEnsureBlock] = src.Intn(3, "w_ensure")
	weights[opIPsByHandle] = src.Intn(3, "w_ipsbyh")
	if w.fifo {
		weights[opAssignIP] = 6 + src.Intn(10, "w_assignip_f")
		weights[opReleaseOwn] = 20 + src.Intn(14, "w_relown_f")
		weights[opClaimAffinity], weights[opReleaseAffinity], weights[opReleaseHostAffinities], weights[opEnsureBlock] = 0, 0, 0, 0
	}
	if w.staleRel {
		weights[opAssignIP] = src.Intn(4, "w_assignip_s")
		weights[opReleaseOwn] = 25 + src.Intn(12, "w_relown_s")
		weights[opClaimAffinity], weights[opReleaseAffinity], weights[opReleaseHostAffinities], weights[opEnsureBlock] = 0, 0, 0, 0
	}
	capAsserted := w.maxBlocks > 0
	callersPerHost := src.Range(1, 2, "callers_per_host")
	w.capAsserted = capAsserted
	if capAsserted {
		// the per-host cap is promised for serialised callers that go through auto-assignment only (DESIGN.md C20)
		weights[opAssignIP], weights[opClaimAffinity], weights[opEnsureBlock] = 0, 0, 0
		callersPerHost = 1
		if r.Armed("C20") {
			// releases of the host's own affinities (interrupted ones leave a block the host still holds)
			weights[opReleaseAffinity] += 6
			weights[opReleaseHostAffinities] += 3
		}
	}
	pConflict := src.Intn(120, "p_conflict")
	pError := src.Intn(40, "p_error")
	pCrash := src.Intn(25, "p_crash")
	pJump := src.Intn(60, "p_jump")
	switch src.Intn(4, "fault_profile") {
	case 0: // fault-free apart from real concurrency
		pConflict, pError, pCrash = 0, 0, 0
	case 1: // conflicts only
		pError, pCrash = 0, 0
	}
	r.Cfg("p_conflict", pConflict)
	r.Cfg("p_error", pError)
	r.Cfg("p_crash", pCrash)
	r.Cfg("callers_per_host", callersPerHost)

	opsPer := src.Range(3, 14, "ops_per_actor")
	if w.fifo {
		opsPer = src.Range(10, 24, "ops_per_actor_f")
	}
	if w.staleRel {
		opsPer = src.Range(10, 22, "ops_per_actor_s")
		if !capAsserted {
			callersPerHost = 2
		}
	}
	mk := func(name, host string) *actorState {
		a := &actorState{w: w, name: name, host: host, client: w.newClient()}
		a.sa = w.s.NewActor(name)
		w.actors[name] = a
		w.order = append(w.order, a)
		return a
	}
	for _, h := range w.hosts {
		for c := 0; c < callersPerHost; c++ {
			a := mk(fmt.Sprintf("%s.t%d", h, c), h)
			a.script = w.genScript(opsPer, weights)
		}
	}
	if callersPerHost > 1 {
		r.Probe("concurrent_same_host")
	}
	if src.Chance(500, "admin") {
		a := mk("admin", "")
		a.isAdmin = true
		aw := make([]int, numOpKinds)
		aw[opAdmin] = 1
		a.script = w.genScript(src.Range(1, 5, "admin_ops"), aw)
	}

	w.s.Policy = func(q *sched.Request) sched.Fault {
		a := w.actors[q.Actor.Name]
		if a == nil || a.isAdmin {
			return sched.None
		}
		f := sched.None
		if w.relMarked[q.Actor.Name] && q.Write && w.s.FaultsOn {
			// directed: a release of the host's own affinity is interrupted right after it marked the claim
			// pendingDeletion, before the block is deleted or stripped (transient error or crash of the releaser)
			delete(w.relMarked, q.Actor.Name)
			if (pError > 0 || pCrash > 0) && src.Chance(350, "f_interrupt_release") {
				f = sched.ErrorBefore
				if pCrash > 0 && src.Chance(400, "f_interrupt_release_crash") {
					f = sched.CrashBefore
				}
				r.Probe("release_interrupted_after_pending_deletion")
			}
		}
		if f != sched.None {
			// chosen above
		} else if q.Write && src.Chance(pConflict, "f_conflict") && (q.Op == "update" || q.Op == "delete") {
			f = sched.Conflict
		} else if src.Chance(pError, "f_error") {
			f = sched.ErrorBefore
		} else if src.Chance(pCrash, "f_crash") {
			if q.Write && src.Chance(500, "f_crash_after") {
				f = sched.CrashAfter
			} else {
				f = sched.CrashBefore
			}
		}
		if f != sched.None && f != sched.Conflict && a.cur != nil {
			a.cur.faulted = true
		}
		return f
	}
	if w.contention {
		pJump = 40 + src.Intn(100, "p_jump_c")
	}
	w.s.Stall = func(q *sched.Request) int {
		// a slow node: hold back a write (block, affinity or handle: the steps of a claim, confirm, reclaim or
		// release) while the other hosts carry on
		if w.contention && q.Write && src.Chance(150, "stall_claim") {
			return src.Range(3, 40, "stall_len")
		}
		if c := w.reclaiming[q.Actor.Name]; c != "" && q.Write && q.Op == "delete" {
			// directed: a reclaimer that has marked a foreign claim for deletion is held back just before it deletes
			// the block, so that the owner's concurrent operations land inside that window
			delete(w.reclaiming, q.Actor.Name)
			if src.Chance(700, "stall_reclaimer") {
				r.Fault("stall")
				return src.Range(8, 40, "stall_len_r")
			}
		}
		if w.staleRel && src.Chance(80, "stall_any") {
			return src.Range(2, 25, "stall_len_s")
		}
		return 0
	}
	w.s.TimeJump = func() time.Duration {
		if !src.Chance(pJump, "t_jump") {
			return 0
		}
		r.Fault("clock_jump")
		// whole seconds only: stored timestamps have one-second resolution
		return time.Duration([]int{1, 3, 10, 45, 90, 400}[src.Intn(6, "t_jump_len")]) * time.Second
	}

	// restarts: when a caller has crashed, a fresh process for the same host may start later
	restarts := 0
	opportunists := 0
	w.s.OnStep = func(step int) {
		// opportunist: a confirmed claim without a block was seen (oracle.checkAffinities); another host now
		// claims that block in one atomic operation
		for len(w.oppQueue) > 0 && opportunists < 2 {
			q := w.oppQueue[0]
			w.oppQueue = w.oppQueue[1:]
			if k := "host:" + q.owner + "|" + q.cidr; w.or.affState(k) != string(model.StateConfirmed) || w.or.blocks[q.cidr] != nil {
				continue // the state has moved on
			}
			host := ""
			for _, h := range w.hosts {
				if h != q.owner {
					host = h
					break
				}
			}
			if host == "" {
				continue
			}
			opportunists++
			r.Probe("opportunist_claim")
			a := mk(fmt.Sprintf("opp%d", opportunists), host)
			a.sa.Direct = true
			a.claimDirect(sched.WithActor(context.Background(), a.sa), q.cidr)
			a.sa.Done = true
		}
		w.oppQueue = nil
		if !w.s.FaultsOn || restarts >= 3 {
			return
		}
		for _, a := range w.order {
			if a.sa.Crashed && a.sa.Done && !a.isAdmin && !a.restarted && src.Chance(300, "restart") {
				restarts++
				r.Probe("restart")
				n := mk(a.name+"'", a.host)
				n.script = w.genScript(src.Range(1, 6, "restart_ops"), weights)
				n.handles = append([]string(nil), a.handles...) // the new process knows the same containers
				n.nextH = a.nextH + 100
				n.acquired = append([]acquired(nil), a.acquired...)
				r.Op("restart %s as %s", a.name, n.name)
				w.s.Go(n.sa, n.run)
				a.restarted = true
				return
			}
		}
	}

	for _, a := range w.order {
		w.s.Go(a.sa, a.run)
	}
	maxSteps := 600 + 400*len(w.order)
	if !w.s.Run(maxSteps) {
		r.Violation("sut_stuck", "operations did not finish within %d scheduling steps after faults stopped", 4*maxSteps+2000)
	}
	r.SimTime(w.now())

	// ---- quiescence: faults off
	w.s.FaultsOn = false
	if r.Armed("C19") {
		w.or.handleAgreement()
	}
	w.liveness()
	r.Fingerprint(w.or.fingerprint())
}

// liveness: once faults have stopped, a fresh request on a surviving host succeeds if an
// address it is entitled to is free (asserted only in the configuration where the library
// searches every block of every allowed pool: non-strict affinity with auto-allocation).
func (w *world) liveness() {
	r := w.r
	if w.strict || !w.autoAlloc {
		return
	}
	host := w.hosts[0]
	// advance past every cooldown and past the empty-block reclaim age
	d := time.Duration(w.cooldown+120) * time.Second
	time.Sleep(d)
	r.AddSimTime(d)
	free := 0
	for _, pv := range w.currentPools4() {
		if pv.disabled || pv.manual || !hasUse(pv.uses, v3.IPPoolAllowedUseWorkload) || !selMatches(pv.nodeSel, w.hostLabels[host]) || pv.nsSel != "" {
			continue
		}
		for _, c := range blockCIDRs(pv) {
			b := w.or.blocks[c.String()]
			n := 1 << uint(32-pv.blockSize)
			for i := 0; i < n; i++ {
				ip := nthIP(&c.IPNet, i)
				if w.reservedSometime(ip, w.seq, w.seq) {
					continue
				}
				if b == nil || b.ords[i].kind != kAlloc {
					free++
				}
			}
		}
	}
	a := &actorState{w: w, name: "probe", host: host, client: w.newClient()}
	a.sa = w.s.NewActor("probe")
	w.actors["probe"] = a
	var got []string
	var err error
	w.s.Go(a.sa, func(ctx context.Context) {
		op := a.begin(opAutoAssign, "AutoAssign(num4=1 handle=probe-c0 use=Workload) [liveness probe]")
		op.handle, op.handles = "probe-c0", []string{"probe-c0"}
		var v4 *ipam.IPAMAssignments
		v4, _, err = a.client.AutoAssign(ctx, ipam.AutoAssignArgs{Num4: 1, HandleID: strPtr("probe-c0"), Hostname: host, IntendedUse: v3.IPPoolAllowedUseWorkload})
		if v4 != nil {
			got = ipsOf(v4.IPs)
		}
		a.end(op, fmt.Sprintf("%v %s", got, errStr(err)))
	})
	if !w.s.Run(5000) {
		r.Violation("sut_stuck", "fault-free liveness probe did not finish")
	}
	r.Probe("liveness_checked")
	if r.Armed("C19") || r.Armed("C20") {
		if free > 0 {
			r.Check("liveness_after_faults", err == nil && len(got) == 1, "with faults stopped and %d eligible free addresses, AutoAssign on %s returned %v err=%v", free, host, got, err)
		} else {
			r.Check("no_address_when_exhausted", len(got) == 0, "no eligible free address exists for %s, yet AutoAssign returned %v", host, got)
		}
	}
}
