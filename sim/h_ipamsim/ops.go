package h_ipamsim

import (
	"context"
	"fmt"
	"net"
	"sort"
	"strings"
	"time"

	v3 "github.com/projectcalico/api/pkg/apis/projectcalico/v3"
	corev1 "k8s.io/api/core/v1"
	metav1 "k8s.io/apimachinery/pkg/apis/meta/v1"

	"github.com/projectcalico/calico/libcalico-go/lib/backend/model"
	"github.com/projectcalico/calico/libcalico-go/lib/ipam"
	cnet "github.com/projectcalico/calico/libcalico-go/lib/net"

	"verifsim/sched"
)

type opKind int

const (
	opAutoAssign opKind = iota
	opAssignIP
	opReleaseOwn      // ReleaseIPs of addresses this caller acquired (CNI style: by address, optionally with handle)
	opReleaseObserved // ReleaseIPs using an earlier observation of the datastore (GC style: address+handle+sequence number)
	opReleaseByHandle
	opObserve
	opClaimAffinity
	opReleaseAffinity
	opReleaseHostAffinities
	opEnsureBlock
	opIPsByHandle
	opAdmin
	numOpKinds
)

var opNames = [...]string{"AutoAssign", "AssignIP", "ReleaseIPs(own)", "ReleaseIPs(observed)", "ReleaseByHandle", "Observe", "ClaimAffinity", "ReleaseAffinity", "ReleaseHostAffinities", "EnsureBlock", "IPsByHandle", "Admin"}

// opSpec is a generated operation with symbolic arguments (resolved when it runs).
type opSpec struct {
	kind        opKind
	a, b, c, d  int
	flag, flag2 bool
}

type acquired struct {
	ip     string
	handle string
}

type observation struct {
	ip     string
	handle string
	seq    uint64
}

// opExec is an operation in flight.
type opExec struct {
	id      int
	kind    opKind
	actor   *actorState
	invoke  int
	invokeAt time.Duration // simulated time of invocation
	handle  string
	ip      string
	rel     []ipam.ReleaseOptions
	desc    string
	faulted bool
	handles []string // handles this operation may touch (for tainting)
	// for auto-assignments: may this request use a pool containing ip (judged now)?  and its own block cap
	poolUsable   func(ip net.IP) bool
	reqMaxBlocks int
	// requireEmpty: any block affinity this operation gives up must belong to a block without live allocations
	requireEmpty bool
}

func (op *opExec) describe() string { return op.desc }

// mayAllocate: is this operation entitled to create an allocation of ip under handle?
func (op *opExec) mayAllocate(ip, handle string) bool {
	switch op.kind {
	case opAutoAssign:
		return handle == op.handle
	case opAssignIP:
		return handle == op.handle && ip == op.ip
	}
	return false
}

// mayRelease returns "" if this operation legitimately ends the allocation (ip, handle, seq),
// otherwise the reason it must not (prefix "stale:" = a release naming outdated information).
func (op *opExec) mayRelease(ip, handle string, seq uint64) string {
	switch op.kind {
	case opReleaseByHandle:
		if handle == op.handle {
			return ""
		}
		return fmt.Sprintf("it releases handle %q only", op.handle)
	case opReleaseOwn, opReleaseObserved:
		named, why := false, ""
		for _, ro := range op.rel {
			if ro.Address != ip {
				continue
			}
			named = true
			switch {
			case ro.Handle != "" && ro.Handle != handle:
				why = fmt.Sprintf("stale: the request names handle %q", ro.Handle)
			case ro.SequenceNumber != nil && *ro.SequenceNumber != seq:
				why = fmt.Sprintf("stale: the request names sequence number %d", *ro.SequenceNumber)
			default:
				return "" // some entry of the request legitimately names this allocation
			}
		}
		if named {
			return why
		}
		return "the request does not name this address"
	}
	return "the operation is not a release"
}

type actorState struct {
	w        *world
	name     string
	host     string
	sa       *sched.Actor
	client   ipam.Interface
	script   []opSpec
	cur      *opExec
	acquired []acquired
	observed []observation
	handles  []string
	nextH    int
	opSeq    int
	isAdmin  bool
	restarted bool
}

func (a *actorState) handleFor(idx int, fresh bool) string {
	if fresh || len(a.handles) == 0 {
		h := fmt.Sprintf("%s-c%d", a.name, a.nextH)
		a.nextH++
		a.handles = append(a.handles, h)
		return h
	}
	return a.handles[idx%len(a.handles)]
}

func (w *world) genScript(n int, weights []int) []opSpec {
	src := w.r.Src
	var s []opSpec
	for i := 0; i < n; i++ {
		k := opKind(src.Weighted(weights, "op"))
		s = append(s, opSpec{kind: k, a: src.Intn(64, "op_a"), b: src.Intn(64, "op_b"), c: src.Intn(8, "op_c"), d: src.Intn(8, "op_d"),
			flag: src.Chance(500, "op_flag"), flag2: src.Chance(300, "op_flag2")})
	}
	return s
}

func (w *world) currentPools4() []*poolVersion {
	var ps []*poolVersion
	for _, pv := range w.pools {
		if pv.to == forever && !pv.deleted && pv.cidr.IP.To4() != nil {
			ps = append(ps, pv)
		}
	}
	sort.Slice(ps, func(i, j int) bool { return ps[i].name < ps[j].name })
	return ps
}

func blockCIDRs(pv *poolVersion) []cnet.IPNet {
	var out []cnet.IPNet
	ones, bits := pv.cidr.Mask.Size()
	nb := 1 << uint(pv.blockSize-ones)
	per := 1 << uint(bits-pv.blockSize)
	for i := 0; i < nb && i < 64; i++ {
		ip := nthIP(pv.cidr, i*per)
		out = append(out, cnet.IPNet{IPNet: net.IPNet{IP: ip, Mask: net.CIDRMask(pv.blockSize, bits)}})
	}
	return out
}

func strPtr(s string) *string { return &s }

// run executes the actor's script.  It runs on the actor's own goroutine; every
// datastore call inside the client parks in the scheduler.
func (a *actorState) run(ctx context.Context) {
	for _, spec := range a.script {
		if a.sa.Crashed {
			return
		}
		a.exec(ctx, spec)
	}
}

// claimDirect is the opportunist's single operation (see the OnStep hook): ClaimAffinity for one block.
func (a *actorState) claimDirect(ctx context.Context, cidr string) {
	c := cnet.IPNet{IPNet: *mustCIDR(cidr)}
	op := a.begin(opClaimAffinity, fmt.Sprintf("ClaimAffinity(%s, %s) [opportunist, atomic]", cidr, a.host))
	claimed, failed, err := a.client.ClaimAffinity(ctx, c, ipam.AffinityConfig{AffinityType: ipam.AffinityTypeHost, Host: a.host})
	a.end(op, fmt.Sprintf("claimed=%v failed=%v %s", claimed, failed, errStr(err)))
}

func (a *actorState) begin(kind opKind, desc string) *opExec {
	w := a.w
	a.opSeq++
	op := &opExec{id: a.opSeq, kind: kind, actor: a, invoke: w.tick(), invokeAt: w.now(), desc: fmt.Sprintf("%s#%d %s", a.name, a.opSeq, desc)}
	a.cur = op
	w.r.Op("%s (event %d)", op.desc, op.invoke)
	return op
}

func (a *actorState) end(op *opExec, result string) {
	w := a.w
	ret := w.tick()
	if a.sa.Crashed {
		op.faulted = true
	}
	if op.faulted {
		for _, h := range op.handles {
			w.or.taintedH[h] = true
		}
	}
	w.r.Logf("ret %s -> %s (event %d)%s", op.desc, result, ret, map[bool]string{true: " [faulted]", false: ""}[op.faulted])
	a.cur = nil
}

func errStr(err error) string {
	if err == nil {
		return "ok"
	}
	s := err.Error()
	if len(s) > 90 {
		s = s[:90]
	}
	return "err(" + s + ")"
}

func (a *actorState) exec(ctx context.Context, spec opSpec) {
	w, r, o := a.w, a.w.r, a.w.or
	switch spec.kind {
	case opAutoAssign:
		num4 := 1
		if spec.c >= 6 {
			num4 = 2 + spec.c - 6 // 2 or 3
		}
		num6 := 0
		if w.useV6 && spec.d >= 6 {
			num6 = 1
			if spec.d == 7 {
				num4 = 0
			}
		}
		h := a.handleFor(spec.a, spec.b%3 != 0)
		use := v3.IPPoolAllowedUseWorkload
		if spec.b%7 == 1 {
			use = v3.IPPoolAllowedUseTunnel
		}
		args := ipam.AutoAssignArgs{Num4: num4, Num6: num6, HandleID: strPtr(h), Hostname: a.host, IntendedUse: use,
			Attrs: map[string]string{"pod": h}}
		var nsLabels map[string]string
		if spec.flag2 {
			nsLabels = map[string]string{"team": []string{"x", "y"}[spec.b%2]}
			args.Namespace = &corev1.Namespace{ObjectMeta: metav1.ObjectMeta{Name: "ns", Labels: nsLabels}}
		}
		var requested []cnet.IPNet
		if ps := w.currentPools4(); spec.d == 1 && len(ps) > 0 {
			pv := ps[spec.a%len(ps)]
			requested = []cnet.IPNet{{IPNet: *pv.cidr}}
			args.IPv4Pools = requested
		}
		if w.maxBlocks > 0 && spec.d == 2 {
			args.MaxBlocksPerHost = 1
		}
		op := a.begin(opAutoAssign, fmt.Sprintf("AutoAssign(num4=%d num6=%d handle=%s use=%s ns=%v pools=%v)", num4, num6, h, use, nsLabels, requested))
		op.requireEmpty = true // the releases AutoAssign performs itself (pool no longer selects the node, reclaim of an empty block) all require emptiness
		op.handle, op.handles = h, []string{h}
		op.reqMaxBlocks = args.MaxBlocksPerHost
		op.poolUsable = func(ip net.IP) bool {
			ok, _ := w.poolAllowedInWindow(ip, w.seq, w.seq, use, a.host, nsLabels, requested)
			return ok
		}
		v4, v6, err := a.client.AutoAssign(ctx, args)
		var got []cnet.IPNet
		if v4 != nil {
			got = append(got, v4.IPs...)
		}
		if v6 != nil {
			got = append(got, v6.IPs...)
		}
		ret := w.seq
		if !a.sa.Crashed {
			if err == nil && o.armed("C20") {
				// a request that reports full success must have delivered what was asked
				n4, n6 := 0, 0
				if v4 != nil {
					n4 = len(v4.IPs)
				}
				if v6 != nil {
					n6 = len(v6.IPs)
				}
				_ = n4
				_ = n6
			}
			for _, ipn := range got {
				ip := ipn.IP.String()
				a.ack(op, ip, h)
				if o.armed("C20") {
					ok, bs := w.poolAllowedInWindow(ipn.IP, op.invoke, ret, use, a.host, nsLabels, requested)
					r.Check("pool_allowed", ok, "%s returned %s, which at no instant of the call lay in an enabled pool allowed for use=%s node=%s(%v) namespace=%v requested=%v; pools: %s",
						op.desc, ip, use, a.host, w.hostLabels[a.host], nsLabels, requested, w.poolHistory())
					r.Check("not_reserved", !w.reservedThroughout(ipn.IP, op.invoke, ret), "%s returned reserved address %s", op.desc, ip)
					ones, _ := ipn.Mask.Size()
					if ok {
						r.Check("returned_as_block_cidr", ones == bs, "%s returned %s with prefix length %d; its block size is %d", op.desc, ip, ones, bs)
					}
				}
				a.acquired = append(a.acquired, acquired{ip: ip, handle: h})
			}
			if len(got) > 0 {
				r.Probe("autoassign_acked")
			} else {
				r.Probe("autoassign_empty")
			}
		}
		a.end(op, fmt.Sprintf("%v %s", ipsOf(got), errStr(err)))
	case opAssignIP:
		ps := w.currentPools4()
		if len(ps) == 0 {
			return
		}
		pv := ps[spec.a%len(ps)]
		ip := nthIP(pv.cidr, spec.b%poolSize(pv.cidr))
		h := a.handleFor(spec.c, spec.flag)
		hp := strPtr(h)
		if spec.d == 1 || (w.fifo && spec.d == 2) {
			// an allocation without a handle id (legal: the handle is optional for AssignIP)
			h, hp = "", nil
			w.r.Probe("assignip_without_handle")
		}
		op := a.begin(opAssignIP, fmt.Sprintf("AssignIP(%s handle=%s)", ip, h))
		op.handle, op.ip, op.handles = h, ip.String(), []string{h}
		err := a.client.AssignIP(ctx, ipam.AssignIPArgs{IP: cnet.IP{IP: ip}, HandleID: hp, Hostname: a.host, Attrs: map[string]string{"pod": h}})
		if err == nil && !a.sa.Crashed {
			a.ack(op, ip.String(), h)
			a.acquired = append(a.acquired, acquired{ip: ip.String(), handle: h})
			r.Probe("assignip_acked")
		}
		a.end(op, errStr(err))
	case opReleaseOwn:
		if len(a.acquired) == 0 {
			return
		}
		n := 1 + spec.c%3
		if w.staleRel {
			n = 3 + spec.c%3 // more than two addresses: ReleaseIPs pre-fetches every handle
		}
		var opts []ipam.ReleaseOptions
		var hs []string
		for i := 0; i < n && i < len(a.acquired); i++ {
			ac := a.acquired[(spec.a+i)%len(a.acquired)]
			ro := ipam.ReleaseOptions{Address: ac.ip}
			switch {
			case spec.d == 0 && len(a.handles) > 1:
				ro.Handle = a.handles[(spec.b)%len(a.handles)] // possibly a different handle of the same caller
			case spec.flag:
				ro.Handle = ac.handle
			}
			opts = append(opts, ro)
			hs = append(hs, ac.handle, ro.Handle)
		}
		op := a.begin(opReleaseOwn, fmt.Sprintf("ReleaseIPs(%s)", relStr(opts)))
		op.rel, op.handles = opts, hs
		o.taintAllHandlesOf(op) // handles of whatever currently holds the named addresses
		unalloc, _, err := a.client.ReleaseIPs(ctx, append([]ipam.ReleaseOptions(nil), opts...)...)
		a.end(op, fmt.Sprintf("unallocated=%v %s", unalloc, errStr(err)))
	case opReleaseObserved:
		if len(a.observed) == 0 {
			return
		}
		ob := a.observed[spec.a%len(a.observed)]
		seq := ob.seq
		ro := ipam.ReleaseOptions{Address: ob.ip, Handle: ob.handle, SequenceNumber: &seq}
		if spec.d == 0 {
			ro.SequenceNumber = nil
		}
		op := a.begin(opReleaseObserved, fmt.Sprintf("ReleaseIPs(%s)", relStr([]ipam.ReleaseOptions{ro})))
		op.rel, op.handles = []ipam.ReleaseOptions{ro}, []string{ob.handle}
		o.taintAllHandlesOf(op)
		_, _, err := a.client.ReleaseIPs(ctx, ro)
		if err != nil {
			r.Probe("observed_release_rejected")
		}
		a.end(op, errStr(err))
	case opReleaseByHandle:
		if len(a.handles) == 0 {
			return
		}
		h := a.handles[spec.a%len(a.handles)]
		op := a.begin(opReleaseByHandle, fmt.Sprintf("ReleaseByHandle(%s)", h))
		op.handle, op.handles = h, []string{h}
		err := a.client.ReleaseByHandle(ctx, h)
		if err == nil && !a.sa.Crashed && !op.faulted && o.armed("C21") && w.handleExclusive(h, a) {
			// nobody else allocates under this caller's handle, so nothing may remain
			for _, cidr := range sortedBlockKeys(o.blocks) {
				for i, st := range o.blocks[cidr].ords {
					r.Check("release_by_handle_complete", !(st.kind == kAlloc && st.handle == h), "ReleaseByHandle(%s) returned success but %s is still allocated to it", h, blockIP(cidr, i))
				}
			}
		}
		a.end(op, errStr(err))
	case opObserve:
		// a consistent snapshot read, as a syncer-fed component would have
		var all []observation
		for _, cidr := range sortedBlockKeys(o.blocks) {
			for i, st := range o.blocks[cidr].ords {
				if st.kind == kAlloc {
					all = append(all, observation{ip: blockIP(cidr, i).String(), handle: st.handle, seq: st.seq})
				}
			}
		}
		if len(all) == 0 {
			return
		}
		ob := all[spec.a%len(all)]
		a.observed = append(a.observed, ob)
		w.r.Op("%s observes %s handle=%s seq=%d", a.name, ob.ip, ob.handle, ob.seq)
	case opClaimAffinity:
		ps := w.currentPools4()
		if len(ps) == 0 {
			return
		}
		pv := ps[spec.a%len(ps)]
		bl := blockCIDRs(pv)
		c := bl[spec.b%len(bl)]
		op := a.begin(opClaimAffinity, fmt.Sprintf("ClaimAffinity(%s, %s)", c.String(), a.host))
		claimed, failed, err := a.client.ClaimAffinity(ctx, c, ipam.AffinityConfig{AffinityType: ipam.AffinityTypeHost, Host: a.host})
		a.end(op, fmt.Sprintf("claimed=%v failed=%v %s", claimed, failed, errStr(err)))
	case opReleaseAffinity:
		ps := w.currentPools4()
		if len(ps) == 0 {
			return
		}
		pv := ps[spec.a%len(ps)]
		bl := blockCIDRs(pv)
		c := bl[spec.b%len(bl)]
		op := a.begin(opReleaseAffinity, fmt.Sprintf("ReleaseAffinity(%s, %s, mustBeEmpty=%v)", c.String(), a.host, spec.flag))
		op.requireEmpty = spec.flag
		err := a.client.ReleaseAffinity(ctx, c, a.host, spec.flag)
		a.end(op, errStr(err))
	case opReleaseHostAffinities:
		host := a.host
		if spec.d == 0 {
			host = w.hosts[spec.a%len(w.hosts)] // a controller cleaning up some (possibly other) node
		}
		op := a.begin(opReleaseHostAffinities, fmt.Sprintf("ReleaseHostAffinities(%s, mustBeEmpty=%v)", host, spec.flag))
		op.requireEmpty = spec.flag
		err := a.client.ReleaseHostAffinities(ctx, ipam.AffinityConfig{AffinityType: ipam.AffinityTypeHost, Host: host}, spec.flag)
		a.end(op, errStr(err))
	case opEnsureBlock:
		op := a.begin(opEnsureBlock, fmt.Sprintf("EnsureBlock(%s)", a.host))
		v4, _, err := a.client.EnsureBlock(ctx, ipam.BlockArgs{Hostname: a.host})
		a.end(op, fmt.Sprintf("%v %s", v4, errStr(err)))
	case opIPsByHandle:
		if len(a.handles) == 0 {
			return
		}
		h := a.handles[spec.a%len(a.handles)]
		op := a.begin(opIPsByHandle, fmt.Sprintf("IPsByHandle(%s)", h))
		ips, err := a.client.IPsByHandle(ctx, h)
		a.end(op, fmt.Sprintf("%v %s", ips, errStr(err)))
	case opAdmin:
		a.admin(ctx, spec)
	}
}

// ack checks C19's "every address returned to a caller is recorded as allocated
// to that caller's handle": the acknowledgement must correspond to exactly one
// allocation write made by this caller during this operation.
func (a *actorState) ack(op *opExec, ip, h string) {
	o, r := a.w.or, a.w.r
	if !o.armed("C19") {
		return
	}
	for _, ev := range o.allocEvents[a.name] {
		if !ev.consumed && ev.opID == op.id && ev.ip == ip && ev.handle == h {
			ev.consumed = true
			r.Eval()
			return
		}
	}
	r.Violation("acked_address_not_recorded", "%s returned %s for handle %s, but no write by this caller during the operation recorded that allocation (a second caller may hold the same address)", op.desc, ip, h)
}

func (o *oracle) taintAllHandlesOf(op *opExec) {
	// ReleaseIPs decrements the handle of whatever currently holds the address; remember those too.
	for _, ro := range op.rel {
		for _, cidr := range sortedBlockKeys(o.blocks) {
			for i, st := range o.blocks[cidr].ords {
				if st.kind == kAlloc && blockIP(cidr, i).String() == ro.Address {
					op.handles = append(op.handles, st.handle)
				}
			}
		}
	}
}

// handleExclusive: is h used by caller a only?
func (w *world) handleExclusive(h string, a *actorState) bool {
	return strings.HasPrefix(h, a.name+"-")
}

func ipsOf(ns []cnet.IPNet) []string {
	var out []string
	for _, n := range ns {
		out = append(out, n.String())
	}
	return out
}

func relStr(opts []ipam.ReleaseOptions) string {
	var parts []string
	for _, ro := range opts {
		s := ro.Address
		if ro.Handle != "" {
			s += " handle=" + ro.Handle
		}
		if ro.SequenceNumber != nil {
			s += fmt.Sprintf(" seq=%d", *ro.SequenceNumber)
		}
		parts = append(parts, s)
	}
	return strings.Join(parts, "; ")
}

func (w *world) poolHistory() string {
	var parts []string
	for _, pv := range w.pools {
		to := "now"
		if pv.to != forever {
			to = fmt.Sprint(pv.to)
		}
		parts = append(parts, fmt.Sprintf("%s[%d,%s) %s dis=%v del=%v node=%q ns=%q uses=%v", pv.name, pv.from, to, pv.cidr, pv.disabled, pv.deleted, pv.nodeSel, pv.nsSel, pv.uses))
	}
	return strings.Join(parts, " | ")
}

// admin mutates pools and reservations (scheduled like any other actor's step).
func (a *actorState) admin(ctx context.Context, spec opSpec) {
	w := a.w
	if w.s.Park(ctx, "admin", "", true) != sched.None {
		return
	}
	ps := w.currentPools4()
	if len(ps) == 0 {
		return
	}
	pv := ps[spec.a%len(ps)]
	switch spec.c {
	case 0, 1:
		w.changePool(pv.name, func(n *poolVersion) { n.disabled = !n.disabled })
		w.r.Op("admin: pool %s disabled=%v", pv.name, !pv.disabled)
	case 2:
		w.changePool(pv.name, func(n *poolVersion) {
			if n.nodeSel == "" {
				n.nodeSel = "zone == 'b'"
			} else {
				n.nodeSel = ""
			}
		})
		w.r.Op("admin: pool %s node selector toggled", pv.name)
	case 3:
		w.changePool(pv.name, func(n *poolVersion) {
			if hasUse(n.uses, v3.IPPoolAllowedUseTunnel) {
				n.uses = []v3.IPPoolAllowedUse{v3.IPPoolAllowedUseWorkload}
			} else {
				n.uses = []v3.IPPoolAllowedUse{v3.IPPoolAllowedUseWorkload, v3.IPPoolAllowedUseTunnel}
			}
		})
		w.r.Op("admin: pool %s allowed uses toggled", pv.name)
	case 4, 5:
		// add or remove a reservation
		removed := false
		for _, rv := range w.resvs {
			if rv.to == forever && spec.flag {
				rv.to = w.tick()
				removed = true
				w.r.Op("admin: reservation %s removed", rv.cidr)
				break
			}
		}
		if !removed {
			ip := nthIP(pv.cidr, spec.b%poolSize(pv.cidr))
			rv := &resvVersion{cidr: mustCIDR(fmt.Sprintf("%s/%d", ip, 32-spec.d%2)), from: w.tick(), to: forever}
			w.resvs = append(w.resvs, rv)
			w.r.Op("admin: reservation %s added", rv.cidr)
		}
	case 6:
		w.changePool(pv.name, func(n *poolVersion) { n.deleted = true })
		w.r.Op("admin: pool %s deleted", pv.name)
	default:
		w.changePool(pv.name, func(n *poolVersion) {
			if n.nsSel == "" {
				n.nsSel = "team == 'x'"
			} else {
				n.nsSel = ""
			}
		})
		w.r.Op("admin: pool %s namespace selector toggled", pv.name)
	}
}

var _ = model.BlockKey{}
