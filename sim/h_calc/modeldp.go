package h_calc

import (
	"fmt"
	"net/netip"
	"sort"
	"strings"

	googleproto "google.golang.org/protobuf/proto"

	"github.com/projectcalico/calico/felix/calc"
	"github.com/projectcalico/calico/felix/proto"

	"verifsim/core"
)

func mustPrefix(s string) netip.Prefix { return netip.MustParsePrefix(s) }

// modelDP accumulates the dataplane state described by Felix's output stream
// and (when monitor is on) enforces C02's stream invariants on every message.
type modelDP struct {
	r       *core.R
	name    string
	monitor bool // C02 checks armed

	objs    map[string]googleproto.Message // kind|id -> latest message (policies, profiles, endpoints, routes, vteps, ...)
	ipsets  map[string]map[string]bool
	ipsetTy map[string]proto.IPSetUpdate_IPSetType
	inSync  bool
	nEvents int

	feedInSync *bool // has the feed delivered in-sync?

	// per-flush bookkeeping for the tunnel-endpoint / route ordering clause
	flushVTEPAdded    map[string]int // node -> event index at which its VTEP was added in this flush
	flushRouteAddedAt map[string]int // node -> first event index at which a VXLAN route via node was added while VTEP absent
	flushVTEPRemoved  map[string]int
	flushRouteViaNode map[string]map[string]bool // node -> dsts of VXLAN routes currently present

	noFlushBoundaries bool // asynchronous mode: flush boundaries are unknown, the per-flush ordering clause is not judged
}

func newModelDP(r *core.R, name string, monitor bool, feedInSync *bool) *modelDP {
	return &modelDP{r: r, name: name, monitor: monitor, objs: map[string]googleproto.Message{}, ipsets: map[string]map[string]bool{},
		ipsetTy: map[string]proto.IPSetUpdate_IPSetType{}, feedInSync: feedInSync}
}

func polID(id *proto.PolicyID) string {
	return fmt.Sprintf("%s/%s/%s", id.GetKind(), id.GetNamespace(), id.GetName())
}

func wepID(id *proto.WorkloadEndpointID) string {
	return fmt.Sprintf("%s/%s/%s", id.GetOrchestratorId(), id.GetWorkloadId(), id.GetEndpointId())
}

func ruleIPSets(rules []*proto.Rule) []string {
	var out []string
	for _, r := range rules {
		out = append(out, r.SrcIpSetIds...)
		out = append(out, r.DstIpSetIds...)
		out = append(out, r.NotSrcIpSetIds...)
		out = append(out, r.NotDstIpSetIds...)
		out = append(out, r.SrcNamedPortIpSetIds...)
		out = append(out, r.DstNamedPortIpSetIds...)
		out = append(out, r.NotSrcNamedPortIpSetIds...)
		out = append(out, r.NotDstNamedPortIpSetIds...)
		out = append(out, r.DstIpPortSetIds...)
	}
	return out
}

func (d *modelDP) viol(oracle, format string, a ...interface{}) {
	if d.monitor {
		d.r.Violation(oracle, "["+d.name+" event %d] "+format, append([]interface{}{d.nEvents}, a...)...)
	}
}

func (d *modelDP) check(oracle string, ok bool, format string, a ...interface{}) {
	if !d.monitor {
		return
	}
	d.r.Eval()
	if !ok {
		d.viol(oracle, format, a...)
	}
}

// referencedIPSets lists every IP set id referenced by a stored policy or profile.
func (d *modelDP) ipsetReferencedBy(id string) string {
	for _, k := range sortedKeys(d.objs) {
		switch m := d.objs[k].(type) {
		case *proto.ActivePolicyUpdate:
			for _, s := range append(ruleIPSets(m.Policy.InboundRules), ruleIPSets(m.Policy.OutboundRules)...) {
				if s == id {
					return k
				}
			}
		case *proto.ActiveProfileUpdate:
			for _, s := range append(ruleIPSets(m.Profile.InboundRules), ruleIPSets(m.Profile.OutboundRules)...) {
				if s == id {
					return k
				}
			}
		}
	}
	return ""
}

func tierPolicies(tiers []*proto.TierInfo) []string {
	var out []string
	for _, t := range tiers {
		for _, p := range t.IngressPolicies {
			out = append(out, polID(p))
		}
		for _, p := range t.EgressPolicies {
			out = append(out, polID(p))
		}
	}
	return out
}

func (d *modelDP) endpointRefs(m googleproto.Message) (pols, profs []string) {
	switch e := m.(type) {
	case *proto.WorkloadEndpointUpdate:
		return tierPolicies(e.Endpoint.Tiers), e.Endpoint.ProfileIds
	case *proto.HostEndpointUpdate:
		ps := tierPolicies(e.Endpoint.Tiers)
		ps = append(ps, tierPolicies(e.Endpoint.UntrackedTiers)...)
		ps = append(ps, tierPolicies(e.Endpoint.PreDnatTiers)...)
		ps = append(ps, tierPolicies(e.Endpoint.ForwardTiers)...)
		return ps, e.Endpoint.ProfileIds
	}
	return nil, nil
}

func (d *modelDP) whoReferences(kind, id string) string {
	for _, k := range sortedKeys(d.objs) {
		pols, profs := d.endpointRefs(d.objs[k])
		list := pols
		if kind == "profile" {
			list = profs
		}
		for _, x := range list {
			if x == id {
				return k
			}
		}
	}
	return ""
}

func isVXLANRoute(m *proto.RouteUpdate) bool {
	return m.IpPoolType == proto.IPPoolType_VXLAN && m.DstNodeName != "" && (m.Types&proto.RouteType_REMOTE_WORKLOAD != 0 || m.Types&proto.RouteType_REMOTE_TUNNEL != 0) && !m.SameSubnet
}

// vxlanRouteVia returns the destination of some VXLAN route currently programmed via node ("" if none).
func (d *modelDP) vxlanRouteVia(node string) string {
	for _, k := range sortedKeys(d.objs) {
		if r, ok := d.objs[k].(*proto.RouteUpdate); ok && isVXLANRoute(r) && r.DstNodeName == node {
			return r.Dst
		}
	}
	return ""
}

// startFlush resets the per-flush ordering bookkeeping.
func (d *modelDP) startFlush() {
	d.flushVTEPAdded, d.flushRouteAddedAt, d.flushVTEPRemoved = map[string]int{}, map[string]int{}, map[string]int{}
}

// endFlush evaluates the "tunnel endpoint before route" ordering within one flush.
func (d *modelDP) endFlush() {
	if !d.monitor || d.noFlushBoundaries {
		return
	}
	for _, node := range sortedKeys(d.flushRouteAddedAt) {
		if at, ok := d.flushVTEPAdded[node]; ok && at > d.flushRouteAddedAt[node] {
			d.viol("vtep_before_route", "a VXLAN route via node %s was emitted at event %d, before that node's tunnel endpoint was added at event %d of the same flush", node, d.flushRouteAddedAt[node], at)
		}
	}
	d.r.Eval()
}

func (d *modelDP) OnEvent(event interface{}) {
	d.nEvents++
	if d.flushVTEPAdded == nil {
		d.startFlush()
	}
	if d.r != nil && d.monitor {
		d.r.Logf("  <- %s %T", d.name, event)
	}
	switch m := event.(type) {
	case *calc.DatastoreNotReady:
	case *proto.InSync:
		d.check("insync_not_before_datastore", *d.feedInSync, "in-sync emitted before the datastore reported in-sync")
		d.inSync = true
	case *proto.IPSetUpdate:
		seen := map[string]bool{}
		for _, mem := range m.Members {
			d.check("ipset_update_no_duplicates", !seen[mem], "IP set %s created with duplicate member %s", m.Id, mem)
			seen[mem] = true
		}
		d.ipsets[m.Id] = seen
		d.ipsetTy[m.Id] = m.Type
	case *proto.IPSetDeltaUpdate:
		set, ok := d.ipsets[m.Id]
		d.check("ipset_delta_to_existing_set", ok, "delta update for IP set %s, which does not exist", m.Id)
		if !ok {
			set = map[string]bool{}
			d.ipsets[m.Id] = set
		}
		for _, mem := range m.AddedMembers {
			d.check("ipset_delta_adds_absent", !set[mem], "IP set %s: delta adds member %s which is already present", m.Id, mem)
			set[mem] = true
		}
		for _, mem := range m.RemovedMembers {
			d.check("ipset_delta_removes_present", set[mem], "IP set %s: delta removes member %s which is not present", m.Id, mem)
			delete(set, mem)
		}
	case *proto.IPSetRemove:
		_, ok := d.ipsets[m.Id]
		d.check("remove_names_existing", ok, "IP set %s removed but it does not exist", m.Id)
		if by := d.ipsetReferencedBy(m.Id); by != "" {
			d.viol("ipset_removed_while_referenced", "IP set %s removed while %s still references it", m.Id, by)
		}
		delete(d.ipsets, m.Id)
		delete(d.ipsetTy, m.Id)
	case *proto.ActivePolicyUpdate:
		for _, s := range append(ruleIPSets(m.Policy.InboundRules), ruleIPSets(m.Policy.OutboundRules)...) {
			_, ok := d.ipsets[s]
			d.check("ipset_before_policy", ok, "policy %s references IP set %s, which has not been sent", polID(m.Id), s)
		}
		d.objs["policy|"+polID(m.Id)] = m
	case *proto.ActivePolicyRemove:
		k := "policy|" + polID(m.Id)
		_, ok := d.objs[k]
		d.check("remove_names_existing", ok, "policy %s removed but it is not active", polID(m.Id))
		if by := d.whoReferences("policy", polID(m.Id)); by != "" {
			d.viol("policy_removed_while_referenced", "policy %s removed while %s still references it", polID(m.Id), by)
		}
		delete(d.objs, k)
	case *proto.ActiveProfileUpdate:
		for _, s := range append(ruleIPSets(m.Profile.InboundRules), ruleIPSets(m.Profile.OutboundRules)...) {
			_, ok := d.ipsets[s]
			d.check("ipset_before_policy", ok, "profile %s references IP set %s, which has not been sent", m.Id.Name, s)
		}
		d.objs["profile|"+m.Id.Name] = m
	case *proto.ActiveProfileRemove:
		k := "profile|" + m.Id.Name
		_, ok := d.objs[k]
		d.check("remove_names_existing", ok, "profile %s removed but it is not active", m.Id.Name)
		if by := d.whoReferences("profile", m.Id.Name); by != "" {
			d.viol("profile_removed_while_referenced", "profile %s removed while %s still references it", m.Id.Name, by)
		}
		delete(d.objs, k)
	case *proto.WorkloadEndpointUpdate, *proto.HostEndpointUpdate:
		pols, profs := d.endpointRefs(event.(googleproto.Message))
		id := ""
		if w, ok := m.(*proto.WorkloadEndpointUpdate); ok {
			id = "wep|" + wepID(w.Id)
		} else {
			id = "hep|" + m.(*proto.HostEndpointUpdate).Id.EndpointId
		}
		for _, p := range pols {
			_, ok := d.objs["policy|"+p]
			d.check("policy_before_endpoint", ok, "endpoint %s references policy %s, which is not active", id, p)
		}
		for _, p := range profs {
			_, ok := d.objs["profile|"+p]
			d.check("profile_before_endpoint", ok, "endpoint %s references profile %s, which is not active", id, p)
		}
		d.objs[id] = event.(googleproto.Message)
	case *proto.WorkloadEndpointRemove:
		k := "wep|" + wepID(m.Id)
		_, ok := d.objs[k]
		d.check("remove_names_existing", ok, "workload endpoint %s removed but it is not present", k)
		delete(d.objs, k)
	case *proto.HostEndpointRemove:
		k := "hep|" + m.Id.EndpointId
		_, ok := d.objs[k]
		d.check("remove_names_existing", ok, "host endpoint %s removed but it is not present", k)
		delete(d.objs, k)
	case *proto.RouteUpdate:
		if isVXLANRoute(m) {
			if _, have := d.objs["vtep|"+m.DstNodeName]; !have {
				if _, seen := d.flushRouteAddedAt[m.DstNodeName]; !seen {
					d.flushRouteAddedAt[m.DstNodeName] = d.nEvents
				}
			}
		}
		d.objs["route|"+m.Dst] = m
	case *proto.RouteRemove:
		k := "route|" + m.Dst
		if old, ok := d.objs[k].(*proto.RouteUpdate); ok && isVXLANRoute(old) {
			if at, removed := d.flushVTEPRemoved[old.DstNodeName]; removed && !d.noFlushBoundaries {
				d.viol("route_removed_before_vtep", "tunnel endpoint of node %s was removed at event %d while the VXLAN route %s via it was only removed later in the same flush", old.DstNodeName, at, m.Dst)
			}
		}
		delete(d.objs, k)
	case *proto.VXLANTunnelEndpointUpdate:
		if _, had := d.objs["vtep|"+m.Node]; !had {
			d.flushVTEPAdded[m.Node] = d.nEvents
			// A tunnel endpoint that still exists must not be taken away from routes that use it: a change of
			// its details is one update, never remove-then-add with the routes left in place in between.
			if at, removed := d.flushVTEPRemoved[m.Node]; removed && !d.noFlushBoundaries {
				if dst := d.vxlanRouteVia(m.Node); dst != "" {
					d.viol("vtep_removed_while_routes_use_it", "tunnel endpoint of node %s was removed at event %d and added back in the same flush while the VXLAN route %s via that node stayed in place", m.Node, at, dst)
				}
			}
		}
		d.objs["vtep|"+m.Node] = m
	case *proto.VXLANTunnelEndpointRemove:
		k := "vtep|" + m.Node
		_, ok := d.objs[k]
		d.check("remove_names_existing", ok, "tunnel endpoint of node %s removed but it is not present", m.Node)
		d.flushVTEPRemoved[m.Node] = d.nEvents
		delete(d.objs, k)
	case *proto.HostMetadataUpdate:
		d.objs["hostmeta|"+m.Hostname] = m
	case *proto.HostMetadataRemove:
		k := "hostmeta|" + m.Hostname
		_, ok := d.objs[k]
		d.check("remove_names_existing", ok, "host metadata %s removed but it is not present", m.Hostname)
		delete(d.objs, k)
	case *proto.IPAMPoolUpdate:
		d.objs["pool|"+m.Id] = m
	case *proto.IPAMPoolRemove:
		k := "pool|" + m.Id
		_, ok := d.objs[k]
		d.check("remove_names_existing", ok, "IPAM pool %s removed but it is not present", m.Id)
		delete(d.objs, k)
	case *proto.ServiceAccountUpdate:
		d.objs["sa|"+m.Id.Namespace+"/"+m.Id.Name] = m
	case *proto.ServiceAccountRemove:
		k := "sa|" + m.Id.Namespace + "/" + m.Id.Name
		_, ok := d.objs[k]
		d.check("remove_names_existing", ok, "service account %s removed but it is not present", k)
		delete(d.objs, k)
	case *proto.NamespaceUpdate:
		d.objs["namespace|"+m.Id.Name] = m
	case *proto.NamespaceRemove:
		k := "namespace|" + m.Id.Name
		_, ok := d.objs[k]
		d.check("remove_names_existing", ok, "namespace %s removed but it is not present", k)
		delete(d.objs, k)
	case *proto.Encapsulation:
		d.objs["encap|"] = m
	case *proto.ConfigUpdate:
		d.objs["config|"] = m
	case *proto.GlobalBGPConfigUpdate:
		d.objs["bgpconfig|"] = m
	case *proto.WireguardEndpointUpdate:
		d.objs["wg|"+m.Hostname] = m
	case *proto.WireguardEndpointRemove:
		delete(d.objs, "wg|"+m.Hostname)
	case *proto.WireguardEndpointV6Update:
		d.objs["wg6|"+m.Hostname] = m
	case *proto.WireguardEndpointV6Remove:
		delete(d.objs, "wg6|"+m.Hostname)
	case *proto.ServiceUpdate:
		d.objs["svc|"+m.Namespace+"/"+m.Name] = m
	case *proto.ServiceRemove:
		delete(d.objs, "svc|"+m.Namespace+"/"+m.Name)
	default:
		d.r.HarnessError("modelDP: unhandled output message type %T", event)
	}
}

func sortedKeys[V any](m map[string]V) []string {
	ks := make([]string, 0, len(m))
	for k := range m {
		ks = append(ks, k)
	}
	sort.Strings(ks)
	return ks
}

// dump renders the whole accumulated state canonically (deterministic protobuf
// encoding per object; IP set members as sorted sets).
func (d *modelDP) dump() map[string]string {
	out := map[string]string{}
	mo := googleproto.MarshalOptions{Deterministic: true}
	for k, m := range d.objs {
		b, err := mo.Marshal(m)
		if err != nil {
			d.r.HarnessError("marshal %s: %v", k, err)
		}
		out[k] = fmt.Sprintf("%x", b)
	}
	for id, mem := range d.ipsets {
		out["ipset|"+id] = fmt.Sprintf("type=%v members=%s", d.ipsetTy[id], strings.Join(sortedKeys(mem), ","))
	}
	// (Whether in-sync was emitted is not part of the described state: the asynchronous wrapper emits it, the
	// bare sequencer does not; the asynchronous mode checks it separately.)
	return out
}

func (d *modelDP) describe(k string) string {
	if strings.HasPrefix(k, "ipset|") {
		id := strings.TrimPrefix(k, "ipset|")
		if mem, ok := d.ipsets[id]; ok {
			return fmt.Sprintf("type=%v members=%v", d.ipsetTy[id], sortedKeys(mem))
		}
		return "<absent>"
	}
	if m, ok := d.objs[k]; ok {
		s := fmt.Sprint(m)
		if len(s) > 700 {
			s = s[:700] + "..."
		}
		return s
	}
	return "<absent>"
}
