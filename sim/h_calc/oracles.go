package h_calc

import (
	"fmt"
	"sort"
	"strings"

	v3 "github.com/projectcalico/api/pkg/apis/projectcalico/v3"

	"github.com/projectcalico/calico/felix/proto"
	"github.com/projectcalico/calico/libcalico-go/lib/backend/model"
	"github.com/projectcalico/calico/libcalico-go/lib/selector"

	"verifsim/core"
)

// ---- tiny reference model of the datastore objects (decoded from the variants' own model values)

func finalValue(u *universe, final map[string]int, name string) interface{} {
	for _, e := range u.ents {
		if e.name == name {
			vi := final[name]
			if vi == 0 || e.variants[vi-1].invalid {
				return nil
			}
			return e.variants[vi-1].mk()
		}
	}
	return nil
}

func effectiveLabels(u *universe, final map[string]int, own map[string]string, profiles []string) map[string]string {
	eff := map[string]string{}
	for k, v := range own {
		eff[k] = v
	}
	for _, p := range profiles {
		if pv, ok := finalValue(u, final, "profile-labels/"+p).(*v3.Profile); ok {
			for k, v := range pv.Spec.LabelsToApply {
				if _, have := eff[k]; !have {
					eff[k] = v
				}
			}
		}
	}
	return eff
}

type refPolicy struct {
	id       string // Kind/Namespace/Name as in proto ids
	sortName string
	p        *model.Policy
}

type refEndpoint struct {
	dpKey    string
	labels   map[string]string
	profiles []string
	host     bool
}

func localEndpoints(u *universe, final map[string]int) []refEndpoint {
	var out []refEndpoint
	for _, e := range u.ents {
		switch k := e.key.(type) {
		case model.WorkloadEndpointKey:
			if k.Hostname != localHost {
				continue
			}
			if w, ok := finalValue(u, final, e.name).(*model.WorkloadEndpoint); ok {
				out = append(out, refEndpoint{dpKey: fmt.Sprintf("wep|%s/%s/%s", k.OrchestratorID, k.WorkloadID, k.EndpointID), labels: w.Labels.RecomputeOriginalMap(), profiles: w.ProfileIDs})
			}
		case model.HostEndpointKey:
			if k.Hostname != localHost {
				continue
			}
			if h, ok := finalValue(u, final, e.name).(*model.HostEndpoint); ok {
				out = append(out, refEndpoint{dpKey: "hep|" + k.EndpointID, labels: h.Labels.RecomputeOriginalMap(), profiles: h.ProfileIDs, host: true})
			}
		}
	}
	return out
}

func policies(u *universe, final map[string]int) []refPolicy {
	var out []refPolicy
	for _, e := range u.ents {
		if k, ok := e.key.(model.PolicyKey); ok {
			if p, ok := finalValue(u, final, e.name).(*model.Policy); ok {
				out = append(out, refPolicy{id: fmt.Sprintf("%s/%s/%s", k.Kind, k.Namespace, k.Name), sortName: fmt.Sprintf("%s/%s/%s", k.Name, k.Namespace, k.Kind), p: p})
			}
		}
	}
	return out
}

func matches(sel string, labels map[string]string) bool {
	s, err := selector.Parse(sel)
	if err != nil {
		return false
	}
	return s.Evaluate(labels)
}

func hasType(p *model.Policy, t string) bool {
	for _, x := range p.Types {
		if x == t {
			return true
		}
	}
	return false
}

type tierRef struct {
	name   string
	exists bool
	order  *float64
}

// tierBefore: ascending order, unset order last, then name; tiers without a tier object are
// outside the statement (ordered last, only membership is asserted for them).
func tierBefore(a, b tierRef) bool {
	if a.exists != b.exists {
		return a.exists
	}
	if (a.order == nil) != (b.order == nil) {
		return a.order != nil
	}
	if a.order != nil && *a.order != *b.order {
		return *a.order < *b.order
	}
	return a.name < b.name
}

func polBefore(a, b refPolicy) bool {
	if (a.p.Order == nil) != (b.p.Order == nil) {
		return a.p.Order != nil
	}
	if a.p.Order != nil && *a.p.Order != *b.p.Order {
		return *a.p.Order < *b.p.Order
	}
	return a.sortName < b.sortName
}

type expTier struct {
	name    string
	exists  bool
	ingress []string
	egress  []string
}

func expectedTiers(u *universe, final map[string]int, ep refEndpoint, pols []refPolicy, category string) []expTier {
	eff := effectiveLabels(u, final, ep.labels, ep.profiles)
	byTier := map[string][]refPolicy{}
	for _, p := range pols {
		if !matches(p.p.Selector, eff) {
			continue
		}
		in := false
		switch category {
		case "normal":
			in = !p.p.DoNotTrack && !p.p.PreDNAT
		case "untracked":
			in = p.p.DoNotTrack
		case "prednat":
			in = p.p.PreDNAT && !p.p.DoNotTrack
		case "forward":
			in = !p.p.DoNotTrack && !p.p.PreDNAT && p.p.ApplyOnForward
		}
		if in {
			byTier[p.p.Tier] = append(byTier[p.p.Tier], p)
		}
	}
	var tiers []tierRef
	for name := range byTier {
		tr := tierRef{name: name}
		if t, ok := finalValue(u, final, "tier/"+name).(*model.Tier); ok {
			tr.exists, tr.order = true, t.Order
		}
		tiers = append(tiers, tr)
	}
	sort.Slice(tiers, func(i, j int) bool { return tierBefore(tiers[i], tiers[j]) })
	var out []expTier
	for _, t := range tiers {
		ps := byTier[t.name]
		sort.Slice(ps, func(i, j int) bool { return polBefore(ps[i], ps[j]) })
		et := expTier{name: t.name, exists: t.exists}
		for _, p := range ps {
			if hasType(p.p, "ingress") {
				et.ingress = append(et.ingress, p.id)
			}
			if hasType(p.p, "egress") && category != "prednat" {
				et.egress = append(et.egress, p.id)
			}
		}
		if len(et.ingress)+len(et.egress) > 0 {
			out = append(out, et)
		}
	}
	return out
}

func protoTiers(ts []*proto.TierInfo) []expTier {
	var out []expTier
	for _, t := range ts {
		et := expTier{name: t.Name}
		for _, p := range t.IngressPolicies {
			et.ingress = append(et.ingress, polID(p))
		}
		for _, p := range t.EgressPolicies {
			et.egress = append(et.egress, polID(p))
		}
		out = append(out, et)
	}
	return out
}

func tiersStr(ts []expTier) string {
	var parts []string
	for _, t := range ts {
		parts = append(parts, fmt.Sprintf("%s{in:%v out:%v}", t.name, t.ingress, t.egress))
	}
	return strings.Join(parts, " ")
}

// sameTiers compares emitted and expected tier lists.  Tiers whose tier object is missing are compared as a
// set after the existing ones (their relative order is outside the statement).
func sameTiers(got, want []expTier) bool {
	var wantExisting, wantMissing []expTier
	for _, t := range want {
		if t.exists {
			wantExisting = append(wantExisting, t)
		} else {
			wantMissing = append(wantMissing, t)
		}
	}
	if len(got) != len(want) {
		return false
	}
	eq := func(a, b expTier) bool {
		return a.name == b.name && strings.Join(a.ingress, ",") == strings.Join(b.ingress, ",") && strings.Join(a.egress, ",") == strings.Join(b.egress, ",")
	}
	// existing tiers must appear in order (missing ones may be interleaved anywhere: unspecified)
	gi := 0
	for _, w := range wantExisting {
		found := false
		for gi < len(got) {
			if eq(got[gi], w) {
				found = true
				gi++
				break
			}
			gi++
		}
		if !found {
			return false
		}
	}
	for _, w := range wantMissing {
		found := false
		for _, g := range got {
			if eq(g, w) {
				found = true
			}
		}
		if !found {
			return false
		}
	}
	return true
}

// checkPolicyLists is C03's reference-model oracle.
func checkPolicyLists(r *core.R, u *universe, final map[string]int, dp *modelDP) {
	pols := policies(u, final)
	eps := localEndpoints(u, final)
	matchedByLocal := map[string]bool{}
	for _, ep := range eps {
		eff := effectiveLabels(u, final, ep.labels, ep.profiles)
		for _, p := range pols {
			if matches(p.p.Selector, eff) {
				matchedByLocal[p.id] = true
			}
		}
		msg, ok := dp.objs[ep.dpKey]
		r.Check("local_endpoint_present", ok, "local endpoint %s exists in the datastore but Felix emitted nothing for it", ep.dpKey)
		if !ok {
			continue
		}
		switch m := msg.(type) {
		case *proto.WorkloadEndpointUpdate:
			want := expectedTiers(u, final, ep, pols, "normal")
			r.Check("endpoint_policy_list", sameTiers(protoTiers(m.Endpoint.Tiers), want), "endpoint %s (effective labels %v): emitted tiers %s, expected %s", ep.dpKey, eff, tiersStr(protoTiers(m.Endpoint.Tiers)), tiersStr(want))
		case *proto.HostEndpointUpdate:
			for _, c := range []struct {
				cat string
				got []*proto.TierInfo
			}{{"normal", m.Endpoint.Tiers}, {"untracked", m.Endpoint.UntrackedTiers}, {"prednat", m.Endpoint.PreDnatTiers}, {"forward", m.Endpoint.ForwardTiers}} {
				want := expectedTiers(u, final, ep, pols, c.cat)
				r.Check("endpoint_policy_list", sameTiers(protoTiers(c.got), want), "host endpoint %s (effective labels %v) %s tiers: emitted %s, expected %s", ep.dpKey, eff, c.cat, tiersStr(protoTiers(c.got)), tiersStr(want))
			}
		}
	}
	// only (and all) policies that apply to some local endpoint are sent
	active := map[string]bool{}
	for k := range dp.objs {
		if strings.HasPrefix(k, "policy|") {
			active[strings.TrimPrefix(k, "policy|")] = true
		}
	}
	for _, id := range sortedKeys(active) {
		r.Check("only_needed_policies_sent", matchedByLocal[id], "policy %s is active in the dataplane but matches no local endpoint", id)
	}
	for _, id := range sortedKeys(matchedByLocal) {
		r.Check("needed_policy_sent", active[id], "policy %s matches a local endpoint but is not active in the dataplane", id)
	}
}

// checkProfilesFailClosed is the profile half of C05.
func checkProfilesFailClosed(r *core.R, u *universe, final map[string]int, dp *modelDP) {
	for _, ep := range localEndpoints(u, final) {
		for _, pid := range ep.profiles {
			msg, ok := dp.objs["profile|"+pid].(*proto.ActiveProfileUpdate)
			r.Check("referenced_profile_sent", ok, "endpoint %s names profile %s but no profile of that name was sent", ep.dpKey, pid)
			if !ok {
				continue
			}
			rules, have := finalValue(u, final, "profile-rules/"+pid).(*model.ProfileRules)
			if !have {
				denyOnly := func(rs []*proto.Rule) bool {
					if len(rs) == 0 {
						return false
					}
					for _, x := range rs {
						if x.Action != "deny" {
							return false
						}
					}
					return true
				}
				r.Check("missing_profile_denies", denyOnly(msg.Profile.InboundRules) && denyOnly(msg.Profile.OutboundRules),
					"profile %s (named by %s) does not exist or is invalid, but the profile sent to the dataplane is not deny-only: in=%v out=%v", pid, ep.dpKey, actions(msg.Profile.InboundRules), actions(msg.Profile.OutboundRules))
				r.Probe("missing_profile_denied")
			} else {
				wantIn, wantOut := modelActions(rules.InboundRules), modelActions(rules.OutboundRules)
				r.Check("real_profile_rules_replace_deny", strings.Join(actions(msg.Profile.InboundRules), ",") == strings.Join(wantIn, ",") && strings.Join(actions(msg.Profile.OutboundRules), ",") == strings.Join(wantOut, ","),
					"profile %s exists with rule actions in=%v out=%v but the dataplane was sent in=%v out=%v", pid, wantIn, wantOut, actions(msg.Profile.InboundRules), actions(msg.Profile.OutboundRules))
			}
		}
	}
}

func actions(rs []*proto.Rule) []string {
	var out []string
	for _, r := range rs {
		out = append(out, r.Action)
	}
	return out
}

func modelActions(rs []model.Rule) []string {
	var out []string
	for _, r := range rs {
		out = append(out, r.Action)
	}
	return out
}
