package h_calc

import (
	"fmt"
	"reflect"
	"strings"
	"testing"
	"testing/synctest"
	"time"

	"github.com/projectcalico/calico/felix/calc"
	"github.com/projectcalico/calico/felix/config"
	"github.com/projectcalico/calico/felix/proto"
	"github.com/projectcalico/calico/libcalico-go/lib/backend/api"
	"github.com/projectcalico/calico/libcalico-go/lib/backend/model"
	v3v "github.com/projectcalico/calico/libcalico-go/lib/validator/v3"
	v1v "github.com/projectcalico/calico/typha/pkg/validator/v1"

	"verifsim/core"
)

func TestSim(t *testing.T) {
	core.Main(t, "calc", []string{"C01", "C02", "C03", "C05"}, func(r *core.R) {
		// always inside a bubble: the asynchronous mode needs the fake clock, the synchronous one does not mind
		defer func() {
			// The asynchronous graph has no stop method: its goroutine and the output consumer are still
			// blocked when the run ends, which synctest reports by panicking.  That is the expected end.
			if p := recover(); p != nil {
				if s := fmt.Sprint(p); !strings.Contains(s, "main bubble goroutine has exited") {
					panic(p)
				}
			}
		}()
		synctest.Test(t, func(t *testing.T) { run(r) })
	})
}

// felix is one instance of the real pipeline plus the model dataplane it feeds.
type felix struct {
	conf   *config.Config
	vf     *calc.ValidationFilter
	graph  *calc.CalcGraph
	seq    *calc.EventSequencer
	dp     *modelDP
	inSync bool
	held   map[string]bool // keys this instance has been given a value for (to choose New vs Updated)
	r      *core.R
	async  *calc.AsyncCalcGraph // non-nil: asynchronous mode (real graph goroutine, ticker-driven flushes)
}

func newFelix(r *core.R, name string, monitor bool) *felix {
	f := &felix{held: map[string]bool{}, r: r}
	conf := config.New()
	conf.FelixHostname = localHost
	conf.Encapsulation = config.Encapsulation{VXLANEnabled: true, VXLANEnabledV6: true, IPIPEnabled: true}
	f.conf = conf
	f.dp = newModelDP(r, name, monitor, &f.inSync)
	f.seq = calc.NewEventSequencer(conf) // the real config object, exactly as AsyncCalcGraph wires it
	f.seq.Callback = f.dp.OnEvent
	f.graph = calc.NewCalculationGraph(f.seq, calc.NewLookupsCache(), conf, func() {})
	f.vf = calc.NewValidationFilter(f.graph, conf)
	return f
}

// dpConfig satisfies the sequencer's config interface (as the repo's mock dataplane does).
type dpConfig struct{}

func (dpConfig) UpdateFrom(map[string]string, config.Source) (bool, error) { return false, nil }
func (dpConfig) RawValues() map[string]string                              { return map[string]string{} }
func (dpConfig) ToConfigUpdate() *proto.ConfigUpdate                       { return &proto.ConfigUpdate{} }

func (f *felix) flush() {
	if f.async != nil {
		// Asynchronous mode: flushes are driven by the graph's own leaky-bucket ticker; all the
		// harness can do is let simulated time pass.
		f.asyncSettle(f.r.Src.Range(0, 6, "async_wait") * 7)
		return
	}
	f.dp.startFlush()
	f.graph.Flush()
	f.seq.Flush()
	f.dp.endFlush()
}

func (f *felix) deliver(ups []api.Update) {
	f.vf.OnUpdates(ups)
	if f.async != nil {
		synctest.Wait()
	}
}

func (f *felix) sendInSync() {
	f.inSync = true
	f.vf.OnStatusUpdated(api.InSync)
	if f.async != nil {
		synctest.Wait()
	}
}

// asyncSettle lets ms milliseconds of simulated time pass and waits for the graph goroutine and the
// output consumer to block again.
func (f *felix) asyncSettle(ms int) {
	if ms > 0 {
		time.Sleep(time.Duration(ms) * time.Millisecond)
		f.r.AddSimTime(time.Duration(ms) * time.Millisecond)
	}
	synctest.Wait()
}

// newAsyncFelix runs the real AsyncCalcGraph goroutine (input channel, leaky-bucket flush ticker, blocking
// output channel) inside the bubble.  The output consumer stalls according to a plan drawn up front, so that
// every draw is made by the harness goroutine.
func newAsyncFelix(r *core.R, name string, monitor bool) *felix {
	f := &felix{held: map[string]bool{}, r: r}
	conf := config.New()
	conf.FelixHostname = localHost
	conf.Encapsulation = config.Encapsulation{VXLANEnabled: true, VXLANEnabledV6: true, IPIPEnabled: true}
	f.conf = conf
	f.dp = newModelDP(r, name, monitor, &f.inSync)
	f.dp.noFlushBoundaries = true
	out := make(chan any)
	stallAt := map[int]time.Duration{}
	for i, n := 0, r.Src.Intn(6, "async_stalls"); i < n; i++ {
		stallAt[r.Src.Intn(400, "async_stall_at")] = time.Duration(r.Src.Range(1, 40, "async_stall_ms")*5) * time.Millisecond
	}
	f.async = calc.NewAsyncCalcGraph(conf, []chan<- any{out}, nil, calc.NewLookupsCache())
	f.vf = calc.NewValidationFilter(f.async, conf)
	go func() {
		n := 0
		for ev := range out {
			if d, ok := stallAt[n]; ok {
				r.Fault("slow_dataplane_consumer")
				time.Sleep(d) // back-pressure: the graph goroutine blocks on the output channel meanwhile
			}
			n++
			f.dp.OnEvent(ev)
		}
	}()
	f.async.Start()
	synctest.Wait()
	return f
}

// mkUpdate builds the syncer update for entity e at variant index vi (0 = absent).
func (f *felix) mkUpdate(e *entity, vi int) api.Update {
	up := api.Update{KVPair: model.KVPair{Key: e.key}}
	if vi == 0 {
		up.UpdateType = api.UpdateTypeKVDeleted
		delete(f.held, e.name)
		return up
	}
	up.Value = e.variants[vi-1].mk()
	up.Revision = fmt.Sprint(vi)
	if f.held[e.name] {
		up.UpdateType = api.UpdateTypeKVUpdated
	} else {
		up.UpdateType = api.UpdateTypeKVNew
	}
	f.held[e.name] = true
	return up
}

// confirmInvalid asks the real validators whether a variant marked invalid is really rejected
// (C05 tests the TREATMENT of invalid resources, not the definition of validity).
func confirmInvalid(r *core.R, e *entity, v variant) {
	val := v.mk()
	rv := reflect.ValueOf(val)
	var err error
	if rv.Kind() == reflect.Pointer && rv.Elem().Kind() == reflect.Struct {
		if _, isV3 := e.key.(model.ResourceKey); isV3 {
			err = v3v.Validate(rv.Elem().Interface())
		} else {
			err = v1v.Validate(rv.Elem().Interface())
		}
	}
	if w, ok := val.(*model.WorkloadEndpoint); ok && err == nil && w.Name == "" {
		err = fmt.Errorf("missing name")
	}
	if err == nil {
		r.HarnessError("variant %q of %s is marked invalid but the validators accept it", v.desc, e.name)
	}
}

func run(r *core.R) {
	r.FaultDecl("slow_dataplane_consumer", "reorder_across_keys", "duplicate", "coalesced_versions", "revert_to_older", "spurious_delete", "invalid_version", "batched_updates", "early_flush", "updates_after_insync")
	r.ProbeDecl("async_mode_runs", "flushes", "insync_mid_history", "final_state_nonempty", "ipsets_present", "routes_present", "vteps_present", "policies_active", "profiles_active", "endpoints_present", "invalid_latest")
	src := r.Src
	u := newUniverse(r)
	for _, e := range u.ents {
		for _, v := range e.variants {
			if v.invalid {
				confirmInvalid(r, e, v)
			}
		}
	}
	asyncMode := src.Chance(300, "async_mode")
	r.Cfg("async_mode", asyncMode)
	var main *felix
	if asyncMode {
		r.Probe("async_mode_runs")
		main = newAsyncFelix(r, "main", r.Armed("C02"))
	} else {
		main = newFelix(r, "main", r.Armed("C02"))
	}

	// model datastore: per entity the history of variant indexes written; feed: what has been delivered
	n := len(u.ents)
	hist := make([][]int, n)    // hist[i][k] = variant index (0 absent) of version k; version 0 = absent
	delivered := make([]int, n) // index into hist[i] of the version Felix currently holds
	for i := range hist {
		hist[i] = []int{0}
	}
	latest := func(i int) int { return len(hist[i]) - 1 }
	pending := func() []int {
		var p []int
		for i := 0; i < n; i++ {
			if delivered[i] != latest(i) {
				p = append(p, i)
			}
		}
		return p
	}
	deliverVersion := func(batch *[]api.Update, i, ver int) {
		vi := hist[i][ver]
		e := u.ents[i]
		desc := "absent"
		if vi > 0 {
			desc = e.variants[vi-1].desc
			if e.variants[vi-1].invalid {
				r.Fault("invalid_version")
			}
		}
		if e.name == "node/"+localHost && vi > 0 {
			if old := hist[i][delivered[i]]; old > 0 && old != vi {
				a, b := strings.Fields(e.variants[old-1].desc), strings.Fields(desc)
				if len(a) == 2 && len(b) == 2 && a[0] != b[0] && a[1] != b[1] {
					r.Probe("local_node_readdressed_both_families")
				}
			}
		}
		r.Op("deliver %s v%d: %s", e.name, ver, desc)
		*batch = append(*batch, main.mkUpdate(e, vi))
		delivered[i] = ver
	}

	steps := src.Range(10, 120, "steps")
	pInvalid := src.Intn(150, "p_invalid")
	flushMode := src.Intn(3, "flush_mode") // 0: only at end (and when drawn), 1: often, 2: after every delivery
	sentInSync := false
	r.Cfg("entities", n)
	r.Cfg("steps", steps)
	r.Cfg("flush_mode", flushMode)

	for s := 0; s < steps; s++ {
		switch src.Weighted([]int{40, 45, 6, 6, 5, 8, 3}, "action") {
		case 0: // a datastore write
			i := src.Intn(n, "write_entity")
			e := u.ents[i]
			var cands []int
			for vi := 0; vi <= len(e.variants); vi++ {
				if vi > 0 && e.variants[vi-1].invalid && !src.Chance(pInvalid, "write_invalid") {
					continue
				}
				cands = append(cands, vi)
			}
			vi := cands[src.Intn(len(cands), "write_variant")]
			if vi == 0 && src.Chance(700, "write_prefer_present") && len(cands) > 1 {
				vi = cands[1+src.Intn(len(cands)-1, "write_variant2")]
			}
			hist[i] = append(hist[i], vi)
			r.Logf("write %s -> v%d (variant %d)", e.name, latest(i), vi)
		case 1: // deliver some pending key(s)
			p := pending()
			if len(p) == 0 {
				continue
			}
			k := 1
			if src.Chance(300, "batch") {
				k = src.Range(2, 5, "batch_n")
				r.Fault("batched_updates")
			}
			var batch []api.Update
			for j := 0; j < k; j++ {
				p = pending()
				if len(p) == 0 {
					break
				}
				pi := src.Intn(len(p), "deliver_pick")
				if pi != 0 {
					r.Fault("reorder_across_keys")
				}
				i := p[pi]
				ver := latest(i)
				if ver-delivered[i] > 1 {
					if src.Chance(500, "deliver_intermediate") {
						ver = delivered[i] + 1 + src.Intn(ver-delivered[i], "deliver_ver")
					}
					if ver == latest(i) {
						r.Fault("coalesced_versions")
					}
				}
				deliverVersion(&batch, i, ver)
			}
			main.deliver(batch)
		case 2: // duplicate delivery of what Felix already holds
			i := src.Intn(n, "dup_entity")
			if delivered[i] == 0 && hist[i][0] == 0 && !src.Chance(300, "dup_absent") {
				continue
			}
			r.Fault("duplicate")
			var batch []api.Update
			deliverVersion(&batch, i, delivered[i])
			main.deliver(batch)
		case 3: // revert to an older version (a restarted syncer replaying an older snapshot); the latest is re-delivered later
			i := src.Intn(n, "revert_entity")
			if delivered[i] == 0 {
				continue
			}
			r.Fault("revert_to_older")
			var batch []api.Update
			deliverVersion(&batch, i, src.Intn(delivered[i], "revert_ver"))
			main.deliver(batch)
		case 4: // spurious delete, re-added later
			i := src.Intn(n, "spurious_entity")
			r.Fault("spurious_delete")
			r.Op("deliver %s SPURIOUS DELETE", u.ents[i].name)
			main.deliver([]api.Update{main.mkUpdate(u.ents[i], 0)})
			if hist[i][latest(i)] != 0 {
				// mark as pending again: Felix now holds "absent", which is version 0
				delivered[i] = 0
			} else {
				delivered[i] = latest(i)
			}
		case 5: // flush
			if sentInSync {
				r.Probe("flushes")
				main.flush()
				if !sentInSync {
					r.Fault("early_flush")
				}
			} else {
				r.Fault("early_flush")
				main.flush()
			}
		case 6: // in-sync, once the feed has delivered a complete snapshot
			if !sentInSync && len(pending()) == 0 {
				sentInSync = true
				r.Probe("insync_mid_history")
				r.Op("in-sync")
				main.sendInSync()
			}
		}
		if sentInSync && s > 0 {
			r.FaultDecl("updates_after_insync")
		}
		if flushMode == 2 || (flushMode == 1 && src.Chance(400, "flush_now")) {
			main.flush()
			r.Probe("flushes")
		}
	}
	// ---- quiesce: deliver the latest version of everything, in-sync, flush
	for {
		p := pending()
		if len(p) == 0 {
			break
		}
		var batch []api.Update
		i := p[src.Intn(len(p), "final_pick")]
		deliverVersion(&batch, i, latest(i))
		main.deliver(batch)
	}
	if !sentInSync {
		r.Op("in-sync")
		main.sendInSync()
	}
	main.flush()
	r.Probe("flushes")
	// ---- quiet tail: a few isolated changes, each delivered and flushed on its own with nothing after it that
	// could re-dirty what it failed to invalidate (missed-invalidation bugs otherwise hide behind later churn)
	nTail, pTailDelta := src.Intn(4, "tail_changes"), 350
	if u.profOrder {
		nTail, pTailDelta = nTail+1, 850
	}
	for t := 0; t < nTail; t++ {
		// delta step: an entity goes from its base value to a value that differs from it in exactly one field
		// (both steps flushed alone): incremental paths that compare old and new field by field
		if src.Chance(pTailDelta, "tail_delta") {
			var withDelta [][2]int // entity index, variant index (1-based) of the delta variant
			for i, e := range u.ents {
				for vi, v := range e.variants {
					if v.deltaOf > 0 {
						withDelta = append(withDelta, [2]int{i, vi + 1})
					}
				}
			}
			if len(withDelta) > 0 {
				pick := withDelta[src.Intn(len(withDelta), "tail_delta_entity")]
				i, dv := pick[0], pick[1]
				e := u.ents[i]
				for _, vi := range []int{e.variants[dv-1].deltaOf, dv} {
					if hist[i][latest(i)] == vi {
						continue
					}
					hist[i] = append(hist[i], vi)
					r.Probe("tail_delta_step")
					r.Logf("tail delta write %s -> v%d (variant %d)", e.name, latest(i), vi)
					var batch []api.Update
					deliverVersion(&batch, i, latest(i))
					main.deliver(batch)
					main.flush()
				}
				continue
			}
		}
		var infra, other []int
		for i, e := range u.ents {
			switch e.kind {
			case "node", "pool", "block", "tier", "profile-labels", "hostconfig":
				infra = append(infra, i)
			default:
				other = append(other, i)
			}
		}
		pickFrom := other
		if len(infra) > 0 && (len(other) == 0 || src.Chance(600, "tail_infra")) {
			pickFrom = infra
		}
		i := pickFrom[src.Intn(len(pickFrom), "tail_entity")]
		e := u.ents[i]
		var cands []int
		for vi := 0; vi <= len(e.variants); vi++ {
			if vi != hist[i][latest(i)] && (vi == 0 || !e.variants[vi-1].invalid) {
				cands = append(cands, vi)
			}
		}
		if len(cands) == 0 {
			continue
		}
		vi := cands[src.Intn(len(cands), "tail_variant")]
		hist[i] = append(hist[i], vi)
		r.Probe("tail_isolated_change")
		r.Logf("tail write %s -> v%d (variant %d)", e.name, latest(i), vi)
		var batch []api.Update
		deliverVersion(&batch, i, latest(i))
		main.deliver(batch)
		main.flush()
	}
	if main.async != nil {
		for i := 0; i < 40; i++ {
			main.asyncSettle(50)
		}
		if !main.dp.inSync {
			r.Violation("insync_never_reported", "asynchronous graph: datastore in-sync was delivered and 2 s of simulated time passed, but in-sync was never emitted")
		}
	}

	// ---- C01: a freshly started Felix fed only the latest state must describe the same dataplane
	final := map[string]int{}
	var finalDesc []string
	for i, e := range u.ents {
		final[e.name] = hist[i][latest(i)]
		if vi := final[e.name]; vi > 0 {
			finalDesc = append(finalDesc, fmt.Sprintf("%s=%d", e.name, vi))
			if e.variants[vi-1].invalid {
				r.Probe("invalid_latest")
			}
		}
	}
	r.Fingerprint(strings.Join(finalDesc, ";"))
	if len(finalDesc) > 0 {
		r.Probe("final_state_nonempty")
	}
	got := main.dp.dump()
	for k := range got {
		switch {
		case strings.HasPrefix(k, "ipset|"):
			r.Probe("ipsets_present")
		case strings.HasPrefix(k, "route|"):
			r.Probe("routes_present")
		case strings.HasPrefix(k, "vtep|"):
			r.Probe("vteps_present")
		case strings.HasPrefix(k, "policy|"):
			r.Probe("policies_active")
		case strings.HasPrefix(k, "profile|"):
			r.Probe("profiles_active")
		case strings.HasPrefix(k, "wep|"), strings.HasPrefix(k, "hep|"):
			r.Probe("endpoints_present")
		}
	}
	if r.Armed("C01") {
		fresh := freshFelix(r, u, final, false)
		compare(r, "fresh_start_equivalence", "a fresh Felix fed only the latest datastore state", main.dp, fresh.dp)
	}
	if r.Armed("C05") {
		// every resource whose latest version is invalid must be treated exactly as if it were absent
		anyInvalid := false
		asAbsent := map[string]int{}
		for i, e := range u.ents {
			vi := hist[i][latest(i)]
			asAbsent[e.name] = vi
			if vi > 0 && e.variants[vi-1].invalid {
				asAbsent[e.name] = 0
				anyInvalid = true
			}
		}
		if anyInvalid {
			ref := freshFelix(r, u, asAbsent, false)
			compare(r, "invalid_equals_absent", "a fresh Felix fed the latest state with every invalid resource ABSENT", main.dp, ref.dp)
		}
		checkProfilesFailClosed(r, u, final, main.dp)
	}
	if r.Armed("C03") {
		checkPolicyLists(r, u, final, main.dp)
	}
}

// freshFelix starts a new pipeline and feeds it exactly the given state, in a seed-chosen key order.
func freshFelix(r *core.R, u *universe, state map[string]int, monitor bool) *felix {
	f := newFelix(r, "fresh", monitor)
	order := r.Src.Perm(len(u.ents), "fresh_order")
	var batch []api.Update
	for _, i := range order {
		e := u.ents[i]
		if vi := state[e.name]; vi > 0 {
			batch = append(batch, f.mkUpdate(e, vi))
			if r.Src.Chance(300, "fresh_split") {
				f.deliver(batch)
				batch = nil
			}
		}
	}
	if len(batch) > 0 {
		f.deliver(batch)
	}
	f.sendInSync()
	f.flush()
	return f
}

func compare(r *core.R, oracle, what string, a, b *modelDP) {
	da, db := a.dump(), b.dump()
	keys := map[string]bool{}
	for k := range da {
		keys[k] = true
	}
	for k := range db {
		keys[k] = true
	}
	r.Eval()
	for _, k := range sortedKeys(keys) {
		if da[k] != db[k] {
			r.Violation(oracle, "the dataplane state Felix described differs from that of %s at %s:\n  history: %s\n  reference: %s", what, k, a.describe(k), b.describe(k))
		}
	}
}
