// Engine calc (C01, C02, C03, C05): the real ValidationFilter -> CalcGraph ->
// EventSequencer fed by a simulated eventually-consistent syncer.
package h_calc

import (
	"fmt"
	gonet "net"
	"sort"
	"strings"

	v3 "github.com/projectcalico/api/pkg/apis/projectcalico/v3"
	"github.com/projectcalico/api/pkg/lib/numorstring"
	metav1 "k8s.io/apimachinery/pkg/apis/meta/v1"

	"github.com/projectcalico/calico/lib/std/uniquelabels"
	"github.com/projectcalico/calico/libcalico-go/lib/apis/internalapi"
	"github.com/projectcalico/calico/libcalico-go/lib/backend/encap"
	"github.com/projectcalico/calico/libcalico-go/lib/backend/model"
	"github.com/projectcalico/calico/libcalico-go/lib/net"

	"verifsim/core"
)

const (
	localHost = "local"
	remote1   = "remote1"
	remote2   = "remote2"
)

// variant is one candidate value of a key.  mk builds a FRESH object every
// time (the calc graph keeps pointers to what it is given).
type variant struct {
	desc    string
	mk      func() interface{}
	invalid bool // a value the validators are known (and checked) to reject
	deltaOf int  // >0: this variant differs from variant number deltaOf (1-based) in exactly one field
}

// entity is one datastore key with its candidate values.
type entity struct {
	key      model.Key
	name     string
	kind     string
	variants []variant
}

type universe struct {
	profOrder bool // profile-order flavour (see newUniverse)
	ents      []*entity
	// facts the reference model needs
	selectors []string
}

func mustNet(s string) net.IPNet {
	_, n, err := net.ParseCIDR(s)
	if err != nil {
		panic(err)
	}
	return *n
}

func mustNetP(s string) *net.IPNet { n := mustNet(s); return &n }

func mustIP(s string) net.IP {
	ip := net.ParseIP(s)
	if ip == nil {
		panic(s)
	}
	return *ip
}

func mustMAC(s string) *net.MAC {
	m, err := gonet.ParseMAC(s)
	if err != nil {
		panic(err)
	}
	return &net.MAC{HardwareAddr: m}
}

var labelChoices = []map[string]string{
	{"a": "a"},
	{"a": "b", "b": "b"},
	{"a": "a", "role": "x"},
	{"role": "y", "b": "b"},
	{},
	{"a": "a", "b": "b", "role": "x"},
}

var selectorChoices = []string{
	"all()",
	"a == 'a'",
	"a == 'b'",
	"has(b)",
	"!has(b)",
	"role == 'x'",
	"role in {'x','y'}",
	"profile == 'p0'",
	"a == 'a' && role == 'x'",
	"has(tag)",
	"a != 'a'",
	"ns == 'n1' || a == 'a'",
}

var orders = []*float64{nil, fp(10), fp(10), fp(20), fp(5.5)}

func fp(f float64) *float64 { return &f }

var wepIPs = []string{"10.0.0.1/32", "10.0.0.2/32", "10.0.1.1/32", "10.0.1.2/32", "10.0.2.7/32", "10.0.0.3/32"}
var wepIP6s = []string{"fc00:fe11::1/128", "fc00:fe11::2/128"}

type portSpec struct {
	name  string
	proto string
	port  uint16
}

var portChoices = [][]portSpec{
	nil,
	{{"http", "tcp", 80}},
	{{"http", "tcp", 8080}, {"dns", "udp", 53}},
	{{"http", "udp", 80}},
}

func mkPorts(ps []portSpec) []model.EndpointPort {
	var out []model.EndpointPort
	for _, p := range ps {
		out = append(out, model.EndpointPort{Name: p.name, Protocol: numorstring.ProtocolFromStringV1(p.proto), Port: p.port})
	}
	return out
}

var profileLists = [][]string{nil, {"p0"}, {"p0", "p1"}, {"p1", "p-missing"}, {"kns.n1", "p0"}, {"p2"}, {"p1", "p0"}}

// ruleSpec is a compact description of a policy/profile rule.
type ruleSpec struct {
	action                                      string
	srcSel, dstSel, notSrcSel, notDstSel        string
	srcNets, notSrcNets, dstNets                []string
	proto                                       string
	dstNamedPort, srcNamedPort, notDstNamedPort string
	dstPort                                     uint16
}

func (rs ruleSpec) mk() model.Rule {
	r := model.Rule{Action: rs.action, SrcSelector: rs.srcSel, DstSelector: rs.dstSel, NotSrcSelector: rs.notSrcSel, NotDstSelector: rs.notDstSel}
	for _, n := range rs.srcNets {
		r.SrcNets = append(r.SrcNets, mustNetP(n))
	}
	for _, n := range rs.notSrcNets {
		r.NotSrcNets = append(r.NotSrcNets, mustNetP(n))
	}
	for _, n := range rs.dstNets {
		r.DstNets = append(r.DstNets, mustNetP(n))
	}
	if rs.proto != "" {
		p := numorstring.ProtocolFromStringV1(rs.proto)
		r.Protocol = &p
	}
	if rs.dstNamedPort != "" {
		r.DstPorts = append(r.DstPorts, numorstring.Port{PortName: rs.dstNamedPort})
	}
	if rs.srcNamedPort != "" {
		r.SrcPorts = append(r.SrcPorts, numorstring.Port{PortName: rs.srcNamedPort})
	}
	if rs.notDstNamedPort != "" {
		r.NotDstPorts = append(r.NotDstPorts, numorstring.Port{PortName: rs.notDstNamedPort})
	}
	if rs.dstPort != 0 {
		r.DstPorts = append(r.DstPorts, numorstring.SinglePort(rs.dstPort))
	}
	return r
}

func genRule(src *core.Source) ruleSpec {
	rs := ruleSpec{action: []string{"allow", "deny", "allow", "pass", "log"}[src.Intn(5, "rule_action")]}
	sel := func() string { return selectorChoices[src.Intn(len(selectorChoices), "rule_sel")] }
	switch src.Intn(10, "rule_shape") {
	case 0:
		rs.srcSel = sel()
	case 1:
		rs.dstSel = sel()
	case 2:
		rs.notSrcSel = sel()
	case 3:
		rs.srcSel, rs.notDstSel = sel(), sel()
	case 4:
		rs.srcNets = []string{"10.0.0.0/24", "192.168.7.0/24"}[:1+src.Intn(2, "rule_nets")]
	case 5:
		rs.notSrcNets = []string{"10.0.1.0/24"}
		rs.dstNets = []string{"0.0.0.0/0"}
	case 6:
		rs.proto = []string{"tcp", "udp"}[src.Intn(2, "rule_proto")]
		rs.dstNamedPort = []string{"http", "dns"}[src.Intn(2, "rule_np")]
		if src.Chance(500, "rule_np_sel") {
			rs.dstSel = sel()
		}
	case 7:
		rs.proto = "tcp"
		rs.srcNamedPort = "http"
		rs.srcSel = sel()
	case 8:
		rs.proto = "tcp"
		rs.notDstNamedPort = "http"
	case 9:
		rs.proto = "tcp"
		rs.dstPort = 443
	}
	return rs
}

func genRules(src *core.Source, max int) []ruleSpec {
	n := src.Intn(max+1, "nrules")
	var out []ruleSpec
	for i := 0; i < n; i++ {
		out = append(out, genRule(src))
	}
	return out
}

func mkRules(rs []ruleSpec) []model.Rule {
	var out []model.Rule
	for _, r := range rs {
		out = append(out, r.mk())
	}
	return out
}

func lbl(m map[string]string) uniquelabels.Map { return uniquelabels.Make(m) }

func copyMap(m map[string]string) map[string]string {
	o := map[string]string{}
	for k, v := range m {
		o[k] = v
	}
	return o
}

// wepSpec etc. are kept so the reference models can read what a variant means
// without decoding the model objects again.
type epSpec struct {
	labels   map[string]string
	profiles []string
	ips      []string
	ip6s     []string
	ports    []portSpec
	iface    string
	state    string
	hostEP   bool
}

type polSpec struct {
	tier            string
	order           *float64
	selector        string
	in, out         []ruleSpec
	types           []string
	untracked       bool
	preDNAT         bool
	applyOnForward  bool
	stagedActionSet bool
}

type profSpec struct {
	in, out []ruleSpec
}

func wepVariant(sp epSpec) variant {
	return variant{desc: fmt.Sprintf("labels=%v profiles=%v ips=%v ports=%v", sp.labels, sp.profiles, sp.ips, sp.ports), mk: func() interface{} {
		w := &model.WorkloadEndpoint{State: sp.state, Name: sp.iface, Mac: mustMAC("01:02:03:04:05:06"), ProfileIDs: append([]string(nil), sp.profiles...),
			Labels: lbl(sp.labels), Ports: mkPorts(sp.ports)}
		for _, ip := range sp.ips {
			w.IPv4Nets = append(w.IPv4Nets, mustNet(ip))
		}
		for _, ip := range sp.ip6s {
			w.IPv6Nets = append(w.IPv6Nets, mustNet(ip))
		}
		return w
	}}
}

func polSelector(src *core.Source, profOrder bool) string {
	i := src.Intn(len(selectorChoices), "pol_sel")
	if profOrder && src.Chance(800, "po_sel") {
		i = []int{5, 7, 8}[i%3] // role == 'x', profile == 'p0', a == 'a' && role == 'x'
	}
	return selectorChoices[i]
}

func newUniverse(r *core.R) *universe {
	src := r.Src
	u := &universe{selectors: selectorChoices}
	add := func(e *entity) { u.ents = append(u.ents, e) }
	nvar := func() []int { return make([]int, src.Range(1, 3, "nvariants")) } // range over it: the bound is drawn once
	// profile-order flavour: endpoints list p0 and p1 (in either order), both profiles apply conflicting values of
	// the same label, own labels leave that label alone and policies select on it - the order of an endpoint's
	// profile list then decides which policies apply
	pfl := 150
	if r.Armed("C01") || r.Armed("C03") {
		pfl = 300
	}
	profOrder := src.Chance(pfl, "flavour_profile_order")
	r.Cfg("flavour_profile_order", profOrder)
	u.profOrder = profOrder
	poKey := src.Intn(3, "po_key") // which conflicting label both p0 and p1 apply in this flavour

	// ---- workload endpoints: local and remote
	nLocal := src.Range(1, 4, "n_local_wep")
	nRemote := src.Range(0, 3, "n_remote_wep")
	mkWEP := func(host, id string) *entity {
		e := &entity{key: model.WorkloadEndpointKey{Hostname: host, OrchestratorID: "k8s", WorkloadID: id, EndpointID: "eth0"}, name: "wep/" + host + "/" + id, kind: "wep"}
		var first *epSpec
		for range nvar() {
			li, pi := src.Intn(len(labelChoices), "ep_labels"), src.Intn(len(profileLists), "ep_profiles")
			if profOrder && src.Chance(800, "po_ep") {
				li, pi = []int{0, 1, 4}[li%3], []int{2, 6}[pi%2]
			}
			sp := epSpec{labels: labelChoices[li], profiles: profileLists[pi],
				ports: portChoices[src.Intn(len(portChoices), "ep_ports")], iface: "cali" + id, state: "active"}
			nip := src.Range(1, 2, "ep_nips")
			for i := 0; i < nip; i++ {
				sp.ips = append(sp.ips, wepIPs[src.Intn(len(wepIPs), "ep_ip")])
			}
			if src.Chance(250, "ep_v6") {
				sp.ip6s = []string{wepIP6s[src.Intn(len(wepIP6s), "ep_ip6")]}
			}
			if src.Chance(100, "ep_inactive") {
				sp.state = "inactive"
			}
			e.variants = append(e.variants, wepVariant(sp))
			if first == nil {
				spc := sp
				first = &spc
			}
		}
		// a delta variant: the first variant with exactly one thing changed (incremental-update paths that compare
		// old and new values field by field are exercised by updates in which only that field differs)
		deltaP, deltaW := 500, []int{4, 2, 2, 2}
		if profOrder {
			deltaP, deltaW = 900, []int{8, 1, 1, 1}
		}
		if first != nil && src.Chance(deltaP, "ep_delta_variant") {
			d := *first
			switch src.Weighted(deltaW, "ep_delta_kind") {
			case 0: // the same profiles in another order (the first profile that defines a label wins)
				if len(d.profiles) >= 2 {
					d.profiles = []string{d.profiles[1], d.profiles[0]}
				} else {
					d.profiles = []string{"p1", "p0"}
				}
			case 1:
				d.ips = []string{wepIPs[src.Intn(len(wepIPs), "ep_delta_ip")]}
			case 2:
				d.ports = portChoices[src.Intn(len(portChoices), "ep_delta_ports")]
			default:
				d.labels = labelChoices[src.Intn(len(labelChoices), "ep_delta_labels")]
			}
			dv := wepVariant(d)
			dv.desc = "DELTA of variant 1: " + dv.desc
			dv.deltaOf = 1
			e.variants = append(e.variants, dv)
		}
		// invalid: no interface name (rejected by the validation filter itself)
		e.variants = append(e.variants, variant{desc: "INVALID no interface name", invalid: true, mk: func() interface{} {
			return &model.WorkloadEndpoint{State: "active", Name: "", ProfileIDs: []string{"p0"}, Labels: lbl(map[string]string{"a": "a"}), IPv4Nets: []net.IPNet{mustNet("10.0.0.9/32")}}
		}})
		// invalid: rejected by the generic schema validation only (the endpoint-specific checks would accept it):
		// an otherwise plausible endpoint with labels, profiles and addresses that selectors would match
		ilab := labelChoices[src.Intn(len(labelChoices), "ep_inv_labels")]
		iprof := profileLists[src.Intn(len(profileLists), "ep_inv_profiles")]
		iip := wepIPs[src.Intn(len(wepIPs), "ep_inv_ip")]
		ikind := src.Intn(3, "ep_inv_kind")
		e.variants = append(e.variants, variant{desc: fmt.Sprintf("INVALID schema kind=%d labels=%v profiles=%v ip=%s", ikind, ilab, iprof, iip), invalid: true, mk: func() interface{} {
			w := &model.WorkloadEndpoint{State: "active", Name: "cali" + id, ProfileIDs: append([]string(nil), iprof...), Labels: lbl(ilab), IPv4Nets: []net.IPNet{mustNet(iip)}}
			switch ikind {
			case 0: // named port with port number 0
				w.Ports = []model.EndpointPort{{Name: "http", Protocol: numorstring.ProtocolFromStringV1("tcp"), Port: 0}}
			case 1: // named port with a protocol that cannot carry ports
				w.Ports = []model.EndpointPort{{Name: "http", Protocol: numorstring.ProtocolFromStringV1("icmp"), Port: 80}}
			default: // named port whose name is not a valid name
				w.Ports = []model.EndpointPort{{Name: "Bad Port Name!", Protocol: numorstring.ProtocolFromStringV1("tcp"), Port: 80}}
			}
			return w
		}})
		return e
	}
	for i := 0; i < nLocal; i++ {
		add(mkWEP(localHost, fmt.Sprintf("w%d", i)))
	}
	for i := 0; i < nRemote; i++ {
		add(mkWEP([]string{remote1, remote2}[i%2], fmt.Sprintf("r%d", i)))
	}
	// ---- host endpoints
	nHEP := src.Range(0, 2, "n_hep")
	for i := 0; i < nHEP; i++ {
		host := localHost
		if i == 1 && src.Chance(400, "hep_remote") {
			host = remote1
		}
		e := &entity{key: model.HostEndpointKey{Hostname: host, EndpointID: fmt.Sprintf("hep%d", i)}, name: fmt.Sprintf("hep/%s/hep%d", host, i), kind: "hep"}
		for range nvar() {
			labels := labelChoices[src.Intn(len(labelChoices), "ep_labels")]
			profiles := profileLists[src.Intn(len(profileLists), "ep_profiles")]
			named := src.Chance(600, "hep_named")
			ports := portChoices[src.Intn(len(portChoices), "ep_ports")]
			ip := []string{"192.168.0.1", "192.168.0.7"}[src.Intn(2, "hep_ip")]
			ifn := fmt.Sprintf("eth%d", i)
			e.variants = append(e.variants, variant{desc: fmt.Sprintf("labels=%v profiles=%v named=%v ip=%s", labels, profiles, named, ip), mk: func() interface{} {
				h := &model.HostEndpoint{Labels: lbl(labels), ProfileIDs: append([]string(nil), profiles...), Ports: mkPorts(ports)}
				if named {
					h.Name = ifn
				} else {
					h.ExpectedIPv4Addrs = []net.IP{mustIP(ip)}
				}
				return h
			}})
		}
		e.variants = append(e.variants, variant{desc: "INVALID interface name", invalid: true, mk: func() interface{} {
			return &model.HostEndpoint{Name: "bad/name with spaces", Labels: lbl(map[string]string{"a": "a"})}
		}})
		add(e)
	}
	// ---- tiers
	tierNames := []string{"default", "ta", "tb"}
	for _, tn := range tierNames[:src.Range(1, 3, "n_tiers")] {
		e := &entity{key: model.TierKey{Name: tn}, name: "tier/" + tn, kind: "tier"}
		for range nvar() {
			o := orders[src.Intn(len(orders), "tier_order")]
			da := []v3.Action{v3.Deny, v3.Pass}[src.Intn(2, "tier_da")]
			e.variants = append(e.variants, variant{desc: fmt.Sprintf("order=%s default=%s", ordStr(o), da), mk: func() interface{} {
				t := &model.Tier{DefaultAction: da}
				if o != nil {
					t.Order = fp(*o)
				}
				return t
			}})
		}
		add(e)
	}
	// ---- policies
	crowded := src.Chance(350, "pol_crowded")
	crowdTier := []string{"default", "ta", "t-missing"}[src.Intn(3, "pol_crowd_tier")]
	crowdOrder := src.Intn(len(orders), "pol_crowd_order")
	nPol := src.Range(1, 7, "n_policies")
	if crowded && nPol < 4 {
		nPol = 4 + src.Intn(4, "n_policies_crowded")
	}
	kinds := []string{v3.KindGlobalNetworkPolicy, v3.KindNetworkPolicy, v3.KindStagedGlobalNetworkPolicy, v3.KindGlobalNetworkPolicy}
	for i := 0; i < nPol; i++ {
		kind := kinds[src.Intn(len(kinds), "pol_kind")]
		key := model.PolicyKey{Name: fmt.Sprintf("pol%d", i%4), Kind: kind}
		if kind == v3.KindNetworkPolicy {
			key.Namespace = "n1"
		}
		name := fmt.Sprintf("policy/%s/%s/%s", key.Kind, key.Namespace, key.Name)
		dup := false
		for _, x := range u.ents {
			if x.name == name {
				dup = true
			}
		}
		if dup {
			continue
		}
		e := &entity{key: key, name: name, kind: "policy"}
		for range nvar() {
			ps := polSpec{tier: []string{"default", "default", "ta", "tb", "t-missing"}[src.Intn(5, "pol_tier")], order: orders[src.Intn(len(orders), "pol_order")],
				selector: polSelector(src, profOrder), in: genRules(src, 2), out: genRules(src, 2)}
			if crowded {
				// many policies in one tier with one order: their relative position is decided by the name tie-break alone
				ps.tier = crowdTier
				ps.order = orders[crowdOrder]
				if src.Chance(500, "pol_crowd_all") {
					ps.selector = "all()"
				}
			}
			switch src.Intn(6, "pol_types") {
			case 0:
				ps.types = []string{"ingress"}
			case 1:
				ps.types = []string{"egress"}
			default:
				ps.types = []string{"ingress", "egress"}
			}
			switch src.Intn(10, "pol_flavour") {
			case 0:
				ps.untracked, ps.applyOnForward = true, true
			case 1:
				ps.preDNAT, ps.applyOnForward = true, true
				ps.out = nil
				ps.types = []string{"ingress"}
			case 2:
				ps.applyOnForward = true
			}
			psc := ps
			staged := strings.HasPrefix(kind, "Staged")
			e.variants = append(e.variants, variant{desc: fmt.Sprintf("tier=%s order=%s sel=%q types=%v in=%d out=%d untracked=%v prednat=%v", ps.tier, ordStr(ps.order), ps.selector, ps.types, len(ps.in), len(ps.out), ps.untracked, ps.preDNAT), mk: func() interface{} {
				p := &model.Policy{Tier: psc.tier, Selector: psc.selector, InboundRules: mkRules(psc.in), OutboundRules: mkRules(psc.out), Types: append([]string(nil), psc.types...),
					DoNotTrack: psc.untracked, PreDNAT: psc.preDNAT, ApplyOnForward: psc.applyOnForward, Namespace: key.Namespace}
				if psc.order != nil {
					p.Order = fp(*psc.order)
				}
				if staged {
					sa := v3.StagedActionSet
					p.StagedAction = &sa
				}
				return p
			}})
		}
		e.variants = append(e.variants, variant{desc: "INVALID selector", invalid: true, mk: func() interface{} {
			return &model.Policy{Tier: "default", Selector: "a == == 'a'", InboundRules: []model.Rule{{Action: "allow"}}, Types: []string{"ingress"}}
		}})
		e.variants = append(e.variants, variant{desc: "INVALID ICMP type in rule", invalid: true, mk: func() interface{} {
			bad := 300
			return &model.Policy{Tier: "default", Selector: "all()", InboundRules: []model.Rule{{Action: "allow", ICMPType: &bad}}, Types: []string{"ingress"}}
		}})
		add(e)
	}
	// ---- profiles: rules and labels (incl. namespace / service-account style profiles)
	for _, pn := range []string{"p0", "p1", "p2", "kns.n1"}[:src.Range(1, 4, "n_profiles")] {
		er := &entity{key: model.ProfileRulesKey{ProfileKey: model.ProfileKey{Name: pn}}, name: "profile-rules/" + pn, kind: "profile-rules"}
		for range nvar() {
			in, out := genRules(src, 2), genRules(src, 2)
			er.variants = append(er.variants, variant{desc: fmt.Sprintf("in=%d out=%d", len(in), len(out)), mk: func() interface{} {
				return &model.ProfileRules{InboundRules: mkRules(in), OutboundRules: mkRules(out)}
			}})
		}
		er.variants = append(er.variants, variant{desc: "INVALID ICMP type in rule", invalid: true, mk: func() interface{} {
			bad := 300
			return &model.ProfileRules{InboundRules: []model.Rule{{Action: "allow", ICMPType: &bad}}}
		}})
		add(er)
		el := &entity{key: model.ResourceKey{Kind: v3.KindProfile, Name: pn}, name: "profile-labels/" + pn, kind: "profile-labels"}
		for range nvar() {
			// "profile" and "role" get different values from different profiles: for an endpoint that lists two such
			// profiles the ORDER of its profile list decides the effective label
			role := map[string]string{"p0": "x", "p1": "y"}[pn]
			if role == "" {
				role = "x"
			}
			lti := src.Intn(5, "prof_labels")
			if profOrder && src.Chance(850, "po_prof") {
				lti = poKey // the same conflicting key from every profile
			}
			lt := []map[string]string{{"profile": pn}, {"profile": pn, "tag": ""}, {"role": role}, {"ns": "n1", "a": "b"}, {}}[lti]
			el.variants = append(el.variants, variant{desc: fmt.Sprintf("labelsToApply=%v", lt), mk: func() interface{} {
				return &v3.Profile{ObjectMeta: metav1.ObjectMeta{Name: pn}, Spec: v3.ProfileSpec{LabelsToApply: copyMap(lt)}}
			}})
		}
		add(el)
	}
	// ---- network sets
	nNetsets := src.Range(0, 3, "n_netsets")
	for i := 0; i < nNetsets; i++ {
		e := &entity{key: model.NetworkSetKey{Name: fmt.Sprintf("ns%d", i)}, name: fmt.Sprintf("netset/ns%d", i), kind: "netset"}
		for range nvar() {
			labels := labelChoices[src.Intn(len(labelChoices), "ns_labels")]
			nets := [][]string{{"12.0.0.0/24", "12.0.0.0/24", "10.0.0.1/32"}, {"12.0.0.0/16", "12.0.1.0/24"}, {"0.0.0.0/0"}, {"feed:beef::/32", "12.1.0.0/24"}, {"10.0.0.2/32"}}[src.Intn(5, "ns_nets")]
			profiles := profileLists[src.Intn(3, "ns_profiles")]
			e.variants = append(e.variants, variant{desc: fmt.Sprintf("labels=%v nets=%v profiles=%v", labels, nets, profiles), mk: func() interface{} {
				ns := &model.NetworkSet{Labels: lbl(labels), ProfileIDs: append([]string(nil), profiles...)}
				for _, n := range nets {
					ns.Nets = append(ns.Nets, mustNet(n))
				}
				return ns
			}})
		}
		add(e)
	}
	// ---- IP pools, blocks and host addresses (routes, tunnel endpoints)
	if src.Chance(700, "routing") {
		dualStack := src.Chance(400, "dual_stack")
		poolCIDRs := []string{"10.0.0.0/16", "11.0.0.0/16", "feed:beef::/64"}
		nPools := src.Range(1, 2, "n_pools")
		if dualStack {
			nPools = 3
		}
		for i := 0; i < nPools; i++ {
			c := poolCIDRs[i]
			e := &entity{key: model.IPPoolKey{CIDR: mustPrefix(c)}, name: "pool/" + c, kind: "pool"}
			for range nvar() {
				mode := src.Intn(5, "pool_mode")
				masq := src.Chance(500, "pool_masq")
				e.variants = append(e.variants, variant{desc: fmt.Sprintf("mode=%d masq=%v", mode, masq), mk: func() interface{} {
					p := &model.IPPool{CIDR: mustNet(c), Masquerade: masq}
					switch mode {
					case 1:
						p.VXLANMode = encap.Always
					case 2:
						p.VXLANMode = encap.CrossSubnet
					case 3:
						p.IPIPMode = encap.Always
					case 4:
						p.IPIPMode = encap.CrossSubnet
					}
					return p
				}})
			}
			add(e)
		}
		blocks := []string{"10.0.0.0/29", "10.0.1.0/29", "10.0.2.0/29", "11.0.0.0/30", "feed:beef:0:0:1::/125", "feed:beef:0:0:2::/125"}
		nBlocks := src.Range(1, 4, "n_blocks")
		if dualStack {
			nBlocks = 4 + src.Range(1, 2, "n_blocks6")
		}
		for i := 0; i < nBlocks; i++ {
			c := blocks[i]
			e := &entity{key: model.BlockKey{CIDR: mustPrefix(c)}, name: "block/" + c, kind: "block"}
			for range nvar() {
				owner := []string{localHost, remote1, remote2}[src.Intn(3, "block_owner")]
				borrowedBy := ""
				if src.Chance(400, "block_borrow") {
					borrowedBy = []string{localHost, remote1, remote2}[src.Intn(3, "block_borrower")]
				}
				nalloc := src.Intn(3, "block_nalloc")
				e.variants = append(e.variants, variant{desc: fmt.Sprintf("owner=%s borrowedBy=%q nalloc=%d", owner, borrowedBy, nalloc), mk: func() interface{} {
					n := mustNet(c)
					ones, bits := n.Mask.Size()
					size := 1 << uint(bits-ones)
					aff := "host:" + owner
					b := &model.AllocationBlock{CIDR: n, Affinity: &aff, Allocations: make([]*int, size)}
					zero, one := 0, 1
					b.Attributes = []model.AllocationAttribute{{HandleID: sp("h-own"), ActiveOwnerAttrs: map[string]string{"node": owner}}}
					for k := 0; k < nalloc && k < size; k++ {
						b.Allocations[k] = &zero
					}
					if borrowedBy != "" && size > 2 {
						b.Attributes = append(b.Attributes, model.AllocationAttribute{HandleID: sp("h-borrow"), ActiveOwnerAttrs: map[string]string{"node": borrowedBy}})
						b.Allocations[size-1] = &one
					}
					for k := 0; k < size; k++ {
						if b.Allocations[k] == nil {
							b.Unallocated = append(b.Unallocated, k)
						}
					}
					return b
				}})
			}
			add(e)
		}
		// (the local node's two addresses are in different /24s, so that a re-addressing changes its subnet)
		hostIPs := map[string][]string{localHost: {"192.168.0.1", "192.168.1.10"}, remote1: {"192.168.0.2", "192.168.1.2"}, remote2: {"192.168.0.3", "172.16.0.3"}}
		for _, h := range []string{localHost, remote1, remote2} {
			e := &entity{key: model.ResourceKey{Kind: internalapi.KindNode, Name: h}, name: "node/" + h, kind: "node"}
			host6 := map[string][]string{localHost: {"dead:beef:1::1", "dead:beef:2::1"}, remote1: {"dead:beef:1::2", "dead:beef:3::2"}, remote2: {"dead:beef:2::3", "dead:beef:1::3"}}
			for vi, ip := range hostIPs[h] {
				ipc, hc := ip, h
				ip6 := ""
				if dualStack {
					// the second variant re-addresses both families at once; a third keeps IPv4 and moves IPv6 only
					ip6 = host6[h][vi]
				}
				dOf := 0
				if vi == 1 && dualStack {
					dOf = 1 // re-addressing both families at once, applied in isolation by the tail delta steps
				}
				e.variants = append(e.variants, variant{desc: ip + " " + ip6, deltaOf: dOf, mk: func() interface{} {
					n := &internalapi.Node{ObjectMeta: metav1.ObjectMeta{Name: hc}, Spec: internalapi.NodeSpec{BGP: &internalapi.NodeBGPSpec{IPv4Address: ipc + "/24"}}}
					if ip6 != "" {
						n.Spec.BGP.IPv6Address = ip6 + "/64"
					}
					return n
				}})
			}
			if dualStack {
				ipc, hc, ip6 := hostIPs[h][0], h, host6[h][1]
				e.variants = append(e.variants, variant{desc: "DELTA of variant 1 (IPv6 address only): " + ipc + " " + ip6, deltaOf: 1, mk: func() interface{} {
					return &internalapi.Node{ObjectMeta: metav1.ObjectMeta{Name: hc}, Spec: internalapi.NodeSpec{BGP: &internalapi.NodeBGPSpec{IPv4Address: ipc + "/24", IPv6Address: ip6 + "/64"}}}
				}})
			}
			add(e)
			if src.Chance(600, "vtep") {
				ea := &entity{key: model.HostConfigKey{Hostname: h, Name: "IPv4VXLANTunnelAddr"}, name: "hostconfig/" + h + "/IPv4VXLANTunnelAddr", kind: "hostconfig"}
				for _, ip := range []string{"10.0.0.100", "10.0.3.100"} {
					ipc := ip
					ea.variants = append(ea.variants, variant{desc: ip, mk: func() interface{} { return ipc }})
				}
				add(ea)
				em := &entity{key: model.HostConfigKey{Hostname: h, Name: "VXLANTunnelMACAddr"}, name: "hostconfig/" + h + "/VXLANTunnelMACAddr", kind: "hostconfig"}
				em.variants = append(em.variants, variant{desc: "mac", mk: func() interface{} { return "66:aa:bb:cc:dd:0" + string('1'+byte(len(h)%7)) }})
				add(em)
				if dualStack && src.Chance(600, "vtep6") {
					// the IPv6 half of the tunnel endpoint (only with it does the VTEP carry the node's IPv6 address)
					ea6 := &entity{key: model.HostConfigKey{Hostname: h, Name: "IPv6VXLANTunnelAddr"}, name: "hostconfig/" + h + "/IPv6VXLANTunnelAddr", kind: "hostconfig"}
					for _, ip := range []string{"dead:beef:9::100", "dead:beef:9::200"} {
						ipc := ip
						ea6.variants = append(ea6.variants, variant{desc: ip, mk: func() interface{} { return ipc }})
					}
					add(ea6)
					em6 := &entity{key: model.HostConfigKey{Hostname: h, Name: "VXLANTunnelMACAddrV6"}, name: "hostconfig/" + h + "/VXLANTunnelMACAddrV6", kind: "hostconfig"}
					em6.variants = append(em6.variants, variant{desc: "mac6", mk: func() interface{} { return "66:aa:bb:cc:ee:0" + string('1'+byte(len(h)%7)) }})
					add(em6)
				}
			}
		}
	}
	sort.SliceStable(u.ents, func(i, j int) bool { return u.ents[i].name < u.ents[j].name })
	return u
}

func sp(s string) *string { return &s }

func ordStr(o *float64) string {
	if o == nil {
		return "unset"
	}
	return fmt.Sprint(*o)
}
