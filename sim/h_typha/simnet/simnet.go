// Package simnet is an in-memory transport for code that talks net.Listener /
// net.Conn, meant to live inside a testing/synctest bubble.
//
// Bytes written to one end of a connection are queued ("in flight"); they only
// become readable at the other end when the simulator calls Deliver.  Read and
// write deadlines are honoured on the bubble's fake clock.  All blocking is on
// bubble channels / timers, i.e. durably blocking for synctest.
//
// The simulator side of the API (Pending/Accept/Refuse/Deliver/DeliverFin/
// Reset/Cut/SetLimit/...) must only be used from the simulator goroutine while
// everything else is quiescent (after synctest.Wait()).
package simnet

import (
	"errors"
	"io"
	"net"
	"os"
	"sync"
	"syscall"
	"time"
)

// Dir names one direction of a connection.
type Dir int

const (
	C2S Dir = 0 // client -> server
	S2C Dir = 1 // server -> client
)

func (d Dir) String() string {
	if d == C2S {
		return "c2s"
	}
	return "s2c"
}

// Net is one simulated network with a single listening address.
type Net struct {
	mu       sync.Mutex
	listener *Listener
	pending  []*Dial
	pairs    []*Pair
	nextPair int
	nextDial int
	// DialTimeout is how long an undecided dial waits before failing like net.DialTimeout.
	DialTimeout time.Duration
}

func New() *Net { return &Net{DialTimeout: 10 * time.Second} }

type timeoutErr struct{ op string }

func (e timeoutErr) Error() string   { return e.op + ": i/o timeout (simnet)" }
func (e timeoutErr) Timeout() bool   { return true }
func (e timeoutErr) Temporary() bool { return true }
func (e timeoutErr) Unwrap() error   { return os.ErrDeadlineExceeded }

func opErr(op string, err error) error {
	return &net.OpError{Op: op, Net: "tcp", Err: err}
}

// ---------------------------------------------------------------- listener

type Listener struct {
	n      *Net
	addr   *net.TCPAddr
	queue  []*End
	closed bool
	wake   chan struct{}
}

// Listen creates the (single) listener of the network.
func (n *Net) Listen(port int) *Listener {
	n.mu.Lock()
	defer n.mu.Unlock()
	l := &Listener{n: n, addr: &net.TCPAddr{IP: net.IPv4(127, 0, 0, 1), Port: port}, wake: make(chan struct{})}
	n.listener = l
	return l
}

func (l *Listener) Accept() (net.Conn, error) {
	for {
		l.n.mu.Lock()
		if l.closed {
			l.n.mu.Unlock()
			return nil, opErr("accept", net.ErrClosed)
		}
		if len(l.queue) > 0 {
			e := l.queue[0]
			l.queue = l.queue[1:]
			l.n.mu.Unlock()
			return e, nil
		}
		ch := l.wake
		l.n.mu.Unlock()
		<-ch
	}
}

func (l *Listener) Close() error {
	l.n.mu.Lock()
	defer l.n.mu.Unlock()
	if !l.closed {
		l.closed = true
		close(l.wake)
		l.wake = make(chan struct{})
	}
	return nil
}

func (l *Listener) Addr() net.Addr { return l.addr }

// ---------------------------------------------------------------- dialing

// Dial is a connection attempt waiting for the simulator's decision.
type Dial struct {
	ID      int
	Addr    string
	decided chan struct{}
	done    bool
	end     *End
	err     error
}

// Dial blocks until the simulator accepts or refuses the attempt, or the dial timeout passes.
func (n *Net) Dial(addr string) (net.Conn, error) {
	n.mu.Lock()
	n.nextDial++
	d := &Dial{ID: n.nextDial, Addr: addr, decided: make(chan struct{})}
	n.pending = append(n.pending, d)
	n.mu.Unlock()
	t := time.NewTimer(n.DialTimeout)
	defer t.Stop()
	select {
	case <-d.decided:
	case <-t.C:
		n.mu.Lock()
		if !d.done {
			d.done = true
			d.err = opErr("dial", timeoutErr{"dial"})
			n.removePending(d)
		}
		n.mu.Unlock()
	}
	if d.err != nil {
		return nil, d.err
	}
	return d.end, nil
}

func (n *Net) removePending(d *Dial) {
	for i, x := range n.pending {
		if x == d {
			n.pending = append(n.pending[:i:i], n.pending[i+1:]...)
			return
		}
	}
}

// Pending lists undecided dials in arrival order.
func (n *Net) Pending() []*Dial {
	n.mu.Lock()
	defer n.mu.Unlock()
	return append([]*Dial(nil), n.pending...)
}

// Refuse fails a pending dial with ECONNREFUSED.
func (n *Net) Refuse(d *Dial) {
	n.mu.Lock()
	defer n.mu.Unlock()
	if d.done {
		return
	}
	d.done = true
	d.err = opErr("dial", syscall.ECONNREFUSED)
	n.removePending(d)
	close(d.decided)
}

// Accept completes a pending dial: the client gets its end at once, the server end is queued for Listener.Accept.
// A closed or absent listener refuses.
func (n *Net) Accept(d *Dial) *Pair { return n.AcceptWith(d, 0) }

// AcceptWith is Accept with a bound on the server-to-client buffer (0 = unbounded) set before anyone is woken.
func (n *Net) AcceptWith(d *Dial, s2cLimit int) *Pair {
	n.mu.Lock()
	defer n.mu.Unlock()
	if d.done {
		return nil
	}
	d.done = true
	n.removePending(d)
	if n.listener == nil || n.listener.closed {
		d.err = opErr("dial", syscall.ECONNREFUSED)
		close(d.decided)
		return nil
	}
	n.nextPair++
	p := &Pair{ID: n.nextPair, n: n, DialAddr: d.Addr, Opened: time.Now()}
	p.h[C2S] = &half{wake: make(chan struct{})}
	p.h[S2C] = &half{wake: make(chan struct{}), limit: s2cLimit}
	p.Client = &End{p: p, client: true, in: p.h[S2C], out: p.h[C2S], dl: make(chan struct{})}
	p.Server = &End{p: p, client: false, in: p.h[C2S], out: p.h[S2C], dl: make(chan struct{})}
	n.pairs = append(n.pairs, p)
	d.end = p.Client
	l := n.listener
	l.queue = append(l.queue, p.Server)
	close(l.wake)
	l.wake = make(chan struct{})
	close(d.decided)
	return p
}

// Pairs lists every connection ever made, in creation order.
func (n *Net) Pairs() []*Pair {
	n.mu.Lock()
	defer n.mu.Unlock()
	return append([]*Pair(nil), n.pairs...)
}

// ---------------------------------------------------------------- connections

type half struct {
	queue        []byte // written, in flight
	rbuf         []byte // delivered, not yet read
	limit        int    // 0 = unbounded; Write blocks while len(queue)+len(rbuf) >= limit
	fin          bool   // writer closed its end
	finDelivered bool   // reader sees EOF once rbuf is drained
	wake         chan struct{}
	blockedW     int // writers currently blocked for space
	blockedR     int // readers currently blocked for data
	written      int
	delivered    int
}

func (h *half) broadcast() {
	close(h.wake)
	h.wake = make(chan struct{})
}

// Pair is one established connection.
type Pair struct {
	ID       int
	DialAddr string
	Opened   time.Time
	Client   *End
	Server   *End
	n        *Net
	h        [2]*half
	rst      bool
	cut      bool
}

// End is one end of a Pair; it implements net.Conn.
type End struct {
	p      *Pair
	client bool
	in     *half
	out    *half
	closed bool
	rdl    time.Time
	wdl    time.Time
	dl     chan struct{} // closed+replaced when a deadline changes or the end is closed
}

type simAddr string

func (a simAddr) Network() string { return "tcp" }
func (a simAddr) String() string  { return string(a) }

func (e *End) LocalAddr() net.Addr {
	if e.client {
		return simAddr("client:" + e.p.DialAddr)
	}
	return e.p.n.listener.addr
}

func (e *End) RemoteAddr() net.Addr {
	if e.client {
		return e.p.n.listener.addr
	}
	return simAddr("client:" + e.p.DialAddr)
}

func (e *End) kick() {
	close(e.dl)
	e.dl = make(chan struct{})
}

func (e *End) SetDeadline(t time.Time) error {
	e.p.n.mu.Lock()
	defer e.p.n.mu.Unlock()
	if e.closed {
		return opErr("set", net.ErrClosed)
	}
	e.rdl, e.wdl = t, t
	e.kick()
	return nil
}

func (e *End) SetReadDeadline(t time.Time) error {
	e.p.n.mu.Lock()
	defer e.p.n.mu.Unlock()
	if e.closed {
		return opErr("set", net.ErrClosed)
	}
	e.rdl = t
	e.kick()
	return nil
}

func (e *End) SetWriteDeadline(t time.Time) error {
	e.p.n.mu.Lock()
	defer e.p.n.mu.Unlock()
	if e.closed {
		return opErr("set", net.ErrClosed)
	}
	e.wdl = t
	e.kick()
	return nil
}

// wait blocks until the half changes, the end's deadlines change / it is closed, or the deadline passes.
func wait(hw, dl chan struct{}, deadline time.Time) {
	if deadline.IsZero() {
		select {
		case <-hw:
		case <-dl:
		}
		return
	}
	t := time.NewTimer(time.Until(deadline))
	select {
	case <-hw:
	case <-dl:
	case <-t.C:
	}
	t.Stop()
}

func (e *End) Read(b []byte) (int, error) {
	mu := &e.p.n.mu
	for {
		mu.Lock()
		switch {
		case e.closed:
			mu.Unlock()
			return 0, opErr("read", net.ErrClosed)
		case e.p.rst:
			mu.Unlock()
			return 0, opErr("read", syscall.ECONNRESET)
		case !e.rdl.IsZero() && !time.Now().Before(e.rdl):
			mu.Unlock()
			return 0, opErr("read", timeoutErr{"read"})
		}
		h := e.in
		if len(h.rbuf) > 0 {
			n := copy(b, h.rbuf)
			h.rbuf = h.rbuf[n:]
			if len(h.rbuf) == 0 {
				h.rbuf = nil
			}
			if h.blockedW > 0 {
				h.broadcast()
			}
			mu.Unlock()
			return n, nil
		}
		if h.finDelivered {
			mu.Unlock()
			return 0, io.EOF
		}
		if len(b) == 0 {
			mu.Unlock()
			return 0, nil
		}
		hw, dl, deadline := h.wake, e.dl, e.rdl
		h.blockedR++
		mu.Unlock()
		wait(hw, dl, deadline)
		mu.Lock()
		h.blockedR--
		mu.Unlock()
	}
}

func (e *End) Write(b []byte) (int, error) {
	mu := &e.p.n.mu
	total := 0
	for {
		mu.Lock()
		switch {
		case e.closed:
			mu.Unlock()
			return total, opErr("write", net.ErrClosed)
		case e.p.rst:
			mu.Unlock()
			return total, opErr("write", syscall.ECONNRESET)
		case !e.wdl.IsZero() && !time.Now().Before(e.wdl):
			mu.Unlock()
			return total, opErr("write", timeoutErr{"write"})
		}
		h := e.out
		peer := e.peer()
		if peer.closed && !e.p.cut && e.in.finDelivered {
			// the peer is gone and we know it: the kernel would answer with RST
			mu.Unlock()
			return total, opErr("write", syscall.EPIPE)
		}
		space := len(b)
		if h.limit > 0 {
			space = h.limit - len(h.queue) - len(h.rbuf)
			if space > len(b) {
				space = len(b)
			}
		}
		if space > 0 {
			h.queue = append(h.queue, b[:space]...)
			h.written += space
			b = b[space:]
			total += space
		}
		if len(b) == 0 {
			mu.Unlock()
			return total, nil
		}
		hw, dl, deadline := h.wake, e.dl, e.wdl
		h.blockedW++
		mu.Unlock()
		wait(hw, dl, deadline)
		mu.Lock()
		h.blockedW--
		mu.Unlock()
	}
}

func (e *End) peer() *End {
	if e.client {
		return e.p.Server
	}
	return e.p.Client
}

func (e *End) Close() error {
	mu := &e.p.n.mu
	mu.Lock()
	defer mu.Unlock()
	if e.closed {
		return opErr("close", net.ErrClosed)
	}
	e.closed = true
	e.out.fin = true
	e.kick()
	e.in.broadcast()
	e.out.broadcast()
	return nil
}

// Closed reports whether this end was closed by its owner.
func (e *End) Closed() bool {
	e.p.n.mu.Lock()
	defer e.p.n.mu.Unlock()
	return e.closed
}

// ---------------------------------------------------------------- simulator side

// InFlight is the number of bytes written in direction d and not yet delivered (0 for a cut connection).
func (p *Pair) InFlight(d Dir) int {
	p.n.mu.Lock()
	defer p.n.mu.Unlock()
	if p.cut || p.rst {
		return 0
	}
	return len(p.h[d].queue)
}

// FinPending reports that the writer of direction d closed, everything it wrote was delivered, and the
// reader has not been told yet.
func (p *Pair) FinPending(d Dir) bool {
	p.n.mu.Lock()
	defer p.n.mu.Unlock()
	h := p.h[d]
	return !p.cut && !p.rst && h.fin && !h.finDelivered && len(h.queue) == 0
}

// Deliver makes the next n in-flight bytes of direction d readable.
func (p *Pair) Deliver(d Dir, n int) {
	p.n.mu.Lock()
	defer p.n.mu.Unlock()
	h := p.h[d]
	if p.cut || p.rst || n <= 0 {
		return
	}
	if n > len(h.queue) {
		n = len(h.queue)
	}
	h.rbuf = append(h.rbuf, h.queue[:n]...)
	h.queue = h.queue[n:]
	if len(h.queue) == 0 {
		h.queue = nil
	}
	h.delivered += n
	h.broadcast()
}

// DeliverFin tells the reader of direction d that the writer closed.
func (p *Pair) DeliverFin(d Dir) {
	p.n.mu.Lock()
	defer p.n.mu.Unlock()
	h := p.h[d]
	if p.cut || p.rst || !h.fin || len(h.queue) > 0 {
		return
	}
	h.finDelivered = true
	h.broadcast()
}

// Reset kills the connection: both ends fail with ECONNRESET from now on, in-flight bytes are lost.
func (p *Pair) Reset() {
	p.n.mu.Lock()
	defer p.n.mu.Unlock()
	p.rst = true
	for _, h := range p.h {
		h.queue, h.rbuf = nil, nil
		h.broadcast()
	}
}

// Cut silently blackholes the connection: nothing in flight or written later is ever delivered, closes are
// not propagated.  Each end finds out through its own timeouts only.
func (p *Pair) Cut() {
	p.n.mu.Lock()
	defer p.n.mu.Unlock()
	p.cut = true
}

func (p *Pair) IsCut() bool   { p.n.mu.Lock(); defer p.n.mu.Unlock(); return p.cut }
func (p *Pair) IsReset() bool { p.n.mu.Lock(); defer p.n.mu.Unlock(); return p.rst }

// SetLimit bounds (n>0) or unbounds (n==0) the bytes direction d may hold unread before Write blocks.
func (p *Pair) SetLimit(d Dir, n int) {
	p.n.mu.Lock()
	defer p.n.mu.Unlock()
	p.h[d].limit = n
	p.h[d].broadcast()
}

func (p *Pair) Limit(d Dir) int { p.n.mu.Lock(); defer p.n.mu.Unlock(); return p.h[d].limit }

// WriterBlocked reports whether a Write in direction d is waiting for buffer space right now.
func (p *Pair) WriterBlocked(d Dir) bool {
	p.n.mu.Lock()
	defer p.n.mu.Unlock()
	return p.h[d].blockedW > 0
}

// ReaderBlocked reports whether a Read of direction d is waiting for data right now.
func (p *Pair) ReaderBlocked(d Dir) bool {
	p.n.mu.Lock()
	defer p.n.mu.Unlock()
	return p.h[d].blockedR > 0
}

// Written / Delivered are byte counters of direction d.
func (p *Pair) Written(d Dir) int   { p.n.mu.Lock(); defer p.n.mu.Unlock(); return p.h[d].written }
func (p *Pair) Delivered(d Dir) int { p.n.mu.Lock(); defer p.n.mu.Unlock(); return p.h[d].delivered }

// Dead reports that nothing can ever happen on the pair again from the transport's point of view:
// both ends closed, or reset, or cut with both ends closed.
func (p *Pair) Dead() bool {
	p.n.mu.Lock()
	defer p.n.mu.Unlock()
	return p.Client.closed && p.Server.closed
}

var _ net.Conn = (*End)(nil)
var _ net.Listener = (*Listener)(nil)
var _ = errors.New
