// Engine typha (C24): the real snapcache.Cache, syncserver.Server and 1-4 real
// syncclient.SyncerClient instances inside one testing/synctest bubble, joined
// by the simulated transport in ./simnet.  The simulator goroutine owns the
// upstream feed, every transport delivery decision, every fault and the clock;
// between two simulator actions it waits for the bubble to go quiescent, so at
// most the goroutines woken by ONE action run at a time.
//
// Oracles (observed at the clients' SyncerCallbacks):
//   - versions of a key never decrease within one connection;
//   - a value's embedded version agrees with its revision, keys are known;
//   - when a connection is told in-sync its version vector is >= (key-wise,
//     deletions included) the vector the server cache held when the cache itself
//     became in-sync;
//   - at quiescence (upstream idle, faults off, bounded simulated time) every
//     still-running client's connection is in-sync and its key/value view equals
//     the cache's current view, which equals the upstream model.
package h_typha

import (
	"context"
	"fmt"
	"net"
	"os"
	"runtime"
	"sort"
	"strconv"
	"strings"
	"sync"
	"testing"
	"testing/synctest"
	"time"

	"github.com/sirupsen/logrus"

	"github.com/projectcalico/calico/libcalico-go/lib/backend/api"
	"github.com/projectcalico/calico/libcalico-go/lib/backend/model"
	"github.com/projectcalico/calico/typha/pkg/discovery"
	"github.com/projectcalico/calico/typha/pkg/snapcache"
	"github.com/projectcalico/calico/typha/pkg/syncclient"
	"github.com/projectcalico/calico/typha/pkg/syncproto"
	"github.com/projectcalico/calico/typha/pkg/syncserver"

	"verifsim/core"
	"verifsim/h_typha/simnet"
	"verifsim/rt"
)

func TestSim(t *testing.T) {
	core.Main(t, "typha", []string{"C24"}, func(r *core.R) { run(t, r) })
}

// run starts the bubble on its own goroutine.  The cache's wake-up ticker (and other SUT tickers) cannot be
// stopped, so the bubble never drains; when the simulation is over the bubble's root goroutine parks on a
// channel from OUTSIDE the bubble (not durably blocking => the fake clock freezes) and the run returns.
func run(t *testing.T, r *core.R) {
	r.FaultDecl("server_goroutine_held_at_binsnap-write-start", "server_goroutine_held_at_stream-snapshot-start", "server_goroutine_held_at_delta-next-crumb")
	r.FaultDecl("stall_s2c", "stall_c2s", "fragmented_delivery", "reset_in_handshake", "reset_in_snapshot", "reset_in_deltas",
		"reset_after_partial_delivery", "connect_refused", "connect_blackholed", "half_open", "governor_limit", "client_stopped",
		"slow_client_callbacks", "finite_send_buffer", "status_flap", "slow_reader_scenario")
	r.ProbeDecl("server_writer_blocked", "binary_snapshot_sent", "streamed_snapshot_sent", "binary_snapshot_cache_reused", "client_fell_behind_dropped",
		"grace_period_used", "pong_timeout_drop", "governor_dropped_connection", "snapshot_write_partial_timeout",
		"server_write_failed", "client_read_failed", "client_reconnected", "client_restart_gave_up", "client_exited_not_restart_aware",
		"client_start_failed", "insync_checked", "insync_checked_after_reconnect", "insync_from_older_cached_snapshot",
		"join_before_server_insync", "join_after_deletes", "client_saw_delete", "client_saw_delete_of_unseen_key",
		"dup_update_fed", "delete_of_absent_key_fed", "cache_batch_split", "final_clients_judged", "final_fresh_client_judged",
		"finite_window_closed_with_blocked_writer", "idle_soak_kept_connection", "idle_soak_reconnected", "legacy_client", "restart_aware_client",
		"multi_message_snapshot", "handshake_failed")
	if os.Getenv("VERIF_TYPHA_GDUMP") != "" {
		buf := make([]byte, 1<<20)
		os.Stderr.Write(buf[:runtime.Stack(buf, true)])
	}
	done := make(chan struct{})
	hold := make(chan struct{})
	go func() {
		synctest.Test(t, func(t *testing.T) {
			simulateGuarded(r)
			synctest.Wait()
			close(done)
			<-hold
		})
	}()
	<-done
}

func simulateGuarded(r *core.R) {
	defer func() {
		if p := recover(); p != nil {
			r.Violation("sut_panic", "panic on the simulator goroutine: %v", p)
		}
	}()
	simulate(r)
}

// ---------------------------------------------------------------- model types

type kstate struct {
	ver     int
	present bool
}

// period is a maximal run of breadcrumbs with status in-sync.
type period struct {
	startSeq uint64
	endSeq   uint64 // first crumb after the period; 0 while open
	vec      []kstate
}

type crumbInfo struct {
	seq uint64
	ts  time.Time
}

// heldYield is a server goroutine parked at one of the simYield points (verif hook in typha/pkg/syncserver).
type heldYield struct {
	point string
	ch    chan struct{}
}

type harness struct {
	r  *core.R
	mu sync.Mutex // guards everything below that client goroutines / the log hook touch

	// yield seam: the harness arms the next n yields (a draw it makes itself, between two actions); a server
	// goroutine that reaches an armed yield parks until a later action releases it, so that cache publications
	// and other connections' progress fall between its read of a breadcrumb and its use of it
	yieldArm int
	held     []heldYield

	net    *simnet.Net
	cache  *snapcache.Cache
	server *syncserver.Server
	ctx    context.Context

	nKeys   int
	keys    []model.Key
	keyName map[string]int // model key string -> index
	pathIdx map[string]int // serialized path -> index

	// upstream model (what the "datastore" holds) and its per-key history
	up       []kstate
	hist     [][]kstate
	upStatus api.SyncStatus
	upOps    int

	// the cache as observed through its breadcrumb chain
	lastCrumb   *snapcache.Breadcrumb
	cacheVec    []kstate
	cacheStatus api.SyncStatus
	periods     []period
	crumbs      []crumbInfo

	// configuration
	pingInterval   time.Duration
	pongTimeout    time.Duration
	readTimeout    time.Duration
	cliWriteTO     time.Duration
	binSnapTimeout time.Duration
	maxFallBehind  time.Duration
	grace          time.Duration
	srvWriteTO     time.Duration
	handshakeTO    time.Duration
	maxUpdBatch    int
	maxBurst       int
	pDelete        int
	pDup           int

	slots    []*slot
	incs     map[string]*inc // by dial address
	pairInfo map[int]*pairState
	quiesce  bool
	maxConns int
	start    time.Time

	act, sub     uint64
	trace        bool
	binSent      int
	binGenerated int
	sutTrace     bool
}

type pairState struct {
	p                *simnet.Pair
	inc              *inc
	stallUntil       [2]time.Time
	finiteTill       time.Time // s2c buffer is bounded until then (zero: unbounded)
	sawBlocked       bool
	stallWhenBlocked time.Duration
}

type slot struct {
	id    int
	cur   *inc
	gen   int
	speed int
}

// inc is one incarnation of a SyncerClient in a slot ("one Felix process").
type inc struct {
	h            *harness
	slot         *slot
	name         string
	addr         string
	legacy       bool
	restartAware bool
	client       *syncclient.SyncerClient
	cancel       context.CancelFunc
	fresh        bool // created during quiesce

	// guarded by h.mu
	started  bool
	startErr error
	exited   bool
	stopped  bool
	cbDelay  time.Duration
	cbEvery  int
	cbCount  int
	restarts int

	// connection-scoped, reset when a dial is accepted
	connN        int
	pair         *simnet.Pair
	view         map[int]kstate
	status       api.SyncStatus
	statusCBs    int
	kvCBs        int
	srvStatuses  int
	sawInSync    bool
	boundPeriod  int
	seqAtDial    uint64
	binFloor     uint64
	inSyncChecks int
}

type plainCB struct{ i *inc }
type restartCB struct{ plainCB }

func (c plainCB) OnStatusUpdated(st api.SyncStatus) { c.i.onStatus(st) }
func (c plainCB) OnUpdates(us []api.Update)         { c.i.onUpdates(us) }
func (c restartCB) OnTyphaConnectionRestarted()     { c.i.onRestarted() }

func fmtVec(v []kstate) string {
	var sb strings.Builder
	for k, s := range v {
		if s.ver == 0 {
			continue
		}
		if s.present {
			fmt.Fprintf(&sb, "k%02d=v%d ", k, s.ver)
		} else {
			fmt.Fprintf(&sb, "k%02d=del@%d ", k, s.ver)
		}
	}
	return sb.String()
}

func fmtView(m map[int]kstate) string {
	ks := make([]int, 0, len(m))
	for k := range m {
		ks = append(ks, k)
	}
	sort.Ints(ks)
	var sb strings.Builder
	for _, k := range ks {
		if m[k].present {
			fmt.Fprintf(&sb, "k%02d=v%d ", k, m[k].ver)
		}
	}
	return sb.String()
}

// ---------------------------------------------------------------- client callbacks (run on client goroutines)

func (i *inc) tag() string { return fmt.Sprintf("%s conn%d", i.name, i.connN) }

func (i *inc) maybeDelay() {
	h := i.h
	h.mu.Lock()
	i.cbCount++
	d := time.Duration(0)
	if i.cbDelay > 0 && !h.quiesce && i.cbEvery > 0 && i.cbCount%i.cbEvery == 0 {
		d = i.cbDelay
	}
	h.mu.Unlock()
	if d > 0 {
		time.Sleep(d)
	}
}

func (i *inc) onRestarted() {
	h := i.h
	h.mu.Lock()
	i.restarts++
	h.r.Logf("  %s: OnTyphaConnectionRestarted", i.tag())
	h.mu.Unlock()
}

func (i *inc) onStatus(st api.SyncStatus) {
	h := i.h
	h.mu.Lock()
	r := h.r
	own := false
	switch {
	case st == api.WaitForDatastore:
		own = true // the client's own announcement before it re-dials (upstream never reports it again)
	case i.statusCBs == 0 && st == api.ResyncInProgress:
		own = true // the client's own announcement when its loop starts
	}
	r.Logf("  %s: OnStatusUpdated(%v)%s", i.tag(), st, map[bool]string{true: " [client's own]", false: ""}[own])
	i.statusCBs++
	i.status = st
	if !own {
		i.srvStatuses++
		if st == api.InSync {
			h.checkInSync(i)
			i.sawInSync = true
		} else if i.sawInSync {
			// the server left its in-sync period: a later in-sync belongs to a later period
			i.sawInSync = false
			i.boundPeriod++
		}
	}
	h.mu.Unlock()
	i.maybeDelay()
}

func (i *inc) onUpdates(us []api.Update) {
	h := i.h
	h.mu.Lock()
	r := h.r
	i.kvCBs++
	if i.kvCBs == 2 && i.srvStatuses == 0 {
		r.Probe("multi_message_snapshot")
	}
	var sb strings.Builder
	for _, u := range us {
		k, ok := h.keyName[fmt.Sprint(u.Key)]
		if !ok {
			r.Violation("unknown_key", "%s was sent key %v which upstream never wrote", i.tag(), u.Key)
		}
		ver, err := strconv.Atoi(u.Revision)
		if err != nil {
			r.Violation("bad_value", "%s: k%02d arrived with unparsable revision %v", i.tag(), k, u.Revision)
		}
		present := u.Value != nil
		if present {
			s, _ := u.Value.(string)
			if s != fmt.Sprintf("v%d", ver) {
				r.Violation("bad_value", "%s: k%02d arrived with value %q but revision %d", i.tag(), k, s, ver)
			}
			fmt.Fprintf(&sb, "k%02d=v%d ", k, ver)
		} else {
			fmt.Fprintf(&sb, "k%02d=del@%d ", k, ver)
			r.Probe("client_saw_delete")
			if _, seen := i.view[k]; !seen {
				r.Probe("client_saw_delete_of_unseen_key")
			}
		}
		// the version must be one upstream really wrote with that presence
		if !h.wrote(k, ver, present) {
			r.Violation("bad_value", "%s: k%02d arrived as version %d present=%v, which upstream never wrote", i.tag(), k, ver, present)
		}
		if prev, seen := i.view[k]; seen {
			r.Check("versions_non_decreasing", ver >= prev.ver,
				"%s: k%02d went from version %d back to version %d within one connection", i.tag(), k, prev.ver, ver)
		} else {
			r.Eval()
		}
		i.view[k] = kstate{ver, present}
	}
	r.Logf("  %s: OnUpdates(%d: %s)", i.tag(), len(us), sb.String())
	h.mu.Unlock()
	i.maybeDelay()
}

func (h *harness) wrote(k, ver int, present bool) bool {
	for _, s := range h.hist[k] {
		if s.ver == ver {
			return s.present == present
		}
	}
	return false
}

// absentAtOrAfter: upstream held key k absent at some version >= ver.
func (h *harness) absentAtOrAfter(k, ver int) bool {
	if ver == 0 {
		return true
	}
	for _, s := range h.hist[k] {
		if s.ver >= ver && !s.present {
			return true
		}
	}
	return false
}

// checkInSync: connection i was just told in-sync by the server.  h.mu held.
func (h *harness) checkInSync(i *inc) {
	r := h.r
	h.observe()
	floor := i.seqAtDial
	if !i.legacy && i.binFloor < floor {
		floor = i.binFloor
	}
	p := -1
	for n, pd := range h.periods {
		if pd.endSeq == 0 || pd.endSeq > floor {
			p = n
			break
		}
	}
	if p >= 0 && p < i.boundPeriod {
		p = i.boundPeriod
	}
	if p < 0 || p >= len(h.periods) {
		r.Violation("insync_without_server_insync", "%s was told in-sync but the server cache had no in-sync period this connection can have observed (crumb floor %d, %d periods, cache status %v)",
			i.tag(), floor, len(h.periods), h.cacheStatus)
	}
	if h.periods[p].endSeq != 0 && h.periods[p].endSeq <= i.seqAtDial {
		r.Probe("insync_from_older_cached_snapshot")
	}
	i.boundPeriod = p
	vec := h.periods[p].vec
	for k := 0; k < h.nKeys; k++ {
		s := vec[k]
		c, seen := i.view[k]
		if seen {
			if c.ver < s.ver {
				r.Violation("insync_view_behind", "%s was told in-sync holding k%02d at version %d, but the server cache held version %d (present=%v) when it became in-sync (period %d from crumb %d): client {%s} server-at-insync {%s}",
					i.tag(), k, c.ver, s.ver, s.present, p, h.periods[p].startSeq, fmtView(i.view), fmtVec(vec))
			}
		} else if !h.absentAtOrAfter(k, s.ver) {
			r.Violation("insync_view_behind", "%s was told in-sync without ever being sent k%02d, but the server cache held it at version %d when it became in-sync and it was never deleted since: client {%s} server-at-insync {%s}",
				i.tag(), k, s.ver, fmtView(i.view), fmtVec(vec))
		}
	}
	r.Eval()
	i.inSyncChecks++
	r.Probe("insync_checked")
	if i.connN > 1 {
		r.Probe("insync_checked_after_reconnect")
	}
}

// settle waits until every goroutine in the bubble is durably blocked, then re-seeds the runtime seam (map
// iteration, select poll order, math/rand) as a function of (seed, step).  Without the re-seed a benign
// reordering of two SUT goroutines inside one window (the Go scheduler's 10 ms cooperative preemption fires
// on a loaded machine) would shift the stream for the rest of the run and, through ticker jitter, change the
// whole execution; with it, a window's reordering can only matter through what it did inside that window.
// onYield is the simYield hook: called on server goroutines at the points named in typha/pkg/syncserver.
func (h *harness) onYield(point string) {
	h.mu.Lock()
	if h.quiesce || h.yieldArm == 0 {
		h.mu.Unlock()
		return
	}
	h.yieldArm--
	y := heldYield{point: point, ch: make(chan struct{})}
	h.held = append(h.held, y)
	h.mu.Unlock()
	h.r.Fault("server_goroutine_held_at_" + point)
	<-y.ch
}

func (h *harness) settle() {
	synctest.Wait()
	h.sub++
	rt.Seed((h.r.Seed^0x7f4a7c15)*0x9e3779b97f4a7c15 + h.act*0xbf58476d1ce4e5b9 + h.sub*0x94d049bb133111eb)
}

// pendingDials lists undecided dials by dialer name: two clients that dial in the same window arrive in an order
// the Go scheduler picks, which must not matter.
func (h *harness) pendingDials() []*simnet.Dial {
	ds := h.net.Pending()
	sort.Slice(ds, func(a, b int) bool { return ds[a].Addr < ds[b].Addr })
	return ds
}

// dbg prints volatile detail (byte counts, which keep-alive travelled when) for a human; it is NOT part of the
// hashed event log.
func (h *harness) dbg(format string, a ...interface{}) {
	if h.trace {
		fmt.Fprintf(os.Stderr, "      . "+format+"\n", a...)
	}
}

// ---------------------------------------------------------------- observing the cache

// observe folds the deltas of every breadcrumb published since the last call.  h.mu held.
func (h *harness) observe() {
	latest := h.cache.CurrentBreadcrumb()
	for h.lastCrumb.SequenceNumber < latest.SequenceNumber {
		next, err := h.lastCrumb.Next(context.Background())
		if err != nil {
			h.r.HarnessError("breadcrumb chain walk failed: %v", err)
		}
		h.lastCrumb = next
		for _, d := range next.Deltas {
			k, ok := h.pathIdx[d.Key]
			if !ok {
				h.r.Violation("unknown_key", "cache published a delta for path %q which upstream never wrote", d.Key)
			}
			ver, err := strconv.Atoi(fmt.Sprint(d.Revision))
			if err != nil {
				h.r.Violation("bad_value", "cache published k%02d with unparsable revision %v", k, d.Revision)
			}
			h.cacheVec[k] = kstate{ver, d.Value != nil}
		}
		h.crumbs = append(h.crumbs, crumbInfo{next.SequenceNumber, next.Timestamp})
		st := next.SyncStatus
		if st == api.InSync && h.cacheStatus != api.InSync {
			h.periods = append(h.periods, period{startSeq: next.SequenceNumber, vec: append([]kstate(nil), h.cacheVec...)})
			h.r.Logf("cache: crumb %d became in-sync holding {%s}", next.SequenceNumber, fmtVec(h.cacheVec))
		}
		if st != api.InSync && h.cacheStatus == api.InSync {
			h.periods[len(h.periods)-1].endSeq = next.SequenceNumber
			h.r.Logf("cache: crumb %d left in-sync (%v)", next.SequenceNumber, st)
		}
		h.cacheStatus = st
	}
}

// cacheView decodes the current breadcrumb's snapshot.
func (h *harness) cacheView() map[int]kstate {
	out := map[int]kstate{}
	bc := h.cache.CurrentBreadcrumb()
	bc.KVs.Ascend(func(su syncproto.SerializedUpdate) bool {
		k, ok := h.pathIdx[su.Key]
		if !ok {
			h.r.Violation("unknown_key", "cache snapshot holds path %q which upstream never wrote", su.Key)
		}
		var ver int
		if _, err := fmt.Sscanf(string(su.Value), "v%d", &ver); err != nil {
			h.r.Violation("bad_value", "cache snapshot holds k%02d with unparsable value %q", k, string(su.Value))
		}
		out[k] = kstate{ver, true}
		return true
	})
	return out
}

// ---------------------------------------------------------------- log hook: SUT branches reached

type nullFormatter struct{}

func (nullFormatter) Format(*logrus.Entry) ([]byte, error) { return nil, nil }

type probeHook struct{ h *harness }

func (probeHook) Levels() []logrus.Level { return logrus.AllLevels }

func (p probeHook) Fire(e *logrus.Entry) error {
	r := p.h.r
	m := e.Message
	switch {
	case m == "Client fell behind. Disconnecting.":
		r.Probe("client_fell_behind_dropped")
	case strings.HasPrefix(m, "Client is a long way behind after sending snapshot"):
		r.Probe("grace_period_used")
	case m == "Too long since last pong from client, disconnecting":
		r.Probe("pong_timeout_drop")
	case m == "Sent compressed binary snapshot and received ACK from client.":
		r.Probe("binary_snapshot_sent")
	case m == "Finished sending snapshot to client":
		r.Probe("streamed_snapshot_sent")
	case strings.HasPrefix(m, "Closing connection; reason: re-balance"):
		r.Probe("governor_dropped_connection")
	case strings.HasPrefix(m, "Transferred part of snapshot to client before write timed out"):
		r.Probe("snapshot_write_partial_timeout")
	case m == "Failed to write to client" || m == "Failed to flush write to client":
		r.Probe("server_write_failed")
	case m == "Failed to read from server":
		r.Probe("client_read_failed")
	case m == "Failed to restart Typha client. Exiting...":
		r.Probe("client_restart_gave_up")
	case m == "Typha client callback is not restart-aware. Exiting...":
		r.Probe("client_exited_not_restart_aware")
	case m == "Failed to read client hello.":
		r.Probe("handshake_failed")
	case m == "Starting to write snapshot":
		if e.Data["destination"] == "compressed in-memory cache" {
			p.h.mu.Lock()
			p.h.binGenerated++
			p.h.mu.Unlock()
		}
	}
	if m == "Sent compressed binary snapshot and received ACK from client." {
		p.h.mu.Lock()
		p.h.binSent++
		p.h.mu.Unlock()
	}
	if p.h.sutTrace {
		r.Logf("    sut[%v]: %s %v", e.Level, m, e.Data)
	}
	return nil
}

// ---------------------------------------------------------------- the simulation

var durs = func(ms ...int) []time.Duration {
	out := make([]time.Duration, len(ms))
	for i, m := range ms {
		out[i] = time.Duration(m) * time.Millisecond
	}
	return out
}

func (h *harness) pick(ds []time.Duration, label string) time.Duration {
	return ds[h.r.Src.Intn(len(ds), label)]
}

func simulate(r *core.R) {
	h := &harness{r: r, incs: map[string]*inc{}, pairInfo: map[int]*pairState{}, keyName: map[string]int{}, pathIdx: map[string]int{}}
	h.start = time.Now()
	h.sutTrace = os.Getenv("VERIF_TYPHA_SUTTRACE") != ""
	h.trace = os.Getenv("VERIF_TRACE") != ""
	thorough := r.Tier == "thorough"
	src := r.Src

	// ---- swarm configuration
	big := src.Chance(150, "big")
	h.nKeys = src.Range(1, 8, "n_keys")
	cacheBatch := src.Range(1, 6, "cache_batch")
	maxMsg := src.Range(1, 5, "max_msg")
	if big {
		h.nKeys = src.Range(12, 40, "n_keys_big")
		cacheBatch = src.Range(4, 30, "cache_batch_big")
		maxMsg = src.Range(2, 20, "max_msg_big")
	}
	wakeUp := h.pick(durs(1000, 200, 50), "cache_wakeup")
	h.pingInterval = h.pick(durs(30000, 10000, 5000, 2000), "ping_interval")
	pongMul := []int{0, 25, 40}[src.Intn(3, "pong_timeout_mul")]
	h.pongTimeout = h.pingInterval * time.Duration(pongMul) / 10
	effPong := h.pongTimeout
	if effPong <= 2*h.pingInterval {
		effPong = 6 * h.pingInterval
	}
	h.readTimeout = h.pingInterval * time.Duration([]int{30, 20, 15}[src.Intn(3, "read_timeout_mul")]) / 10
	h.cliWriteTO = h.pick(durs(10000, 1000), "client_write_timeout")
	h.binSnapTimeout = h.pick(durs(1, 50, 500, 3000), "bin_snap_timeout")
	h.maxFallBehind = h.pick(durs(60000, 1000, 500, 200), "max_fall_behind")
	h.grace = h.pick(durs(60000, 1000, 300, 50), "fall_behind_grace")
	h.srvWriteTO = h.pick(durs(10000, 5000, 1000), "server_write_timeout")
	h.handshakeTO = h.pick(durs(10000, 3000, 1000), "handshake_timeout")
	dropInterval := h.pick(durs(1000, 200, 50), "drop_interval")
	minBatchAge := h.pick(durs(100, 10, 1), "min_batching_age")
	nSlots := src.Range(1, 4, "n_clients")
	nSteps := src.Range(40, 220, "n_steps")
	if thorough {
		nSteps = src.Range(40, 600, "n_steps_thorough")
	}
	h.maxUpdBatch = src.Range(1, 2*cacheBatch+1, "max_upd_batch")
	h.maxBurst = src.Range(1, 4, "max_burst")
	h.pDelete = src.Range(100, 500, "delete_permille")
	h.pDup = []int{0, 60, 200}[src.Intn(3, "dup_rate")]
	wFeed := src.Range(3, 40, "feed_weight")
	wTime := src.Range(3, 30, "time_weight")
	// fault weights: index 0 = off
	wStall := []int{0, 4, 10}[src.Intn(3, "stall_rate")]
	wReset := []int{0, 3, 7}[src.Intn(3, "reset_rate")]
	wCut := []int{0, 2, 4}[src.Intn(3, "half_open_rate")]
	pRefuse := []int{0, 150, 500}[src.Intn(3, "refuse_rate")]
	pBlackhole := []int{0, 0, 150}[src.Intn(3, "dial_blackhole_rate")]
	wGovern := []int{0, 2, 4}[src.Intn(3, "governor_rate")]
	wChurn := []int{0, 2, 5}[src.Intn(3, "client_churn_rate")]
	pFragment := []int{0, 300, 800}[src.Intn(3, "fragment_rate")]
	pFinite := []int{0, 400, 900}[src.Intn(3, "finite_buffer_rate")]
	pSlowCB := []int{0, 200, 600}[src.Intn(3, "slow_callback_rate")]
	pLegacy := []int{300, 0, 1000, 500}[src.Intn(4, "legacy_client_mix")]
	pRestartAware := []int{700, 1000, 0, 400}[src.Intn(4, "restart_aware_mix")]
	preBursts := src.Intn(6, "initial_bursts")

	r.Cfg("n_keys", h.nKeys)
	r.Cfg("cache_batch", cacheBatch)
	r.Cfg("max_msg", maxMsg)
	r.Cfg("ping_interval_ms", h.pingInterval.Milliseconds())
	r.Cfg("pong_timeout_ms", effPong.Milliseconds())
	r.Cfg("read_timeout_ms", h.readTimeout.Milliseconds())
	r.Cfg("bin_snap_timeout_ms", h.binSnapTimeout.Milliseconds())
	r.Cfg("max_fall_behind_ms", h.maxFallBehind.Milliseconds())
	r.Cfg("grace_ms", h.grace.Milliseconds())
	r.Cfg("server_write_timeout_ms", h.srvWriteTO.Milliseconds())
	r.Cfg("handshake_timeout_ms", h.handshakeTO.Milliseconds())
	r.Cfg("n_clients", nSlots)
	r.Cfg("n_steps", nSteps)
	r.Cfg("faults", fmt.Sprintf("stall=%d reset=%d cut=%d refuse=%d blackhole=%d govern=%d churn=%d frag=%d finite=%d slowcb=%d",
		wStall, wReset, wCut, pRefuse, pBlackhole, wGovern, wChurn, pFragment, pFinite, pSlowCB))

	// ---- keys
	h.keys = make([]model.Key, h.nKeys)
	h.up = make([]kstate, h.nKeys)
	h.hist = make([][]kstate, h.nKeys)
	h.cacheVec = make([]kstate, h.nKeys)
	for k := range h.keys {
		if k%2 == 0 {
			h.keys[k] = model.GlobalConfigKey{Name: fmt.Sprintf("k%02d", k)}
		} else {
			h.keys[k] = model.HostConfigKey{Hostname: "host", Name: fmt.Sprintf("k%02d", k)}
		}
		h.keyName[fmt.Sprint(h.keys[k])] = k
		p, err := model.KeyToDefaultPath(h.keys[k])
		if err != nil {
			r.HarnessError("cannot serialise key: %v", err)
		}
		h.pathIdx[p] = k
	}

	// ---- SUT logging: probes only
	if os.Getenv("VERIF_SUTLOG") == "" {
		logrus.SetFormatter(nullFormatter{})
		logrus.SetLevel(logrus.InfoLevel)
	}
	logrus.AddHook(probeHook{h})

	// ---- the system under test
	h.net = simnet.New()
	syncserver.SetSimListen(func(addr string) net.Listener { return h.net.Listen(5473) })
	syncserver.SetSimYield(h.onYield)
	syncclient.SetSimDial(func(addr string) (net.Conn, error) { return h.net.Dial(addr) })
	ctx, cancelAll := context.WithCancel(context.Background())
	_ = cancelAll
	h.ctx = ctx
	h.cache = snapcache.New(snapcache.Config{MaxBatchSize: cacheBatch, WakeUpInterval: wakeUp, Name: "felix"})
	h.lastCrumb = h.cache.CurrentBreadcrumb()
	h.crumbs = []crumbInfo{{h.lastCrumb.SequenceNumber, h.lastCrumb.Timestamp}}
	h.cache.Start(ctx)
	h.maxConns = 1000
	h.server = syncserver.New(
		map[syncproto.SyncerType]syncserver.BreadcrumbProvider{syncproto.SyncerTypeFelix: h.cache},
		syncserver.Config{
			Host: "127.0.0.1", Port: syncserver.PortRandom,
			MaxMessageSize: maxMsg, BinarySnapshotTimeout: h.binSnapTimeout,
			MaxFallBehind: h.maxFallBehind, NewClientFallBehindGracePeriod: h.grace,
			MinBatchingAgeThreshold: minBatchAge, PingInterval: h.pingInterval, PongTimeout: h.pongTimeout,
			HandshakeTimeout: h.handshakeTO, WriteTimeout: h.srvWriteTO, DropInterval: dropInterval,
			MaxConns: h.maxConns,
		})
	h.server.Start(ctx)
	h.settle()
	_ = h.server.Port()

	for s := 0; s < nSlots; s++ {
		h.slots = append(h.slots, &slot{id: s, speed: src.Range(1, 20, "client_speed")})
	}

	newInc := func(s *slot) *inc {
		s.gen++
		i := &inc{h: h, slot: s, name: fmt.Sprintf("c%d#%d", s.id, s.gen), view: map[int]kstate{}}
		i.addr = fmt.Sprintf("sim-%s:5473", i.name)
		i.legacy = src.Chance(pLegacy, "legacy_client")
		i.restartAware = src.Chance(pRestartAware, "restart_aware")
		if !h.quiesce && src.Chance(pSlowCB, "slow_callbacks") {
			i.cbDelay = h.pick(durs(5, 50, 400, 1500), "cb_delay")
			i.cbEvery = src.Range(1, 4, "cb_every")
			r.Fault("slow_client_callbacks")
		}
		if i.legacy {
			r.Probe("legacy_client")
		}
		if i.restartAware {
			r.Probe("restart_aware_client")
		}
		var cbs api.SyncerCallbacks = plainCB{i}
		if i.restartAware {
			cbs = restartCB{plainCB{i}}
		}
		i.client = syncclient.New(discovery.New(discovery.WithAddrOverride(i.addr)), "v0", i.name, "sim", cbs,
			&syncclient.Options{ReadTimeout: h.readTimeout, WriteTimeout: h.cliWriteTO, DisableDecoderRestart: i.legacy, SyncerType: syncproto.SyncerTypeFelix})
		cctx, cancel := context.WithCancel(ctx)
		i.cancel = cancel
		i.fresh = h.quiesce
		h.mu.Lock()
		h.incs[i.addr] = i
		s.cur = i
		h.mu.Unlock()
		r.Op("start client %s (legacy=%v restartAware=%v cbDelay=%v/%d)", i.name, i.legacy, i.restartAware, i.cbDelay, i.cbEvery)
		go func() {
			err := i.client.Start(cctx)
			h.mu.Lock()
			i.started, i.startErr = true, err
			if err != nil {
				i.exited = true
				r.Probe("client_start_failed")
				h.dbg("%s: Start failed", i.name)
			}
			h.mu.Unlock()
			if err == nil {
				i.client.Finished.Wait()
				h.mu.Lock()
				i.exited = true
				h.dbg("%s: client finished", i.name)
				h.mu.Unlock()
			}
		}()
		return i
	}

	alive := func(i *inc) bool {
		if i == nil {
			return false
		}
		h.mu.Lock()
		defer h.mu.Unlock()
		return !i.exited && !i.stopped
	}

	// ---- upstream feed.  A burst is prepared completely (draws, model, log) and only then handed to the cache in
	// back-to-back channel sends, so that the window in which both the simulator and the cache goroutine are
	// runnable is a few instructions long (the cache's batching depends on how many items it finds queued).
	var sends []func()
	feedStatus := func(st api.SyncStatus) {
		r.Op("upstream status %v", st)
		h.mu.Lock()
		h.upStatus = st
		h.mu.Unlock()
		sends = append(sends, func() { h.cache.OnStatusUpdated(st) })
	}
	feedUpdates := func() {
		n := src.Range(1, h.maxUpdBatch, "upd_n")
		var us []api.Update
		var sb strings.Builder
		h.mu.Lock()
		for ; n > 0; n-- {
			k := src.Intn(h.nKeys, "up_key")
			cur := h.up[k]
			u := api.Update{KVPair: model.KVPair{Key: h.keys[k]}}
			switch {
			case cur.present && src.Chance(h.pDelete, "up_delete"), !cur.present && cur.ver > 0 && src.Chance(40, "up_delete_absent"):
				if !cur.present {
					r.Probe("delete_of_absent_key_fed")
				}
				nv := kstate{cur.ver + 1, false}
				h.up[k] = nv
				h.hist[k] = append(h.hist[k], nv)
				u.Revision = fmt.Sprint(nv.ver)
				u.UpdateType = api.UpdateTypeKVDeleted
				fmt.Fprintf(&sb, "k%02d=del@%d ", k, nv.ver)
			case cur.present && src.Chance(h.pDup, "up_dup"):
				r.Probe("dup_update_fed")
				u.Value = fmt.Sprintf("v%d", cur.ver)
				u.Revision = fmt.Sprint(cur.ver)
				u.UpdateType = api.UpdateTypeKVUpdated
				if src.Chance(300, "up_dup_as_new") {
					u.UpdateType = api.UpdateTypeKVNew
				}
				fmt.Fprintf(&sb, "k%02d=v%d(dup) ", k, cur.ver)
			default:
				nv := kstate{cur.ver + 1, true}
				h.up[k] = nv
				h.hist[k] = append(h.hist[k], nv)
				u.Value = fmt.Sprintf("v%d", nv.ver)
				u.Revision = fmt.Sprint(nv.ver)
				u.UpdateType = api.UpdateTypeKVUpdated
				if !cur.present {
					u.UpdateType = api.UpdateTypeKVNew
				}
				fmt.Fprintf(&sb, "k%02d=v%d ", k, nv.ver)
			}
			us = append(us, u)
		}
		h.upOps++
		h.mu.Unlock()
		if len(us) > cacheBatch {
			r.Probe("cache_batch_split")
		}
		r.Op("upstream OnUpdates(%d: %s)", len(us), sb.String())
		sends = append(sends, func() { h.cache.OnUpdates(us) })
	}
	feedBurst := func() {
		calls := src.Range(1, h.maxBurst, "burst_calls")
		for ; calls > 0; calls-- {
			switch h.upStatus {
			case api.WaitForDatastore:
				feedStatus(api.ResyncInProgress)
			case api.ResyncInProgress:
				if src.Chance(250, "up_insync") {
					feedStatus(api.InSync)
				} else {
					feedUpdates()
				}
			default:
				if !h.quiesce && src.Chance(40, "up_status_flap") {
					r.Fault("status_flap")
					feedStatus(api.ResyncInProgress)
				} else {
					feedUpdates()
				}
			}
		}
		for _, f := range sends {
			f()
		}
		sends = sends[:0]
		h.settle()
		h.mu.Lock()
		h.observe()
		h.mu.Unlock()
	}

	// ---- transport helpers
	livePairs := func() []*pairState {
		var out []*pairState
		for _, p := range h.net.Pairs() {
			if ps := h.pairInfo[p.ID]; ps != nil && !p.Dead() {
				out = append(out, ps)
			}
		}
		return out
	}
	readerOpen := func(ps *pairState, d simnet.Dir) bool {
		if d == simnet.S2C {
			return !ps.p.Client.Closed()
		}
		return !ps.p.Server.Closed()
	}
	phaseOf := func(ps *pairState) string {
		h.mu.Lock()
		defer h.mu.Unlock()
		i := ps.inc
		if i.pair != ps.p {
			return "deltas"
		}
		switch {
		case ps.p.Delivered(simnet.S2C) == 0:
			return "handshake"
		case i.srvStatuses == 0:
			return "snapshot" // (or the server has had no status to report yet)
		}
		return "deltas"
	}
	acceptDial := func(d *simnet.Dial) {
		h.mu.Lock()
		i := h.incs[d.Addr]
		h.mu.Unlock()
		if i == nil {
			r.HarnessError("dial from unknown address %q", d.Addr)
		}
		// every draw and all bookkeeping happens BEFORE the call that wakes the dialer and the accept loop
		lim := 0
		var stall, whenBlocked time.Duration
		if !h.quiesce && src.Chance(pFinite, "finite_buffer") {
			lim = []int{48, 160, 700, 3000}[src.Intn(4, "buffer_bytes")]
			r.Fault("finite_send_buffer")
			if src.Chance(300, "stall_at_accept") {
				stall = h.pick(durs(50, 300, 1000, 3000, 8000), "stall_at_accept_for")
				r.Fault("stall_s2c")
			}
			if wStall > 0 && src.Chance(350, "stall_blocked_writer") {
				whenBlocked = h.pick(durs(300, 1000, 3000, 8000), "stall_blocked_writer_for")
				r.Fault("stall_s2c")
			}
		}
		ps := &pairState{inc: i, stallWhenBlocked: whenBlocked}
		h.mu.Lock()
		h.observe()
		i.connN++
		i.view = map[int]kstate{}
		i.status, i.statusCBs, i.kvCBs, i.srvStatuses = 0, 0, 0, 0
		i.sawInSync, i.boundPeriod, i.inSyncChecks = false, 0, 0
		i.seqAtDial = h.lastCrumb.SequenceNumber
		i.binFloor = 0
		cut := h.lastCrumb.Timestamp.Add(-h.binSnapTimeout)
		for _, c := range h.crumbs {
			if !c.ts.After(cut) && c.seq > i.binFloor {
				i.binFloor = c.seq
			}
		}
		if i.connN > 1 {
			r.Probe("client_reconnected")
		}
		if h.cacheStatus != api.InSync {
			r.Probe("join_before_server_insync")
		}
		for k := range h.up {
			if h.up[k].ver > 0 && !h.up[k].present {
				r.Probe("join_after_deletes")
				break
			}
		}
		r.Logf("accept %s as connection %d (crumb %d, bin floor %d, s2c buffer %d, stalled %v)", i.name, i.connN, i.seqAtDial, i.binFloor, lim, stall)
		h.mu.Unlock()
		p := h.net.AcceptWith(d, lim)
		if p == nil {
			h.mu.Lock()
			i.pair = nil
			h.mu.Unlock()
			return
		}
		ps.p = p
		if lim > 0 {
			ps.finiteTill = p.Opened.Add(h.pingInterval * 9 / 10)
		}
		if stall > 0 {
			ps.stallUntil[simnet.S2C] = p.Opened.Add(stall)
		}
		h.pairInfo[p.ID] = ps
		h.mu.Lock()
		i.pair = p
		h.mu.Unlock()
	}
	unbound := func(ps *pairState) {
		if ps.finiteTill.IsZero() {
			return
		}
		if ps.p.WriterBlocked(simnet.S2C) {
			r.Probe("finite_window_closed_with_blocked_writer")
		}
		ps.finiteTill = time.Time{}
		ps.p.SetLimit(simnet.S2C, 0)
	}
	// advance moves the fake clock; it never lets a ping tick happen while a server-side writer may be
	// blocked holding the connection's write lock (a mutex wait is not durably blocking: the bubble would hang).
	advance := func(d time.Duration) {
		// A held server goroutine stands for a scheduling delay, not for elapsed time: everybody is let go before
		// the clock moves, so holds only reorder work inside one simulated instant.
		h.mu.Lock()
		h.yieldArm = 0
		held := h.held
		h.held = nil
		h.mu.Unlock()
		for _, y := range held {
			r.Logf("release server goroutine held at %s (clock about to advance)", y.point)
			close(y.ch)
		}
		if len(held) > 0 {
			h.settle()
		}
		for d > 0 {
			step := d
			now := time.Now()
			changed := false
			for _, ps := range livePairs() {
				if ps.finiteTill.IsZero() {
					continue
				}
				if !now.Before(ps.finiteTill) {
					unbound(ps)
					changed = true
				} else if until := ps.finiteTill.Sub(now); until < step {
					step = until
				}
			}
			if changed {
				h.settle()
				continue
			}
			if step > 250*time.Millisecond {
				step = 250 * time.Millisecond
			}
			time.Sleep(step)
			d -= step
			h.settle()
		}
	}
	stopClient := func(i *inc) {
		h.mu.Lock()
		i.stopped = true
		h.mu.Unlock()
		i.cancel()
	}
	setMaxConns := func(n int) {
		h.maxConns = n
		h.server.SetMaxConns(n)
	}

	// ---- chaos phase
	//
	// The list of actions and their weights is FIXED for the whole run and every action makes the same draws
	// whether or not it finds something to do.  What a draw means therefore never depends on volatile transport
	// state (is a ping in flight right now?), only on the draw sequence and on stable structure (slots, pairs in
	// creation order).  A sub-millisecond difference in SUT timing then shifts when a keep-alive is carried, not
	// what every later draw means.  Volatile detail goes to dbg (stderr with VERIF_TRACE), not to the hashed log.
	for ; preBursts > 0; preBursts-- {
		h.act++
		h.sub = 0
		feedBurst()
	}
	dirs := []simnet.Dir{simnet.C2S, simnet.S2C}
	curPair := func(s *slot) *pairState {
		if s.cur == nil {
			return nil
		}
		h.mu.Lock()
		p := s.cur.pair
		h.mu.Unlock()
		if p == nil {
			return nil
		}
		ps := h.pairInfo[p.ID]
		if ps == nil || p.Dead() || p.IsCut() || p.IsReset() {
			return nil
		}
		return ps
	}
	// deliverOne hands over what is in flight on one direction (frag eighths of it if frag > 0).
	deliverOne := func(ps *pairState, d simnet.Dir, frag int) bool {
		if ps.p.Dead() || !readerOpen(ps, d) || time.Now().Before(ps.stallUntil[d]) {
			return false
		}
		if n := ps.p.InFlight(d); n > 0 {
			k := n
			if frag > 0 {
				if k = n * frag / 8; k < 1 {
					k = 1
				}
			}
			h.dbg("deliver pair %d %v %d of %d bytes", ps.p.ID, d, k, n)
			ps.p.Deliver(d, k)
			h.settle()
			return true
		}
		if ps.p.FinPending(d) {
			h.dbg("deliver pair %d %v FIN", ps.p.ID, d)
			ps.p.DeliverFin(d)
			h.settle()
			return true
		}
		return false
	}
	nSweep := 0
	// sweep: one pass over every connection in creation order; slow clients are only served every speed-th pass.
	sweep := func(frag int, all bool) bool {
		nSweep++
		did := false
		base := h.sub
		for _, p := range h.net.Pairs() {
			ps := h.pairInfo[p.ID]
			if ps == nil || p.Dead() {
				continue
			}
			for di, d := range dirs {
				h.sub = base + uint64(p.ID)*8 + uint64(di)*4
				if d == simnet.S2C && !all && nSweep%ps.inc.slot.speed != 0 {
					continue
				}
				if deliverOne(ps, d, frag) {
					frag = 0
					did = true
				}
			}
		}
		h.sub = base + 1<<24
		return did
	}
	slotDraw := func(label string) *slot { return h.slots[src.Intn(len(h.slots), label)] }
	lag := 5*h.maxFallBehind/2 + h.grace
	acts := []action{
		{40, func() { // sweep
			frag := 0
			if src.Chance(pFragment, "sched_fragment") {
				frag = src.Range(1, 7, "sched_chunk_eighths")
				r.Fault("fragmented_delivery")
			}
			r.Logf("sweep (first delivery %d/8)", frag)
			sweep(frag, false)
		}},
		{15, func() { // one direction of one client's current connection
			s := slotDraw("sched_slot")
			d := dirs[src.Intn(2, "sched_dir")]
			frag := src.Intn(8, "sched_one_eighths")
			r.Logf("deliver c%d %v (%d/8)", s.id, d, frag)
			if ps := curPair(s); ps != nil {
				deliverOne(ps, d, frag)
			}
		}},
		{30, func() { // decide the first pending dial (by client name)
			refuse := src.Chance(pRefuse, "refuse")
			blackhole := src.Chance(pBlackhole, "dial_blackhole")
			pend := h.pendingDials()
			if len(pend) == 0 {
				r.Logf("dial decision: nothing pending")
				return
			}
			d := pend[0]
			switch {
			case refuse:
				r.Fault("connect_refused")
				r.Logf("refuse dial %s", d.Addr)
				h.net.Refuse(d)
			case blackhole:
				r.Fault("connect_blackholed")
				r.Logf("blackhole dial %s until its timeout", d.Addr)
				advance(h.net.DialTimeout)
			default:
				acceptDial(d)
			}
		}},
		{wTime, func() {
			d := durs(1, 5, 20, 100, 500, 2000)[src.Weighted([]int{6, 5, 4, 3, 2, 1}, "sched_dt")]
			r.Logf("advance %v", d)
			advance(d)
		}},
		{wFeed, feedBurst},
		{20, func() { // (re)start a client in a free slot
			s := slotDraw("start_slot")
			if alive(s.cur) {
				r.Logf("start client: slot %d is busy", s.id)
				return
			}
			newInc(s)
		}},
		{wStall, func() {
			s := slotDraw("stall_slot")
			d := dirs[1-src.Intn(2, "stall_dir")] // index 0 = the common case: slow reader at the client
			dur := h.pick(durs(50, 300, 1000, 3000, 8000, 40000), "stall_for")
			r.Fault("stall_" + d.String())
			r.Logf("stall c%d %v for %v", s.id, d, dur)
			if ps := curPair(s); ps != nil {
				ps.stallUntil[d] = time.Now().Add(dur)
			}
		}},
		{wStall, func() {
			// slow-reader scenario: a young connection with a bounded send buffer stops being read while upstream
			// keeps changing and time passes, so the server's sender blocks and falls behind
			s := slotDraw("slow_reader_slot")
			ps := curPair(s)
			if ps == nil || ps.finiteTill.IsZero() || ps.finiteTill.Sub(time.Now()) < lag+lag/4 {
				r.Logf("slow reader scenario: c%d has no young bounded connection", s.id)
				return
			}
			ps.stallUntil[simnet.S2C] = time.Now().Add(lag)
			r.Fault("slow_reader_scenario")
			r.Logf("slow reader: c%d s2c stalled for %v while upstream keeps writing", s.id, lag)
			for n := 0; n < 5; n++ {
				feedBurst()
				advance(lag / 5)
			}
		}},
		{wReset, func() {
			s := slotDraw("reset_slot")
			partial := src.Chance(500, "reset_after_partial")
			f := src.Range(1, 7, "reset_chunk_eighths")
			ps := curPair(s)
			if ps == nil {
				r.Logf("reset c%d: not connected", s.id)
				return
			}
			if partial {
				r.Fault("reset_after_partial_delivery")
				deliverOne(ps, simnet.S2C, f)
			}
			ph := phaseOf(ps)
			r.Fault("reset_in_" + ph)
			r.Logf("reset c%d (%s, after partial delivery %v)", s.id, ph, partial)
			ps.p.Reset()
		}},
		{wCut, func() {
			s := slotDraw("cut_slot")
			ps := curPair(s)
			if ps == nil {
				r.Logf("cut c%d: not connected", s.id)
				return
			}
			r.Fault("half_open")
			r.Logf("cut c%d (half-open until timeouts)", s.id)
			unbound(ps)
			ps.p.Cut()
		}},
		{wGovern, func() {
			n := src.Intn(len(h.slots)+1, "governor_max")
			if h.maxConns < 1000 {
				n = 1000
			}
			r.Fault("governor_limit")
			r.Op("SetMaxConns(%d)", n)
			setMaxConns(n)
		}},
		{wChurn, func() {
			s := slotDraw("churn_slot")
			if !alive(s.cur) {
				r.Logf("stop client: slot %d is empty", s.id)
				return
			}
			r.Fault("client_stopped")
			r.Op("stop client %s", s.cur.name)
			stopClient(s.cur)
		}},
		{10, func() { // let the longest-held server goroutine go on
			h.mu.Lock()
			if len(h.held) == 0 {
				h.mu.Unlock()
				r.Logf("release held goroutine: none held")
				return
			}
			y := h.held[0]
			h.held = h.held[1:]
			h.mu.Unlock()
			r.Logf("release server goroutine held at %s", y.point)
			close(y.ch)
		}},
	}
	pYield := src.Intn(160, "p_yield")
	ws := weights(acts)
	for step := 0; step < nSteps; step++ {
		h.act++
		h.sub = 0
		h.settle()
		h.mu.Lock()
		h.observe()
		h.mu.Unlock()
		for _, ps := range livePairs() {
			if !ps.sawBlocked && ps.p.WriterBlocked(simnet.S2C) {
				ps.sawBlocked = true
				r.Probe("server_writer_blocked")
				if ps.stallWhenBlocked > 0 {
					ps.stallUntil[simnet.S2C] = time.Now().Add(ps.stallWhenBlocked)
					h.dbg("pair %d: server writer is blocked, s2c stalled for %v", ps.p.ID, ps.stallWhenBlocked)
				}
			}
		}
		h.mu.Lock()
		if h.yieldArm == 0 && src.Chance(pYield, "yield_arm") {
			h.yieldArm = 1
		}
		h.mu.Unlock()
		acts[src.Weighted(ws, "sched_pick")].fn()
	}

	// ---- quiesce: faults off, upstream settles, everything is delivered promptly
	h.act++
	h.sub = 0
	h.settle()
	r.Logf("---- quiesce")
	h.mu.Lock()
	h.quiesce = true
	h.yieldArm = 0
	for _, y := range h.held {
		r.Logf("release server goroutine held at %s", y.point)
		close(y.ch)
	}
	h.held = nil
	h.mu.Unlock()
	for _, ps := range livePairs() {
		unbound(ps)
		ps.stallUntil = [2]time.Time{}
		if ps.p.IsCut() {
			h.dbg("cut pair %d is reset", ps.p.ID)
			ps.p.Reset()
		}
	}
	h.settle()
	if h.maxConns < 1000 {
		setMaxConns(1000)
	}
	for h.upStatus != api.InSync {
		feedBurst()
	}
	if src.Chance(500, "final_updates") {
		feedBurst()
	}
	for _, s := range h.slots {
		if !alive(s.cur) {
			newInc(s)
		}
	}
	bound := 3*(h.readTimeout+effPong+h.srvWriteTO+h.cliWriteTO+h.handshakeTO) + h.net.DialTimeout + 30*time.Second
	// drain accepts every dial and delivers everything, in creation order, until a whole pass finds nothing.
	drain := func() {
		for guard := 0; ; guard++ {
			if guard > 100000 {
				r.HarnessError("transport never drained")
			}
			h.act++
			h.sub = 0
			h.settle()
			did := false
			for _, d := range h.pendingDials() {
				acceptDial(d)
				h.settle()
				did = true
			}
			if sweep(0, true) {
				did = true
			}
			if !did {
				return
			}
		}
	}
	judged := func() []*inc {
		var out []*inc
		for _, s := range h.slots {
			if alive(s.cur) {
				out = append(out, s.cur)
			}
		}
		return out
	}
	diff := func(i *inc, cv map[int]kstate) string {
		h.mu.Lock()
		defer h.mu.Unlock()
		if i.pair == nil || i.pair.Client.Closed() || i.pair.IsReset() {
			return "not connected"
		}
		if i.status != api.InSync {
			return fmt.Sprintf("status is %v, cache is in-sync", i.status)
		}
		for k := 0; k < h.nKeys; k++ {
			c, s := i.view[k], cv[k]
			if c.present != s.present {
				return fmt.Sprintf("k%02d: client present=%v (version %d), cache present=%v (version %d)", k, c.present, c.ver, s.present, s.ver)
			}
			if c.present && c.ver != s.ver {
				return fmt.Sprintf("k%02d: client holds version %d, cache holds version %d", k, c.ver, s.ver)
			}
		}
		return ""
	}
	converge := func(what string) {
		deadline := time.Now().Add(bound)
		pace := 20 * time.Millisecond
		for {
			drain()
			cv := h.cacheView()
			bad := ""
			var who *inc
			for _, i := range judged() {
				if d := diff(i, cv); d != "" {
					bad, who = d, i
					break
				}
			}
			if bad == "" {
				return
			}
			if !time.Now().Before(deadline) {
				h.mu.Lock()
				view := fmtView(who.view)
				h.mu.Unlock()
				r.Violation("no_convergence", "%s: %v of simulated time after faults stopped and upstream went idle, client %s still differs from the server cache: %s; client {%s} cache {%s}",
					what, bound, who.tag(), bad, view, fmtView(cv))
			}
			advance(pace)
			if pace *= 2; pace > time.Second {
				pace = time.Second
			}
		}
	}
	finalCheck := func(what string) {
		cv := h.cacheView()
		// the cache itself must hold what upstream wrote
		h.mu.Lock()
		h.observe()
		for k := 0; k < h.nKeys; k++ {
			c, u := cv[k], h.up[k]
			ok := c.present == u.present && (!u.present || c.ver == u.ver)
			if !ok {
				h.mu.Unlock()
				r.Violation("cache_differs_from_upstream", "%s: server cache holds k%02d present=%v version %d, upstream wrote present=%v version %d; cache {%s} upstream {%s}",
					what, k, c.present, c.ver, u.present, u.ver, fmtView(cv), fmtVec(h.up))
			}
		}
		st := h.cacheStatus
		h.mu.Unlock()
		r.Check("cache_status_insync", st == api.InSync, "%s: upstream reported in-sync last but the cache's current breadcrumb says %v", what, st)
		for _, i := range judged() {
			d := diff(i, cv)
			h.mu.Lock()
			view := fmtView(i.view)
			h.mu.Unlock()
			r.Check("final_view_equals_cache", d == "", "%s: client %s differs from the server cache at quiescence: %s; client {%s} cache {%s}", what, i.tag(), d, view, fmtView(cv))
			r.Probe("final_clients_judged")
			if i.fresh {
				r.Probe("final_fresh_client_judged")
			}
		}
	}
	converge("quiesce")
	finalCheck("quiesce")

	// idle soak: time passes with prompt delivery; healthy connections should simply stay, and whatever
	// happens every running client must be equal to the cache again afterwards.
	before := map[*inc]int{}
	for _, i := range judged() {
		before[i] = i.connN
	}
	soak := 2*effPong + h.readTimeout
	for end := time.Now().Add(soak); time.Now().Before(end); {
		drain()
		advance(h.pingInterval / 4)
	}
	converge("idle soak")
	finalCheck("idle soak")
	for _, i := range judged() {
		h.mu.Lock()
		n := i.connN
		h.mu.Unlock()
		if n == before[i] {
			r.Probe("idle_soak_kept_connection")
		} else {
			r.Probe("idle_soak_reconnected")
		}
	}

	h.mu.Lock()
	if h.binSent > h.binGenerated && h.binGenerated > 0 {
		for n := h.binSent - h.binGenerated; n > 0; n-- {
			r.Probe("binary_snapshot_cache_reused")
		}
	}
	fp := fmt.Sprintf("%s|pairs=%d|crumbs=%d|periods=%d", fmtVec(h.up), len(h.net.Pairs()), len(h.crumbs), len(h.periods))
	h.mu.Unlock()
	r.SimTime(time.Since(h.start))
	r.Fingerprint(fp)
}

type action struct {
	w  int
	fn func()
}

func weights(acts []action) []int {
	out := make([]int, len(acts))
	for i := range acts {
		out[i] = acts[i].w
	}
	return out
}
