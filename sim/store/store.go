// Package store is the simulated datastore of DESIGN.md 2.5: an in-memory
// key/value store with etcd-like compare-and-swap semantics behind the
// repository's backend api.Client interface.  Values are kept serialised with
// the repository's own model.SerializeValue/ParseValue, so callers never share
// memory with the store.  Every client call is a scheduling point.
package store

import (
	"context"
	"errors"
	"fmt"
	"sort"
	"strconv"

	"github.com/projectcalico/calico/libcalico-go/lib/backend/api"
	"github.com/projectcalico/calico/libcalico-go/lib/backend/model"
	cerrors "github.com/projectcalico/calico/libcalico-go/lib/errors"

	"verifsim/core"
	"verifsim/sched"
)

type entry struct {
	key model.Key
	raw []byte
	rev uint64
}

// Write describes one committed mutation (for observers).
type Write struct {
	Kind  string // create, update, apply, delete, touch
	Path  string
	Key   model.Key
	Actor string
	Rev   uint64
}

// Store is the single shared datastore of a simulated cluster.
type Store struct {
	R       *core.R
	S       *sched.Sched
	entries map[string]*entry
	rev     uint64
	// OnWrite observers run after every committed mutation, atomically with it.
	OnWrite []func(w Write)
	Writes  int
}

func New(r *core.R, s *sched.Sched) *Store {
	return &Store{R: r, S: s, entries: map[string]*entry{}, rev: 100}
}

// ErrCrashed is what a dead actor's calls return.
var ErrCrashed = cerrors.ErrorDatastoreError{Err: context.Canceled}

func injected(what string) error {
	return cerrors.ErrorDatastoreError{Err: errors.New("injected datastore fault: " + what)}
}

func pathOf(k model.Key) (string, error) {
	return model.KeyToDefaultPath(k)
}

func (st *Store) notify(kind, path string, k model.Key, actor string) {
	st.Writes++
	w := Write{Kind: kind, Path: path, Key: k, Actor: actor, Rev: st.rev}
	for _, f := range st.OnWrite {
		f(w)
	}
}

func (st *Store) parse(e *entry) (*model.KVPair, error) {
	v, err := model.ParseValue(e.key, e.raw)
	if err != nil {
		return nil, err
	}
	return &model.KVPair{Key: e.key, Value: v, Revision: strconv.FormatUint(e.rev, 10)}, nil
}

// ---- direct (unscheduled, fault-free) access for generators and oracles

// Peek returns a private copy of the current value, or nil.
func (st *Store) Peek(k model.Key) *model.KVPair {
	p, err := pathOf(k)
	if err != nil {
		return nil
	}
	e := st.entries[p]
	if e == nil {
		return nil
	}
	kv, err := st.parse(e)
	if err != nil {
		st.R.HarnessError("store holds unparsable value at %s: %v", p, err)
	}
	return kv
}

// PeekList returns private copies of every entry matching l, sorted by path.
func (st *Store) PeekList(l model.ListInterface) []*model.KVPair {
	var out []*model.KVPair
	for _, p := range st.sortedPaths() {
		if k := l.KeyFromDefaultPath(p); k != nil {
			e := st.entries[p]
			v, err := model.ParseValue(k, e.raw)
			if err != nil {
				continue
			}
			out = append(out, &model.KVPair{Key: k, Value: v, Revision: strconv.FormatUint(e.rev, 10)})
		}
	}
	return out
}

// Put writes unconditionally (generator/admin use); it notifies observers.
func (st *Store) Put(kv *model.KVPair, actor string) *model.KVPair {
	p, raw := st.ser(kv)
	st.rev++
	st.entries[p] = &entry{key: kv.Key, raw: raw, rev: st.rev}
	st.notify("apply", p, kv.Key, actor)
	out, _ := st.parse(st.entries[p])
	return out
}

// Remove deletes unconditionally (generator/admin use).
func (st *Store) Remove(k model.Key, actor string) bool {
	p, err := pathOf(k)
	if err != nil {
		return false
	}
	if _, ok := st.entries[p]; !ok {
		return false
	}
	delete(st.entries, p)
	st.rev++
	st.notify("delete", p, k, actor)
	return true
}

// Revision returns the current global revision.
func (st *Store) Revision() uint64 { return st.rev }

func (st *Store) sortedPaths() []string {
	ps := make([]string, 0, len(st.entries))
	for p := range st.entries {
		ps = append(ps, p)
	}
	sort.Strings(ps)
	return ps
}

func (st *Store) ser(kv *model.KVPair) (string, []byte) {
	p, err := pathOf(kv.Key)
	if err != nil {
		st.R.HarnessError("cannot derive path for key %v: %v", kv.Key, err)
	}
	raw, err := model.SerializeValue(kv)
	if err != nil {
		st.R.HarnessError("cannot serialise value for %s: %v", p, err)
	}
	return p, raw
}

// touch models a concurrent writer rewriting the same content: the revision
// moves, the value does not.
func (st *Store) touch(p string, actor string) {
	if e := st.entries[p]; e != nil {
		st.rev++
		e.rev = st.rev
		st.notify("touch", p, e.key, actor)
	}
}

// ---- the api.Client seam

// Client is a per-process view of the store; every call parks in the scheduler.
type Client struct {
	st *Store
}

func (st *Store) Client() *Client { return &Client{st: st} }

var _ api.Client = (*Client)(nil)

func (c *Client) pre(ctx context.Context, op string, k model.Key, write bool) (string, sched.Fault, error) {
	p, err := pathOf(k)
	if err != nil {
		return "", sched.None, err
	}
	f := c.st.S.Park(ctx, op, p, write)
	switch f {
	case sched.Crashed, sched.CrashBefore:
		return p, f, ErrCrashed
	case sched.ErrorBefore:
		return p, f, injected(op)
	case sched.Conflict:
		c.st.touch(p, "~phantom")
	}
	return p, f, nil
}

func post(f sched.Fault, op string, kv *model.KVPair, err error) (*model.KVPair, error) {
	switch f {
	case sched.CrashAfter:
		return nil, ErrCrashed
	case sched.CommitThenError:
		return nil, injected(op + " (after commit)")
	}
	return kv, err
}

func (c *Client) actor(ctx context.Context) string { return c.st.S.ActorFrom(ctx).Name }

func (c *Client) Create(ctx context.Context, d *model.KVPair) (*model.KVPair, error) {
	p, f, err := c.pre(ctx, "create", d.Key, true)
	if err != nil {
		return nil, err
	}
	st := c.st
	if e := st.entries[p]; e != nil {
		ex, _ := st.parse(e)
		return post(f, "create", ex, cerrors.ErrorResourceAlreadyExists{Identifier: d.Key})
	}
	_, raw := st.ser(d)
	st.rev++
	st.entries[p] = &entry{key: d.Key, raw: raw, rev: st.rev}
	st.notify("create", p, d.Key, c.actor(ctx))
	out, perr := st.parse(st.entries[p])
	if perr != nil {
		return nil, perr
	}
	return post(f, "create", out, nil)
}

func (c *Client) Update(ctx context.Context, d *model.KVPair) (*model.KVPair, error) {
	p, f, err := c.pre(ctx, "update", d.Key, true)
	if err != nil {
		return nil, err
	}
	st := c.st
	e := st.entries[p]
	if e == nil {
		return post(f, "update", nil, cerrors.ErrorResourceDoesNotExist{Identifier: d.Key})
	}
	if d.Revision == "" {
		return nil, cerrors.ErrorValidation{ErroredFields: []cerrors.ErroredField{{Name: "ResourceVersion", Value: d.Revision}}}
	}
	if d.Revision != strconv.FormatUint(e.rev, 10) {
		ex, _ := st.parse(e)
		return post(f, "update", ex, cerrors.ErrorResourceUpdateConflict{Identifier: d.Key})
	}
	_, raw := st.ser(d)
	st.rev++
	st.entries[p] = &entry{key: d.Key, raw: raw, rev: st.rev}
	st.notify("update", p, d.Key, c.actor(ctx))
	out, perr := st.parse(st.entries[p])
	if perr != nil {
		return nil, perr
	}
	return post(f, "update", out, nil)
}

func (c *Client) Apply(ctx context.Context, d *model.KVPair) (*model.KVPair, error) {
	p, f, err := c.pre(ctx, "apply", d.Key, true)
	if err != nil {
		return nil, err
	}
	st := c.st
	_, raw := st.ser(d)
	st.rev++
	st.entries[p] = &entry{key: d.Key, raw: raw, rev: st.rev}
	st.notify("apply", p, d.Key, c.actor(ctx))
	out, perr := st.parse(st.entries[p])
	if perr != nil {
		return nil, perr
	}
	return post(f, "apply", out, nil)
}

func (c *Client) DeleteKVP(ctx context.Context, kvp *model.KVPair) (*model.KVPair, error) {
	return c.Delete(ctx, kvp.Key, kvp.Revision)
}

func (c *Client) Delete(ctx context.Context, k model.Key, revision string) (*model.KVPair, error) {
	p, f, err := c.pre(ctx, "delete", k, true)
	if err != nil {
		return nil, err
	}
	st := c.st
	e := st.entries[p]
	if e == nil {
		return post(f, "delete", nil, cerrors.ErrorResourceDoesNotExist{Identifier: k})
	}
	if revision != "" && revision != strconv.FormatUint(e.rev, 10) {
		ex, _ := st.parse(e)
		return post(f, "delete", ex, cerrors.ErrorResourceUpdateConflict{Identifier: k})
	}
	prev, _ := st.parse(e)
	delete(st.entries, p)
	st.rev++
	st.notify("delete", p, k, c.actor(ctx))
	return post(f, "delete", prev, nil)
}

func (c *Client) Get(ctx context.Context, k model.Key, revision string) (*model.KVPair, error) {
	p, _, err := c.pre(ctx, "get", k, false)
	if err != nil {
		return nil, err
	}
	e := c.st.entries[p]
	if e == nil {
		return nil, cerrors.ErrorResourceDoesNotExist{Identifier: k}
	}
	return c.st.parse(e)
}

func (c *Client) List(ctx context.Context, l model.ListInterface, revision string) (*model.KVPairList, error) {
	f := c.st.S.Park(ctx, "list", fmt.Sprintf("%T", l), false)
	switch f {
	case sched.Crashed, sched.CrashBefore:
		return nil, ErrCrashed
	case sched.ErrorBefore:
		return nil, injected("list")
	}
	return &model.KVPairList{KVPairs: c.st.PeekList(l), Revision: strconv.FormatUint(c.st.rev, 10)}, nil
}

func (c *Client) Watch(ctx context.Context, l model.ListInterface, o api.WatchOptions) (api.WatchInterface, error) {
	return nil, cerrors.ErrorOperationNotSupported{Operation: "watch", Identifier: l}
}

func (c *Client) EnsureInitialized() error { return nil }
func (c *Client) Clean() error             { return nil }
func (c *Client) Close() error             { return nil }
