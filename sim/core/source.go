// Package core is the shared machinery of every simulation harness: the single
// choice source (record / replay), the per-run record (event log, probes,
// fault counters, oracle bookkeeping) and the result file the driver reads.
package core

import (
	"hash/fnv"
)

// Source is the only source of randomness a harness may use.  Every draw is
// recorded; in replay mode draws are read back from a recorded sequence, and
// an exhausted sequence yields 0 (every harness maps 0 to its simplest choice).
type Source struct {
	state     uint64
	replaying bool
	replay    []uint32
	pos       int
	rec       []uint32
	labIdx    []uint16
	labTab    map[string]uint16
	labels    []string
	schedHash uint64
	overrun   int
}

func newSource(seed uint64) *Source {
	return &Source{state: seed*0x9e3779b97f4a7c15 + 0x1234567, labTab: map[string]uint16{}}
}

func newReplaySource(choices []uint32) *Source {
	return &Source{replaying: true, replay: choices, labTab: map[string]uint16{}}
}

func (s *Source) next() uint64 {
	s.state += 0x9e3779b97f4a7c15
	z := s.state
	z = (z ^ (z >> 30)) * 0xbf58476d1ce4e5b9
	z = (z ^ (z >> 27)) * 0x94d049bb133111eb
	return z ^ (z >> 31)
}

// Intn returns a value in [0,n).  n<=1 returns 0 without drawing.
func (s *Source) Intn(n int, label string) int {
	if n <= 1 {
		return 0
	}
	var v uint32
	if s.replaying {
		if s.pos < len(s.replay) {
			v = s.replay[s.pos] % uint32(n)
		} else {
			s.overrun++
		}
		s.pos++
	} else {
		v = uint32(s.next() % uint64(n))
	}
	s.rec = append(s.rec, v)
	li, ok := s.labTab[label]
	if !ok {
		li = uint16(len(s.labels))
		s.labTab[label] = li
		s.labels = append(s.labels, label)
	}
	s.labIdx = append(s.labIdx, li)
	if len(label) >= 5 && label[:5] == "sched" {
		h := fnv.New64a()
		var b [12]byte
		for i := 0; i < 8; i++ {
			b[i] = byte(s.schedHash >> (8 * i))
		}
		b[8], b[9], b[10], b[11] = byte(v), byte(v>>8), byte(v>>16), byte(v>>24)
		h.Write(b[:])
		s.schedHash = h.Sum64()
	}
	return int(v)
}

// Range returns a value in [lo,hi] (inclusive); lo is the simplest.
func (s *Source) Range(lo, hi int, label string) int {
	if hi <= lo {
		return lo
	}
	return lo + s.Intn(hi-lo+1, label)
}

// Chance is true with probability permille/1000; the zero draw is false.
func (s *Source) Chance(permille int, label string) bool {
	if permille <= 0 {
		return false
	}
	if permille >= 1000 {
		return true
	}
	return s.Intn(1000, label) >= 1000-permille
}

// Weighted picks index i with probability w[i]/sum(w); index 0 is simplest.
func (s *Source) Weighted(w []int, label string) int {
	tot := 0
	for _, x := range w {
		tot += x
	}
	if tot <= 0 {
		return 0
	}
	v := s.Intn(tot, label)
	for i, x := range w {
		if v < x {
			return i
		}
		v -= x
	}
	return len(w) - 1
}

// Perm returns a permutation of 0..n-1 (identity for an all-zero draw).
func (s *Source) Perm(n int, label string) []int {
	p := make([]int, n)
	for i := range p {
		p[i] = i
	}
	for i := 0; i < n-1; i++ {
		j := i + s.Intn(n-i, label)
		p[i], p[j] = p[j], p[i]
	}
	return p
}

// Draws reports how many choices were made so far.
func (s *Source) Draws() int { return len(s.rec) }
