package core

import (
	"bufio"
	"bytes"
	"context"
	"crypto/sha1"
	"encoding/hex"
	"encoding/json"
	"fmt"
	"os"
	"os/exec"
	"regexp"
	"strconv"
	"strings"
	"time"
)

// batchSpec is what the driver hands a supervisor process: the supervisor
// executes one fresh child process (GOMAXPROCS=1) per seed and streams the
// results back.  It exists only because process creation from Python is slow.
type batchSpec struct {
	Seeds    []uint64 `json:"seeds"`
	Out      string   `json:"out"`
	Stop     string   `json:"stop"`
	Deadline float64  `json:"deadline_unix"`
	TimeoutS int      `json:"timeout_s"`
	KeepFull int      `json:"keep_full"`
	WorkDir  string   `json:"workdir"`
	Tag      string   `json:"tag"`
	// Known findings (oracle + regex over the message): such violations are recorded but do not stop the batch.
	Known []struct {
		Oracle string `json:"oracle"`
		Match  string `json:"match"`
	} `json:"known"`
}

func runBatch(path string) {
	b, err := os.ReadFile(path)
	if err != nil {
		fmt.Fprintln(os.Stderr, "batch:", err)
		os.Exit(2)
	}
	var spec batchSpec
	if err := json.Unmarshal(b, &spec); err != nil {
		fmt.Fprintln(os.Stderr, "batch:", err)
		os.Exit(2)
	}
	out, err := os.Create(spec.Out)
	if err != nil {
		fmt.Fprintln(os.Stderr, "batch:", err)
		os.Exit(2)
	}
	w := bufio.NewWriter(out)
	defer func() { w.Flush(); out.Close() }()
	env := []string{}
	for _, kv := range os.Environ() {
		if len(kv) > 12 && (kv[:12] == "VERIF_BATCH=" || kv[:11] == "VERIF_SEED=") {
			continue
		}
		if len(kv) > 13 && kv[:13] == "VERIF_RESULT=" {
			continue
		}
		env = append(env, kv)
	}
	full := 0
	for _, seed := range spec.Seeds {
		if _, err := os.Stat(spec.Stop); err == nil {
			break
		}
		if float64(time.Now().UnixNano())/1e9 > spec.Deadline {
			break
		}
		res := fmt.Sprintf("%s/%s-%d.json", spec.WorkDir, spec.Tag, seed)
		ctx, cancel := context.WithTimeout(context.Background(), time.Duration(spec.TimeoutS)*time.Second)
		cmd := exec.CommandContext(ctx, os.Args[0], "-test.run", "^TestSim$", "-test.timeout", "0", "-test.count", "1")
		cmd.Env = append(append([]string{}, env...), "VERIF_SEED="+strconv.FormatUint(seed, 10), "VERIF_RESULT="+res, "GOMAXPROCS=1")
		cmd.Dir = spec.WorkDir
		outb, _ := cmd.CombinedOutput()
		timedOut := ctx.Err() != nil
		cancel()
		rec := map[string]interface{}{"seed": seed}
		stop := false
		if data, err := os.ReadFile(res); err == nil {
			os.Remove(res)
			var d map[string]interface{}
			dec := json.NewDecoder(bytes.NewReader(data))
			dec.UseNumber()
			if err := dec.Decode(&d); err != nil {
				rec["crash"] = "unparsable result: " + err.Error()
				stop = true
			} else {
				ch, _ := json.Marshal(d["choices"])
				h := sha1.Sum(ch)
				d["choices_hash"] = hex.EncodeToString(h[:8])
				if n, ok := d["choices"].([]interface{}); ok {
					d["n_choices"] = len(n)
				}
				bad := d["violation"] != nil || (d["harness_error"] != nil && d["harness_error"] != "")
				if v, ok := d["violation"].(map[string]interface{}); ok && (d["harness_error"] == nil || d["harness_error"] == "") {
					for _, k := range spec.Known {
						if re, err := regexp.Compile(k.Match); err == nil && v["oracle"] == k.Oracle {
							if msg, _ := v["msg"].(string); re.MatchString(msg) {
								bad = false // still reported (with full detail) to the driver, which prints KNOWN-FINDING
								delete(d, "label_idx")
								delete(d, "labels")
							}
						}
					}
				}
				if bad {
					stop = true
				} else if d["violation"] != nil {
					// known finding: keep the record small but keep the violation
					delete(d, "choices")
					delete(d, "log_head")
					delete(d, "log_tail")
				} else if full >= spec.KeepFull {
					delete(d, "choices")
					delete(d, "label_idx")
					delete(d, "labels")
					delete(d, "log_head")
					delete(d, "log_tail")
				} else {
					full++
				}
				rec = d
			}
		} else if timedOut {
			rec["timeout"] = true
			stop = true
		} else {
			s := string(outb)
			if i := strings.Index(s, "panic:"); i >= 0 {
				s = s[i:]
			} else if i := strings.Index(s, "fatal error:"); i >= 0 {
				s = s[i:]
			}
			if len(s) > 9000 {
				s = s[:9000]
			}
			rec["crash"] = s
			stop = true
		}
		line, _ := json.Marshal(rec)
		w.Write(line)
		w.WriteByte('\n')
		w.Flush()
		if stop {
			os.WriteFile(spec.Stop, []byte("stop"), 0o644)
			break
		}
	}
}
