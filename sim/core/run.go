package core

import (
	"crypto/sha256"
	"encoding/hex"
	"encoding/json"
	"fmt"
	"hash"
	"io"
	"os"
	"regexp"
	"runtime"
	"runtime/debug"
	"sort"
	"strconv"
	"strings"
	"sync"
	"testing"
	"time"

	"github.com/sirupsen/logrus"

	"verifsim/rt"
)

// R is one simulated run.
type R struct {
	Src  *Source
	Prop string // the property whose oracles are armed
	Tier string
	Seed uint64

	mu       sync.Mutex
	engine   string
	cfg      map[string]interface{}
	logHash  hash.Hash
	logLines int
	tail     []string
	head     []string
	probes   map[string]int
	faults   map[string]int
	ops      int
	evals    int
	simTime  time.Duration
	fp       string
	trace    bool
	done     bool
	start    time.Time
	resPath  string
	extra    map[string]interface{}
}

type violation struct {
	Oracle string `json:"oracle"`
	Msg    string `json:"msg"`
}

type result struct {
	Engine     string                 `json:"engine"`
	Prop       string                 `json:"prop"`
	Tier       string                 `json:"tier"`
	Seed       uint64                 `json:"seed"`
	Replayed   bool                   `json:"replayed"`
	Overrun    int                    `json:"overrun"`
	Violation  *violation             `json:"violation"`
	HarnessErr string                 `json:"harness_error,omitempty"`
	Choices    []uint32               `json:"choices"`
	LabIdx     []uint16               `json:"label_idx"`
	Labels     []string               `json:"labels"`
	LogHash    string                 `json:"log_hash"`
	LogLines   int                    `json:"log_lines"`
	Head       []string               `json:"log_head"`
	Tail       []string               `json:"log_tail"`
	Probes     map[string]int         `json:"probes"`
	Faults     map[string]int         `json:"faults"`
	Ops        int                    `json:"ops"`
	Evals      int                    `json:"oracle_evals"`
	SimTimeS   float64                `json:"sim_time_s"`
	Fp         string                 `json:"fingerprint"`
	SchedHash  string                 `json:"sched_hash"`
	Cfg        map[string]interface{} `json:"cfg"`
	WallMs     float64                `json:"wall_ms"`
	Extra      map[string]interface{} `json:"extra,omitempty"`
}

const headLines = 60
const tailLines = 120

type stopRun struct{}

// Main is the entry point of every harness test binary.  It reads the run
// parameters from the environment, seeds the runtime seam, runs fn and writes
// the result file.  props lists the property ids the engine serves.
func Main(t *testing.T, engine string, props []string, fn func(r *R)) {
	if bp := os.Getenv("VERIF_BATCH"); bp != "" {
		runBatch(bp)
		return
	}
	resPath := os.Getenv("VERIF_RESULT")
	if resPath == "" {
		t.Skip("not a unit test: run through /verif/check (VERIF_RESULT unset)")
	}
	seed, _ := strconv.ParseUint(os.Getenv("VERIF_SEED"), 10, 64)
	prop := os.Getenv("VERIF_PROP")
	ok := false
	for _, p := range props {
		if p == prop {
			ok = true
		}
	}
	if !ok {
		fmt.Fprintf(os.Stderr, "engine %s does not serve property %q\n", engine, prop)
		os.Exit(2)
	}
	r := &R{
		Prop: prop, Tier: os.Getenv("VERIF_TIER"), Seed: seed, engine: engine,
		cfg: map[string]interface{}{}, logHash: sha256.New(),
		probes: map[string]int{}, faults: map[string]int{}, extra: map[string]interface{}{},
		trace: os.Getenv("VERIF_TRACE") != "", start: time.Now(), resPath: resPath,
	}
	if r.Tier == "" {
		r.Tier = "quick"
	}
	if rp := os.Getenv("VERIF_REPLAY"); rp != "" {
		b, err := os.ReadFile(rp)
		if err != nil {
			fmt.Fprintf(os.Stderr, "cannot read replay file: %v\n", err)
			os.Exit(2)
		}
		var f struct {
			Choices []uint32 `json:"choices"`
			Seed    uint64   `json:"seed"`
		}
		if err := json.Unmarshal(b, &f); err != nil {
			fmt.Fprintf(os.Stderr, "bad replay file: %v\n", err)
			os.Exit(2)
		}
		r.Src = newReplaySource(f.Choices)
		r.Seed = f.Seed
		seed = f.Seed
	} else {
		r.Src = newSource(seed)
	}
	if os.Getenv("VERIF_SUTLOG") == "" {
		logrus.SetOutput(io.Discard)
		logrus.SetLevel(logrus.ErrorLevel)
	} else {
		logrus.SetLevel(logrus.DebugLevel)
	}
	debug.SetGCPercent(-1) // process-per-run: no GC, fewer sources of address-dependent behaviour
	rt.Seed(seed ^ 0x5eed5eed5eed)
	defer func() {
		if p := recover(); p != nil {
			if _, isStop := p.(stopRun); isStop {
				return
			}
			msg := hexAddr.ReplaceAllString(fmt.Sprintf("%v", p), "0x?") + "\n" + trimStack(debug.Stack())
			if panicInHarness() {
				// a bug in the harness itself is infrastructure trouble (exit 2), never a violation
				r.finish(nil, "panic in harness code: "+msg)
				return
			}
			r.finish(&violation{Oracle: "sut_panic", Msg: msg}, "")
		}
	}()
	fn(r)
	r.finish(nil, "")
}

// panicInHarness reports, from a deferred function that recovered a panic, whether the panicking frame (the first
// non-runtime frame below runtime.gopanic) belongs to harness code (module verifsim) rather than to the system
// under test.
func panicInHarness() bool {
	pcs := make([]uintptr, 64)
	n := runtime.Callers(0, pcs)
	frames := runtime.CallersFrames(pcs[:n])
	seenPanic := false
	for {
		f, more := frames.Next()
		if seenPanic && !strings.HasPrefix(f.Function, "runtime.") {
			return strings.HasPrefix(f.Function, "verifsim/")
		}
		if f.Function == "runtime.gopanic" {
			seenPanic = true
		}
		if !more {
			return false
		}
	}
}

var hexAddr = regexp.MustCompile(`0x[0-9a-f]+`)

// trimStack shortens a stack trace and removes addresses (they differ from process to process and
// would make the event-log hash of an otherwise identical run differ).
func trimStack(b []byte) string {
	s := hexAddr.ReplaceAllString(string(b), "0x?")
	if len(s) > 6000 {
		s = s[:6000]
	}
	return s
}

// Armed reports whether prop's oracles should be evaluated in this run.
func (r *R) Armed(prop string) bool { return r.Prop == prop }

// Cfg records one swarm-configuration value of this run.
func (r *R) Cfg(k string, v interface{}) { r.mu.Lock(); r.cfg[k] = v; r.mu.Unlock() }

// Extra attaches engine-specific data to the result.
func (r *R) Extra(k string, v interface{}) { r.mu.Lock(); r.extra[k] = v; r.mu.Unlock() }

// Logf appends to the event log.  It never draws and never reads a clock.
func (r *R) Logf(format string, a ...interface{}) {
	r.mu.Lock()
	defer r.mu.Unlock()
	r.logfLocked(format, a...)
}

func (r *R) logfLocked(format string, a ...interface{}) {
	line := fmt.Sprintf(format, a...)
	r.logHash.Write([]byte(line))
	r.logHash.Write([]byte{'\n'})
	r.logLines++
	if len(r.head) < headLines {
		r.head = append(r.head, line)
	} else {
		if len(r.tail) >= tailLines {
			r.tail = r.tail[1:]
		}
		r.tail = append(r.tail, line)
	}
	if r.trace {
		fmt.Fprintln(os.Stderr, line)
	}
}

// Op logs a generated operation and counts it.
func (r *R) Op(format string, a ...interface{}) {
	r.mu.Lock()
	r.ops++
	r.logfLocked("op: "+format, a...)
	r.mu.Unlock()
}

// Fault counts one fault that actually fired.
func (r *R) Fault(kind string) {
	r.mu.Lock()
	r.faults[kind]++
	r.logfLocked("fault: %s", kind)
	r.mu.Unlock()
}

// Probe counts a hit of a named rare-condition probe.
func (r *R) Probe(name string) { r.mu.Lock(); r.probes[name]++; r.mu.Unlock() }

// ProbeDecl makes a probe appear in evidence even when it stays at zero.
func (r *R) ProbeDecl(names ...string) {
	r.mu.Lock()
	for _, n := range names {
		if _, ok := r.probes[n]; !ok {
			r.probes[n] = 0
		}
	}
	r.mu.Unlock()
}

// FaultDecl makes a fault kind appear in evidence even when it never fires.
func (r *R) FaultDecl(names ...string) {
	r.mu.Lock()
	for _, n := range names {
		if _, ok := r.faults[n]; !ok {
			r.faults[n] = 0
		}
	}
	r.mu.Unlock()
}

// SimTime records how much simulated time the run covered.
func (r *R) SimTime(d time.Duration) { r.mu.Lock(); r.simTime = d; r.mu.Unlock() }

// AddSimTime accumulates simulated time.
func (r *R) AddSimTime(d time.Duration) { r.mu.Lock(); r.simTime += d; r.mu.Unlock() }

// Fingerprint records the canonical final state for the distinctness measure.
func (r *R) Fingerprint(s string) {
	h := sha256.Sum256([]byte(s))
	r.mu.Lock()
	r.fp = hex.EncodeToString(h[:8])
	r.mu.Unlock()
}

// Eval counts one oracle evaluation.
func (r *R) Eval() { r.mu.Lock(); r.evals++; r.mu.Unlock() }

// Check counts one oracle evaluation and reports a violation if !ok.
func (r *R) Check(oracle string, ok bool, format string, a ...interface{}) {
	r.mu.Lock()
	r.evals++
	r.mu.Unlock()
	if !ok {
		r.Violation(oracle, format, a...)
	}
}

// Violation ends the run: the result file is written and the process exits.
// It may be called from any goroutine.
func (r *R) Violation(oracle string, format string, a ...interface{}) {
	r.finish(&violation{Oracle: oracle, Msg: fmt.Sprintf(format, a...)}, "")
	os.Exit(0)
}

// HarnessError ends the run with an infrastructure error (driver exit 2).
func (r *R) HarnessError(format string, a ...interface{}) {
	r.finish(nil, fmt.Sprintf(format, a...))
	os.Exit(0)
}

// Stop ends the run normally from the main goroutine of the harness.
func (r *R) Stop() { panic(stopRun{}) }

func (r *R) finish(v *violation, herr string) {
	r.mu.Lock()
	defer r.mu.Unlock()
	if r.done {
		return
	}
	r.done = true
	if v != nil {
		r.logfLocked("VIOLATION %s: %s", v.Oracle, v.Msg)
	}
	res := result{
		Engine: r.engine, Prop: r.Prop, Tier: r.Tier, Seed: r.Seed,
		Replayed: r.Src.replaying, Overrun: r.Src.overrun,
		Violation: v, HarnessErr: herr,
		Choices: r.Src.rec, LabIdx: r.Src.labIdx, Labels: r.Src.labels,
		LogHash: hex.EncodeToString(r.logHash.Sum(nil)[:12]), LogLines: r.logLines,
		Head: r.head, Tail: r.tail, Probes: r.probes, Faults: r.faults,
		Ops: r.ops, Evals: r.evals, SimTimeS: r.simTime.Seconds(), Fp: r.fp,
		SchedHash: strconv.FormatUint(r.Src.schedHash, 16), Cfg: r.cfg,
		WallMs: float64(time.Since(r.start).Microseconds()) / 1000, Extra: r.extra,
	}
	b, err := json.Marshal(&res)
	if err != nil {
		fmt.Fprintf(os.Stderr, "cannot marshal result: %v\n", err)
		os.Exit(2)
	}
	tmp := r.resPath + ".tmp"
	if err := os.WriteFile(tmp, b, 0o644); err != nil {
		fmt.Fprintf(os.Stderr, "cannot write result: %v\n", err)
		os.Exit(2)
	}
	os.Rename(tmp, r.resPath)
}

// SortedKeys returns the keys of a string-keyed map in sorted order; harness
// code must never range over a map on a path that draws or logs.
func SortedKeys[V any](m map[string]V) []string {
	ks := make([]string, 0, len(m))
	for k := range m {
		ks = append(ks, k)
	}
	sort.Strings(ks)
	return ks
}

// Join is strings.Join over sorted elements.
func JoinSorted(xs []string, sep string) string {
	ys := append([]string(nil), xs...)
	sort.Strings(ys)
	return strings.Join(ys, sep)
}
