//go:build verif_nooverlay

// Race-detector builds run without the runtime overlay (they look for data
// races under real concurrency, not for replayable schedules).
package rt

// Seed is a no-op without the overlay.
func Seed(s uint64) {}
