// Package sched is the cooperative scheduler of DESIGN.md 2.4: every actor is
// a real goroutine inside a testing/synctest bubble, but every seam call parks
// and the scheduler releases exactly one parked call at a time, chosen by a
// draw, optionally with a fault.
package sched

import (
	"context"
	"fmt"
	"sort"
	"sync"
	"testing/synctest"
	"time"

	"verifsim/core"
)

// Fault is what the scheduler tells a released seam call to do.
type Fault int

const (
	None            Fault = iota
	Conflict              // a phantom concurrent writer touches the object first (genuine CAS conflict)
	ErrorBefore           // transient error, no effect
	CommitThenError       // effect applied, caller sees an error
	CrashBefore           // actor dies before the call takes effect
	CrashAfter            // call takes effect, actor dies before seeing the result
	Crashed               // returned (without parking) to every call of an already-dead actor
	Stale                 // reads: serve an older revision (engines that support it)
)

func (f Fault) String() string {
	return [...]string{"none", "conflict", "error_before", "commit_then_error", "crash_before", "crash_after", "crashed", "stale"}[f]
}

// Actor is one simulated client process (or one thread of it).
type Actor struct {
	Name    string
	Crashed bool
	Done    bool
	// Faulted is set once any fault other than None was delivered to this actor.
	Faulted bool
	// Direct makes every seam call of this actor proceed at once, without parking and without faults: the
	// harness runs such an actor's operation as one atomic step between two scheduling steps.
	Direct bool
	reqSeq int
}

type actorKey struct{}

// WithActor attaches the actor identity to a context; goroutines spawned by the
// code under test with that context are scheduled as the same actor.
func WithActor(ctx context.Context, a *Actor) context.Context {
	return context.WithValue(ctx, actorKey{}, a)
}

// ActorFrom returns the actor carried by ctx (or a shared anonymous actor).
func (s *Sched) ActorFrom(ctx context.Context) *Actor {
	if a, ok := ctx.Value(actorKey{}).(*Actor); ok {
		return a
	}
	return s.anon
}

// Request is one parked seam call.
type Request struct {
	Actor *Actor
	Op    string
	Key   string
	Write bool
	seq   int
	ch    chan Fault

	stallAsked bool
	heldUntil  int
}

func (q *Request) String() string { return fmt.Sprintf("%s:%s(%s)", q.Actor.Name, q.Op, q.Key) }

// Sched owns the choice of who runs next.
type Sched struct {
	R      *core.R
	mu     sync.Mutex
	parked []*Request
	actors []*Actor
	anon   *Actor
	// Policy draws the fault for a request about to be released (nil: never fault).
	Policy func(q *Request) Fault
	// FaultsOn is consulted by Run before asking Policy.
	FaultsOn bool
	// TimeJump, if non-nil, is called once per step and may return a duration to advance the fake clock by.
	TimeJump func() time.Duration
	// Stall, if non-nil, is asked once per parked request how many scheduling steps to hold it back (0: none).
	Stall func(q *Request) int
	// OnStep is called by the scheduler goroutine before each release (all actors parked).
	OnStep func(step int)
	Steps  int
}

func New(r *core.R) *Sched {
	s := &Sched{R: r, FaultsOn: true}
	s.anon = &Actor{Name: "~anon"}
	return s
}

// NewActor registers an actor.
func (s *Sched) NewActor(name string) *Actor {
	a := &Actor{Name: name}
	s.mu.Lock()
	s.actors = append(s.actors, a)
	s.mu.Unlock()
	return a
}

// Go runs fn as actor a; a.Done is set when it returns.
func (s *Sched) Go(a *Actor, fn func(ctx context.Context)) {
	ctx := WithActor(context.Background(), a)
	go func() {
		defer func() {
			s.mu.Lock()
			a.Done = true
			s.mu.Unlock()
		}()
		fn(ctx)
	}()
	// Let the new goroutine run alone until it parks (or finishes): two runnable goroutines at once would
	// leave their relative order to the Go scheduler.
	synctest.Wait()
}

// Park blocks the calling goroutine until the scheduler releases it and
// returns the fault to apply.  A crashed actor's calls return Crashed at once.
func (s *Sched) Park(ctx context.Context, op, key string, write bool) Fault {
	a := s.ActorFrom(ctx)
	s.mu.Lock()
	if a.Crashed {
		s.mu.Unlock()
		return Crashed
	}
	if a.Direct {
		s.mu.Unlock()
		return None
	}
	a.reqSeq++
	q := &Request{Actor: a, Op: op, Key: key, Write: write, seq: a.reqSeq, ch: make(chan Fault, 1)}
	s.parked = append(s.parked, q)
	s.mu.Unlock()
	return <-q.ch
}

// Parked returns the parked requests in a deterministic order.
func (s *Sched) Parked() []*Request {
	s.mu.Lock()
	ps := append([]*Request(nil), s.parked...)
	s.mu.Unlock()
	sort.Slice(ps, func(i, j int) bool {
		a, b := ps[i], ps[j]
		if a.Actor.Name != b.Actor.Name {
			return a.Actor.Name < b.Actor.Name
		}
		if a.seq != b.seq {
			return a.seq < b.seq
		}
		if a.Op != b.Op {
			return a.Op < b.Op
		}
		return a.Key < b.Key
	})
	return ps
}

func (s *Sched) allDone() bool {
	s.mu.Lock()
	defer s.mu.Unlock()
	for _, a := range s.actors {
		if !a.Done {
			return false
		}
	}
	return true
}

func (s *Sched) release(q *Request, f Fault) {
	s.mu.Lock()
	rest := s.parked[:0]
	for _, x := range s.parked {
		if x != q {
			rest = append(rest, x)
		}
	}
	s.parked = rest
	if f == CrashBefore || f == CrashAfter {
		q.Actor.Crashed = true
	}
	if f != None {
		q.Actor.Faulted = true
	}
	s.mu.Unlock()
	q.ch <- f
}

// Run schedules until every registered actor is done.  maxSteps bounds the
// chaos phase: beyond it faults are switched off (quiesce); beyond 4*maxSteps+2000
// the run is declared stuck and false is returned.
func (s *Sched) Run(maxSteps int) bool {
	idle := 0
	for {
		synctest.Wait()
		if s.allDone() {
			return true
		}
		ps := s.Parked()
		if len(ps) == 0 {
			// Somebody is sleeping on the fake clock (retry back-off): let time pass.
			idle++
			if idle > 10000 {
				return false
			}
			time.Sleep(100 * time.Millisecond)
			s.R.AddSimTime(100 * time.Millisecond)
			continue
		}
		idle = 0
		s.Steps++
		if s.Steps > maxSteps {
			s.FaultsOn = false
		}
		if s.Steps > 4*maxSteps+2000 {
			return false
		}
		if s.OnStep != nil {
			s.OnStep(s.Steps)
		}
		if s.FaultsOn && s.TimeJump != nil {
			if d := s.TimeJump(); d > 0 {
				time.Sleep(d)
				s.R.AddSimTime(d)
				s.R.Logf("clock +%v", d)
				continue
			}
		}
		// Stalls: a request may be held back for a number of steps (a slow node); held requests are only
		// runnable when nothing else is.
		if s.FaultsOn && s.Stall != nil {
			for _, q := range ps {
				if !q.stallAsked {
					q.stallAsked = true
					if n := s.Stall(q); n > 0 {
						q.heldUntil = s.Steps + n
						s.R.Fault("stall")
						s.R.Logf("stall %s for %d steps", q, n)
					}
				}
			}
			var free []*Request
			for _, q := range ps {
				if q.heldUntil <= s.Steps {
					free = append(free, q)
				}
			}
			if len(free) > 0 {
				ps = free
			}
		}
		i := s.R.Src.Intn(len(ps), "sched_pick")
		q := ps[i]
		f := None
		if s.FaultsOn && s.Policy != nil {
			f = s.Policy(q)
		}
		if f != None {
			s.R.Fault(f.String())
		}
		s.R.Logf("run %s fault=%s", q, f)
		s.release(q, f)
	}
}
