package h_poolctl

// Oracles for C39.  Everything here judges the API server's true state (never the controller's caches) and
// restates the property; it does not know the controller's sort categories, trie or write order.
//
//   finalizer_removed_with_blocks          at every controller write that drops the pool finalizer (irreversible)
//   terminating_pool_unmasked              at quiescence and at the moment an obligated terminating pool finally goes
//   allocatable_pool_displaced             at quiescence
//   overlapping_allocatable_at_quiescence  at quiescence
//   no_convergence / fixpoint_after_convergence   bounded convergence after faults stop
//
// The only tagged class: the message starts with "STALE-PASS(no write failed): " when the damaging write came from a
// pass that had missed a decision-relevant change to an overlapping pool and none of that pass's writes had failed.

import (
	"fmt"
	"net/netip"
	"sort"
	"strings"

	v3 "github.com/projectcalico/api/pkg/apis/projectcalico/v3"
)

type poolMeta struct {
	uid, name string
	pfx       netip.Prefix
	gone      bool
	// protects: uids of overlapping pools that were created while this pool was allocatable (condition True,
	// enabled, not terminating).  None of them may end up allocatable at this pool's expense.
	protects map[string]bool
	// maskObl: the pool was allocatable when the admin deleted it and it is still there (finalizer): nothing
	// that overlaps it may become allocatable until it is gone (or the admin disables it, which by the
	// controller's documented rule stops a pool from blocking others).
	maskObl bool
	maskAt  int             // length of the pool event log right after the deletion was recorded
	okTrue  map[string]bool // pools that were already allocatable when the obligation started, and have been ever since
	// allocAtDeletion: the pool was allocatable when it became terminating (its blocks are its own).
	allocAtDeletion bool
	// staleNoFail: this pool was disabled by, or had an overlapping pool enabled over it by, a pass that had missed a
	// decision-relevant change to an overlapping pool and none of whose writes had failed (so nothing told the pass
	// its cache was stale).  staleAfterFail: the same, but a write of that pass had already failed.
	staleNoFail    bool
	staleAfterFail bool
	// how the write that made this pool allocatable (and it has been ever since) came about
	enabledStale  bool
	enabledNoFail bool
}

func (h *harness) existing(uid string) *v3.IPPool {
	m := h.meta[uid]
	if m == nil || m.gone {
		return nil
	}
	p := h.api.pools[m.name]
	if p == nil || string(p.UID) != uid {
		return nil
	}
	return p
}

func (h *harness) sortedMeta() []*poolMeta {
	uids := make([]string, 0, len(h.meta))
	for u, m := range h.meta {
		if !m.gone {
			uids = append(uids, u)
		}
	}
	sort.Slice(uids, func(i, j int) bool { return h.meta[uids[i]].name < h.meta[uids[j]].name })
	out := make([]*poolMeta, 0, len(uids))
	for _, u := range uids {
		out = append(out, h.meta[u])
	}
	return out
}

func (h *harness) onCreate(p *v3.IPPool, pfx netip.Prefix) {
	r := h.r
	m := &poolMeta{uid: string(p.UID), name: p.Name, pfx: pfx, protects: map[string]bool{}, okTrue: map[string]bool{}}
	if pfx.Addr().Is6() {
		r.Probe("pool_v6")
	}
	for _, om := range h.sortedMeta() {
		o := h.existing(om.uid)
		if o == nil || !om.pfx.Overlaps(pfx) {
			continue
		}
		switch {
		case om.pfx == pfx:
			r.Probe("pool_same_cidr")
		case om.pfx.Bits() < pfx.Bits():
			r.Probe("pool_nested_inside_existing")
		default:
			r.Probe("pool_covers_existing")
		}
		if o.CreationTimestamp.Time.Equal(p.CreationTimestamp.Time) {
			r.Probe("pool_equal_timestamp_overlap")
		} else if p.CreationTimestamp.Time.Before(o.CreationTimestamp.Time) {
			r.Probe("pool_older_timestamp_newcomer")
		}
		if isTrue(o) && !o.Spec.Disabled && o.DeletionTimestamp == nil {
			om.protects[m.uid] = true
			r.Probe("newcomer_vs_allocatable")
			r.Logf("  oracle: %s(%s) is allocatable and must not lose that to newcomer %s(%s)", om.name, om.uid, m.name, m.uid)
		}
	}
	h.meta[m.uid] = m
	h.updateContested()
}

func (h *harness) onAdminDisable(p *v3.IPPool) {
	m := h.meta[string(p.UID)]
	if len(m.protects) > 0 {
		h.r.Probe("protection_ended_by_admin")
		m.protects = map[string]bool{}
	}
	if m.maskObl {
		m.maskObl = false
		h.r.Probe("mask_obligation_ended_by_disable")
		h.r.Logf("  oracle: terminating %s(%s) was disabled by the admin: it no longer has to mask", m.name, m.uid)
	}
}

func (h *harness) onAdminDeleteTerminating(p *v3.IPPool) {
	m := h.meta[string(p.UID)]
	if len(m.protects) > 0 {
		h.r.Probe("protection_ended_by_admin")
		m.protects = map[string]bool{}
	}
	if isTrue(p) && !p.Spec.Disabled {
		m.allocAtDeletion = true
		m.maskObl = true
		m.maskAt = len(h.api.poolLog)
		m.okTrue = map[string]bool{}
		for _, om := range h.sortedMeta() {
			if o := h.existing(om.uid); o != nil && om.uid != m.uid && om.pfx.Overlaps(m.pfx) && isTrue(o) {
				m.okTrue[om.uid] = true
			}
		}
		h.r.Probe("mask_obligation_started")
		h.r.Logf("  oracle: allocatable %s(%s) is now terminating: everything overlapping it must stay non-allocatable until it is gone", m.name, m.uid)
	}
}

func (h *harness) onPoolGone(p *v3.IPPool) {
	m := h.meta[string(p.UID)]
	if m.maskObl {
		h.checkMask(m, p, "as the terminating pool finally goes")
	}
	m.gone = true
	m.maskObl = false
	m.protects = map[string]bool{}
}

// updateContested drops a pool's protections when it is allocatable at the same time as an overlapping pool that is
// not one of its newcomers: then which of the two keeps the addresses is not a newcomer question any more.
func (h *harness) updateContested() {
	ms := h.sortedMeta()
	for _, m := range ms {
		if len(m.protects) == 0 {
			continue
		}
		p := h.existing(m.uid)
		if p == nil || !isTrue(p) {
			continue
		}
		for _, qm := range ms {
			if qm.uid == m.uid || m.protects[qm.uid] || !qm.pfx.Overlaps(m.pfx) {
				continue
			}
			if q := h.existing(qm.uid); q != nil && isTrue(q) {
				h.r.Probe("protection_voided_contested")
				h.r.Logf("  oracle: %s(%s) and %s(%s) are both allocatable and overlap: protections of %s dropped", m.name, m.uid, qm.name, qm.uid, m.name)
				m.protects = map[string]bool{}
				break
			}
		}
	}
}

// staleFor reports whether the pass that is writing target decided on a pool cache that missed a change to a pool
// overlapping target (changes the pass made itself do not count: it knows those).  Such a pass acts on a world
// that no longer exists; per-object optimistic concurrency cannot protect it because the invariant spans objects.
func (h *harness) staleFor(inc *incarnation, target *poolMeta) bool {
	for i := inc.snapPos; i < len(h.api.poolLog); i++ {
		ev := h.api.poolLog[i]
		if !ev.relevant || ev.pass == inc.passID || string(ev.pool.UID) == target.uid {
			continue
		}
		if m := h.meta[string(ev.pool.UID)]; m != nil && m.pfx.Overlaps(target.pfx) {
			return true
		}
	}
	return false
}

const staleNoFailTag = "STALE-PASS(no write failed): "

// afterConditionWrite runs after every status write of the controller that the API server accepted.  It only keeps
// the books; the displaced and keeps-masking clauses are judged on persistent effects (at quiescence, and for
// masking also at the moment the terminating pool finally goes), since the property speaks of the state after the
// controller has reconciled and a double allocation that the next pass repairs is not a violation.
func (h *harness) afterConditionWrite(inc *incarnation, p *v3.IPPool, wasTrue bool) {
	r := h.r
	me := h.meta[string(p.UID)]
	nowTrue := isTrue(p)
	ms := h.sortedMeta()
	stale := h.staleFor(inc, me)
	noFail := !inc.passFailed
	mark := func(m *poolMeta) {
		if noFail {
			m.staleNoFail = true
		} else {
			m.staleAfterFail = true
		}
	}
	if stale && nowTrue != wasTrue {
		r.Probe("stale_pass_wrote_condition")
		r.Logf("  oracle: this pass listed the pool cache at event %d and has missed a later change to a pool overlapping %s (a write of the pass failed before: %v)", inc.snapPos, me.name, !noFail)
	}
	if nowTrue && !wasTrue {
		me.enabledStale, me.enabledNoFail = stale, noFail
		for _, om := range ms {
			o := h.existing(om.uid)
			if o == nil || om.uid == me.uid || !om.pfx.Overlaps(me.pfx) {
				continue
			}
			if isTrue(o) {
				r.Probe("transient_double_allocatable")
				if stale {
					r.Probe("stale_pass_enabled_over_allocatable")
					mark(om)
				}
			}
			if om.maskObl && stale {
				r.Probe("stale_pass_enabled_pool_over_terminating")
			}
		}
		for _, tm := range h.meta {
			if tm.gone && tm.allocAtDeletion && tm.pfx.Overlaps(me.pfx) {
				r.Probe("masked_pool_enabled_after_terminating_gone")
				break
			}
		}
	}
	if wasTrue && !nowTrue {
		me.enabledStale, me.enabledNoFail = false, false
		if stale {
			r.Probe("stale_pass_disabled_allocatable")
			mark(me)
		}
		for _, tm := range ms {
			delete(tm.okTrue, me.uid)
		}
	}
	h.updateContested()
}

// checkMask judges "a terminating pool keeps masking overlapping pools until it is gone" for one terminating pool
// that was allocatable when deleted: when is "at quiescence" or "as the pool finally goes".
func (h *harness) checkMask(tm *poolMeta, t *v3.IPPool, when string) {
	for _, xm := range h.sortedMeta() {
		x := h.existing(xm.uid)
		if x == nil || xm.uid == tm.uid || !xm.pfx.Overlaps(tm.pfx) {
			continue
		}
		tag, note := "", ""
		if xm.enabledStale && xm.enabledNoFail {
			tag = staleNoFailTag
		} else if xm.enabledStale {
			note = " [it was enabled by a pass that had missed a change to an overlapping pool although a write of that pass had already failed]"
		}
		h.r.Check("terminating_pool_unmasked", !isTrue(x) || tm.okTrue[xm.uid],
			"%s%s %s is allocatable although it overlaps %s, which was allocatable when the admin deleted it and has been terminating since (%d of its blocks left); it was not allocatable when the deletion happened%s",
			tag, when, poolLine(x), poolLine(t), h.ownedBlocks(tm.uid), note)
	}
}

func (h *harness) ownedBlocks(uid string) int {
	n := 0
	for _, o := range h.api.owner {
		if o == uid {
			n++
		}
	}
	return n
}

// checkFinalizerRemoval runs when the API server is about to accept a controller write that drops the pool
// finalizer (for a terminating pool: the write that lets it be deleted).
func (h *harness) checkFinalizerRemoval(stored *v3.IPPool) {
	m := h.meta[string(stored.UID)]
	n := h.ownedBlocks(m.uid)
	var names []string
	for _, b := range h.api.sortedBlocks() {
		if h.api.owner[b.Name] == m.uid {
			names = append(names, b.Spec.CIDR)
		}
	}
	if stored.DeletionTimestamp != nil {
		if m.allocAtDeletion {
			h.r.Check("finalizer_removed_with_blocks", n == 0,
				"controller removed the finalizer from terminating pool %s (allocatable when deleted), letting it go, while blocks allocated from it still exist: %s",
				poolLine(stored), strings.Join(names, " "))
		}
		return
	}
	if isTrue(stored) && !stored.Spec.Disabled {
		h.r.Check("finalizer_removed_with_blocks", n == 0,
			"controller removed the finalizer from pool %s, which the API server shows as allocatable and enabled, while blocks allocated from it still exist: %s",
			poolLine(stored), strings.Join(names, " "))
	}
}

// finalOracle is evaluated at quiescence: faults off, caches up to date, controller idle and at a fixpoint.
func (h *harness) finalOracle() {
	r := h.r
	ps := h.api.sortedPools()
	r.Logf("---- final state")
	for _, p := range ps {
		r.Logf("  %s owned_blocks=%d", poolLine(p), h.ownedBlocks(string(p.UID)))
	}
	// no two allocatable pools overlap
	for i, a := range ps {
		for _, b := range ps[i+1:] {
			am, bm := h.meta[string(a.UID)], h.meta[string(b.UID)]
			if !am.pfx.Overlaps(bm.pfx) {
				continue
			}
			r.Probe("final_overlap_pairs_checked")
			r.Check("overlapping_allocatable_at_quiescence", !(isTrue(a) && isTrue(b)),
				"after the controller converged both %s and %s are allocatable although their CIDRs overlap", poolLine(a), poolLine(b))
		}
	}
	// a pool that was allocatable before a newer overlapping pool appeared still is
	for _, pm := range h.sortedMeta() {
		p := h.existing(pm.uid)
		if p == nil {
			continue
		}
		for _, xm := range h.sortedMeta() {
			x := h.existing(xm.uid)
			if !pm.protects[xm.uid] || x == nil {
				continue
			}
			r.Probe("protected_pool_checked_at_quiescence")
			tag, note := "", ""
			if pm.staleNoFail {
				tag = staleNoFailTag
			} else if pm.staleAfterFail {
				note = " [a pass that had missed a change to an overlapping pool, and had already seen one of its writes fail, disabled it or enabled a pool over it]"
			}
			r.Check("allocatable_pool_displaced", isTrue(p),
				"%safter convergence %s is not allocatable although it was when the overlapping pool %s was created and the admin has not disabled or deleted it since%s",
				tag, poolLine(p), poolLine(x), note)
		}
	}
	// terminating pools still mask
	for _, tm := range h.sortedMeta() {
		t := h.existing(tm.uid)
		if t == nil || !tm.maskObl {
			continue
		}
		r.Probe("mask_obligation_held_at_quiescence")
		if h.ownedBlocks(tm.uid) > 0 {
			r.Probe("terminating_blocked_by_blocks")
		}
		h.checkMask(tm, t, "after convergence")
	}
	// reach only (not part of the property statement): is the allocatable set maximal?
	maximal := true
	for _, x := range ps {
		if isTrue(x) || x.Spec.Disabled || x.DeletionTimestamp != nil {
			continue
		}
		xm := h.meta[string(x.UID)]
		blocked := false
		for _, o := range ps {
			om := h.meta[string(o.UID)]
			if o != x && om.pfx.Overlaps(xm.pfx) && !o.Spec.Disabled && (isTrue(o) || o.DeletionTimestamp != nil) {
				blocked = true
			}
		}
		if !blocked {
			maximal = false
		}
	}
	if maximal {
		r.Probe("final_maximal")
	} else {
		r.Probe("final_nonmaximal")
	}
	var fp []string
	for _, p := range ps {
		s, reason := allocCond(p)
		fp = append(fp, fmt.Sprintf("%s|%s|%s|%s|%v|%v|%v|%d", p.Name, p.Spec.CIDR, s, reason, p.Spec.Disabled, p.DeletionTimestamp != nil, hasFin(p.Finalizers), h.ownedBlocks(string(p.UID))))
	}
	r.Fingerprint(strings.Join(fp, ";") + fmt.Sprintf("#blocks=%d", len(h.api.blocks)))
}
