package h_poolctl

// Simulator-owned Kubernetes API server state for IPPools and IPAMBlocks, the
// reactor that puts it behind the generated fake Calico clientset, the lagging
// informer stub and the recording ipam.Interface stub.  All written for this work.

import (
	"context"
	"fmt"
	"net/netip"
	"reflect"
	"slices"
	"sort"
	"strconv"
	"strings"
	"time"

	v3 "github.com/projectcalico/api/pkg/apis/projectcalico/v3"
	"github.com/projectcalico/api/pkg/client/clientset_generated/clientset/fake"
	apierrors "k8s.io/apimachinery/pkg/api/errors"
	metav1 "k8s.io/apimachinery/pkg/apis/meta/v1"
	"k8s.io/apimachinery/pkg/runtime"
	"k8s.io/apimachinery/pkg/runtime/schema"
	"k8s.io/apimachinery/pkg/types"
	k8stesting "k8s.io/client-go/testing"
	"k8s.io/client-go/tools/cache"

	"github.com/projectcalico/calico/kube-controllers/pkg/controllers/ippool"
	"github.com/projectcalico/calico/libcalico-go/lib/ipam"
	cnet "github.com/projectcalico/calico/libcalico-go/lib/net"
)

const (
	evAdd = iota
	evUpd
	evDel
)

type event struct {
	typ   int
	rev   int64
	pass  int // the controller pass that made this write (0: not the controller)
	// relevant: the event changes something a pass bases its allocatable decisions on (existence, condition status,
	// spec.disabled, deletionTimestamp); finalizer and unrelated-field updates are not.
	relevant bool
	pool  *v3.IPPool
	block *v3.IPAMBlock
}

type apiServer struct {
	h        *harness
	rev      int64
	nextUID  int
	clock    time.Time // the API server's wall clock (second granularity), used for creation/deletion timestamps
	pools    map[string]*v3.IPPool
	blocks   map[string]*v3.IPAMBlock
	owner    map[string]string // block name -> uid of the pool it was allocated from
	poolLog  []event
	blockLog []event
	curPass  int // set while a controller write is being applied
	lastLogged map[string]*v3.IPPool
}

var poolGR = schema.GroupResource{Group: "projectcalico.org", Resource: "ippools"}

func (a *apiServer) bump() string {
	a.rev++
	return strconv.FormatInt(a.rev, 10)
}

func (a *apiServer) logPool(typ int, p *v3.IPPool) {
	rel := typ != evUpd
	if prev := a.lastLogged[string(p.UID)]; prev != nil && !rel {
		ps, _ := allocCond(prev)
		ns, _ := allocCond(p)
		rel = ps != ns || prev.Spec.Disabled != p.Spec.Disabled || (prev.DeletionTimestamp == nil) != (p.DeletionTimestamp == nil)
	}
	cp := p.DeepCopy()
	a.lastLogged[string(p.UID)] = cp
	a.poolLog = append(a.poolLog, event{typ: typ, rev: a.rev, pass: a.curPass, relevant: rel, pool: cp})
}

func (a *apiServer) logBlock(typ int, b *v3.IPAMBlock) {
	a.blockLog = append(a.blockLog, event{typ: typ, rev: a.rev, block: b.DeepCopy()})
}

func (a *apiServer) sortedPools() []*v3.IPPool {
	names := make([]string, 0, len(a.pools))
	for n := range a.pools {
		names = append(names, n)
	}
	sort.Strings(names)
	out := make([]*v3.IPPool, 0, len(names))
	for _, n := range names {
		out = append(out, a.pools[n])
	}
	return out
}

func (a *apiServer) sortedBlocks() []*v3.IPAMBlock {
	names := make([]string, 0, len(a.blocks))
	for n := range a.blocks {
		names = append(names, n)
	}
	sort.Strings(names)
	out := make([]*v3.IPAMBlock, 0, len(names))
	for _, n := range names {
		out = append(out, a.blocks[n])
	}
	return out
}

func (a *apiServer) createPool(name string, pfx netip.Prefix, disabled bool, ts time.Time) *v3.IPPool {
	rv := a.bump()
	a.nextUID++
	p := &v3.IPPool{
		ObjectMeta: metav1.ObjectMeta{
			Name:              name,
			UID:               types.UID(fmt.Sprintf("u%d", a.nextUID)),
			ResourceVersion:   rv,
			CreationTimestamp: metav1.NewTime(ts),
		},
		Spec: v3.IPPoolSpec{CIDR: pfx.String(), Disabled: disabled},
	}
	p.Generation = 1
	a.pools[name] = p
	a.logPool(evAdd, p)
	return p
}

// adminUpdate commits an in-place change the caller already made to the stored pool.
func (a *apiServer) adminUpdate(p *v3.IPPool) {
	p.ResourceVersion = a.bump()
	a.logPool(evUpd, p)
}

// adminDelete is `kubectl delete ippool`: immediate removal without finalizers, deletionTimestamp otherwise.
// It returns true when the object is gone.
func (a *apiServer) adminDelete(p *v3.IPPool) bool {
	if len(p.Finalizers) == 0 {
		p.ResourceVersion = a.bump()
		delete(a.pools, p.Name)
		a.logPool(evDel, p)
		return true
	}
	if p.DeletionTimestamp == nil {
		ts := metav1.NewTime(a.clock)
		p.DeletionTimestamp = &ts
		p.ResourceVersion = a.bump()
		a.logPool(evUpd, p)
	}
	return false
}

func blockName(pfx netip.Prefix) string {
	s := pfx.String()
	s = strings.NewReplacer(".", "-", ":", "-", "/", "-").Replace(s)
	return s
}

func (a *apiServer) createBlock(pfx netip.Prefix, ownerUID string) *v3.IPAMBlock {
	rv := a.bump()
	aff := "host:n0"
	b := &v3.IPAMBlock{
		ObjectMeta: metav1.ObjectMeta{Name: blockName(pfx), ResourceVersion: rv},
		Spec:       v3.IPAMBlockSpec{CIDR: pfx.String(), Affinity: &aff},
	}
	a.blocks[b.Name] = b
	a.owner[b.Name] = ownerUID
	a.logBlock(evAdd, b)
	return b
}

func (a *apiServer) removeBlock(b *v3.IPAMBlock) {
	b.ResourceVersion = a.bump()
	delete(a.blocks, b.Name)
	delete(a.owner, b.Name)
	a.logBlock(evDel, b)
}

// ---------------------------------------------------------------- pool helpers

func allocCond(p *v3.IPPool) (metav1.ConditionStatus, string) {
	if p.Status == nil {
		return "", ""
	}
	for _, c := range p.Status.Conditions {
		if c.Type == v3.IPPoolConditionAllocatable {
			return c.Status, c.Reason
		}
	}
	return "", ""
}

func isTrue(p *v3.IPPool) bool {
	s, _ := allocCond(p)
	return s == metav1.ConditionTrue
}

func hasFin(fins []string) bool { return slices.Contains(fins, ippool.IPPoolFinalizer) }

func poolLine(p *v3.IPPool) string {
	s, reason := allocCond(p)
	if s == "" {
		s = "-"
	}
	fl := ""
	if p.Spec.Disabled {
		fl += " disabled"
	}
	if p.DeletionTimestamp != nil {
		fl += " terminating"
	}
	if hasFin(p.Finalizers) {
		fl += " fin"
	}
	return fmt.Sprintf("%s(%s %s ts=%d rv=%s alloc=%s/%s%s)", p.Name, p.UID, p.Spec.CIDR, p.CreationTimestamp.Unix()%100000, p.ResourceVersion, s, reason, fl)
}

// ---------------------------------------------------------------- controller incarnation + reactor

type incarnation struct {
	h        *harness
	id       int
	stop     chan struct{}
	dead     bool
	snapPos  int // position of the pool cache in the pool event log when the running reconcile listed it
	passID   int // sequence number of the running reconcile pass
	passFailed bool // some API write of the running pass has returned an error
	poolInf  *informer
	blockInf *informer
}

func (h *harness) startController() {
	h.nInc++
	inc := &incarnation{h: h, id: h.nInc, stop: make(chan struct{})}
	inc.poolInf = &informer{h: h, inc: inc, kind: "pool", idx: cache.NewIndexer(cache.MetaNamespaceKeyFunc, cache.Indexers{})}
	inc.blockInf = &informer{h: h, inc: inc, kind: "block", idx: cache.NewIndexer(cache.MetaNamespaceKeyFunc, cache.Indexers{})}
	inc.poolInf.wrapped = &seamIndexer{Indexer: inc.poolInf.idx, onList: inc.onPoolList}
	inc.blockInf.wrapped = &seamIndexer{Indexer: inc.blockInf.idx, onList: inc.onBlockList}
	cli := fake.NewSimpleClientset()
	cli.PrependReactor("*", "ippools", inc.react)
	cli.PrependReactor("*", "ipamblocks", func(a k8stesting.Action) (bool, runtime.Object, error) {
		h.r.HarnessError("unexpected API call on ipamblocks: %s", a.GetVerb())
		return true, nil, nil
	})
	ctl := ippool.NewController(context.Background(), cli, inc.poolInf, inc.blockInf, &ipamStub{inc: inc})
	// Initial LIST of both informers: the state of the API server now; handlers see every object as an add.
	// The two informers are independent reflectors: in some starts one of them completes its initial list only
	// after the controller's Run has begun (HasSynced is false until then).
	initial := func(i *informer) {
		for i.pos < len(i.log()) {
			i.deliverOne()
		}
		i.synced = true
	}
	late := (*informer)(nil)
	switch h.r.Src.Weighted([]int{5, 3, 2}, "startup_informer_order") {
	case 1:
		late = inc.blockInf
	case 2:
		late = inc.poolInf
	}
	if late != inc.blockInf {
		initial(inc.blockInf)
	}
	if late != inc.poolInf {
		initial(inc.poolInf)
	}
	h.inc = inc
	h.r.Logf("controller #%d started (%d pools, %d blocks in its caches)", inc.id, len(inc.poolInf.idx.ListKeys()), len(inc.blockInf.idx.ListKeys()))
	go ctl.Run(inc.stop)
	if late != nil {
		h.r.Fault("informer_initial_list_late")
		d := time.Duration(h.r.Src.Range(1, 40, "startup_late_by")) * 100 * time.Millisecond
		h.r.Logf("  the %s informer completes its initial list %v after Run started", late.kind, d)
		h.sleep(d)
		initial(late)
	}
}

func (inc *incarnation) onPoolList() {
	h := inc.h
	h.mu.Lock()
	defer h.mu.Unlock()
	h.r.Probe("reconcile_started")
	inc.snapPos = inc.poolInf.pos
	h.passSeq++
	inc.passID = h.passSeq
	inc.passFailed = false
	lag := len(h.api.poolLog) - inc.poolInf.pos
	if inc.dead || inc != h.inc {
		h.r.Logf("ctl#%d: reconcile starts (defunct incarnation)", inc.id)
		return
	}
	if lag > 0 {
		h.r.Fault("stale_pool_cache")
	}
	h.r.Logf("ctl#%d: reconcile starts, pool cache %d events behind", inc.id, lag)
}

func (inc *incarnation) onBlockList() {
	h := inc.h
	h.mu.Lock()
	defer h.mu.Unlock()
	if inc.dead || inc != h.inc {
		return
	}
	h.seam("block_list")
	if lag := len(h.api.blockLog) - inc.blockInf.pos; lag > 0 {
		h.r.Fault("stale_block_cache")
	}
}

func (inc *incarnation) react(a k8stesting.Action) (bool, runtime.Object, error) {
	h := inc.h
	h.mu.Lock()
	defer h.mu.Unlock()
	ua, ok := a.(k8stesting.UpdateAction)
	if !ok || a.GetVerb() != "update" {
		h.r.HarnessError("unexpected API call on ippools: %s", a.GetVerb())
		return true, nil, nil
	}
	obj, ok := ua.GetObject().(*v3.IPPool)
	if !ok {
		h.r.HarnessError("update of ippools with a %T", ua.GetObject())
	}
	sub := a.GetSubresource()
	what := "Update"
	if sub == "status" {
		what = "UpdateStatus"
	}
	h.ctlCalls++
	if inc.dead || inc != h.inc {
		return true, nil, fmt.Errorf("connection refused (controller process is gone)")
	}
	h.seam("api_" + what)
	if h.faultsOn && h.r.Src.Chance(h.pCrash, "crash") {
		inc.dead = true
		h.r.Fault("controller_crash")
		h.r.Logf("ctl#%d: process dies inside %s(%s)", inc.id, what, obj.Name)
		return true, nil, fmt.Errorf("connection refused (controller process is gone)")
	}
	f := 0
	if h.faultsOn {
		f = h.r.Src.Weighted([]int{1000 - h.pConflict - h.pErrBefore - h.pCommitErr, h.pConflict, h.pErrBefore, h.pCommitErr}, "api_fault")
	}
	if (f == 1 || f == 2) && sub == "status" {
		if st := h.api.pools[obj.Name]; st != nil && isTrue(st) && !isTrue(obj) && !st.Spec.Disabled && st.DeletionTimestamp == nil {
			h.r.Probe("failed_write_would_have_disabled_allocatable_pool")
			if h.ownedBlocks(string(st.UID)) > 0 && hasFin(st.Finalizers) {
				h.r.Probe("failed_write_would_have_disabled_allocatable_pool_with_blocks")
			}
		}
	}
	switch f {
	case 1:
		inc.passFailed = true
		h.r.Fault("api_conflict_injected")
		h.r.Logf("ctl#%d: %s(%s) -> injected conflict", inc.id, what, obj.Name)
		return true, nil, apierrors.NewConflict(poolGR, obj.Name, fmt.Errorf("injected"))
	case 2:
		inc.passFailed = true
		h.r.Fault("api_error_before_effect")
		h.r.Logf("ctl#%d: %s(%s) -> injected server error, no effect", inc.id, what, obj.Name)
		return true, nil, apierrors.NewInternalError(fmt.Errorf("injected"))
	}
	h.api.curPass = inc.passID
	res, err := h.api.controllerWrite(inc, sub, what, obj)
	h.api.curPass = 0
	if err == nil && f == 3 {
		inc.passFailed = true
		h.r.Fault("api_commit_then_error")
		h.r.Logf("ctl#%d: %s(%s) committed but the reply was lost", inc.id, what, obj.Name)
		return true, nil, apierrors.NewTimeoutError("injected: reply lost", 1)
	}
	if err != nil {
		inc.passFailed = true
		return true, nil, err
	}
	return true, res, nil
}

// controllerWrite applies Kubernetes update semantics (optimistic concurrency on resourceVersion, status
// subresource split, deletion once the last finalizer goes) and runs the per-write oracles.
func (a *apiServer) controllerWrite(inc *incarnation, sub, what string, obj *v3.IPPool) (*v3.IPPool, error) {
	h := a.h
	stored := a.pools[obj.Name]
	if stored == nil {
		h.r.Probe("api_not_found")
		h.r.Logf("ctl#%d: %s(%s) -> not found", inc.id, what, obj.Name)
		return nil, apierrors.NewNotFound(poolGR, obj.Name)
	}
	if obj.ResourceVersion != stored.ResourceVersion || (obj.UID != "" && obj.UID != stored.UID) {
		h.r.Probe("api_conflict_stale_rv")
		h.r.Logf("ctl#%d: %s(%s rv=%s) -> conflict, stored rv=%s", inc.id, what, obj.Name, obj.ResourceVersion, stored.ResourceVersion)
		return nil, apierrors.NewConflict(poolGR, obj.Name, fmt.Errorf("the object has been modified"))
	}
	if sub == "status" {
		if reflect.DeepEqual(stored.Status, obj.Status) {
			return stored.DeepCopy(), nil
		}
		wasTrue := isTrue(stored)
		if obj.Status == nil {
			stored.Status = nil
		} else {
			stored.Status = obj.Status.DeepCopy()
		}
		stored.ResourceVersion = a.bump()
		a.logPool(evUpd, stored)
		h.ctlWrites++
		h.r.Logf("ctl#%d: UpdateStatus %s", inc.id, poolLine(stored))
		h.afterConditionWrite(inc, stored, wasTrue)
		if !wasTrue && isTrue(stored) && !stored.Spec.Disabled && stored.DeletionTimestamp == nil && h.interleave && h.r.Src.Chance(h.pEagerClaim, "eager_claim") {
			h.claimBlock(stored)
		}
		h.afterAPIChange()
		return stored.DeepCopy(), nil
	}
	had, has := hasFin(stored.Finalizers), hasFin(obj.Finalizers)
	if had && !has {
		h.checkFinalizerRemoval(stored)
	}
	// Main resource: metadata and spec are taken from the request; status, deletionTimestamp, uid and
	// creationTimestamp are owned by the server.
	stored.Finalizers = slices.Clone(obj.Finalizers)
	stored.Labels = obj.Labels
	stored.Annotations = obj.Annotations
	stored.Spec = *obj.Spec.DeepCopy()
	stored.ResourceVersion = a.bump()
	h.ctlWrites++
	if had != has {
		if has {
			h.r.Probe("finalizer_added")
		} else if stored.DeletionTimestamp != nil {
			h.r.Probe("finalizer_removed_from_terminating")
		} else {
			h.r.Probe("finalizer_removed_from_nonactive")
		}
	}
	if stored.DeletionTimestamp != nil && len(stored.Finalizers) == 0 {
		delete(a.pools, stored.Name)
		a.logPool(evDel, stored)
		h.r.Logf("ctl#%d: Update %s -> last finalizer gone, object deleted", inc.id, poolLine(stored))
		h.r.Probe("pool_deleted_by_finalizer_removal")
		h.onPoolGone(stored)
	} else {
		a.logPool(evUpd, stored)
		h.r.Logf("ctl#%d: Update %s", inc.id, poolLine(stored))
	}
	h.afterAPIChange()
	return stored.DeepCopy(), nil
}

// ---------------------------------------------------------------- informer stub

// informer implements the part of cache.SharedIndexInformer the controller uses.  Its indexer is a real
// client-go indexer; the simulator feeds it the API server's event log in order, possibly late.
type informer struct {
	cache.SharedIndexInformer
	h        *harness
	inc      *incarnation
	kind     string
	idx      cache.Indexer
	wrapped  cache.Indexer
	handlers []cache.ResourceEventHandler
	pos      int
	synced   bool // the initial list has been delivered
}

type seamIndexer struct {
	cache.Indexer
	onList func()
}

func (s *seamIndexer) List() []interface{} {
	s.onList()
	return s.Indexer.List()
}

func (i *informer) AddEventHandler(hd cache.ResourceEventHandler) (cache.ResourceEventHandlerRegistration, error) {
	i.handlers = append(i.handlers, hd)
	return nil, nil
}
func (i *informer) HasSynced() bool           { return i.synced }
func (i *informer) GetIndexer() cache.Indexer { return i.wrapped }
func (i *informer) GetStore() cache.Store     { return i.wrapped }

func (i *informer) log() []event {
	if i.kind == "pool" {
		return i.h.api.poolLog
	}
	return i.h.api.blockLog
}

func (i *informer) pending() int { return len(i.log()) - i.pos }

func (i *informer) deliverOne() {
	ev := i.log()[i.pos]
	i.pos++
	var obj runtime.Object
	if i.kind == "pool" {
		obj = ev.pool.DeepCopy()
	} else {
		obj = ev.block.DeepCopy()
	}
	switch ev.typ {
	case evAdd:
		_ = i.idx.Add(obj)
		for _, hd := range i.handlers {
			hd.OnAdd(obj, false)
		}
	case evUpd:
		key, _ := cache.MetaNamespaceKeyFunc(obj)
		old, exists, _ := i.idx.GetByKey(key)
		_ = i.idx.Update(obj)
		for _, hd := range i.handlers {
			if exists {
				hd.OnUpdate(old, obj)
			} else {
				hd.OnAdd(obj, false)
			}
		}
	case evDel:
		_ = i.idx.Delete(obj)
		for _, hd := range i.handlers {
			hd.OnDelete(obj)
		}
	}
}

// deliverPool hands the next pool event to the pool informer.  Unless cross-watch lag is enabled it first
// brings the block informer up to the last block ADDITION that precedes the pool event (see engine assumptions).
func (inc *incarnation) deliverPool() {
	h := inc.h
	ev := h.api.poolLog[inc.poolInf.pos]
	if !h.xlag {
		last := -1
		for j := inc.blockInf.pos; j < len(h.api.blockLog) && h.api.blockLog[j].rev < ev.rev; j++ {
			if h.api.blockLog[j].typ == evAdd {
				last = j
			}
		}
		for inc.blockInf.pos <= last {
			inc.blockInf.deliverOne()
		}
	}
	inc.poolInf.deliverOne()
}

func (inc *incarnation) deliverAll() {
	for inc.blockInf.pending() > 0 {
		inc.blockInf.deliverOne()
	}
	for inc.poolInf.pending() > 0 {
		inc.poolInf.deliverOne()
	}
}

func (i *informer) resync() {
	keys := i.idx.ListKeys()
	sort.Strings(keys)
	for _, k := range keys {
		obj, ok, _ := i.idx.GetByKey(k)
		if !ok {
			continue
		}
		for _, hd := range i.handlers {
			hd.OnUpdate(obj, obj)
		}
	}
}

// ---------------------------------------------------------------- ipam stub

type ipamStub struct {
	ipam.Interface
	inc *incarnation
}

func (s *ipamStub) ReleasePoolAffinities(ctx context.Context, pool cnet.IPNet) error {
	inc := s.inc
	h := inc.h
	h.mu.Lock()
	defer h.mu.Unlock()
	if inc.dead || inc != h.inc {
		return fmt.Errorf("connection refused (controller process is gone)")
	}
	h.r.Probe("release_affinities_called")
	pfx, err := netip.ParsePrefix(pool.String())
	if err != nil {
		h.r.HarnessError("ReleasePoolAffinities with unparsable CIDR %q", pool.String())
	}
	h.seam("ipam_release")
	if h.faultsOn && h.r.Src.Chance(h.pIpamErr, "ipam_fault") {
		h.r.Fault("ipam_release_error")
		h.r.Logf("ctl#%d: ReleasePoolAffinities(%s) -> injected error", inc.id, pfx)
		return fmt.Errorf("injected datastore error")
	}
	// Releasing affinities deletes the blocks that are empty; which ones are is the simulator's choice.
	n := 0
	for _, b := range h.api.sortedBlocks() {
		bp := netip.MustParsePrefix(b.Spec.CIDR)
		if pfx.Contains(bp.Addr()) && h.r.Src.Chance(h.pBlockEmpty, "block_empty") {
			h.api.removeBlock(b)
			n++
		}
	}
	h.r.Logf("ctl#%d: ReleasePoolAffinities(%s): %d empty blocks released", inc.id, pfx, n)
	if n > 0 {
		h.afterAPIChange()
	}
	return nil
}
