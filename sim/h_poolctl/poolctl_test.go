// Engine poolctl (C39): the real kube-controllers IPPool controller (NewController, Run, its worker goroutine,
// workqueue, reconcile) inside a testing/synctest bubble, against a simulator-owned API server behind the
// generated fake Calico clientset, lagging informer caches, a recording IPAM stub and a model of which IPAM
// blocks exist and which pool they were allocated from.
package h_poolctl

import (
	"context"
	"fmt"
	"net/netip"
	"os"
	"runtime/debug"
	"slices"
	"sort"
	"strconv"
	"strings"
	"sync"
	"testing"
	"testing/synctest"
	"time"

	v3 "github.com/projectcalico/api/pkg/apis/projectcalico/v3"
	"github.com/go-logr/logr"
	metav1 "k8s.io/apimachinery/pkg/apis/meta/v1"
	uruntime "k8s.io/apimachinery/pkg/util/runtime"
	"k8s.io/klog/v2"

	"github.com/projectcalico/calico/kube-controllers/pkg/controllers/ippool"

	"verifsim/core"
)

var theT *testing.T

func TestSim(t *testing.T) {
	theT = t
	core.Main(t, "poolctl", []string{"C39"}, run)
}

type harness struct {
	r   *core.R
	mu  sync.Mutex // held by whichever goroutine (simulator or controller worker at a seam) touches simulator state
	api *apiServer
	inc *incarnation

	nInc    int
	passSeq int
	meta map[string]*poolMeta // by pool uid

	// swarm configuration
	thorough    bool
	cidrs       []netip.Prefix
	names       []string
	maxPools    int
	lagMode     int
	pInter      int
	pConflict   int
	pErrBefore  int
	pCommitErr  int
	pCrash      int
	pIpamErr    int
	pBlockEmpty int
	pEagerClaim int
	pDisabledAtCreate int
	skew        bool
	xlag        bool
	envW        []int

	faultsOn   bool
	interleave bool
	inSeam     bool
	simTime    time.Duration
	ctlCalls   int
	ctlWrites  int
}

func run(r *core.R) {
	r.FaultDecl("stale_pool_cache", "stale_block_cache", "api_conflict_injected", "api_error_before_effect", "api_commit_then_error",
		"ipam_release_error", "controller_crash", "controller_restart", "informer_initial_list_late", "apiserver_clock_skew", "env_action_inside_reconcile")
	r.ProbeDecl("reconcile_started", "api_conflict_stale_rv", "api_not_found", "finalizer_added", "finalizer_removed_from_terminating",
		"finalizer_removed_from_nonactive", "pool_deleted_by_finalizer_removal", "release_affinities_called", "pool_with_foreign_finalizer", "foreign_finalizer_released",
		"pool_equal_timestamp_overlap", "pool_older_timestamp_newcomer", "pool_nested_inside_existing", "pool_covers_existing", "pool_same_cidr",
		"pool_v6", "pool_recreated_same_name", "newcomer_vs_allocatable", "protection_voided_contested", "protection_ended_by_admin",
		"protected_pool_checked_at_quiescence", "mask_obligation_started", "mask_obligation_ended_by_disable", "mask_obligation_held_at_quiescence",
		"masked_pool_enabled_after_terminating_gone", "transient_double_allocatable", "terminating_blocked_by_blocks", "block_created", "block_removed",
		"restart_with_terminating_pool", "final_maximal", "final_nonmaximal", "final_overlap_pairs_checked", "quiesce_rounds_over_3",
		"work_dropped_after_max_retries_recovered_by_resync", "stale_pass_enabled_pool_over_terminating", "preexisting_allocatable_pool", "preexisting_contested_pair", "failed_write_would_have_disabled_allocatable_pool", "failed_write_would_have_disabled_allocatable_pool_with_blocks", "stale_pass_wrote_condition", "stale_pass_enabled_over_allocatable", "stale_pass_disabled_allocatable")
	klog.SetLogger(logr.Discard())
	uruntime.ReallyCrash = false
	uruntime.PanicHandlers = append(uruntime.PanicHandlers, func(_ context.Context, p interface{}) {
		r.Violation("sut_panic", "%v\n%s", p, string(debug.Stack()))
	})
	finished := false
	defer func() {
		if p := recover(); p != nil {
			if finished && strings.Contains(fmt.Sprint(p), "main bubble goroutine has exited") {
				return
			}
			if strings.Contains(fmt.Sprint(p), "deadlock") {
				r.HarnessError("bubble deadlock: %v", p)
			}
			panic(p)
		}
	}()
	synctest.Test(theT, func(t *testing.T) {
		h := &harness{r: r, meta: map[string]*poolMeta{}}
		h.main()
		finished = true
	})
}

// subPrefix returns the idx-th sub-prefix depth levels below root.
func subPrefix(root netip.Prefix, depth, idx int) netip.Prefix {
	a := root.Addr().AsSlice()
	bits := root.Bits()
	for d := 0; d < depth; d++ {
		if (idx>>(depth-1-d))&1 == 1 {
			pos := bits + d
			a[pos/8] |= 1 << (7 - pos%8)
		}
	}
	addr, _ := netip.AddrFromSlice(a)
	return netip.PrefixFrom(addr, bits+depth)
}

// nthBlock returns the k-th block-sized prefix inside pool.
func nthBlock(pool netip.Prefix, blockBits, k int) netip.Prefix {
	a := pool.Addr().AsSlice()
	hostBits := uint(len(a)*8 - blockBits)
	v := uint32(a[len(a)-4])<<24 | uint32(a[len(a)-3])<<16 | uint32(a[len(a)-2])<<8 | uint32(a[len(a)-1])
	v += uint32(k) << hostBits
	a[len(a)-4], a[len(a)-3], a[len(a)-2], a[len(a)-1] = byte(v>>24), byte(v>>16), byte(v>>8), byte(v)
	addr, _ := netip.AddrFromSlice(a)
	return netip.PrefixFrom(addr, blockBits)
}

func (h *harness) configure() {
	r := h.r
	h.thorough = r.Tier == "thorough"
	fam := r.Src.Weighted([]int{5, 2, 3}, "families")
	r.Cfg("families", []string{"v4", "v6", "v4+v6"}[fam])
	depth := r.Src.Range(1, 3, "cidr_depth")
	r.Cfg("cidr_depth", depth)
	add := func(root string, maxDepth int) {
		rp := netip.MustParsePrefix(root)
		for d := 0; d <= maxDepth; d++ {
			for i := 0; i < 1<<d; i++ {
				h.cidrs = append(h.cidrs, subPrefix(rp, d, i))
			}
		}
	}
	if fam == 0 || fam == 2 {
		add("10.8.0.0/22", depth)
		if r.Src.Chance(400, "second_root") {
			add("10.9.0.0/23", 1)
		}
	}
	if fam == 1 || fam == 2 {
		add("fd00:8::/112", depth)
	}
	h.names = []string{"a", "b", "c", "d", "e", "f", "g", "h"}
	h.maxPools = r.Src.Range(2, map[bool]int{false: 5, true: 7}[h.thorough], "max_pools")
	r.Cfg("max_pools", h.maxPools)
	h.lagMode = r.Src.Weighted([]int{2, 3, 3, 5}, "lag_mode")
	r.Cfg("lag_mode", []string{"none", "mild", "heavy", "own-writes-trickle"}[h.lagMode])
	h.pInter = []int{0, 80, 250, 500}[r.Src.Weighted([]int{2, 3, 3, 2}, "interleave_level")]
	lvl := r.Src.Weighted([]int{2, 4, 4}, "fault_level")
	r.Cfg("fault_level", lvl)
	if lvl > 0 {
		hi := []int{0, 60, 200}[lvl]
		h.pConflict = r.Src.Intn(hi, "p_conflict")
		h.pErrBefore = r.Src.Intn(hi, "p_err_before")
		h.pCommitErr = r.Src.Intn(hi, "p_commit_err")
		h.pIpamErr = r.Src.Intn(hi*2, "p_ipam_err")
		if r.Src.Chance(500, "crash_enabled") {
			h.pCrash = r.Src.Intn(25, "p_crash")
		}
	}
	h.pBlockEmpty = r.Src.Intn(900, "p_block_empty")
	h.pEagerClaim = r.Src.Intn(700, "p_eager_claim") // nodes waiting for addresses claim a block as soon as a pool turns allocatable
	h.pDisabledAtCreate = r.Src.Intn(200, "p_disabled_at_create")
	h.skew = r.Src.Chance(500, "clock_skew")
	r.Cfg("clock_skew", h.skew)
	h.xlag = os.Getenv("VERIF_POOLCTL_XLAG") != ""
	r.Cfg("cross_watch_lag", h.xlag)

	// environment action mix: create, toggle-disabled, delete, touch, block add, block remove, deliver pool events,
	// deliver block events, spurious trigger
	h.envW = []int{
		r.Src.Range(8, 25, "w_create"), r.Src.Range(0, 12, "w_toggle"), r.Src.Range(2, 14, "w_delete"), r.Src.Range(0, 6, "w_touch"),
		r.Src.Range(2, 16, "w_block_add"), r.Src.Range(2, 12, "w_block_rm"), r.Src.Range(8, 30, "w_deliver_pool"),
		r.Src.Range(4, 16, "w_deliver_block"), r.Src.Range(0, 4, "w_trigger"),
	}
	if h.lagMode == 3 {
		h.envW[2] += 10 // deletions racing with the echo of the controller's own writes
		if h.pInter < 250 {
			h.pInter = 250
		}
	}
	r.Cfg("interleave_permille", h.pInter)
}

func (h *harness) main() {
	r := h.r
	h.configure()
	h.api = &apiServer{h: h, pools: map[string]*v3.IPPool{}, blocks: map[string]*v3.IPAMBlock{}, owner: map[string]string{}, lastLogged: map[string]*v3.IPPool{}, clock: time.Now().Truncate(time.Second)}
	h.faultsOn, h.interleave = true, true
	h.mu.Lock()
	// Some runs start from an API server that already holds pools the controller has never seen.
	for i, n := 0, r.Src.Intn(4, "preexisting_pools"); i < n; i++ {
		h.actCreatePool()
	}
	// ... and whatever conditions and finalizers an earlier controller (an older version, an incarnation that died
	// half-way, one that lost a race) left on them: a reconciler has to cope with any stored state, including two
	// overlapping pools that are both marked allocatable.
	for _, p := range h.api.sortedPools() {
		st := r.Src.Weighted([]int{4, 5, 1}, "preexisting_state")
		if st == 0 {
			continue
		}
		c := metav1.Condition{Type: v3.IPPoolConditionAllocatable, Status: metav1.ConditionTrue, Reason: v3.IPPoolReasonOK,
			Message: "IPPool is available for IP allocation.", LastTransitionTime: metav1.NewTime(h.api.clock)}
		if st == 2 {
			c.Status, c.Reason, c.Message = metav1.ConditionFalse, v3.IPPoolReasonCIDROverlap, "CIDR overlaps another pool; disabled to prevent IP allocation conflicts."
		} else {
			p.Finalizers = append(p.Finalizers, ippool.IPPoolFinalizer)
		}
		p.Status = &v3.IPPoolStatus{Conditions: []metav1.Condition{c}}
		h.api.adminUpdate(p)
		r.Op("left behind by an earlier controller: %s", poolLine(p))
		if st == 1 && !p.Spec.Disabled {
			r.Probe("preexisting_allocatable_pool")
			if r.Src.Chance(850, "preexisting_block") {
				h.claimBlock(p)
			}
		}
	}
	ps0 := h.api.sortedPools()
	for i, a := range ps0 {
		for _, b := range ps0[i+1:] {
			if isTrue(a) && isTrue(b) && h.meta[string(a.UID)].pfx.Overlaps(h.meta[string(b.UID)].pfx) {
				r.Probe("preexisting_contested_pair")
			}
		}
	}
	h.startController()
	h.settle()
	nSteps := r.Src.Range(12, map[bool]int{false: 70, true: 160}[h.thorough], "n_steps")
	r.Cfg("n_steps", nSteps)
	for step := 0; step < nSteps; step++ {
		switch r.Src.Weighted([]int{78, 12, 3, 4, 3}, "op") {
		case 0:
			h.envAction()
		case 1:
			d := []time.Duration{10 * time.Millisecond, 100 * time.Millisecond, time.Second, 30 * time.Second, 20 * time.Minute}[r.Src.Weighted([]int{3, 3, 2, 1, 1}, "time_step")]
			r.Op("time passes: %v", d)
			h.sleep(d)
		case 2:
			r.Op("informer resync period elapses")
			h.sleep(5 * time.Minute)
			h.inc.poolInf.resync()
			h.inc.blockInf.resync()
		case 3:
			h.restart("graceful restart")
		case 4:
			// the pool informer falls behind for a while: several environment actions with nothing delivered
			n := r.Src.Range(2, 5, "burst_n")
			r.Op("burst of %d environment actions while the controller is descheduled", n)
			for i := 0; i < n; i++ {
				h.envAction()
			}
		}
		if !r.Src.Chance(200, "sched_controller_descheduled") {
			h.settle()
		}
		if h.inc.dead {
			h.restart("restart after crash")
		}
	}
	h.quiesce()
	h.finalOracle()
	close(h.inc.stop)
	h.mu.Unlock()
	time.Sleep(2 * time.Second)
	synctest.Wait()
	r.SimTime(h.simTime)
}

// settle lets the controller's goroutines run until every one of them is durably blocked.
func (h *harness) settle() {
	h.mu.Unlock()
	synctest.Wait()
	h.mu.Lock()
}

func (h *harness) sleep(d time.Duration) {
	h.mu.Unlock()
	synctest.Wait()
	time.Sleep(d)
	synctest.Wait()
	h.mu.Lock()
	h.simTime += d
	h.api.clock = h.api.clock.Add(d.Truncate(time.Second))
}

func (h *harness) restart(why string) {
	r := h.r
	r.Op("%s of the controller", why)
	r.Fault("controller_restart")
	close(h.inc.stop)
	h.sleep(2 * time.Second)
	for _, p := range h.api.sortedPools() {
		if p.DeletionTimestamp != nil {
			r.Probe("restart_with_terminating_pool")
			break
		}
	}
	h.startController()
	h.settle()
}

// seam runs on the controller's worker goroutine (lock held) right before an API call, IPAM call or block-cache read
// takes effect: the rest of the world may move in between.
func (h *harness) seam(where string) {
	if !h.interleave || h.inSeam {
		return
	}
	if !h.r.Src.Chance(h.pInter, "sched_interleave") {
		return
	}
	h.inSeam = true
	n := h.r.Src.Range(1, 3, "sched_interleave_n")
	for i := 0; i < n; i++ {
		h.r.Fault("env_action_inside_reconcile")
		h.r.Logf("  (inside reconcile, before %s)", where)
		h.envAction()
	}
	h.inSeam = false
}

// afterAPIChange models watch latency: with no lag every change reaches the informers at once.
func (h *harness) afterAPIChange() {
	if h.inc == nil {
		return
	}
	switch h.lagMode {
	case 0:
		h.inc.deliverAll()
	case 1:
		if h.r.Src.Chance(600, "prompt_delivery") {
			h.inc.deliverAll()
		}
	case 3:
		// Everybody else's changes arrive promptly; the echo of the controller's own writes trickles in, so
		// passes run on caches that sit between two of its own writes.
		for h.inc.blockInf.pending() > 0 {
			h.inc.blockInf.deliverOne()
		}
		for h.inc.poolInf.pending() > 0 {
			if h.api.poolLog[h.inc.poolInf.pos].pass != 0 && h.r.Src.Chance(600, "own_write_echo_held") {
				break
			}
			h.inc.deliverPool()
		}
	}
}

// ---------------------------------------------------------------- environment actions (admin, IPAM, watch delivery)

const foreignFinalizer = "example.com/audit-hold"

func (h *harness) envAction() {
	r := h.r
	switch r.Src.Weighted(h.envW, "env_op") {
	case 0:
		if !h.actCreatePool() {
			h.actDeliver(true)
		}
	case 1:
		if p := h.pickPool("toggle_target"); p != nil {
			p.Spec.Disabled = !p.Spec.Disabled
			p.Generation++ // the API server bumps metadata.generation on every spec change
			h.api.adminUpdate(p)
			r.Op("admin sets disabled=%v on %s", p.Spec.Disabled, poolLine(p))
			if p.Spec.Disabled {
				h.onAdminDisable(p)
			}
			h.afterAPIChange()
		}
	case 2:
		p := h.pickPool("delete_target")
		if p != nil {
			// admins mostly delete what they have just created (a typo in the CIDR, the wrong pool went active)
			switch r.Src.Weighted([]int{4, 4, 2}, "delete_bias") {
			case 1:
				ps := h.api.sortedPools()
				sort.SliceStable(ps, func(i, j int) bool { return uidNum(ps[i]) > uidNum(ps[j]) })
				p = ps[r.Src.Intn(min(2, len(ps)), "delete_recent")]
			case 2:
				for _, q := range h.api.sortedPools() {
					if isTrue(q) && q.DeletionTimestamp == nil {
						p = q
						break
					}
				}
			}
		}
		if p != nil {
			wasTerminating := p.DeletionTimestamp != nil
			gone := h.api.adminDelete(p)
			r.Op("admin deletes %s (gone=%v)", poolLine(p), gone)
			if gone {
				h.onPoolGone(p)
			} else if !wasTerminating {
				h.onAdminDeleteTerminating(p)
			}
			h.afterAPIChange()
		}
	case 3:
		if p := h.pickPool("touch_target"); p != nil {
			if slices.Contains(p.Finalizers, foreignFinalizer) && p.DeletionTimestamp != nil && r.Src.Chance(500, "foreign_finalizer_released") {
				p.Finalizers = slices.DeleteFunc(slices.Clone(p.Finalizers), func(f string) bool { return f == foreignFinalizer })
				r.Probe("foreign_finalizer_released")
				if len(p.Finalizers) == 0 {
					gone := h.api.adminDelete(p)
					r.Op("the foreign finalizer of %s is released (gone=%v)", poolLine(p), gone)
					if gone {
						h.onPoolGone(p)
					}
				} else {
					h.api.adminUpdate(p)
					r.Op("the foreign finalizer of %s is released", poolLine(p))
				}
				h.afterAPIChange()
				return
			}
			p.Spec.NATOutgoing = !p.Spec.NATOutgoing
			p.Generation++
			h.api.adminUpdate(p)
			r.Op("admin edits an unrelated field of %s", poolLine(p))
			h.afterAPIChange()
		}
	case 4:
		h.actBlockAdd()
	case 5:
		bs := h.api.sortedBlocks()
		if len(bs) > 0 {
			b := bs[r.Src.Intn(len(bs), "block_rm_target")]
			h.api.removeBlock(b)
			r.Probe("block_removed")
			r.Op("IPAM releases block %s", b.Spec.CIDR)
			h.afterAPIChange()
		}
	case 6:
		h.actDeliver(true)
	case 7:
		h.actDeliver(false)
	case 8:
		keys := h.inc.poolInf.idx.ListKeys()
		if len(keys) > 0 {
			r.Op("spurious pool update notification")
			h.inc.poolInf.resync()
		}
	}
}

func uidNum(p *v3.IPPool) int {
	n, _ := strconv.Atoi(strings.TrimPrefix(string(p.UID), "u"))
	return n
}

func (h *harness) pickPool(label string) *v3.IPPool {
	ps := h.api.sortedPools()
	if len(ps) == 0 {
		return nil
	}
	return ps[h.r.Src.Intn(len(ps), label)]
}

func (h *harness) actDeliver(pool bool) {
	inf := h.inc.blockInf
	if pool {
		inf = h.inc.poolInf
	}
	if inf.pending() == 0 {
		return
	}
	n := 1
	if h.lagMode != 3 {
		n = 1 + h.r.Src.Intn(inf.pending(), "deliver_n")
	}
	h.r.Op("watch delivers %d of %d pending %s events", n, inf.pending(), inf.kind)
	for i := 0; i < n && inf.pending() > 0; i++ {
		if pool {
			h.inc.deliverPool()
		} else {
			inf.deliverOne()
		}
	}
}

func (h *harness) actCreatePool() bool {
	r := h.r
	if len(h.api.pools) >= h.maxPools {
		return false
	}
	var free []string
	for _, n := range h.names {
		if _, used := h.api.pools[n]; !used {
			free = append(free, n)
		}
	}
	if len(free) == 0 {
		return false
	}
	name := free[r.Src.Intn(len(free), "pool_name")]
	pfx := h.cidrs[r.Src.Intn(len(h.cidrs), "pool_cidr")]
	if r.Src.Chance(450, "pool_cidr_biased") {
		// prefer a CIDR that overlaps a pool that is already there
		var ov []netip.Prefix
		for _, c := range h.cidrs {
			for _, p := range h.api.sortedPools() {
				if h.meta[string(p.UID)].pfx.Overlaps(c) {
					ov = append(ov, c)
					break
				}
			}
		}
		if len(ov) > 0 {
			pfx = ov[r.Src.Intn(len(ov), "pool_cidr_overlapping")]
		}
	}
	disabled := r.Src.Chance(h.pDisabledAtCreate, "pool_disabled")
	// The API server stamps creation with its own clock, which has second granularity; between two creations it
	// may not have ticked at all, and with skew enabled (another API server replica) it may even be behind.
	h.api.clock = h.api.clock.Add([]time.Duration{0, time.Second, 7 * time.Second}[r.Src.Weighted([]int{5, 3, 2}, "clock_tick")])
	ts := h.api.clock
	if h.skew && r.Src.Chance(400, "clock_skewed_now") {
		ts = ts.Add(-time.Duration(r.Src.Range(1, 3, "clock_skew_s")) * time.Second)
		r.Fault("apiserver_clock_skew")
	}
	for _, m := range h.meta {
		if m.gone && m.name == name {
			r.Probe("pool_recreated_same_name")
			break
		}
	}
	p := h.api.createPool(name, pfx, disabled, ts)
	if r.Src.Chance(150, "pool_foreign_finalizer") {
		// somebody else's finalizer (an operator's hold, foregroundDeletion): the pool outlives the controller's own
		// finalizer and stays terminating until that party lets go
		p.Finalizers = append(p.Finalizers, foreignFinalizer)
		h.api.adminUpdate(p)
		r.Probe("pool_with_foreign_finalizer")
	}
	r.Op("admin creates %s", poolLine(p))
	h.onCreate(p, pfx)
	h.afterAPIChange()
	return true
}

// actBlockAdd is the IPAM side: a node claims a block from a pool that is allocatable (condition True, enabled,
// not terminating) according to the API server.
func (h *harness) actBlockAdd() {
	r := h.r
	var cands []*v3.IPPool
	for _, p := range h.api.sortedPools() {
		if isTrue(p) && !p.Spec.Disabled && p.DeletionTimestamp == nil {
			cands = append(cands, p)
		}
	}
	if len(cands) == 0 {
		return
	}
	h.claimBlock(cands[r.Src.Intn(len(cands), "block_pool")])
}

func (h *harness) claimBlock(p *v3.IPPool) {
	r := h.r
	pfx := h.meta[string(p.UID)].pfx
	bb := 26
	if pfx.Addr().Is6() {
		bb = 122
	}
	n := 1 << (bb - pfx.Bits())
	slots := min(n, 6)
	k := r.Src.Intn(slots, "block_slot") * (n / slots)
	bp := nthBlock(pfx, bb, k)
	if _, exists := h.api.blocks[blockName(bp)]; exists {
		return
	}
	h.api.createBlock(bp, string(p.UID))
	r.Probe("block_created")
	r.Op("IPAM claims block %s from pool %s(%s)", bp, p.Name, p.UID)
	h.afterAPIChange()
}

// ---------------------------------------------------------------- quiescence

func (h *harness) quiesce() {
	r := h.r
	h.faultsOn, h.interleave = false, false
	h.pBlockEmpty = 0 // the world stops moving: the blocks that are left are in use
	r.Logf("---- quiesce: faults and interleaving off")
	if h.inc.dead {
		h.restart("restart after crash")
	}
	rounds := 0
	settleAll := func(phase string) {
		for {
			rounds++
			if rounds > 40 {
				r.Violation("no_convergence", "controller still writing / events still pending %d settle rounds after faults stopped (phase %s)", rounds, phase)
			}
			before := h.ctlCalls
			h.inc.deliverAll()
			h.sleep(3 * time.Second)
			if h.ctlCalls == before && h.inc.poolInf.pending() == 0 && h.inc.blockInf.pending() == 0 {
				return
			}
		}
	}
	settleAll("drain")
	w := h.ctlWrites
	h.sleep(5 * time.Minute)
	h.inc.poolInf.resync()
	h.inc.blockInf.resync()
	settleAll("after resync")
	if h.ctlWrites != w {
		r.Probe("work_dropped_after_max_retries_recovered_by_resync")
	}
	if rounds > 3 {
		r.Probe("quiesce_rounds_over_3")
	}
	// fixpoint: one more full pass over an up-to-date cache must not write anything
	w = h.ctlWrites
	h.sleep(5 * time.Minute)
	h.inc.poolInf.resync()
	h.sleep(3 * time.Second)
	r.Check("fixpoint_after_convergence", h.ctlWrites == w && h.inc.poolInf.pending() == 0,
		"a reconcile over an up-to-date cache, with no faults and nothing changed, still made %d API writes", h.ctlWrites-w)
}
