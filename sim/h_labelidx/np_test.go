package h_labelidx

import (
	"fmt"
	"net"
	"net/netip"
	"sort"
	"strings"

	v3 "github.com/projectcalico/api/pkg/apis/projectcalico/v3"
	"github.com/projectcalico/api/pkg/lib/numorstring"

	"github.com/projectcalico/calico/felix/ip"
	"github.com/projectcalico/calico/felix/labelindex"
	"github.com/projectcalico/calico/felix/labelindex/ipsetmember"
	"github.com/projectcalico/calico/lib/std/uniquelabels"
	"github.com/projectcalico/calico/libcalico-go/lib/backend/api"
	"github.com/projectcalico/calico/libcalico-go/lib/backend/model"
	calinet "github.com/projectcalico/calico/libcalico-go/lib/net"
)

// npTarget drives one real SelectorAndNamedPortIndex and accumulates its
// OnMemberAdded / OnMemberRemoved stream per IP set.
type npTarget struct {
	w        *world
	name     string
	suppress bool
	idx      *labelindex.SelectorAndNamedPortIndex
	acc      map[string]map[string]bool // set id -> member key -> present
	protoSty int
	inCall   string
}

func newNPTarget(w *world, name string, suppress bool, protoStyle int) *npTarget {
	t := &npTarget{w: w, name: name, suppress: suppress, acc: map[string]map[string]bool{}, protoSty: protoStyle}
	t.idx = labelindex.NewSelectorAndNamedPortIndex(suppress)
	t.idx.OnMemberAdded = t.onAdded
	t.idx.OnMemberRemoved = t.onRemoved
	return t
}

// memberKey canonicalises the externally visible form of a member: a prefix
// ("10.0.0.1/32") or "addr,proto:port".
func (t *npTarget) memberKey(m ipsetmember.IPSetMember) string {
	s := m.ToProtobufFormat()
	if i := strings.IndexByte(s, ','); i >= 0 {
		a, err := netip.ParseAddr(s[:i])
		if err != nil {
			t.w.r.HarnessError("cannot parse named-port member %q", s)
		}
		return a.String() + strings.ToLower(s[i:])
	}
	if p, err := netip.ParsePrefix(s); err == nil {
		return p.String()
	}
	a, err := netip.ParseAddr(s)
	if err != nil {
		t.w.r.HarnessError("cannot parse member %q", s)
	}
	return netip.PrefixFrom(a, a.BitLen()).String()
}

func (t *npTarget) oracle(n string) string {
	if t.w.c04 {
		return n
	}
	return "np_" + n
}

func (t *npTarget) onAdded(setID string, m ipsetmember.IPSetMember) {
	k := t.memberKey(m)
	t.w.r.Logf("  [%s] + %s %s", t.name, setID, k)
	set, ok := t.acc[setID]
	if !ok {
		t.w.r.Violation(t.oracle("member_event_for_unknown_set"), "[%s] during %s: OnMemberAdded(%s, %s) for an IP set that is not live", t.name, t.inCall, setID, k)
	}
	t.w.r.Eval()
	if set[k] {
		t.w.r.Violation(t.oracle("add_of_present_member"), "[%s] during %s: OnMemberAdded(%s, %s) but that member is already present", t.name, t.inCall, setID, k)
	}
	set[k] = true
}

func (t *npTarget) onRemoved(setID string, m ipsetmember.IPSetMember) {
	k := t.memberKey(m)
	t.w.r.Logf("  [%s] - %s %s", t.name, setID, k)
	set, ok := t.acc[setID]
	if !ok {
		t.w.r.Violation(t.oracle("member_event_for_unknown_set"), "[%s] during %s: OnMemberRemoved(%s, %s) for an IP set that is not live", t.name, t.inCall, setID, k)
	}
	t.w.r.Eval()
	if !set[k] {
		t.w.r.Violation(t.oracle("remove_of_absent_member"), "[%s] during %s: OnMemberRemoved(%s, %s) but that member is not present", t.name, t.inCall, setID, k)
	}
	delete(set, k)
}

func mkLabels(st *itemState) uniquelabels.Map {
	if len(st.labels) == 0 && st.nilLabels {
		return uniquelabels.Make(nil)
	}
	return uniquelabels.Make(copyLabels(st.labels))
}

func toNetIP(a netip.Addr) net.IP {
	if a.Is4() {
		b := a.As4()
		return net.IP(b[:])
	}
	b := a.As16()
	return net.IP(b[:])
}

func toIPNet(p netip.Prefix) calinet.IPNet {
	return calinet.IPNet{IPNet: net.IPNet{IP: toNetIP(p.Addr()), Mask: net.CIDRMask(p.Bits(), p.Addr().BitLen())}}
}

func (t *npTarget) modelPorts(st *itemState) []model.EndpointPort {
	var out []model.EndpointPort
	for _, p := range st.ports {
		var pr numorstring.Protocol
		switch t.protoSty {
		case 0:
			pr = numorstring.ProtocolFromString(strings.ToUpper(p.proto))
		case 1:
			pr = numorstring.ProtocolFromString(p.proto)
		default:
			pr = numorstring.ProtocolFromInt(map[string]uint8{"tcp": 6, "udp": 17, "sctp": 132}[p.proto])
		}
		out = append(out, model.EndpointPort{Name: p.name, Protocol: pr, Port: p.num})
	}
	return out
}

func (t *npTarget) itemSet(it *itemDef, st *itemState) {
	t.inCall = "update of " + it.name
	parents := append([]string(nil), st.parents...)
	if t.w.viaOnUpdate {
		var val any
		switch it.kind {
		case kindWEP:
			ep := &model.WorkloadEndpoint{Labels: mkLabels(st), ProfileIDs: parents, Ports: t.modelPorts(st)}
			for _, n := range st.nets {
				if n.Addr().Is4() {
					ep.IPv4Nets = append(ep.IPv4Nets, toIPNet(n))
				} else {
					ep.IPv6Nets = append(ep.IPv6Nets, toIPNet(n))
				}
			}
			val = ep
		case kindHEP:
			ep := &model.HostEndpoint{Labels: mkLabels(st), ProfileIDs: parents, Ports: t.modelPorts(st)}
			for _, n := range st.nets {
				if n.Addr().Is4() {
					ep.ExpectedIPv4Addrs = append(ep.ExpectedIPv4Addrs, calinet.IP{IP: toNetIP(n.Addr())})
				} else {
					ep.ExpectedIPv6Addrs = append(ep.ExpectedIPv6Addrs, calinet.IP{IP: toNetIP(n.Addr())})
				}
			}
			val = ep
		default:
			ns := &model.NetworkSet{Labels: mkLabels(st), ProfileIDs: parents}
			for _, n := range st.nets {
				ns.Nets = append(ns.Nets, toIPNet(n))
			}
			val = ns
		}
		t.idx.OnUpdate(api.Update{KVPair: model.KVPair{Key: it.key.(model.Key), Value: val}, UpdateType: api.UpdateTypeKVUpdated})
		return
	}
	var cidrs []ip.CIDR
	for _, n := range st.nets {
		cidrs = append(cidrs, ip.CIDRFromPrefix(n))
	}
	t.idx.UpdateEndpointOrSet(it.key, mkLabels(st), cidrs, t.modelPorts(st), parents)
}

func (t *npTarget) itemDel(it *itemDef) {
	t.inCall = "delete of " + it.name
	if t.w.viaOnUpdate {
		t.idx.OnUpdate(api.Update{KVPair: model.KVPair{Key: it.key.(model.Key)}, UpdateType: api.UpdateTypeKVDeleted})
		return
	}
	t.idx.DeleteEndpoint(it.key)
}

func profileKey(name string) model.ResourceKey {
	return model.ResourceKey{Kind: v3.KindProfile, Name: name}
}

func profileValue(name string, labels map[string]string) *v3.Profile {
	p := v3.NewProfile()
	p.Name = name
	p.Spec.LabelsToApply = copyLabels(labels)
	return p
}

func (t *npTarget) parentSet(name string, labels map[string]string) {
	t.inCall = "update of parent " + name
	if t.w.viaOnUpdate {
		t.idx.OnUpdate(api.Update{KVPair: model.KVPair{Key: profileKey(name), Value: profileValue(name, labels)}, UpdateType: api.UpdateTypeKVUpdated})
		return
	}
	t.idx.UpdateParentLabels(name, copyLabels(labels))
}

func (t *npTarget) parentDel(name string) {
	t.inCall = "delete of parent " + name
	if t.w.viaOnUpdate {
		t.idx.OnUpdate(api.Update{KVPair: model.KVPair{Key: profileKey(name)}, UpdateType: api.UpdateTypeKVDeleted})
		return
	}
	t.idx.DeleteParentLabels(name)
}

func (t *npTarget) setSet(id string, sp *setSpec) {
	t.inCall = "update of IP set " + id
	if _, ok := t.acc[id]; !ok {
		t.acc[id] = map[string]bool{}
	}
	proto := ipsetmember.ProtocolNone
	switch sp.proto {
	case "tcp":
		proto = ipsetmember.ProtocolTCP
	case "udp":
		proto = ipsetmember.ProtocolUDP
	case "sctp":
		proto = ipsetmember.ProtocolSCTP
	}
	t.idx.UpdateIPSet(id, sp.sel, proto, sp.portName)
}

func (t *npTarget) setDel(id string) {
	t.inCall = "delete of IP set " + id
	t.idx.DeleteIPSet(id)
	// The index does not emit per-member removals for a deleted IP set: the whole set goes away downstream.
	delete(t.acc, id)
}

// ---------------------------------------------------------------- expectations

// expNets is the set of CIDRs an item contributes, in canonical form.  A
// zero-length network-set CIDR delivered through OnUpdate is documented to be
// represented as its two halves.
func (w *world) expNets(it *itemDef, st *itemState) []netip.Prefix {
	var out []netip.Prefix
	for _, n := range st.nets {
		p := n.Masked()
		if p.Bits() == 0 && it.kind == kindNetSet && w.viaOnUpdate {
			if p.Addr().Is4() {
				out = append(out, netip.MustParsePrefix("0.0.0.0/1"), netip.MustParsePrefix("128.0.0.0/1"))
			} else {
				out = append(out, netip.MustParsePrefix("::/1"), netip.MustParsePrefix("8000::/1"))
			}
			continue
		}
		out = append(out, p)
	}
	return out
}

func (t *npTarget) expected(s *setDef) map[string]bool {
	w := t.w
	exp := map[string]bool{}
	contrib := map[string]int{}
	for _, it := range w.items {
		if it.cur == nil || !w.match[s.id][it.idx] {
			continue
		}
		mine := map[string]bool{}
		if s.cur.proto == "" {
			for _, p := range w.expNets(it, it.cur) {
				mine[p.String()] = true
			}
		} else {
			for _, pd := range it.cur.ports {
				if pd.name != s.cur.portName {
					continue
				}
				if pd.proto != s.cur.proto {
					w.r.Probe("named_port_other_protocol")
					continue
				}
				for _, n := range it.cur.nets {
					mine[fmt.Sprintf("%s,%s:%d", n.Addr().String(), pd.proto, pd.num)] = true
				}
			}
		}
		for k := range mine {
			exp[k] = true
			contrib[k]++
			if contrib[k] == 2 {
				w.r.Probe("member_shared_by_items")
			}
		}
	}
	return exp
}

func (t *npTarget) check(after string) {
	w := t.w
	for _, s := range w.sets {
		got, live := t.acc[s.id]
		if s.cur == nil {
			if live {
				w.r.HarnessError("accumulator for dead set %s still present", s.id)
			}
			continue
		}
		if !live {
			w.r.HarnessError("no accumulator for live set %s", s.id)
		}
		if !w.c04 {
			// C07 on the named-port index: every item carries one private /32, so the member set IS the match set.
			want := map[string]bool{}
			for i := range w.match[s.id] {
				want[w.items[i].identity.String()] = true
			}
			extra, missing := diffSets(got, want)
			w.lazy("np_matches_equal_direct_evaluation", len(extra) == 0 && len(missing) == 0, func() string {
				return fmt.Sprintf("[%s] after %s: selector %s (%s): index reports matches for %v that direct evaluation rejects, and misses %v (items by private address; effective labels: %s)",
					t.name, after, s.id, s.cur, extra, missing, w.describeItems())
			})
			continue
		}
		want := t.expected(s)
		if !t.suppress || s.cur.proto != "" {
			extra, missing := diffSets(got, want)
			w.lazy("members_equal_selected_addresses", len(extra) == 0 && len(missing) == 0, func() string {
				return fmt.Sprintf("[%s] after %s: IP set %s (%s): emitted members %v; unexpected %v, missing %v; items: %s",
					t.name, after, s.id, s.cur, sortedSetKeys(got), extra, missing, w.describeItems())
			})
			continue
		}
		// overlap suppression: same address set, and an antichain
		gp, wp := parsePrefixes(w, got), parsePrefixes(w, want)
		for i := range gp {
			for j := range gp {
				if i != j && gp[i].Bits() <= gp[j].Bits() && gp[i].Contains(gp[j].Addr()) {
					w.r.Violation("suppressed_members_not_antichain", "[%s] after %s: IP set %s (%s): emitted member %s lies inside emitted member %s (emitted %v)",
						t.name, after, s.id, s.cur, gp[j], gp[i], sortedSetKeys(got))
				}
			}
		}
		w.r.Eval()
		cg, cw := canonCover(gp), canonCover(wp)
		w.lazy("suppressed_members_cover_same_addresses", equalPrefixes(cg, cw), func() string {
			return fmt.Sprintf("[%s] after %s: IP set %s (%s): emitted members %v cover %v but the selected items' CIDRs %v cover %v; items: %s",
				t.name, after, s.id, s.cur, sortedSetKeys(got), cg, sortedSetKeys(want), cw, w.describeItems())
		})
		if len(wp) > len(gp) {
			w.r.Probe("suppression_hides_members")
		}
	}
}

func (w *world) describeItems() string {
	var sb strings.Builder
	for _, it := range w.items {
		if it.cur == nil {
			continue
		}
		fmt.Fprintf(&sb, "%s[%s] eff{%s} %s | ", it.name, it.identity.Addr(), fmtLabels(w.effective(it.cur)), it.cur)
	}
	for _, p := range w.parents {
		if p.cur != nil {
			fmt.Fprintf(&sb, "parent %s{%s} ", p.name, fmtLabels(p.cur))
		}
	}
	return sb.String()
}

// ---------------------------------------------------------------- plain prefix arithmetic

func parsePrefixes(w *world, m map[string]bool) []netip.Prefix {
	var out []netip.Prefix
	for _, k := range sortedSetKeys(m) {
		p, err := netip.ParsePrefix(k)
		if err != nil {
			w.r.HarnessError("member %q of a plain IP set is not a prefix", k)
		}
		out = append(out, p)
	}
	return out
}

func sortPrefixes(ps []netip.Prefix) {
	sort.Slice(ps, func(i, j int) bool {
		if c := ps[i].Addr().Compare(ps[j].Addr()); c != 0 {
			return c < 0
		}
		return ps[i].Bits() < ps[j].Bits()
	})
}

// canonCover returns the unique minimal list of prefixes covering exactly the
// union of ps: contained prefixes dropped, sibling halves merged.
func canonCover(ps []netip.Prefix) []netip.Prefix {
	cur := map[netip.Prefix]bool{}
	for _, p := range ps {
		cur[p.Masked()] = true
	}
	for changed := true; changed; {
		changed = false
		// drop contained
		for p := range cur {
			for q := range cur {
				if p != q && q.Bits() <= p.Bits() && q.Contains(p.Addr()) {
					delete(cur, p)
					changed = true
					break
				}
			}
		}
		// merge siblings
		for p := range cur {
			if p.Bits() == 0 || !cur[p] {
				continue
			}
			parent := netip.PrefixFrom(p.Addr(), p.Bits()-1).Masked()
			for q := range cur {
				if q != p && q.Bits() == p.Bits() && netip.PrefixFrom(q.Addr(), q.Bits()-1).Masked() == parent {
					delete(cur, p)
					delete(cur, q)
					cur[parent] = true
					changed = true
					break
				}
			}
		}
	}
	out := make([]netip.Prefix, 0, len(cur))
	for p := range cur {
		out = append(out, p)
	}
	sortPrefixes(out)
	return out
}

func equalPrefixes(a, b []netip.Prefix) bool {
	if len(a) != len(b) {
		return false
	}
	for i := range a {
		if a[i] != b[i] {
			return false
		}
	}
	return true
}
