package h_labelidx

import (
	"fmt"
	"iter"
	"sort"

	"github.com/projectcalico/calico/felix/labelindex"
	"github.com/projectcalico/calico/felix/labelindex/labelnamevalueindex"
	"github.com/projectcalico/calico/felix/labelindex/labelrestrictionindex"
	"github.com/projectcalico/calico/lib/std/uniquelabels"
	"github.com/projectcalico/calico/lib/std/uniquestr"
	"github.com/projectcalico/calico/libcalico-go/lib/backend/api"
	"github.com/projectcalico/calico/libcalico-go/lib/backend/model"
	"github.com/projectcalico/calico/libcalico-go/lib/selector/parser"
)

func setupC07(w *world) {
	w.r.ProbeDecl("strategy_no_match", "strategy_single_value", "strategy_multi_value", "strategy_label_name", "strategy_full_scan",
		"restriction_via_parent_only", "selector_unrestricted", "selector_impossible", "potential_matches_pruned")
	w.targets = append(w.targets, newInheritTarget(w))
	w.targets = append(w.targets, newPruneTarget(w))
	w.targets = append(w.targets, newNPTarget(w, "npidx", w.r.Src.Chance(300, "np_suppress"), 0))
}

func setupC04(w *world) {
	w.r.ProbeDecl("named_port_other_protocol", "member_shared_by_items", "suppression_hides_members", "net_with_host_bits", "slash0_net")
	sty := w.r.Src.Intn(3, "proto_style")
	w.r.Cfg("proto_style", sty)
	w.targets = append(w.targets, newNPTarget(w, "plain", false, sty))
	w.targets = append(w.targets, newNPTarget(w, "suppress", true, sty))
}

// ---------------------------------------------------------------- InheritIndex with a start/stop monitor

type inheritTarget struct {
	w       *world
	idx     *labelindex.InheritIndex
	started map[string]bool // "sel|item"
	byKey   map[any]string
	inCall  string
}

func newInheritTarget(w *world) *inheritTarget {
	t := &inheritTarget{w: w, started: map[string]bool{}, byKey: map[any]string{}}
	for _, it := range w.items {
		t.byKey[it.key] = it.name
	}
	t.idx = labelindex.NewInheritIndex(t.onStarted, t.onStopped)
	return t
}

func (t *inheritTarget) pair(selID, itemID any) string {
	s, ok := selID.(string)
	n, ok2 := t.byKey[itemID]
	if !ok || !ok2 {
		t.w.r.Violation("callback_for_unknown_id", "during %s: match callback names selector %v / item %v which were never given to the index", t.inCall, selID, itemID)
	}
	return s + "|" + n
}

func (t *inheritTarget) onStarted(selID, itemID any) {
	p := t.pair(selID, itemID)
	t.w.r.Logf("  [inherit] started %s", p)
	t.w.r.Eval()
	if t.started[p] {
		t.w.r.Violation("two_starts_without_stop", "during %s: OnMatchStarted(%s) while that match is already started", t.inCall, p)
	}
	t.started[p] = true
}

func (t *inheritTarget) onStopped(selID, itemID any) {
	p := t.pair(selID, itemID)
	t.w.r.Logf("  [inherit] stopped %s", p)
	t.w.r.Eval()
	if !t.started[p] {
		t.w.r.Violation("stop_without_start", "during %s: OnMatchStopped(%s) but that match was not started", t.inCall, p)
	}
	delete(t.started, p)
}

func (t *inheritTarget) itemSet(it *itemDef, st *itemState) {
	t.inCall = "update of " + it.name
	parents := append([]string(nil), st.parents...)
	if t.w.viaOnUpdate && it.kind != kindNetSet {
		var val any
		if it.kind == kindWEP {
			val = &model.WorkloadEndpoint{Labels: mkLabels(st), ProfileIDs: parents}
		} else {
			val = &model.HostEndpoint{Labels: mkLabels(st), ProfileIDs: parents}
		}
		t.idx.OnUpdate(api.Update{KVPair: model.KVPair{Key: it.key.(model.Key), Value: val}, UpdateType: api.UpdateTypeKVUpdated})
		return
	}
	t.idx.UpdateLabels(it.key, mkLabels(st), parents)
}

func (t *inheritTarget) itemDel(it *itemDef) {
	t.inCall = "delete of " + it.name
	if t.w.viaOnUpdate && it.kind != kindNetSet {
		t.idx.OnUpdate(api.Update{KVPair: model.KVPair{Key: it.key.(model.Key)}, UpdateType: api.UpdateTypeKVDeleted})
		return
	}
	t.idx.DeleteLabels(it.key)
}

func (t *inheritTarget) parentSet(name string, labels map[string]string) {
	t.inCall = "update of parent " + name
	if t.w.viaOnUpdate {
		t.idx.OnUpdate(api.Update{KVPair: model.KVPair{Key: profileKey(name), Value: profileValue(name, labels)}, UpdateType: api.UpdateTypeKVUpdated})
		return
	}
	t.idx.UpdateParentLabels(name, copyLabels(labels))
}

func (t *inheritTarget) parentDel(name string) {
	t.inCall = "delete of parent " + name
	if t.w.viaOnUpdate {
		t.idx.OnUpdate(api.Update{KVPair: model.KVPair{Key: profileKey(name)}, UpdateType: api.UpdateTypeKVDeleted})
		return
	}
	t.idx.DeleteParentLabels(name)
}

func (t *inheritTarget) setSet(id string, sp *setSpec) {
	t.inCall = "update of selector " + id
	t.idx.UpdateSelector(id, sp.sel)
}

func (t *inheritTarget) setDel(id string) {
	t.inCall = "delete of selector " + id
	t.idx.DeleteSelector(id)
}

func (t *inheritTarget) check(after string) {
	w := t.w
	want := map[string]bool{}
	for _, s := range w.sets {
		for i := range w.match[s.id] {
			want[s.id+"|"+w.items[i].name] = true
		}
	}
	extra, missing := diffSets(t.started, want)
	w.lazy("started_matches_equal_direct_evaluation", len(extra) == 0 && len(missing) == 0, func() string {
		return fmt.Sprintf("[inherit] after %s: started matches %v; direct evaluation of live selectors over effective labels rejects %v and additionally expects %v; selectors: %s; items: %s",
			after, sortedSetKeys(t.started), extra, missing, w.describeSets(), w.describeItems())
	})
}

func (w *world) describeSets() string {
	s := ""
	for _, sd := range w.sets {
		if sd.cur != nil {
			s += sd.id + "=" + sd.cur.String() + " | "
		}
	}
	return s
}

// ---------------------------------------------------------------- pruning soundness

// ownLabeled is what the harness stores in the real LabelNameValueIndex.
type ownLabeled struct{ labels uniquelabels.Map }

func (o ownLabeled) OwnLabelHandles() iter.Seq2[uniquestr.Handle, uniquestr.Handle] {
	return o.labels.AllHandles()
}

// effLabeled presents the harness-computed effective labels to the real LabelRestrictionIndex.
type effLabeled struct{ kv [][2]uniquestr.Handle }

func (e effLabeled) AllOwnAndParentLabelHandles() iter.Seq2[uniquestr.Handle, uniquestr.Handle] {
	return func(yield func(k, v uniquestr.Handle) bool) {
		for _, p := range e.kv {
			if !yield(p[0], p[1]) {
				return
			}
		}
	}
}

// pruneTarget keeps the real candidate-pruning structures in lockstep with
// the model: items indexed by own labels, parents indexed by their labels,
// selectors indexed by their label restrictions.
type pruneTarget struct {
	w      *world
	items  *labelnamevalueindex.LabelNameValueIndex[string, ownLabeled]
	pars   *labelnamevalueindex.LabelNameValueIndex[string, ownLabeled]
	restr  *labelrestrictionindex.LabelRestrictionIndex[string]
	byName map[string]*itemDef
}

func newPruneTarget(w *world) *pruneTarget {
	t := &pruneTarget{w: w,
		items:  labelnamevalueindex.New[string, ownLabeled]("sim-items"),
		pars:   labelnamevalueindex.New[string, ownLabeled]("sim-parents"),
		restr:  labelrestrictionindex.New[string](),
		byName: map[string]*itemDef{}}
	for _, it := range w.items {
		t.byName[it.name] = it
	}
	return t
}

func (t *pruneTarget) itemSet(it *itemDef, st *itemState) {
	if _, ok := t.items.Get(it.name); ok {
		t.items.Remove(it.name)
	}
	t.items.Add(it.name, ownLabeled{uniquelabels.Make(copyLabels(st.labels))})
}

func (t *pruneTarget) itemDel(it *itemDef) {
	if _, ok := t.items.Get(it.name); ok {
		t.items.Remove(it.name)
	}
}

func (t *pruneTarget) parentSet(name string, labels map[string]string) {
	if _, ok := t.pars.Get(name); ok {
		t.pars.Remove(name)
	}
	t.pars.Add(name, ownLabeled{uniquelabels.Make(copyLabels(labels))})
}

func (t *pruneTarget) parentDel(name string) {
	if _, ok := t.pars.Get(name); ok {
		t.pars.Remove(name)
	}
}

func (t *pruneTarget) setSet(id string, sp *setSpec) { t.restr.AddSelector(id, sp.sel) }
func (t *pruneTarget) setDel(id string)              { t.restr.DeleteSelector(id) }

func (t *pruneTarget) check(after string) {
	w := t.w
	// (a) selector candidates for an item: AllPotentialMatches over the item's effective labels
	nLive := 0
	for _, s := range w.sets {
		if s.cur != nil {
			nLive++
		}
	}
	for _, it := range w.items {
		if it.cur == nil {
			continue
		}
		eff := w.effective(it.cur)
		ks := make([]string, 0, len(eff))
		for k := range eff {
			ks = append(ks, k)
		}
		sort.Strings(ks)
		var e effLabeled
		for _, k := range ks {
			e.kv = append(e.kv, [2]uniquestr.Handle{uniquestr.Make(k), uniquestr.Make(eff[k])})
		}
		cands := map[string]bool{}
		for id, sel := range t.restr.AllPotentialMatches(e) {
			cands[id] = true
			sd := w.setByID(id)
			if sd == nil || sd.cur == nil || sel == nil || sel.UniqueID() != sd.cur.sel.UniqueID() {
				w.r.Violation("potential_match_names_dead_selector", "[prune] after %s: AllPotentialMatches(%s) produced selector %q which is not live with that content", after, it.name, id)
			}
		}
		if len(cands) < nLive {
			w.r.Probe("potential_matches_pruned")
		}
		for _, s := range w.sets {
			if s.cur == nil || !w.match[s.id][it.idx] {
				continue
			}
			w.lazy("restriction_index_keeps_true_match", cands[s.id], func() string {
				return fmt.Sprintf("[prune] after %s: selector %s (%s) matches %s (effective labels {%s}) but LabelRestrictionIndex.AllPotentialMatches does not list it (listed %v; restrictions %v)",
					after, s.id, s.cur, it.name, fmtLabels(eff), sortedSetKeys(cands), s.cur.sel.LabelRestrictions())
			})
		}
	}
	// (b) item candidates for a selector: for every label restriction of the selector, a true match
	// must be reachable through the item strategy (own labels) or through the parent strategy
	// (children of the parents it yields).
	for _, s := range w.sets {
		if s.cur == nil {
			continue
		}
		lrs := s.cur.sel.LabelRestrictions()
		if lrs.Len() == 0 {
			w.r.Probe("selector_unrestricted")
		}
		type kr struct {
			k uniquestr.Handle
			r parser.LabelRestriction
		}
		var list []kr
		for k, r := range lrs.All() {
			list = append(list, kr{k, r})
		}
		sort.Slice(list, func(i, j int) bool { return list[i].k.Value() < list[j].k.Value() })
		for _, e := range list {
			if !e.r.PossibleToSatisfy() {
				w.r.Probe("selector_impossible")
			}
			es := t.items.StrategyFor(e.k, e.r)
			ps := t.pars.StrategyFor(e.k, e.r)
			for _, st := range []string{es.Name(), ps.Name()} {
				switch st {
				case "no-match":
					w.r.Probe("strategy_no_match")
				case "single-value":
					w.r.Probe("strategy_single_value")
				case "multi-value":
					w.r.Probe("strategy_multi_value")
				case "label-name":
					w.r.Probe("strategy_label_name")
				case "full-scan":
					w.r.Probe("strategy_full_scan")
				}
			}
			viaOwn := map[string]bool{}
			if es.EstimatedItemsToScan() > 0 {
				es.Scan(func(id string) bool { viaOwn[id] = true; return true })
			}
			viaParent := map[string]bool{}
			if ps.EstimatedItemsToScan() > 0 {
				ps.Scan(func(pn string) bool {
					for _, it := range w.items {
						if it.cur == nil {
							continue
						}
						for _, p := range it.cur.parents {
							if p == pn {
								viaParent[it.name] = true
							}
						}
					}
					return true
				})
			}
			for i := range w.match[s.id] {
				it := w.items[i]
				if !viaOwn[it.name] && viaParent[it.name] {
					w.r.Probe("restriction_via_parent_only")
				}
				w.lazy("scan_strategy_keeps_true_match", viaOwn[it.name] || viaParent[it.name], func() string {
					return fmt.Sprintf("[prune] after %s: selector %s (%s) matches %s (effective labels {%s}) but for its restriction on label %q %v neither the item strategy %q (yields %v) nor the parent strategy %q (children %v) produces it",
						after, s.id, s.cur, it.name, fmtLabels(w.effective(it.cur)), e.k.Value(), e.r, es.String(), sortedSetKeys(viaOwn), ps.String(), sortedSetKeys(viaParent))
				})
			}
		}
		// an unrestricted scan must list every item
		all := map[string]bool{}
		t.items.FullScanStrategy().Scan(func(id string) bool { all[id] = true; return true })
		for i := range w.match[s.id] {
			w.lazy("full_scan_lists_every_item", all[w.items[i].name], func() string {
				return fmt.Sprintf("[prune] after %s: FullScanStrategy does not list live item %s", after, w.items[i].name)
			})
		}
	}
}

func (w *world) setByID(id string) *setDef {
	for _, s := range w.sets {
		if s.id == id {
			return s
		}
	}
	return nil
}
