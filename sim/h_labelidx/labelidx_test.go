// Engine labelidx (C07, C04 direct-drive halves): the real felix/labelindex
// InheritIndex and SelectorAndNamedPortIndex (with and without the overlap
// suppressor), labelnamevalueindex and labelrestrictionindex, driven directly
// with generated datastore-event histories (label, profile-label, selector /
// IP-set updates and deletes in any order, duplicated, reverted, deleted and
// re-added) and compared after EVERY operation with a tiny reference model:
// effective labels (own over parents, first listed parent wins) + the selector
// parser's own Evaluate.
package h_labelidx

import (
	"fmt"
	"net/netip"
	"sort"
	"strings"
	"testing"

	"github.com/projectcalico/calico/libcalico-go/lib/backend/model"
	"github.com/projectcalico/calico/libcalico-go/lib/selector"

	"verifsim/core"
)

func TestSim(t *testing.T) {
	core.Main(t, "labelidx", []string{"C07", "C04"}, run)
}

// ---------------------------------------------------------------- model

const (
	kindWEP = iota
	kindHEP
	kindNetSet
)

var kindNames = []string{"wep", "hep", "netset"}

type portDef struct {
	name  string
	proto string // "tcp" | "udp" | "sctp"
	num   uint16
}

// itemState is an immutable snapshot of one endpoint / network set.
type itemState struct {
	labels    map[string]string
	nilLabels bool // hand the index a nil label map instead of an empty one when there are no labels
	parents   []string
	nets      []netip.Prefix // as written in the datastore (host bits may be set)
	ports     []portDef
}

func (s *itemState) String() string {
	if s == nil {
		return "<absent>"
	}
	var nets []string
	for _, n := range s.nets {
		nets = append(nets, n.String())
	}
	var ports []string
	for _, p := range s.ports {
		ports = append(ports, fmt.Sprintf("%s/%s:%d", p.name, p.proto, p.num))
	}
	return fmt.Sprintf("labels{%s} parents%v nets%v ports%v", fmtLabels(s.labels), s.parents, nets, ports)
}

type itemDef struct {
	idx      int
	name     string
	kind     int
	key      any // model key used as the id in the real indexes
	identity netip.Prefix
	cur      *itemState
	prev     *itemState
	changed  bool // had at least one state change (so prev is meaningful)
	everLive bool
}

type parentDef struct {
	name    string
	cur     map[string]string // nil = the profile does not exist
	prev    map[string]string
	changed bool
}

type setSpec struct {
	selStr   string
	sel      *selector.Selector
	proto    string // "" = plain selector IP set
	portName string
}

func (s *setSpec) String() string {
	if s == nil {
		return "<absent>"
	}
	if s.proto == "" {
		return s.sel.String()
	}
	return fmt.Sprintf("%s ; named port %s/%s", s.sel.String(), s.proto, s.portName)
}

func sameSpec(a, b *setSpec) bool {
	if a == nil || b == nil {
		return a == b
	}
	return a.sel.UniqueID() == b.sel.UniqueID() && a.proto == b.proto && a.portName == b.portName
}

type setDef struct {
	id       string
	cur      *setSpec
	prev     *setSpec
	changed  bool
	everLive bool
}

// target is one real index (or group of indexes) fed with the history.
type target interface {
	itemSet(it *itemDef, st *itemState)
	itemDel(it *itemDef)
	parentSet(name string, labels map[string]string)
	parentDel(name string)
	setSet(id string, sp *setSpec)
	setDel(id string)
	check(after string)
}

type world struct {
	r *core.R

	names []string
	vals  []string

	items   []*itemDef
	parents []*parentDef
	opPar   int // parents [0,opPar) receive label updates; the rest are only ever referenced
	sets    []*setDef

	c04          bool // rich CIDRs / named ports (C04) versus identity CIDRs (C07)
	viaOnUpdate  bool
	inplace      bool
	dupParents   bool
	hostBits     bool
	slash0       bool
	v6           bool
	namedPortPct int
	mutW         []int // per-run (swarm) weights of the item mutation kinds
	kindW        []int // per-run weights of item kinds
	selDepth     int

	targets []target

	lastKind, lastIdx int
	haveLast          bool

	// expected match relation, recomputed after every operation
	match map[string]map[int]bool
}

func fmtLabels(m map[string]string) string {
	ks := make([]string, 0, len(m))
	for k := range m {
		ks = append(ks, k)
	}
	sort.Strings(ks)
	var sb strings.Builder
	for i, k := range ks {
		if i > 0 {
			sb.WriteByte(' ')
		}
		fmt.Fprintf(&sb, "%s=%q", k, m[k])
	}
	return sb.String()
}

func copyLabels(m map[string]string) map[string]string {
	out := make(map[string]string, len(m))
	for k, v := range m {
		out[k] = v
	}
	return out
}

// effective is the reference definition of an item's effective labels: its own
// labels, plus, for every label name it does not carry itself, the value from
// the first listed parent that exists and carries that name.
func (w *world) effective(st *itemState) map[string]string {
	eff := copyLabels(st.labels)
	for _, pn := range st.parents {
		p := w.parentByName(pn)
		if p == nil || p.cur == nil {
			continue
		}
		for k, v := range p.cur {
			if _, ok := eff[k]; !ok {
				eff[k] = v
			}
		}
	}
	return eff
}

func (w *world) parentByName(n string) *parentDef {
	for _, p := range w.parents {
		if p.name == n {
			return p
		}
	}
	return nil
}

// recompute evaluates every live selector against every live item directly.
func (w *world) recompute() {
	w.match = map[string]map[int]bool{}
	effs := make([]map[string]string, len(w.items))
	for _, it := range w.items {
		if it.cur == nil {
			continue
		}
		eff := w.effective(it.cur)
		effs[it.idx] = eff
		for _, pn := range it.cur.parents {
			p := w.parentByName(pn)
			if p == nil || p.cur == nil {
				w.r.Probe("dangling_parent_ref")
				continue
			}
			for k, v := range p.cur {
				if ov, ok := it.cur.labels[k]; ok && ov != v {
					w.r.Probe("own_label_shadows_parent")
				}
			}
		}
		if len(it.cur.parents) >= 2 {
			p0, p1 := w.parentByName(it.cur.parents[0]), w.parentByName(it.cur.parents[1])
			if p0 != nil && p1 != nil && p0.cur != nil && p1.cur != nil {
				for k, v := range p1.cur {
					if v0, ok := p0.cur[k]; ok && v0 != v {
						w.r.Probe("parents_disagree_first_wins")
					}
				}
			}
		}
	}
	for _, s := range w.sets {
		if s.cur == nil {
			continue
		}
		m := map[int]bool{}
		for _, it := range w.items {
			if it.cur == nil {
				continue
			}
			if s.cur.sel.Evaluate(effs[it.idx]) {
				m[it.idx] = true
				if !s.cur.sel.Evaluate(it.cur.labels) {
					w.r.Probe("match_only_via_parent")
				}
			} else if s.cur.sel.Evaluate(it.cur.labels) {
				w.r.Probe("parent_label_prevents_match")
			}
		}
		w.match[s.id] = m
	}
}

// ---------------------------------------------------------------- generators

var allNames = []string{"a", "b", "c", "d", "e"}
var allVals = []string{"x", "", "xy"}
var protoNames = []string{"tcp", "udp", "sctp"}
var portNames = []string{"http", "dns"}
var portNums = []uint16{80, 8080, 53}

var v4Bases = []string{"10.0.0.1", "10.0.0.2", "10.0.0.129", "10.0.1.1", "10.1.0.1", "192.168.0.1", "128.0.0.1"}
var v4Lens = []int{32, 24, 25, 31, 30, 23, 16, 8, 1}
var v6Bases = []string{"fd00::1", "fd00::2", "fd00:0:0:1::1", "8000::1"}
var v6Lens = []int{128, 64, 127, 16, 1}
var singleAddrs = []string{"10.0.0.1", "10.0.0.2", "10.0.1.1", "192.168.0.1", "fd00::1", "fd00::2"}

func (w *world) drawLabels(lbl string) map[string]string {
	src := w.r.Src
	n := src.Weighted([]int{20, 40, 25, 15}, lbl+"_n")
	m := map[string]string{}
	for j := 0; j < n; j++ {
		m[w.names[src.Intn(len(w.names), lbl+"_k")]] = w.vals[src.Intn(len(w.vals), lbl+"_v")]
	}
	return m
}

func (w *world) drawParents() []string {
	src := w.r.Src
	n := src.Weighted([]int{40, 35, 18, 7}, "item_nparents")
	var out []string
	for j := 0; j < n; j++ {
		pn := w.parents[src.Intn(len(w.parents), "item_parent")].name
		dup := false
		for _, o := range out {
			if o == pn {
				dup = true
			}
		}
		if dup && !w.dupParents {
			continue
		}
		if dup {
			w.r.Probe("duplicate_parent_ref")
		}
		out = append(out, pn)
	}
	return out
}

func (w *world) drawPrefix() netip.Prefix {
	src := w.r.Src
	var a netip.Addr
	var bits int
	if w.v6 && src.Chance(300, "net_v6") {
		a = netip.MustParseAddr(v6Bases[src.Intn(len(v6Bases), "net_base")])
		if w.slash0 && src.Chance(80, "net_slash0") {
			bits = 0
		} else {
			bits = v6Lens[src.Weighted([]int{30, 25, 10, 20, 15}, "net_len")]
		}
	} else {
		a = netip.MustParseAddr(v4Bases[src.Intn(len(v4Bases), "net_base")])
		if w.slash0 && src.Chance(80, "net_slash0") {
			bits = 0
		} else {
			bits = v4Lens[src.Weighted([]int{25, 20, 12, 6, 6, 10, 10, 6, 5}, "net_len")]
		}
	}
	p := netip.PrefixFrom(a, bits)
	if !w.hostBits {
		p = p.Masked()
	} else if p != p.Masked() {
		w.r.Probe("net_with_host_bits")
	}
	if bits == 0 {
		w.r.Probe("slash0_net")
	}
	return p
}

func (w *world) drawNets(it *itemDef) []netip.Prefix {
	src := w.r.Src
	if !w.c04 {
		return []netip.Prefix{it.identity}
	}
	var out []netip.Prefix
	if it.kind == kindNetSet {
		n := src.Weighted([]int{15, 40, 30, 15}, "item_nnets")
		for j := 0; j < n; j++ {
			out = append(out, w.drawPrefix())
		}
		return out
	}
	n := src.Weighted([]int{10, 55, 35}, "item_naddrs")
	for j := 0; j < n; j++ {
		lim := len(singleAddrs)
		if !w.v6 {
			lim = 4
		}
		a := netip.MustParseAddr(singleAddrs[src.Intn(lim, "item_addr")])
		out = append(out, netip.PrefixFrom(a, a.BitLen()))
	}
	return out
}

func (w *world) drawPorts(it *itemDef) []portDef {
	src := w.r.Src
	if !w.c04 || it.kind == kindNetSet {
		return nil
	}
	n := src.Weighted([]int{25, 35, 25, 15}, "item_nports")
	var out []portDef
	for j := 0; j < n; j++ {
		out = append(out, portDef{
			name:  portNames[src.Intn(len(portNames), "port_name")],
			proto: protoNames[src.Intn(len(protoNames), "port_proto")],
			num:   portNums[src.Intn(len(portNums), "port_num")],
		})
	}
	return out
}

func (w *world) drawItemState(it *itemDef) *itemState {
	st := &itemState{}
	st.labels = w.drawLabels("item_label")
	st.nilLabels = w.r.Src.Chance(300, "item_nil_labels")
	st.parents = w.drawParents()
	st.nets = w.drawNets(it)
	st.ports = w.drawPorts(it)
	return st
}

// mutateItem derives a new snapshot from the current one by changing one aspect.
func (w *world) mutateItem(it *itemDef) *itemState {
	src := w.r.Src
	old := it.cur
	st := &itemState{labels: copyLabels(old.labels), nilLabels: old.nilLabels,
		parents: append([]string(nil), old.parents...), nets: append([]netip.Prefix(nil), old.nets...),
		ports: append([]portDef(nil), old.ports...)}
	switch src.Weighted(w.mutW, "item_mut") {
	case 0: // set one label
		st.labels[w.names[src.Intn(len(w.names), "item_label_k")]] = w.vals[src.Intn(len(w.vals), "item_label_v")]
	case 1: // drop one label
		ks := make([]string, 0, len(st.labels))
		for k := range st.labels {
			ks = append(ks, k)
		}
		sort.Strings(ks)
		if len(ks) > 0 {
			delete(st.labels, ks[src.Intn(len(ks), "item_label_drop")])
		}
	case 2:
		st.parents = w.drawParents()
	case 3:
		st.nets = w.drawNets(it)
	case 4:
		st.ports = w.drawPorts(it)
	case 5:
		return w.drawItemState(it)
	case 6: // one named port gets another number (same name and protocol)
		if len(st.ports) > 0 {
			j := src.Intn(len(st.ports), "port_pick")
			for k, pn := range portNums {
				if pn == st.ports[j].num {
					st.ports[j].num = portNums[(k+1+src.Intn(len(portNums)-1, "port_num_step"))%len(portNums)]
					break
				}
			}
		} else {
			st.ports = w.drawPorts(it)
		}
	case 7: // one named port changes protocol or name
		if len(st.ports) > 0 {
			j := src.Intn(len(st.ports), "port_pick")
			if src.Chance(500, "port_rename") {
				st.ports[j].name = portNames[src.Intn(len(portNames), "port_name")]
			} else {
				st.ports[j].proto = protoNames[src.Intn(len(protoNames), "port_proto")]
			}
		} else {
			st.ports = w.drawPorts(it)
		}
	case 8: // one address / CIDR is added, dropped or replaced
		fresh := w.drawNets(it)
		switch {
		case len(st.nets) > 0 && src.Chance(350, "net_drop"):
			j := src.Intn(len(st.nets), "net_pick")
			st.nets = append(st.nets[:j], st.nets[j+1:]...)
		case len(st.nets) > 0 && len(fresh) > 0 && src.Chance(500, "net_replace"):
			st.nets[src.Intn(len(st.nets), "net_pick")] = fresh[0]
		case len(fresh) > 0 && len(st.nets) < 4:
			st.nets = append(st.nets, fresh[0])
		}
	}
	return st
}

func (w *world) quote(v string) string { return `"` + v + `"` }

func (w *world) selAtom() string {
	src := w.r.Src
	t := src.Weighted([]int{6, 22, 12, 10, 8, 10, 7, 4, 4, 4}, "sel_atom")
	if t == 0 {
		return "all()"
	}
	k := w.names[src.Intn(len(w.names), "sel_k")]
	val := func() string { return w.quote(w.vals[src.Intn(len(w.vals), "sel_v")]) }
	set := func() string {
		n := src.Range(1, 3, "sel_set_n")
		var vs []string
		for j := 0; j < n; j++ {
			vs = append(vs, val())
		}
		return "{" + strings.Join(vs, ", ") + "}"
	}
	sub := func() string { return w.quote([]string{"x", "y", "xy"}[src.Intn(3, "sel_sub")]) }
	switch t {
	case 1:
		return k + " == " + val()
	case 2:
		return "has(" + k + ")"
	case 3:
		return k + " != " + val()
	case 4:
		return "!has(" + k + ")"
	case 5:
		return k + " in " + set()
	case 6:
		return k + " not in " + set()
	case 7:
		return k + " contains " + sub()
	case 8:
		return k + " starts with " + sub()
	default:
		return k + " ends with " + sub()
	}
}

func (w *world) selExpr(depth int) string {
	src := w.r.Src
	if depth <= 0 {
		return w.selAtom()
	}
	switch src.Weighted([]int{45, 20, 18, 10, 7}, "sel_shape") {
	case 0:
		return w.selAtom()
	case 1:
		return w.selExpr(depth-1) + " && " + w.selExpr(depth-1)
	case 2:
		return "(" + w.selExpr(depth-1) + " || " + w.selExpr(depth-1) + ")"
	case 3:
		return "!(" + w.selExpr(depth-1) + ")"
	default:
		return "(" + w.selExpr(depth-1) + ")"
	}
}

func (w *world) drawSpec() *setSpec {
	src := w.r.Src
	s := w.selExpr(w.selDepth)
	sel, err := selector.Parse(s)
	if err != nil {
		w.r.HarnessError("generated selector %q does not parse: %v", s, err)
	}
	sp := &setSpec{selStr: s, sel: sel}
	if w.c04 && src.Chance(w.namedPortPct*10, "set_named_port") {
		sp.proto = protoNames[src.Intn(len(protoNames), "set_proto")]
		sp.portName = portNames[src.Intn(len(portNames), "set_port_name")]
	}
	return sp
}

// ---------------------------------------------------------------- deliveries

const (
	dItem = iota
	dParent
	dSet
)

// deliver hands the CURRENT model value of one object to every target (the
// way a syncer delivers the latest value of a key), then checks everything.
func (w *world) deliver(kind, idx int, why string) {
	var desc string
	switch kind {
	case dItem:
		it := w.items[idx]
		if it.cur != nil {
			desc = fmt.Sprintf("%s set %s(%s) %s", why, it.name, kindNames[it.kind], it.cur)
		} else {
			desc = fmt.Sprintf("%s delete %s", why, it.name)
		}
	case dParent:
		p := w.parents[idx]
		if p.cur != nil {
			desc = fmt.Sprintf("%s parent %s labels{%s}", why, p.name, fmtLabels(p.cur))
		} else {
			desc = fmt.Sprintf("%s delete parent %s", why, p.name)
		}
	case dSet:
		s := w.sets[idx]
		if s.cur != nil {
			desc = fmt.Sprintf("%s selector %s := %s", why, s.id, s.cur)
		} else {
			desc = fmt.Sprintf("%s delete selector %s", why, s.id)
		}
	}
	w.r.Op("%s", desc)
	for _, t := range w.targets {
		switch kind {
		case dItem:
			it := w.items[idx]
			if it.cur != nil {
				t.itemSet(it, it.cur)
			} else {
				t.itemDel(it)
			}
		case dParent:
			p := w.parents[idx]
			if p.cur != nil {
				t.parentSet(p.name, p.cur)
			} else {
				t.parentDel(p.name)
			}
		case dSet:
			s := w.sets[idx]
			if s.cur != nil {
				t.setSet(s.id, s.cur)
			} else {
				t.setDel(s.id)
			}
		}
	}
	w.lastKind, w.lastIdx, w.haveLast = kind, idx, true
	w.recompute()
	for _, t := range w.targets {
		t.check(desc)
	}
}

func (w *world) setItem(it *itemDef, st *itemState, why string) {
	if it.cur == nil && st != nil && it.everLive {
		w.r.Fault("readd_after_delete")
	}
	if it.cur == nil && st == nil {
		w.r.Fault("delete_unknown")
	}
	it.prev, it.cur, it.changed = it.cur, st, true
	if st != nil {
		it.everLive = true
	}
	w.deliver(dItem, it.idx, why)
}

func (w *world) setParent(i int, labels map[string]string, why string) {
	p := w.parents[i]
	if p.cur == nil && labels == nil {
		w.r.Fault("delete_unknown")
	}
	if p.cur == nil && labels != nil {
		for _, it := range w.items {
			if it.cur == nil {
				continue
			}
			for _, pn := range it.cur.parents {
				if pn == p.name {
					w.r.Probe("parent_arrives_after_child")
				}
			}
		}
	}
	p.prev, p.cur, p.changed = p.cur, labels, true
	w.deliver(dParent, i, why)
}

func (w *world) setSet(i int, sp *setSpec, why string) {
	s := w.sets[i]
	if s.cur == nil && sp == nil {
		w.r.Fault("delete_unknown")
	}
	if s.cur == nil && sp != nil && s.everLive {
		w.r.Fault("readd_after_delete")
	}
	if s.cur != nil && sp != nil && !sameSpec(s.cur, sp) {
		if w.inplace {
			w.r.Fault("selector_changed_in_place")
		} else {
			// Felix derives the id from the content, so a changed selector is a delete and an add.
			old := s.cur
			s.prev, s.cur, s.changed = old, nil, true
			w.deliver(dSet, i, why+" (delete first)")
			s.cur = sp
			s.prev = old
			s.everLive = true
			w.deliver(dSet, i, why)
			return
		}
	}
	s.prev, s.cur, s.changed = s.cur, sp, true
	if sp != nil {
		s.everLive = true
	}
	w.deliver(dSet, i, why)
}

// ---------------------------------------------------------------- run

func run(r *core.R) {
	r.FaultDecl("duplicate_delivery", "revert_to_previous", "delete_unknown", "readd_after_delete", "selector_changed_in_place")
	r.ProbeDecl("dangling_parent_ref", "own_label_shadows_parent", "parents_disagree_first_wins", "match_only_via_parent",
		"parent_label_prevents_match", "parent_arrives_after_child", "duplicate_parent_ref", "teardown_done")
	resetLabelCache(r)
	src := r.Src
	thorough := r.Tier == "thorough"
	w := &world{r: r}
	w.c04 = r.Armed("C04")

	nNames := src.Range(3, 5, "n_names")
	nVals := src.Range(2, 3, "n_vals")
	w.names, w.vals = allNames[:nNames], allVals[:nVals]
	maxN := 8
	nItems := src.Range(2, maxN, "n_items")
	nPar := src.Range(1, 4, "n_parent_names")
	w.opPar = nPar
	if src.Chance(300, "ghost_parent") {
		w.opPar = nPar - 1
	}
	nSets := src.Range(2, 8, "n_sets")
	nOps := src.Range(10, 120, "n_ops")
	if thorough {
		nOps = src.Range(10, 250, "n_ops_thorough")
	}
	w.viaOnUpdate = src.Chance(500, "via_onupdate")
	w.inplace = src.Chance(350, "inplace_selector_change")
	w.selDepth = src.Range(0, 3, "sel_depth")
	// An endpoint may list the same profile more than once (nothing upstream deduplicates
	// Spec.Profiles); the first occurrence decides and the repeats must be harmless.
	w.dupParents = src.Chance(400, "dup_parent_refs")
	if w.c04 {
		w.hostBits = src.Chance(300, "host_bits")
		w.slash0 = src.Chance(400, "slash0")
		w.v6 = src.Chance(600, "ipv6")
		w.namedPortPct = []int{30, 0, 60, 90}[src.Intn(4, "named_port_share")]
	}
	// swarm: every run emphasises another mix of mutation kinds and item kinds
	swarm := func(base []int, lbl string) []int {
		out := make([]int, len(base))
		sum := 0
		for i, b := range base {
			out[i] = b * []int{1, 0, 3, 6}[src.Intn(4, lbl)]
			sum += out[i]
		}
		if sum == 0 {
			copy(out, base)
		}
		return out
	}
	if w.c04 {
		w.mutW = swarm([]int{26, 12, 16, 8, 6, 8, 14, 8, 10}, "swarm_mut")
		w.kindW = swarm([]int{5, 2, 3}, "swarm_kind")
	} else {
		w.mutW = swarm([]int{40, 20, 25, 0, 0, 15, 0, 0, 0}, "swarm_mut")
		w.kindW = []int{5, 2, 3}
	}
	r.Cfg("swarm_mut", fmt.Sprint(w.mutW))
	r.Cfg("swarm_kind", fmt.Sprint(w.kindW))
	r.Cfg("n_names", nNames)
	r.Cfg("n_vals", nVals)
	r.Cfg("n_items", nItems)
	r.Cfg("n_parent_names", nPar)
	r.Cfg("n_sets", nSets)
	r.Cfg("n_ops", nOps)
	r.Cfg("via_onupdate", w.viaOnUpdate)
	r.Cfg("inplace_selector_change", w.inplace)
	r.Cfg("sel_depth", w.selDepth)
	r.Cfg("dup_parent_refs", w.dupParents)
	if w.c04 {
		r.Cfg("host_bits", w.hostBits)
		r.Cfg("slash0", w.slash0)
		r.Cfg("ipv6", w.v6)
		r.Cfg("named_port_pct", w.namedPortPct)
	}

	for i := 0; i < nItems; i++ {
		it := &itemDef{idx: i}
		it.kind = src.Weighted(w.kindW, "item_kind")
		it.name = fmt.Sprintf("%s%d", kindNames[it.kind], i)
		switch it.kind {
		case kindWEP:
			it.key = model.WorkloadEndpointKey{Hostname: "host", OrchestratorID: "k8s", WorkloadID: it.name, EndpointID: "eth0"}
		case kindHEP:
			it.key = model.HostEndpointKey{Hostname: "host", EndpointID: it.name}
		default:
			it.key = model.NetworkSetKey{Name: it.name}
		}
		a := netip.AddrFrom4([4]byte{10, 77, 0, byte(i + 1)})
		it.identity = netip.PrefixFrom(a, 32)
		w.items = append(w.items, it)
	}
	for i := 0; i < nPar; i++ {
		w.parents = append(w.parents, &parentDef{name: fmt.Sprintf("p%d", i)})
	}
	for i := 0; i < nSets; i++ {
		w.sets = append(w.sets, &setDef{id: fmt.Sprintf("s%d", i)})
	}

	if w.c04 {
		setupC04(w)
	} else {
		setupC07(w)
	}
	w.recompute()

	// Optional prefill: create a seed-chosen subset of all objects in a seed-chosen order, so that
	// selectors meet an existing population (scan-on-selector path) as well as the other way round.
	if src.Chance(500, "prefill") {
		total := nItems + w.opPar + nSets
		for _, j := range src.Perm(total, "prefill_order") {
			if !src.Chance(700, "prefill_take") {
				continue
			}
			switch {
			case j < nItems:
				w.setItem(w.items[j], w.drawItemState(w.items[j]), "prefill")
			case j < nItems+w.opPar:
				w.setParent(j-nItems, w.drawLabels("parent_label"), "prefill")
			default:
				w.setSet(j-nItems-w.opPar, w.drawSpec(), "prefill")
			}
		}
	}

	opW := []int{30, 8, 14, 6, 14, 7, 8, 8}
	if w.opPar == 0 {
		opW[2], opW[3] = 0, 0
	}
	for i := 0; i < nOps; i++ {
		switch src.Weighted(opW, "op") {
		case 0:
			it := w.items[src.Intn(nItems, "op_item")]
			if it.cur == nil {
				w.setItem(it, w.drawItemState(it), "update")
			} else {
				w.setItem(it, w.mutateItem(it), "update")
			}
		case 1:
			j := src.Intn(nItems, "op_item")
			if w.items[j].cur == nil && src.Chance(800, "delete_prefers_live") {
				for k := 0; k < nItems && w.items[j].cur == nil; k++ {
					j = (j + 1) % nItems
				}
			}
			w.setItem(w.items[j], nil, "update")
		case 2:
			w.setParent(src.Intn(w.opPar, "op_parent"), w.drawLabels("parent_label"), "update")
		case 3:
			w.setParent(src.Intn(w.opPar, "op_parent"), nil, "update")
		case 4:
			w.setSet(src.Intn(nSets, "op_set"), w.drawSpec(), "update")
		case 5:
			j := src.Intn(nSets, "op_set")
			if w.sets[j].cur == nil && src.Chance(800, "delete_prefers_live") {
				for k := 0; k < nSets && w.sets[j].cur == nil; k++ {
					j = (j + 1) % nSets
				}
			}
			w.setSet(j, nil, "update")
		case 6:
			if !w.haveLast {
				continue
			}
			r.Fault("duplicate_delivery")
			w.deliver(w.lastKind, w.lastIdx, "duplicate")
		case 7:
			// revert: the object goes back to the value it had before its last change
			switch src.Weighted([]int{5, 3, 3}, "revert_kind") {
			case 0:
				it := w.items[src.Intn(nItems, "op_item")]
				if it.changed {
					r.Fault("revert_to_previous")
					w.setItem(it, it.prev, "revert")
				}
			case 1:
				if w.opPar > 0 {
					j := src.Intn(w.opPar, "op_parent")
					if w.parents[j].changed {
						r.Fault("revert_to_previous")
						w.setParent(j, w.parents[j].prev, "revert")
					}
				}
			case 2:
				j := src.Intn(nSets, "op_set")
				if w.sets[j].changed {
					r.Fault("revert_to_previous")
					w.setSet(j, w.sets[j].prev, "revert")
				}
			}
		}
	}

	// Teardown (seed-chosen): remove every item, then every parent and selector, in seed-chosen
	// order; the per-operation oracles keep running, so anything left behind shows up.
	if src.Chance(500, "teardown") {
		for _, j := range src.Perm(nItems, "teardown_items") {
			if w.items[j].cur != nil {
				w.setItem(w.items[j], nil, "teardown")
			}
		}
		for _, j := range src.Perm(w.opPar+nSets, "teardown_rest") {
			if j < w.opPar {
				if w.parents[j].cur != nil {
					w.setParent(j, nil, "teardown")
				}
			} else if w.sets[j-w.opPar].cur != nil {
				w.setSet(j-w.opPar, nil, "teardown")
			}
		}
		r.Probe("teardown_done")
	}

	// fingerprint: canonical final model state
	var fp strings.Builder
	for _, it := range w.items {
		fmt.Fprintf(&fp, "%s:%s;", it.name, it.cur)
	}
	for _, p := range w.parents {
		if p.cur != nil {
			fmt.Fprintf(&fp, "%s:{%s};", p.name, fmtLabels(p.cur))
		}
	}
	for _, s := range w.sets {
		fmt.Fprintf(&fp, "%s:%s;", s.id, s.cur)
	}
	r.Fingerprint(fp.String())
}

// lazy counts one oracle evaluation and builds the (expensive) message only on failure.
func (w *world) lazy(oracle string, ok bool, msg func() string) {
	if !ok {
		w.r.Violation(oracle, "%s", msg())
	}
	w.r.Eval()
}

func sortedSetKeys(m map[string]bool) []string {
	ks := make([]string, 0, len(m))
	for k := range m {
		ks = append(ks, k)
	}
	sort.Strings(ks)
	return ks
}

// diffSets renders got/want differences for violation messages.
func diffSets(got, want map[string]bool) (extra, missing []string) {
	for _, k := range sortedSetKeys(got) {
		if !want[k] {
			extra = append(extra, k)
		}
	}
	for _, k := range sortedSetKeys(want) {
		if !got[k] {
			missing = append(missing, k)
		}
	}
	return
}
