package h_labelidx

import (
	"hash/maphash"
	"reflect"
	"sync"
	_ "unsafe"

	"github.com/projectcalico/calico/lib/std/uniquelabels"

	"verifsim/core"
)

// uniquelabels.Make keeps a 128-slot direct-mapped cache of recent results whose
// maphash seed is drawn at package-init time, i.e. BEFORE core.Main reseeds the
// runtime seam.  Which label maps collide in that cache (and hence whether Make
// returns an older handle map with another internal slot order) therefore
// differed from process to process, and with it the order of independent
// callbacks.  The harness reseeds and empties that cache at the start of the run,
// after the runtime stream has been seeded, so that it is a function of the run
// seed like everything else.  The mirror type below must match
// lib/std/uniquelabels/cache.go; resetLabelCache verifies behaviourally that it
// reached the real cache and reports a harness error otherwise.
type recentCacheMirror struct {
	mu      sync.Mutex
	seed    maphash.Seed
	entries [128]struct {
		hash uint64
		m    uniquelabels.Map
	}
}

//go:linkname ulRecentCache github.com/projectcalico/calico/lib/std/uniquelabels.recentCache
var ulRecentCache recentCacheMirror

func handleMapPtr(m uniquelabels.Map) uintptr {
	v := reflect.ValueOf(m)
	for i := 0; i < v.NumField(); i++ {
		if v.Field(i).Kind() == reflect.Map {
			return v.Field(i).Pointer()
		}
	}
	return 0
}

func clearLabelCache() {
	ulRecentCache.mu.Lock()
	ulRecentCache.seed = maphash.MakeSeed() // drawn from the seeded runtime stream
	for i := range ulRecentCache.entries {
		ulRecentCache.entries[i].hash = 0
		ulRecentCache.entries[i].m = uniquelabels.Map{}
	}
	ulRecentCache.mu.Unlock()
}

func resetLabelCache(r *core.R) {
	probe := map[string]string{"verif-probe-1": "1", "verif-probe-2": "2"}
	clearLabelCache()
	a := handleMapPtr(uniquelabels.Make(probe))
	b := handleMapPtr(uniquelabels.Make(probe))
	clearLabelCache()
	c := handleMapPtr(uniquelabels.Make(probe))
	clearLabelCache()
	if a == 0 || a != b || c == a {
		r.HarnessError("uniquelabels recent-map cache layout changed: the harness could not reset it (a=%#x b=%#x c=%#x)", a, b, c)
	}
}
