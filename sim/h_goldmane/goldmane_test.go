// Engine goldmane (C32): the real storage.BucketRing / DiachronicFlow driven directly
// (mode "ring") and the real goldmane.Goldmane run loop inside a testing/synctest bubble
// through its nowFunc / rolloverFunc seams (mode "loop"), fed by several simulated Felix
// senders with skewed clocks, with rollovers, sink attach/detach and queries interleaved
// at seed-chosen points, against a reference multiset of accepted flows per bucket.
package h_goldmane

import (
	"fmt"
	"sort"
	"strings"
	"testing"
	"testing/synctest"
	"time"
	"unique"

	"github.com/sirupsen/logrus"

	"github.com/projectcalico/calico/goldmane/pkg/goldmane"
	"github.com/projectcalico/calico/goldmane/pkg/storage"
	"github.com/projectcalico/calico/goldmane/pkg/types"
	"github.com/projectcalico/calico/goldmane/proto"

	"verifsim/core"
)

func TestSim(t *testing.T) {
	core.Main(t, "goldmane", []string{"C32"}, func(r *core.R) { run(t, r) })
}

// ---------------------------------------------------------------- reference model

// cnt: PacketsIn, PacketsOut, BytesIn, BytesOut, ConnStarted, ConnCompleted, ConnLive
type cnt [7]int64

func (a cnt) add(b cnt) cnt {
	for i := range a {
		a[i] += b[i]
	}
	return a
}

type tuple6 [6]int64 // AllowedIn, AllowedOut, DeniedIn, DeniedOut, PassedIn, PassedOut

func (a tuple6) add(b tuple6) tuple6 {
	for i := range a {
		a[i] += b[i]
	}
	return a
}

type keySpec struct {
	id                             int
	srcNS, srcName, dstNS, dstName string
	port                           int64
	action                         proto.Action
	reporter                       proto.Reporter
	pol                            int
	fk                             *types.FlowKey
}

func (k *keySpec) sig() string {
	return fmt.Sprintf("%s/%s>%s/%s:%d a%d r%d p%d", k.srcNS, k.srcName, k.dstNS, k.dstName, k.port, k.action, k.reporter, k.pol)
}

type mflow struct {
	key int
	c   cnt
}

type model struct {
	interval   int64
	begin, end int64 // retained history is [begin, end)
	pushAfter  int
	buckets    map[int64][]mflow // accepted flows by bucket start, retained buckets only
	emitted    map[int64]bool    // bucket start -> already handed to the sink
	rollovers  int
}

func (m *model) bucketOf(t int64) (int64, bool) {
	if t < m.begin || t >= m.end {
		return 0, false
	}
	return m.begin + (t-m.begin)/m.interval*m.interval, true
}

func (m *model) advance() {
	delete(m.buckets, m.begin)
	m.begin += m.interval
	m.end += m.interval
	m.rollovers++
}

// classify splits the retained buckets for the absolute range [gte, lt) (0 = unbounded) into those that lie
// wholly inside it (their flows must be counted) and those it cuts through (bucket granularity makes either
// answer defensible, so the oracle accepts both).
func (m *model) classify(gte, lt int64) (req, opt []int64) {
	for b := m.begin; b < m.end; b += m.interval {
		be := b + m.interval
		full := (gte == 0 || b >= gte) && (lt == 0 || be <= lt)
		overlap := (gte == 0 || be > gte) && (lt == 0 || b < lt)
		if full {
			req = append(req, b)
		} else if overlap {
			opt = append(opt, b)
		}
	}
	return
}

// ---------------------------------------------------------------- system under test adapters

type entry struct {
	key int
	c   cnt
}

type sut interface {
	addFlows(fs []*types.Flow)
	rollover()
	setSink(on bool)
	list(req *proto.FlowListRequest) ([]entry, int, int, error) // entries, total results, total pages
	stats(req *proto.StatisticsRequest) ([]*proto.StatisticsResult, error)
	hints(req *proto.FilterHintsRequest) ([]string, error)
}

type harness struct {
	r       *core.R
	m       *model
	s       sut
	mode    int // 0 = ring, 1 = loop
	n, k, p int
	keys    []*keySpec
	keyBySg map[string]int
	polName []string
	polNS   []string
	sinkOn  bool
	nowNs   int64
	hook    *budgetHook
	inCall  string

	emitsThisCall int
	sinkRolls     int
	// direct mode: how many intervals the ring lags behind the clock (negative: ahead)
	lag int
}

func (h *harness) now() time.Time { return time.Unix(0, h.nowNs) }
func (h *harness) nowSec() int64  { return h.nowNs / 1e9 }

// budgetHook is the bounded-liveness oracle: the code under test logs at least one debug line per loop
// iteration on its emission and rollover paths, so one call may not log more than a generous multiple of
// the ring size.  Deterministic (no wall clock involved).
type budgetHook struct {
	h     *harness
	n     int
	limit int
}

func (b *budgetHook) Levels() []logrus.Level { return logrus.AllLevels }
func (b *budgetHook) Fire(e *logrus.Entry) error {
	b.n++
	if b.limit > 0 && b.n > b.limit {
		b.limit = 0
		b.h.r.Violation("sut_livelock", "%s logged more than %d lines without returning: the call does not terminate (ring n=%d pushAfter=%d bucketsToAggregate=%d, last line %q)", b.h.inCall, b.n-1, b.h.n, b.h.p, b.h.k, e.Message)
	}
	return nil
}

type nullFormatter struct{}

func (nullFormatter) Format(*logrus.Entry) ([]byte, error) { return nil, nil }

func (h *harness) call(what string, f func()) {
	h.inCall = what
	h.hook.n = 0
	h.hook.limit = 400*h.n + 20000
	h.emitsThisCall = 0
	// debug logging (which feeds the work budget) only where the code under test has loops over the ring
	// (every SetSink; the first 30 rollovers with a sink attached and every 5th after that - a walk that does not
	// terminate depends on ring state that persists across consecutive rollovers, and debug logging dominates run cost)
	if what == "SetSink" {
		logrus.SetLevel(logrus.DebugLevel)
	} else if what == "Rollover" && h.sinkOn {
		h.sinkRolls++
		if h.sinkRolls <= 30 || h.sinkRolls%5 == 0 {
			logrus.SetLevel(logrus.DebugLevel)
		}
	}
	f()
	logrus.SetLevel(logrus.ErrorLevel)
	h.hook.limit = 0
	if h.emitsThisCall > 1 {
		h.r.Probe("emit_multi_collections_one_call")
	}
}

type sinkStub struct{ h *harness }

func (s *sinkStub) Receive(c *storage.FlowCollection) { s.h.onEmit(c) }

type nopReceiver struct{}

func (nopReceiver) Receive(storage.FlowProvider, string) {}

func (h *harness) keyOfFlowKey(k *types.FlowKey) (int, bool) {
	pol := ""
	if tr := types.FlowLogPolicyToProto(k.Policies()); tr != nil && len(tr.EnforcedPolicies) > 0 {
		pol = tr.EnforcedPolicies[0].Name
	}
	sg := fmt.Sprintf("%s/%s>%s/%s:%d a%d r%d %s", k.SourceNamespace(), k.SourceName(), k.DestNamespace(), k.DestName(), k.DestPort(), k.Action(), k.Reporter(), pol)
	id, ok := h.keyBySg[sg]
	return id, ok
}

func cntOfFlow(f *types.Flow) cnt {
	return cnt{f.PacketsIn, f.PacketsOut, f.BytesIn, f.BytesOut, f.NumConnectionsStarted, f.NumConnectionsCompleted, f.NumConnectionsLive}
}

// ---- direct BucketRing

type ringSUT struct {
	h    *harness
	ring *storage.BucketRing
	sink *sinkStub
}

func (s *ringSUT) addFlows(fs []*types.Flow) {
	for _, f := range fs {
		s.ring.AddFlow(f)
	}
}
func (s *ringSUT) rollover() {
	if s.h.sinkOn {
		s.ring.Rollover(s.sink)
	} else {
		s.ring.Rollover(nil)
	}
}
func (s *ringSUT) setSink(on bool) {
	if on {
		// what Goldmane's main loop does when a sink is attached
		s.ring.EmitFlowCollections(s.sink)
	}
}
func (s *ringSUT) list(req *proto.FlowListRequest) ([]entry, int, int, error) {
	fl, meta, err := s.ring.List(req)
	if err != nil {
		return nil, 0, 0, err
	}
	out := make([]entry, 0, len(fl))
	for _, f := range fl {
		id, ok := s.h.keyOfFlowKey(f.Key)
		if !ok {
			s.h.r.Violation("list_unknown_key", "List returned a flow whose key was never sent: %v", f.Key.Fields())
		}
		out = append(out, entry{id, cntOfFlow(f)})
	}
	return out, meta.TotalResults, meta.TotalPages, nil
}
func (s *ringSUT) stats(req *proto.StatisticsRequest) ([]*proto.StatisticsResult, error) {
	return s.ring.Statistics(req)
}
func (s *ringSUT) hints(req *proto.FilterHintsRequest) ([]string, error) {
	v, _, err := s.ring.FilterHints(req)
	return v, err
}

// ---- Goldmane main loop in a bubble

type loopSUT struct {
	h       *harness
	gm      *goldmane.Goldmane
	sink    *sinkStub
	pending chan time.Time // the rollover timer Goldmane is currently waiting on
	dueNs   int64
}

func (s *loopSUT) rolloverFunc(d time.Duration) <-chan time.Time {
	ch := make(chan time.Time, 1)
	s.pending = ch
	s.dueNs = s.h.nowNs + int64(d)
	return ch
}
func (s *loopSUT) addFlows(fs []*types.Flow) {
	for _, f := range fs {
		s.gm.Receive(f)
	}
	synctest.Wait()
}
func (s *loopSUT) rollover() {
	ch := s.pending
	s.pending = nil
	ch <- s.h.now()
	synctest.Wait()
	if s.pending == nil {
		s.h.r.HarnessError("Goldmane did not re-arm its rollover timer")
	}
}
func (s *loopSUT) setSink(on bool) {
	if on {
		<-s.gm.SetSink(s.sink)
	} else {
		<-s.gm.SetSink(nil)
	}
	synctest.Wait()
}
func (s *loopSUT) list(req *proto.FlowListRequest) ([]entry, int, int, error) {
	res, err := s.gm.List(req)
	if err != nil {
		return nil, 0, 0, err
	}
	out := make([]entry, 0, len(res.Flows))
	for _, fr := range res.Flows {
		f := types.ProtoToFlow(fr.Flow)
		id, ok := s.h.keyOfFlowKey(f.Key)
		if !ok {
			s.h.r.Violation("list_unknown_key", "List returned a flow whose key was never sent: %v", f.Key.Fields())
		}
		out = append(out, entry{id, cntOfFlow(f)})
	}
	return out, int(res.Meta.TotalResults), int(res.Meta.TotalPages), nil
}
func (s *loopSUT) stats(req *proto.StatisticsRequest) ([]*proto.StatisticsResult, error) {
	return s.gm.Statistics(req)
}
func (s *loopSUT) hints(req *proto.FilterHintsRequest) ([]string, error) {
	res, err := s.gm.Hints(req)
	if err != nil {
		return nil, err
	}
	var out []string
	for _, x := range res.Hints {
		out = append(out, x.Value)
	}
	return out, nil
}

// ---------------------------------------------------------------- sink oracle

func (h *harness) onEmit(c *storage.FlowCollection) {
	r, m := h.r, h.m
	h.emitsThisCall++
	r.Probe("emit_collection")
	r.Logf("  sink <- collection [%d,%d) %d flows (during %s)", c.StartTime, c.EndTime, len(c.Flows), h.inCall)
	r.Check("emit_window_shape", c.StartTime < c.EndTime && (c.StartTime-m.begin)%m.interval == 0 && (c.EndTime-m.begin)%m.interval == 0 && c.StartTime >= m.begin && c.EndTime <= m.end,
		"sink received a collection for [%d,%d) which is not a run of retained buckets (history [%d,%d), interval %d)", c.StartTime, c.EndTime, m.begin, m.end, m.interval)
	// the documented contract of the push delay: "we only push buckets after several rollovers have occurred, to
	// ensure that we have a complete view" - the newest emitted bucket is pushAfter buckets behind the one being filled
	// (the head bucket is the one-interval look-ahead, the bucket before it is being filled).
	newestAllowedEnd := m.end - int64(2+m.pushAfter)*m.interval
	r.Check("emit_not_before_push_delay", c.EndTime <= newestAllowedEnd,
		"during %s the sink received [%d,%d) but with pushAfter=%d nothing newer than %d may be emitted yet (history [%d,%d), interval %d, n=%d bucketsToAggregate=%d)",
		h.inCall, c.StartTime, c.EndTime, m.pushAfter, newestAllowedEnd, m.begin, m.end, m.interval, h.n, h.k)
	want := map[int]cnt{}
	has := map[int]bool{}
	for b := c.StartTime; b < c.EndTime; b += m.interval {
		r.Check("emit_at_most_once", !m.emitted[b], "during %s the sink received [%d,%d) but bucket %d was already emitted earlier (history [%d,%d), interval %d, n=%d pushAfter=%d bucketsToAggregate=%d)",
			h.inCall, c.StartTime, c.EndTime, b, m.begin, m.end, m.interval, h.n, h.p, h.k)
		m.emitted[b] = true
		for _, f := range m.buckets[b] {
			want[f.key] = want[f.key].add(f.c)
			has[f.key] = true
		}
	}
	got := map[int]cnt{}
	for i := range c.Flows {
		f := &c.Flows[i]
		id, ok := h.keyOfFlowKey(f.Key)
		if !ok {
			r.Violation("emit_unknown_key", "sink received a flow whose key was never sent: %v", f.Key.Fields())
		}
		if _, dup := got[id]; dup {
			r.Violation("emit_duplicate_key", "collection [%d,%d) carries key %d (%s) twice", c.StartTime, c.EndTime, id, h.keys[id].sig())
		}
		got[id] = cntOfFlow(f)
	}
	for id := range h.keys {
		g, gok := got[id]
		if has[id] != gok || g != want[id] {
			r.Violation("emit_complete", "collection [%d,%d): key %d (%s) carried %v (present=%v) but the flows accepted into those buckets before emission sum to %v (present=%v)",
				c.StartTime, c.EndTime, id, h.keys[id].sig(), g, gok, want[id], has[id])
		}
	}
	r.Eval()
}

// ---------------------------------------------------------------- query oracles

func subsets(n int) [][]int {
	var out [][]int
	for mask := 0; mask < 1<<n; mask++ {
		var s []int
		for i := 0; i < n; i++ {
			if mask&(1<<i) != 0 {
				s = append(s, i)
			}
		}
		out = append(out, s)
	}
	return out
}

func dedupSorted(xs []int64) []int64 {
	sort.Slice(xs, func(i, j int) bool { return xs[i] < xs[j] })
	var out []int64
	for i, x := range xs {
		if i == 0 || x != xs[i-1] {
			out = append(out, x)
		}
	}
	return out
}

type filterSpec struct {
	desc string
	f    *proto.Filter
	pass func(k *keySpec) bool
}

func (h *harness) drawFilter() filterSpec {
	r := h.r
	switch r.Src.Weighted([]int{5, 2, 2, 1, 1}, "filter_kind") {
	case 1:
		a := []proto.Action{proto.Action_Allow, proto.Action_Deny, proto.Action_Pass}[r.Src.Intn(3, "filter_action")]
		return filterSpec{fmt.Sprintf("action=%v", a), &proto.Filter{Actions: []proto.Action{a}}, func(k *keySpec) bool { return k.action == a }}
	case 2:
		ns := fmt.Sprintf("ns-%d", r.Src.Intn(3, "filter_ns"))
		return filterSpec{"srcns=" + ns, &proto.Filter{SourceNamespaces: []*proto.StringMatch{{Value: ns}}}, func(k *keySpec) bool { return k.srcNS == ns }}
	case 3:
		port := int64(80 + r.Src.Intn(2, "filter_port"))
		return filterSpec{fmt.Sprintf("port=%d", port), &proto.Filter{DestPorts: []*proto.PortMatch{{Port: port}}}, func(k *keySpec) bool { return k.port == port }}
	case 4:
		rep := []proto.Reporter{proto.Reporter_Src, proto.Reporter_Dst}[r.Src.Intn(2, "filter_reporter")]
		return filterSpec{fmt.Sprintf("reporter=%v", rep), &proto.Filter{Reporter: rep}, func(k *keySpec) bool { return k.reporter == rep }}
	}
	return filterSpec{"none", nil, func(*keySpec) bool { return true }}
}

// drawRange picks a query range.  It returns the request values and the absolute range the reference model
// uses (0 = unbounded), plus buckets that are optional for reasons other than being cut by the range.
func (h *harness) drawRange() (reqGte, reqLt, absGte, absLt int64, extraOpt []int64, desc string) {
	r, m := h.r, h.m
	pick := func(label string) int64 {
		nb := int((m.end - m.begin) / m.interval)
		switch r.Src.Weighted([]int{6, 3, 1, 1}, label+"_kind") {
		case 0: // a bucket boundary inside the history
			return m.begin + int64(r.Src.Intn(nb, label+"_bucket"))*m.interval
		case 1: // anywhere inside the history
			r.Probe("unaligned_query")
			return m.begin + int64(r.Src.Intn(int(m.end-m.begin), label+"_sec"))
		case 2: // before the history
			return m.begin - 1 - int64(r.Src.Intn(int(3*m.interval), label+"_before"))
		default: // at or after its end
			return m.end + int64(r.Src.Intn(int(2*m.interval), label+"_after"))
		}
	}
	a, b := int64(0), int64(0)
	if r.Src.Chance(700, "range_gte_set") {
		a = pick("range_gte")
	}
	if r.Src.Chance(700, "range_lt_set") {
		b = pick("range_lt")
	}
	if a != 0 && b != 0 && a >= b {
		a, b = b, a
		if a == b {
			b = a + m.interval
		}
	}
	reqGte, reqLt, absGte, absLt = a, b, a, b
	if h.mode == 1 {
		// public API: 0 => beginning of history / now; negative => relative to now
		now := h.nowSec()
		if a != 0 && a < now && r.Src.Chance(300, "range_relative") {
			reqGte = a - now
		}
		if b != 0 && b < now && r.Src.Chance(300, "range_relative") {
			reqLt = b - now
		}
		if a == 0 {
			absGte = m.begin
		}
		if b == 0 {
			absLt = now
		}
	} else if b == 0 {
		// BucketRing level: List treats 0 as unbounded, Statistics as "until the current time" (documented), i.e.
		// without the look-ahead bucket: that bucket may or may not be counted.
		absLt = m.end - m.interval
		extraOpt = append(extraOpt, m.end-m.interval)
	}
	return reqGte, reqLt, absGte, absLt, extraOpt, fmt.Sprintf("gte=%d lt=%d (abs [%d,%d))", reqGte, reqLt, absGte, absLt)
}

func (h *harness) rangeOutside(absGte, absLt int64) bool {
	m := h.m
	return (absGte != 0 && (absGte < m.begin || absGte >= m.end)) || (absLt != 0 && (absLt < m.begin || absLt >= m.end))
}

func (h *harness) fmtEntries(es []entry) string {
	s := make([]string, len(es))
	for i, e := range es {
		s[i] = fmt.Sprintf("k%d%v", e.key, e.c)
	}
	sort.Strings(s)
	return strings.Join(s, " ")
}

// checkList: there must be ONE choice of the boundary buckets under which every returned flow carries exactly the sum of
// the accepted, still retained flows of its key, every key with flows inside the range is returned, and nothing else is.
func (h *harness) checkList(desc string, es []entry, absGte, absLt int64, extraOpt []int64, fs filterSpec) {
	r, m := h.r, h.m
	req, opt := m.classify(absGte, absLt)
	opt = dedupSorted(append(opt, extraOpt...))
	// a bucket listed in extraOpt may have been classified as required: make it optional only
	var req2 []int64
	for _, b := range req {
		isOpt := false
		for _, o := range opt {
			if o == b {
				isOpt = true
			}
		}
		if !isOpt {
			req2 = append(req2, b)
		}
	}
	req = req2
	seen := map[int]cnt{}
	for _, e := range es {
		if _, dup := seen[e.key]; dup {
			r.Violation("list_duplicate_key", "%s: key %d returned twice: %s", desc, e.key, h.fmtEntries(es))
		}
		if !fs.pass(h.keys[e.key]) {
			r.Violation("list_filter_leak", "%s: key %d (%s) does not match filter %s", desc, e.key, h.keys[e.key].sig(), fs.desc)
		}
		seen[e.key] = e.c
	}
	anyOpt := map[int]bool{}
	for _, b := range opt {
		for _, f := range m.buckets[b] {
			anyOpt[f.key] = true
		}
	}
	var why string
	for _, sub := range subsets(len(opt)) {
		sum := map[int]cnt{}
		has := map[int]bool{}
		bs := append([]int64(nil), req...)
		for _, i := range sub {
			bs = append(bs, opt[i])
		}
		for _, b := range bs {
			for _, f := range m.buckets[b] {
				if fs.pass(h.keys[f.key]) {
					sum[f.key] = sum[f.key].add(f.c)
					has[f.key] = true
				}
			}
		}
		ok := true
		zeroEntries := 0
		for id := range h.keys {
			g, present := seen[id]
			switch {
			case has[id] && !present:
				ok = false
				why = fmt.Sprintf("key %d (%s) has accepted flows summing to %v in the range but is missing", id, h.keys[id].sig(), sum[id])
			case has[id] && g != sum[id]:
				ok = false
				why = fmt.Sprintf("key %d (%s) returned %v, accepted flows in the range sum to %v", id, h.keys[id].sig(), g, sum[id])
			case !has[id] && present:
				// tolerated narrowly: a key whose only flows sit in a bucket the range cuts through is listed with all-zero counters
				if g == (cnt{}) && anyOpt[id] {
					zeroEntries++
				} else {
					ok = false
					why = fmt.Sprintf("key %d (%s) returned %v but no accepted flow of it is in the range", id, h.keys[id].sig(), g)
				}
			}
			if !ok {
				break
			}
		}
		if ok {
			if zeroEntries > 0 {
				r.Probe("list_zero_entry_partial_bucket")
			}
			r.Eval()
			return
		}
	}
	r.Violation("list_equals_accepted_sums", "%s filter=%s: result {%s} matches no reading of the range (required buckets %v, cut buckets %v): e.g. %s; history [%d,%d) interval %d",
		desc, fs.desc, h.fmtEntries(es), req, opt, why, m.begin, m.end, m.interval)
}

func (h *harness) flowTuple(f mflow, typ proto.StatisticType) tuple6 {
	k := h.keys[f.key]
	var in, out int64
	switch typ {
	case proto.StatisticType_PacketCount:
		in, out = f.c[0], f.c[1]
	case proto.StatisticType_ByteCount:
		in, out = f.c[2], f.c[3]
	case proto.StatisticType_LiveConnectionCount:
		// a connection is counted on the side that reported it
		if k.reporter == proto.Reporter_Src {
			out = f.c[6]
		} else {
			in = f.c[6]
		}
	}
	var t tuple6
	switch k.action {
	case proto.Action_Allow:
		t[0], t[1] = in, out
	case proto.Action_Deny:
		t[2], t[3] = in, out
	case proto.Action_Pass:
		t[4], t[5] = in, out
	}
	return t
}

func fmtStats(m map[string]map[int64]tuple6) string {
	var ps []string
	for p := range m {
		ps = append(ps, p)
	}
	sort.Strings(ps)
	var sb strings.Builder
	for _, p := range ps {
		var xs []int64
		for x := range m[p] {
			xs = append(xs, x)
		}
		sort.Slice(xs, func(i, j int) bool { return xs[i] < xs[j] })
		fmt.Fprintf(&sb, "%s{", p)
		for _, x := range xs {
			fmt.Fprintf(&sb, "%d:%v ", x, m[p][x])
		}
		sb.WriteString("} ")
	}
	return sb.String()
}

func eqStats(a, b map[string]map[int64]tuple6) bool {
	if len(a) != len(b) {
		return false
	}
	for p, am := range a {
		bm, ok := b[p]
		if !ok || len(am) != len(bm) {
			return false
		}
		for x, v := range am {
			if w, ok := bm[x]; !ok || w != v {
				return false
			}
		}
	}
	return true
}

func (h *harness) checkStats(desc string, res []*proto.StatisticsResult, typ proto.StatisticType, series bool, polFilter int, absGte, absLt int64, extraOpt []int64) {
	r, m := h.r, h.m
	// decode: policy name -> x -> tuple (x = 0 for the aggregated form)
	got := map[string]map[int64]tuple6{}
	for _, sr := range res {
		name := sr.Policy.GetName()
		if _, dup := got[name]; dup {
			r.Violation("stats_duplicate_policy", "%s: policy %q appears twice", desc, name)
		}
		got[name] = map[int64]tuple6{}
		arrs := [][]int64{sr.AllowedIn, sr.AllowedOut, sr.DeniedIn, sr.DeniedOut, sr.PassedIn, sr.PassedOut}
		npts := len(sr.AllowedIn)
		for _, a := range arrs {
			if len(a) != npts {
				r.Violation("stats_shape", "%s: policy %q has series of different lengths", desc, name)
			}
		}
		if series {
			if len(sr.X) != npts {
				r.Violation("stats_shape", "%s: policy %q has %d x values for %d points", desc, name, len(sr.X), npts)
			}
		} else if npts != 1 {
			r.Violation("stats_shape", "%s: policy %q aggregated form has %d points", desc, name, npts)
		}
		for i := 0; i < npts; i++ {
			x := int64(0)
			if series {
				x = sr.X[i]
			}
			if _, dup := got[name][x]; dup {
				r.Violation("stats_duplicate_point", "%s: policy %q has two points for bucket %d", desc, name, x)
			}
			var t tuple6
			for j, a := range arrs {
				t[j] = a[i]
			}
			got[name][x] = t
		}
	}
	req, opt := m.classify(absGte, absLt)
	opt = dedupSorted(append(opt, extraOpt...))
	var req2 []int64
	for _, b := range req {
		isOpt := false
		for _, o := range opt {
			if o == b {
				isOpt = true
			}
		}
		if !isOpt {
			req2 = append(req2, b)
		}
	}
	req = req2
	var lastWant map[string]map[int64]tuple6
	for _, sub := range subsets(len(opt)) {
		bs := append([]int64(nil), req...)
		for _, i := range sub {
			bs = append(bs, opt[i])
		}
		want := map[string]map[int64]tuple6{}
		for _, b := range bs {
			for _, f := range m.buckets[b] {
				k := h.keys[f.key]
				if polFilter >= 0 && k.pol != polFilter {
					continue
				}
				name := h.polName[k.pol]
				if want[name] == nil {
					want[name] = map[int64]tuple6{}
				}
				x := int64(0)
				if series {
					x = b
				}
				want[name][x] = want[name][x].add(h.flowTuple(f, typ))
			}
		}
		if eqStats(got, want) {
			r.Eval()
			return
		}
		lastWant = want
	}
	r.Violation("stats_equal_accepted_sums", "%s: result %s matches no reading of the range (required buckets %v, cut buckets %v); counting every cut bucket the accepted flows give %s; history [%d,%d) interval %d",
		desc, fmtStats(got), req, opt, fmtStats(lastWant), m.begin, m.end, m.interval)
}

func (h *harness) opList() {
	r := h.r
	reqGte, reqLt, absGte, absLt, extraOpt, rdesc := h.drawRange()
	fs := h.drawFilter()
	sortBy := []proto.SortBy{proto.SortBy_Time, proto.SortBy_DestName, proto.SortBy_SourceNamespace, proto.SortBy_DestNamespace, proto.SortBy_SourceName}[r.Src.Weighted([]int{5, 2, 1, 1, 1}, "list_sort")]
	mk := func() *proto.FlowListRequest {
		q := &proto.FlowListRequest{StartTimeGte: reqGte, StartTimeLt: reqLt, Filter: fs.f}
		if sortBy != proto.SortBy_Time {
			q.SortBy = []*proto.SortOption{{SortBy: sortBy}}
		}
		return q
	}
	desc := fmt.Sprintf("List %s sort=%v", rdesc, sortBy)
	r.Op("%s filter=%s", desc, fs.desc)
	if fs.f != nil {
		r.Probe("list_filtered")
	}
	if sortBy != proto.SortBy_Time {
		r.Probe("list_sorted_index")
	}
	var es []entry
	var total int
	var err error
	h.call(desc, func() { es, total, _, err = h.s.list(mk()) })
	if err != nil {
		r.Logf("  -> error %v", err)
		r.Check("list_spurious_error", h.mode == 1 && absGte != 0 && absLt != 0 && absGte >= absLt, "%s failed on a valid range: %v", desc, err)
		return
	}
	r.Logf("  -> %s", h.fmtEntries(es))
	h.checkList(desc, es, absGte, absLt, extraOpt, fs)
	r.Check("list_total_results", total == len(es), "%s: %d flows returned without paging but meta.TotalResults=%d", desc, len(es), total)
	// the same query page by page must hand out the same flows
	if len(es) > 1 && r.Src.Chance(300, "list_paged") {
		r.Probe("list_paged")
		size := 1 + r.Src.Intn(len(es), "page_size")
		var paged []entry
		for page := 0; page*size < len(es)+size; page++ {
			q := mk()
			q.PageSize, q.Page = int64(size), int64(page)
			var pe []entry
			h.call(desc+" paged", func() { pe, _, _, err = h.s.list(q) })
			if err != nil {
				r.Violation("list_spurious_error", "%s page %d failed: %v", desc, page, err)
			}
			if len(pe) == 0 {
				break
			}
			paged = append(paged, pe...)
		}
		r.Check("list_pages_partition", h.fmtEntries(paged) == h.fmtEntries(es), "%s: pages of size %d concatenate to {%s} but the unpaged result is {%s}", desc, size, h.fmtEntries(paged), h.fmtEntries(es))
	}
}

func (h *harness) opStats() {
	r := h.r
	reqGte, reqLt, absGte, absLt, extraOpt, rdesc := h.drawRange()
	typ := []proto.StatisticType{proto.StatisticType_PacketCount, proto.StatisticType_ByteCount, proto.StatisticType_LiveConnectionCount}[r.Src.Intn(3, "stats_type")]
	series := r.Src.Chance(400, "stats_series")
	polFilter := -1
	q := &proto.StatisticsRequest{StartTimeGte: reqGte, StartTimeLt: reqLt, Type: typ, GroupBy: proto.StatisticsGroupBy_Policy, TimeSeries: series}
	if r.Src.Chance(300, "stats_filter") {
		polFilter = r.Src.Intn(len(h.polName), "stats_filter_pol")
		q.PolicyMatch = &proto.PolicyMatch{Name: &proto.StringMatch{Value: h.polName[polFilter]}}
	}
	if series {
		r.Probe("stats_timeseries")
	}
	desc := fmt.Sprintf("Statistics %s type=%v series=%v pol=%d", rdesc, typ, series, polFilter)
	r.Op("%s", desc)
	if h.mode == 0 && absGte != 0 && reqLt != 0 && absGte >= absLt {
		return // BucketRing.Statistics has no range validation of its own; Goldmane validates before calling it
	}
	var res []*proto.StatisticsResult
	var err error
	h.call(desc, func() { res, err = h.s.stats(q) })
	if err != nil {
		r.Logf("  -> error %v", err)
		r.Probe("stats_range_error")
		// an error is an answer only when a bound lies outside what is retained (or the range is empty)
		r.Check("stats_spurious_error", h.rangeOutside(absGte, absLt) || (absGte != 0 && absLt != 0 && absGte >= absLt), "%s failed although both bounds lie inside the retained history [%d,%d): %v", desc, h.m.begin, h.m.end, err)
		return
	}
	h.checkStats(desc, res, typ, series, polFilter, absGte, absLt, extraOpt)
}

func (h *harness) opHints() {
	r, m := h.r, h.m
	reqGte, reqLt, absGte, absLt, extraOpt, rdesc := h.drawRange()
	byPolicy := r.Src.Chance(400, "hints_policy")
	q := &proto.FilterHintsRequest{StartTimeGte: reqGte, StartTimeLt: reqLt, Type: proto.FilterType_FilterTypeDestNamespace}
	val := func(k *keySpec) string { return k.dstNS }
	if byPolicy {
		q.Type = proto.FilterType_FilterTypePolicyName
		val = func(k *keySpec) string { return h.polName[k.pol] }
	}
	desc := fmt.Sprintf("Hints %s type=%v", rdesc, q.Type)
	r.Op("%s", desc)
	var got []string
	var err error
	h.call(desc, func() { got, err = h.s.hints(q) })
	if err != nil {
		r.Check("hints_spurious_error", h.mode == 1 && absGte != 0 && absLt != 0 && absGte >= absLt, "%s failed on a valid range: %v", desc, err)
		return
	}
	req, opt := m.classify(absGte, absLt)
	opt = append(opt, extraOpt...)
	must, may := map[string]bool{}, map[string]bool{}
	for _, b := range req {
		isOpt := false
		for _, o := range extraOpt {
			if o == b {
				isOpt = true
			}
		}
		for _, f := range m.buckets[b] {
			if !isOpt {
				must[val(h.keys[f.key])] = true
			}
			may[val(h.keys[f.key])] = true
		}
	}
	for _, b := range opt {
		for _, f := range m.buckets[b] {
			may[val(h.keys[f.key])] = true
		}
	}
	gs := map[string]bool{}
	for _, g := range got {
		if gs[g] {
			r.Violation("hints_duplicate", "%s: value %q returned twice", desc, g)
		}
		gs[g] = true
		if !may[g] {
			r.Violation("hints_equal_accepted", "%s: value %q returned but no accepted retained flow in the range has it", desc, g)
		}
	}
	for _, v := range core.SortedKeys(must) {
		if !gs[v] {
			r.Violation("hints_equal_accepted", "%s: value %q missing although an accepted retained flow inside the range has it (got %v)", desc, v, got)
		}
	}
	r.Eval()
}

// ---------------------------------------------------------------- workload

type sender struct {
	id   int
	kind int   // 0 in sync, 1 small skew, 2 late, 3 future, 4 far out of range
	skew int64 // seconds added to the true time
}

func (h *harness) genFlow(s *sender) (*types.Flow, string) {
	r, m := h.r, h.m
	k := h.keys[r.Src.Intn(len(h.keys), "flow_key")]
	// Felix reports the start of its own aggregation interval, as seen by its own clock
	st := h.nowSec() + s.skew - int64(r.Src.Intn(int(m.interval)+1, "flow_age"))
	how := fmt.Sprintf("sender%d", s.id)
	if r.Src.Chance(120, "flow_boundary") {
		// land exactly on an edge of the retained history or of a bucket
		st = []int64{m.begin, m.begin - 1, m.end - 1, m.end, m.end - m.interval, m.end - m.interval - 1, m.begin + m.interval, m.begin + m.interval - 1}[r.Src.Intn(8, "flow_boundary_which")]
		how += " boundary"
		r.Fault("boundary_timestamp")
	}
	c := cnt{int64(1 + r.Src.Intn(9, "pin")), int64(r.Src.Intn(10, "pout")), int64(r.Src.Intn(1000, "bin")), int64(r.Src.Intn(1000, "bout")),
		int64(r.Src.Intn(3, "cs")), int64(r.Src.Intn(3, "cc")), int64(r.Src.Intn(4, "cl"))}
	f := &types.Flow{Key: k.fk, StartTime: st, EndTime: st + m.interval,
		SourceLabels: unique.Make("app=a,tier=x"), DestLabels: unique.Make("app=b"),
		PacketsIn: c[0], PacketsOut: c[1], BytesIn: c[2], BytesOut: c[3],
		NumConnectionsStarted: c[4], NumConnectionsCompleted: c[5], NumConnectionsLive: c[6]}
	// reference: accepted iff its start time lies in the retained history; counted in the bucket that contains it
	b, ok := m.bucketOf(st)
	switch {
	case !ok && st < m.begin:
		r.Probe("flow_rejected_old")
		how += " -> outside history (old)"
	case !ok:
		r.Probe("flow_rejected_future")
		how += " -> outside history (future)"
	default:
		r.Probe("flow_accepted")
		if b == m.end-m.interval {
			r.Probe("flow_into_lookahead_bucket")
		}
		if b == m.begin {
			r.Probe("flow_into_oldest_bucket")
		}
		if m.emitted[b] {
			// documented: "Adding flow to already published bucket" - it is stored and queryable, never re-emitted
			r.Probe("late_flow_into_emitted_bucket")
		}
		for _, of := range m.buckets[b+m.interval] {
			if of.key == k.id {
				r.Probe("flow_before_newer_window_of_same_key")
				break
			}
		}
		m.buckets[b] = append(m.buckets[b], mflow{k.id, c})
		how += fmt.Sprintf(" -> bucket %d", b)
	}
	return f, fmt.Sprintf("flow k%d t=%d %v %s", k.id, st, c, how)
}

func (h *harness) opFlows(senders []*sender) {
	r := h.r
	n := 1
	if r.Src.Chance(250, "flow_batch") {
		n = 2 + r.Src.Intn(5, "flow_batch_n")
	}
	var fs []*types.Flow
	for i := 0; i < n; i++ {
		s := senders[r.Src.Intn(len(senders), "flow_sender")]
		switch s.kind {
		case 2:
			r.Fault("sender_clock_late")
		case 3:
			r.Fault("sender_clock_future")
		case 4:
			r.Fault("sender_clock_out_of_range")
		}
		f, d := h.genFlow(s)
		r.Op("%s", d)
		fs = append(fs, f)
	}
	h.call("AddFlow", func() { h.s.addFlows(fs) })
}

func (h *harness) doRollover(why string) {
	r, m := h.r, h.m
	if len(m.buckets[m.begin]) > 0 {
		r.Probe("bucket_expired_with_flows")
	}
	r.Op("rollover (%s) history -> [%d,%d) now=%d sink=%v", why, m.begin+m.interval, m.end+m.interval, h.nowSec(), h.sinkOn)
	m.advance()
	if m.rollovers == h.n {
		r.Probe("ring_wrapped")
	}
	h.call("Rollover", func() { h.s.rollover() })
}

func (h *harness) toggleSink() {
	r := h.r
	h.sinkOn = !h.sinkOn
	if h.sinkOn {
		back := 0
		for b, fl := range h.m.buckets {
			if len(fl) > 0 && !h.m.emitted[b] {
				back++
			}
		}
		if back > 0 {
			r.Probe("sink_attach_with_backlog")
		}
		r.Op("sink attach")
	} else {
		r.Fault("sink_detach")
		r.Op("sink detach")
	}
	h.call("SetSink", func() { h.s.setSink(h.sinkOn) })
}

func (h *harness) summary() string {
	m := h.m
	var bs []int64
	for b := range m.buckets {
		bs = append(bs, b)
	}
	sort.Slice(bs, func(i, j int) bool { return bs[i] < bs[j] })
	var sb strings.Builder
	for _, b := range bs {
		var tot cnt
		for _, f := range m.buckets[b] {
			tot = tot.add(f.c)
		}
		fmt.Fprintf(&sb, "%d:%d:%v:%v ", b-m.begin, len(m.buckets[b]), tot, m.emitted[b])
	}
	return sb.String()
}

// ---------------------------------------------------------------- run

func run(t *testing.T, r *core.R) {
	r.FaultDecl("sender_clock_late", "sender_clock_future", "sender_clock_out_of_range", "boundary_timestamp", "rollover_late", "rollover_early", "clock_jump", "sink_detach")
	r.ProbeDecl("flow_accepted", "flow_rejected_old", "flow_rejected_future", "flow_into_lookahead_bucket", "flow_into_oldest_bucket", "late_flow_into_emitted_bucket",
		"flow_before_newer_window_of_same_key", "emit_collection", "emit_multi_collections_one_call", "sink_attach_with_backlog", "bucket_expired_with_flows", "ring_wrapped",
		"list_zero_entry_partial_bucket", "list_filtered", "list_sorted_index", "list_paged", "stats_timeseries", "stats_range_error", "unaligned_query", "rollover_catchup", "loop_mode", "ring_mode",
		"emission_lap_aligned_config")
	h := &harness{r: r, keyBySg: map[string]int{}}
	h.hook = &budgetHook{h: h}
	logrus.SetLevel(logrus.ErrorLevel)
	logrus.SetFormatter(nullFormatter{})
	logrus.AddHook(h.hook)

	h.mode = r.Src.Weighted([]int{6, 4}, "mode")
	r.Cfg("mode", []string{"ring", "loop"}[h.mode])
	interval := int64([]int{15, 1, 2, 5, 60}[r.Src.Weighted([]int{4, 3, 2, 2, 1}, "interval")])
	if h.mode == 0 {
		h.n = r.Src.Range(4, 40, "ring_n")
	} else {
		h.n = 242 // goldmane.numBuckets
	}
	// emission geometry: the window of k buckets ending pushAfter buckets behind the one being filled must fit in the ring
	maxP := h.n - 3
	if maxP > 12 {
		maxP = 12
	}
	h.p = r.Src.Range(0, maxP, "push_after")
	maxK := h.n - 2 - h.p
	if maxK > 24 {
		maxK = 24
	}
	h.k = r.Src.Range(1, maxK, "buckets_to_aggregate")
	// Geometries in which (n-1-pushAfter) is a multiple of bucketsToAggregate make the backwards walk of
	// EmitFlowCollections land exactly on the head bucket (the case fixed by /repo 58d2c58); drawn at full weight.
	aligned := func(p, k int) bool { return (h.n-1-p)%k == 0 }
	if aligned(h.p, h.k) {
		r.Probe("emission_lap_aligned_config")
	}
	r.Cfg("lap_aligned", aligned(h.p, h.k))
	r.Cfg("n", h.n)
	r.Cfg("interval", interval)
	r.Cfg("push_after", h.p)
	r.Cfg("buckets_to_aggregate", h.k)

	// flow keys and policies
	nPol := r.Src.Range(1, 3, "policies")
	for i := 0; i < nPol; i++ {
		h.polName = append(h.polName, fmt.Sprintf("pol-%d", i))
		h.polNS = append(h.polNS, fmt.Sprintf("ns-%d", i%2))
	}
	nKeys := r.Src.Range(1, 6, "keys")
	for i := 0; i < nKeys; i++ {
		k := &keySpec{id: i,
			srcNS: fmt.Sprintf("ns-%d", r.Src.Intn(3, "key_srcns")), srcName: fmt.Sprintf("client-%d", r.Src.Intn(2, "key_src")),
			dstNS: fmt.Sprintf("ns-%d", r.Src.Intn(3, "key_dstns")), dstName: fmt.Sprintf("server-%d", i),
			port:     int64(80 + r.Src.Intn(2, "key_port")),
			action:   []proto.Action{proto.Action_Allow, proto.Action_Deny, proto.Action_Pass}[r.Src.Weighted([]int{5, 3, 1}, "key_action")],
			reporter: []proto.Reporter{proto.Reporter_Dst, proto.Reporter_Src}[r.Src.Intn(2, "key_reporter")],
			pol:      r.Src.Intn(nPol, "key_pol")}
		k.fk = types.NewFlowKey(
			&types.FlowKeySource{SourceName: k.srcName, SourceNamespace: k.srcNS, SourceType: proto.EndpointType_WorkloadEndpoint},
			&types.FlowKeyDestination{DestName: k.dstName, DestNamespace: k.dstNS, DestType: proto.EndpointType_WorkloadEndpoint, DestPort: k.port},
			&types.FlowKeyMeta{Proto: "tcp", Reporter: k.reporter, Action: k.action},
			&proto.PolicyTrace{EnforcedPolicies: []*proto.PolicyHit{{Kind: proto.PolicyKind_CalicoNetworkPolicy, Namespace: h.polNS[k.pol], Name: h.polName[k.pol], Tier: "tier-a", Action: k.action, PolicyIndex: 0, RuleIndex: int64(i % 2)}}})
		h.keys = append(h.keys, k)
		h.keyBySg[fmt.Sprintf("%s/%s>%s/%s:%d a%d r%d %s", k.srcNS, k.srcName, k.dstNS, k.dstName, k.port, k.action, k.reporter, h.polName[k.pol])] = i
	}
	if len(h.keyBySg) != len(h.keys) {
		r.HarnessError("flow key signatures collide")
	}

	// senders
	nSend := r.Src.Range(1, 4, "senders")
	var senders []*sender
	for i := 0; i < nSend; i++ {
		s := &sender{id: i, kind: r.Src.Weighted([]int{4, 3, 3, 2, 1}, "sender_kind")}
		switch s.kind {
		case 1:
			s.skew = int64(r.Src.Intn(int(2*interval)+1, "sender_skew")) - interval
		case 2:
			s.skew = -interval * int64(1+r.Src.Intn(h.n, "sender_late"))
		case 3:
			s.skew = interval * int64(1+r.Src.Intn(3, "sender_future"))
		case 4:
			s.skew = interval * int64(h.n+1+r.Src.Intn(50, "sender_far"))
			if r.Src.Chance(500, "sender_far_past") {
				s.skew = -s.skew
			}
		}
		senders = append(senders, s)
	}
	nOps := r.Src.Range(10, 140, "nops")
	r.Cfg("keys", nKeys)
	r.Cfg("senders", nSend)
	r.Cfg("nops", nOps)
	start := int64(1_000_000) + int64(r.Src.Intn(100, "start_buckets"))*interval
	if r.Src.Chance(300, "start_unaligned") {
		start += int64(r.Src.Intn(int(interval), "start_offset"))
	}
	h.nowNs = start * 1e9
	startNs := h.nowNs
	h.m = &model{interval: interval, pushAfter: h.p, buckets: map[int64][]mflow{}, emitted: map[int64]bool{}}

	if h.mode == 0 {
		r.Probe("ring_mode")
		runRing(h, senders, nOps, start)
	} else {
		r.Probe("loop_mode")
		func() {
			defer func() {
				if p := recover(); p != nil {
					if s, ok := p.(string); ok && strings.Contains(s, "deadlock: all goroutines in bubble are blocked") {
						return
					}
					panic(p)
				}
			}()
			synctest.Test(t, func(t *testing.T) { runLoop(h, senders, nOps, start) })
		}()
	}
	r.SimTime(time.Duration(h.nowNs - startNs))
	nEm := len(h.m.emitted)
	r.Fingerprint(fmt.Sprintf("m%d n%d p%d k%d i%d|%s|e%d", h.mode, h.n, h.p, h.k, interval, h.summary(), nEm))
}

func (h *harness) queryOp() {
	switch h.r.Src.Weighted([]int{5, 4, 2}, "query_kind") {
	case 0:
		h.opList()
	case 1:
		h.opStats()
	default:
		h.opHints()
	}
}

// finalChecks: faults off, sink attached, enough rollovers for everything due to be pushed, then whole-history queries.
func (h *harness) quiesce(roll func()) {
	r := h.r
	if !h.sinkOn {
		h.toggleSink()
	}
	for i := 0; i < h.p+h.k+2; i++ {
		roll()
	}
	none := filterSpec{"none", nil, func(*keySpec) bool { return true }}
	var es []entry
	var err error
	if h.mode == 0 {
		h.call("final List", func() { es, _, _, err = h.s.list(&proto.FlowListRequest{}) })
		if err != nil {
			r.Violation("list_spurious_error", "final List failed: %v", err)
		}
		h.checkList("final List (everything)", es, 0, 0, nil, none)
	} else {
		// the whole retained history up to the bucket that is being filled
		lt := h.m.end - 2*h.m.interval
		h.call("final List", func() { es, _, _, err = h.s.list(&proto.FlowListRequest{StartTimeLt: lt}) })
		if err != nil {
			r.Violation("list_spurious_error", "final List failed: %v", err)
		}
		h.checkList("final List (history)", es, h.m.begin, lt, nil, none)
	}
	for _, typ := range []proto.StatisticType{proto.StatisticType_PacketCount, proto.StatisticType_ByteCount, proto.StatisticType_LiveConnectionCount} {
		lt := h.m.end - 2*h.m.interval
		var res []*proto.StatisticsResult
		h.call("final Statistics", func() {
			res, err = h.s.stats(&proto.StatisticsRequest{StartTimeLt: lt, Type: typ, GroupBy: proto.StatisticsGroupBy_Policy, TimeSeries: typ == proto.StatisticType_ByteCount})
		})
		if err != nil {
			r.Violation("stats_spurious_error", "final Statistics over the retained history failed: %v", err)
		}
		h.checkStats("final Statistics", res, typ, typ == proto.StatisticType_ByteCount, -1, h.m.begin, lt, nil)
	}
}

func runRing(h *harness, senders []*sender, nOps int, start int64) {
	r, m := h.r, h.m
	s := &ringSUT{h: h, sink: &sinkStub{h}}
	h.call("NewBucketRing", func() {
		s.ring = storage.NewBucketRing(h.n, int(m.interval), start,
			storage.WithBucketsToAggregate(h.k), storage.WithPushAfter(h.p), storage.WithNowFunc(h.now), storage.WithStreamReceiver(nopReceiver{}))
	})
	h.s = s
	// the retained history is whatever the ring says it is at start; from here on the model moves it one interval per rollover
	m.begin, m.end = s.ring.BeginningOfHistory(), s.ring.EndOfHistory()
	r.Check("initial_history_extent", m.end-m.begin == int64(h.n)*m.interval && start >= m.begin && start < m.end, "new ring of %d buckets of %ds started at %d retains [%d,%d)", h.n, m.interval, start, m.begin, m.end)
	r.Logf("ring n=%d interval=%d pushAfter=%d k=%d start=%d history [%d,%d)", h.n, m.interval, h.p, h.k, start, m.begin, m.end)
	wRoll := r.Src.Range(8, 30, "w_rollover")
	wQuery := r.Src.Range(4, 20, "w_query")
	wSink := r.Src.Range(1, 6, "w_sink")
	for i := 0; i < nOps; i++ {
		switch r.Src.Weighted([]int{40, wRoll, wQuery, wSink, 3, 3, 2}, "sched_op") {
		case 0:
			h.opFlows(senders)
		case 1:
			if h.lag > 0 {
				h.lag--
				r.Probe("rollover_catchup")
				h.doRollover("catch-up")
			} else {
				h.nowNs += m.interval * 1e9
				h.doRollover("on time")
			}
		case 2:
			h.queryOp()
		case 3:
			h.toggleSink()
		case 4: // the rollover timer fires late: time passes, the ring does not move
			if h.lag < 3 {
				h.lag++
				h.nowNs += m.interval * 1e9
				r.Fault("rollover_late")
				r.Op("time passes without rollover (lag %d)", h.lag)
			}
		case 5: // and early
			if h.lag > -1 {
				h.lag--
				r.Fault("rollover_early")
				h.doRollover("early")
			}
		case 6: // the process was stalled for a long time and now catches up, one rollover after the other
			j := 2 + r.Src.Intn(6, "jump")
			if r.Src.Chance(250, "jump_whole_ring") {
				j = h.n - 2 + r.Src.Intn(6, "jump_big")
			}
			r.Fault("clock_jump")
			r.Op("clock jumps %d intervals", j)
			h.nowNs += int64(j) * m.interval * 1e9
			for x := 0; x < j; x++ {
				r.Probe("rollover_catchup")
				h.doRollover("catch-up after jump")
			}
		}
	}
	for h.lag > 0 {
		h.lag--
		h.doRollover("catch-up")
	}
	h.quiesce(func() {
		h.nowNs += m.interval * 1e9
		h.doRollover("quiesce")
	})
}

func runLoop(h *harness, senders []*sender, nOps int, start int64) {
	r, m := h.r, h.m
	s := &loopSUT{h: h, sink: &sinkStub{h}}
	h.s = s
	s.gm = goldmane.NewGoldmane(
		goldmane.WithRolloverTime(time.Duration(m.interval)*time.Second),
		goldmane.WithRolloverFunc(s.rolloverFunc),
		goldmane.WithBucketsToCombine(h.k),
		goldmane.WithPushIndex(h.p),
		goldmane.WithNowFunc(h.now),
	)
	h.call("Run", func() {
		<-s.gm.Run(start)
		synctest.Wait()
	})
	if s.pending == nil {
		r.HarnessError("Goldmane did not arm its rollover timer")
	}
	// documented layout (goldmane.go numBuckets): one bucket covering [now, now+interval) being filled, one more interval
	// into the future for clock skew, the rest history
	m.end = start + 2*m.interval
	m.begin = m.end - int64(h.n)*m.interval
	r.Logf("loop n=%d interval=%d pushIndex=%d combine=%d start=%d history [%d,%d)", h.n, m.interval, h.p, h.k, start, m.begin, m.end)
	wRoll := r.Src.Range(8, 30, "w_rollover")
	wQuery := r.Src.Range(4, 20, "w_query")
	wSink := r.Src.Range(1, 6, "w_sink")
	// fire runs the rollover Goldmane is waiting for, if its timer has expired
	fire := func(why string) bool {
		if h.nowNs < s.dueNs {
			return false
		}
		if h.nowNs-s.dueNs >= m.interval*1e9 {
			r.Probe("rollover_catchup")
		}
		h.doRollover(why)
		return true
	}
	for i := 0; i < nOps; i++ {
		switch r.Src.Weighted([]int{40, wRoll, wQuery, wSink, 3, 2}, "sched_op") {
		case 0:
			h.opFlows(senders)
		case 1: // time moves on to the moment the timer expires (possibly a little later) and the rollover runs
			if h.nowNs < s.dueNs {
				h.nowNs = s.dueNs + int64(r.Src.Intn(3, "timer_slack_ms"))*1e6
			}
			fire("timer")
		case 2:
			h.queryOp()
		case 3:
			h.toggleSink()
		case 4: // the timer expires but the loop gets to it late: other work is done in between at the later time
			late := 1 + r.Src.Intn(int(2*m.interval), "late_s")
			if h.nowNs < s.dueNs {
				h.nowNs = s.dueNs
			}
			h.nowNs += int64(late) * 1e9
			r.Fault("rollover_late")
			r.Op("time passes, rollover overdue by %ds", late)
		case 5: // the process was stalled (or the clock stepped) for many intervals; Goldmane catches up rollover by rollover
			j := 2 + r.Src.Intn(12, "jump")
			if r.Src.Chance(150, "jump_whole_ring") {
				j = 200 + r.Src.Intn(62, "jump_big")
			}
			r.Fault("clock_jump")
			r.Op("clock jumps %d intervals", j)
			h.nowNs += int64(j) * m.interval * 1e9
			for x := 0; x < j+2 && h.nowNs >= s.dueNs; x++ {
				if !fire("catch-up after jump") {
					break
				}
				h.nowNs += 10e6
			}
		}
	}
	// quiesce: let the loop catch up with the clock, then regular rollovers
	for x := 0; x < 400 && h.nowNs >= s.dueNs+m.interval*1e9; x++ {
		fire("catch-up")
		h.nowNs += 10e6
	}
	h.quiesce(func() {
		if h.nowNs < s.dueNs {
			h.nowNs = s.dueNs
		}
		fire("quiesce")
	})
	s.gm.Stop()
	synctest.Wait()
}
