// Command shim: the `ipset` child processes Felix starts, executed synchronously
// against the kernel model with simulator-chosen faults.
package h_ipset

import (
	"errors"
	"fmt"
	"io"
	"strings"
	"time"

	"github.com/projectcalico/calico/felix/ipsets"
)

type exitError struct{ code int }

func (e *exitError) Error() string { return fmt.Sprintf("exit status %d", e.code) }

var (
	errPipe  = errors.New("simulated failure to create pipe")
	errStart = errors.New("fork/exec /usr/sbin/ipset: resource temporarily unavailable")
	errEPIPE = errors.New("write |1: broken pipe")
	errRead  = errors.New("read |0: input/output error")
)

// crashSentinel is panicked out of the shim to model the Felix process dying
// at that exact point; the harness recovers it and starts a new IPSets object.
type crashT struct{}

var crashSentinel = &crashT{}

type baseCmd struct {
	stdout io.Writer
	stderr io.Writer
}

func (c *baseCmd) SetStdin(io.Reader)   {}
func (c *baseCmd) SetStdout(w io.Writer) { c.stdout = w }
func (c *baseCmd) SetStderr(w io.Writer) { c.stderr = w }
func (c *baseCmd) errOut(format string, a ...interface{}) {
	if c.stderr != nil {
		fmt.Fprintf(c.stderr, "ipset v7.11: "+format+"\n", a...)
	}
}

// ---------------------------------------------------------------- restore

const (
	rfNone = iota
	rfPipe
	rfStart
	rfFailLine // process exits with an error when it reaches line failAt (not applied)
	rfPost     // every line applied, then a non-zero exit status
	rfCrash    // Felix itself dies when it has written line failAt
)

type restoreCmd struct {
	baseCmd
	w        *world
	fault    int
	failAt   int // 0-based line index
	epipe    int // <0: writes keep succeeding after the exit; else the j-th write after the exit fails
	lineNo   int
	exited   bool
	exitErr  error
	started  bool
	buf      []byte
	afterExt int
}

func (c *restoreCmd) StdinPipe() (ipsets.WriteCloserFlusher, error) {
	if c.fault == rfPipe {
		c.w.fired("restore_pipe_error")
		return nil, errPipe
	}
	return c, nil
}
func (c *restoreCmd) StdoutPipe() (io.ReadCloser, error) {
	c.w.r.HarnessError("restore: unexpected StdoutPipe")
	return nil, nil
}
func (c *restoreCmd) Start() error {
	if c.fault == rfStart {
		c.w.fired("restore_start_error")
		return errStart
	}
	c.started = true
	return nil
}

func (c *restoreCmd) Write(p []byte) (int, error) {
	if !c.started {
		c.w.r.HarnessError("restore: write before start")
	}
	c.buf = append(c.buf, p...)
	for {
		i := strings.IndexByte(string(c.buf), '\n')
		if i < 0 {
			break
		}
		line := string(c.buf[:i])
		c.buf = c.buf[i+1:]
		if err := c.line(line); err != nil {
			return 0, err
		}
	}
	return len(p), nil
}

func (c *restoreCmd) line(line string) error {
	idx := c.lineNo
	c.lineNo++
	if c.exited {
		// The child is gone; what Felix writes now goes nowhere.
		if c.epipe >= 0 {
			if c.afterExt >= c.epipe {
				c.w.r.Probe("write_error_surfaced")
				c.w.r.Logf("    restore write fails: broken pipe (line %d %q)", idx, line)
				return errEPIPE
			}
			c.afterExt++
		}
		c.w.r.Logf("    restore line %d dropped (child exited): %s", idx, line)
		return nil
	}
	if c.fault == rfCrash && idx == c.failAt {
		c.w.fired("crash_mid_restore")
		c.w.r.Logf("    CRASH of the Felix process while writing restore line %d", idx)
		panic(crashSentinel)
	}
	if c.fault == rfFailLine && idx == c.failAt {
		c.w.fired("restore_fail_at_line")
		c.w.restoreFaulted()
		c.w.r.Logf("    restore line %d FAILS (injected), prefix stays applied: %s", idx, line)
		c.errOut("Error in line %d: Kernel error received: Resource temporarily unavailable", idx+1)
		c.exited, c.exitErr = true, &exitError{1}
		if c.epipe == 0 {
			c.afterExt = 0
			c.w.r.Probe("write_error_surfaced")
			return errEPIPE
		}
		return nil
	}
	if err := c.w.felixLine("restore", line); err != nil {
		c.errOut("Error in line %d: %v", idx+1, err)
		c.exited, c.exitErr = true, &exitError{1}
		c.w.restoreFaulted()
	}
	return nil
}

func (c *restoreCmd) Flush() error { return nil }
func (c *restoreCmd) Close() error { return nil }
func (c *restoreCmd) Wait() error {
	if !c.started {
		c.w.r.HarnessError("restore: wait before start")
	}
	if len(c.buf) > 0 {
		c.w.r.HarnessError("restore: unterminated line %q", string(c.buf))
	}
	if !c.exited && c.fault == rfPost {
		c.w.fired("restore_fail_after_commit")
		c.w.restoreFaulted()
		c.w.r.Logf("    restore exits non-zero after applying everything")
		c.errOut("Kernel error received: Resource temporarily unavailable")
		return &exitError{1}
	}
	return c.exitErr
}
func (c *restoreCmd) Output() ([]byte, error) {
	c.w.r.HarnessError("restore: unexpected Output")
	return nil, nil
}
func (c *restoreCmd) CombinedOutput() ([]byte, error) {
	c.w.r.HarnessError("restore: unexpected CombinedOutput")
	return nil, nil
}

// ---------------------------------------------------------------- list

const (
	lfNone = iota
	lfPipe
	lfStart
	lfRC      // no output, non-zero exit
	lfTornErr // output cut at a byte offset, non-zero exit
	lfReadErr // read error after a byte offset
	lfTornOK  // output cut at a line boundary, zero exit
)

type listCmd struct {
	baseCmd
	w       *world
	arg     string
	fault   int
	cut     int // permille of the output kept
	data    []byte
	pos     int
	readErr error
	exitErr error
	started bool
}

func (c *listCmd) StdinPipe() (ipsets.WriteCloserFlusher, error) {
	c.w.r.HarnessError("list: unexpected StdinPipe")
	return nil, nil
}
func (c *listCmd) StdoutPipe() (io.ReadCloser, error) {
	if c.fault == lfPipe {
		c.w.fired("list_pipe_error")
		return nil, errPipe
	}
	return c, nil
}
func (c *listCmd) Start() error {
	if c.fault == lfStart {
		c.w.fired("list_start_error")
		return errStart
	}
	c.started = true
	var out string
	if c.arg == "-name" {
		out = c.w.k.listNames()
	} else {
		var err error
		out, err = c.w.k.list(c.arg, c.w.headerExtra)
		if err != nil {
			c.w.r.Probe("list_set_not_found")
			c.w.r.Logf("    list %s: %v", c.arg, err)
			c.errOut("%v", err)
			c.exitErr = &exitError{1}
			return nil
		}
	}
	switch c.fault {
	case lfRC:
		c.w.fired("list_fail_rc")
		c.errOut("Kernel error received: Resource busy")
		c.exitErr = &exitError{1}
		out = ""
	case lfTornErr:
		c.w.fired("list_torn_then_error")
		out = out[:len(out)*c.cut/1000]
		c.errOut("Kernel error received: Interrupted system call")
		c.exitErr = &exitError{1}
	case lfReadErr:
		c.w.fired("list_read_error")
		out = out[:len(out)*c.cut/1000]
		c.readErr = errRead
	case lfTornOK:
		lines := strings.SplitAfter(out, "\n")
		keep := len(lines) * c.cut / 1000
		if keep < len(lines)-1 {
			c.w.fired("list_torn_silently")
			c.w.listLied(c.arg)
			out = strings.Join(lines[:keep], "")
		}
	}
	if c.fault != lfNone {
		c.w.r.Logf("    list %s faulted (kind %d), %d bytes delivered", c.arg, c.fault, len(out))
	}
	if len(out) > 0 && !strings.HasSuffix(out, "\n") {
		// The output ends in the middle of a line.
		c.w.r.Probe("list_output_cut_mid_line")
		// Only a command that also reports failure excuses a parser panic.
		c.w.midLineList = c.exitErr != nil || c.readErr != nil
	}
	c.data = []byte(out)
	return nil
}
func (c *listCmd) Read(p []byte) (int, error) {
	if c.pos >= len(c.data) {
		if c.readErr != nil {
			return 0, c.readErr
		}
		return 0, io.EOF
	}
	n := copy(p, c.data[c.pos:])
	c.pos += n
	return n, nil
}
func (c *listCmd) Close() error { return nil }
func (c *listCmd) Wait() error {
	if !c.started {
		c.w.r.HarnessError("list: wait before start")
	}
	c.w.midLineList = false
	return c.exitErr
}
func (c *listCmd) Output() ([]byte, error) {
	c.w.r.HarnessError("list: unexpected Output")
	return nil, nil
}
func (c *listCmd) CombinedOutput() ([]byte, error) {
	c.w.r.HarnessError("list: unexpected CombinedOutput")
	return nil, nil
}

// ---------------------------------------------------------------- destroy

type destroyCmd struct {
	baseCmd
	w     *world
	name  string
	fault bool
}

func (c *destroyCmd) StdinPipe() (ipsets.WriteCloserFlusher, error) {
	c.w.r.HarnessError("destroy: unexpected StdinPipe")
	return nil, nil
}
func (c *destroyCmd) StdoutPipe() (io.ReadCloser, error) {
	c.w.r.HarnessError("destroy: unexpected StdoutPipe")
	return nil, nil
}
func (c *destroyCmd) Start() error { c.w.r.HarnessError("destroy: unexpected Start"); return nil }
func (c *destroyCmd) Wait() error  { c.w.r.HarnessError("destroy: unexpected Wait"); return nil }
func (c *destroyCmd) Output() ([]byte, error) {
	c.w.r.HarnessError("destroy: unexpected Output")
	return nil, nil
}
func (c *destroyCmd) CombinedOutput() ([]byte, error) {
	if c.fault {
		c.w.fired("destroy_transient_failure")
		c.w.destroyFailed()
		c.w.r.Logf("    destroy %s FAILS (injected, no effect)", c.name)
		return []byte("ipset v7.11: Set cannot be destroyed: it is in use by a kernel component\n"), &exitError{1}
	}
	if err := c.w.felixLine("destroy", "destroy "+c.name); err != nil {
		c.w.destroyFailed()
		return []byte("ipset v7.11: " + err.Error() + "\n"), &exitError{1}
	}
	return nil, nil
}

// ---------------------------------------------------------------- factory

func (w *world) newCmd(name string, args ...string) ipsets.CmdIface {
	r := w.r
	if !w.inSUT {
		r.HarnessError("command started outside a SUT call: %s %v", name, args)
	}
	if name != "ipset" || len(args) == 0 {
		r.HarnessError("unexpected command %s %v", name, args)
	}
	w.cmds++
	if w.cmds > w.cmdBudget {
		r.Violation("apply_livelock", "one %s call started more than %d ipset commands", w.callName, w.cmdBudget)
	}
	// Something else on the host may edit IP sets between any two of our commands.
	if w.faultsOn && w.callBudget > 0 && r.Src.Chance(w.pOOBMid, "oob_mid_call") {
		w.callBudget--
		r.Probe("oob_edit_mid_call")
		w.oob()
	}
	faultHere := func(p int, label string) bool {
		if !w.faultsOn || w.callBudget <= 0 {
			return false
		}
		if r.Src.Chance(p, label) {
			w.callBudget--
			return true
		}
		return false
	}
	switch args[0] {
	case "restore":
		if len(args) != 1 {
			r.HarnessError("unexpected restore args %v", args)
		}
		w.advance(2 * time.Millisecond)
		c := &restoreCmd{w: w, epipe: -1}
		r.Logf("  cmd: ipset restore")
		if w.outage&1 != 0 {
			c.fault, c.failAt = rfFailLine, r.Src.Intn(6, "outage_fail_line")
		} else if faultHere(w.pRestore, "fault_restore") {
			c.fault = 1 + r.Src.Weighted([]int{1, 1, 8, 2, 2}, "restore_fault_kind")
			if c.fault == rfFailLine || c.fault == rfCrash {
				c.failAt = r.Src.Intn(10, "restore_fail_line")
			}
			if c.fault == rfFailLine && r.Src.Chance(400, "restore_epipe") {
				c.epipe = r.Src.Intn(3, "restore_epipe_after")
			}
		}
		return c
	case "list":
		if len(args) != 2 {
			r.HarnessError("unexpected list args %v", args)
		}
		w.advance(w.listCost)
		c := &listCmd{w: w, arg: args[1]}
		r.Logf("  cmd: ipset list %s", args[1])
		if w.outage&2 != 0 {
			c.fault = lfRC
		} else if faultHere(w.pList, "fault_list") {
			c.fault = 1 + r.Src.Weighted([]int{1, 1, 4, 4, 3, 3}, "list_fault_kind")
			c.cut = r.Src.Intn(1000, "list_cut")
		}
		return c
	case "destroy":
		if len(args) != 2 {
			r.HarnessError("unexpected destroy args %v", args)
		}
		w.advance(40 * time.Millisecond)
		c := &destroyCmd{w: w, name: args[1]}
		r.Logf("  cmd: ipset destroy %s", args[1])
		if w.faultsOn && r.Src.Chance(w.pDestroy, "fault_destroy") {
			c.fault = true
		}
		return c
	}
	r.HarnessError("unexpected ipset sub-command %v", args)
	return nil
}
