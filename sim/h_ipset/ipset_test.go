// Engine ipset (C16): the real felix/ipsets.IPSets, built with
// NewIPSetsWithShims, driven over a simulated kernel (kernel_test.go) through a
// fault-injecting command shim (cmd_test.go).
//
// Oracles are restatements of property C16, not of the implementation:
//   - per kernel line that Felix gets applied: foreign sets unchanged; a main set
//     whose id is desired is not destroyed; a referenced set's parameters change
//     only by a `swap`; a referenced desired set's members stay between
//     (start ∩ desired) and (start ∪ desired), adjusted by out-of-band edits;
//   - after ApplyUpdates returns while Felix's knowledge of the kernel is not
//     excused by an out-of-band edit: every desired set exists, exact;
//   - after Felix stops asking to be rescheduled with no excuse outstanding:
//     no other Felix-owned set remains;
//   - quiesce: faults off, at most 3 resync rounds to reach the exact state.
package h_ipset

import (
	"fmt"
	"sort"
	"strings"
	"testing"
	"time"

	"github.com/sirupsen/logrus"

	"github.com/projectcalico/calico/felix/ipsets"
	"github.com/projectcalico/calico/libcalico-go/lib/set"

	"verifsim/core"
)

func TestSim(t *testing.T) {
	core.Main(t, "ipset", []string{"C16"}, run)
}

type nopRecorder struct{}

func (nopRecorder) RecordOperation(string) {}

// dset is what the caller (the harness, playing Felix's managers) wants for one set id.
type dset struct {
	id      string
	name    string
	typ     ipsets.IPSetType
	maxSize int
	rmin    int
	rmax    int
	members map[string]string // kernel-canonical member -> text handed to Felix
}

func (d *dset) canon() map[string]bool {
	out := map[string]bool{}
	for m := range d.members {
		out[m] = true
	}
	return out
}

type bounds struct {
	lo map[string]bool
	hi map[string]bool
}

type world struct {
	r *core.R
	k *kernel
	f *ipsets.IPSets

	vc     *ipsets.IPVersionConfig
	family string // inet / inet6
	ver    string // "4" / "6"
	now    time.Time

	// swarm
	universe    int
	ids         []string
	listCost    time.Duration
	headerExtra bool
	pRestore    int
	pList       int
	pDestroy    int
	pOOBMid     int
	pOOB        int
	pStaleRef   int
	pRestart    int
	typeChange  bool

	// per SUT call
	faultsOn   bool
	inSUT      bool
	callName   string
	callBudget int
	outage     int
	cmds       int
	cmdBudget  int
	tracked    map[string]*bounds
	callFaults int
	// midLineList is set while Felix parses the output of a FAILED `ipset list`
	// (non-zero exit or read error) that was cut in the middle of a line.  Felix
	// panics on some such inputs; C16 is about kernel state, and a panic
	// followed by a restart and a start-of-day resync keeps the kernel safe, so
	// the panic is modelled as a process crash (like the documented give-up
	// panic) and counted with a probe.  A mid-line cut delivered with a clean
	// exit would be ordinary odd input and is not excused.
	midLineList bool

	// caller intent
	all    map[string]*dset
	filter map[string]bool // nil = no filter

	// excuses: reasons why Felix cannot be expected to know the kernel exactly
	untrusted   bool // member-level or set-level out-of-band change / a listing that lied
	stray       bool // a Felix-named set may exist that Felix was never shown
	delFailed   bool // a destroy failed since the last complete resync
	pendingFull bool // a new IPSets object has not completed its first ApplyUpdates yet
	rsActive    bool // a QueueResync round is in progress
	rsClean     bool
}

func (w *world) advance(d time.Duration) {
	w.now = w.now.Add(d)
	w.r.AddSimTime(d)
}

func (w *world) fired(kind string) {
	w.r.Fault(kind)
	w.callFaults++
	w.rsClean = false
}

func (w *world) restoreFaulted() { w.stray = true; w.rsClean = false }
func (w *world) destroyFailed()  { w.delFailed = true; w.rsClean = false }
func (w *world) listLied(arg string) {
	w.untrusted = true
	w.rsClean = false
	if arg == "-name" {
		w.stray = true
	}
}

// owned restates "Felix-owned": Felix's current or historic prefix followed by
// this IP version's digit, plus (IPv4 only) the two legacy names.
func (w *world) owned(name string) bool {
	if strings.HasPrefix(name, "cali"+w.ver) || strings.HasPrefix(name, "felix-"+w.ver) {
		return true
	}
	if w.ver == "4" && (strings.HasPrefix(name, "felix-masq-ipam-pools") || strings.HasPrefix(name, "felix-all-ipam-pools")) {
		return true
	}
	return false
}

func (w *world) foreign(name string) bool { return !w.owned(name) }

func (w *world) effective() map[string]*dset {
	out := map[string]*dset{}
	for _, d := range w.all {
		if w.filter == nil || w.filter[d.name] {
			out[d.name] = d
		}
	}
	return out
}

func sortedSet(m map[string]bool) []string {
	out := make([]string, 0, len(m))
	for k := range m {
		out = append(out, k)
	}
	sort.Strings(out)
	return out
}

// ---------------------------------------------------------------- members

var allTypes = []ipsets.IPSetType{
	ipsets.IPSetTypeHashIP, ipsets.IPSetTypeHashNet, ipsets.IPSetTypeHashIPPort,
	ipsets.IPSetTypeHashNetNet, ipsets.IPSetTypeBitmapPort,
}

// memberText returns the i-th member of the universe of a type, in one of the
// spellings a caller may use.
func (w *world) memberText(typ string, i, variant int, family string) string {
	v4 := family == "inet"
	switch typ {
	case "hash:ip":
		if v4 {
			return fmt.Sprintf("10.0.0.%d", i+1)
		}
		return fmt.Sprintf("fd00::%x", i+1)
	case "hash:net":
		if i%2 == 0 {
			host := 0
			if variant == 1 {
				host = 7
			}
			if v4 {
				return fmt.Sprintf("10.0.%d.%d/24", i, host)
			}
			return fmt.Sprintf("fd00:0:0:%x::%x/64", i, host)
		}
		sfx := ""
		if variant == 1 {
			if v4 {
				sfx = "/32"
			} else {
				sfx = "/128"
			}
		}
		if v4 {
			return fmt.Sprintf("10.1.0.%d%s", i, sfx)
		}
		return fmt.Sprintf("fd00:1::%x%s", i, sfx)
	case "hash:ip,port":
		proto := []string{"tcp", "udp", "sctp"}[i%3]
		if variant == 1 {
			proto = strings.ToUpper(proto)
		}
		if v4 {
			return fmt.Sprintf("10.0.0.%d,%s:%d", i+1, proto, 8000+i)
		}
		return fmt.Sprintf("fd00::%x,%s:%d", i+1, proto, 8000+i)
	case "hash:net,net":
		if i%2 == 0 {
			if v4 {
				return fmt.Sprintf("10.0.%d.0/24,10.9.0.0/16", i)
			}
			return fmt.Sprintf("fd00:0:0:%x::/64,fd00:9::/32", i)
		}
		if v4 {
			return fmt.Sprintf("10.1.0.%d/32,10.9.0.%d/32", i, i)
		}
		return fmt.Sprintf("fd00:1::%x/128,fd00:9::%x/128", i, i)
	case "bitmap:port":
		if v4 {
			if variant == 1 {
				return fmt.Sprintf("v4,%d", 1000+i)
			}
			return fmt.Sprintf("%d", 1000+i)
		}
		return fmt.Sprintf("v6,%d", 1000+i)
	case "list:set":
		return fmt.Sprintf("otherset%d", i)
	}
	w.r.HarnessError("memberText: unknown type %s", typ)
	return ""
}

// canonFor gives the kernel's spelling of a caller-spelt member.
func (w *world) canonFor(typ string, text string, family string) string {
	if typ == "bitmap:port" {
		text = strings.TrimPrefix(strings.TrimPrefix(text, "v4,"), "v6,")
	}
	probe := &kset{typ: typ, family: family, rmin: 0, rmax: 65535}
	c, err := canonMember(probe, text)
	if err != nil {
		w.r.HarnessError("canonFor(%s,%s): %v", typ, text, err)
	}
	return c
}

func otherFamily(f string) string {
	if f == "inet" {
		return "inet6"
	}
	return "inet"
}

// drawMembers draws a member list for Felix: canonical->text of this family,
// plus now and then a member of the other IP version, which Felix must ignore.
func (w *world) drawMembers(typ ipsets.IPSetType, label string) (map[string]string, []string) {
	r := w.r
	out := map[string]string{}
	var texts []string
	n := r.Src.Intn(w.universe+1, label+"_n")
	for j := 0; j < n; j++ {
		i := r.Src.Intn(w.universe, label+"_idx")
		t := w.memberText(string(typ), i, r.Src.Intn(2, label+"_spelling"), w.family)
		c := w.canonFor(string(typ), t, w.family)
		if _, dup := out[c]; !dup {
			out[c] = t
		}
		texts = append(texts, t)
	}
	if r.Src.Chance(100, label+"_other_family") {
		texts = append(texts, w.memberText(string(typ), 0, 0, otherFamily(w.family)))
	}
	return out, texts
}

// ---------------------------------------------------------------- per-line oracles

func isCmd(fields []string, name string) bool { return len(fields) > 0 && fields[0] == name }

// felixLine applies one line issued by Felix and evaluates the per-line oracles.
func (w *world) felixLine(via, line string) error {
	r := w.r
	k := w.k
	fields := strings.Fields(line)
	before := k.snapshot(w.foreign)
	type refState struct {
		params string
		uid    int
	}
	refBefore := map[string]refState{}
	for _, n := range sortedSet(k.refs) {
		if s, ok := k.sets[n]; ok {
			refBefore[n] = refState{s.params(), s.uid}
		}
	}
	eff := w.effective()
	err := k.exec(line)
	if err != nil {
		r.Logf("    %s line REJECTED: %s  (%v)", via, line, err)
		if isCmd(fields, "destroy") && strings.Contains(err.Error(), "in use") {
			r.Fault("destroy_in_use")
			w.rsClean = false
		}
		return err
	}
	r.Logf("    %s line applied: %s", via, line)
	if len(fields) == 0 || fields[0] == "COMMIT" {
		return nil
	}
	r.Eval()
	if after := k.snapshot(w.foreign); after != before {
		r.Violation("foreign_set_touched", "line %q changed sets Felix does not own:\nbefore:\n%safter:\n%s", line, before, after)
	}
	if isCmd(fields, "destroy") && len(fields) > 1 {
		if d, ok := eff[fields[1]]; ok {
			r.Violation("desired_set_destroyed", "line %q destroyed the main set of desired id %s", line, d.id)
		}
		if w.vc.IsTempIPSetName(fields[1]) {
			r.Probe("temp_set_destroyed")
		}
	}
	for _, n := range core.SortedKeys(refBefore) {
		s, ok := k.sets[n]
		if !ok {
			r.Violation("referenced_set_vanished", "line %q removed set %s which a rule references", line, n)
		}
		if s.params() != refBefore[n].params {
			if !(isCmd(fields, "swap") && len(fields) == 3 && (fields[1] == n || fields[2] == n)) {
				r.Violation("referenced_params_changed_without_swap", "line %q changed parameters of referenced set %s from %s to %s", line, n, refBefore[n].params, s.params())
			}
			r.Probe("referenced_params_changed_by_swap")
		}
	}
	if isCmd(fields, "swap") {
		r.Probe("temp_swap_used")
	}
	for _, n := range core.SortedKeys(w.tracked) {
		b := w.tracked[n]
		s, ok := k.sets[n]
		if !ok {
			continue // reported above
		}
		for _, m := range sortedSet(b.lo) {
			if !s.members[m] {
				r.Violation("referenced_contents_exposed", "after line %q referenced set %s lacks %s, a member both of its contents at the start of the call and of its desired contents (now {%s})",
					line, n, m, strings.Join(s.sortedMembers(), " "))
			}
		}
		for _, m := range s.sortedMembers() {
			if !b.hi[m] {
				r.Violation("referenced_contents_exposed", "after line %q referenced set %s holds %s, which is neither in its contents at the start of the call nor desired nor added out of band", line, n, m)
			}
		}
		if len(fields) > 1 && fields[1] == n && (fields[0] == "add" || fields[0] == "del") {
			r.Probe("incremental_update_of_referenced_set")
		}
	}
	return nil
}

// beginCall prepares the per-call bookkeeping.
func (w *world) beginCall(name string) {
	w.callName = name
	w.cmds = 0
	w.cmdBudget = 400 + 40*(len(w.k.sets)+len(w.all))
	w.callFaults = 0
	w.tracked = map[string]*bounds{}
	eff := w.effective()
	for _, n := range sortedSet(w.k.refs) {
		d, ok := eff[n]
		s, exists := w.k.sets[n]
		if !ok || !exists {
			continue
		}
		b := &bounds{lo: map[string]bool{}, hi: map[string]bool{}}
		for m := range s.members {
			b.hi[m] = true
			if _, want := d.members[m]; want {
				b.lo[m] = true
			}
		}
		for m := range d.members {
			b.hi[m] = true
		}
		w.tracked[n] = b
	}
}

const (
	outcomeOK = iota
	outcomeCrash
	outcomeGaveUp
)

func (w *world) callSUT(fn func()) (outcome int) {
	defer func() {
		w.inSUT = false
		if p := recover(); p != nil {
			if p == interface{}(crashSentinel) {
				outcome = outcomeCrash
				return
			}
			if w.midLineList {
				w.midLineList = false
				w.r.Probe("panic_parsing_list_cut_mid_line")
				w.r.Logf("  Felix PANICKED parsing a listing cut mid-line: %.80s", fmt.Sprint(p))
				outcome = outcomeCrash
				return
			}
			if e, ok := p.(*logrus.Entry); ok && w.outage != 0 && strings.Contains(e.Message, "Failed to update IP sets after multiple retries") {
				outcome = outcomeGaveUp
				return
			}
			panic(p)
		}
	}()
	w.inSUT = true
	fn()
	return outcomeOK
}

// ---------------------------------------------------------------- Felix object

func (w *world) newFelix(why string) {
	r := w.r
	r.Logf("NEW IPSets object (%s)", why)
	w.f = ipsets.NewIPSetsWithShims(w.vc, nopRecorder{}, w.newCmd,
		func(d time.Duration) { r.Probe("retry_backoff_sleep"); w.advance(d) },
		func() time.Time { return w.now })
	w.pendingFull = true
	w.rsActive = false
	filterFirst := r.Src.Chance(500, "restart_filter_first")
	if filterFirst {
		w.pushFilter()
	}
	for _, id := range core.SortedKeys(w.all) {
		w.pushSet(w.all[id])
	}
	if !filterFirst {
		w.pushFilter()
	}
}

func (w *world) pushFilter() {
	if w.filter == nil {
		w.f.SetFilter(nil)
		return
	}
	w.f.SetFilter(set.FromArray(sortedSet(w.filter)))
}

func (w *world) pushSet(d *dset) {
	var texts []string
	for _, c := range core.SortedKeys(d.members) {
		texts = append(texts, d.members[c])
	}
	w.f.AddOrReplaceIPSet(ipsets.IPSetMetadata{SetID: d.id, Type: d.typ, MaxSize: d.maxSize, RangeMin: d.rmin, RangeMax: d.rmax}, texts)
}

func (w *world) restart(why string) {
	w.r.Fault("process_restart")
	w.newFelix(why)
}

// ---------------------------------------------------------------- workload

func (w *world) drawMeta(d *dset, keep bool) {
	r := w.r
	if !keep || d.typ == "" {
		d.typ = allTypes[r.Src.Intn(len(allTypes), "set_type")]
	}
	d.maxSize, d.rmin, d.rmax = 0, 0, 0
	if d.typ == ipsets.IPSetTypeBitmapPort {
		rg := [][2]int{{0, 65535}, {0, 4095}, {1000, 2000}}[r.Src.Intn(3, "set_range")]
		d.rmin, d.rmax = rg[0], rg[1]
	} else {
		d.maxSize = []int{1024, 64, 65536}[r.Src.Intn(3, "set_maxsize")]
	}
}

func (w *world) knownIDs() []string { return core.SortedKeys(w.all) }

func (w *world) workloadOp() {
	r := w.r
	op := r.Src.Weighted([]int{30, 20, 20, 10, 8}, "op")
	if len(w.all) == 0 && (op == 1 || op == 2 || op == 3) {
		op = 0
	}
	switch op {
	case 0:
		id := w.ids[r.Src.Intn(len(w.ids), "op_id")]
		name := w.vc.NameForMainIPSet(id)
		old := w.all[id]
		d := &dset{id: id, name: name}
		if old != nil {
			d.typ, d.maxSize, d.rmin, d.rmax = old.typ, old.maxSize, old.rmin, old.rmax
			switch r.Src.Weighted([]int{6, 2, 2}, "replace_meta") {
			case 1:
				w.drawMeta(d, true)
				if d.maxSize != old.maxSize || d.rmin != old.rmin || d.rmax != old.rmax {
					r.Probe("size_or_range_change_requested")
				}
			case 2:
				if w.typeChange {
					w.drawMeta(d, false)
					if d.typ != old.typ {
						r.Probe("type_change_requested")
					}
				}
			}
		} else {
			w.drawMeta(d, false)
		}
		var texts []string
		d.members, texts = w.drawMembers(d.typ, "members")
		r.Op("AddOrReplaceIPSet(%s %s maxsize=%d range=%d-%d %v)", id, d.typ, d.maxSize, d.rmin, d.rmax, texts)
		w.all[id] = d
		w.f.AddOrReplaceIPSet(ipsets.IPSetMetadata{SetID: id, Type: d.typ, MaxSize: d.maxSize, RangeMin: d.rmin, RangeMax: d.rmax}, texts)
	case 1:
		ids := w.knownIDs()
		d := w.all[ids[r.Src.Intn(len(ids), "op_id")]]
		add, texts := w.drawMembers(d.typ, "add")
		r.Op("AddMembers(%s %v)", d.id, texts)
		for c, t := range add {
			if _, ok := d.members[c]; !ok {
				d.members[c] = t
			}
		}
		w.f.AddMembers(d.id, texts)
	case 2:
		ids := w.knownIDs()
		d := w.all[ids[r.Src.Intn(len(ids), "op_id")]]
		del, texts := w.drawMembers(d.typ, "del")
		r.Op("RemoveMembers(%s %v)", d.id, texts)
		for c := range del {
			delete(d.members, c)
		}
		w.f.RemoveMembers(d.id, texts)
	case 3:
		ids := w.knownIDs()
		id := ids[r.Src.Intn(len(ids), "op_id")]
		r.Op("RemoveIPSet(%s)", id)
		delete(w.all, id)
		w.f.RemoveIPSet(id)
	case 4:
		if r.Src.Chance(350, "filter_nil") {
			w.filter = nil
			r.Op("SetFilter(nil)")
		} else {
			w.filter = map[string]bool{}
			for _, id := range w.ids {
				if r.Src.Chance(550, "filter_member") {
					w.filter[w.vc.NameForMainIPSet(id)] = true
				}
			}
			r.Op("SetFilter(%v)", sortedSet(w.filter))
			for _, d := range w.all {
				if _, exists := w.k.sets[d.name]; exists && !w.filter[d.name] {
					r.Probe("filter_excludes_programmed_set")
				}
			}
		}
		w.pushFilter()
	}
}

// ---------------------------------------------------------------- out-of-band edits

func (w *world) ownedNames() []string {
	var out []string
	for _, n := range w.k.names() {
		if w.owned(n) {
			out = append(out, n)
		}
	}
	return out
}

var foreignNames = []string{"KUBE-CLUSTER-IP", "cali", "calico-nets", "cali-x", "caliX0abc", "felix-", "felix-x4", "Cali40upper", "f2b-sshd"}

func (w *world) foreignCandidates() []string {
	other := "6"
	if w.ver == "6" {
		other = "4"
	}
	out := append([]string{}, foreignNames...)
	out = append(out, "cali"+other+"0"+w.ids[0], "cali"+other+"t0", "felix-"+other+"old")
	// names that CONTAIN an owned prefix without starting with it (ownership is a prefix, anchored at the start)
	out = append(out, "bak-felix-all-ipam-pools", "edge-felix-"+w.ver+"-allow", "mycali"+w.ver+"-blocklist", "x-cali"+w.ver+"0"+w.ids[0], "old.felix-masq-ipam-pools")
	if w.ver == "6" {
		out = append(out, "felix-masq-ipam-pools")
	}
	return out
}

func (w *world) randomFill(s *kset, label string) {
	r := w.r
	fam := s.family
	if fam == "" {
		fam = w.family
	}
	for j, n := 0, r.Src.Intn(w.universe+1, label+"_n"); j < n; j++ {
		t := w.memberText(s.typ, r.Src.Intn(w.universe, label+"_idx"), 0, fam)
		if s.typ == "bitmap:port" {
			t = strings.TrimPrefix(strings.TrimPrefix(t, "v4,"), "v6,")
		}
		if c, err := canonMember(s, t); err == nil {
			s.members[c] = true
		}
	}
}

func (w *world) randomCreate(name, label string, allowUnknownType bool) {
	r := w.r
	types := []string{"hash:ip", "hash:net", "hash:ip,port", "hash:net,net", "bitmap:port"}
	if allowUnknownType {
		types = append(types, "list:set")
	}
	typ := types[r.Src.Intn(len(types), label+"_type")]
	fam := w.family
	if w.foreign(name) && r.Src.Chance(300, label+"_family") {
		fam = otherFamily(fam)
	}
	maxelem := []int{1024, 64, 65536, 100}[r.Src.Intn(4, label+"_maxelem")]
	rg := [][2]int{{0, 65535}, {0, 4095}, {1000, 2000}, {0, 1023}}[r.Src.Intn(4, label+"_range")]
	s, err := w.k.create(name, typ, fam, maxelem, rg[0], rg[1])
	if err != nil {
		return
	}
	w.randomFill(s, label)
	r.Logf("  kernel: set %s = %s", name, s.describe())
}

func (w *world) oob() {
	r := w.r
	r.Fault("out_of_band_edit")
	w.untrusted = true
	w.rsClean = false
	kind := r.Src.Weighted([]int{30, 30, 10, 12, 10, 8}, "oob_kind")
	owned := w.ownedNames()
	if len(owned) == 0 && (kind == 0 || kind == 1 || kind == 4) {
		kind = 2
	}
	switch kind {
	case 0, 1:
		n := owned[r.Src.Intn(len(owned), "oob_set")]
		s := w.k.sets[n]
		if kind == 0 {
			fam := s.family
			if fam == "" {
				fam = w.family
			}
			t := w.memberText(s.typ, r.Src.Intn(w.universe, "oob_member"), 0, fam)
			if s.typ == "bitmap:port" {
				t = strings.TrimPrefix(strings.TrimPrefix(t, "v4,"), "v6,")
			}
			c, err := canonMember(s, t)
			if err != nil {
				r.Logf("  OOB: add %s to %s rejected by kernel", t, n)
				return
			}
			s.members[c] = true
			if b := w.tracked[n]; b != nil {
				b.hi[c] = true
			}
			r.Logf("  OOB: add %s to %s", c, n)
		} else {
			ms := s.sortedMembers()
			if len(ms) == 0 {
				r.Logf("  OOB: nothing to delete from %s", n)
				return
			}
			m := ms[r.Src.Intn(len(ms), "oob_member")]
			delete(s.members, m)
			if b := w.tracked[n]; b != nil {
				delete(b.lo, m)
			}
			r.Logf("  OOB: del %s from %s", m, n)
		}
	case 2:
		c := w.foreignCandidates()
		n := c[r.Src.Intn(len(c), "oob_foreign_name")]
		r.Logf("  OOB: create foreign set %s", n)
		w.randomCreate(n, "oob_foreign", true)
	case 3:
		var n string
		if r.Src.Chance(600, "oob_stray_temp") {
			n = w.vc.NameForTempIPSet(uint(r.Src.Intn(6, "oob_temp_idx")))
		} else {
			n = fmt.Sprintf("cali%s0zz%d", w.ver, r.Src.Intn(3, "oob_stray_idx"))
		}
		r.Logf("  OOB: create Felix-named set %s", n)
		w.stray = true
		w.randomCreate(n, "oob_stray", true)
	case 4:
		var cands []string
		for _, n := range owned {
			if !w.k.refs[n] {
				cands = append(cands, n)
			}
		}
		if len(cands) == 0 {
			r.Logf("  OOB: no unreferenced Felix set to destroy")
			return
		}
		n := cands[r.Src.Intn(len(cands), "oob_destroy")]
		delete(w.k.sets, n)
		r.Logf("  OOB: destroy %s", n)
		r.Probe("oob_destroyed_felix_set")
	case 5:
		var cands []string
		for _, n := range w.k.names() {
			if w.foreign(n) {
				cands = append(cands, n)
			}
		}
		if len(cands) == 0 {
			return
		}
		n := cands[r.Src.Intn(len(cands), "oob_foreign_edit")]
		w.randomFill(w.k.sets[n], "oob_foreign_fill")
		r.Logf("  OOB: foreign set %s now %s", n, w.k.sets[n].describe())
	}
}

// ---------------------------------------------------------------- one apply iteration

func (w *world) drawCallFaults() {
	r := w.r
	w.callBudget, w.outage = 0, 0
	if !w.faultsOn {
		return
	}
	w.callBudget = r.Src.Weighted([]int{5, 3, 2, 1, 1}, "call_fault_budget")
	if r.Src.Chance(12, "outage") {
		w.outage = 1 + r.Src.Intn(3, "outage_kind")
		r.Fault("persistent_outage")
		r.Logf("  persistent ipset outage for this call (kind %d)", w.outage)
	}
}

// applyUpdates returns false when the Felix process died and was restarted.
func (w *world) applyUpdates() bool {
	r := w.r
	r.Op("ApplyUpdates")
	w.beginCall("ApplyUpdates")
	w.drawCallFaults()
	wasFull := w.pendingFull
	if w.pendingFull {
		// A new object re-reads everything before it trusts the kernel.
		w.untrusted, w.stray, w.delFailed, w.pendingFull = false, false, false, false
	}
	out := w.callSUT(func() { w.f.ApplyUpdates(nil) })
	w.outage = 0
	switch out {
	case outcomeCrash:
		w.restart("crash during ApplyUpdates")
		return false
	case outcomeGaveUp:
		r.Fault("gave_up_after_retries")
		r.Logf("  ApplyUpdates gave up after its retry budget during the outage: process exits")
		w.restart("gave up after retries")
		return false
	}
	if wasFull {
		r.Probe("start_of_day_resync")
	}
	if w.callFaults > 0 {
		r.Probe("apply_succeeded_after_faults")
	}
	if !w.untrusted {
		r.Probe("exact_check_after_updates")
		w.checkDesiredExact("ApplyUpdates returned")
	}
	return true
}

func (w *world) checkDesiredExact(when string) {
	r := w.r
	eff := w.effective()
	for _, n := range core.SortedKeys(eff) {
		d := eff[n]
		s, ok := w.k.sets[n]
		if !ok {
			r.Violation("desired_set_missing", "%s: desired set %s (id %s) does not exist in the kernel", when, n, d.id)
		}
		okParams := s.typ == string(d.typ)
		if d.typ == ipsets.IPSetTypeBitmapPort {
			okParams = okParams && s.rmin == d.rmin && s.rmax == d.rmax
		} else {
			okParams = okParams && s.maxelem == d.maxSize && s.family == w.family
		}
		r.Check("desired_set_params", okParams, "%s: set %s is %s, desired %s maxsize=%d range=%d-%d family=%s", when, n, s.params(), d.typ, d.maxSize, d.rmin, d.rmax, w.family)
		want := sortedSet(d.canon())
		got := s.sortedMembers()
		r.Check("desired_set_members", strings.Join(want, " ") == strings.Join(got, " "), "%s: set %s holds {%s}, desired {%s}", when, n, strings.Join(got, " "), strings.Join(want, " "))
	}
}

// strayOwned lists Felix-owned kernel sets that are neither desired nor
// still referenced by a rule.
func (w *world) strayOwned() []string {
	eff := w.effective()
	var out []string
	for _, n := range w.ownedNames() {
		if _, ok := eff[n]; ok || w.k.refs[n] {
			continue
		}
		out = append(out, n)
	}
	return out
}

// updateTables models the iptables step between ApplyUpdates and
// ApplyDeletions: rules now reference (some of) the desired sets; references to
// sets that are no longer desired are severed unless the simulator keeps one.
func (w *world) updateTables(clean bool) {
	r := w.r
	eff := w.effective()
	for _, n := range w.ownedNames() {
		if _, ok := eff[n]; ok {
			if r.Src.Chance(650, "ref_desired") {
				w.k.refs[n] = true
			} else {
				delete(w.k.refs, n)
			}
			continue
		}
		if w.k.refs[n] {
			if !clean && w.faultsOn && r.Src.Chance(w.pStaleRef, "stale_ref") {
				r.Fault("stale_reference_kept")
				w.rsClean = false
				continue
			}
			delete(w.k.refs, n)
		}
	}
	for _, n := range sortedSet(w.k.refs) {
		if _, ok := w.k.sets[n]; !ok {
			delete(w.k.refs, n)
		}
	}
	r.Logf("  tables updated, referenced sets: %v", sortedSet(w.k.refs))
}

// applyDeletions returns (reschedule, alive).
func (w *world) applyDeletions() (bool, bool) {
	r := w.r
	r.Op("ApplyDeletions")
	w.beginCall("ApplyDeletions")
	w.callBudget, w.outage = 0, 0
	if w.faultsOn {
		w.callBudget = r.Src.Weighted([]int{6, 2, 1}, "call_fault_budget")
	}
	resched := false
	if out := w.callSUT(func() { resched = w.f.ApplyDeletions() }); out != outcomeOK {
		w.restart("crash during ApplyDeletions")
		return false, false
	}
	r.Logf("  ApplyDeletions -> reschedule=%v", resched)
	if !w.untrusted {
		w.checkDesiredExact("ApplyDeletions returned")
	}
	if !resched {
		if w.rsActive {
			w.rsActive = false
			if w.rsClean {
				r.Probe("clean_resync_round_completed")
				w.untrusted, w.stray, w.delFailed = false, false, false
			}
		}
		if !w.untrusted && !w.stray && !w.delFailed {
			r.Probe("no_stray_check")
			st := w.strayOwned()
			r.Check("undesired_felix_set_remains", len(st) == 0, "Felix stopped asking to be rescheduled but Felix-owned, undesired, unreferenced sets remain: %v", st)
		}
	}
	return resched, true
}

func (w *world) queueResync() {
	w.r.Op("QueueResync")
	w.f.QueueResync()
	w.rsActive, w.rsClean = true, true
}

// settle: no faults; resync rounds until the kernel is exactly as desired.
func (w *world) settle(what string) {
	r := w.r
	saved := w.faultsOn
	w.faultsOn = false
	defer func() { w.faultsOn = saved }()
	r.Logf("SETTLE (%s)", what)
	for round := 1; round <= 3; round++ {
		w.queueResync()
		budget := 6 + 3*len(w.k.sets) + len(w.all)
		iters := 0
		for {
			iters++
			if iters > budget {
				r.Violation("liveness_budget", "%s: resync round %d still asks to be rescheduled after %d apply iterations", what, round, budget)
			}
			w.applyUpdates()
			w.updateTables(true)
			resched, _ := w.applyDeletions()
			if !resched {
				break
			}
		}
		if iters > 1 {
			r.Probe("settle_needed_rescheduled_iterations")
		}
		if msg := w.exactMismatch(); msg == "" {
			r.Probe(fmt.Sprintf("converged_in_round_%d", round))
			w.checkDesiredExact(what)
			return
		} else if round == 3 {
			r.Violation("no_convergence", "%s: after 3 fault-free resync rounds: %s", what, msg)
		} else {
			r.Logf("  not converged after round %d: %s", round, msg)
		}
	}
}

func (w *world) exactMismatch() string {
	eff := w.effective()
	for _, n := range core.SortedKeys(eff) {
		d := eff[n]
		s, ok := w.k.sets[n]
		if !ok {
			return "desired set " + n + " missing"
		}
		if s.typ != string(d.typ) || (d.typ == ipsets.IPSetTypeBitmapPort && (s.rmin != d.rmin || s.rmax != d.rmax)) ||
			(d.typ != ipsets.IPSetTypeBitmapPort && (s.maxelem != d.maxSize || s.family != w.family)) {
			return fmt.Sprintf("set %s is %s, desired %s maxsize=%d range=%d-%d", n, s.params(), d.typ, d.maxSize, d.rmin, d.rmax)
		}
		if strings.Join(sortedSet(d.canon()), " ") != strings.Join(s.sortedMembers(), " ") {
			return fmt.Sprintf("set %s holds {%s}, desired {%s}", n, strings.Join(s.sortedMembers(), " "), strings.Join(sortedSet(d.canon()), " "))
		}
	}
	if st := w.strayOwned(); len(st) > 0 {
		return fmt.Sprintf("undesired Felix-owned sets remain: %v", st)
	}
	return ""
}

// ---------------------------------------------------------------- run

func run(r *core.R) {
	r.FaultDecl("restore_pipe_error", "restore_start_error", "restore_fail_at_line", "restore_fail_after_commit", "crash_mid_restore",
		"list_pipe_error", "list_start_error", "list_fail_rc", "list_torn_then_error", "list_read_error", "list_torn_silently",
		"destroy_transient_failure", "destroy_in_use", "stale_reference_kept", "out_of_band_edit", "process_restart",
		"persistent_outage", "gave_up_after_retries")
	r.ProbeDecl("temp_swap_used", "referenced_params_changed_by_swap", "incremental_update_of_referenced_set", "temp_set_destroyed",
		"write_error_surfaced", "bulk_members", "list_set_not_found", "oob_edit_mid_call", "oob_destroyed_felix_set", "retry_backoff_sleep",
		"start_of_day_resync", "apply_succeeded_after_faults", "exact_check_after_updates", "no_stray_check",
		"clean_resync_round_completed", "settle_needed_rescheduled_iterations", "converged_in_round_1", "converged_in_round_2",
		"converged_in_round_3", "size_or_range_change_requested", "type_change_requested", "filter_excludes_programmed_set",
		"mid_run_settle", "list_output_cut_mid_line", "panic_parsing_list_cut_mid_line", "stale_temp_at_start", "wrong_type_at_start", "referenced_at_start")

	w := &world{r: r, k: newKernel(), all: map[string]*dset{}, now: time.Unix(1_000_000_000, 0)}
	thorough := r.Tier == "thorough"
	if r.Src.Chance(250, "ipv6") {
		w.family, w.ver = "inet6", "6"
		w.vc = ipsets.NewIPVersionConfig(ipsets.IPFamilyV6, "cali", []string{"felix-", "cali"}, nil)
	} else {
		w.family, w.ver = "inet", "4"
		w.vc = ipsets.NewIPVersionConfig(ipsets.IPFamilyV4, "cali", []string{"felix-", "cali"}, []string{"felix-masq-ipam-pools", "felix-all-ipam-pools"})
	}
	maxU, maxIDs, maxRounds := 8, 5, 10
	if thorough {
		maxU, maxIDs, maxRounds = 14, 8, 20
	}
	w.universe = r.Src.Range(1, maxU, "universe")
	// bulk profile: member lists long enough that one restore session exceeds Felix's 4 KiB write buffer, so
	// that write errors surface in the middle of a batch, several sets after the command that killed the child
	if r.Src.Chance(120, "bulk_members") {
		w.universe = r.Src.Range(100, 250, "universe_bulk")
		r.Probe("bulk_members")
	}
	nIDs := r.Src.Range(1, maxIDs, "n_ids")
	for i := 0; i < nIDs; i++ {
		id := fmt.Sprintf("s:Sim%02d-_x", i)
		if i == 3 {
			id = "s:Sim03-long-identifier-beyond-the-name-limit"
		}
		w.ids = append(w.ids, id)
	}
	w.listCost = []time.Duration{0, 10 * time.Millisecond, 60 * time.Millisecond, 150 * time.Millisecond}[r.Src.Intn(4, "list_cost")]
	w.headerExtra = r.Src.Chance(500, "header_extra")
	w.typeChange = !r.Src.Chance(300, "no_type_change")
	faults := !r.Src.Chance(150, "no_faults")
	if faults {
		w.pRestore = r.Src.Intn(250, "p_restore")
		w.pList = r.Src.Intn(150, "p_list")
		w.pDestroy = r.Src.Intn(200, "p_destroy")
		w.pOOBMid = r.Src.Intn(60, "p_oob_mid")
		w.pOOB = r.Src.Intn(300, "p_oob")
		w.pStaleRef = r.Src.Intn(500, "p_stale_ref")
		w.pRestart = r.Src.Intn(120, "p_restart")
	}
	nRounds := r.Src.Range(2, maxRounds, "rounds")
	r.Cfg("family", w.family)
	r.Cfg("universe", w.universe)
	r.Cfg("n_ids", nIDs)
	r.Cfg("rounds", nRounds)
	r.Cfg("list_cost_ms", int(w.listCost/time.Millisecond))
	r.Cfg("faults", faults)
	r.Cfg("type_change", w.typeChange)

	// Starting kernel state: whatever a previous Felix and other programs left.
	r.Logf("START STATE")
	for _, id := range w.ids {
		if r.Src.Chance(500, "start_main") {
			w.randomCreate(w.vc.NameForMainIPSet(id), "start_main", true)
			r.Probe("wrong_type_at_start")
		}
	}
	for i, n := 0, r.Src.Intn(4, "start_temps"); i < n; i++ {
		w.randomCreate(w.vc.NameForTempIPSet(uint(r.Src.Intn(8, "start_temp_idx"))), "start_temp", true)
		r.Probe("stale_temp_at_start")
	}
	for i, n := 0, r.Src.Intn(3, "start_stale"); i < n; i++ {
		names := []string{"cali" + w.ver + "0stale" + fmt.Sprint(i), "felix-" + w.ver + "old" + fmt.Sprint(i), "cali" + w.ver + "-legacy" + fmt.Sprint(i)}
		if w.ver == "4" {
			names = append(names, "felix-masq-ipam-pools", "felix-all-ipam-pools")
		}
		w.randomCreate(names[r.Src.Intn(len(names), "start_stale_name")], "start_stale", true)
	}
	fc := w.foreignCandidates()
	for i, n := 0, r.Src.Intn(4, "start_foreign"); i < n; i++ {
		w.randomCreate(fc[r.Src.Intn(len(fc), "start_foreign_name")], "start_foreign", true)
	}
	for _, n := range w.k.names() {
		if r.Src.Chance(300, "start_ref") {
			w.k.refs[n] = true
			if w.owned(n) {
				r.Probe("referenced_at_start")
			}
		}
	}
	r.Logf("  referenced at start: %v", sortedSet(w.k.refs))

	w.faultsOn = faults
	w.newFelix("start of day")

	for round := 0; round < nRounds; round++ {
		r.Logf("ROUND %d", round)
		for i, n := 0, r.Src.Intn(5, "n_ops"); i < n; i++ {
			w.workloadOp()
		}
		if r.Src.Chance(250, "queue_resync") {
			w.queueResync()
		}
		if w.faultsOn && r.Src.Chance(w.pOOB, "oob_between") {
			w.oob()
		}
		if w.faultsOn && r.Src.Chance(w.pRestart, "restart_between") {
			w.restart("restart between applies")
		}
		if r.Src.Chance(120, "mid_run_settle") {
			r.Probe("mid_run_settle")
			w.settle("mid-run settle")
			continue
		}
		for iter := 0; iter < 8; iter++ {
			if !w.applyUpdates() {
				break
			}
			w.updateTables(false)
			if w.faultsOn && r.Src.Chance(w.pRestart/4, "restart_mid_apply") {
				w.restart("restart between ApplyUpdates and ApplyDeletions")
				break
			}
			resched, alive := w.applyDeletions()
			if !alive || !resched {
				break
			}
			if r.Src.Chance(200, "resched_interrupted") {
				break
			}
		}
	}

	// Quiesce: faults stop, stale references are severed, bounded convergence.
	w.faultsOn = false
	w.settle("quiesce")

	var fp strings.Builder
	fp.WriteString(w.family + "|")
	fp.WriteString(w.k.snapshot(w.owned))
	fp.WriteString(fmt.Sprintf("|filter=%v", w.filter != nil))
	r.Fingerprint(fp.String())
}
